package main

// C15 — independent serializer of the HEVC syntax (ISO/IEC 23008-2 / Rec. ITU-T H.265 v5): 7.3.2.1 VPS, 7.3.2.2 SPS
// (7.3.3 profile_tier_level, 7.3.4 scaling_list_data, 7.3.7 st_ref_pic_set, E.2.1 VUI, E.2.2/E.2.3 HRD, range /
// multilayer / 3D / SCC extensions), 7.3.2.3 PPS (tiles, range / multilayer / 3D / SCC extensions), 7.3.6 slice
// segment header (7.3.6.2 ref_pic_lists_modification, 7.3.6.3 pred_weight_table). See c15_esgen.go for the writer.

import (
	"fmt"
	"math/rand"
)

func hevcNALHdr(nalType, tidPlus1 int) []byte { return []byte{byte(nalType << 1), byte(tidPlus1)} } // nuh_layer_id 0

// ---------------------------------------------------------------------------------------------------------------
// short-term reference picture sets, 7.3.7 / 7.4.8

type hevcRPS struct {
	S0, S1 []int64 // DeltaPocS0 (negative, decreasing) and DeltaPocS1 (positive, increasing) of 7.4.8
	U0, U1 []bool  // UsedByCurrPicS0 / S1
	Inter  bool
}

func (p *hevcRPS) numDelta() int { return len(p.S0) + len(p.S1) }
func (p *hevcRPS) numUsed() int {
	n := 0
	for _, u := range p.U0 {
		if u {
			n++
		}
	}
	for _, u := range p.U1 {
		if u {
			n++
		}
	}
	return n
}

// recRPS records the set in the convention of mp4ff's ShortTermRPS: DeltaPocS0[i]/DeltaPocS1[i] hold the distance to
// the previous entry (delta_poc_s0_minus1[i] + 1), not the accumulated DeltaPocS0 of (7-65).
func (w *esW) recRPS(p *hevcRPS) {
	w.rec("NumNegativePics", len(p.S0))
	w.rec("NumPositivePics", len(p.S1))
	w.rec("NumDeltaPocs", p.numDelta())
	d0 := make([]uint64, len(p.S0))
	prev := int64(0)
	for i, v := range p.S0 {
		d0[i] = uint64(prev - v)
		prev = v
	}
	d1 := make([]uint64, len(p.S1))
	prev = 0
	for i, v := range p.S1 {
		d1[i] = uint64(v - prev)
		prev = v
	}
	w.rec("DeltaPocS0", d0)
	w.rec("DeltaPocS1", d1)
	w.rec("UsedByCurrPicS0", append([]bool{}, p.U0...))
	w.rec("UsedByCurrPicS1", append([]bool{}, p.U1...))
}

// hevcSTRPS writes st_ref_pic_set(idx) and returns the set a decoder derives ((7-61)..(7-66)).
func (g *esG) hevcSTRPS(idx, num int, sets []*hevcRPS) *hevcRPS {
	w, r := g.w, g.r
	out := &hevcRPS{}
	inter := false
	if idx != 0 {
		inter = w.f(g.p(0.4))
	}
	if inter {
		g.tag("st-rps-inter")
		out.Inter = true
		deltaIdx := 1
		if idx == num { // only in a slice header
			deltaIdx = 1 + r.Intn(idx)
			w.ue(uint64(deltaIdx - 1))
		}
		ref := sets[idx-deltaIdx]
		sign := int64(r.Intn(2))
		abs := int64(g.rng(0, 6))
		if g.p(0.15) {
			abs = g.rng(0, 100)
		}
		w.u(1, uint64(sign))
		w.ue(uint64(abs))
		deltaRps := (1 - 2*sign) * (abs + 1)
		n := ref.numDelta()
		used := make([]bool, n+1)
		useDelta := make([]bool, n+1)
		nNeg, nPos := len(ref.S0), len(ref.S1)
		for j := 0; j <= n; j++ {
			// an entry that would get POC difference 0 (the current picture) is never taken over: the formulas (7-61) and
			// (7-62) drop it while reference decoders count it as positive, so no encoder signals it
			zero := (j < nNeg && ref.S0[j]+deltaRps == 0) || (j >= nNeg && j < n && ref.S1[j-nNeg]+deltaRps == 0)
			drop := zero || (j == n && n >= 15) // and keep NumDeltaPocs <= 15
			used[j] = g.p(0.55) && !drop
			useDelta[j] = true
			w.f(used[j])
			if !used[j] {
				useDelta[j] = g.p(0.5) && !drop
				w.f(useDelta[j])
			}
		}
		// (7-61)
		for j := nPos - 1; j >= 0; j-- {
			d := ref.S1[j] + deltaRps
			if d < 0 && useDelta[nNeg+j] {
				out.S0 = append(out.S0, d)
				out.U0 = append(out.U0, used[nNeg+j])
			}
		}
		if deltaRps < 0 && useDelta[n] {
			out.S0 = append(out.S0, deltaRps)
			out.U0 = append(out.U0, used[n])
		}
		for j := 0; j < nNeg; j++ {
			d := ref.S0[j] + deltaRps
			if d < 0 && useDelta[j] {
				out.S0 = append(out.S0, d)
				out.U0 = append(out.U0, used[j])
			}
		}
		// (7-62)
		for j := nNeg - 1; j >= 0; j-- {
			d := ref.S0[j] + deltaRps
			if d > 0 && useDelta[j] {
				out.S1 = append(out.S1, d)
				out.U1 = append(out.U1, used[j])
			}
		}
		if deltaRps > 0 && useDelta[n] {
			out.S1 = append(out.S1, deltaRps)
			out.U1 = append(out.U1, used[n])
		}
		for j := 0; j < nPos; j++ {
			d := ref.S1[j] + deltaRps
			if d > 0 && useDelta[nNeg+j] {
				out.S1 = append(out.S1, d)
				out.U1 = append(out.U1, used[nNeg+j])
			}
		}
		return out
	}
	g.tag("st-rps-explicit")
	nNeg := int(g.rng(0, 4))
	if g.p(0.1) {
		nNeg = int(g.rng(0, 15))
	}
	nPos := int(g.rng(0, 3))
	if g.p(0.1) {
		nPos = int(g.rng(0, 15))
	}
	if nNeg+nPos > 15 {
		nPos = 15 - nNeg
	}
	w.ue(uint64(nNeg))
	w.ue(uint64(nPos))
	delta := func() int64 {
		if g.p(0.1) {
			return g.rng(0, 1500)
		}
		return g.rng(0, 5)
	}
	prev := int64(0)
	for i := 0; i < nNeg; i++ {
		d := delta()
		w.ue(uint64(d))
		prev -= d + 1
		out.S0 = append(out.S0, prev)
		out.U0 = append(out.U0, w.f(g.p(0.6)))
	}
	prev = 0
	for i := 0; i < nPos; i++ {
		d := delta()
		w.ue(uint64(d))
		prev += d + 1
		out.S1 = append(out.S1, prev)
		out.U1 = append(out.U1, w.f(g.p(0.6)))
	}
	return out
}

// ---------------------------------------------------------------------------------------------------------------
// profile_tier_level, 7.3.3

type hevcPTLInfo struct {
	Space      uint64
	Tier       bool
	IDC        uint64
	Compat     uint64 // general_profile_compatibility_flag[0] is the most significant of 32 bits
	Constraint uint64 // the 48 bits from general_progressive_source_flag on
	Level      uint64
}

func (g *esG) hevcPTL(maxSubLayersMinus1 int) hevcPTLInfo {
	w, r := g.w, g.r
	var t hevcPTLInfo
	profile := func(pfx string, gen bool) (space uint64, tier bool, idc, compat, constraint uint64) {
		if g.p(0.1) {
			space = uint64(r.Intn(4))
		}
		idc = uint64(g.rng(1, 11))
		if g.p(0.15) {
			idc = uint64(r.Intn(32))
		}
		switch x := r.Intn(10); {
		case x < 4:
			compat = 1 << (31 - idc%32)
		case x < 6:
			compat = 1<<(31-idc%32) | 1<<29
		default:
			compat = g.bits64(32)
		}
		switch x := r.Intn(10); {
		case x < 3:
			constraint = 0
		case x < 6:
			constraint = uint64(r.Intn(16)) << 44 // only the four source/constraint flags
		case x < 8:
			constraint = g.bits64(16) << 32
		default:
			constraint = g.bits64(48)
		}
		n := func(s string) string { return pfx + s }
		w.U(n("ProfileSpace"), 2, space)
		tier = w.F(n("TierFlag"), g.p(0.3))
		w.U(n("ProfileIDC"), 5, idc)
		w.U(n("ProfileCompatibilityFlags"), 32, compat)
		w.u(48, constraint)
		w.rec(n("ProgressiveSourceFlag"), constraint>>47&1 == 1)
		w.rec(n("InterlacedSourceFlag"), constraint>>46&1 == 1)
		w.rec(n("NonPackedConstraintFlag"), constraint>>45&1 == 1)
		w.rec(n("FrameOnlyConstraintFlag"), constraint>>44&1 == 1)
		if gen {
			w.rec("GeneralConstraintIndicatorFlags", constraint)
		} else {
			w.rec("ConstraintFlags", constraint)
		}
		return
	}
	t.Space, t.Tier, t.IDC, t.Compat, t.Constraint = profile("General", true)
	if g.p(0.85) {
		t.Level = uint64([]int{30, 60, 63, 90, 93, 120, 123, 150, 153, 156, 180, 183, 186}[r.Intn(13)])
	} else {
		t.Level = uint64(r.Intn(256))
	}
	w.U("GeneralLevelIDC", 8, t.Level)
	n := maxSubLayersMinus1
	w.rec("SubLayers.len", n)
	pp := make([]bool, n)
	lp := make([]bool, n)
	for i := 0; i < n; i++ {
		w.push(fmt.Sprintf("SubLayers[%d]", i))
		pp[i] = w.F("ProfilePresentFlag", g.p(0.4))
		lp[i] = w.F("LevelPresentFlag", g.p(0.5))
		w.pop()
	}
	if n > 0 {
		for i := n; i < 8; i++ {
			w.u(2, 0) // reserved_zero_2bits
		}
	}
	for i := 0; i < n; i++ {
		w.push(fmt.Sprintf("SubLayers[%d]", i))
		if pp[i] {
			g.tag("ptl-sub-layer-profile")
			profile("", false)
		}
		if lp[i] {
			g.tag("ptl-sub-layer-level")
			w.U("LayerIDC", 8, uint64(r.Intn(256)))
		}
		w.pop()
	}
	return t
}

// scaling_list_data(), 7.3.4 — not exposed by mp4ff, only skipped.
func (g *esG) hevcScalingListData() {
	w, r := g.w, g.r
	for sizeID := 0; sizeID < 4; sizeID++ {
		step := 1
		if sizeID == 3 {
			step = 3
		}
		for matrixID := 0; matrixID < 6; matrixID += step {
			if !w.f(g.p(0.5)) { // scaling_list_pred_mode_flag
				max := matrixID
				if sizeID == 3 {
					max = matrixID / 3
				}
				w.ue(uint64(r.Intn(max + 1))) // scaling_list_pred_matrix_id_delta
				continue
			}
			coefNum := 1 << uint(4+(sizeID<<1))
			if coefNum > 64 {
				coefNum = 64
			}
			if sizeID > 1 {
				w.se(g.signed(-7, 247)) // scaling_list_dc_coef_minus8
			}
			for i := 0; i < coefNum; i++ {
				w.se(g.signed(-128, 127)) // scaling_list_delta_coef
			}
		}
	}
}

// sub_layer_hrd_parameters(), E.2.3
func (g *esG) hevcSubLayerHRD(name string, cpbCnt uint64, subPic bool) {
	w := g.w
	w.rec(name+".len", cpbCnt+1)
	for i := uint64(0); i <= cpbCnt; i++ {
		w.push(fmt.Sprintf("%s[%d]", name, i))
		w.UE("BitRateValueMinus1", g.small(1<<32-2))
		w.UE("CpbSizeValueMinus1", g.small(1<<32-2))
		if subPic {
			w.UE("CpbSizeDuValueMinus1", g.small(1<<32-2))
			w.UE("BitRateDuValueMinus1", g.small(1<<32-2))
		}
		w.F("CbrFlag", g.p(0.5))
		w.pop()
	}
}

// hrd_parameters(commonInfPresentFlag, maxNumSubLayersMinus1), E.2.2
func (g *esG) hevcHRD(common bool, maxSub int) {
	w := g.w
	var nal, vcl, subPic bool
	if common {
		nal = w.F("NalHrdParametersPresentFlag", g.p(0.5))
		vcl = w.F("VclHrdParametersPresentFlag", g.p(0.4))
		if nal || vcl {
			subPic = w.F("SubPicHrdParamsPresentFlag", g.p(0.4))
			if subPic {
				g.tag("hrd-sub-pic")
				w.U("TickDivisorMinus2", 8, g.bits64(8))
				w.U("DuCpbRemovalDelayIncrementLengthMinus1", 5, g.bits64(5))
				w.F("SubPicCpbParamsInPicTimingSeiFlag", g.p(0.5))
				w.U("DpbOutputDelayDuLengthMinus1", 5, g.bits64(5))
			}
			w.U("BitRateScale", 4, g.bits64(4))
			w.U("CpbSizeScale", 4, g.bits64(4))
			if subPic {
				w.U("CpbSizeDuScale", 4, g.bits64(4))
			}
			w.U("InitialCpbRemovalDelayLengthMinus1", 5, g.bits64(5))
			w.U("AuCpbRemovalDelayLengthMinus1", 5, g.bits64(5))
			w.U("DpbOutputDelayLengthMinus1", 5, g.bits64(5))
		}
	}
	w.rec("SubLayerHrd.len", maxSub+1)
	for i := 0; i <= maxSub; i++ {
		w.push(fmt.Sprintf("SubLayerHrd[%d]", i))
		general := w.F("FixedPicRateGeneralFlag", g.p(0.5))
		within := true // inferred 1 when fixed_pic_rate_general_flag is 1
		if !general {
			within = w.f(g.p(0.5))
		}
		w.rec("FixedPicRateWithinCvsFlag", within)
		lowDelay := false
		if within {
			w.UE("ElementalDurationInTcMinus1", g.small(2047))
		} else {
			lowDelay = w.F("LowDelayHrdFlag", g.p(0.5))
		}
		cpbCnt := uint64(0)
		if !lowDelay {
			cpbCnt = w.UE("CpbCntMinus1", g.small(31))
		}
		if nal {
			g.hevcSubLayerHRD("NalHrdParameters", cpbCnt, subPic)
		}
		if vcl {
			g.hevcSubLayerHRD("VclHrdParameters", cpbCnt, subPic)
		}
		w.pop()
	}
}

// vui_parameters(), E.2.1
func (g *esG) hevcVUI(maxSub int) {
	w := g.w
	if w.f(g.p(0.6)) {
		var idc uint64
		switch x := g.r.Intn(10); {
		case x < 5:
			idc = uint64(g.rng(1, 16))
		case x < 8:
			idc = 255
		default:
			idc = 0
		}
		w.u(8, idc)
		switch {
		case idc == 255:
			g.tag("vui-sar-extended")
			w.U("SampleAspectRatioWidth", 16, g.bits64(16))
			w.U("SampleAspectRatioHeight", 16, g.bits64(16))
		case idc == 0:
			g.tag("vui-sar-unspecified")
		default:
			g.tag("vui-sar-table")
			w.rec("SampleAspectRatioWidth", avcSARTable[idc][0])
			w.rec("SampleAspectRatioHeight", avcSARTable[idc][1])
		}
	}
	if w.F("OverscanInfoPresentFlag", g.p(0.4)) {
		w.F("OverscanAppropriateFlag", g.p(0.5))
	}
	if w.F("VideoSignalTypePresentFlag", g.p(0.5)) {
		w.U("VideoFormat", 3, g.bits64(3))
		w.F("VideoFullRangeFlag", g.p(0.5))
		if w.F("ColourDescriptionFlag", g.p(0.6)) {
			w.U("ColourPrimaries", 8, g.bits64(8))
			w.U("TransferCharacteristics", 8, g.bits64(8))
			w.U("MatrixCoefficients", 8, g.bits64(8))
		}
	}
	if w.F("ChromaLocInfoPresentFlag", g.p(0.4)) {
		w.UE("ChromaSampleLocTypeTopField", uint64(g.rng(0, 5)))
		w.UE("ChromaSampleLocTypeBottomField", uint64(g.rng(0, 5)))
	}
	w.F("NeutralChromaIndicationFlag", g.p(0.3))
	w.F("FieldSeqFlag", g.p(0.3))
	w.F("FrameFieldInfoPresentFlag", g.p(0.4))
	if w.F("DefaultDisplayWindowFlag", g.p(0.4)) {
		w.UE("DefDispWinLeftOffset", g.small(1<<16))
		w.UE("DefDispWinRightOffset", g.small(1<<16))
		w.UE("DefDispWinTopOffset", g.small(1<<16))
		w.UE("DefDispWinBottomOffset", g.small(1<<16))
	}
	if w.F("TimingInfoPresentFlag", g.p(0.6)) {
		g.tag("vui-timing")
		w.U("NumUnitsInTick", 32, 1+g.small(1<<32-2))
		w.U("TimeScale", 32, 1+g.small(1<<32-2))
		if w.F("PocProportionalToTimingFlag", g.p(0.5)) {
			w.UE("NumTicksPocDiffOneMinus1", g.small(1<<32-2))
		}
		if w.F("HrdParametersPresentFlag", g.p(0.5)) {
			g.tag("vui-hrd")
			w.push("HrdParameters")
			g.hevcHRD(true, maxSub)
			w.pop()
		} else {
			w.rec("HrdParameters", "nil")
		}
	}
	if w.F("BitstreamRestrictionFlag", g.p(0.5)) {
		g.tag("vui-bitstream-restriction")
		w.push("BitstreamResctrictions")
		w.F("TilesFixedStructureFlag", g.p(0.5))
		w.F("MVOverPicBoundariesFlag", g.p(0.5))
		w.F("RestrictedRefsPicsListsFlag", g.p(0.5))
		w.UE("MinSpatialSegmentationIDC", g.small(4095))
		w.UE("MaxBytesPerPicDenom", g.small(16))
		w.UE("MaxBitsPerMinCuDenom", g.small(16))
		w.UE("Log2MaxMvLengthHorizontal", g.small(16))
		w.UE("Log2MaxMvLengthVertical", g.small(15))
		w.pop()
	} else {
		w.rec("BitstreamResctrictions", "nil")
	}
}

// ---------------------------------------------------------------------------------------------------------------
// SPS, 7.3.2.2

type hevcSPSInfo struct {
	ID, VPSID           uint32
	MaxSubLayersM1      int
	TemporalIDNesting   bool
	PTL                 hevcPTLInfo
	ChromaFormatIDC     int
	SeparateColourPlane bool
	PicW, PicH          uint64 // pic_width/height_in_luma_samples
	Width, Height       uint64 // conformance-window cropped
	BitDepthLumaM8      uint64
	BitDepthChromaM8    uint64
	Log2MaxPocLsb       int
	CtbLog2             int
	Log2DiffMaxMinCb    uint64
	PicWInCtbs          uint64
	PicHInCtbs          uint64
	RPS                 []*hevcRPS
	LongTermPresent     bool
	LtPoc               []uint64
	LtUsed              []bool
	TemporalMvp         bool
	SAO                 bool
	MvResCtrlIdc        uint64 // SPS SCC extension, 0 when absent
	NALU                []byte
	Exp                 []esKV
	Tags                []string
}

func (s *hevcSPSInfo) chromaArrayType() int {
	if s.SeparateColourPlane {
		return 0
	}
	return s.ChromaFormatIDC
}
func (s *hevcSPSInfo) picSizeInCtbs() uint64 { return s.PicWInCtbs * s.PicHInCtbs }

func genHEVCSPS(r *rand.Rand) (*hevcSPSInfo, []byte) {
	s := genHEVCSPSOpt(r, esOpt{ID: -1})
	return s, s.NALU
}

func genHEVCSPSOpt(r *rand.Rand, o esOpt) *hevcSPSInfo {
	g := newEsG(r)
	w := g.w
	s := &hevcSPSInfo{}
	s.VPSID = uint32(w.U("VpsID", 4, uint64(g.small(15))))
	s.MaxSubLayersM1 = int(g.small(6))
	w.U("MaxSubLayersMinus1", 3, uint64(s.MaxSubLayersM1))
	s.TemporalIDNesting = w.F("TemporalIDNestingFlag", s.MaxSubLayersM1 == 0 || g.p(0.5))
	w.push("ProfileTierLevel")
	s.PTL = g.hevcPTL(s.MaxSubLayersM1)
	w.pop()
	if o.ID >= 0 {
		s.ID = uint32(o.ID)
	} else {
		s.ID = uint32(g.small(15))
	}
	w.UE("SpsID", uint64(s.ID))
	s.ChromaFormatIDC = []int{0, 1, 1, 1, 2, 3, 3}[r.Intn(7)]
	w.UE("ChromaFormatIDC", uint64(s.ChromaFormatIDC))
	if s.ChromaFormatIDC == 3 {
		s.SeparateColourPlane = w.F("SeparateColourPlaneFlag", g.p(0.5))
	}
	// coding block sizes are drawn first: the picture size must be a multiple of MinCbSizeY
	minCbLog2 := 3 + int(g.rng(0, 3))
	s.Log2DiffMaxMinCb = uint64(g.rng(0, int64(6-minCbLog2)))
	s.CtbLog2 = minCbLog2 + int(s.Log2DiffMaxMinCb)
	minCb := uint64(1) << uint(minCbLog2)
	dim := func() uint64 {
		if o.Modest {
			return minCb * uint64(g.rng(int64(64/minCb), int64(4096/minCb)))
		}
		switch x := r.Intn(100); {
		case x < 50:
			return minCb * uint64(g.rng(1, 40))
		case x < 90:
			return minCb * uint64(g.rng(1, 1024))
		default:
			return minCb * uint64(g.rng(1, 1<<16/int64(minCb)))
		}
	}
	s.PicW, s.PicH = dim(), dim()
	w.UE("PicWidthInLumaSamples", s.PicW)
	w.UE("PicHeightInLumaSamples", s.PicH)
	ctb := uint64(1) << uint(s.CtbLog2)
	s.PicWInCtbs = (s.PicW + ctb - 1) / ctb
	s.PicHInCtbs = (s.PicH + ctb - 1) / ctb
	s.Width, s.Height = s.PicW, s.PicH
	if w.F("ConformanceWindowFlag", g.p(0.5)) {
		g.tag("conformance-window")
		// Table 6-1: SubWidthC, SubHeightC
		subW, subH := uint64(1), uint64(1)
		switch s.ChromaFormatIDC {
		case 1:
			subW, subH = 2, 2
		case 2:
			subW, subH = 2, 1
		}
		tx := g.small((s.PicW - 1) / subW) // SubWidthC * (left + right) < pic_width_in_luma_samples
		ty := g.small((s.PicH - 1) / subH)
		if o.Modest {
			tx = uint64(g.rng(0, int64(s.PicW/subW/2)))
			ty = uint64(g.rng(0, int64(s.PicH/subH/2)))
		}
		l := uint64(g.rng(0, int64(tx)))
		t := uint64(g.rng(0, int64(ty)))
		w.push("ConformanceWindow")
		w.UE("LeftOffset", l)
		w.UE("RightOffset", tx-l)
		w.UE("TopOffset", t)
		w.UE("BottomOffset", ty-t)
		w.pop()
		s.Width = s.PicW - subW*tx
		s.Height = s.PicH - subH*ty
	}
	w.rec("ImageSize.Width", s.Width)
	w.rec("ImageSize.Height", s.Height)
	s.BitDepthLumaM8 = w.UE("BitDepthLumaMinus8", g.small(8))
	s.BitDepthChromaM8 = w.UE("BitDepthChromaMinus8", g.small(8))
	s.Log2MaxPocLsb = 4 + int(w.UE("Log2MaxPicOrderCntLsbMinus4", g.small(12)))
	ordering := w.F("SubLayerOrderingInfoPresentFlag", g.p(0.5))
	first := s.MaxSubLayersM1
	if ordering {
		first = 0
	}
	w.rec("SubLayeringOrderingInfos.len", s.MaxSubLayersM1-first+1)
	for i := first; i <= s.MaxSubLayersM1; i++ {
		w.push(fmt.Sprintf("SubLayeringOrderingInfos[%d]", i-first))
		dpb := w.UE("MaxDecPicBufferingMinus1", g.small(15))
		w.UE("MaxNumReorderPics", g.small(dpb))
		lat := g.small(40)
		if g.p(0.04) {
			lat = g.small(1<<32 - 2)
			if lat > 255 {
				g.tag("max-latency-increase-plus1-above-255")
			}
		}
		w.UE("MaxLatencyIncreasePlus1", lat)
		w.pop()
	}
	w.UE("Log2MinLumaCodingBlockSizeMinus3", uint64(minCbLog2-3))
	w.UE("Log2DiffMaxMinLumaCodingBlockSize", s.Log2DiffMaxMinCb)
	minTb := int(g.rng(2, int64(minCbLog2-1))) // MinTbLog2SizeY < MinCbLog2SizeY
	maxTbLim := s.CtbLog2
	if maxTbLim > 5 {
		maxTbLim = 5
	}
	w.UE("Log2MinLumaTransformBlockSizeMinus2", uint64(minTb-2))
	w.UE("Log2DiffMaxMinLumaTransformBlockSize", uint64(g.rng(0, int64(maxTbLim-minTb))))
	w.UE("MaxTransformHierarchyDepthInter", uint64(g.rng(0, int64(s.CtbLog2-minTb))))
	w.UE("MaxTransformHierarchyDepthIntra", uint64(g.rng(0, int64(s.CtbLog2-minTb))))
	if w.F("ScalingListEnabledFlag", g.p(0.4)) {
		if w.F("ScalingListDataPresentFlag", g.p(0.6)) {
			g.tag("sps-scaling-list-data")
			g.hevcScalingListData()
		}
	}
	w.F("AmpEnabledFlag", g.p(0.5))
	s.SAO = w.F("SampleAdaptiveOffsetEnabledFlag", g.p(0.5))
	if w.F("PCMEnabledFlag", g.p(0.3)) {
		g.tag("pcm")
		w.U("PcmSampleBitDepthLumaMinus1", 4, uint64(g.rng(0, int64(7+s.BitDepthLumaM8))))
		w.U("PcmSampleBitDepthChromaMinus1", 4, uint64(g.rng(0, int64(7+s.BitDepthChromaM8))))
		lo := int64(minCbLog2)
		if lo > 5 {
			lo = 5
		}
		hi := int64(s.CtbLog2)
		if hi > 5 {
			hi = 5
		}
		minPcm := g.rng(lo, hi) // Log2MinIpcmCbSizeY in Min(MinCbLog2SizeY,5)..Min(CtbLog2SizeY,5)
		w.UE("Log2MinPcmLumaCodingBlockSize", uint64(minPcm-3))
		w.UE("Log2DiffMaxMinPcmLumaCodingBlockSize", uint64(g.rng(0, hi-minPcm)))
		w.F("PcmLoopFilterDisabledFlag", g.p(0.5))
	}
	nRPS := int(g.rng(0, 5))
	if g.p(0.08) {
		nRPS = int(g.rng(0, 64))
	}
	w.UE("NumShortTermRefPicSets", uint64(nRPS))
	w.rec("ShortTermRefPicSets.len", nRPS)
	for i := 0; i < nRPS; i++ {
		rps := g.hevcSTRPS(i, nRPS, s.RPS)
		s.RPS = append(s.RPS, rps)
		w.push(fmt.Sprintf("ShortTermRefPicSets[%d]", i))
		w.recRPS(rps)
		w.pop()
	}
	s.LongTermPresent = w.F("LongTermRefPicsPresentFlag", g.p(0.4))
	if s.LongTermPresent {
		g.tag("long-term-ref-pics")
		n := int(g.rng(0, 3))
		if g.p(0.1) {
			n = int(g.rng(0, 32))
		}
		w.UE("NumLongTermRefPics", uint64(n))
		w.rec("LongTermRefPicSets.len", n)
		for i := 0; i < n; i++ {
			w.push(fmt.Sprintf("LongTermRefPicSets[%d]", i))
			s.LtPoc = append(s.LtPoc, w.U("PocLsbLt", s.Log2MaxPocLsb, g.bits64(s.Log2MaxPocLsb)))
			s.LtUsed = append(s.LtUsed, w.F("UsedByCurrPicLtFlag", g.p(0.5)))
			w.pop()
		}
	}
	s.TemporalMvp = w.F("SpsTemporalMvpEnabledFlag", g.p(0.5))
	w.F("StrongIntraSmoothingEnabledFlag", g.p(0.5))
	if w.F("VUIParametersPresentFlag", g.p(0.55)) {
		g.tag("vui")
		w.push("VUI")
		g.hevcVUI(s.MaxSubLayersM1)
		w.pop()
	} else {
		w.rec("VUI", "nil")
	}
	var rangeExt, multi, d3, scc bool
	var ext4 uint64
	if w.F("ExtensionPresentFlag", g.p(0.4)) {
		rangeExt = w.F("RangeExtensionFlag", g.p(0.5))
		multi = w.F("MultilayerExtensionFlag", g.p(0.25))
		d3 = w.F("D3ExtensionFlag", g.p(0.25))
		scc = w.F("SccExtensionFlag", g.p(0.35))
		if g.p(0.2) {
			ext4 = uint64(g.rng(1, 15))
		}
		w.U("Extension4bits", 4, ext4)
	}
	if rangeExt {
		g.tag("sps-range-extension")
		w.push("RangeExtension")
		for _, n := range []string{"TransformSkipRotationEnabledFlag", "TransformSkipContextEnabledFlag",
			"ImplicitRdpcmEnabledFlag", "ExplicitRdpcmEnabledFlag", "ExtendedPrecisionProcessingFlag",
			"IntraSmoothingDisabledFlag", "HighPrecisionOffsetsEnabledFlag", "PersistentRiceAdaptationEnabledFlag",
			"CabacBypassAlignmentEnabledFlag"} {
			w.F(n, g.p(0.5))
		}
		w.pop()
	} else {
		w.rec("RangeExtension", "nil")
	}
	if multi {
		g.tag("sps-multilayer-extension")
		w.F("MultilayerExtension.InterViewMvVertConstraintFlag", g.p(0.5))
	} else {
		w.rec("MultilayerExtension", "nil")
	}
	if d3 { // I.7.3.2.2.5 sps_3d_extension
		g.tag("sps-3d-extension")
		w.push("D3Extension")
		w.F("IvDiMcEnabledFlag0", g.p(0.5))
		w.F("IvMvScalEnabledFlag0", g.p(0.5))
		w.UE("Og2IvmcSubPbSizeMinus3", g.small(3))
		w.F("IvResPredEnabledFlag", g.p(0.5))
		w.F("DepthRefEnabledFlag", g.p(0.5))
		w.F("VspMcEnabledFlag", g.p(0.5))
		w.F("DbbpEnabledFlag", g.p(0.5))
		w.F("IvDiMcEnabledFlag1", g.p(0.5))
		w.F("IvMvScalEnabledFlag1", g.p(0.5))
		w.F("TexMcEnabledFlag", g.p(0.5))
		w.UE("Log2TexmcSubPbSizeMinus3", g.small(3))
		w.F("IntraContourEnabledFlag", g.p(0.5))
		w.F("IntraDcOnlyWedgeEnabledFlag", g.p(0.5))
		w.F("CqtCuPartPredEnabledFlag", g.p(0.5))
		w.F("InterDcOnlyEnabledFlag", g.p(0.5))
		w.F("SkipIntraEnabledFlag", g.p(0.5))
		w.pop()
	} else {
		w.rec("D3Extension", "nil")
	}
	if scc { // 7.3.2.2.3 sps_scc_extension
		g.tag("sps-scc-extension")
		w.push("SccExtension")
		w.F("CurrPicRefEnabledFlag", g.p(0.5))
		if w.F("PaletteModeEnabledFlag", g.p(0.5)) {
			w.UE("PaletteMaxSize", g.small(64))
			w.UE("DeltaPaletteMaxPredictorSize", g.small(64))
			if w.F("PalettePredictorInitializersPresentFlag", g.p(0.6)) {
				g.tag("sps-palette-initializers")
				n := w.UE("NumPalettePredictorInitializersMinus1", g.small(20))
				comps := 3
				if s.ChromaFormatIDC == 0 {
					comps = 1
				}
				w.rec("PalettePredictorInitializer.len", comps)
				for c := 0; c < comps; c++ {
					depth := int(8 + s.BitDepthLumaM8)
					if c > 0 {
						depth = int(8 + s.BitDepthChromaM8)
					}
					l := make([]uint64, n+1)
					for i := range l {
						l[i] = g.bits64(depth)
						w.u(depth, l[i])
					}
					w.rec(fmt.Sprintf("PalettePredictorInitializer[%d]", c), l)
				}
			}
		}
		s.MvResCtrlIdc = w.U("MotionVectorResolutionControlIdc", 2, uint64(r.Intn(3)))
		w.F("IntraBoundaryFilteringDisabledFlag", g.p(0.5))
		w.pop()
	} else {
		w.rec("SccExtension", "nil")
	}
	if ext4 != 0 { // sps_extension_data_flag while more_rbsp_data()
		g.tag("sps-extension-data")
		l := make([]bool, r.Intn(20))
		pOne := 0.5
		if g.p(0.4) { // long and mostly zero: emulation prevention bytes inside the more_rbsp_data() loop
			l = make([]bool, r.Intn(80))
			pOne = 0.04
		}
		for i := range l {
			l[i] = w.f(g.p(pOne))
		}
		w.rec("ExtensionDataFlag", l)
	}
	w.trailing()
	s.NALU, _ = esNALU(hevcNALHdr(33, 1), w.buf)
	if len(s.NALU)-2 != len(w.buf) {
		g.tag("emulation-prevention")
	}
	s.Exp = w.exp
	s.Tags = tagList(g.tags)
	return s
}

// ---------------------------------------------------------------------------------------------------------------
// VPS, 7.3.2.1 — mp4ff has no VPS parser; the NAL unit is produced for configuration records (carried verbatim).

func genHEVCVPS(r *rand.Rand, sps *hevcSPSInfo) []byte {
	g := newEsG(r)
	w := g.w
	maxSub := 0
	id := uint64(r.Intn(16))
	if sps != nil {
		maxSub = sps.MaxSubLayersM1
		id = uint64(sps.VPSID)
	}
	w.u(4, id)
	w.f(true)                    // vps_base_layer_internal_flag
	w.f(true)                    // vps_base_layer_available_flag
	w.u(6, 0)                    // vps_max_layers_minus1
	w.u(3, uint64(maxSub))       // vps_max_sub_layers_minus1
	w.f(maxSub == 0 || g.p(0.5)) // vps_temporal_id_nesting_flag
	w.u(16, 0xffff)              // vps_reserved_0xffff_16bits
	g.hevcPTL(maxSub)
	ordering := w.f(g.p(0.5))
	first := maxSub
	if ordering {
		first = 0
	}
	for i := first; i <= maxSub; i++ {
		dpb := g.small(15)
		w.ue(dpb)
		w.ue(g.small(dpb))
		w.ue(g.small(40))
	}
	maxLayerID := uint64(g.small(3))
	w.u(6, maxLayerID)
	nSets := g.small(2)
	w.ue(nSets) // vps_num_layer_sets_minus1
	for i := uint64(1); i <= nSets; i++ {
		for j := uint64(0); j <= maxLayerID; j++ {
			w.f(g.p(0.5))
		}
	}
	if w.f(g.p(0.5)) { // vps_timing_info_present_flag
		w.u(32, 1+g.small(1<<32-2))
		w.u(32, 1+g.small(1<<32-2))
		if w.f(g.p(0.5)) {
			w.ue(g.small(1<<32 - 2))
		}
		nHrd := g.small(2)
		w.ue(nHrd)
		for i := uint64(0); i < nHrd; i++ {
			w.ue(g.small(nSets)) // hrd_layer_set_idx
			cprms := true
			if i > 0 {
				cprms = w.f(g.p(0.5))
			}
			g.hevcHRD(cprms, maxSub)
		}
	}
	if w.f(g.p(0.15)) { // vps_extension_flag
		for i := r.Intn(12); i > 0; i-- {
			w.f(g.p(0.5))
		}
	}
	w.trailing()
	nalu, _ := esNALU(hevcNALHdr(32, 1), w.buf)
	return nalu
}

// ---------------------------------------------------------------------------------------------------------------
// PPS, 7.3.2.3

type hevcPPSInfo struct {
	ID, SPSID                 uint32
	DependentSlices           bool
	OutputFlagPresent         bool
	NumExtraSliceHeaderBits   int
	CabacInitPresent          bool
	NumRefIdxL0Def            uint64
	NumRefIdxL1Def            uint64
	SliceChromaQpOffsets      bool
	WeightedPred              bool
	WeightedBipred            bool
	Tiles                     bool
	EntropySync               bool
	LoopFilterAcrossSlices    bool
	DeblockOverrideEnabled    bool
	DeblockDisabled           bool
	ListsModificationPresent  bool
	SliceHeaderExtension      bool
	ChromaQpOffsetListEnabled bool // range extension
	CurrPicRef                bool // SCC extension
	SliceActQpOffsetsPresent  bool // SCC extension
	NALU                      []byte
	Exp                       []esKV
	Tags                      []string
}

func genHEVCPPS(r *rand.Rand, sps *hevcSPSInfo) (*hevcPPSInfo, []byte) {
	p := genHEVCPPSOpt(r, sps, esOpt{ID: -1})
	return p, p.NALU
}

func genHEVCPPSOpt(r *rand.Rand, sps *hevcSPSInfo, o esOpt) *hevcPPSInfo {
	g := newEsG(r)
	w := g.w
	p := &hevcPPSInfo{SPSID: sps.ID}
	if o.ID >= 0 {
		p.ID = uint32(o.ID)
	} else {
		p.ID = uint32(g.small(63))
	}
	w.UE("PicParameterSetID", uint64(p.ID))
	w.UE("SeqParameterSetID", uint64(p.SPSID))
	p.DependentSlices = w.F("DependentSliceSegmentsEnabledFlag", g.p(0.4))
	p.OutputFlagPresent = w.F("OutputFlagPresentFlag", g.p(0.4))
	p.NumExtraSliceHeaderBits = int(w.U("NumExtraSliceHeaderBits", 3, uint64([]int{0, 0, 0, 1, 2, 7}[r.Intn(6)])))
	w.F("SignDataHidingEnabledFlag", g.p(0.5))
	p.CabacInitPresent = w.F("CabacInitPresentFlag", g.p(0.5))
	p.NumRefIdxL0Def = w.UE("NumRefIdxL0DefaultActiveMinus1", g.small(14))
	p.NumRefIdxL1Def = w.UE("NumRefIdxL1DefaultActiveMinus1", g.small(14))
	w.SE("InitQpMinus26", g.signed(-(26+6*int64(sps.BitDepthLumaM8)), 25))
	w.F("ConstrainedIntraPredFlag", g.p(0.3))
	transformSkip := w.F("TransformSkipEnabledFlag", g.p(0.5))
	if w.F("CuQpDeltaEnabledFlag", g.p(0.5)) {
		w.UE("DiffCuQpDeltaDepth", uint64(g.rng(0, int64(sps.Log2DiffMaxMinCb))))
	}
	w.SE("CbQpOffset", g.signed(-12, 12))
	w.SE("CrQpOffset", g.signed(-12, 12))
	p.SliceChromaQpOffsets = w.F("SliceChromaQpOffsetsPresentFlag", g.p(0.5))
	p.WeightedPred = w.F("WeightedPredFlag", g.p(0.4))
	p.WeightedBipred = w.F("WeightedBipredFlag", g.p(0.4))
	w.F("TransquantBypassEnabledFlag", g.p(0.3))
	p.Tiles = w.F("TilesEnabledFlag", g.p(0.35) && !o.Modest)
	p.EntropySync = w.F("EntropyCodingSyncEnabledFlag", g.p(0.3) && !o.Modest)
	if p.Tiles {
		g.tag("tiles")
		lim := func(n uint64) uint64 {
			if n > 20 {
				return 19
			}
			return n - 1
		}
		cols := w.UE("NumTileColumnsMinus1", g.small(lim(sps.PicWInCtbs)))
		rows := w.UE("NumTileRowsMinus1", g.small(lim(sps.PicHInCtbs)))
		if !w.F("UniformSpacingFlag", g.p(0.5)) {
			g.tag("tiles-explicit-spacing")
			cw := make([]uint64, cols)
			for i := range cw {
				cw[i] = g.small(sps.PicWInCtbs - 1)
				w.ue(cw[i])
			}
			rh := make([]uint64, rows)
			for i := range rh {
				rh[i] = g.small(sps.PicHInCtbs - 1)
				w.ue(rh[i])
			}
			w.rec("ColumnWidthMinus1", cw)
			w.rec("RowHeightMinus1", rh)
		}
		w.F("LoopFilterAcrossTilesEnabledFlag", g.p(0.5))
	}
	p.LoopFilterAcrossSlices = w.F("LoopFilterAcrossSlicesEnabledFlag", g.p(0.6))
	if w.F("DeblockingFilterControlPresentFlag", g.p(0.6)) {
		g.tag("deblocking-control")
		p.DeblockOverrideEnabled = w.F("DeblockingFilterOverrideEnabledFlag", g.p(0.5))
		p.DeblockDisabled = w.F("DeblockingFilterDisabledFlag", g.p(0.5))
		if !p.DeblockDisabled {
			w.SE("BetaOffsetDiv2", g.signed(-6, 6))
			w.SE("TcOffsetDiv2", g.signed(-6, 6))
		}
	}
	if w.F("ScalingListDataPresentFlag", g.p(0.25)) {
		g.tag("pps-scaling-list-data")
		g.hevcScalingListData()
	}
	p.ListsModificationPresent = w.F("ListsModificationPresentFlag", g.p(0.5))
	w.UE("Log2ParallelMergeLevelMinus2", uint64(g.rng(0, int64(sps.CtbLog2-2))))
	p.SliceHeaderExtension = w.F("SliceSegmentHeaderExtensionPresentFlag", g.p(0.3) && !o.Modest)
	var rangeExt, multi, d3, scc bool
	var ext4 uint64
	if w.F("ExtensionPresentFlag", g.p(0.45) && !o.Modest) {
		rangeExt = w.F("RangeExtensionFlag", g.p(0.5))
		multi = w.F("MultilayerExtensionFlag", g.p(0.3))
		d3 = w.F("D3ExtensionFlag", g.p(0.3))
		scc = w.F("SccExtensionFlag", g.p(0.4))
		if g.p(0.2) {
			ext4 = uint64(g.rng(1, 15))
		}
		w.U("Extension4bits", 4, ext4)
	}
	if rangeExt { // 7.3.2.3.2
		g.tag("pps-range-extension")
		w.push("RangeExtension")
		if transformSkip {
			w.UE("Log2MaxTransformSkipBlockSizeMinus2", g.small(3))
		}
		w.F("CrossComponentPredictionEnabledFlag", g.p(0.5))
		p.ChromaQpOffsetListEnabled = w.F("ChromaQpOffsetListEnabledFlag", g.p(0.5))
		if p.ChromaQpOffsetListEnabled {
			w.UE("DiffCuChromaQpOffsetDepth", uint64(g.rng(0, int64(sps.Log2DiffMaxMinCb))))
			n := w.UE("ChromaQpOffsetListLenMinus1", g.small(5))
			cb := make([]int64, n+1)
			cr := make([]int64, n+1)
			for i := range cb {
				cb[i] = g.signed(-12, 12)
				cr[i] = g.signed(-12, 12)
				w.se(cb[i])
				w.se(cr[i])
			}
			w.rec("CbQpOffsetList", cb)
			w.rec("CrQpOffsetList", cr)
		}
		sao := func(m8 uint64) uint64 { // 0..Max(0, BitDepth-10)
			if m8 < 2 {
				return 0
			}
			return g.small(m8 - 2)
		}
		w.UE("Log2SaoOffsetScaleLuma", sao(sps.BitDepthLumaM8))
		w.UE("Log2SaoOffsetScaleChroma", sao(sps.BitDepthChromaM8))
		w.pop()
	} else {
		w.rec("RangeExtension", "nil")
	}
	if multi {
		g.tag("pps-multilayer-extension")
		w.push("MultilayerExtension")
		g.hevcPPSMultilayer()
		w.pop()
	} else {
		w.rec("MultilayerExtension", "nil")
	}
	if d3 {
		g.tag("pps-3d-extension")
		w.push("D3Extension")
		g.hevcPPS3D()
		w.pop()
	} else {
		w.rec("D3Extension", "nil")
	}
	if scc { // 7.3.2.3.3
		g.tag("pps-scc-extension")
		w.push("SccExtension")
		// with pps_curr_pic_ref_enabled_flag the presence of the pred_weight_table flags depends on the reference picture
		// lists (entries that are the current picture), which a header generator cannot decide and mp4ff documents as
		// not implemented: such PPSs are generated without weighted prediction
		p.CurrPicRef = w.F("CurrPicRefEnabledFlag", g.p(0.4) && !p.WeightedPred && !p.WeightedBipred)
		if w.F("ResidualAdaptiveColourTransformEnabledFlag", g.p(0.5)) {
			p.SliceActQpOffsetsPresent = w.F("SliceActQpOffsetsPresentFlag", g.p(0.5))
			w.SE("ActYQpOffsetPlus5", g.signed(-7, 17))
			w.SE("ActCbQpOffsetPlus5", g.signed(-7, 17))
			w.SE("ActCrQpOffsetPlus3", g.signed(-9, 15))
		}
		if w.F("PalettePredictorInitializersPresentFlag", g.p(0.5)) {
			n := w.UE("NumPalettePredictorInitializers", g.small(20))
			if n > 0 {
				g.tag("pps-palette-initializers")
				mono := w.F("MonochromePaletteFlag", g.p(0.4))
				dl := int(8 + w.UE("LumaBitDepthEntryMinus8", g.small(8)))
				comps := 1
				dc := 0
				if !mono {
					comps = 3
					dc = int(8 + w.UE("ChromaBitDepthEntryMinus8", g.small(8)))
				}
				w.rec("PalettePredictorInitializer.len", comps)
				for c := 0; c < comps; c++ {
					depth := dl
					if c > 0 {
						depth = dc
					}
					l := make([]uint64, n)
					for i := range l {
						l[i] = g.bits64(depth)
						if g.p(0.4) {
							l[i] = uint64(g.r.Intn(4)) // near-zero entries: emulation prevention bytes inside the PPS
						}
						w.u(depth, l[i])
					}
					w.rec(fmt.Sprintf("PalettePredictorInitializer[%d]", c), l)
				}
			}
		}
		w.pop()
	} else {
		w.rec("SccExtension", "nil")
	}
	if ext4 != 0 {
		g.tag("pps-extension-data")
		l := make([]bool, r.Intn(20))
		pOne := 0.5
		if g.p(0.4) { // long and mostly zero: emulation prevention bytes inside the more_rbsp_data() loop
			l = make([]bool, r.Intn(80))
			pOne = 0.04
		}
		for i := range l {
			l[i] = w.f(g.p(pOne))
		}
		w.rec("ExtensionDataFlag", l)
	}
	w.trailing()
	p.NALU, _ = esNALU(hevcNALHdr(34, 1), w.buf)
	if len(p.NALU)-2 != len(w.buf) {
		g.tag("emulation-prevention")
	}
	p.Exp = w.exp
	p.Tags = tagList(g.tags)
	return p
}

// pps_multilayer_extension(), F.7.3.2.3.4, with colour_mapping_table(), F.7.3.2.3.5/6
func (g *esG) hevcPPSMultilayer() {
	w, r := g.w, g.r
	w.F("PocResetInfoPresentFlag", g.p(0.5))
	if w.F("InferScalingListFlag", g.p(0.4)) {
		w.U("ScalingListRefLayerId", 6, g.bits64(6))
	}
	n := w.UE("NumRefLocOffsets", g.small(4))
	ids := make([]uint64, n)
	perm := r.Perm(64)
	for i := uint64(0); i < n; i++ {
		ids[i] = uint64(perm[i]) // distinct layer ids
		w.u(6, ids[i])
		w.push(fmt.Sprintf("RefLocOffsets[%d]", ids[i]))
		off := func() int64 { return g.signed(-(1 << 14), 1<<14-1) }
		if w.F("ScaledRefLayerOffsetPresentFlag", g.p(0.5)) {
			w.SE("ScaledRefLayerLeftOffset", off())
			w.SE("ScaledRefLayerTopOffset", off())
			w.SE("ScaledRefLayerRightOffset", off())
			w.SE("ScaledRefLayerBottomOffset", off())
		}
		if w.F("RefRegionOffsetPresentFlag", g.p(0.5)) {
			w.SE("RefRegionLeftOffset", off())
			w.SE("RefRegionTopOffset", off())
			w.SE("RefRegionRightOffset", off())
			w.SE("RefRegionBottomOffset", off())
		}
		if w.F("ResamplePhaseSetPresentFlag", g.p(0.5)) {
			w.UE("PhaseHorLuma", g.small(31))
			w.UE("PhaseVerLuma", g.small(31))
			w.UE("PhaseHorChromaPlus8", g.small(63))
			w.UE("PhaseVerChromaPlus8", g.small(63))
		}
		w.pop()
	}
	w.rec("RefLocOffsetLayerIds", ids)
	w.rec("RefLocOffsets.len", n)
	if !w.F("ColourMappingEnabledFlag", g.p(0.4)) {
		w.rec("ColourMappingTable", "nil")
		return
	}
	g.tag("pps-colour-mapping-table")
	w.push("ColourMappingTable")
	nl := w.UE("NumCmRefLayersMinus1", g.small(3))
	l := make([]uint64, nl+1)
	for i := range l {
		l[i] = g.bits64(6)
		w.u(6, l[i])
	}
	w.rec("RefLayerId", l)
	depth := w.U("OctantDepth", 2, uint64(r.Intn(2)))                 // cm_octant_depth in 0..1
	yPartLog2 := w.U("YPartNumLog2", 2, uint64(r.Intn(4-int(depth)))) // cm_y_part_num_log2 + cm_octant_depth <= 3
	inY := w.UE("LumaBitDepthCmInputMinus8", g.small(8))
	w.UE("ChromaBitDepthCmInputMinus8", g.small(8))
	outY := w.UE("LumaBitDepthCmOutputMinus8", g.small(8))
	w.UE("ChromaBitDepthCmOutputMinus8", g.small(8))
	resQuant := w.U("ResQuantBits", 2, g.bits64(2))
	flc := w.U("DeltaFlcBitsMinus1", 2, g.bits64(2))
	if depth == 1 {
		w.SE("AdaptThresholdUDelta", g.signed(-100, 100))
		w.SE("AdaptThresholdVDelta", g.signed(-100, 100))
	}
	// CMResLSBits = Max(0, 10 + BitDepthCmInputY - BitDepthCmOutputY - cm_res_quant_bits - (cm_delta_flc_bits_minus1 + 1))
	lsb := 10 + int(inY) - int(outY) - int(resQuant) - int(flc+1)
	if lsb < 0 {
		lsb = 0
	}
	partNumY := uint64(1) << yPartLog2
	count := 0
	var octants func(inpDepth, idxY, idxCb, idxCr, inpLength uint64)
	octants = func(inpDepth, idxY, idxCb, idxCr, inpLength uint64) {
		split := false
		if inpDepth < depth {
			split = w.f(g.p(0.6))
		}
		if split {
			for k := uint64(0); k < 2; k++ {
				for m := uint64(0); m < 2; m++ {
					for n := uint64(0); n < 2; n++ {
						octants(inpDepth+1, idxY+partNumY*k*inpLength/2, idxCb+m*inpLength/2, idxCr+n*inpLength/2, inpLength/2)
					}
				}
			}
			return
		}
		for i := uint64(0); i < partNumY; i++ {
			idxShiftY := idxY + (i << (depth - inpDepth))
			count++
			for j := 0; j < 4; j++ {
				w.push(fmt.Sprintf("Octants[%d-%d-%d][%d]", idxShiftY, idxCb, idxCr, j))
				if w.F("CodedResFlag", g.p(0.6)) {
					for c := 0; c < 3; c++ {
						w.push(fmt.Sprintf("CodedRes[%d]", c))
						q := w.UE("ResCoeffQ", g.small(12))
						rr := w.U("ResCoeffR", lsb, g.bits64(lsb))
						if q != 0 || rr != 0 {
							w.F("ResCoeffS", g.p(0.5))
						}
						w.pop()
					}
				}
				w.pop()
			}
		}
	}
	octants(0, 0, 0, 0, 1<<depth)
	w.rec("Octants.len", count)
	w.pop()
}

// pps_3d_extension(), I.7.3.2.3.7, with delta_dlt(), I.7.3.2.3.8
func (g *esG) hevcPPS3D() {
	w := g.w
	if !w.F("DltsPresentFlag", g.p(0.7)) {
		return
	}
	n := w.U("NumDepthLayersMinus1", 6, g.small(3))
	depth := int(8 + w.U("BitDepthForDepthLayersMinus8", 4, g.small(2)))
	w.rec("DepthLayers.len", n+1)
	for i := uint64(0); i <= n; i++ {
		w.push(fmt.Sprintf("DepthLayers[%d]", i))
		if w.F("DltFlag", g.p(0.7)) {
			valFlags := false
			if !w.F("DltPredFlag", g.p(0.5)) {
				valFlags = w.F("DltValFlagsPresentFlag", g.p(0.4))
			}
			if valFlags {
				g.tag("pps-3d-dlt-value-flags")
				l := make([]bool, 1<<uint(depth))
				pOne := 0.5
				if g.p(0.5) {
					pOne = 0.03 // long zero runs: emulation prevention bytes inside the PPS
				}
				for j := range l {
					l[j] = w.f(g.p(pOne))
				}
				w.rec("DltValueFlag", l)
			} else {
				g.tag("pps-3d-delta-dlt")
				w.push("DeltaDlt")
				num := w.U("NumValDeltaDlt", depth, g.small(6))
				if num > 0 {
					maxDiff := uint64(0)
					if num > 1 {
						maxDiff = w.U("MaxDiff", depth, g.small(1<<uint(depth)-1))
					}
					minDiffM1 := maxDiff - 1 // inferred when not present (only used when max_diff > 0)
					if num > 2 && maxDiff > 0 {
						minDiffM1 = w.U("MinDiffMinus1", esCeilLog2(maxDiff+1), uint64(g.rng(0, int64(maxDiff-1))))
					}
					w.U("DeltaDltVal0", depth, g.bits64(depth))
					if maxDiff > 0 && maxDiff > minDiffM1+1 {
						nb := esCeilLog2(maxDiff - (minDiffM1 + 1) + 1)
						l := make([]uint64, num-1)
						for k := range l {
							l[k] = uint64(g.rng(0, int64(maxDiff-(minDiffM1+1))))
							w.u(nb, l[k])
						}
						w.rec("DeltaValDiffMinusMin", l)
					}
				}
				w.pop()
			}
		}
		w.pop()
	}
}

// ---------------------------------------------------------------------------------------------------------------
// slice segment header, 7.3.6.1

func genHEVCSlice(r *rand.Rand, sps *hevcSPSInfo, pps *hevcPPSInfo) *esSlice {
	g := newEsG(r)
	w := g.w
	nalType := []int{0, 1, 1, 1, 2, 3, 4, 5, 6, 7, 8, 9, 16, 17, 18, 19, 19, 20, 21, 21}[r.Intn(20)]
	irap := nalType >= 16 && nalType <= 23
	idr := nalType == 19 || nalType == 20
	g.tag(fmt.Sprintf("nal-type-%d", nalType))
	hdr := hevcNALHdr(nalType, 1+r.Intn(1+sps.MaxSubLayersM1))
	if irap {
		hdr = hevcNALHdr(nalType, 1)
	}
	first := w.F("FirstSliceSegmentInPicFlag", g.p(0.5) || sps.picSizeInCtbs() == 1)
	if irap {
		w.F("NoOutputOfPriorPicsFlag", g.p(0.5))
	}
	w.UE("PicParameterSetId", uint64(pps.ID))
	dependent := false
	if !first {
		if pps.DependentSlices {
			dependent = w.F("DependentSliceSegmentFlag", g.p(0.5))
		}
		nb := esCeilLog2(sps.picSizeInCtbs())
		addr := uint64(g.rng(1, int64(sps.picSizeInCtbs()-1)))
		w.U("SegmentAddress", nb, addr)
	}
	cat := sps.chromaArrayType()
	if dependent {
		g.tag("dependent-slice-segment")
	} else {
		for i := 0; i < pps.NumExtraSliceHeaderBits; i++ {
			w.f(g.p(0.5)) // slice_reserved_flag
		}
		st := 2
		if !irap || pps.CurrPicRef {
			st = r.Intn(3)
		}
		const (
			B = 0
			P = 1
			I = 2
		)
		w.UE("SliceType", uint64(st))
		g.tag("slice-type-" + []string{"B", "P", "I"}[st])
		if pps.OutputFlagPresent {
			w.F("PicOutputFlag", g.p(0.5))
		}
		if sps.SeparateColourPlane {
			w.U("ColourPlaneId", 2, uint64(r.Intn(3)))
		}
		numPicTotalCurr := 0
		temporalMvp := false
		if !idr {
			w.U("PicOrderCntLsb", sps.Log2MaxPocLsb, g.bits64(sps.Log2MaxPocLsb))
			nRPS := len(sps.RPS)
			fromSPS := w.F("ShortTermRefPicSetSpsFlag", nRPS > 0 && g.p(0.5))
			var rps *hevcRPS
			if !fromSPS {
				g.tag("slice-rps-coded")
				rps = g.hevcSTRPS(nRPS, nRPS, sps.RPS)
				if rps.Inter {
					g.tag("slice-rps-coded-inter")
				}
			} else {
				idx := r.Intn(nRPS)
				if nRPS > 1 {
					w.U("ShortTermRefPicSetIdx", esCeilLog2(uint64(nRPS)), uint64(idx))
				} else {
					g.tag("slice-rps-idx-inferred")
				}
				rps = sps.RPS[idx]
				if rps.Inter {
					g.tag("slice-rps-from-sps-inter")
				}
			}
			w.push("ShortTermRefPicSet")
			w.recRPS(rps)
			w.pop()
			numPicTotalCurr += rps.numUsed()
			if sps.LongTermPresent {
				nLtSps := uint64(0)
				if len(sps.LtPoc) > 0 {
					nLtSps = w.UE("NumLongTermSps", g.small(uint64(len(sps.LtPoc))))
				}
				nLtPics := w.UE("NumLongTermPics", g.small(4))
				w.rec("LongTermRefPicSets.len", nLtSps+nLtPics)
				for i := uint64(0); i < nLtSps+nLtPics; i++ {
					w.push(fmt.Sprintf("LongTermRefPicSets[%d]", i))
					var used bool
					if i < nLtSps {
						idx := r.Intn(len(sps.LtPoc))
						if len(sps.LtPoc) > 1 {
							w.u(esCeilLog2(uint64(len(sps.LtPoc))), uint64(idx)) // lt_idx_sps
						} else {
							g.tag("slice-lt-idx-inferred")
						}
						// (7-52): PocLsbLt[i] = lt_ref_pic_poc_lsb_sps[lt_idx_sps[i]], UsedByCurrPicLt[i] = used_by_curr_pic_lt_sps_flag[...]
						w.rec("PocLsbLt", sps.LtPoc[idx])
						used = sps.LtUsed[idx]
						w.rec("UsedByCurrPicLtFlag", used)
					} else {
						w.U("PocLsbLt", sps.Log2MaxPocLsb, g.bits64(sps.Log2MaxPocLsb))
						used = w.F("UsedByCurrPicLtFlag", g.p(0.5))
					}
					if used {
						numPicTotalCurr++
					}
					if w.F("DeltaPocMsbPresentFlag", g.p(0.4)) {
						w.UE("DeltaPocMsbCycleLt", g.small(1<<16))
					}
					w.pop()
				}
			}
			if sps.TemporalMvp {
				temporalMvp = w.F("TemporalMvpEnabledFlag", g.p(0.6))
			}
		}
		if pps.CurrPicRef {
			numPicTotalCurr++
		}
		saoLuma, saoChroma := false, false
		if sps.SAO {
			saoLuma = w.F("SaoLumaFlag", g.p(0.5))
			if cat != 0 {
				saoChroma = w.F("SaoChromaFlag", g.p(0.5))
			}
		}
		if st == P || st == B {
			l0, l1 := pps.NumRefIdxL0Def, pps.NumRefIdxL1Def
			if w.F("NumRefIdxActiveOverrideFlag", g.p(0.5)) {
				l0 = g.small(14)
				w.ue(l0)
				if st == B {
					l1 = g.small(14)
					w.ue(l1)
				}
			}
			w.rec("NumRefIdxL0ActiveMinus1", l0)
			if st == B {
				w.rec("NumRefIdxL1ActiveMinus1", l1)
			}
			if pps.ListsModificationPresent && numPicTotalCurr > 1 {
				g.tag("ref-pic-lists-modification")
				nb := esCeilLog2(uint64(numPicTotalCurr))
				w.push("RefPicListsModification")
				list := func(flag, name string, n uint64) {
					if !w.F(flag, g.p(0.6)) {
						return
					}
					l := make([]uint64, n+1)
					for i := range l {
						l[i] = uint64(r.Intn(numPicTotalCurr))
						w.u(nb, l[i])
					}
					w.rec(name, l)
				}
				list("RefPicListModificationFlagL0", "ListEntryL0", l0)
				if st == B {
					list("RefPicListModificationFlagL1", "ListEntryL1", l1)
				}
				w.pop()
			} else {
				w.rec("RefPicListsModification", "nil")
			}
			if st == B {
				w.F("MvdL1ZeroFlag", g.p(0.5))
			}
			if pps.CabacInitPresent {
				w.F("CabacInitFlag", g.p(0.5))
			}
			if temporalMvp {
				fromL0 := true
				if st == B {
					fromL0 = w.f(g.p(0.5))
				}
				w.rec("CollocatedFromL0Flag", fromL0) // inferred 1 when not present
				if (fromL0 && l0 > 0) || (!fromL0 && l1 > 0) {
					max := l0
					if !fromL0 {
						max = l1
					}
					w.UE("CollocatedRefIdx", uint64(g.rng(0, int64(max))))
				}
			}
			// pred_weight_table: with pps_curr_pic_ref_enabled_flag the presence of luma_weight_l0_flag[i] depends on the
			// reference picture lists (entries referring to the current picture), which mp4ff does not implement and a
			// header generator cannot decide; such PPSs get no weighted prediction here (see genHEVCPPSOpt caller).
			if (pps.WeightedPred && st == P) || (pps.WeightedBipred && st == B) {
				g.tag("pred-weight-table")
				w.push("PredWeightTable")
				denom := int64(w.UE("LumaLog2WeightDenom", g.small(7)))
				if cat != 0 {
					w.SE("DeltaChromaLog2WeightDenom", g.rng(-denom, 7-denom))
				}
				table := func(name string, n uint64) {
					w.rec(name+".len", n+1)
					lf := make([]bool, n+1)
					cf := make([]bool, n+1)
					for i := range lf {
						lf[i] = w.f(g.p(0.5))
						w.rec(fmt.Sprintf("%s[%d].LumaWeightFlag", name, i), lf[i])
					}
					if cat != 0 {
						for i := range cf {
							cf[i] = w.f(g.p(0.5))
							w.rec(fmt.Sprintf("%s[%d].ChromaWeightFlag", name, i), cf[i])
						}
					}
					for i := range lf {
						w.push(fmt.Sprintf("%s[%d]", name, i))
						if lf[i] {
							w.SE("DeltaLumaWeight", g.signed(-128, 127))
							w.SE("LumaOffset", g.signed(-128, 127))
						}
						if cf[i] {
							for j := 0; j < 2; j++ {
								w.SE(fmt.Sprintf("DeltaChromaWeight[%d]", j), g.signed(-128, 127))
								w.SE(fmt.Sprintf("DeltaChromaOffset[%d]", j), g.signed(-512, 511))
							}
						}
						w.pop()
					}
				}
				table("WeightsL0", l0)
				if st == B {
					table("WeightsL1", l1)
				}
				w.pop()
			} else {
				w.rec("PredWeightTable", "nil")
			}
			w.UE("FiveMinusMaxNumMergeCand", uint64(r.Intn(5)))
			if sps.MvResCtrlIdc == 2 {
				w.F("UseIntegerMvFlag", g.p(0.5))
			}
		}
		w.SE("QpDelta", g.signed(-51, 51))
		if pps.SliceChromaQpOffsets {
			w.SE("CbQpOffset", g.signed(-12, 12))
			w.SE("CrQpOffset", g.signed(-12, 12))
		}
		if pps.SliceActQpOffsetsPresent {
			w.SE("ActYQpOffset", g.signed(-12, 12))
			w.SE("ActCbQpOffset", g.signed(-12, 12))
			w.SE("ActCrQpOffset", g.signed(-12, 12))
		}
		if pps.ChromaQpOffsetListEnabled {
			w.F("CuChromaQpOffsetEnabledFlag", g.p(0.5))
		}
		override := false
		if pps.DeblockOverrideEnabled {
			override = w.F("DeblockingFilterOverrideFlag", g.p(0.5))
		}
		deblockDisabled := pps.DeblockDisabled // 7.4.7.1: inferred equal to pps_deblocking_filter_disabled_flag
		if override {
			g.tag("deblocking-override")
			deblockDisabled = w.F("DeblockingFilterDisabledFlag", g.p(0.5))
			if !deblockDisabled {
				w.SE("BetaOffsetDiv2", g.signed(-6, 6))
				w.SE("TcOffsetDiv2", g.signed(-6, 6))
			}
		} else if pps.DeblockDisabled {
			g.tag("deblocking-disabled-inferred-from-pps")
		}
		if pps.LoopFilterAcrossSlices && (saoLuma || saoChroma || !deblockDisabled) {
			w.F("LoopFilterAcrossSlicesEnabledFlag", g.p(0.5))
		} else if pps.LoopFilterAcrossSlices {
			g.tag("slice-loop-filter-flag-absent")
		}
	}
	if pps.Tiles || pps.EntropySync {
		n := w.UE("NumEntryPointOffsets", g.small(440))
		if n > 0 {
			g.tag("entry-points")
			lenM1 := w.UE("OffsetLenMinus1", g.small(31))
			l := make([]uint64, n)
			for i := range l {
				l[i] = g.bits64(int(lenM1 + 1))
				w.u(int(lenM1+1), l[i])
			}
			w.rec("EntryPointOffsetMinus1", l)
		}
	}
	if pps.SliceHeaderExtension {
		n := w.UE("SegmentHeaderExtensionLength", g.small(256))
		if n > 0 {
			g.tag("slice-header-extension")
			l := make([]uint64, n)
			for i := range l {
				l[i] = g.bits64(8)
				if g.p(0.3) {
					l[i] = 0
				}
				w.u(8, l[i])
			}
			w.rec("SegmentHeaderExtensionDataByte", l)
		}
	}
	// byte_alignment()
	w.putBit(1)
	for w.nbit%8 != 0 {
		w.putBit(0)
	}
	hdrBits := w.nbit
	g.randomTail(3, 24)
	nalu, occ := esNALU(hdr, w.buf)
	sl := &esSlice{NALU: nalu, Exp: w.exp, Size: occ(hdrBits)}
	if occ(hdrBits) != 2+hdrBits/8 {
		g.tag("emulation-prevention-in-header")
	}
	sl.Tags = tagList(g.tags)
	return sl
}
