package main

import (
	"bytes"
	"crypto/aes"
	"crypto/cipher"
	"encoding/binary"
	"fmt"
	"os"
	"path/filepath"
	"strings"

	"github.com/Eyevinn/mp4ff/avc"
	"github.com/Eyevinn/mp4ff/mp4"
)

const cryptoRule = "cases = (a) function level: protect ranges of synthetic AVC/HEVC samples (NAL unit sizes around 0/1/15/16/17/91/92/107/108/111/112/123/127/128/1000 and clear runs > 65535), cbcs protect ranges of generated AVC access units (parameter sets and I/P/B/SP/SI slice headers of every kind from the independent serialiser of the C15 harness, which knows each slice header's byte length: reference list override on/off, PPS L0/L1 defaults drawn apart, list modification, explicit weighted prediction, marking operations, field pictures, slice groups; slices below/at/above 127 bytes; AUD, SEI, in-band parameter sets, end-of-sequence units), cbcs protect ranges of generated HEVC access units (C15 HEVC serialiser: picture sizes that are multiples of the minimum coding block but mostly not of the CTB size, first and non-first slice segments with slice_segment_address, dependent segments, I/P/B, reference picture sets, weighted prediction, entry points, header extension; AUD, VPS/SPS/PPS in band, prefix/suffix SEI, end-of-sequence), hand-made sub-sample maps of 1..8 entries with clear-only entries (first, middle, last, several in a row) and zero-clear entries under CTR and the CBC pattern, samples with a 64..130 KiB SEI before the first or between NAL units (AVC/HEVC x cenc/cbcs: ranges, shape, cipher), AppendProtectRange, CTR crypt over ranges, the CBC pattern cipher with every crypt/skip shape, IV increments incl. carries and wrap, AES blocks; (b) fragment level: clear fragments (real AVC/HEVC/AAC samples of the repository's segments, synthetic AVC samples, and generated AVC and HEVC tracks whose init segment is built from generated parameter sets, and fragments whose first sample carries a 64..130 KiB SEI) x {cenc, cbcs} x IV {8, 16 bytes, ff..ff} x 1..3 fragments x extra boxes (tfxd uuid, free, unknown, roll sample group) encrypted by the library, checked against an independent crypto/cipher reference and CENC well-formedness, then decrypted and compared with the clear input; (c) auxiliary information at the one-byte saiz limit: IV length {8, 16} x {cenc, cbcs} x one sample with 36..45 sub-sample entries (slices), at fragment level and as prot.enciv model lines: refused, or saiz entries = byte lengths of the senc entries as written and saio offset + sum(saiz) = end of senc (bytes parsed independently); (d) multi-track protected inits as packagers write them: 2..4 tracks (repository AVC/HEVC/AAC and generated AVC; each cenc, cbcs or clear with its own 8/16-byte IV) x track IDs from a pool (not ascending, large) x trex boxes of mvex in a permutation of the trak order x mehd/leva/trep/unknown boxes in mvex, pssh/udta in moov, mvex before or after the traks x sample duration/flags in the trun or only in the trex box, through InitProtect, both file decoders, DecryptInit, EncryptFragment / DecryptFragment on single-track fragments of every track and on multi-track fragments (trafs in another order, sometimes interleaved truns), every sample compared byte-for-byte and field-for-field with the clear input, the decrypted init with the never-protected init, every track's decrypt info with the trex box of its own ID (also prot.trex model lines incl. repeated / missing trex boxes); non-trivial = distinct case with at least one protected byte"

func init() {
	props["C07"] = &propDef{rule: cryptoRule, gen: func(c *Ctx) { genCrypto(c, "C07") }, exec: execCrypto}
	props["C06"] = &propDef{rule: cryptoRule + cryptoRuleKA, gen: func(c *Ctx) { genCrypto(c, "C06") }, exec: execCrypto}
}

func parseRanges(s string) []mp4.SubSamplePattern {
	if s == "-" {
		return nil
	}
	var out []mp4.SubSamplePattern
	for _, x := range strings.Split(s, ",") {
		p := strings.Split(x, ":")
		out = append(out, mp4.SubSamplePattern{BytesOfClearData: uint16(atoi(p[0])), BytesOfProtectedData: uint32(atoi(p[1]))})
	}
	return out
}

func showRanges(r []mp4.SubSamplePattern) string {
	if len(r) == 0 {
		return "-"
	}
	var s []string
	for _, x := range r {
		s = append(s, fmt.Sprintf("%d:%d", x.BytesOfClearData, x.BytesOfProtectedData))
	}
	return strings.Join(s, ",")
}

var avcMaps struct {
	sps map[uint32]*avc.SPS
	pps map[uint32]*avc.PPS
	ok  bool
}

func repoPath(rel string) string {
	repo := os.Getenv("VERIF_REPO")
	if repo == "" {
		repo = "/repo"
	}
	return filepath.Join(repo, rel)
}

func loadAvcMaps() {
	if avcMaps.ok {
		return
	}
	d, err := os.ReadFile(repoPath("mp4/testdata/init.mp4"))
	if err != nil {
		panic(err)
	}
	f, err := mp4.DecodeFile(bytes.NewReader(d))
	if err != nil {
		panic(err)
	}
	avcC := f.Init.Moov.Trak.Mdia.Minf.Stbl.Stsd.AvcX.AvcC
	avcMaps.sps = map[uint32]*avc.SPS{}
	avcMaps.pps = map[uint32]*avc.PPS{}
	for _, n := range avcC.SPSnalus {
		s, err := avc.ParseSPSNALUnit(n, false)
		if err == nil {
			avcMaps.sps[s.ParameterID] = s
		}
	}
	for _, n := range avcC.PPSnalus {
		p, err := avc.ParsePPSNALUnit(n, avcMaps.sps)
		if err == nil {
			avcMaps.pps[p.PicParameterSetID] = p
		}
	}
	avcMaps.ok = true
}

func execCrypto(req string) string {
	f := strings.Fields(req)
	if len(f) == 0 {
		return ""
	}
	var out string
	p := safe(func() { out = execCryptoInner(f[0], f[1:]) })
	if p != "" {
		return p
	}
	return out
}

func execCryptoInner(op string, a []string) string {
	switch op {
	case "cenc.ranges":
		s, _ := unhx(a[1])
		var r []mp4.SubSamplePattern
		var err error
		if a[0] == "avc" {
			r, err = mp4.GetAVCProtectRanges(nil, nil, s, "cenc")
		} else {
			r, err = mp4.GetHEVCProtectRanges(nil, nil, s, "cenc")
		}
		if err != nil {
			return "err"
		}
		return showRanges(r)
	case "cbcs.ranges":
		s, _ := unhx(a[2])
		loadAvcMaps()
		r, err := mp4.GetAVCProtectRanges(avcMaps.sps, avcMaps.pps, s, "cbcs")
		if err != nil {
			return "err"
		}
		return showRanges(r)
	case "cbcs.avcranges":
		return execCbcsAvcRanges(a)
	case "cbcs.hevcranges":
		return execCbcsHevcRanges(a)
	case "cenc.apr":
		return showRanges(mp4.AppendProtectRange(nil, uint32(atoi(a[0])), uint32(atoi(a[1]))))
	case "cenc.crypt":
		key, _ := unhx(a[0])
		iv, _ := unhx(a[1])
		s, _ := unhx(a[3])
		s = cp(s)
		if err := mp4.CryptSampleCenc(s, key, iv, parseRanges(a[2])); err != nil {
			return "err"
		}
		return hx(s)
	case "cbcs.crypt":
		key, _ := unhx(a[1])
		iv, _ := unhx(a[2])
		s, _ := unhx(a[6])
		s = cp(s)
		tenc := &mp4.TencBox{DefaultCryptByteBlock: byte(atoi(a[3]) / 16), DefaultSkipByteBlock: byte(atoi(a[4]) / 16)}
		var err error
		if a[0] == "e" {
			err = mp4.EncryptSampleCbcs(s, key, iv, parseRanges(a[5]), tenc)
		} else {
			err = mp4.DecryptSampleCbcs(s, key, iv, parseRanges(a[5]), tenc)
		}
		if err != nil {
			return "err"
		}
		return hx(s)
	case "cenc.ivinc":
		iv, _ := unhx(a[0])
		return hx(mp4.VerifIncrementIV(iv, parseRanges(a[1]), atoi(a[2])))
	case "aes":
		key, _ := unhx(a[0])
		b, _ := unhx(a[1])
		blk, err := aes.NewCipher(key)
		if err != nil {
			return "err"
		}
		out := make([]byte, 16)
		blk.Encrypt(out, b)
		return hx(out)
	}
	return "bad-op"
}

// ---- independent reference (written from ISO/IEC 23001-7, uses only crypto/aes + crypto/cipher)

func refCenc(clear, key, iv16 []byte, ranges []mp4.SubSamplePattern) []byte {
	out := cp(clear)
	blk, _ := aes.NewCipher(key)
	st := cipher.NewCTR(blk, iv16)
	if len(ranges) == 0 {
		st.XORKeyStream(out, out)
		return out
	}
	pos := 0
	for _, r := range ranges {
		pos += int(r.BytesOfClearData)
		st.XORKeyStream(out[pos:pos+int(r.BytesOfProtectedData)], out[pos:pos+int(r.BytesOfProtectedData)])
		pos += int(r.BytesOfProtectedData)
	}
	return out
}

func refCbcs(clear, key, iv16 []byte, ranges []mp4.SubSamplePattern, crypt, skip int) []byte {
	out := cp(clear)
	blk, _ := aes.NewCipher(key)
	do := func(d []byte) {
		enc := cipher.NewCBCEncrypter(blk, iv16)
		pos := 0
		if skip == 0 && crypt == 0 { // unpatterned: all whole blocks
			n := len(d) / 16 * 16
			enc.CryptBlocks(d[:n], d[:n])
			return
		}
		for len(d)-pos >= 16*crypt {
			enc.CryptBlocks(d[pos:pos+16*crypt], d[pos:pos+16*crypt])
			pos += 16 * crypt
			if len(d)-pos < 16*skip {
				break
			}
			pos += 16 * skip
		}
	}
	if len(ranges) == 0 {
		do(out)
		return out
	}
	pos := 0
	for _, r := range ranges {
		pos += int(r.BytesOfClearData)
		do(out[pos : pos+int(r.BytesOfProtectedData)])
		pos += int(r.BytesOfProtectedData)
	}
	return out
}

type clearSource struct {
	name     string
	codec    string // avc | hevc | aac
	init     []byte
	samples  []mp4.FullSample
	hdrOf    func(nalu []byte) int // generated tracks (c0607es.go): independent slice header size of a video NAL unit
	es       *esTrack
	bigClear bool // c0607hevc.go: the first sample of every fragment gets a non-video NAL unit of 64 KiB and more
}

var clearSources []*clearSource

func loadClearSources() []*clearSource {
	if clearSources != nil {
		return clearSources
	}
	for _, x := range [][3]string{{"avc", "mp4/testdata/init.mp4", "mp4/testdata/1.m4s"}, {"hevc", "mp4/testdata/hvc1_init.mp4", "mp4/testdata/hvc1_seg_1.m4s"}, {"aac", "mp4/testdata/aac_init.mp4", "mp4/testdata/aac_1.m4s"}} {
		ib, err1 := os.ReadFile(repoPath(x[1]))
		sb, err2 := os.ReadFile(repoPath(x[2]))
		if err1 != nil || err2 != nil {
			continue
		}
		f, err := mp4.DecodeFile(bytes.NewReader(append(cp(ib), sb...)))
		if err != nil {
			continue
		}
		cs := &clearSource{name: x[2], codec: x[0], init: ib}
		trex := f.Init.Moov.Mvex.Trex
		for _, s := range f.Segments {
			for _, fr := range s.Fragments {
				fss, err := fr.GetFullSamples(trex)
				if err == nil {
					for _, fs := range fss {
						fs.Data = cp(fs.Data)
						cs.samples = append(cs.samples, fs)
					}
				}
			}
		}
		clearSources = append(clearSources, cs)
	}
	return clearSources
}

func synthAvcSample(c *Ctx) []byte {
	sizes := []int{1, 2, 15, 16, 17, 91, 92, 93, 107, 108, 109, 111, 112, 113, 123, 127, 128, 129, 200, 1000}
	var s []byte
	n := 1 + c.R.Intn(6)
	big := c.R.Intn(12) == 0
	for i := 0; i < n; i++ {
		sz := sizes[c.R.Intn(len(sizes))]
		typ := []byte{1, 5, 6, 7, 8, 9, 12}[c.R.Intn(7)]
		if big && i == 0 {
			sz = 66000 + c.R.Intn(70000) // a huge non-video NAL unit: clear run > 65535
			typ = 6
		}
		nal := make([]byte, sz)
		c.R.Read(nal)
		nal[0] = 0x60 | typ
		var l [4]byte
		binary.BigEndian.PutUint32(l[:], uint32(sz))
		s = append(s, l[:]...)
		s = append(s, nal...)
	}
	return s
}

func genCrypto(c *Ctx, which string) {
	key := []byte{0, 0x11, 0x22, 0x33, 0x44, 0x55, 0x66, 0x77, 0x88, 0x99, 0xaa, 0xbb, 0xcc, 0xdd, 0xee, 0xff}
	run := func(req string) string { r := execCrypto(req); c.Case(req, r); return r }
	// ---------- (a) function level (model correspondence + reference oracles)
	for it := 0; it < c.N(1200, 20000); it++ {
		s := synthAvcSample(c)
		codec := "avc"
		if it%3 == 0 {
			codec = "hevc"
			// rewrite headers as 2-byte hevc headers with mixed types
			pos := 0
			for pos+4 < len(s) {
				n := int(binary.BigEndian.Uint32(s[pos:]))
				if n >= 2 {
					s[pos+4] = byte([]int{0, 1, 19, 21, 32, 33, 34, 39, 40}[c.R.Intn(9)] << 1)
				}
				pos += 4 + n
			}
		}
		if len(s) > 3000 && it%4 != 0 {
			continue
		}
		rs := run("cenc.ranges " + codec + " " + hx(s))
		c.Eval(rs)
		c.Count("ranges." + codec)
		if rs == "err" || strings.HasPrefix(rs, "panic") {
			if which == "C07" {
				c.Fail("C07-ranges-error", "protect ranges of a well-formed sample fail", "cenc.ranges "+codec+" "+hx(s), rs, "")
			}
			continue
		}
		if which == "C07" {
			checkRangesShape(c, codec, s, parseRanges(rs), "cenc.ranges "+codec+" "+clip(hx(s)))
		}
		// crypt with those ranges: model vs impl, impl vs reference, involution
		iv := make([]byte, 16)
		c.R.Read(iv)
		if it%5 == 0 {
			for k := 8; k < 16; k++ {
				iv[k] = 0xff
			}
		}
		if len(s) <= 1500 {
			q := fmt.Sprintf("cenc.crypt %s %s %s %s", hx(key), hx(iv), rs, hx(s))
			enc := run(q)
			ref := refCenc(s, key, iv, parseRanges(rs))
			if which == "C07" && enc != hx(ref) {
				c.Fail("C07-ctr-reference", "CryptSampleCenc output differs from an independent AES-CTR over the sub-sample map", clip(q), clip(enc), clip(hx(ref)))
			}
			if which == "C06" {
				back := execCrypto(fmt.Sprintf("cenc.crypt %s %s %s %s", hx(key), hx(iv), rs, enc))
				if back != hx(s) {
					c.Fail("C06-cenc-involution", "decrypting what CryptSampleCenc encrypted does not restore the sample", clip(q), clip(back), clip(hx(s)))
				}
			}
			c.Eval(q)
		}
		q := fmt.Sprintf("cenc.ivinc %s %s %d", hx(iv), rs, len(s))
		run(q)
	}
	genCbcsRanges(c, which)         // cbcs sub-sample maps of generated access units with real slice headers (c0607es.go)
	genCbcsHevcRanges(c, which)     // the same for generated HEVC access units: slice segments of every kind (c0607hevc.go)
	genSubSampleMaps(c, which, key) // hand-made sub-sample maps: clear-only / zero-clear entries at every position (c0607hevc.go)
	genBigClear(c, which, key)      // more than 65535 clear bytes before / between protected NAL units (c0607hevc.go)
	// AppendProtectRange, IV increments, AES blocks, cbcs pattern cipher
	for it := 0; it < c.N(600, 8000); it++ {
		a := []int{0, 1, 65534, 65535, 65536, 65537, 131070, 131071, 200000, c.R.Intn(300000)}[c.R.Intn(10)]
		b := []int{0, 16, 4096, c.R.Intn(100000)}[c.R.Intn(4)]
		r := run(fmt.Sprintf("cenc.apr %d %d", a, b))
		c.Eval("")
		if which == "C07" {
			tot := 0
			for _, x := range parseRanges(r) {
				tot += int(x.BytesOfClearData)
			}
			if tot != a {
				c.Fail("C07-append-range", "AppendProtectRange does not preserve the clear byte count", fmt.Sprintf("cenc.apr %d %d", a, b), r, "")
			}
		}
		iv := make([]byte, []int{8, 16}[c.R.Intn(2)])
		c.R.Read(iv)
		for k := range iv {
			if c.R.Intn(3) == 0 {
				iv[k] = 0xff
			}
		}
		n := []int{0, 1, 15, 16, 17, 255, 256, 4096, 65536, 1 << 20}[c.R.Intn(10)]
		q := fmt.Sprintf("cenc.ivinc %s - %d", hx(iv), n)
		got := run(q)
		if which == "C07" {
			// reference: big-endian add of ceil(n/16) modulo 2^(8*len)
			want := cp(iv)
			carry := (n + 15) / 16
			for k := len(want) - 1; k >= 0 && carry > 0; k-- {
				v := int(want[k]) + carry
				want[k] = byte(v)
				carry = v >> 8
			}
			if got != hx(want) {
				c.Fail("C07-iv-increment", "incrementIV is not big-endian addition of the block count", q, got, hx(want))
			}
		}
		blk := make([]byte, 16)
		c.R.Read(blk)
		k2 := make([]byte, 16)
		c.R.Read(k2)
		run(fmt.Sprintf("aes %s %s", hx(k2), hx(blk)))
		// cbcs
		d := make([]byte, []int{0, 1, 15, 16, 17, 31, 32, 33, 159, 160, 161, 175, 176, 177, 320, 500}[c.R.Intn(16)])
		c.R.Read(d)
		pat := [][2]int{{16, 144}, {0, 0}, {16, 16}, {32, 0}, {160, 0}}[c.R.Intn(5)]
		civ := make([]byte, 16)
		c.R.Read(civ)
		qe := fmt.Sprintf("cbcs.crypt e %s %s %d %d - %s", hx(key), hx(civ), pat[0], pat[1], hx(d))
		enc := run(qe)
		qd := fmt.Sprintf("cbcs.crypt d %s %s %d %d - %s", hx(key), hx(civ), pat[0], pat[1], enc)
		dec := run(qd)
		c.Eval(qe)
		if which == "C06" && dec != hx(d) {
			c.Fail("C06-cbcs-roundtrip", "cbcs decrypt(encrypt(x)) != x", qe, dec, hx(d))
		}
		if which == "C07" && (pat == [2]int{16, 144} || pat == [2]int{0, 0}) {
			if ref := refCbcs(d, key, civ, nil, pat[0]/16, pat[1]/16); enc != hx(ref) {
				c.Fail("C07-cbc-reference", "cbcs output differs from an independent AES-CBC pattern implementation", qe, enc, hx(ref))
			}
		}
	}
	// ---------- (b) fragment level
	srcs := loadClearSources()
	if len(srcs) == 0 {
		c.Note("repository segments not found: fragment-level part skipped")
		return
	}
	for it := 0; it < c.N(150, 2500); it++ {
		src := srcs[c.R.Intn(len(srcs))]
		scheme := []string{"cenc", "cbcs"}[c.R.Intn(2)]
		ivLen := []int{8, 16}[c.R.Intn(2)]
		iv := make([]byte, ivLen)
		c.R.Read(iv)
		if c.R.Intn(3) == 0 {
			for k := range iv {
				iv[k] = 0xff
			}
			if c.R.Intn(2) == 0 {
				iv[ivLen-1] = 0xf0
			}
		}
		nfr := 1 + c.R.Intn(3)
		extras := ""
		for _, ch := range "ufxgr" {
			if c.R.Intn(4) == 0 {
				extras += string(ch)
			}
		}
		synthetic := src.codec == "avc" && scheme == "cenc" && c.R.Intn(3) == 0
		if c.R.Intn(3) == 0 { // a generated AVC track: parameter sets and slice headers of every kind (c0607es.go)
			if es := esClearSource(c, 6); es != nil {
				src, synthetic = es, false
			}
		} else if c.R.Intn(4) == 0 { // a generated HEVC track (c0607hevc.go)
			if es := hesClearSource(c, 6); es != nil {
				src, synthetic = es, false
			}
		}
		fragCase(c, which, src, scheme, key, iv, nfr, extras, synthetic)
	}
	genBigClearFrags(c, which, key, srcs) // fragments whose first sample has a clear run above 65535 bytes (c0607hevc.go)
	genAuxLimit(c, which, key)            // samples whose auxiliary information is around the one-byte saiz limit (c0607es.go)
	emitProtModel(c, which)               // box bookkeeping of encrypt / decrypt against the Lean model (c0607model.go)
	genMultiInit(c, which)                // multi-track protected inits as packagers write them: IDs, trex order, extra boxes (c0607multi.go)
	if which == "C06" {
		genBdoFrags(c, key) // clear fragments whose tfhd has base-data-offset-present (c0607tool.go)
		genCryptoTools(c)   // the mp4ff-encrypt / mp4ff-decrypt binaries in every flow they offer (c0607tool.go)
	}
}

func checkRangesShape(c *Ctx, codec string, s []byte, rs []mp4.SubSamplePattern, req string) {
	tot := 0
	for _, r := range rs {
		tot += int(r.BytesOfClearData) + int(r.BytesOfProtectedData)
	}
	if tot != len(s) {
		c.Fail("C07-partition", "sub-sample entries do not partition the sample", req, showRanges(rs), fmt.Sprint(len(s)))
		return
	}
	// per-byte mask
	mask := make([]bool, 0, len(s))
	for _, r := range rs {
		for i := 0; i < int(r.BytesOfClearData); i++ {
			mask = append(mask, false)
		}
		for i := 0; i < int(r.BytesOfProtectedData); i++ {
			mask = append(mask, true)
		}
	}
	pos := 0
	for pos+4 <= len(s) {
		n := int(binary.BigEndian.Uint32(s[pos:]))
		start := pos + 4
		end := start + n
		if end > len(s) {
			break
		}
		video := false
		if n > 0 {
			if codec == "avc" {
				video = s[start]&0x1f <= 5
			} else {
				video = (s[start]>>1)&0x3f <= 31
			}
		}
		for i := pos; i < start; i++ {
			if mask[i] {
				c.Fail("C07-length-field-protected", "a NAL length field is inside a protected range", req, showRanges(rs), "")
				return
			}
		}
		firstProt := -1
		for i := start; i < end; i++ {
			if mask[i] && firstProt < 0 {
				firstProt = i
			}
			if firstProt >= 0 && !mask[i] {
				c.Fail("C07-protected-not-to-end", "a protected range does not extend to the end of its NAL unit", req, showRanges(rs), "")
				return
			}
		}
		if n > 0 && mask[start] {
			c.Fail("C07-header-protected", "a NAL header byte is protected", req, showRanges(rs), "")
			return
		}
		if !video && firstProt >= 0 {
			c.Fail("C07-nonvideo-protected", "a non-video NAL unit is protected", req, showRanges(rs), "")
			return
		}
		if video && n > 127 {
			if firstProt < 0 || firstProt-start > 127 || (end-firstProt)%16 != 0 {
				c.Fail("C07-cenc-shape", "a video NAL unit > 127 bytes is not protected from at most 127 bytes in, in whole 16-byte blocks", req, showRanges(rs), fmt.Sprintf("nalu at %d len %d firstProt %d", start, n, firstProt))
				return
			}
		}
		pos = end
	}
}

// one fragment-level case
func fragCase(c *Ctx, which string, src *clearSource, scheme string, key, iv []byte, nfr int, extras string, synthetic bool) {
	desc := fmt.Sprintf("frag %s %s iv=%s nfr=%d extras=%s synth=%v", src.codec, scheme, hx(iv), nfr, extras, synthetic)
	fail := func(prop, kind, what, got, exp string) {
		if prop == which {
			c.Fail(prop+"-"+kind, what, desc, clip(got), clip(exp))
		}
	}
	var anyProt bool
	p := safe(func() {
		initF, err := mp4.DecodeFile(bytes.NewReader(src.init))
		if err != nil {
			return
		}
		origEntry := initF.Init.Moov.Trak.Mdia.Minf.Stbl.Stsd.Children[0].Type()
		kid, _ := mp4.NewUUIDFromString("11112222333344445555666677778888")
		ipd, err := mp4.InitProtect(initF.Init, key, iv, scheme, kid, nil)
		if err != nil {
			fail("C06", "initprotect", "InitProtect fails", err.Error(), "")
			return
		}
		var encInit bytes.Buffer
		if err := initF.Init.Encode(&encInit); err != nil {
			fail("C06", "init-encode", "protected init does not encode", err.Error(), "")
			return
		}
		// build clear fragments
		type fragData struct {
			clear   []byte // encoded clear fragment
			samples []mp4.FullSample
		}
		var frags []fragData
		si := c.R.Intn(len(src.samples))
		trackID := initF.Init.Moov.Trak.Tkhd.TrackID
		decTime := uint64(c.R.Intn(100000))
		for fi := 0; fi < nfr; fi++ {
			fr, _ := mp4.CreateFragment(uint32(fi+1), trackID)
			ns := 1 + c.R.Intn(4)
			var ss []mp4.FullSample
			for k := 0; k < ns; k++ {
				s := src.samples[(si+k)%len(src.samples)]
				d := cp(s.Data)
				if synthetic {
					d = synthAvcSample(c)
				}
				if src.bigClear && k == 0 {
					d = insertBigNonVideo(c.R, src.codec, d)
				}
				s.Data = d
				s.Size = uint32(len(d))
				s.DecodeTime = decTime // contiguous decode times (the fragment API stores only the first one)
				decTime += uint64(s.Dur)
				fr.AddFullSample(s)
				ss = append(ss, s)
			}
			si += ns
			for _, ch := range extras {
				switch ch {
				case 'u':
					tfxd := mp4.NewTfxdBox(12345, 678)
					_ = fr.Moof.Traf.AddChild(tfxd)
				case 'f':
					_ = fr.Moof.AddChild(mp4.NewFreeBox([]byte{1, 2, 3}))
				case 'x':
					_ = fr.Moof.Traf.AddChild(mp4.CreateUnknownBox("abcd", 8+5, []byte{5, 4, 3, 2, 1}))
				case 'r':
					// a non-protection sample group (roll) in the traf
					for _, hexBox := range []string{"0000001c7362677000000000726f6c6c00000001" + fmt.Sprintf("%08x", ns) + "00010001", "0000001a7367706401000000726f6c6c0000000200000001ffff"} {
						raw, _ := unhx(hexBox)
						if b, err := mp4.DecodeBox(0, bytes.NewReader(raw)); err == nil {
							_ = fr.Moof.Traf.AddChild(b)
						}
					}
				case 'g':
					// extra box before the traf in the moof
					fr.Moof.Children = append([]mp4.Box{fr.Moof.Children[0], mp4.NewFreeBox([]byte{9})}, fr.Moof.Children[1:]...)
				}
			}
			var buf bytes.Buffer
			if err := fr.Encode(&buf); err != nil {
				return
			}
			frags = append(frags, fragData{buf.Bytes(), ss})
		}
		// encrypt each fragment: decode the clear bytes, encrypt, encode
		curIV := cp(iv)
		var encSeg bytes.Buffer
		var clearSeg bytes.Buffer
		var encFrags [][]byte
		for _, fd := range frags {
			clearSeg.Write(fd.clear)
			ff, err := mp4.DecodeFile(bytes.NewReader(append(cp(encInit.Bytes()), fd.clear...)))
			if err != nil || len(ff.Segments) == 0 {
				fail("C06", "clear-decode", "clear fragment does not decode against the protected init", fmt.Sprint(err), "")
				return
			}
			fr := ff.Segments[0].Fragments[0]
			if err := mp4.EncryptFragment(fr, key, curIV, ipd); err != nil {
				fail("C06", "encrypt", "EncryptFragment fails on a clear fragment", err.Error(), "")
				return
			}
			var eb bytes.Buffer
			if err := fr.Encode(&eb); err != nil {
				fail("C06", "encrypt-encode", "encrypted fragment does not encode", err.Error(), "")
				return
			}
			encFrags = append(encFrags, eb.Bytes())
			encSeg.Write(eb.Bytes())
			// C07 checks on this fragment (an early exit here must not skip the C06 part below)
			func() {
				ef, err := mp4.DecodeFile(bytes.NewReader(append(cp(encInit.Bytes()), eb.Bytes()...)))
				if err != nil {
					fail("C07", "enc-decode", "encrypted fragment does not decode", err.Error(), "")
					return
				}
				efr := ef.Segments[0].Fragments[0]
				traf := efr.Moof.Traf
				if traf.Senc == nil || traf.Saiz == nil || traf.Saio == nil {
					fail("C07", "aux-missing", "senc/saiz/saio missing in encrypted traf", "", "")
					return
				}
				ivSize := byte(16)
				if scheme == "cbcs" {
					ivSize = 0
				}
				if _, parsed := traf.ContainsSencBox(); !parsed {
					if err := traf.ParseReadSenc(ivSize, efr.Moof.StartPos); err != nil {
						fail("C07", "saio-offset", "saio offset does not point at the senc sample data: "+err.Error(), err.Error(), "")
						return
					}
				}
				senc := traf.Senc
				trex := ef.Init.Moov.Mvex.Trex
				esamples, err := efr.GetFullSamples(trex)
				if err != nil || len(esamples) != len(fd.samples) {
					fail("C07", "sample-count", "sample count changed by encryption", fmt.Sprint(err), "")
					return
				}
				// the saio offset must be the position of the first per-sample entry relative to the moof start
				ebs := eb.Bytes()
				var bx []rawBox
				walkBoxes(ebs, 0, "", &bx)
				for _, b := range bx {
					if b.typ == "senc" {
						if int(traf.Saio.Offset[0]) != b.start+16 {
							fail("C07", "saio-offset", "saio offset != position of the first senc entry in the moof", fmt.Sprintf("%d vs %d", traf.Saio.Offset[0], b.start+16), "")
						}
					}
				}
				if kind, got, exp := checkAuxBytes(ebs, int(ivSize), len(fd.samples)); kind != "" {
					fail("C07", kind, auxWhat[kind], got, exp)
				}
				iv16 := make([]byte, 16)
				copy(iv16, curIV)
				for i, es := range esamples {
					clear := fd.samples[i].Data
					var ranges []mp4.SubSamplePattern
					if len(senc.SubSamples) > i {
						ranges = senc.SubSamples[i]
					}
					if es.Size != fd.samples[i].Size || es.Dur != fd.samples[i].Dur || es.Flags != fd.samples[i].Flags || es.CompositionTimeOffset != fd.samples[i].CompositionTimeOffset || es.DecodeTime != fd.samples[i].DecodeTime {
						fail("C07", "sample-meta", "sample metadata changed by encryption", fmt.Sprintf("%+v", es.Sample), fmt.Sprintf("%+v", fd.samples[i].Sample))
					}
					if src.codec != "aac" {
						if which == "C07" && scheme == "cenc" {
							checkRangesShape(c, src.codec, clear, ranges, desc+fmt.Sprintf(" sample %d %s", i, clip(hx(clear))))
						}
						if which == "C07" && scheme == "cbcs" && src.hdrOf != nil {
							checkCbcsShape(c, src.codec, clear, ranges, src.hdrOf, desc+fmt.Sprintf(" sample %d %s", i, clip(hx(clear))))
						}
						tot := 0
						for _, r := range ranges {
							tot += int(r.BytesOfClearData) + int(r.BytesOfProtectedData)
							if r.BytesOfProtectedData > 0 {
								anyProt = true
							}
						}
						if tot != len(clear) {
							fail("C07", "partition", "sub-sample entries do not partition the sample", showRanges(ranges), fmt.Sprint(len(clear)))
						}
					} else {
						anyProt = true
						if len(ranges) != 0 {
							fail("C07", "audio-subsamples", "audio sample has sub-sample entries (must be protected whole)", showRanges(ranges), "-")
						}
					}
					// saiz entry describes what senc holds
					wantInfo := 0
					if scheme == "cenc" {
						wantInfo += 16
					}
					if len(ranges) > 0 {
						wantInfo += 2 + 6*len(ranges)
					}
					gotInfo := int(traf.Saiz.DefaultSampleInfoSize)
					if gotInfo == 0 && i < len(traf.Saiz.SampleInfo) {
						gotInfo = int(traf.Saiz.SampleInfo[i])
					}
					if gotInfo != wantInfo {
						fail("C07", "saiz-size", "saiz sample info size does not describe the senc entry", fmt.Sprint(gotInfo), fmt.Sprint(wantInfo))
					}
					// reference cipher
					var ref []byte
					if scheme == "cenc" {
						if len(senc.IVs) <= i || !bytes.Equal([]byte(senc.IVs[i]), iv16) {
							got := "-"
							if len(senc.IVs) > i {
								got = hx(senc.IVs[i])
							}
							fail("C07", "iv-sequence", "per-sample IV in senc is not the previous IV advanced by the blocks used", got, hx(iv16))
						}
						ref = refCenc(clear, key, iv16, ranges)
						blocks := 0
						if len(ranges) == 0 {
							blocks = (len(clear) + 15) / 16
						} else {
							tp := 0
							for _, r := range ranges {
								tp += int(r.BytesOfProtectedData)
							}
							blocks = (tp + 15) / 16
						}
						carry := blocks
						for k := 15; k >= 0 && carry > 0; k-- {
							v := int(iv16[k]) + carry
							iv16[k] = byte(v)
							carry = v >> 8
						}
					} else {
						crypt, skip := 1, 9
						if src.codec == "aac" {
							crypt, skip = 0, 0
						}
						ref = refCbcs(clear, key, iv16, ranges, crypt, skip)
					}
					if !bytes.Equal(es.Data, ref) {
						fail("C07", "cipher-reference", "encrypted sample differs from the independent reference cipher over the sub-sample map", clip(hx(es.Data)), clip(hx(ref)))
					}
				}
				if scheme == "cenc" {
					curIV = iv16
				}
			}()
			if scheme == "cenc" && which == "C06" {
				// keep the IV sequence going even if the C07 section bailed out: take it from the encoder's own increments
				curIV = nextIVAfter(eb.Bytes(), encInit.Bytes(), curIV)
			}
		}
		// ---- C06: decrypt the whole thing
		df, err := mp4.DecodeFile(bytes.NewReader(append(cp(encInit.Bytes()), encSeg.Bytes()...)))
		if err != nil {
			fail("C06", "enc-decode", "encrypted file does not decode", err.Error(), "")
			return
		}
		di, err := mp4.DecryptInit(df.Init)
		if err != nil {
			fail("C06", "decrypt-init", "DecryptInit fails", err.Error(), "")
			return
		}
		if got := df.Init.Moov.Trak.Mdia.Minf.Stbl.Stsd.Children[0].Type(); got != origEntry {
			fail("C06", "sample-entry", "sample entry type not restored by DecryptInit", got, origEntry)
		}
		for _, seg := range df.Segments {
			if err := mp4.DecryptSegment(seg, di, key); err != nil {
				fail("C06", "decrypt", "DecryptSegment fails on what the library encrypted", err.Error(), "")
				return
			}
		}
		// re-encode, decode, compare with clear
		var db bytes.Buffer
		for _, seg := range df.Segments {
			if err := seg.Encode(&db); err != nil {
				fail("C06", "decrypt-encode", "decrypted segment does not encode", err.Error(), "")
				return
			}
		}
		var di2 bytes.Buffer
		_ = df.Init.Encode(&di2)
		rf, err := mp4.DecodeFile(bytes.NewReader(append(cp(di2.Bytes()), db.Bytes()...)))
		if err != nil {
			fail("C06", "decrypted-decode", "decrypted output does not decode", err.Error(), "")
			return
		}
		k := 0
		var allClear []mp4.FullSample
		for _, fd := range frags {
			allClear = append(allClear, fd.samples...)
		}
		trex := rf.Init.Moov.Mvex.Trex
		fi := 0
		for _, seg := range rf.Segments {
			for _, fr := range seg.Fragments {
				fss, err := fr.GetFullSamples(trex)
				if err != nil {
					fail("C06", "decrypted-samples", "samples of decrypted fragment cannot be read (data offsets?)", err.Error(), "")
					return
				}
				for _, fs := range fss {
					if k >= len(allClear) {
						fail("C06", "sample-count", "more samples after decryption", "", "")
						return
					}
					w := allClear[k]
					if !bytes.Equal(fs.Data, w.Data) {
						fail("C06", "sample-bytes", "decrypted sample bytes differ from the clear input", clip(hx(fs.Data)), clip(hx(w.Data)))
					}
					if fs.Sample != w.Sample || fs.DecodeTime != w.DecodeTime {
						fail("C06", "sample-meta", "decrypted sample metadata differs", fmt.Sprintf("%+v@%d", fs.Sample, fs.DecodeTime), fmt.Sprintf("%+v@%d", w.Sample, w.DecodeTime))
					}
					k++
				}
				// non-protection boxes survive, in order and unchanged: compare child type/bytes lists with the clear fragment
				if fi < len(frags) {
					cf, err := mp4.DecodeFile(bytes.NewReader(append(cp(src.init), frags[fi].clear...)))
					if err == nil {
						want := boxList(cf.Segments[0].Fragments[0].Moof)
						got := boxList(fr.Moof)
						if want != got {
							fail("C06", "boxes-preserved", "boxes that are not protection signalling are not all present and unchanged after decryption", got, want)
						}
					}
				}
				fi++
			}
		}
		if k != len(allClear) {
			fail("C06", "sample-count", "sample count differs after decryption", fmt.Sprint(k), fmt.Sprint(len(allClear)))
		}
	})
	key2 := ""
	if anyProt {
		key2 = desc
	}
	c.Eval(key2)
	c.Count("frag." + src.codec + "." + scheme)
	if len(c.St.Samples) < 6 {
		c.Sample(desc)
	}
	if p != "" {
		fail(which, "panic", "panic in encrypt/decrypt pipeline: "+p, p, "")
	}
}

// list of (type, bytes) of a moof's descendants except trun data offsets (which legitimately depend on layout)
func boxList(m *mp4.MoofBox) string {
	var sb strings.Builder
	var walk func(b mp4.Box)
	walk = func(b mp4.Box) {
		if cb, ok := b.(mp4.ContainerBox); ok {
			sb.WriteString(b.Type() + "{")
			for _, ch := range cb.GetChildren() {
				walk(ch)
			}
			sb.WriteString("}")
			return
		}
		if tr, ok := b.(*mp4.TrunBox); ok {
			cpy := *tr
			cpy.DataOffset = 1
			var buf bytes.Buffer
			_ = cpy.Encode(&buf)
			sb.WriteString("trun:" + hx(buf.Bytes()) + " ")
			return
		}
		var buf bytes.Buffer
		_ = b.Encode(&buf)
		sb.WriteString(b.Type() + ":" + hx(buf.Bytes()) + " ")
	}
	walk(m)
	return sb.String()
}

// nextIVAfter: the IV the library would use for the next fragment = last senc IV advanced by that sample's blocks;
// recomputed from the encrypted fragment so that multi-fragment C06 cases do not depend on the C07 section.
func nextIVAfter(encFrag, encInit, cur []byte) []byte {
	f, err := mp4.DecodeFile(bytes.NewReader(append(cp(encInit), encFrag...)))
	if err != nil || len(f.Segments) == 0 {
		return cur
	}
	fr := f.Segments[0].Fragments[0]
	traf := fr.Moof.Traf
	if traf.Senc == nil {
		return cur
	}
	if _, parsed := traf.ContainsSencBox(); !parsed {
		_ = traf.ParseReadSenc(16, fr.Moof.StartPos)
	}
	senc := traf.Senc
	if len(senc.IVs) == 0 {
		return cur
	}
	last := len(senc.IVs) - 1
	iv := make([]byte, 16)
	copy(iv, senc.IVs[last])
	fss, err := fr.GetFullSamples(f.Init.Moov.Mvex.Trex)
	if err != nil || len(fss) <= last {
		return cur
	}
	var rs []mp4.SubSamplePattern
	if len(senc.SubSamples) > last {
		rs = senc.SubSamples[last]
	}
	return mp4.VerifIncrementIV(iv, rs, len(fss[last].Data))
}
