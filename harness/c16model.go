package main

import (
	"encoding/binary"
	"fmt"
	"math/rand"
	"strings"
)

// Correspondence glue for C16: the Lean models of the length-prefixed NAL-unit walkers (Model/Nalu.lean, proved total
// and bounded on every byte string in Props/C16.lean) against the real avc/hevc helpers on HOSTILE samples, through the
// C14 line protocol (ops tobs, nalus, types, contains, ps, hasps, anytype).

func c16HostileSample(r *rand.Rand) []byte {
	switch r.Intn(8) {
	case 0: // 0..7 random bytes
		b := make([]byte, r.Intn(8))
		r.Read(b)
		return b
	case 1: // random bytes
		b := make([]byte, 8+r.Intn(60))
		r.Read(b)
		return b
	}
	// a well-formed list of units, then damaged
	var s []byte
	n := 1 + r.Intn(5)
	for i := 0; i < n; i++ {
		l := 1 + r.Intn(12)
		u := make([]byte, l)
		r.Read(u)
		u[0] = []byte{0x67, 0x68, 0x65, 0x41, 0x06, 0x40, 0x42, 0x44, 0x26, 0x02, 0x4e}[r.Intn(11)]
		var lf [4]byte
		binary.BigEndian.PutUint32(lf[:], uint32(l))
		s = append(s, lf[:]...)
		s = append(s, u...)
	}
	switch r.Intn(6) {
	case 0: // length field of some unit replaced
		pos := 0
		k := r.Intn(n)
		for i := 0; i < k; i++ {
			pos += 4 + int(binary.BigEndian.Uint32(s[pos:]))
		}
		v := []uint32{0xffffffff, 0xfffffffc, 0x80000000, 0x7fffffff, uint32(len(s)), uint32(len(s) - pos - 4 + 1), 0, 1, uint32(len(s) - pos - 4)}[r.Intn(9)]
		binary.BigEndian.PutUint32(s[pos:], v)
	case 1: // truncated
		s = s[:r.Intn(len(s)+1)]
	case 2: // trailing 1..4 bytes
		t := make([]byte, 1+r.Intn(4))
		r.Read(t)
		s = append(s, t...)
	case 3: // a byte flipped anywhere
		s[r.Intn(len(s))] ^= byte(1 << uint(r.Intn(8)))
	case 4: // zero-length unit inserted
		s = append(s, 0, 0, 0, 0)
	}
	return s
}

func c16WalkerCorrespondence(c *Ctx) {
	n := c.N(4000, 40000)
	for i := 0; i < n; i++ {
		s := c16HostileSample(c.R)
		h := hx(s)
		codec := []string{"avc", "hevc"}[i%2]
		var reqs []string
		reqs = append(reqs, "tobs "+h, "nalus "+h,
			fmt.Sprintf("types %s 0 %s", codec, h), fmt.Sprintf("types %s 1 %s", codec, h),
			fmt.Sprintf("ps %s %s", codec, h), fmt.Sprintf("hasps %s %s", codec, h))
		if codec == "avc" {
			reqs = append(reqs, fmt.Sprintf("contains avc %d %s", []int{5, 7, 8, 1, 6}[c.R.Intn(5)], h), "anytype avc 5 5 "+h)
		} else {
			reqs = append(reqs, fmt.Sprintf("contains hevc %d %s", []int{19, 32, 33, 34, 1, 39}[c.R.Intn(6)], h), "anytype hevc 16 23 "+h, "anytype hevc 19 20 "+h)
		}
		for _, req := range reqs {
			c.Case(req, execC14(req))
		}
		c.Count(fmt.Sprintf("hostile walker sample len<=%d", bucket(len(s), []int{0, 3, 7, 16, 64, 1000})))
	}
}

// c16CodecCorrespondence: hostile bytes to the ADTS / AudioSpecificConfig decoders and to the SEI extraction and the
// typed SEI payload decoders, through the C18 / C17 line protocols (models: Model/Aac.lean, Model/Sei.lean).
func c16CodecCorrespondence(c *Ctx) {
	n := c.N(3000, 30000)
	r := c.R
	rb := func(max int) []byte {
		b := make([]byte, r.Intn(max+1))
		r.Read(b)
		return b
	}
	for i := 0; i < n; i++ {
		// ASC: random short strings
		req := "asc.dec " + hx(rb(6))
		c.Case(req, execC18(req))
		// ADTS: random bytes with sync words sprinkled in
		b := rb(24)
		if len(b) > 2 && r.Intn(2) == 0 {
			k := r.Intn(len(b) - 1)
			b[k], b[k+1] = 0xff, 0xf0|byte(r.Intn(16))
		}
		req = "adts.dec " + hx(b)
		c.Case(req, execC18(req))
		// typed SEI payload decoders on payloads of every short length
		for _, op := range []string{"tc.dec", "mdcv.dec", "cll.dec"} {
			req = op + " " + hx(rb(30))
			c.Case(req, execC17(req))
		}
		// SEI extraction on random RBSP data
		req = "sei.extract " + hx(rb(40))
		c.Case(req, execC17(req))
	}
}

// c16ModelCorrespondence: all model-vs-code comparisons of C16 (walkers, ADTS/ASC, SEI, AVC SPS) on hostile inputs.
// The generator is seeded separately so that the hostile-input search below keeps its own random stream.
func c16ModelCorrespondence(c *Ctx) {
	saved := c.R
	c.R = rand.New(rand.NewSource(c.Seed*7919 + 17))
	c16WalkerCorrespondence(c)
	c16CodecCorrespondence(c)
	n := c.N(1500, 12000)
	for i := 0; i < n; i++ {
		s := genAVCSPSOpt(c.R, esOpt{ID: -1})
		avcSPSModelCases(c, c.R, s.NALU)
	}
	c.R = saved
}

// execC16Model answers the protocol lines of the model correspondences (they belong to the C14/C17/C18/C15 vocabularies).
func execC16Model(req string) (string, bool) {
	f := strings.Fields(req)
	if len(f) == 0 {
		return "", false
	}
	switch f[0] {
	case "tobs", "nalus", "types", "contains", "ps", "hasps", "anytype":
		return execC14(req), true
	case "asc.dec", "adts.dec":
		return execC18(req), true
	case "tc.dec", "mdcv.dec", "cll.dec", "sei.extract":
		return execC17(req), true
	case "avcspsm":
		return execC15(req), true
	}
	return "", false
}

// c16ValidSyntaxCases: WELL-FORMED parameter sets and slice headers from the independent serialiser of C15 (all
// extensions it covers: range, multilayer, 3D, SCC; HRD; scaling lists; inter-predicted RPS) as inputs of the AVC/HEVC
// NAL-unit entry points: valid inputs must satisfy the time and memory bounds as well.
func c16ValidSyntaxCases(r *rand.Rand, n int) []c16Case {
	var out []c16Case
	for i := 0; i < n; i++ {
		if i%2 == 0 {
			s := genHEVCSPSOpt(r, esOpt{ID: -1})
			p := genHEVCPPSOpt(r, s, esOpt{ID: -1})
			sl := genHEVCSlice(r, s, p)
			for _, d := range [][]byte{s.NALU, p.NALU, sl.NALU} {
				out = append(out, c16Case{group: "nalu.hevc", kind: "valid.esgen", ctx1: s.NALU, ctx2: p.NALU, d: d})
			}
		} else {
			s := genAVCSPSOpt(r, esOpt{ID: -1})
			p := genAVCPPSOpt(r, s, esOpt{ID: -1})
			sl := genAVCSlice(r, s, p)
			for _, d := range [][]byte{s.NALU, p.NALU, sl.NALU} {
				out = append(out, c16Case{group: "nalu.avc", kind: "valid.esgen", ctx1: s.NALU, ctx2: p.NALU, d: d})
			}
		}
	}
	return out
}
