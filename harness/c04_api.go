package main

// C04 seeds built through the library's own types: for every exported box type a value whose exported fields are
// filled by reflection (all slices of one struct instance get the same length, so that parallel tables agree), encoded
// with the library. This reaches box types that no repository file contains (av1C, vpcC, SmDm, CoLL, trep, ...).

import (
	"bytes"
	"math/rand"
	"reflect"

	"github.com/Eyevinn/mp4ff/mp4"
)

func c04APIBoxes(r *rand.Rand) []func() mp4.Box {
	pick := func(names ...string) string { return names[r.Intn(len(names))] }
	return []func() mp4.Box{
		func() mp4.Box {
			return mp4.NewAudioSampleEntryBox(pick("mp4a", "enca", "ac-3", "ec-3"))
		},
		func() mp4.Box {
			return mp4.NewVisualSampleEntryBox(pick("avc1", "avc3", "hvc1", "hev1", "encv", "av01", "vp08", "vp09"))
		},
		func() mp4.Box {
			return mp4.NewGenericContainerBox(pick("\xa9ART", "\xa9nam", "\xa9too", "\xa9cpy", "desc", "hint", "ipir", "mpod", "sync"))
		},
		func() mp4.Box {
			return &mp4.TrefTypeBox{Name: pick("cdsc", "dpnd", "font", "hind", "hint", "ipir", "mpod", "subt", "sync", "vdep", "vplx")}
		},
		func() mp4.Box { return &mp4.LoudnessBaseBox{Name: pick("tlou", "alou")} },
		func() mp4.Box { return mp4.NewFreeBox(nil) },
		func() mp4.Box { return mp4.NewSkipBox(nil) },
		func() mp4.Box { return mp4.NewTfxdBox(uint64(r.Intn(1000)), uint64(r.Intn(1000))) },
		func() mp4.Box { return mp4.NewTfrfBox(1, []uint64{uint64(r.Intn(99))}, []uint64{uint64(r.Intn(99))}) },
		func() mp4.Box { return mp4.NewFtyp("isom", 0, []string{"iso6"}) },
		func() mp4.Box { return mp4.NewStyp("msdh", 0, []string{"msdh"}) },
		func() mp4.Box { return mp4.CreateEsdsBox([]byte{0x11, 0x90}) },
		func() mp4.Box { return &mp4.Av1CBox{} },
		func() mp4.Box { return &mp4.AvcCBox{} },
		func() mp4.Box { return &mp4.BtrtBox{} },
		func() mp4.Box { return &mp4.CdatBox{} },
		func() mp4.Box { return &mp4.ClapBox{} },
		func() mp4.Box { return &mp4.Co64Box{} },
		func() mp4.Box { return &mp4.CoLLBox{} },
		func() mp4.Box { return &mp4.ColrBox{} },
		func() mp4.Box { return &mp4.CslgBox{} },
		func() mp4.Box { return &mp4.CtimBox{} },
		func() mp4.Box { return &mp4.CttsBox{} },
		func() mp4.Box { return &mp4.Dac3Box{} },
		func() mp4.Box { return &mp4.DataBox{} },
		func() mp4.Box { return &mp4.Dec3Box{} },
		func() mp4.Box { return &mp4.DinfBox{} },
		func() mp4.Box { return &mp4.DrefBox{} },
		func() mp4.Box { return &mp4.EdtsBox{} },
		func() mp4.Box { return &mp4.ElngBox{} },
		func() mp4.Box { return &mp4.ElstBox{} },
		func() mp4.Box { return &mp4.EmebBox{} },
		func() mp4.Box { return &mp4.EmibBox{} },
		func() mp4.Box { return &mp4.EmsgBox{} },
		func() mp4.Box { return &mp4.EvteBox{} },
		func() mp4.Box { return &mp4.FrmaBox{} },
		func() mp4.Box { return &mp4.HdlrBox{} },
		func() mp4.Box { return &mp4.HvcCBox{} },
		func() mp4.Box { return &mp4.IdenBox{} },
		func() mp4.Box { return &mp4.IlstBox{} },
		func() mp4.Box { return &mp4.KindBox{} },
		func() mp4.Box { return &mp4.LevaBox{} },
		func() mp4.Box { return &mp4.LudtBox{} },
		func() mp4.Box { return &mp4.MdhdBox{} },
		func() mp4.Box { return &mp4.MdiaBox{} },
		func() mp4.Box { return &mp4.MehdBox{} },
		func() mp4.Box { return &mp4.MetaBox{} },
		func() mp4.Box { return &mp4.MfhdBox{} },
		func() mp4.Box { return &mp4.MfraBox{} },
		func() mp4.Box { return &mp4.MfroBox{} },
		func() mp4.Box { return &mp4.MimeBox{} },
		func() mp4.Box { return &mp4.MinfBox{} },
		func() mp4.Box { return &mp4.MoofBox{} },
		func() mp4.Box { return &mp4.MoovBox{} },
		func() mp4.Box { return &mp4.MvexBox{} },
		func() mp4.Box { return &mp4.MvhdBox{} },
		func() mp4.Box { return &mp4.NmhdBox{} },
		func() mp4.Box { return &mp4.PaspBox{} },
		func() mp4.Box { return &mp4.PaylBox{} },
		func() mp4.Box { return &mp4.PrftBox{} },
		func() mp4.Box { return &mp4.PsshBox{} },
		func() mp4.Box { return &mp4.SaioBox{} },
		func() mp4.Box { return &mp4.SaizBox{} },
		func() mp4.Box { return &mp4.SbgpBox{} },
		func() mp4.Box { return &mp4.SchiBox{} },
		func() mp4.Box { return &mp4.SchmBox{} },
		func() mp4.Box { return &mp4.SdtpBox{} },
		func() mp4.Box { return &mp4.SencBox{} },
		func() mp4.Box { return &mp4.SgpdBox{} },
		func() mp4.Box { return &mp4.SidxBox{} },
		func() mp4.Box { return &mp4.SilbBox{} },
		func() mp4.Box { return &mp4.SinfBox{} },
		func() mp4.Box { return &mp4.SmDmBox{} },
		func() mp4.Box { return &mp4.SmhdBox{} },
		func() mp4.Box { return &mp4.SsixBox{} },
		func() mp4.Box { return &mp4.StblBox{} },
		func() mp4.Box { return &mp4.StcoBox{} },
		func() mp4.Box { return &mp4.SthdBox{} },
		func() mp4.Box { return &mp4.StppBox{} },
		func() mp4.Box { return &mp4.StscBox{} },
		func() mp4.Box { return &mp4.StsdBox{} },
		func() mp4.Box { return &mp4.StssBox{} },
		func() mp4.Box { return &mp4.StszBox{} },
		func() mp4.Box { return &mp4.SttgBox{} },
		func() mp4.Box { return &mp4.SttsBox{} },
		func() mp4.Box { return &mp4.SubsBox{} },
		func() mp4.Box { return &mp4.TencBox{} },
		func() mp4.Box { return &mp4.TfdtBox{} },
		func() mp4.Box { return &mp4.TfhdBox{} },
		func() mp4.Box { return &mp4.TfraBox{} },
		func() mp4.Box { return &mp4.TkhdBox{} },
		func() mp4.Box { return &mp4.TrafBox{} },
		func() mp4.Box { return &mp4.TrakBox{} },
		func() mp4.Box { return &mp4.TrefBox{} },
		func() mp4.Box { return &mp4.TrepBox{} },
		func() mp4.Box { return &mp4.TrexBox{} },
		func() mp4.Box { return &mp4.TrunBox{} },
		func() mp4.Box { return &mp4.URLBox{} },
		func() mp4.Box { return &mp4.UdtaBox{} },
		func() mp4.Box { return &mp4.VlabBox{} },
		func() mp4.Box { return &mp4.VmhdBox{} },
		func() mp4.Box { return &mp4.VppCBox{} },
		func() mp4.Box { return &mp4.VsidBox{} },
		func() mp4.Box { return &mp4.VttCBox{} },
		func() mp4.Box { return &mp4.VttaBox{} },
		func() mp4.Box { return &mp4.VttcBox{} },
		func() mp4.Box { return &mp4.VtteBox{} },
		func() mp4.Box { return &mp4.WvttBox{} },
	}
}

var c04BoxIface = reflect.TypeOf((*mp4.Box)(nil)).Elem()

type c04Filler struct {
	r     *rand.Rand
	ctors []func() mp4.Box
}

// num: small values only (the parent process encodes these structures itself, unprotected; hostile values are
// introduced afterwards by the byte-level mutations)
func (f *c04Filler) num(bits int) uint64 {
	r := f.r
	var v uint64
	switch r.Intn(8) {
	case 0:
		v = 0
	case 1, 2, 3:
		v = uint64(r.Intn(4))
	case 4, 5:
		v = uint64(r.Intn(300))
	default:
		v = uint64(r.Intn(65536))
	}
	if bits < 64 {
		v &= 1<<uint(bits) - 1
	}
	return v
}

func (f *c04Filler) str() string {
	return []string{"", "und", "eng", "vide", "soun", "urn:mpeg:dash:event:2012", "a", "cenc", "cbcs", "text/plain", "http://x/y", "\x00", "seig", "roll"}[f.r.Intn(14)]
}

// fill sets the exported fields of the struct v points into; sliceLen is shared by all slices of one struct.
func (f *c04Filler) fill(v reflect.Value, depth int) {
	r := f.r
	switch v.Kind() {
	case reflect.Ptr:
		if v.IsNil() {
			if depth > 2 || r.Intn(3) == 0 || v.Type().Elem().Kind() != reflect.Struct || !v.CanSet() {
				return
			}
			v.Set(reflect.New(v.Type().Elem()))
		}
		f.fill(v.Elem(), depth+1)
	case reflect.Struct:
		n := r.Intn(4)
		if r.Intn(10) == 0 {
			n = 1 + r.Intn(40)
		}
		for i := 0; i < v.NumField(); i++ {
			fv := v.Field(i)
			sf := v.Type().Field(i)
			if !fv.CanSet() || sf.PkgPath != "" {
				continue
			}
			if fv.Kind() == reflect.Slice {
				f.fillSlice(fv, n, depth)
				continue
			}
			if sf.Name == "Version" && fv.Kind() == reflect.Uint8 {
				fv.SetUint(uint64([]int{0, 0, 1, 1, 2, 3}[r.Intn(6)]))
				continue
			}
			if sf.Name == "Flags" && fv.Kind() == reflect.Uint32 {
				fv.SetUint(uint64([]uint32{0, 1, 2, 3, 0x000f01, 0x000e01, 0x000305, 0xffffff, uint32(r.Intn(1 << 24))}[r.Intn(9)]))
				continue
			}
			f.fill(fv, depth+1)
		}
	case reflect.Uint8, reflect.Uint16, reflect.Uint32, reflect.Uint64, reflect.Uint:
		v.SetUint(f.num(v.Type().Bits()))
	case reflect.Int8, reflect.Int16, reflect.Int32, reflect.Int64, reflect.Int:
		x := f.num(v.Type().Bits())
		v.SetInt(int64(x<<(64-uint(v.Type().Bits()))) >> (64 - uint(v.Type().Bits())))
	case reflect.Bool:
		v.SetBool(r.Intn(2) == 0)
	case reflect.String:
		v.SetString(f.str())
	case reflect.Array:
		for i := 0; i < v.Len(); i++ {
			f.fill(v.Index(i), depth+1)
		}
	case reflect.Interface:
		if v.Type() == c04BoxIface && depth <= 2 && r.Intn(2) == 0 && v.CanSet() {
			b := f.ctors[r.Intn(len(f.ctors))]()
			f.fill(reflect.ValueOf(b), depth+1)
			v.Set(reflect.ValueOf(b))
		}
	}
}

func (f *c04Filler) fillSlice(fv reflect.Value, n int, depth int) {
	et := fv.Type().Elem()
	if et.Kind() == reflect.Uint8 {
		b := make([]byte, []int{0, 1, 2, 4, 8, 16, 3 + f.r.Intn(30)}[f.r.Intn(7)])
		f.r.Read(b)
		fv.SetBytes(b)
		return
	}
	if depth > 2 && et.Kind() != reflect.Uint32 && et.Kind() != reflect.Uint64 && et.Kind() != reflect.Int32 && et.Kind() != reflect.Uint16 {
		return
	}
	s := reflect.MakeSlice(fv.Type(), 0, n)
	for i := 0; i < n; i++ {
		e := reflect.New(et).Elem()
		if et.Kind() == reflect.Interface {
			if et != c04BoxIface {
				continue
			}
			b := f.ctors[f.r.Intn(len(f.ctors))]()
			f.fill(reflect.ValueOf(b), depth+2)
			e.Set(reflect.ValueOf(b))
		} else {
			f.fill(e, depth+1)
		}
		s = reflect.Append(s, e)
	}
	fv.Set(s)
}

// c04BuildAPIBox returns the encoding of a randomly filled box (nil when the library cannot encode the value)
func c04BuildAPIBox(r *rand.Rand) ([]byte, string) {
	f := &c04Filler{r: r}
	f.ctors = c04APIBoxes(r)
	var out []byte
	typ := ""
	_ = safe(func() {
		b := f.ctors[r.Intn(len(f.ctors))]()
		if r.Intn(12) != 0 {
			f.fill(reflect.ValueOf(b), 0)
		}
		typ = b.Type()
		if _, ok := b.(c04HasChildren); ok || c04EmbedsChildBoxes(b) {
			typ += "+children"
		}
		if b.Size() > 200000 {
			return
		}
		var buf bytes.Buffer
		if err := b.Encode(&buf); err != nil {
			return
		}
		out = buf.Bytes()
	})
	if len(out) < 8 || len(out) > 100000 {
		return nil, typ
	}
	return out, typ
}

// c04EmbedsChildBoxes: the value carries child boxes in a field of type []mp4.Box (sample entries and trep keep their
// children that way without offering GetChildren); such a value is container-like, not a leaf.
func c04EmbedsChildBoxes(b mp4.Box) bool {
	v := reflect.ValueOf(b)
	if v.Kind() != reflect.Ptr || v.IsNil() || v.Elem().Kind() != reflect.Struct {
		return false
	}
	v = v.Elem()
	for i := 0; i < v.NumField(); i++ {
		if f := v.Field(i); f.Kind() == reflect.Slice && f.Type().Elem() == c04BoxIface && f.Len() > 0 {
			return true
		}
	}
	return false
}
