package main

import (
	"math/rand"
)

// Long progressive files for C10: tracks whose duration in ticks needs more than 32 bits (decode times beyond 2^32),
// i.e. long recordings at high time scales (10 MHz Smooth-Streaming style, microseconds) or slow tracks (one thumbnail
// per 2 s / 10 s at 90 kHz). Inside one stts run the product (samples before the cut) x (sample delta) passes 2^32 for
// every cut later than 2^32 ticks. Sample data is tiny (1..4 bytes per sample) so that a file with tens of thousands
// of samples stays small. Everything else (edit lists, ctts v0/v1, stss, sdtp, uniform stsz, chunking, layouts,
// coincidence nudges) comes from the extended generator (progExt).
// Input spec: "long <seed> <ntracks>".

type longCombo struct {
	media     string
	timescale uint32
	base      uint32 // regular sample delta
}

// combos whose tracks pass 2^32 ticks within at most ~25000 samples
var longCombos = []longCombo{
	{"video", 10000000, 10000000}, // 1 fps, 100 ns units
	{"video", 10000000, 2000000},  // 5 fps
	{"video", 10000000, 833333},   // 12 fps
	{"video", 10000000, 400000},   // 25 fps
	{"video", 10000000, 333333},   // 30 fps
	{"video", 10000000, 200000},   // 50 fps
	{"video", 1000000, 1000000},   // 1 fps, microseconds
	{"video", 1000000, 200000},    // 5 fps, microseconds
	{"video", 90000, 900000},      // one picture per 10 s at 90 kHz
	{"video", 90000, 180000},      // one picture per 2 s at 90 kHz
	{"audio", 10000000, 213333},   // 1024 samples at 48 kHz in 100 ns units
	{"audio", 10000000, 232200},   // 1024 samples at 44.1 kHz in 100 ns units
	{"video", 10000000, 5000000},  // 2 fps, 100 ns units
	{"video", 1000000, 10000000},  // one picture per 10 s, microseconds
	{"video", 90000, 5400000},     // one picture per minute at 90 kHz (time lapse)
}

// ordinary companions (their own tick counts stay small; they are cut at the converted end time)
var longCompanions = []longCombo{
	{"audio", 48000, 1024},
	{"audio", 44100, 1024},
	{"video", 90000, 3600},
	{"video", 25000, 1000},
	{"video", 12800, 512},
}

const longMaxSamples = 30000

func genLongTrack(r *rand.Rand, cb longCombo, n int) (*progTrack, bool, bool) {
	t := &progTrack{media: cb.media, timescale: cb.timescale}
	video := cb.media == "video"
	t.hasStss = (video && r.Intn(6) > 0) || (!video && r.Intn(8) == 0)
	t.hasCtts = video && r.Intn(3) == 0
	cttsV1 := t.hasCtts && r.Intn(3) == 0
	t.hasSdtp = r.Intn(5) == 0
	uniform := r.Intn(3) == 0
	usz := uint32(1 + r.Intn(4))
	gop := []int{1, 12, 25, 50, 100, 250}[r.Intn(6)]
	irregular := r.Intn(3) // 0: one run; 1: a few isolated odd durations; 2: an odd duration every ~2000 samples
	odd := map[int]bool{}
	if irregular == 1 {
		for k := 1 + r.Intn(3); k > 0; k-- {
			odd[r.Intn(n)] = true
		}
	}
	for i := 0; i < n; i++ {
		d := cb.base
		if odd[i] || (irregular == 2 && r.Intn(2000) == 0) {
			d = 1 + uint32(r.Int63n(2*int64(cb.base)))
		}
		t.durs = append(t.durs, d)
		t.sync = append(t.sync, !t.hasStss || i%gop == 0 || r.Intn(400) == 0)
		cto := int32(0)
		if t.hasCtts {
			cto = int32(r.Intn(4)) * int32(cb.base)
			if cttsV1 {
				cto -= int32(cb.base)
			}
		}
		t.ctos = append(t.ctos, cto)
		sz := uint32(1 + r.Intn(3))
		if uniform {
			sz = usz
		}
		t.sizes = append(t.sizes, sz)
		d2 := make([]byte, sz)
		r.Read(d2)
		t.data = append(t.data, d2)
		if t.hasSdtp {
			t.sdtp = append(t.sdtp, byte(r.Intn(256)))
		}
	}
	mode := r.Intn(6) // 0: one sample per chunk, 1: single chunk, else runs of long chunks
	left := n
	cur := 1 + r.Intn(500)
	for left > 0 {
		switch mode {
		case 0:
			cur = 1
		case 1:
			cur = left
		default:
			if r.Intn(3) == 0 {
				cur = 1 + r.Intn(500)
			}
		}
		k := cur
		if k > left {
			k = left
		}
		t.chunkLens = append(t.chunkLens, k)
		left -= k
	}
	return t, uniform, cttsV1
}

func genProgLong(r *rand.Rand, nTracks int) *progExt {
	pe := &progExt{progFile: &progFile{mdatFirst: r.Intn(3) == 0, largeMdat: r.Intn(4) == 0, co64: r.Intn(4) == 0}, flavor: "long"}
	pe.layout = []string{"random", "roundrobin", "sequential"}[r.Intn(3)]
	first := longCombos[r.Intn(len(longCombos))]
	// every other file: few samples in total (a slow long track, short companions), small enough for the sample-by-sample
	// executable model
	few := r.Intn(2) == 0
	maxCompanion := float64(longMaxSamples)
	if few {
		var slow []longCombo
		for _, cb := range longCombos {
			if (1<<32)/uint64(cb.base) < 1000 {
				slow = append(slow, cb)
			}
		}
		first = slow[r.Intn(len(slow))]
		maxCompanion = 1700
	}
	// length of the long track: 1.02 .. 2.6 times 2^32 ticks (fewer when that would need too many samples)
	ticks := float64(uint64(1)<<32) * (1.02 + 1.58*r.Float64())
	if n := ticks / float64(first.base); n > longMaxSamples {
		ticks = float64(first.base) * longMaxSamples
	}
	seconds := ticks / float64(first.timescale)
	pe.mvhdTS = []uint32{1000, 1000, 600, 90000}[r.Intn(4)]
	if seconds*float64(pe.mvhdTS) >= 4e9 {
		pe.mvhdTS = 1000
	}
	var combos []longCombo
	for i := 0; i < nTracks; i++ {
		if i == 0 {
			combos = append(combos, first)
			continue
		}
		var cand []longCombo
		for _, l := range [][]longCombo{longCombos, longCompanions} {
			for _, cb := range l {
				if seconds*float64(cb.timescale)/float64(cb.base) <= maxCompanion {
					cand = append(cand, cb)
				}
			}
		}
		if len(cand) == 0 {
			cand = append(cand, first)
		}
		combos = append(combos, cand[r.Intn(len(cand))])
	}
	// any order: the long track is not always the first / the reference track
	r.Shuffle(len(combos), func(i, j int) { combos[i], combos[j] = combos[j], combos[i] })
	for _, cb := range combos {
		n := int(seconds*float64(cb.timescale)/float64(cb.base)) + r.Intn(5) - 1
		if n < 2 {
			n = 2
		}
		if n > longMaxSamples {
			n = longMaxSamples
		}
		t, uniform, v1 := genLongTrack(r, cb, n)
		pe.tracks = append(pe.tracks, t)
		pe.edts = append(pe.edts, r.Intn(4) == 0)
		pe.shortPct = append(pe.shortPct, 0)
		pe.elstSplit = append(pe.elstSplit, 0)
		mt := int64(0)
		if t.hasCtts && r.Intn(2) == 0 {
			mt = int64(cb.base)
		}
		pe.mediaTime = append(pe.mediaTime, mt)
		pe.uniform = append(pe.uniform, uniform)
		pe.cttsV1 = append(pe.cttsV1, v1)
	}
	pe.alignCoincidences(r)
	pe.buildExt(r)
	return pe
}

// wrapDurations: the crop durations (ms) around the points where a track's decode time passes a multiple of 2^32
// ticks: the millisecond of that instant and of the first sync sample of the track at or after it, each -1/+0/+1.
func wrapDurations(in *rawProg) []uint64 {
	var out []uint64
	for _, t := range in.tracks {
		T := uint64(t.timescale)
		if T == 0 {
			continue
		}
		for k := uint64(1); k<<32 < t.total && k <= 4; k++ {
			m := (k << 32) * 1000 / T
			out = append(out, m-1, m, m+1)
			for i := 0; i < t.n; i++ {
				if t.dec[i] >= k<<32 && t.sync[i] {
					ms := t.dec[i] * 1000 / T
					out = append(out, ms-1, ms, ms+1)
					break
				}
			}
		}
	}
	return out
}
