package main

// C15 — independent serializer of the AVC (ISO/IEC 14496-10) and HEVC (ISO/IEC 23008-2) parameter-set and
// slice-header syntax. Nothing in this file uses mp4ff: the bit writer, ue(v)/se(v), rbsp_trailing_bits and the
// emulation prevention are written from the standards' text, so the parsers under test are checked against a
// second implementation of the syntax and not against their own inverse.
//
// Each serializer draws the field values from a *rand.Rand while it writes them (the draw depends on earlier
// values exactly as the syntax's conditions do) and records, in syntax order, what a parser of the standard must
// report: `exp` is a list of (name, value) where name is the path of the field in mp4ff's parsed struct
// (e.g. "VUI.NalHrdParameters.CpbEntries[2].CbrFlag"). Elements that mp4ff's structs do not expose are written but
// not recorded.

import (
	"fmt"
	mbits "math/bits"
	"math/rand"
	"strings"
)

// ---------------------------------------------------------------------------------------------------------------
// bit writer

type esKV struct {
	K, V string
	Alt  bool // several coded instances share one scalar field of the parsed struct: any coded value is accepted
}

type esW struct {
	buf  []byte
	nbit int
	exp  []esKV
	pfx  []string
}

func (w *esW) putBit(b uint64) {
	if w.nbit%8 == 0 {
		w.buf = append(w.buf, 0)
	}
	if b&1 == 1 {
		w.buf[len(w.buf)-1] |= 0x80 >> uint(w.nbit%8)
	}
	w.nbit++
}

// u(n): n bits, most significant first.
func (w *esW) u(n int, v uint64) {
	for i := n - 1; i >= 0; i-- {
		w.putBit(v >> uint(i))
	}
}

// ue(v): 9.2 (AVC) / 9.2 (HEVC): codeNum = 2^leadingZeroBits - 1 + read_bits(leadingZeroBits).
func (w *esW) ue(v uint64) {
	x := v + 1
	n := mbits.Len64(x)
	w.u(n-1, 0)
	w.u(n, x)
}

// se(v): codeNum k maps to (-1)^(k+1) * Ceil(k/2).
func (w *esW) se(v int64) {
	if v > 0 {
		w.ue(uint64(2*v - 1))
	} else {
		w.ue(uint64(-2 * v))
	}
}

func (w *esW) f(b bool) bool {
	if b {
		w.putBit(1)
	} else {
		w.putBit(0)
	}
	return b
}

// rbsp_trailing_bits(): stop bit 1, then zero bits up to the byte boundary.
func (w *esW) trailing() {
	w.putBit(1)
	for w.nbit%8 != 0 {
		w.putBit(0)
	}
}

func (w *esW) path(name string) string {
	if len(w.pfx) == 0 {
		return name
	}
	return strings.Join(w.pfx, ".") + "." + name
}
func (w *esW) push(p string) { w.pfx = append(w.pfx, p) }
func (w *esW) pop()          { w.pfx = w.pfx[:len(w.pfx)-1] }

func esFmt(v interface{}) string {
	switch x := v.(type) {
	case string:
		return x
	case bool:
		if x {
			return "true"
		}
		return "false"
	case []uint64:
		s := make([]string, len(x))
		for i, e := range x {
			s[i] = fmt.Sprint(e)
		}
		return "[" + strings.Join(s, ",") + "]"
	case []int64:
		s := make([]string, len(x))
		for i, e := range x {
			s[i] = fmt.Sprint(e)
		}
		return "[" + strings.Join(s, ",") + "]"
	case []bool:
		s := make([]string, len(x))
		for i, e := range x {
			s[i] = esFmt(e)
		}
		return "[" + strings.Join(s, ",") + "]"
	}
	return fmt.Sprint(v)
}

// rec records an expectation without writing (derived values, list values).
func (w *esW) rec(name string, val interface{}) {
	if name == "" {
		return
	}
	w.exp = append(w.exp, esKV{K: w.path(name), V: esFmt(val)})
}
func (w *esW) recAlt(name string, val interface{}) {
	w.exp = append(w.exp, esKV{K: w.path(name), V: esFmt(val), Alt: true})
}
func (w *esW) U(name string, n int, v uint64) uint64 { w.u(n, v); w.rec(name, v); return v }
func (w *esW) UE(name string, v uint64) uint64       { w.ue(v); w.rec(name, v); return v }
func (w *esW) SE(name string, v int64) int64         { w.se(v); w.rec(name, v); return v }
func (w *esW) F(name string, b bool) bool            { w.f(b); w.rec(name, b); return b }

// esEscape converts an RBSP into the NAL unit payload: emulation_prevention_three_byte before every byte <= 3 that
// follows two zero bytes (7.4.1 / 7.4.2: the byte sequences 000000, 000001, 000002 and 000003 must not occur).
// idx[i] is the position in the output of rbsp byte i.
func esEscape(rbsp []byte) (out []byte, idx []int) {
	zeros := 0
	for _, b := range rbsp {
		if zeros >= 2 && b <= 3 {
			out = append(out, 3)
			zeros = 0
		}
		idx = append(idx, len(out))
		out = append(out, b)
		if b == 0 {
			zeros++
		} else {
			zeros = 0
		}
	}
	if len(rbsp) > 0 && rbsp[len(rbsp)-1] == 0 {
		out = append(out, 3) // cabac_zero_words case; not produced by the generators below
	}
	return
}

// esNALU prepends the NAL unit header and escapes the payload. occupied(bits) = number of bytes of the NAL unit
// (header included, emulation prevention bytes included) that must be consumed to read the first `bits` payload bits.
func esNALU(hdr []byte, rbsp []byte) (nalu []byte, occupied func(bits int) int) {
	out, idx := esEscape(rbsp)
	nalu = append(append([]byte{}, hdr...), out...)
	occupied = func(bits int) int {
		if bits == 0 {
			return len(hdr)
		}
		last := (bits+7)/8 - 1
		return len(hdr) + idx[last] + 1
	}
	return
}

func esCountEPB(hdrLen int, nalu []byte, rbspLen int) int { return len(nalu) - hdrLen - rbspLen }

// ---------------------------------------------------------------------------------------------------------------
// value drawing

type esG struct {
	r    *rand.Rand
	w    *esW
	tags map[string]bool

	hrd, picStruct bool // AVC VUI: NAL or VCL HRD present, pic_struct_present_flag
}

func newEsG(r *rand.Rand) *esG { return &esG{r: r, w: &esW{}, tags: map[string]bool{}} }

func (g *esG) tag(s string)        { g.tags[s] = true }
func (g *esG) p(prob float64) bool { return g.r.Float64() < prob }
func (g *esG) rng(lo, hi int64) int64 {
	if hi <= lo {
		return lo
	}
	return lo + g.r.Int63n(hi-lo+1)
}

// small draws from [0,max]: mostly small values, sometimes uniform, sometimes the boundary.
func (g *esG) small(max uint64) uint64 {
	if max == 0 {
		return 0
	}
	x := g.r.Intn(100)
	min := func(a, b uint64) uint64 {
		if a < b {
			return a
		}
		return b
	}
	switch {
	case x < 55:
		return uint64(g.rng(0, int64(min(max, 3))))
	case x < 78:
		return uint64(g.rng(0, int64(min(max, 40))))
	case x < 92:
		return uint64(g.rng(0, int64(max)))
	case x < 96:
		return max
	default:
		return max - 1
	}
}

// signed draws from [lo,hi] (lo <= 0 <= hi): mostly near zero, sometimes uniform, sometimes a boundary.
func (g *esG) signed(lo, hi int64) int64 {
	cl := func(v int64) int64 {
		if v < lo {
			return lo
		}
		if v > hi {
			return hi
		}
		return v
	}
	x := g.r.Intn(100)
	switch {
	case x < 55:
		return cl(g.rng(-3, 3))
	case x < 78:
		return cl(g.rng(-40, 40))
	case x < 92:
		return g.rng(lo, hi)
	case x < 96:
		return lo
	default:
		return hi
	}
}

func (g *esG) bits64(n int) uint64 {
	if n >= 64 {
		return g.r.Uint64()
	}
	return g.r.Uint64() & (1<<uint(n) - 1)
}

// randomTail appends "slice data": the rest of the current byte and some bytes, the last one non-zero.
func (g *esG) randomTail(minBytes, maxBytes int) {
	w := g.w
	for w.nbit%8 != 0 {
		w.putBit(uint64(g.r.Intn(2)))
	}
	n := int(g.rng(int64(minBytes), int64(maxBytes)))
	for i := 0; i < n; i++ {
		b := byte(g.r.Intn(256))
		if g.p(0.35) {
			b = 0
		}
		if g.p(0.1) {
			b = byte(g.r.Intn(4))
		}
		if i == n-1 && b == 0 {
			b = 0x80
		}
		w.u(8, uint64(b))
	}
}

func esCeilLog2(n uint64) int { // Ceil(Log2(n)) for n >= 1
	if n <= 1 {
		return 0
	}
	return mbits.Len64(n - 1)
}

// ---------------------------------------------------------------------------------------------------------------
// AVC sequence parameter set, 7.3.2.1.1 + E.1.1/E.1.2

type avcSPSInfo struct {
	ID                  uint32
	Profile             uint32
	Compat              uint32
	Level               uint32
	High                bool // profile carries chroma_format_idc etc.
	ChromaFormatIDC     int
	SeparateColourPlane bool
	BitDepthLumaM8      uint
	BitDepthChromaM8    uint
	Log2MaxFrameNum     int
	PocType             int
	Log2MaxPocLsb       int
	DeltaPicAlwaysZero  bool
	FrameMbsOnly        bool
	PicWidthInMbs       uint64
	PicHeightInMapUnits uint64
	Width, Height       uint64 // cropped frame size by the standard's formula
	VUI                 bool
	NALU                []byte
	Exp                 []esKV
	Tags                []string
}

func (s *avcSPSInfo) chromaArrayType() int {
	if s.SeparateColourPlane {
		return 0
	}
	return s.ChromaFormatIDC
}
func (s *avcSPSInfo) picSizeInMapUnits() uint64 { return s.PicWidthInMbs * s.PicHeightInMapUnits }

type esOpt struct {
	ID     int  // parameter set id, -1 = random
	Modest bool // picture size at most 4096x2304 luma samples, and not degenerate (for users that need a usable set)
}

var avcHighProfiles = []uint64{100, 110, 122, 244, 44, 83, 86, 118, 128, 138, 139, 134, 135}
var avcSARTable = [][2]uint64{{0, 0}, {1, 1}, {12, 11}, {10, 11}, {16, 11}, {40, 33}, {24, 11}, {20, 11}, {32, 11},
	{80, 33}, {18, 11}, {15, 11}, {64, 33}, {160, 99}, {4, 3}, {3, 2}, {2, 1}}

func tagList(m map[string]bool) []string {
	var l []string
	for k := range m {
		l = append(l, k)
	}
	sortStrings(l)
	return l
}

func sortStrings(l []string) {
	for i := 1; i < len(l); i++ {
		for j := i; j > 0 && l[j] < l[j-1]; j-- {
			l[j], l[j-1] = l[j-1], l[j]
		}
	}
}

// avcScalingList writes scaling_list(sizeOfScalingList) (7.3.2.1.1.1) and returns the list a decoder derives.
func (g *esG) avcScalingList(size int) []int64 {
	w := g.w
	list := make([]int64, size)
	last, next := int64(8), int64(8)
	stopAt := -1
	if g.p(0.4) {
		stopAt = g.r.Intn(size) // make nextScale 0 here: the rest of the list repeats lastScale
	}
	if g.p(0.08) {
		stopAt = 0 // useDefaultScalingMatrixFlag
	}
	for j := 0; j < size; j++ {
		if next != 0 {
			var delta int64
			switch {
			case j == stopAt:
				delta = -last
				if delta < -128 {
					delta = 256 - last
				}
			case g.p(0.7):
				delta = g.rng(-4, 4)
			default:
				delta = g.rng(-128, 127)
			}
			if (last+delta+256)%256 == 0 && j != stopAt {
				delta++ // avoid an accidental stop
				if delta > 127 {
					delta = -3
				}
			}
			w.se(delta)
			next = (last + delta + 256) % 256
		}
		if next == 0 {
			list[j] = last
		} else {
			list[j] = next
		}
		last = list[j]
	}
	return list
}

func (g *esG) avcHRD(name string) {
	w := g.w
	w.push(name)
	cnt := w.UE("CpbCountMinus1", g.small(31))
	w.U("BitRateScale", 4, g.bits64(4))
	w.U("CpbSizeScale", 4, g.bits64(4))
	w.rec("CpbEntries.len", cnt+1)
	for i := uint64(0); i <= cnt; i++ {
		w.push(fmt.Sprintf("CpbEntries[%d]", i))
		w.UE("BitRateValueMinus1", g.small(1<<32-2))
		w.UE("CpbSizeValueMinus1", g.small(1<<32-2))
		w.F("CbrFlag", g.p(0.5))
		w.pop()
	}
	w.U("InitialCpbRemovalDelayLengthMinus1", 5, g.bits64(5))
	w.U("CpbRemovalDelayLengthMinus1", 5, g.bits64(5))
	w.U("DpbOutputDelayLengthMinus1", 5, g.bits64(5))
	w.U("TimeOffsetLength", 5, g.bits64(5))
	w.pop()
}

// avcVUI writes vui_parameters() (E.1.1).
func (g *esG) avcVUI() {
	w := g.w
	if w.f(g.p(0.6)) { // aspect_ratio_info_present_flag
		var idc uint64
		switch x := g.r.Intn(10); {
		case x < 5:
			idc = uint64(g.rng(1, 16))
		case x < 8:
			idc = 255
		default:
			idc = 0 // Table E-1: Unspecified
		}
		w.u(8, idc)
		switch {
		case idc == 255:
			g.tag("vui-sar-extended")
			w.U("SampleAspectRatioWidth", 16, g.bits64(16))
			w.U("SampleAspectRatioHeight", 16, g.bits64(16))
		case idc == 0:
			g.tag("vui-sar-unspecified")
		default:
			g.tag("vui-sar-table")
			w.rec("SampleAspectRatioWidth", avcSARTable[idc][0])
			w.rec("SampleAspectRatioHeight", avcSARTable[idc][1])
		}
	}
	if w.F("OverscanInfoPresentFlag", g.p(0.4)) {
		w.F("OverscanAppropriateFlag", g.p(0.5))
	}
	if w.F("VideoSignalTypePresentFlag", g.p(0.5)) {
		w.U("VideoFormat", 3, g.bits64(3))
		w.F("VideoFullRangeFlag", g.p(0.5))
		if w.F("ColourDescriptionFlag", g.p(0.6)) {
			w.U("ColourPrimaries", 8, g.bits64(8))
			w.U("TransferCharacteristics", 8, g.bits64(8))
			w.U("MatrixCoefficients", 8, g.bits64(8))
		}
	}
	if w.F("ChromaLocInfoPresentFlag", g.p(0.4)) {
		w.UE("ChromaSampleLocTypeTopField", uint64(g.rng(0, 5)))
		w.UE("ChromaSampleLocTypeBottomField", uint64(g.rng(0, 5)))
	}
	if w.F("TimingInfoPresentFlag", g.p(0.6)) {
		g.tag("vui-timing")
		w.U("NumUnitsInTick", 32, 1+g.small(1<<32-2))
		w.U("TimeScale", 32, 1+g.small(1<<32-2))
		w.F("FixedFrameRateFlag", g.p(0.5))
	}
	nal := w.F("NalHrdParametersPresentFlag", g.p(0.35))
	if nal {
		g.tag("vui-nal-hrd")
		g.avcHRD("NalHrdParameters")
	} else {
		w.rec("NalHrdParameters", "nil")
	}
	vcl := w.F("VclHrdParametersPresentFlag", g.p(0.35))
	if vcl {
		g.tag("vui-vcl-hrd")
		g.avcHRD("VclHrdParameters")
	} else {
		w.rec("VclHrdParameters", "nil")
	}
	if nal || vcl {
		w.F("LowDelayHrdFlag", g.p(0.5))
	}
	g.hrd = nal || vcl
	g.picStruct = w.F("PicStructPresentFlag", g.p(0.5))
	if w.F("BitstreamRestrictionFlag", g.p(0.5)) {
		g.tag("vui-bitstream-restriction")
		w.F("MotionVectorsOverPicBoundariesFlag", g.p(0.5))
		w.UE("MaxBytesPerPicDenom", g.small(16))
		w.UE("MaxBitsPerMbDenom", g.small(16))
		w.UE("Log2MaxMvLengthHorizontal", g.small(16))
		w.UE("Log2MaxMvLengthVertical", g.small(16))
		reorder := g.small(16)
		w.UE("MaxNumReorderFrames", reorder)
		w.UE("MaxDecFrameBuffering", reorder+g.small(16-reorder))
	}
}

func genAVCSPS(r *rand.Rand) (*avcSPSInfo, []byte) {
	s := genAVCSPSOpt(r, esOpt{ID: -1})
	return s, s.NALU
}

func genAVCSPSOpt(r *rand.Rand, o esOpt) *avcSPSInfo {
	g := newEsG(r)
	w := g.w
	s := &avcSPSInfo{}
	hdr := byte((1+r.Intn(3))<<5 | 7) // nal_ref_idc != 0, nal_unit_type 7

	if g.p(0.35) {
		s.Profile = uint32([]uint64{66, 77, 88}[r.Intn(3)])
	} else {
		s.Profile = uint32(avcHighProfiles[r.Intn(len(avcHighProfiles))])
		s.High = true
	}
	w.U("Profile", 8, uint64(s.Profile))
	s.Compat = uint32(r.Intn(256)) &^ 3 // constraint_set0..5_flag, reserved_zero_2bits
	w.U("ProfileCompatibility", 8, uint64(s.Compat))
	if g.p(0.85) {
		s.Level = uint32([]int{9, 10, 11, 12, 13, 20, 21, 22, 30, 31, 32, 40, 41, 42, 50, 51, 52, 60, 61, 62}[r.Intn(20)])
	} else {
		s.Level = uint32(r.Intn(256))
	}
	w.U("Level", 8, uint64(s.Level))
	if o.ID >= 0 {
		s.ID = uint32(o.ID)
	} else {
		s.ID = uint32(g.small(31))
	}
	w.UE("ParameterID", uint64(s.ID))
	s.ChromaFormatIDC = 1
	if s.High {
		g.tag("profile-high-syntax")
		s.ChromaFormatIDC = []int{0, 1, 1, 1, 2, 3, 3}[r.Intn(7)]
		w.UE("ChromaFormatIDC", uint64(s.ChromaFormatIDC))
		if s.ChromaFormatIDC == 3 {
			s.SeparateColourPlane = w.F("SeparateColourPlaneFlag", g.p(0.5))
		}
		s.BitDepthLumaM8 = uint(w.UE("BitDepthLumaMinus8", g.small(6)))
		s.BitDepthChromaM8 = uint(w.UE("BitDepthChromaMinus8", g.small(6)))
		w.F("QPPrimeYZeroTransformBypassFlag", g.p(0.3))
		if w.F("SeqScalingMatrixPresentFlag", g.p(0.3)) {
			g.tag("sps-scaling-matrix")
			n := 8
			if s.ChromaFormatIDC == 3 {
				n = 12
			}
			w.rec("SeqScalingLists.len", n)
			for i := 0; i < n; i++ {
				name := fmt.Sprintf("SeqScalingLists[%d]", i)
				if w.f(g.p(0.5)) {
					size := 16
					if i >= 6 {
						size = 64
					}
					w.rec(name, g.avcScalingList(size))
				} else {
					w.rec(name, "[]")
				}
			}
		}
	} else {
		g.tag("profile-baseline-main-extended")
		w.rec("ChromaFormatIDC", 1) // 7.4.2.1.1: inferred 4:2:0 when not present
		w.rec("BitDepthLumaMinus8", 0)
		w.rec("BitDepthChromaMinus8", 0)
	}
	s.Log2MaxFrameNum = 4 + int(w.UE("Log2MaxFrameNumMinus4", g.small(12)))
	s.PocType = r.Intn(3)
	w.UE("PicOrderCntType", uint64(s.PocType))
	g.tag(fmt.Sprintf("poc-type-%d", s.PocType))
	switch s.PocType {
	case 0:
		s.Log2MaxPocLsb = 4 + int(w.UE("Log2MaxPicOrderCntLsbMinus4", g.small(12)))
	case 1:
		s.DeltaPicAlwaysZero = w.F("DeltaPicOrderAlwaysZeroFlag", g.p(0.4))
		const lim = 1<<31 - 1
		w.SE("OffsetForNonRefPic", g.signed(-lim, lim))
		w.SE("OffsetForTopToBottomField", g.signed(-lim, lim))
		n := g.small(255)
		w.ue(n)
		l := make([]int64, n)
		for i := range l {
			l[i] = g.signed(-lim, lim)
			w.se(l[i])
		}
		w.rec("RefFramesInPicOrderCntCycle", l)
	}
	w.UE("NumRefFrames", g.small(16))
	w.F("GapsInFrameNumValueAllowedFlag", g.p(0.3))
	// picture size
	dim := func() uint64 {
		if o.Modest {
			return uint64(g.rng(2, 144))
		}
		switch x := r.Intn(100); {
		case x < 50:
			return uint64(g.rng(1, 30))
		case x < 85:
			return uint64(g.rng(1, 256))
		case x < 97:
			return uint64(g.rng(1, 4096))
		default:
			return uint64(g.rng(1, 1<<16))
		}
	}
	s.PicWidthInMbs = dim()
	s.PicHeightInMapUnits = dim()
	w.ue(s.PicWidthInMbs - 1)
	w.ue(s.PicHeightInMapUnits - 1)
	s.FrameMbsOnly = w.F("FrameMbsOnlyFlag", g.p(0.6))
	if !s.FrameMbsOnly {
		g.tag("interlace-syntax")
		w.F("MbAdaptiveFrameFieldFlag", g.p(0.5))
		w.F("Direct8x8InferenceFlag", true) // shall be 1 when frame_mbs_only_flag is 0
	} else {
		w.F("Direct8x8InferenceFlag", g.p(0.7))
	}
	fmo := uint64(0)
	if s.FrameMbsOnly {
		fmo = 1
	}
	widthL := 16 * s.PicWidthInMbs                    // PicWidthInSamplesL
	heightL := 16 * (2 - fmo) * s.PicHeightInMapUnits // 16 * FrameHeightInMbs
	s.Width, s.Height = widthL, heightL
	if w.F("FrameCroppingFlag", g.p(0.5)) {
		g.tag("cropping")
		// 7.4.2.1.1: ChromaArrayType 0 -> CropUnitX 1, CropUnitY 2-frame_mbs_only_flag;
		// otherwise CropUnitX = SubWidthC, CropUnitY = SubHeightC*(2-frame_mbs_only_flag)
		var cux, cuy uint64
		switch s.chromaArrayType() {
		case 0:
			cux, cuy = 1, 2-fmo
		case 1:
			cux, cuy = 2, 2*(2-fmo)
		case 2:
			cux, cuy = 2, 1*(2-fmo)
		case 3:
			cux, cuy = 1, 1*(2-fmo)
		}
		split := func(total uint64) (a, b uint64) {
			a = uint64(g.rng(0, int64(total)))
			if g.p(0.3) {
				a = 0
			}
			return a, total - a
		}
		tx := g.small(widthL/cux - 1)
		ty := g.small(heightL/cuy - 1)
		if o.Modest { // keep at least half of the picture
			tx = uint64(g.rng(0, int64(widthL/cux/2)))
			ty = uint64(g.rng(0, int64(heightL/cuy/2)))
		}
		l, rr := split(tx)
		t, b := split(ty)
		w.UE("FrameCropLeftOffset", l)
		w.UE("FrameCropRightOffset", rr)
		w.UE("FrameCropTopOffset", t)
		w.UE("FrameCropBottomOffset", b)
		s.Width = widthL - cux*(l+rr)
		s.Height = heightL - cuy*(t+b)
	}
	w.rec("Width", s.Width)
	w.rec("Height", s.Height)
	s.VUI = w.f(g.p(0.6))
	if s.VUI {
		g.tag("vui")
		w.push("VUI")
		g.avcVUI()
		w.pop()
	} else {
		w.rec("VUI", "nil")
	}
	w.rec("CpbDpbDelaysPresent()", g.hrd)
	w.rec("PicStructPresent()", g.picStruct)
	w.rec("ChromaArrayType()", s.chromaArrayType())
	w.trailing()
	s.NALU, _ = esNALU([]byte{hdr}, w.buf)
	if len(s.NALU)-1 != len(w.buf) {
		g.tag("emulation-prevention")
	}
	s.Exp = w.exp
	s.Tags = tagList(g.tags)
	return s
}

// ---------------------------------------------------------------------------------------------------------------
// AVC picture parameter set, 7.3.2.2

type avcPPSInfo struct {
	ID, SPSID           uint32
	Entropy             bool
	BottomFieldPicOrder bool
	NumSliceGroupsM1    uint64
	MapType             uint64
	ChangeRateM1        uint64
	NumRefIdxL0Def      uint64
	NumRefIdxL1Def      uint64
	WeightedPred        bool
	WeightedBipredIDC   uint64
	DeblockCtrl         bool
	RedundantPicCnt     bool
	NALU                []byte
	Exp                 []esKV
	Tags                []string
}

func genAVCPPS(r *rand.Rand, sps *avcSPSInfo) (*avcPPSInfo, []byte) {
	p := genAVCPPSOpt(r, sps, esOpt{ID: -1})
	return p, p.NALU
}

func genAVCPPSOpt(r *rand.Rand, sps *avcSPSInfo, o esOpt) *avcPPSInfo {
	g := newEsG(r)
	w := g.w
	p := &avcPPSInfo{SPSID: sps.ID}
	hdr := byte((1+r.Intn(3))<<5 | 8)
	if o.ID >= 0 {
		p.ID = uint32(o.ID)
	} else {
		p.ID = uint32(g.small(255))
	}
	w.UE("PicParameterSetID", uint64(p.ID))
	w.UE("SeqParameterSetID", uint64(p.SPSID))
	p.Entropy = w.F("EntropyCodingModeFlag", g.p(0.5))
	p.BottomFieldPicOrder = w.F("BottomFieldPicOrderInFramePresentFlag", g.p(0.4))
	if g.p(0.2) && !o.Modest && sps.picSizeInMapUnits() <= 1<<20 {
		p.NumSliceGroupsM1 = uint64(g.rng(1, 7))
	}
	w.UE("NumSliceGroupsMinus1", p.NumSliceGroupsM1)
	if p.NumSliceGroupsM1 > 0 {
		units := sps.picSizeInMapUnits()
		p.MapType = uint64(r.Intn(7))
		if p.MapType == 6 && units > 1500 {
			p.MapType = uint64(r.Intn(6))
		}
		g.tag(fmt.Sprintf("slice-group-map-type-%d", p.MapType))
		w.UE("SliceGroupMapType", p.MapType)
		n := p.NumSliceGroupsM1
		switch p.MapType {
		case 0:
			l := make([]uint64, n+1)
			for i := range l {
				l[i] = g.small(units - 1)
				w.ue(l[i])
			}
			w.rec("RunLengthMinus1", l)
		case 2:
			tl := make([]uint64, n) // iGroup < num_slice_groups_minus1
			br := make([]uint64, n)
			for i := range tl {
				tl[i] = g.small(units - 1)
				br[i] = tl[i] + g.small(units-1-tl[i])
				w.ue(tl[i])
				w.ue(br[i])
			}
			w.rec("TopLeft", tl)
			w.rec("BottomRight", br)
		case 3, 4, 5:
			w.F("SliceGroupChangeDirectionFlag", g.p(0.5))
			p.ChangeRateM1 = w.UE("SliceGroupChangeRateMinus1", g.small(units-1))
		case 6:
			w.UE("PicSizeInMapUnitsMinus1", units-1)
			nb := esCeilLog2(n + 1)
			l := make([]uint64, units)
			zeroRuns := g.p(0.5) // long runs of group 0 put emulation prevention bytes into the PPS
			for i := range l {
				l[i] = uint64(g.rng(0, int64(n)))
				if zeroRuns && g.p(0.9) {
					l[i] = 0
				}
				w.u(nb, l[i])
			}
			w.rec("SliceGroupID", l)
		}
	}
	p.NumRefIdxL0Def = w.UE("NumRefIdxI0DefaultActiveMinus1", g.small(31))
	p.NumRefIdxL1Def = w.UE("NumRefIdxI1DefaultActiveMinus1", g.small(31))
	p.WeightedPred = w.F("WeightedPredFlag", g.p(0.4))
	p.WeightedBipredIDC = w.U("WeightedBipredIDC", 2, uint64(r.Intn(3)))
	w.SE("PicInitQpMinus26", g.signed(-(26+6*int64(sps.BitDepthLumaM8)), 25))
	w.SE("PicInitQsMinus26", g.signed(-26, 25))
	w.SE("ChromaQpIndexOffset", g.signed(-12, 12))
	p.DeblockCtrl = w.F("DeblockingFilterControlPresentFlag", g.p(0.6))
	w.F("ConstrainedIntraPredFlag", g.p(0.3))
	p.RedundantPicCnt = w.F("RedundantPicCntPresentFlag", g.p(0.25))
	if g.p(0.55) { // more_rbsp_data()
		g.tag("pps-tail")
		t8 := w.F("Transform8x8ModeFlag", g.p(0.6))
		if w.F("PicScalingMatrixPresentFlag", g.p(0.45)) {
			g.tag("pps-scaling-matrix")
			n := 6
			if t8 {
				if sps.ChromaFormatIDC != 3 {
					n += 2
				} else {
					n += 6
				}
			} else {
				g.tag("pps-scaling-matrix-without-8x8")
			}
			w.rec("PicScalingLists.len", n)
			for i := 0; i < n; i++ {
				name := fmt.Sprintf("PicScalingLists[%d]", i)
				if w.f(g.p(0.5)) {
					size := 16
					if i >= 6 {
						size = 64
					}
					w.rec(name, g.avcScalingList(size))
				} else {
					w.rec(name, "[]")
				}
			}
		}
		w.SE("SecondChromaQpIndexOffset", g.signed(-12, 12))
	}
	w.trailing()
	p.NALU, _ = esNALU([]byte{hdr}, w.buf)
	if len(p.NALU)-1 != len(w.buf) {
		g.tag("emulation-prevention")
	}
	p.Exp = w.exp
	p.Tags = tagList(g.tags)
	return p
}

// ---------------------------------------------------------------------------------------------------------------
// AVC slice header, 7.3.3 (+ 7.3.3.1 ref_pic_list_modification, 7.3.3.2 pred_weight_table, 7.3.3.3 dec_ref_pic_marking)

type esSlice struct {
	NALU []byte
	Exp  []esKV
	Size int // bytes of the NAL unit (NAL header included) occupied by the slice header
	Tags []string
}

func genAVCSlice(r *rand.Rand, sps *avcSPSInfo, pps *avcPPSInfo) *esSlice {
	g := newEsG(r)
	w := g.w
	nalType := []int{1, 1, 1, 5, 5, 2, 19}[r.Intn(7)]
	refIdc := r.Intn(4)
	if nalType == 5 && refIdc == 0 {
		refIdc = 1 + r.Intn(3)
	}
	hdr := byte(refIdc<<5 | nalType)
	idr := nalType == 5
	g.tag(fmt.Sprintf("nal-type-%d", nalType))

	maxMb := sps.picSizeInMapUnits() - 1
	if maxMb > 1<<32-2 {
		maxMb = 1<<32 - 2
	}
	w.UE("FirstMBInSlice", g.small(maxMb))
	var st int // slice_type 0..9
	if idr {
		st = []int{2, 7, 4, 9}[r.Intn(4)]
	} else {
		st = r.Intn(10)
	}
	w.UE("SliceType", uint64(st))
	t := st % 5
	const (
		P  = 0
		B  = 1
		I  = 2
		SP = 3
		SI = 4
	)
	g.tag("slice-type-" + []string{"P", "B", "I", "SP", "SI"}[t])
	w.UE("PicParamID", uint64(pps.ID))
	w.rec("SeqParamID", pps.SPSID)
	if sps.SeparateColourPlane {
		w.U("ColorPlaneID", 2, uint64(r.Intn(3)))
	}
	w.U("FrameNum", sps.Log2MaxFrameNum, g.bits64(sps.Log2MaxFrameNum))
	field := false
	if !sps.FrameMbsOnly {
		field = w.F("FieldPicFlag", g.p(0.5))
		if field {
			g.tag("field-pic")
			w.F("BottomFieldFlag", g.p(0.5))
		}
	}
	if idr {
		w.UE("IDRPicID", g.small(65535))
	}
	if sps.PocType == 0 {
		w.U("PicOrderCntLsb", sps.Log2MaxPocLsb, g.bits64(sps.Log2MaxPocLsb))
		if pps.BottomFieldPicOrder && !field {
			w.SE("DeltaPicOrderCntBottom", g.signed(-(1<<31)+1, 1<<31-1))
		}
	}
	if sps.PocType == 1 && !sps.DeltaPicAlwaysZero {
		w.se(g.signedRec(w, "DeltaPicOrderCnt", 0))
		if pps.BottomFieldPicOrder && !field {
			w.se(g.signedRec(w, "DeltaPicOrderCnt", 1))
		}
	}
	if pps.RedundantPicCnt {
		w.UE("RedundantPicCnt", g.small(127))
	}
	if t == B {
		w.F("DirectSpatialMvPredFlag", g.p(0.5))
	}
	l0, l1 := pps.NumRefIdxL0Def, pps.NumRefIdxL1Def
	if t == P || t == SP || t == B {
		if w.F("NumRefIdxActiveOverrideFlag", g.p(0.5)) {
			max := uint64(15)
			if field {
				max = 31
			}
			l0 = g.small(max)
			w.ue(l0)
			if t == B {
				l1 = g.small(max)
				w.ue(l1)
			}
		}
		w.rec("NumRefIdxL0ActiveMinus1", l0) // 7.4.3: the PPS default when not overridden
		if t == B {
			w.rec("NumRefIdxL1ActiveMinus1", l1)
		}
	}
	// ref_pic_list_modification()
	modLoop := func(flagName string) {
		if !w.F(flagName, g.p(0.4)) {
			return
		}
		g.tag("ref-pic-list-modification")
		n := r.Intn(4)
		for i := 0; i < n; i++ {
			idc := uint64(r.Intn(3))
			w.ue(idc)
			w.recAlt("ModificationOfPicNumsIDC", idc)
			v := g.small(1 << 16)
			w.ue(v)
			if idc == 2 {
				w.recAlt("LongTermPicNum", v)
			} else {
				w.recAlt("AbsDiffPicNumMinus1", v)
			}
		}
		w.ue(3)
		w.recAlt("ModificationOfPicNumsIDC", 3)
	}
	if t != I && t != SI {
		modLoop("RefPicListModificationL0Flag")
	}
	if t == B {
		modLoop("RefPicListModificationL1Flag")
	}
	if (pps.WeightedPred && (t == P || t == SP)) || (pps.WeightedBipredIDC == 1 && t == B) {
		g.tag("pred-weight-table")
		w.UE("LumaLog2WeightDenom", g.small(7))
		cat := sps.chromaArrayType()
		if cat != 0 {
			w.UE("ChromaLog2WeightDenom", g.small(7))
		}
		table := func(n uint64) {
			for i := uint64(0); i <= n; i++ {
				if w.f(g.p(0.5)) {
					w.se(g.signed(-128, 127))
					w.se(g.signed(-128, 127))
				}
				if cat != 0 {
					if w.f(g.p(0.5)) {
						for j := 0; j < 2; j++ {
							w.se(g.signed(-128, 127))
							w.se(g.signed(-128, 127))
						}
					}
				}
			}
		}
		table(l0)
		if t == B {
			table(l1)
		}
	}
	if refIdc != 0 {
		if idr {
			w.F("NoOutputOfPriorPicsFlag", g.p(0.5))
			w.F("LongTermReferenceFlag", g.p(0.5))
		} else if w.F("AdaptiveRefPicMarkingModeFlag", g.p(0.4)) {
			g.tag("dec-ref-pic-marking-mmco")
			n := r.Intn(4)
			for i := 0; i < n; i++ {
				op := uint64(g.rng(1, 6))
				w.ue(op)
				if op == 1 || op == 3 {
					w.recAlt("DifferenceOfPicNumsMinus1", w.ueV(g.small(1<<16)))
				}
				if op == 2 {
					w.recAlt("LongTermPicNum", w.ueV(g.small(1<<16)))
				}
				if op == 3 || op == 6 {
					w.recAlt("LongTermFramIdx", w.ueV(g.small(16)))
				}
				if op == 4 {
					w.recAlt("MaxLongTermFrameIdxPlus1", w.ueV(g.small(16)))
				}
			}
			w.ue(0)
		}
	}
	if pps.Entropy && t != I && t != SI {
		w.UE("CabacInitIDC", uint64(r.Intn(3)))
	}
	w.SE("SliceQPDelta", g.signed(-51, 51))
	if t == SP || t == SI {
		if t == SP {
			w.F("SPForSwitchFlag", g.p(0.5))
		}
		w.SE("SliceQSDelta", g.signed(-51, 51))
	}
	if pps.DeblockCtrl {
		idc := w.UE("DisableDeblockingFilterIDC", uint64(r.Intn(3)))
		if idc != 1 {
			w.SE("SliceAlphaC0OffsetDiv2", g.signed(-6, 6))
			w.SE("SliceBetaOffsetDiv2", g.signed(-6, 6))
		}
	}
	if pps.NumSliceGroupsM1 > 0 && pps.MapType >= 3 && pps.MapType <= 5 {
		g.tag("slice-group-change-cycle")
		// Ceil(Log2(PicSizeInMapUnits / SliceGroupChangeRate + 1)) bits, "/" exact: smallest n with (2^n-1)*rate >= units
		units, rate := sps.picSizeInMapUnits(), pps.ChangeRateM1+1
		n := 0
		for (uint64(1)<<uint(n)-1)*rate < units {
			n++
		}
		maxv := (units + rate - 1) / rate
		w.U("SliceGroupChangeCycle", n, uint64(g.rng(0, int64(maxv))))
	}
	hdrBits := w.nbit
	g.randomTail(3, 24)
	nalu, occ := esNALU([]byte{hdr}, w.buf)
	sl := &esSlice{NALU: nalu, Exp: w.exp, Size: occ(hdrBits)}
	if occ(hdrBits) != 1+(hdrBits+7)/8 {
		g.tag("emulation-prevention-in-header")
	}
	if hdrBits%8 == 0 {
		g.tag("header-ends-byte-aligned")
	}
	sl.Tags = tagList(g.tags)
	return sl
}

func (w *esW) ueV(v uint64) uint64 { w.ue(v); return v }

// signedRec draws delta_pic_order_cnt[i] and records it as element i of the array field.
func (g *esG) signedRec(w *esW, name string, i int) int64 {
	v := g.signed(-(1<<31)+1, 1<<31-1)
	w.rec(fmt.Sprintf("%s[%d]", name, i), v)
	return v
}
