package main

import (
	"bytes"
	"encoding/binary"
	"fmt"
	"io"
	"math/rand"
	"strings"

	"github.com/Eyevinn/mp4ff/bits"
	"github.com/Eyevinn/mp4ff/hevc"
	"github.com/Eyevinn/mp4ff/mp4"
)

const boxRule = "cases = every distinct box (any nesting level, up to 64 kB) of the repository's media files, structured mutations of each (version 0/1/2/3/255, flag bits, field bytes to 0/1/7f/80/ff/random, truncation and extension with the size field fixed up, 16-byte large-size header), whole files through DecodeFile/DecodeFileSR and both encoders in box-tree and segment mode; each accepted byte string goes through DecodeBox, DecodeBoxSR, Encode, EncodeSW, Size, Info and a second decode/encode cycle; files are also decoded under every decode-flag configuration (ISM, start-on-moof, both) and, with a random-access index (mfra with 0..n tfra children + mfro) appended, under all of them; lazily decoded files get their mdat payloads back through SetData (same / shorter / longer / empty); mdat boxes go through random histories of their public mutators (AddSampleData, AddSampleDataPart, SetData, SetLazyDataSize incl. the 2^32 boundary) from new / decoded / lazily decoded start states, with each encoder running first on an identically built twin; avcC / hvcC records (hand-serialised with 0..3 NAL units per array, and built through CreateAvcC / CreateHvcC / NewNaluArray / SetAVCDescriptor / SetHEVCDescriptor with parameter-set lists of length 0..2) and meta boxes in ISO and QuickTime style (alone and inside udta); esds boxes whose ES / DecoderConfig descriptors carry optional and unknown descriptors at every position in every size-field form (alone, in mp4a, in stsd) and, built through CreateEsdsBox / CreateRawDescriptor, decoder configurations and raw payloads of every length around the values where a descriptor size needs one more size byte; non-trivial = distinct accepted byte string"

func init() {
	for _, p := range []string{"C01", "C02", "C03"} {
		pp := p
		props[pp] = &propDef{rule: boxRule, gen: func(c *Ctx) { genBoxProps(c, pp) }, exec: func(req string) string { return execBox(req) }}
	}
}

// protocol: "box <hex>" -> accepted?/re-encoded bytes by the writer path (used for replay)
func execBox(req string) string {
	var f []string
	for _, x := range bytes.Fields([]byte(req)) {
		f = append(f, string(x))
	}
	if len(f) == 2 && strings.HasPrefix(f[0], "esds.") {
		bs, err := unhx(f[1])
		if err != nil {
			return "bad-op"
		}
		return execEsds(f[0], bs)
	}
	if len(f) == 2 && f[0] == "box.rt" {
		bs, err := unhx(f[1])
		if err != nil {
			return "bad-op"
		}
		return boxRT(bs)
	}
	if len(f) != 2 || (f[0] != "box" && f[0] != "file") {
		return "bad-op"
	}
	bs, err := unhx(f[1])
	if err != nil {
		return "bad-op"
	}
	if f[0] == "file" {
		return fileSummary(bs)
	}
	r := decReader(bs)
	s := decSlice(bs)
	out := fmt.Sprintf("reader:%s sr:%s", outcome(r), outcome(s))
	if r.panic == "" && r.err == nil {
		e := encWriter(r.box)
		if e.panic != "" {
			out += " enc:" + e.panic
		} else if e.err != nil {
			out += " enc:err"
		} else {
			out += fmt.Sprintf(" size=%d enc=%s", r.box.Size(), hx(e.out))
		}
	}
	return out
}

// modelled box types (must equal the Lean side's `Boxes.specs`; the driver answers "unmodelled" otherwise)
var modelledBoxes = map[string]bool{}

func init() {
	for _, t := range strings.Fields("ftyp styp free skip mvhd tkhd mdhd hdlr vmhd smhd nmhd sthd stts ctts stsc stsz stco co64 stss sdtp elst mehd trex mfhd tfhd tfdt trun sidx saio saiz tenc frma pssh prft mfro btrt pasp clap cslg CoLL SmDm sbgp schm kind mime emsg leva subs payl sttg iden ctim vlab vttC vtta vsid vtte emib emeb av1C vpcC cdat iods dac3") {
		modelledBoxes[t] = true
	}
}

// boxRT: DecodeBox (io.Reader) of exactly one box, then Size and Encode — the behaviour the Lean model predicts
func boxRT(bs []byte) string {
	r := decReader(bs)
	if r.panic != "" {
		return "panic"
	}
	if r.err != nil || r.box == nil {
		return "rej"
	}
	e := encWriter(r.box)
	if e.panic != "" {
		return "panic"
	}
	if e.err != nil {
		return "encfail"
	}
	return fmt.Sprintf("size=%d enc=%s", r.box.Size(), hx(e.out))
}

func outcome(r pathResult) string {
	if r.panic != "" {
		return "panic"
	}
	if r.err != nil {
		return "err"
	}
	return "ok"
}

func genBoxProps(c *Ctx, which string) {
	seeds := seedBoxes(65536)
	c.Note(fmt.Sprintf("%d distinct seed boxes from %d repository files", len(seeds), len(repoFilesCache)))
	perSeed := c.N(1, 6)
	for _, sb := range seeds {
		v := checkBoxBytes(c, which, sb.bs, sb.origin)
		modelCase(c, which, sb.bs)
		key := ""
		if v.accepted {
			key = string(sb.bs)
			c.Count("seed." + v.typ)
		}
		c.Eval(key)
		if len(c.St.Samples) < 3 && len(sb.bs) < 120 {
			c.Sample("box " + hx(sb.bs) + "   (" + sb.origin + ")")
		}
		if _, isContainer := walkContainers[string(sb.bs[4:8])]; isContainer || len(sb.bs) > 20000 {
			continue // containers are covered through their (mutated) leaves and through whole files
		}
		for k := 0; k < perSeed; k++ {
			for _, m := range mutateBox(c, sb.bs) {
				v := checkBoxBytes(c, which, m, "mutation of "+sb.origin)
				modelCase(c, which, m)
				key := ""
				if v.accepted {
					key = string(m)
					c.Count("mutant-accepted")
				} else {
					c.Count("mutant-rejected")
				}
				c.Eval(key)
			}
		}
	}
	// whole files
	files, names := repoMediaFiles()
	for i, d := range files {
		checkWholeFile(c, which, d, names[i])
	}
	for it := 0; it < c.N(60, 600); it++ {
		if d, name := genMixedProtection(c.R); d != nil {
			checkWholeFile(c, which, d, fmt.Sprintf("mixed-protection#%d(%s)", it, name))
		}
	}
	for it := 0; it < c.N(30, 400); it++ {
		pf := genProgFile(c.R, 1+c.R.Intn(3), 30)
		checkWholeFile(c, which, pf.bytes, fmt.Sprintf("generated-progressive#%d", it))
	}
	// API-built fragments / media segments (histories of sample additions, both encoders, optimisation on/off,
	// Info in between, encode twice, grow and encode again)
	if which != "C01" {
		for it := 0; it < c.N(1500, 30000); it++ {
			checkHistory(c, which, genHistory(c))
		}
	}
	// further families (all after the generators above, whose random stream they leave unchanged)
	genMetaStyles(c, which, seeds)
	for i, d := range files {
		if q, n := quickTimeMetaFile(d); n > 0 {
			checkWholeFile(c, which, q, fmt.Sprintf("%s with its %d meta box(es) in QuickTime style", names[i], n))
			c.Count("quicktime-meta-file")
		}
	}
	genConfRecords(c, which, seeds)
	genIndexedFiles(c, which, files, names)
	genModelBoxes(c, which)
	genTrees(c, which, seeds)
	genTopLevelEdits(c, which, files, names)
	genSencShapes(c, which)
	if which == "C02" && len(progBadBuilds) > 0 {
		c.Fail("C02-built-progressive-size", fmt.Sprintf("Size() of API-built boxes disagrees with the bytes Encode writes (%d generated progressive files)", len(progBadBuilds)), "genProgFile", progBadBuilds[0], "")
	}
	if which != "C01" {
		genMdatHistories(c, which)
		for i, d := range files {
			checkLazySetData(c, which, d, names[i])
		}
		for it := 0; it < c.N(40, 400); it++ {
			if d, name := genMixedProtection(c.R); d != nil {
				checkLazySetData(c, which, d, fmt.Sprintf("mixed-protection(%s)", name))
			}
		}
	}
	genEsdsBoxes(c, which) // c0102esds.go (last: the random stream of the generators above is unchanged)
}

func fileSummary(d []byte) string {
	var out string
	p := safe(func() {
		f, err := mp4.DecodeFile(bytes.NewReader(d))
		if err != nil {
			out = "err"
			return
		}
		f.FragEncMode = mp4.EncModeBoxTree
		var buf bytes.Buffer
		if err := f.Encode(&buf); err != nil {
			out = "enc-err"
			return
		}
		out = fmt.Sprintf("size=%d same=%v", f.Size(), bytes.Equal(buf.Bytes(), d))
	})
	if p != "" {
		return p
	}
	return out
}

func checkWholeFile(c *Ctx, which string, d []byte, name string) {
	req := "file " + name
	fail := func(prop, kind, what, got, exp string) {
		if prop == which {
			r := req
			if len(d) < 200000 {
				r = "file " + hx(d)
			}
			c.Fail(fmt.Sprintf("%s-file-%s", prop, kind), what+" ["+name+"]", r, clip(got), clip(exp))
		}
	}
	var fr, fs *mp4.File
	var er, es error
	pr := safe(func() { fr, er = mp4.DecodeFile(bytes.NewReader(d)) })
	ps := safe(func() { fs, es = mp4.DecodeFileSR(bits.NewFixedSliceReader(d)) })
	c.Eval(req)
	c.Count("whole-file")
	if pr != "" || ps != "" || er != nil || es != nil {
		// not accepted by at least one path: only C03's acceptance clause applies, and only for canonical inputs (checked below via the other path)
		if (pr == "" && er == nil) != (ps == "" && es == nil) {
			// is the accepting path's output canonical?
			acc := fr
			if acc == nil {
				acc = fs
			}
			if acc != nil {
				acc.FragEncMode = mp4.EncModeBoxTree
				var buf bytes.Buffer
				if p := safe(func() { _ = acc.Encode(&buf) }); p == "" && bytes.Equal(buf.Bytes(), d) {
					fail("C03", "decoders-accept", "a file one decode path reproduces exactly is rejected by the other", fmt.Sprintf("DecodeFile: %v %s | DecodeFileSR: %v %s", er, pr, es, ps), "")
				}
			}
		}
		return
	}
	for mi, mode := range []mp4.EncFragFileMode{mp4.EncModeBoxTree, mp4.EncModeSegment} {
		fr.FragEncMode = mode
		fs.FragEncMode = mode
		var sizeBefore uint64
		_ = safe(func() { sizeBefore = fr.Size() })
		var bw bytes.Buffer
		var ew error
		pw := safe(func() { ew = fr.Encode(&bw) })
		var swOut []byte
		var esw error
		psw := safe(func() {
			sw := dirtyWriter(int(fr.Size()))
			esw = fr.EncodeSW(sw)
			swOut = sw.Bytes()
		})
		if (pw != "") != (psw != "") || (ew != nil) != (esw != nil) {
			fail("C03", fmt.Sprintf("encoders-outcome-mode%d", mi), "File.Encode and File.EncodeSW: one fails, the other does not", fmt.Sprintf("Encode: %v %s | EncodeSW: %v %s", ew, pw, esw, psw), "")
			continue
		}
		if pw != "" || ew != nil {
			if mi == 0 {
				fail("C01", "encode-fails", "a decoded file fails to encode in box-tree mode", fmt.Sprintf("%v %s", ew, pw), "")
			}
			continue
		}
		if !bytes.Equal(bw.Bytes(), swOut) {
			fail("C03", fmt.Sprintf("encoders-bytes-mode%d", mi), "File.Encode and File.EncodeSW produce different bytes", fmt.Sprintf("len %d", bw.Len()), fmt.Sprintf("len %d", len(swOut)))
		}
		if uint64(bw.Len()) != sizeBefore && !(fr.IsFragmented() && mode == mp4.EncModeSegment) {
			fail("C02", fmt.Sprintf("size-mode%d", mi), "File.Size() != bytes written", fmt.Sprintf("Size()=%d written=%d", sizeBefore, bw.Len()), "")
		}
		if msg := checkSizeFieldsFile(bw.Bytes()); msg != "" {
			fail("C02", "size-field", "a header size field does not match: "+msg, "", "")
		}
		// the same two clauses on the SliceWriter path
		if uint64(len(swOut)) != sizeBefore && !(fr.IsFragmented() && mode == mp4.EncModeSegment) {
			fail("C02", fmt.Sprintf("size-sw-mode%d", mi), "File.Size() != bytes written by EncodeSW", fmt.Sprintf("Size()=%d written=%d", sizeBefore, len(swOut)), "")
		}
		if msg := checkSizeFieldsFile(swOut); msg != "" {
			fail("C02", "size-field-sw", "a header size field written by EncodeSW does not match: "+msg, "", "")
		}
		if mi == 0 {
			// C01: box-tree mode is lossless modulo the list
			if !bytes.Equal(maskDontCare(bw.Bytes()), maskDontCare(d)) {
				fail("C01", "not-lossless", fmt.Sprintf("box-tree re-encoding of the file differs from the input outside the don't-care list (len %d -> %d)", len(d), bw.Len()), "", "")
			}
			// fixed point
			var f2 *mp4.File
			var e2 error
			p2 := safe(func() { f2, e2 = mp4.DecodeFile(bytes.NewReader(bw.Bytes())) })
			if p2 != "" || e2 != nil {
				fail("C01", "redecode", "re-encoded file is not accepted", fmt.Sprintf("%v %s", e2, p2), "")
			} else {
				f2.FragEncMode = mode
				var b2 bytes.Buffer
				if p := safe(func() { _ = f2.Encode(&b2) }); p != "" || !bytes.Equal(b2.Bytes(), bw.Bytes()) {
					fail("C01", "not-fixed-point", "second encode differs from the first", "", "")
				}
			}
		}
		// C03: the SR-decoded file encodes to the same bytes, same grouping and positions
		var bs2 bytes.Buffer
		if p := safe(func() { _ = fs.Encode(&bs2) }); p != "" || !bytes.Equal(bs2.Bytes(), bw.Bytes()) {
			fail("C03", fmt.Sprintf("decoders-reencode-mode%d", mi), "DecodeFile and DecodeFileSR results encode to different bytes", p, "")
		}
	}
	// decode configurations: whatever flags the file is decoded with, an accepted file re-encodes (box-tree mode) to the
	// input outside the don't-care list, is a fixed point, and Size() == bytes written
	for _, fl := range []mp4.DecFileFlags{mp4.DecISMFlag, mp4.DecStartOnMoof, mp4.DecISMFlag | mp4.DecStartOnMoof} {
		var ff *mp4.File
		var ef error
		if p := safe(func() { ff, ef = mp4.DecodeFile(bytes.NewReader(d), mp4.WithDecodeFlags(fl)) }); p != "" || ef != nil || ff == nil {
			c.Count("decode-flags-rejected")
			continue
		}
		c.Count("decode-flags-accepted")
		ff.FragEncMode = mp4.EncModeBoxTree
		var sz uint64
		var bf bytes.Buffer
		var ee error
		pe := safe(func() { sz = ff.Size(); ee = ff.Encode(&bf) })
		if pe != "" || ee != nil {
			fail("C01", fmt.Sprintf("flags%d-encode-fails", fl), fmt.Sprintf("a file decoded with decode flags %d fails to encode in box-tree mode", fl), fmt.Sprintf("%v %s", ee, pe), "")
			continue
		}
		if !bytes.Equal(maskDontCare(bf.Bytes()), maskDontCare(d)) {
			fail("C01", fmt.Sprintf("flags%d-not-lossless", fl), fmt.Sprintf("box-tree re-encoding of the file decoded with decode flags %d differs from the input outside the don't-care list (len %d -> %d, %d top-level boxes)", fl, len(d), bf.Len(), len(ff.Children)), "", "")
		}
		if uint64(bf.Len()) != sz {
			fail("C02", fmt.Sprintf("flags%d-size", fl), fmt.Sprintf("File.Size() != bytes written for a file decoded with decode flags %d", fl), fmt.Sprintf("Size()=%d written=%d", sz, bf.Len()), "")
		}
		var f2 *mp4.File
		var e2 error
		if p2 := safe(func() { f2, e2 = mp4.DecodeFile(bytes.NewReader(bf.Bytes()), mp4.WithDecodeFlags(fl)) }); p2 != "" || e2 != nil {
			fail("C01", fmt.Sprintf("flags%d-redecode", fl), fmt.Sprintf("the re-encoded file is not accepted again with decode flags %d", fl), fmt.Sprintf("%v %s", e2, p2), "")
		} else {
			f2.FragEncMode = mp4.EncModeBoxTree
			var b2 bytes.Buffer
			if p := safe(func() { _ = f2.Encode(&b2) }); p != "" || !bytes.Equal(b2.Bytes(), bf.Bytes()) {
				fail("C01", fmt.Sprintf("flags%d-not-fixed-point", fl), fmt.Sprintf("second encode differs from the first (decode flags %d)", fl), "", "")
			}
		}
	}
	// lazy-mdat decode: same sizes as in-memory decode (C02 at file level, 32- and 64-bit mdat headers)
	var fl *mp4.File
	var el error
	pl := safe(func() { fl, el = mp4.DecodeFile(bytes.NewReader(d), mp4.WithDecodeMode(mp4.DecModeLazyMdat)) })
	if pl != "" || el != nil {
		fail("C02", "lazy-decode", "file decodes in memory but not lazily", fmt.Sprintf("%v %s", el, pl), "")
	} else {
		fl.FragEncMode = mp4.EncModeBoxTree
		fr.FragEncMode = mp4.EncModeBoxTree
		if fl.Size() != fr.Size() || fl.Size() != uint64(len(d)) {
			fail("C02", "lazy-size", "File.Size() of a lazily decoded file != size of the file", fmt.Sprintf("lazy %d eager %d file %d", fl.Size(), fr.Size(), len(d)), "")
		}
		for i := range fl.Children {
			if i < len(fr.Children) && fl.Children[i].Size() != fr.Children[i].Size() {
				fail("C02", "lazy-box-size", "a top-level box has different Size() in lazy and in-memory mode", fmt.Sprintf("%s lazy %d eager %d", fl.Children[i].Type(), fl.Children[i].Size(), fr.Children[i].Size()), "")
			}
		}
	}
	// C03: the two decodings describe the same structure (Info at full detail)
	var i1, i2 bytes.Buffer
	if p := safe(func() { _ = fr.Info(&i1, "all:1", "", " "); _ = fs.Info(&i2, "all:1", "", " ") }); p == "" && i1.String() != i2.String() {
		fail("C03", "decoders-info", "DecodeFile and DecodeFileSR results print different Info: "+firstDiffLine(i1.String(), i2.String()), "", "")
	}
	if g1, g2 := groupingOf(fr), groupingOf(fs); g1 != g2 {
		fail("C03", "decoders-grouping", "DecodeFile and DecodeFileSR group init/segments/fragments or record start positions differently", g2, g1)
	}
}

func groupingOf(f *mp4.File) string {
	s := fmt.Sprintf("frag=%v init=%v segs=%d children=%d", f.IsFragmented(), f.Init != nil, len(f.Segments), len(f.Children))
	for _, sg := range f.Segments {
		s += fmt.Sprintf(" [seg@%d styp=%v sidx=%d", sg.StartPos, sg.Styp != nil, len(sg.Sidxs))
		for _, fr := range sg.Fragments {
			mp, dp := int64(-1), int64(-1)
			if fr.Moof != nil {
				mp = int64(fr.Moof.StartPos)
			}
			if fr.Mdat != nil {
				dp = int64(fr.Mdat.StartPos)
			}
			s += fmt.Sprintf(" frag@%d moof@%d mdat@%d n=%d", fr.StartPos, mp, dp, len(fr.Children))
		}
		s += "]"
	}
	if f.Mdat != nil {
		s += fmt.Sprintf(" mdat@%d", f.Mdat.StartPos)
	}
	return s
}

func checkSizeFieldsFile(enc []byte) string {
	var boxes []rawBox
	walkBoxes(enc, 0, "", &boxes)
	pos := 0
	for _, b := range boxes {
		if b.start == pos && len(b.path) == len(b.typ)+1 {
			pos += b.size
		}
	}
	if pos != len(enc) {
		return fmt.Sprintf("top-level boxes cover %d of %d bytes", pos, len(enc))
	}
	return ""
}

func modelCase(c *Ctx, which string, bs []byte) {
	if len(bs) < 8 || len(bs) > 4096 || !modelledBoxes[string(bs[4:8])] || !exactBox(bs) {
		return
	}
	if binary.BigEndian.Uint32(bs) == 1 && len(bs) >= 16 && binary.BigEndian.Uint64(bs[8:]) != uint64(len(bs)) {
		// the model's contract is one exact box (Model/Boxes.lean roundTrip); a byte mutation inside a 16-byte header
		// makes the box declare another length than the candidate has (the reader path then reads only that many bytes)
		return
	}
	req := "box.rt " + hx(bs)
	ans := boxRT(bs)
	c.Case(req, ans)
	c.Count("model." + string(bs[4:8]))
	if which != "C03" {
		return
	}
	// C03: the other three decoder x encoder combinations against the same single model function. The property
	// constrains them on byte strings that one path reproduces exactly; there all four must give the model's answer.
	exact := "size=" + fmt.Sprint(len(bs)) + " enc=" + hx(bs)
	for _, p := range []struct {
		name string
		dec  func([]byte) pathResult
		enc  func(mp4.Box) encResult
	}{{"rd-sw", decReader, encSlice}, {"sr-wr", decSlice, encWriter}, {"sr-sw", decSlice, encSlice}} {
		a := boxRTvia(bs, p.dec, p.enc)
		if ans == exact || a == exact {
			c.Case("box.rt@"+p.name+" "+hx(bs), a)
			c.Count("model-path." + p.name)
		}
	}
}

func boxRTvia(bs []byte, dec func([]byte) pathResult, enc func(mp4.Box) encResult) string {
	r := dec(bs)
	if r.panic != "" {
		return "panic"
	}
	if r.err != nil || r.box == nil {
		return "rej"
	}
	e := enc(r.box)
	if e.panic != "" {
		return "panic"
	}
	if e.err != nil {
		return "encfail"
	}
	return fmt.Sprintf("size=%d enc=%s", r.box.Size(), hx(e.out))
}

// genMixedProtection: init + multi-track fragments where a random subset of the tracks is protected (cenc / cbcs,
// 8- or 16-byte per-sample IVs incl. IVs whose low half is zero, with or without sub-sample entries), trafs in random
// order; sometimes the media segment alone (decoded without its init, so the IV size has to be inferred).
func genMixedProtection(r *rand.Rand) ([]byte, string) {
	var out []byte
	name := ""
	p := safe(func() {
		nt := 1 + r.Intn(3)
		key := []byte("0123456789abcdef")
		kid, _ := mp4.NewUUIDFromString("11112222333344445555666677778888")
		prot := make([]bool, nt)
		ivLen := make([]int, nt)
		full := mp4.CreateEmptyInit()
		for t := 0; t < nt; t++ {
			// InitProtect works on a single-track init: protect a one-track copy and move its trak over
			one := mp4.CreateEmptyInit()
			one.AddEmptyTrack(48000, "audio", "und")
			_ = one.Moov.Trak.SetAACDescriptor(2, 48000)
			prot[t] = r.Intn(3) > 0
			ivLen[t] = []int{8, 16}[r.Intn(2)]
			if prot[t] {
				iv := make([]byte, ivLen[t])
				r.Read(iv)
				scheme := []string{"cenc", "cenc", "cbcs"}[r.Intn(3)]
				if _, err := mp4.InitProtect(one, key, iv, scheme, kid, nil); err != nil {
					return
				}
			}
			full.AddEmptyTrack(48000, "audio", "und")
			trak := full.Moov.Traks[t]
			src := one.Moov.Trak
			src.Tkhd.TrackID = uint32(t + 1)
			// replace the stsd of the new trak by the (possibly protected) one
			stbl := trak.Mdia.Minf.Stbl
			for i, ch := range stbl.Children {
				if ch.Type() == "stsd" {
					stbl.Children[i] = src.Mdia.Minf.Stbl.Stsd
				}
			}
			stbl.Stsd = src.Mdia.Minf.Stbl.Stsd
		}
		var buf bytes.Buffer
		if err := full.Encode(&buf); err != nil {
			return
		}
		initLen := buf.Len()
		nfr := 1 + r.Intn(2)
		for fi := 0; fi < nfr; fi++ {
			order := r.Perm(nt)
			ids := make([]uint32, nt)
			for i, t := range order {
				ids[i] = uint32(t + 1)
			}
			frag, err := mp4.CreateMultiTrackFragment(uint32(fi+1), ids)
			if err != nil {
				return
			}
			ns := 1 + r.Intn(4)
			for _, t := range order {
				for k := 0; k < ns; k++ {
					d := make([]byte, 8+r.Intn(20))
					r.Read(d)
					fs := mp4.FullSample{Sample: mp4.Sample{Flags: mp4.SyncSampleFlags, Dur: 1024, Size: uint32(len(d))}, DecodeTime: uint64((fi*ns + k) * 1024), Data: d}
					if err := frag.AddFullSampleToTrack(fs, uint32(t+1)); err != nil {
						return
					}
				}
			}
			for i, t := range order {
				if !prot[t] {
					continue
				}
				senc := mp4.NewSencBox(0, 0)
				subs := r.Intn(2) == 0
				for k := 0; k < ns; k++ {
					iv := make([]byte, ivLen[t])
					r.Read(iv)
					if ivLen[t] == 16 && r.Intn(2) == 0 {
						for j := 8; j < 16; j++ {
							iv[j] = 0
						}
						iv[15] = byte(k)
					}
					ss := mp4.SencSample{IV: iv}
					if subs {
						ss.SubSamples = []mp4.SubSamplePattern{{BytesOfClearData: uint16(r.Intn(8)), BytesOfProtectedData: uint32(r.Intn(16))}}
					}
					if err := senc.AddSample(ss); err != nil {
						return
					}
				}
				if err := frag.Moof.Trafs[i].AddChild(senc); err != nil {
					return
				}
			}
			if err := frag.Encode(&buf); err != nil {
				return
			}
		}
		all := buf.Bytes()
		name = fmt.Sprintf("tracks=%d protected=%v ivlen=%v", nt, prot, ivLen)
		if r.Intn(4) == 0 {
			out = append([]byte{}, all[initLen:]...) // the media segment alone
			name += " segment-only"
		} else {
			out = append([]byte{}, all...)
		}
	})
	if p != "" {
		return nil, ""
	}
	return out, name
}

// =====================================================================================================================
// Further input families: structures built through the public constructors (checked directly, before any decode),
// multi-step histories of the mdat mutators, decode configurations, hand-serialised boxes with unusual-but-valid shapes.

type sizedEncoder interface {
	Size() uint64
	Encode(w io.Writer) error
	EncodeSW(sw bits.SliceWriter) error
}

// checkSizeFieldsAll: checkSizeFields on each top-level box of enc, and the top-level boxes tile enc
func checkSizeFieldsAll(enc []byte) string {
	pos := 0
	for pos < len(enc) {
		if pos+8 > len(enc) {
			return fmt.Sprintf("%d stray bytes after the last top-level box", len(enc)-pos)
		}
		sz := int(binary.BigEndian.Uint32(enc[pos:]))
		if sz == 1 && pos+16 <= len(enc) {
			sz = int(binary.BigEndian.Uint64(enc[pos+8:]))
		}
		if sz < 8 || pos+sz > len(enc) {
			return fmt.Sprintf("top-level box %q at %d has size field %d, but only %d bytes remain", enc[pos+4:pos+8], pos, sz, len(enc)-pos)
		}
		if msg := checkSizeFields(enc[pos : pos+sz]); msg != "" {
			return msg
		}
		pos += sz
	}
	return ""
}

// checkBuilt: the C02 / C03 clauses on a structure built through the public API. build returns a fresh, identically
// built structure on every call (nil: the API refused the arguments), so that each encoder can be the first method
// that runs on it. Returns the io.Writer encoding (nil when it failed) for the decode-side checks.
func checkBuilt(c *Ctx, which, kind, req string, build func() sizedEncoder) []byte {
	fail := func(prop, clause, what, got, exp string) {
		if prop == which {
			c.Fail(fmt.Sprintf("%s-built-%s-%s", prop, kind, clause), what, req, clip(got), clip(exp))
		}
	}
	a, b := build(), build()
	if a == nil || b == nil {
		c.Count("built-" + kind + "-refused")
		return nil
	}
	c.Count("built-" + kind)
	var sizeBefore, sizeAfter uint64
	var eW, eS, eS2 encResult
	eW.panic = safe(func() {
		sizeBefore = a.Size()
		var buf bytes.Buffer
		eW.err = a.Encode(&buf)
		eW.out = buf.Bytes()
		sizeAfter = a.Size()
	})
	// the twin: EncodeSW runs first, into a buffer whose capacity does not come from Size()
	capacity := 1 << 16
	if eW.panic == "" && eW.err == nil {
		capacity = len(eW.out) + 64
	}
	var sizeTwin uint64
	eS.panic = safe(func() {
		sw := dirtyWriter(capacity)
		eS.err = b.EncodeSW(sw)
		eS.out = sw.Bytes()
		sizeTwin = b.Size()
	})
	okW, okS := eW.panic == "" && eW.err == nil, eS.panic == "" && eS.err == nil
	if okW != okS {
		fail("C03", "encoders-outcome", "Encode and EncodeSW on identically built structures: one fails, the other does not", fmt.Sprintf("Encode: %v %s | EncodeSW: %v %s", eW.err, eW.panic, eS.err, eS.panic), "")
	} else if okW && !bytes.Equal(eW.out, eS.out) {
		fail("C03", "encoders-bytes", "Encode and EncodeSW on identically built structures produce different bytes", hx(eS.out), hx(eW.out))
	}
	if okW {
		if uint64(len(eW.out)) != sizeBefore {
			fail("C02", "size-before", "Size() before Encode != bytes written", fmt.Sprintf("Size()=%d written=%d", sizeBefore, len(eW.out)), "")
		}
		if uint64(len(eW.out)) != sizeAfter {
			fail("C02", "size-after", "Size() after Encode != bytes written", fmt.Sprintf("Size()=%d written=%d", sizeAfter, len(eW.out)), "")
		}
		if msg := checkSizeFieldsAll(eW.out); msg != "" {
			fail("C02", "size-field", "a header size field does not equal the length of its box: "+msg, hx(eW.out), "")
		}
		// the other encoder on the already encoded structure, buffer of exactly Size() bytes; and Encode once more
		eS2.panic = safe(func() {
			sw := dirtyWriter(int(a.Size()))
			eS2.err = a.EncodeSW(sw)
			eS2.out = sw.Bytes()
		})
		if eS2.panic != "" || eS2.err != nil || !bytes.Equal(eS2.out, eW.out) {
			fail("C03", "encoders-second", "after a first Encode, EncodeSW into a buffer of Size() bytes fails or produces different bytes", fmt.Sprintf("%v %s %s", eS2.err, eS2.panic, hx(eS2.out)), hx(eW.out))
		}
		var again bytes.Buffer
		if p := safe(func() { _ = a.Encode(&again) }); p != "" || !bytes.Equal(again.Bytes(), eW.out) {
			fail("C02", "encode-twice", "encoding the same structure twice yields different bytes", hx(again.Bytes()), hx(eW.out))
		}
	}
	if okS {
		if uint64(len(eS.out)) != sizeTwin {
			fail("C02", "size-sw", "EncodeSW reports success but bytes written != Size()", fmt.Sprintf("Size()=%d written=%d", sizeTwin, len(eS.out)), "")
		}
		if msg := checkSizeFieldsAll(eS.out); msg != "" {
			fail("C02", "size-field-sw", "a header size field written by EncodeSW does not equal the length of its box: "+msg, hx(eS.out), "")
		}
	}
	c.Eval(req)
	if !okW {
		return nil
	}
	return eW.out
}

// ---- meta boxes in both styles

func rawBoxBytes(typ string, payload []byte) []byte {
	out := make([]byte, 8, 8+len(payload))
	binary.BigEndian.PutUint32(out, uint32(8+len(payload)))
	copy(out[4:], typ)
	return append(out, payload...)
}

// genMetaStyles: every meta box of the corpus in its own style and converted to the other one (ISO: version/flags word
// then children; QuickTime: children only, hdlr first), plus synthesised ones (hdlr with a random handler, 0..3 small
// children taken from the corpus or of a type the library does not know), each alone and as the child of a udta box.
func genMetaStyles(c *Ctx, which string, seeds []seedBox) {
	r := c.R
	var kids [][]byte
	for _, sb := range seeds {
		t := string(sb.bs[4:8])
		if len(sb.bs) <= 300 && (t == "ilst" || t == "free" || t == "skip" || t == "dinf" || t == "uuid") {
			kids = append(kids, sb.bs)
		}
	}
	kids = append(kids, rawBoxBytes("keys", []byte{0, 0, 0, 0, 0, 0, 0, 1, 0, 0, 0, 12, 'm', 'd', 't', 'a', 't', 'i', 't', 'l'}))
	type metaCase struct {
		children []byte // hdlr first
		verFlags []byte
		origin   string
	}
	var cases []metaCase
	for _, sb := range seeds {
		if string(sb.bs[4:8]) != "meta" || binary.BigEndian.Uint32(sb.bs) == 1 || len(sb.bs) < 20 {
			continue
		}
		pl := sb.bs[8:]
		switch {
		case string(pl[4:8]) == "hdlr":
			cases = append(cases, metaCase{pl, []byte{0, 0, 0, 0}, sb.origin})
		case len(pl) >= 12 && string(pl[8:12]) == "hdlr":
			cases = append(cases, metaCase{pl[4:], pl[:4], sb.origin})
		}
	}
	for it := 0; it < c.N(40, 600); it++ {
		name := []string{"", "x", "Apple metadata handler", "händler"}[r.Intn(4)]
		hp := make([]byte, 24, 24+len(name)+1)
		copy(hp[8:12], []string{"mdta", "mdir", "ID32", "pict", "meta"}[r.Intn(5)])
		hp = append(append(hp, name...), 0)
		ch := rawBoxBytes("hdlr", hp)
		for n := r.Intn(4); n > 0; n-- {
			ch = append(ch, kids[r.Intn(len(kids))]...)
		}
		cases = append(cases, metaCase{ch, []byte{byte(r.Intn(2)), 0, 0, byte(r.Intn(2))}, fmt.Sprintf("synthesised-meta#%d", it)})
	}
	for _, mc := range cases {
		for _, style := range []string{"iso", "quicktime"} {
			var box []byte
			if style == "iso" {
				box = rawBoxBytes("meta", append(append([]byte{}, mc.verFlags...), mc.children...))
			} else {
				box = rawBoxBytes("meta", mc.children)
			}
			for _, wrap := range []bool{false, true} {
				bs, origin := box, style+"-style meta from "+mc.origin
				if wrap {
					bs, origin = rawBoxBytes("udta", box), origin+" in udta"
				}
				v := checkBoxBytes(c, which, bs, origin)
				key := ""
				if v.accepted {
					key = string(bs)
					c.Count("meta-" + style)
				}
				c.Eval(key)
			}
		}
	}
}

// quickTimeMetaFile rewrites every ISO-style meta box of d whose first child is the hdlr box into QuickTime style (the
// version/flags word removed, the size fields of the box and of its ancestors reduced by 4); n = boxes rewritten.
func quickTimeMetaFile(d []byte) (out []byte, n int) {
	out = d
	for {
		var bx []rawBox
		walkBoxes(out, 0, "", &bx)
		hit := -1
		for i, b := range bx {
			if b.typ == "meta" && b.hl == 8 && b.size >= 24 && string(out[b.start+16:b.start+20]) == "hdlr" && string(out[b.start+12:b.start+16]) != "hdlr" {
				hit = i
			}
		}
		if hit < 0 {
			return out, n
		}
		m := bx[hit]
		q := append([]byte{}, out...)
		for _, b := range bx {
			if b.start <= m.start && m.start+m.size <= b.start+b.size {
				if b.hl != 8 {
					return out, n
				}
				binary.BigEndian.PutUint32(q[b.start:], uint32(b.size-4))
			}
		}
		out = append(q[:m.start+8], q[m.start+12:]...)
		n++
	}
}

// ---- AVC / HEVC decoder configuration records

func randNalus(r *rand.Rand, pool [][]byte, n int) [][]byte {
	var out [][]byte
	for ; n > 0; n-- {
		if len(pool) > 0 && r.Intn(3) > 0 {
			out = append(out, pool[r.Intn(len(pool))])
		} else {
			b := make([]byte, 1+r.Intn(12))
			r.Read(b)
			out = append(out, b)
		}
	}
	return out
}

func naluListStr(l [][]byte) string {
	var s []string
	for _, n := range l {
		s = append(s, hx(n))
	}
	return "[" + strings.Join(s, ",") + "]"
}

func serialiseNalus(out []byte, l [][]byte) []byte {
	for _, n := range l {
		out = append(out, byte(len(n)>>8), byte(len(n)))
		out = append(out, n...)
	}
	return out
}

// genConfRecords: (a) hvcC / avcC boxes serialised by the harness: random general part (reserved bits as the standard
// prescribes), 0..4 arrays of 0..3 NAL units each (an array without NAL units is valid, and is what the API produces for
// an empty parameter-set list); (b) the same boxes, and whole init segments, built through the public constructors with
// parameter-set lists of length 0..2 taken from the corpus' own configuration records.
func genConfRecords(c *Ctx, which string, seeds []seedBox) {
	r := c.R
	var hVPS, hSPS, hPPS, aSPS, aPPS [][]byte
	for _, sb := range seeds {
		switch string(sb.bs[4:8]) {
		case "hvcC":
			if d := decReader(sb.bs); d.panic == "" && d.err == nil {
				if h, ok := d.box.(*mp4.HvcCBox); ok {
					hVPS = append(hVPS, h.GetNalusForType(hevc.NALU_VPS)...)
					hSPS = append(hSPS, h.GetNalusForType(hevc.NALU_SPS)...)
					hPPS = append(hPPS, h.GetNalusForType(hevc.NALU_PPS)...)
				}
			}
		case "avcC":
			if d := decReader(sb.bs); d.panic == "" && d.err == nil {
				if a, ok := d.box.(*mp4.AvcCBox); ok {
					aSPS = append(aSPS, a.SPSnalus...)
					aPPS = append(aPPS, a.PPSnalus...)
				}
			}
		}
	}
	c.Note(fmt.Sprintf("parameter-set pool from the corpus: hevc vps/sps/pps %d/%d/%d, avc sps/pps %d/%d", len(hVPS), len(hSPS), len(hPPS), len(aSPS), len(aPPS)))
	feed := func(bs []byte, origin string) {
		v := checkBoxBytes(c, which, bs, origin)
		key := ""
		if v.accepted {
			key = string(bs)
			c.Count("confrec-accepted-" + v.typ)
		}
		c.Eval(key)
	}
	// (a) serialised by the harness
	for it := 0; it < c.N(300, 6000); it++ {
		g := make([]byte, 22)
		r.Read(g)
		g[0] = 1
		g[13] |= 0xf0
		g[15] |= 0xfc
		g[16] |= 0xfc
		g[17] |= 0xf8
		g[18] |= 0xf8
		g[21] |= 3
		na := r.Intn(5)
		pl := append(g, byte(na))
		for k := 0; k < na; k++ {
			typ := []byte{32, 33, 34, 39, 40}[r.Intn(5)]
			nn := r.Intn(4)
			pl = append(pl, byte(r.Intn(2))<<7|typ, 0, byte(nn))
			pl = serialiseNalus(pl, randNalus(r, append(append(append([][]byte{}, hVPS...), hSPS...), hPPS...), nn))
		}
		feed(rawBoxBytes("hvcC", pl), fmt.Sprintf("serialised hvcC#%d (%d arrays)", it, na))
	}
	for it := 0; it < c.N(300, 6000); it++ {
		prof := []byte{66, 77, 88, 100, 110, 122, 244, 44, 83, 86, 118, 128, 138, 139, 134, 135, byte(r.Intn(256))}[r.Intn(17)]
		ns, np := r.Intn(4), r.Intn(4)
		pl := []byte{1, prof, byte(r.Intn(256)), byte(r.Intn(256)), 0xff, 0xe0 | byte(ns)}
		pl = serialiseNalus(pl, randNalus(r, aSPS, ns))
		pl = append(pl, byte(np))
		pl = serialiseNalus(pl, randNalus(r, aPPS, np))
		if prof != 66 && prof != 77 && prof != 88 && r.Intn(6) > 0 {
			pl = append(pl, 0xfc|byte(r.Intn(4)), 0xf8|byte(r.Intn(8)), 0xf8|byte(r.Intn(8)), 0)
		}
		feed(rawBoxBytes("avcC", pl), fmt.Sprintf("serialised avcC#%d (%d sps, %d pps)", it, ns, np))
	}
	if which == "C01" {
		return // the constructors are C02 / C03 territory (their encodings reach C01 through the serialised family)
	}
	// (b) built through the public constructors
	pickList := func(pool [][]byte, min int) [][]byte {
		n := min + r.Intn(3-min)
		var l [][]byte
		for ; n > 0 && len(pool) > 0; n-- {
			l = append(l, pool[r.Intn(len(pool))])
		}
		return l
	}
	for it := 0; it < c.N(200, 4000); it++ {
		if len(hSPS) > 0 {
			vps, sps, pps := pickList(hVPS, 0), pickList(hSPS, 1), pickList(hPPS, 0)
			cv, cs, cp, inc := r.Intn(2) == 0, r.Intn(2) == 0, r.Intn(2) == 0, r.Intn(4) > 0
			type extra struct {
				complete bool
				typ      hevc.NaluType
				nalus    [][]byte
			}
			var extras []extra
			for n := r.Intn(3) / 2 * (1 + r.Intn(2)); n > 0; n-- {
				extras = append(extras, extra{r.Intn(2) == 0, []hevc.NaluType{hevc.NALU_SEI_PREFIX, hevc.NALU_SEI_SUFFIX, hevc.NALU_VPS}[r.Intn(3)], randNalus(r, nil, r.Intn(3))})
			}
			req := fmt.Sprintf("built CreateHvcC vps=%s sps=%s pps=%s complete=%v/%v/%v includePS=%v", naluListStr(vps), naluListStr(sps), naluListStr(pps), cv, cs, cp, inc)
			for _, e := range extras {
				req += fmt.Sprintf(" +NewNaluArray(%v,%d,%s)", e.complete, e.typ, naluListStr(e.nalus))
			}
			out := checkBuilt(c, which, "hvcC", req, func() sizedEncoder {
				h, err := mp4.CreateHvcC(vps, sps, pps, cv, cs, cp, inc)
				if err != nil {
					return nil
				}
				for _, e := range extras {
					h.AddNaluArrays([]hevc.NaluArray{hevc.NewNaluArray(e.complete, e.typ, e.nalus)})
				}
				return h
			})
			if out != nil {
				feed(out, req)
			}
			// the same lists through the track-level constructor: a whole init segment
			typ := []string{"hvc1", "hev1"}[r.Intn(2)]
			sei := randNalus(r, nil, r.Intn(3)/2)
			req = fmt.Sprintf("built init SetHEVCDescriptor %s vps=%s sps=%s pps=%s sei=%s includePS=%v", typ, naluListStr(vps), naluListStr(sps), naluListStr(pps), naluListStr(sei), inc)
			out = checkBuilt(c, which, "init-hevc", req, func() sizedEncoder {
				init := mp4.CreateEmptyInit()
				init.AddEmptyTrack(90000, "video", "und")
				if err := init.Moov.Trak.SetHEVCDescriptor(typ, vps, sps, pps, sei, inc); err != nil {
					return nil
				}
				return init
			})
			if out != nil {
				checkWholeFile(c, which, out, req)
			}
		}
		if len(aSPS) > 0 {
			sps, pps := pickList(aSPS, 1), pickList(aPPS, 0)
			inc := r.Intn(4) > 0
			req := fmt.Sprintf("built CreateAvcC sps=%s pps=%s includePS=%v", naluListStr(sps), naluListStr(pps), inc)
			out := checkBuilt(c, which, "avcC", req, func() sizedEncoder {
				a, err := mp4.CreateAvcC(sps, pps, inc)
				if err != nil {
					return nil
				}
				return a
			})
			if out != nil {
				feed(out, req)
			}
			typ := []string{"avc1", "avc3"}[r.Intn(2)]
			req = fmt.Sprintf("built init SetAVCDescriptor %s sps=%s pps=%s includePS=%v", typ, naluListStr(sps), naluListStr(pps), inc)
			out = checkBuilt(c, which, "init-avc", req, func() sizedEncoder {
				init := mp4.CreateEmptyInit()
				init.AddEmptyTrack(90000, "video", "und")
				if err := init.Moov.Trak.SetAVCDescriptor(typ, sps, pps, inc); err != nil {
					return nil
				}
				return init
			})
			if out != nil {
				checkWholeFile(c, which, out, req)
			}
		}
	}
}

// ---- files with a random-access index at the end

// appendMfra returns d followed by an mfra box with ntfra tfra children (one entry per top-level moof of d, or every
// second one) and the closing mfro. Serialised by the harness.
func appendMfra(r *rand.Rand, d []byte, ntfra int) ([]byte, string) {
	var bx []rawBox
	walkBoxes(d, 0, "", &bx)
	var moofs []uint64
	var ids []uint32
	for _, b := range bx {
		if b.path == "/moof" {
			moofs = append(moofs, uint64(b.start))
		}
		if b.path == "/moof/traf/tfhd" && b.size >= b.hl+8 {
			id := binary.BigEndian.Uint32(d[b.start+b.hl+4:])
			seen := false
			for _, x := range ids {
				seen = seen || x == id
			}
			if !seen {
				ids = append(ids, id)
			}
		}
	}
	stride := 1 + r.Intn(2)
	consistent := r.Intn(5) > 0
	var body []byte
	for i := 0; i < ntfra; i++ {
		id := uint32(100 + i)
		if i < len(ids) {
			id = ids[i]
		}
		version := byte(r.Intn(2))
		ls := [3]int{r.Intn(4), r.Intn(4), r.Intn(4)}
		var ents []byte
		n := 0
		for k := 0; k < len(moofs); k += stride {
			if !consistent && i > 0 && k+stride >= len(moofs) {
				break // a later tfra that lists one entry less
			}
			t := uint64(k) * 90000
			if version == 1 {
				ents = binary.BigEndian.AppendUint64(ents, t)
				ents = binary.BigEndian.AppendUint64(ents, moofs[k])
			} else {
				ents = binary.BigEndian.AppendUint32(ents, uint32(t))
				ents = binary.BigEndian.AppendUint32(ents, uint32(moofs[k]))
			}
			for _, l := range ls {
				ents = append(ents, make([]byte, l)...)
				ents = append(ents, 1)
			}
			n++
		}
		pl := []byte{version, 0, 0, 0}
		pl = binary.BigEndian.AppendUint32(pl, id)
		pl = binary.BigEndian.AppendUint32(pl, uint32(ls[0]<<4|ls[1]<<2|ls[2]))
		pl = binary.BigEndian.AppendUint32(pl, uint32(n))
		body = append(body, rawBoxBytes("tfra", append(pl, ents...))...)
	}
	mfraSize := uint32(8 + len(body) + 16)
	mfro := binary.BigEndian.AppendUint32([]byte{0, 0, 0, 0}, mfraSize)
	body = append(body, rawBoxBytes("mfro", mfro)...)
	out := append(append([]byte{}, d...), rawBoxBytes("mfra", body)...)
	return out, fmt.Sprintf("+mfra{%d tfra, %d moofs, stride %d, consistent=%v}", ntfra, len(moofs), stride, consistent)
}

// genIndexedFiles: repository files (up to a size limit) and generated fragmented files, each with an mfra appended:
// once without tfra children (the smallest index) and once with 1..3 of them.
func genIndexedFiles(c *Ctx, which string, files [][]byte, names []string) {
	r := c.R
	limit := c.N(400000, 4<<20)
	one := func(d []byte, name string) {
		var bx []rawBox
		walkBoxes(d, 0, "", &bx)
		for _, b := range bx {
			if b.path == "/mfra" {
				return // already indexed
			}
		}
		for _, n := range []int{0, 1 + r.Intn(3)} {
			out, what := appendMfra(r, d, n)
			checkWholeFile(c, which, out, name+what)
			c.Count("indexed-file")
		}
	}
	for i, d := range files {
		if len(d) <= limit {
			one(d, names[i])
		}
	}
	for it := 0; it < c.N(25, 300); it++ {
		if d, name := genMixedProtection(r); d != nil {
			one(d, fmt.Sprintf("mixed-protection(%s)", name))
		}
	}
}

// ---- mdat: histories of the public mutators

type mdatOp struct {
	op string // add part set lazy | size encw encsw info
	n  uint64
}

type mdatHist struct {
	start  string // new dec8 dec16 lazy8 lazy16
	startN int    // payload length of the decoded start states
	ops    []mdatOp
	// what the history leaves behind, tracked by the harness
	mem, parts int
	lazy       uint64
}

func (h *mdatHist) line() string {
	s := fmt.Sprintf("mdat-history start=%s:%d ops=", h.start, h.startN)
	for i, o := range h.ops {
		if i > 0 {
			s += ","
		}
		s += o.op
		if o.op == "add" || o.op == "part" || o.op == "set" || o.op == "lazy" {
			s += fmt.Sprintf(":%d", o.n)
		}
	}
	return s
}

func patternBytes(n, salt int) []byte {
	b := make([]byte, n)
	for i := range b {
		b[i] = byte(i*7 + salt)
	}
	return b
}

// build replays the history on a fresh box (nil: the start state could not be decoded)
func (h *mdatHist) build() *mp4.MdatBox {
	var m *mp4.MdatBox
	hdr := []byte{0, 0, 0, 0, 'm', 'd', 'a', 't'}
	if h.start == "dec16" || h.start == "lazy16" {
		hdr = binary.BigEndian.AppendUint64([]byte{0, 0, 0, 1, 'm', 'd', 'a', 't'}, uint64(16+h.startN))
	} else {
		binary.BigEndian.PutUint32(hdr, uint32(8+h.startN))
	}
	raw := append(hdr, patternBytes(h.startN, 1)...)
	switch h.start {
	case "new":
		m = &mp4.MdatBox{}
	case "dec8", "dec16":
		b, err := mp4.DecodeBox(0, bytes.NewReader(raw))
		if err != nil {
			return nil
		}
		m = b.(*mp4.MdatBox)
	default:
		b, err := mp4.DecodeBoxLazyMdat(0, bytes.NewReader(raw))
		if err != nil {
			return nil
		}
		m = b.(*mp4.MdatBox)
	}
	for i, o := range h.ops {
		switch o.op {
		case "add":
			m.AddSampleData(patternBytes(int(o.n), i))
		case "part":
			m.AddSampleDataPart(patternBytes(int(o.n), i))
		case "set":
			m.SetData(patternBytes(int(o.n), i))
		case "lazy":
			m.SetLazyDataSize(o.n)
		case "size":
			_ = m.Size()
		case "encw":
			_ = m.Encode(io.Discard)
		case "encsw":
			_ = m.EncodeSW(dirtyWriter(h.mem + h.parts + h.startN + 4096))
		case "info":
			_ = m.Info(io.Discard, "all:1", "", " ")
		}
	}
	return m
}

var mdatLazySizes = []uint64{1<<32 - 10, 1<<32 - 9, 1<<32 - 8, 1<<32 - 1, 1 << 32, 5 << 30}

func genMdatHistory(r *rand.Rand) *mdatHist {
	h := &mdatHist{start: []string{"new", "new", "dec8", "dec16", "lazy8", "lazy16"}[r.Intn(6)]}
	if h.start != "new" {
		h.startN = []int{0, 1, 1 + r.Intn(60)}[r.Intn(3)]
	}
	if strings.HasPrefix(h.start, "dec") {
		h.mem = h.startN
	} else if strings.HasPrefix(h.start, "lazy") {
		h.lazy = uint64(h.startN)
	}
	for n := r.Intn(7); n > 0; n-- {
		var o mdatOp
		switch k := r.Intn(10); {
		case k < 2 && h.lazy == 0 && h.parts == 0:
			o = mdatOp{"add", uint64(1 + r.Intn(40))}
			h.mem += int(o.n)
		case k < 3 && h.lazy == 0 && h.mem == 0:
			o = mdatOp{"part", uint64(1 + r.Intn(40))}
			h.parts += int(o.n)
		case k < 5 && h.parts == 0:
			o = mdatOp{"set", uint64(r.Intn(3) / 2 * (1 + r.Intn(60)))}
			if r.Intn(2) == 0 {
				o.n = uint64(1 + r.Intn(60))
			}
			h.mem, h.lazy = int(o.n), 0
		case k < 7 && h.mem == 0 && h.parts == 0:
			o = mdatOp{"lazy", uint64(1 + r.Intn(100))}
			if r.Intn(3) == 0 {
				o.n = mdatLazySizes[r.Intn(len(mdatLazySizes))]
			}
			h.lazy = o.n
		default:
			o = mdatOp{[]string{"size", "encw", "encsw", "info"}[r.Intn(4)], 0}
		}
		h.ops = append(h.ops, o)
	}
	return h
}

// checkMdatHistory: after the history the box is either in memory (the harness knows how many payload bytes it holds:
// bytes written == Size(), the size field == bytes written) or lazy (the payload of the announced length is written
// separately: header bytes + announced length == Size() == the size field); both encoders, each running first on its
// own identically built box, agree.
func checkMdatHistory(c *Ctx, which string, h *mdatHist) {
	req := h.line()
	fail := func(prop, clause, what, got, exp string) {
		if prop == which {
			c.Fail(fmt.Sprintf("%s-mdat-history-%s", prop, clause), what, req, clip(got), clip(exp))
		}
	}
	var a, b *mp4.MdatBox
	if p := safe(func() { a, b = h.build(), h.build() }); p != "" || a == nil || b == nil {
		c.Count("mdat-history-unbuildable")
		return
	}
	payload := h.mem + h.parts
	var sizeBefore, sizeAfter, sizeTwin uint64
	var eW, eS, eWb encResult
	eW.panic = safe(func() {
		sizeBefore = a.Size()
		var buf bytes.Buffer
		eW.err = a.Encode(&buf)
		eW.out = buf.Bytes()
		sizeAfter = a.Size()
	})
	eS.panic = safe(func() {
		sw := dirtyWriter(payload + 64)
		eS.err = b.EncodeSW(sw)
		eS.out = sw.Bytes()
		sizeTwin = b.Size()
		var buf bytes.Buffer
		eWb.err = b.Encode(&buf)
		eWb.out = buf.Bytes()
	})
	okW, okS := eW.panic == "" && eW.err == nil, eS.panic == "" && eS.err == nil
	if okW != okS {
		fail("C03", "encoders-outcome", "MdatBox.Encode and EncodeSW on identically built boxes: one fails, the other does not", fmt.Sprintf("Encode: %v %s | EncodeSW: %v %s", eW.err, eW.panic, eS.err, eS.panic), "")
	} else if okW && !bytes.Equal(eW.out, eS.out) {
		fail("C03", "encoders-bytes", "MdatBox.Encode and EncodeSW on identically built boxes produce different bytes", clipHex(eS.out), clipHex(eW.out))
	}
	if okS && (eWb.err != nil || !bytes.Equal(eWb.out, eS.out)) {
		fail("C03", "encoders-second", "after a first EncodeSW, Encode fails or produces different bytes", fmt.Sprintf("%v %s", eWb.err, clipHex(eWb.out)), clipHex(eS.out))
	}
	sizeField := func(out []byte) (field uint64, hl int) {
		if len(out) < 8 {
			return 0, 0
		}
		field, hl = uint64(binary.BigEndian.Uint32(out)), 8
		if field == 1 && len(out) >= 16 {
			field, hl = binary.BigEndian.Uint64(out[8:]), 16
		}
		return
	}
	for _, e := range []struct {
		enc           string
		r             encResult
		before, after uint64
	}{{"Encode", eW, sizeBefore, sizeAfter}, {"EncodeSW", eS, sizeTwin, sizeTwin}} {
		if e.r.panic != "" || e.r.err != nil {
			continue
		}
		field, hl := sizeField(e.r.out)
		total := uint64(len(e.r.out)) // everything that belongs to the box: bytes written now + the lazy payload written separately
		if h.lazy > 0 {
			total += h.lazy
		}
		if hl == 0 || len(e.r.out) != hl+payload {
			fail("C02", "bytes", fmt.Sprintf("%s wrote %d bytes for a box that holds %d payload bytes in memory", e.enc, len(e.r.out), payload), clipHex(e.r.out), "")
			continue
		}
		if e.enc == "Encode" && total != e.before {
			fail("C02", "size-before", "Size() before Encode != bytes of the box (written + announced lazy payload)", fmt.Sprintf("Size()=%d box=%d (lazy %d)", e.before, total, h.lazy), "")
		}
		if total != e.after {
			fail("C02", "size-after", fmt.Sprintf("Size() after %s != bytes of the box (written + announced lazy payload)", e.enc), fmt.Sprintf("Size()=%d box=%d (lazy %d)", e.after, total, h.lazy), "")
		}
		if field != total {
			fail("C02", "size-field", fmt.Sprintf("the size field written by %s != length of the box", e.enc), fmt.Sprintf("field=%d box=%d (lazy %d)", field, total, h.lazy), "")
		}
	}
	key := ""
	if len(h.ops) >= 2 {
		key = req
	}
	c.Eval(key)
	c.Count("mdat-history-" + h.start)
}

func clipHex(b []byte) string {
	if len(b) > 48 {
		return hx(b[:48]) + fmt.Sprintf("…(%d bytes)", len(b))
	}
	return hx(b)
}

func genMdatHistories(c *Ctx, which string) {
	// boundary members: from every start state, a single SetLazyDataSize around the 32-bit size limit; and a single
	// SetData of 0 / 1 / more bytes
	for _, st := range []string{"new", "dec8", "dec16", "lazy8", "lazy16"} {
		for _, sn := range []int{0, 24} {
			if st == "new" && sn != 0 {
				continue
			}
			base := mdatHist{start: st, startN: sn}
			for _, n := range mdatLazySizes {
				if strings.HasPrefix(st, "dec") && sn > 0 {
					continue // data in memory: lazy mode is not to be entered
				}
				h := base
				h.ops, h.lazy = []mdatOp{{"lazy", n}}, n
				checkMdatHistory(c, which, &h)
			}
			for _, n := range []int{0, 1, 23, 24, 25} {
				h := base
				h.ops, h.mem = []mdatOp{{"set", uint64(n)}}, n
				checkMdatHistory(c, which, &h)
			}
		}
	}
	for it := 0; it < c.N(3000, 60000); it++ {
		checkMdatHistory(c, which, genMdatHistory(c.R))
	}
}

// ---- lazily decoded files whose mdat payloads are supplied afterwards

// checkLazySetData: the file is decoded in lazy-mdat mode and every mdat then gets a payload through SetData, as a tool
// does that reads, filters or rewrites the samples: the original bytes, a prefix (samples dropped), the bytes plus
// padding, or nothing. File, fragments and the mdat boxes themselves must then satisfy C02; the two file encoders agree.
func checkLazySetData(c *Ctx, which string, d []byte, name string) {
	r := c.R
	req := "lazy+SetData " + name
	fail := func(prop, clause, what, got, exp string) {
		if prop == which {
			c.Fail(fmt.Sprintf("%s-lazy-setdata-%s", prop, clause), what+" ["+name+"]", req, clip(got), clip(exp))
		}
	}
	var fl *mp4.File
	var el error
	if p := safe(func() { fl, el = mp4.DecodeFile(bytes.NewReader(d), mp4.WithDecodeMode(mp4.DecModeLazyMdat)) }); p != "" || el != nil || fl == nil {
		return
	}
	var mdats []*mp4.MdatBox
	var want []int
	desc := ""
	for _, ch := range fl.Children {
		m, ok := ch.(*mp4.MdatBox)
		if !ok || !m.IsLazy() {
			continue
		}
		from, n := m.PayloadAbsoluteOffset(), m.GetLazyDataSize()
		if from+n > uint64(len(d)) {
			return
		}
		orig := d[from : from+n]
		var pl []byte
		switch r.Intn(5) {
		case 0:
			pl = append([]byte{}, orig...)
		case 1:
			pl = append([]byte{}, orig[:len(orig)/2]...)
		case 2:
			pl = append([]byte{}, orig[:len(orig)-1]...)
		case 3:
			pl = append(append([]byte{}, orig...), make([]byte, 1+r.Intn(16))...)
		default:
			pl = []byte{}
		}
		desc += fmt.Sprintf(" %d->%d", n, len(pl))
		m.SetData(pl)
		mdats = append(mdats, m)
		want = append(want, len(pl))
	}
	if len(mdats) == 0 {
		return
	}
	req += " payloads" + desc
	c.Count("lazy-setdata-file")
	for i, m := range mdats {
		e := encWriter(m)
		if e.panic != "" || e.err != nil {
			continue
		}
		if sz := m.Size(); uint64(len(e.out)) != sz || uint64(len(e.out)) != m.HeaderSize()+uint64(want[i]) {
			fail("C02", "mdat-size", "an mdat that was given its payload through SetData: Size() != bytes written", fmt.Sprintf("Size()=%d written=%d payload=%d", sz, len(e.out), want[i]), "")
		} else if msg := checkSizeFields(e.out); msg != "" {
			fail("C02", "mdat-size-field", "an mdat that was given its payload through SetData: "+msg, "", "")
		}
	}
	for _, sg := range fl.Segments {
		for _, fr := range sg.Fragments {
			var sz uint64
			var buf bytes.Buffer
			var err error
			if p := safe(func() { sz = fr.Size(); err = fr.Encode(&buf) }); p != "" || err != nil {
				continue
			}
			if uint64(buf.Len()) != sz {
				fail("C02", "fragment-size", "Fragment.Size() != bytes written after SetData on its mdat", fmt.Sprintf("Size()=%d written=%d", sz, buf.Len()), "")
			}
		}
	}
	fl.FragEncMode = mp4.EncModeBoxTree
	var sizeBefore uint64
	var bw bytes.Buffer
	var ew, esw error
	var swOut []byte
	pw := safe(func() { sizeBefore = fl.Size(); ew = fl.Encode(&bw) })
	psw := safe(func() {
		sw := dirtyWriter(int(fl.Size()))
		esw = fl.EncodeSW(sw)
		swOut = sw.Bytes()
	})
	if (pw != "" || ew != nil) != (psw != "" || esw != nil) {
		fail("C03", "encoders-outcome", "File.Encode and File.EncodeSW after SetData: one fails, the other does not", fmt.Sprintf("Encode: %v %s | EncodeSW: %v %s", ew, pw, esw, psw), "")
	} else if pw == "" && ew == nil && !bytes.Equal(bw.Bytes(), swOut) {
		fail("C03", "encoders-bytes", "File.Encode and File.EncodeSW after SetData produce different bytes", fmt.Sprintf("len %d", len(swOut)), fmt.Sprintf("len %d", bw.Len()))
	}
	if pw == "" && ew == nil {
		if uint64(bw.Len()) != sizeBefore || uint64(bw.Len()) != fl.Size() {
			fail("C02", "file-size", "File.Size() != bytes written after SetData on the lazily decoded mdat boxes", fmt.Sprintf("Size() before=%d after=%d written=%d", sizeBefore, fl.Size(), bw.Len()), "")
		}
		if msg := checkSizeFieldsFile(bw.Bytes()); msg != "" {
			fail("C02", "file-size-field", "a header size field does not match after SetData: "+msg, "", "")
		}
	}
	c.Eval(req)
}

// topLevelSpans: [start,end) of the top-level boxes of a file (nil when the file does not tile)
func topLevelSpans(d []byte) [][2]int {
	var out [][2]int
	p := 0
	for p < len(d) {
		if p+8 > len(d) {
			return nil
		}
		sz := uint64(binary.BigEndian.Uint32(d[p:]))
		if sz == 1 {
			if p+16 > len(d) {
				return nil
			}
			sz = binary.BigEndian.Uint64(d[p+8:])
		}
		if sz < 8 || uint64(p)+sz > uint64(len(d)) {
			return nil
		}
		out = append(out, [2]int{p, p + int(sz)})
		p += int(sz)
	}
	return out
}

// genTopLevelEdits: files whose top-level box sequence was edited (a box duplicated, dropped, exchanged with its
// neighbour, an empty mdat / free box inserted): most are no longer valid files, and that is the point - whatever one
// decode path accepts and reproduces exactly the other path must accept too (C03), accepted ones must round-trip (C01)
// and size consistently (C02).
func genTopLevelEdits(c *Ctx, which string, files [][]byte, names []string) {
	type src struct {
		d    []byte
		name string
	}
	var srcs []src
	for i, d := range files {
		if len(d) <= 300000 {
			srcs = append(srcs, src{d, names[i]})
		}
	}
	r := rand.New(rand.NewSource(c.Seed*104729 + 5))
	for it := 0; it < c.N(12, 120); it++ {
		if d, name := genMixedProtection(r); d != nil {
			srcs = append(srcs, src{d, "mixed-protection(" + name + ")"})
		}
	}
	for _, sc := range srcs {
		sp := topLevelSpans(sc.d)
		if len(sp) < 2 {
			continue
		}
		for k := 0; k < c.N(8, 40); k++ {
			i := r.Intn(len(sp))
			box := sc.d[sp[i][0]:sp[i][1]]
			var out []byte
			var what string
			switch r.Intn(5) {
			case 0: // duplicate box i right after itself
				if len(box) > 100000 {
					continue
				}
				out = append(append(append([]byte{}, sc.d[:sp[i][1]]...), box...), sc.d[sp[i][1]:]...)
				what = fmt.Sprintf("box %d (%s) duplicated", i, string(box[4:8]))
			case 1: // drop box i
				out = append(append([]byte{}, sc.d[:sp[i][0]]...), sc.d[sp[i][1]:]...)
				what = fmt.Sprintf("box %d (%s) dropped", i, string(box[4:8]))
			case 2: // exchange with the next box
				if i+1 >= len(sp) {
					continue
				}
				next := sc.d[sp[i+1][0]:sp[i+1][1]]
				out = append(append(append(append([]byte{}, sc.d[:sp[i][0]]...), next...), box...), sc.d[sp[i+1][1]:]...)
				what = fmt.Sprintf("boxes %d and %d exchanged", i, i+1)
			case 3: // an empty mdat after box i
				out = append(append(append([]byte{}, sc.d[:sp[i][1]]...), 0, 0, 0, 8, 'm', 'd', 'a', 't'), sc.d[sp[i][1]:]...)
				what = fmt.Sprintf("empty mdat after box %d (%s)", i, string(box[4:8]))
			default: // a free box after box i
				out = append(append(append([]byte{}, sc.d[:sp[i][1]]...), 0, 0, 0, 12, 'f', 'r', 'e', 'e', 1, 2, 3, 4), sc.d[sp[i][1]:]...)
				what = fmt.Sprintf("free box after box %d (%s)", i, string(box[4:8]))
			}
			checkWholeFile(c, which, out, sc.name+": "+what)
			c.Count("top-level-edit")
		}
	}
}

// exactBox: the size the header declares (32-bit, or 64-bit behind size 1) is the length of the byte string. The model
// answers for exactly one box; DecodeBox on a longer string reads the declared size and ignores what follows.
func exactBox(bs []byte) bool {
	if len(bs) < 8 {
		return false
	}
	sz := uint64(binary.BigEndian.Uint32(bs))
	if sz == 1 {
		if len(bs) < 16 {
			return true // rejected by both
		}
		sz = binary.BigEndian.Uint64(bs[8:])
	}
	return sz == uint64(len(bs)) || sz < 8
}

// genSencShapes: the sample encryption box in every shape Common Encryption allows, alone and inside a traf: per-sample
// IV size 0 (constant IV: a sample count and nothing else), 8 or 16, with and without sub-sample entries, 0..3 samples,
// as senc and as the PIFF uuid form is left to the repository files. The decoders cannot know the IV size of a bare
// box, so what they keep "read but not parsed" must be the same on both paths and re-encode to the same bytes.
func genSencShapes(c *Ctx, which string) {
	r := rand.New(rand.NewSource(c.Seed*6151 + 3))
	for _, ivSize := range []int{0, 8, 16} {
		for _, subs := range []bool{false, true} {
			for n := 0; n <= 3; n++ {
				for rep := 0; rep < c.N(2, 8); rep++ {
					flags := byte(0)
					if subs {
						flags = 2
					}
					p := []byte{0, 0, 0, flags, 0, 0, 0, byte(n)}
					for i := 0; i < n; i++ {
						iv := make([]byte, ivSize)
						r.Read(iv)
						if ivSize == 16 && r.Intn(2) == 0 {
							copy(iv[8:], make([]byte, 8)) // the usual 64-bit IV + zero block counter
						}
						p = append(p, iv...)
						if subs {
							k := 1 + r.Intn(3)
							p = append(p, 0, byte(k))
							for j := 0; j < k; j++ {
								p = append(p, 0, byte(r.Intn(200)), 0, 0, byte(r.Intn(4)), byte(r.Intn(256)))
							}
						}
					}
					senc := wrapBox("senc", p)
					origin := fmt.Sprintf("senc shape iv=%d subs=%v n=%d", ivSize, subs, n)
					checkBoxBytes(c, which, senc, origin)
					c.Eval(string(senc))
					c.Count("senc-shape")
					tfhd := wrapBox("tfhd", []byte{0, 2, 0, 0, 0, 0, 0, 1})
					traf := wrapBox("traf", append(append([]byte{}, tfhd...), senc...))
					checkBoxBytes(c, which, traf, origin+" in traf")
					c.Eval(string(traf))
				}
			}
		}
	}
}
