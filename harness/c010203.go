package main

import (
	"math/rand"
	"bytes"
	"fmt"
	"strings"

	"github.com/Eyevinn/mp4ff/bits"
	"github.com/Eyevinn/mp4ff/mp4"
)

const boxRule = "cases = every distinct box (any nesting level, up to 64 kB) of the repository's media files, structured mutations of each (version 0/1/2/3/255, flag bits, field bytes to 0/1/7f/80/ff/random, truncation and extension with the size field fixed up, 16-byte large-size header), whole files through DecodeFile/DecodeFileSR and both encoders in box-tree and segment mode; each accepted byte string goes through DecodeBox, DecodeBoxSR, Encode, EncodeSW, Size, Info and a second decode/encode cycle; non-trivial = distinct accepted byte string"

func init() {
	for _, p := range []string{"C01", "C02", "C03"} {
		pp := p
		props[pp] = &propDef{rule: boxRule, gen: func(c *Ctx) { genBoxProps(c, pp) }, exec: func(req string) string { return execBox(req) }}
	}
}

// protocol: "box <hex>" -> accepted?/re-encoded bytes by the writer path (used for replay)
func execBox(req string) string {
	var f []string
	for _, x := range bytes.Fields([]byte(req)) {
		f = append(f, string(x))
	}
	if len(f) == 2 && f[0] == "box.rt" {
		bs, err := unhx(f[1])
		if err != nil {
			return "bad-op"
		}
		return boxRT(bs)
	}
	if len(f) != 2 || (f[0] != "box" && f[0] != "file") {
		return "bad-op"
	}
	bs, err := unhx(f[1])
	if err != nil {
		return "bad-op"
	}
	if f[0] == "file" {
		return fileSummary(bs)
	}
	r := decReader(bs)
	s := decSlice(bs)
	out := fmt.Sprintf("reader:%s sr:%s", outcome(r), outcome(s))
	if r.panic == "" && r.err == nil {
		e := encWriter(r.box)
		if e.panic != "" {
			out += " enc:" + e.panic
		} else if e.err != nil {
			out += " enc:err"
		} else {
			out += fmt.Sprintf(" size=%d enc=%s", r.box.Size(), hx(e.out))
		}
	}
	return out
}

// modelled box types (must equal the Lean side's `Boxes.specs`; the driver answers "unmodelled" otherwise)
var modelledBoxes = map[string]bool{}

func init() {
	for _, t := range strings.Fields("ftyp styp free skip mvhd tkhd mdhd hdlr vmhd smhd nmhd sthd stts ctts stsc stsz stco co64 stss sdtp elst mehd trex mfhd tfhd tfdt trun sidx saio saiz tenc frma pssh prft mfro btrt pasp clap cslg CoLL SmDm sbgp schm kind mime emsg leva subs payl sttg iden ctim vlab vttC vtta vsid vtte emib emeb av1C vpcC cdat iods dac3") {
		modelledBoxes[t] = true
	}
}

// boxRT: DecodeBox (io.Reader) of exactly one box, then Size and Encode — the behaviour the Lean model predicts
func boxRT(bs []byte) string {
	r := decReader(bs)
	if r.panic != "" {
		return "panic"
	}
	if r.err != nil || r.box == nil {
		return "rej"
	}
	e := encWriter(r.box)
	if e.panic != "" {
		return "panic"
	}
	if e.err != nil {
		return "encfail"
	}
	return fmt.Sprintf("size=%d enc=%s", r.box.Size(), hx(e.out))
}

func outcome(r pathResult) string {
	if r.panic != "" {
		return "panic"
	}
	if r.err != nil {
		return "err"
	}
	return "ok"
}

func genBoxProps(c *Ctx, which string) {
	seeds := seedBoxes(65536)
	c.Note(fmt.Sprintf("%d distinct seed boxes from %d repository files", len(seeds), len(repoFilesCache)))
	perSeed := c.N(1, 6)
	for _, sb := range seeds {
		v := checkBoxBytes(c, which, sb.bs, sb.origin)
		modelCase(c, which, sb.bs)
		key := ""
		if v.accepted {
			key = string(sb.bs)
			c.Count("seed." + v.typ)
		}
		c.Eval(key)
		if len(c.St.Samples) < 3 && len(sb.bs) < 120 {
			c.Sample("box " + hx(sb.bs) + "   (" + sb.origin + ")")
		}
		if _, isContainer := walkContainers[string(sb.bs[4:8])]; isContainer || len(sb.bs) > 20000 {
			continue // containers are covered through their (mutated) leaves and through whole files
		}
		for k := 0; k < perSeed; k++ {
			for _, m := range mutateBox(c, sb.bs) {
				v := checkBoxBytes(c, which, m, "mutation of "+sb.origin)
				modelCase(c, which, m)
				key := ""
				if v.accepted {
					key = string(m)
					c.Count("mutant-accepted")
				} else {
					c.Count("mutant-rejected")
				}
				c.Eval(key)
			}
		}
	}
	// whole files
	files, names := repoMediaFiles()
	for i, d := range files {
		checkWholeFile(c, which, d, names[i])
	}
	for it := 0; it < c.N(60, 600); it++ {
		if d, name := genMixedProtection(c.R); d != nil {
			checkWholeFile(c, which, d, fmt.Sprintf("mixed-protection#%d(%s)", it, name))
		}
	}
	for it := 0; it < c.N(30, 400); it++ {
		pf := genProgFile(c.R, 1+c.R.Intn(3), 30)
		checkWholeFile(c, which, pf.bytes, fmt.Sprintf("generated-progressive#%d", it))
	}
	// API-built fragments / media segments (histories of sample additions, both encoders, optimisation on/off,
	// Info in between, encode twice, grow and encode again)
	if which != "C01" {
		for it := 0; it < c.N(1500, 30000); it++ {
			checkHistory(c, which, genHistory(c))
		}
	}
}

func fileSummary(d []byte) string {
	var out string
	p := safe(func() {
		f, err := mp4.DecodeFile(bytes.NewReader(d))
		if err != nil {
			out = "err"
			return
		}
		f.FragEncMode = mp4.EncModeBoxTree
		var buf bytes.Buffer
		if err := f.Encode(&buf); err != nil {
			out = "enc-err"
			return
		}
		out = fmt.Sprintf("size=%d same=%v", f.Size(), bytes.Equal(buf.Bytes(), d))
	})
	if p != "" {
		return p
	}
	return out
}

func checkWholeFile(c *Ctx, which string, d []byte, name string) {
	req := "file " + name
	fail := func(prop, kind, what, got, exp string) {
		if prop == which {
			r := req
			if len(d) < 200000 {
				r = "file " + hx(d)
			}
			c.Fail(fmt.Sprintf("%s-file-%s", prop, kind), what+" ["+name+"]", r, clip(got), clip(exp))
		}
	}
	var fr, fs *mp4.File
	var er, es error
	pr := safe(func() { fr, er = mp4.DecodeFile(bytes.NewReader(d)) })
	ps := safe(func() { fs, es = mp4.DecodeFileSR(bits.NewFixedSliceReader(d)) })
	c.Eval(req)
	c.Count("whole-file")
	if pr != "" || ps != "" || er != nil || es != nil {
		// not accepted by at least one path: only C03's acceptance clause applies, and only for canonical inputs (checked below via the other path)
		if (pr == "" && er == nil) != (ps == "" && es == nil) {
			// is the accepting path's output canonical?
			acc := fr
			if acc == nil {
				acc = fs
			}
			if acc != nil {
				acc.FragEncMode = mp4.EncModeBoxTree
				var buf bytes.Buffer
				if p := safe(func() { _ = acc.Encode(&buf) }); p == "" && bytes.Equal(buf.Bytes(), d) {
					fail("C03", "decoders-accept", "a file one decode path reproduces exactly is rejected by the other", fmt.Sprintf("DecodeFile: %v %s | DecodeFileSR: %v %s", er, pr, es, ps), "")
				}
			}
		}
		return
	}
	for mi, mode := range []mp4.EncFragFileMode{mp4.EncModeBoxTree, mp4.EncModeSegment} {
		fr.FragEncMode = mode
		fs.FragEncMode = mode
		var sizeBefore uint64
		_ = safe(func() { sizeBefore = fr.Size() })
		var bw bytes.Buffer
		var ew error
		pw := safe(func() { ew = fr.Encode(&bw) })
		var swOut []byte
		var esw error
		psw := safe(func() {
			sw := bits.NewFixedSliceWriter(int(fr.Size()))
			esw = fr.EncodeSW(sw)
			swOut = sw.Bytes()
		})
		if (pw != "") != (psw != "") || (ew != nil) != (esw != nil) {
			fail("C03", fmt.Sprintf("encoders-outcome-mode%d", mi), "File.Encode and File.EncodeSW: one fails, the other does not", fmt.Sprintf("Encode: %v %s | EncodeSW: %v %s", ew, pw, esw, psw), "")
			continue
		}
		if pw != "" || ew != nil {
			if mi == 0 {
				fail("C01", "encode-fails", "a decoded file fails to encode in box-tree mode", fmt.Sprintf("%v %s", ew, pw), "")
			}
			continue
		}
		if !bytes.Equal(bw.Bytes(), swOut) {
			fail("C03", fmt.Sprintf("encoders-bytes-mode%d", mi), "File.Encode and File.EncodeSW produce different bytes", fmt.Sprintf("len %d", bw.Len()), fmt.Sprintf("len %d", len(swOut)))
		}
		if uint64(bw.Len()) != sizeBefore && !(fr.IsFragmented() && mode == mp4.EncModeSegment) {
			fail("C02", fmt.Sprintf("size-mode%d", mi), "File.Size() != bytes written", fmt.Sprintf("Size()=%d written=%d", sizeBefore, bw.Len()), "")
		}
		if msg := checkSizeFieldsFile(bw.Bytes()); msg != "" {
			fail("C02", "size-field", "a header size field does not match: "+msg, "", "")
		}
		// the same two clauses on the SliceWriter path
		if uint64(len(swOut)) != sizeBefore && !(fr.IsFragmented() && mode == mp4.EncModeSegment) {
			fail("C02", fmt.Sprintf("size-sw-mode%d", mi), "File.Size() != bytes written by EncodeSW", fmt.Sprintf("Size()=%d written=%d", sizeBefore, len(swOut)), "")
		}
		if msg := checkSizeFieldsFile(swOut); msg != "" {
			fail("C02", "size-field-sw", "a header size field written by EncodeSW does not match: "+msg, "", "")
		}
		if mi == 0 {
			// C01: box-tree mode is lossless modulo the list
			if !bytes.Equal(maskDontCare(bw.Bytes()), maskDontCare(d)) {
				fail("C01", "not-lossless", fmt.Sprintf("box-tree re-encoding of the file differs from the input outside the don't-care list (len %d -> %d)", len(d), bw.Len()), "", "")
			}
			// fixed point
			var f2 *mp4.File
			var e2 error
			p2 := safe(func() { f2, e2 = mp4.DecodeFile(bytes.NewReader(bw.Bytes())) })
			if p2 != "" || e2 != nil {
				fail("C01", "redecode", "re-encoded file is not accepted", fmt.Sprintf("%v %s", e2, p2), "")
			} else {
				f2.FragEncMode = mode
				var b2 bytes.Buffer
				if p := safe(func() { _ = f2.Encode(&b2) }); p != "" || !bytes.Equal(b2.Bytes(), bw.Bytes()) {
					fail("C01", "not-fixed-point", "second encode differs from the first", "", "")
				}
			}
		}
		// C03: the SR-decoded file encodes to the same bytes, same grouping and positions
		var bs2 bytes.Buffer
		if p := safe(func() { _ = fs.Encode(&bs2) }); p != "" || !bytes.Equal(bs2.Bytes(), bw.Bytes()) {
			fail("C03", fmt.Sprintf("decoders-reencode-mode%d", mi), "DecodeFile and DecodeFileSR results encode to different bytes", p, "")
		}
	}
	// lazy-mdat decode: same sizes as in-memory decode (C02 at file level, 32- and 64-bit mdat headers)
	var fl *mp4.File
	var el error
	pl := safe(func() { fl, el = mp4.DecodeFile(bytes.NewReader(d), mp4.WithDecodeMode(mp4.DecModeLazyMdat)) })
	if pl != "" || el != nil {
		fail("C02", "lazy-decode", "file decodes in memory but not lazily", fmt.Sprintf("%v %s", el, pl), "")
	} else {
		fl.FragEncMode = mp4.EncModeBoxTree
		fr.FragEncMode = mp4.EncModeBoxTree
		if fl.Size() != fr.Size() || fl.Size() != uint64(len(d)) {
			fail("C02", "lazy-size", "File.Size() of a lazily decoded file != size of the file", fmt.Sprintf("lazy %d eager %d file %d", fl.Size(), fr.Size(), len(d)), "")
		}
		for i := range fl.Children {
			if i < len(fr.Children) && fl.Children[i].Size() != fr.Children[i].Size() {
				fail("C02", "lazy-box-size", "a top-level box has different Size() in lazy and in-memory mode", fmt.Sprintf("%s lazy %d eager %d", fl.Children[i].Type(), fl.Children[i].Size(), fr.Children[i].Size()), "")
			}
		}
	}
	// C03: the two decodings describe the same structure (Info at full detail)
	var i1, i2 bytes.Buffer
	if p := safe(func() { _ = fr.Info(&i1, "all:1", "", " "); _ = fs.Info(&i2, "all:1", "", " ") }); p == "" && i1.String() != i2.String() {
		fail("C03", "decoders-info", "DecodeFile and DecodeFileSR results print different Info: "+firstDiffLine(i1.String(), i2.String()), "", "")
	}
	if g1, g2 := groupingOf(fr), groupingOf(fs); g1 != g2 {
		fail("C03", "decoders-grouping", "DecodeFile and DecodeFileSR group init/segments/fragments or record start positions differently", g2, g1)
	}
}

func groupingOf(f *mp4.File) string {
	s := fmt.Sprintf("frag=%v init=%v segs=%d children=%d", f.IsFragmented(), f.Init != nil, len(f.Segments), len(f.Children))
	for _, sg := range f.Segments {
		s += fmt.Sprintf(" [seg@%d styp=%v sidx=%d", sg.StartPos, sg.Styp != nil, len(sg.Sidxs))
		for _, fr := range sg.Fragments {
			mp, dp := int64(-1), int64(-1)
			if fr.Moof != nil {
				mp = int64(fr.Moof.StartPos)
			}
			if fr.Mdat != nil {
				dp = int64(fr.Mdat.StartPos)
			}
			s += fmt.Sprintf(" frag@%d moof@%d mdat@%d n=%d", fr.StartPos, mp, dp, len(fr.Children))
		}
		s += "]"
	}
	if f.Mdat != nil {
		s += fmt.Sprintf(" mdat@%d", f.Mdat.StartPos)
	}
	return s
}

func checkSizeFieldsFile(enc []byte) string {
	var boxes []rawBox
	walkBoxes(enc, 0, "", &boxes)
	pos := 0
	for _, b := range boxes {
		if b.start == pos && len(b.path) == len(b.typ)+1 {
			pos += b.size
		}
	}
	if pos != len(enc) {
		return fmt.Sprintf("top-level boxes cover %d of %d bytes", pos, len(enc))
	}
	return ""
}

func modelCase(c *Ctx, which string, bs []byte) {
	if len(bs) < 8 || len(bs) > 4096 || !modelledBoxes[string(bs[4:8])] {
		return
	}
	req := "box.rt " + hx(bs)
	ans := boxRT(bs)
	c.Case(req, ans)
	c.Count("model." + string(bs[4:8]))
	if which != "C03" {
		return
	}
	// C03: the other three decoder x encoder combinations against the same single model function. The property
	// constrains them on byte strings that one path reproduces exactly; there all four must give the model's answer.
	exact := "size=" + fmt.Sprint(len(bs)) + " enc=" + hx(bs)
	for _, p := range []struct {
		name string
		dec  func([]byte) pathResult
		enc  func(mp4.Box) encResult
	}{{"rd-sw", decReader, encSlice}, {"sr-wr", decSlice, encWriter}, {"sr-sw", decSlice, encSlice}} {
		a := boxRTvia(bs, p.dec, p.enc)
		if ans == exact || a == exact {
			c.Case("box.rt@"+p.name+" "+hx(bs), a)
			c.Count("model-path." + p.name)
		}
	}
}

func boxRTvia(bs []byte, dec func([]byte) pathResult, enc func(mp4.Box) encResult) string {
	r := dec(bs)
	if r.panic != "" {
		return "panic"
	}
	if r.err != nil || r.box == nil {
		return "rej"
	}
	e := enc(r.box)
	if e.panic != "" {
		return "panic"
	}
	if e.err != nil {
		return "encfail"
	}
	return fmt.Sprintf("size=%d enc=%s", r.box.Size(), hx(e.out))
}

// genMixedProtection: init + multi-track fragments where a random subset of the tracks is protected (cenc / cbcs,
// 8- or 16-byte per-sample IVs incl. IVs whose low half is zero, with or without sub-sample entries), trafs in random
// order; sometimes the media segment alone (decoded without its init, so the IV size has to be inferred).
func genMixedProtection(r *rand.Rand) ([]byte, string) {
	var out []byte
	name := ""
	p := safe(func() {
		nt := 1 + r.Intn(3)
		key := []byte("0123456789abcdef")
		kid, _ := mp4.NewUUIDFromString("11112222333344445555666677778888")
		prot := make([]bool, nt)
		ivLen := make([]int, nt)
		full := mp4.CreateEmptyInit()
		for t := 0; t < nt; t++ {
			// InitProtect works on a single-track init: protect a one-track copy and move its trak over
			one := mp4.CreateEmptyInit()
			one.AddEmptyTrack(48000, "audio", "und")
			_ = one.Moov.Trak.SetAACDescriptor(2, 48000)
			prot[t] = r.Intn(3) > 0
			ivLen[t] = []int{8, 16}[r.Intn(2)]
			if prot[t] {
				iv := make([]byte, ivLen[t])
				r.Read(iv)
				scheme := []string{"cenc", "cenc", "cbcs"}[r.Intn(3)]
				if _, err := mp4.InitProtect(one, key, iv, scheme, kid, nil); err != nil {
					return
				}
			}
			full.AddEmptyTrack(48000, "audio", "und")
			trak := full.Moov.Traks[t]
			src := one.Moov.Trak
			src.Tkhd.TrackID = uint32(t + 1)
			// replace the stsd of the new trak by the (possibly protected) one
			stbl := trak.Mdia.Minf.Stbl
			for i, ch := range stbl.Children {
				if ch.Type() == "stsd" {
					stbl.Children[i] = src.Mdia.Minf.Stbl.Stsd
				}
			}
			stbl.Stsd = src.Mdia.Minf.Stbl.Stsd
		}
		var buf bytes.Buffer
		if err := full.Encode(&buf); err != nil {
			return
		}
		initLen := buf.Len()
		nfr := 1 + r.Intn(2)
		for fi := 0; fi < nfr; fi++ {
			order := r.Perm(nt)
			ids := make([]uint32, nt)
			for i, t := range order {
				ids[i] = uint32(t + 1)
			}
			frag, err := mp4.CreateMultiTrackFragment(uint32(fi+1), ids)
			if err != nil {
				return
			}
			ns := 1 + r.Intn(4)
			for _, t := range order {
				for k := 0; k < ns; k++ {
					d := make([]byte, 8+r.Intn(20))
					r.Read(d)
					fs := mp4.FullSample{Sample: mp4.Sample{Flags: mp4.SyncSampleFlags, Dur: 1024, Size: uint32(len(d))}, DecodeTime: uint64((fi*ns + k) * 1024), Data: d}
					if err := frag.AddFullSampleToTrack(fs, uint32(t+1)); err != nil {
						return
					}
				}
			}
			for i, t := range order {
				if !prot[t] {
					continue
				}
				senc := mp4.NewSencBox(0, 0)
				subs := r.Intn(2) == 0
				for k := 0; k < ns; k++ {
					iv := make([]byte, ivLen[t])
					r.Read(iv)
					if ivLen[t] == 16 && r.Intn(2) == 0 {
						for j := 8; j < 16; j++ {
							iv[j] = 0
						}
						iv[15] = byte(k)
					}
					ss := mp4.SencSample{IV: iv}
					if subs {
						ss.SubSamples = []mp4.SubSamplePattern{{BytesOfClearData: uint16(r.Intn(8)), BytesOfProtectedData: uint32(r.Intn(16))}}
					}
					if err := senc.AddSample(ss); err != nil {
						return
					}
				}
				if err := frag.Moof.Trafs[i].AddChild(senc); err != nil {
					return
				}
			}
			if err := frag.Encode(&buf); err != nil {
				return
			}
		}
		all := buf.Bytes()
		name = fmt.Sprintf("tracks=%d protected=%v ivlen=%v", nt, prot, ivLen)
		if r.Intn(4) == 0 {
			out = append([]byte{}, all[initLen:]...) // the media segment alone
			name += " segment-only"
		} else {
			out = append([]byte{}, all...)
		}
	})
	if p != "" {
		return nil, ""
	}
	return out, name
}
