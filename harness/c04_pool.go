package main

// Worker-process management for C04: lines are fed to a re-executed harness binary (`-prop C04 -exec /dev/stdin`,
// VERIF_WORKER=C04) through its stdin, answers are read line by line from its stdout.

import (
	"bufio"
	"fmt"
	"io"
	"os"
	"os/exec"
	"strings"
	"sync"
	"time"
)

type c04HeadBuf struct {
	mu  sync.Mutex
	b   []byte
	max int
}

func (h *c04HeadBuf) Write(p []byte) (int, error) {
	h.mu.Lock()
	if room := h.max - len(h.b); room > 0 {
		if len(p) < room {
			room = len(p)
		}
		h.b = append(h.b, p[:room]...)
	}
	h.mu.Unlock()
	return len(p), nil
}

func (h *c04HeadBuf) String() string {
	h.mu.Lock()
	defer h.mu.Unlock()
	return string(h.b)
}

type c04ProcResult struct {
	answers []string // answers received (in order)
	exit    int      // exit status (-1: killed by the parent for lack of progress)
	stderr  string
	killed  bool
}

// c04Spawn runs the lines in ONE worker process and returns whatever answers it produced.
func c04Spawn(lines []string, trace bool) c04ProcResult {
	cmd := exec.Command(os.Args[0], "-prop", "C04", "-exec", "/dev/stdin")
	cmd.Env = append(os.Environ(), "VERIF_WORKER=C04", "GOTRACEBACK=all")
	if trace {
		cmd.Env = append(cmd.Env, "VERIF_C04_TRACE=1")
	} else {
		cmd.Env = append(cmd.Env, "VERIF_C04_TRACE=0")
	}
	stdin, _ := cmd.StdinPipe()
	stdout, _ := cmd.StdoutPipe()
	errBuf := &c04HeadBuf{max: 1 << 20}
	cmd.Stderr = errBuf
	var res c04ProcResult
	if err := cmd.Start(); err != nil {
		res.exit = -2
		res.stderr = err.Error()
		return res
	}
	go func() {
		w := bufio.NewWriterSize(stdin, 1<<16)
		for _, l := range lines {
			if _, err := w.WriteString(l + "\n"); err != nil {
				break
			}
		}
		w.Flush()
		stdin.Close()
	}()
	progress := make(chan struct{}, 1)
	done := make(chan struct{})
	var killed bool
	var kmu sync.Mutex
	go func() {
		t := time.NewTimer(c04ProgressTO)
		for {
			select {
			case <-progress:
				if !t.Stop() {
					select {
					case <-t.C:
					default:
					}
				}
				t.Reset(c04ProgressTO)
			case <-t.C:
				kmu.Lock()
				killed = true
				kmu.Unlock()
				_ = cmd.Process.Kill()
				return
			case <-done:
				return
			}
		}
	}()
	rd := bufio.NewReaderSize(stdout, 1<<16)
	for {
		l, err := rd.ReadString('\n')
		if strings.HasSuffix(l, "\n") {
			res.answers = append(res.answers, strings.TrimRight(l, "\n"))
			select {
			case progress <- struct{}{}:
			default:
			}
		}
		if err != nil {
			break
		}
	}
	io.Copy(io.Discard, stdout)
	err := cmd.Wait()
	close(done)
	kmu.Lock()
	res.killed = killed
	kmu.Unlock()
	res.exit = 0
	if err != nil {
		res.exit = 1
		if ee, ok := err.(*exec.ExitError); ok {
			res.exit = ee.ExitCode()
		}
	}
	if res.killed {
		res.exit = -1
	}
	res.stderr = errBuf.String()
	return res
}

// c04DeathKind classifies the end of a worker that stopped without answering its current line.
func c04DeathKind(r c04ProcResult) string {
	switch {
	case r.killed:
		return "hang"
	case strings.Contains(r.stderr, "out of memory") || strings.Contains(r.stderr, "cannot allocate memory"):
		return "oom"
	case strings.Contains(r.stderr, "stack overflow") || strings.Contains(r.stderr, "goroutine stack exceeds"):
		return "stackoverflow"
	default:
		return "crash"
	}
}

// c04RunIsolated executes every line, each answer aligned with its line, surviving worker deaths: the culprit of a death
// is the first line without an answer; it is re-run ALONE in trace mode (phase markers on stderr) to name the entry point
// and the site, and the remaining lines continue in a fresh worker.
func c04RunIsolated(lines []string, trace bool, _ string) []string {
	out := make([]string, 0, len(lines))
	rest := lines
	for len(rest) > 0 {
		r := c04Spawn(rest, trace)
		if len(r.answers) > len(rest) {
			r.answers = r.answers[:len(rest)]
		}
		out = append(out, r.answers...)
		rest = rest[len(r.answers):]
		if len(rest) == 0 {
			break
		}
		if r.exit == 3 && len(r.answers) > 0 {
			continue // the watchdog answered the hanging line itself and stopped the worker
		}
		// the worker died on rest[0]
		culprit := rest[0]
		rest = rest[1:]
		var rr c04ProcResult
		if trace && len(lines) == 1 {
			rr = r
		} else {
			rr = c04Spawn([]string{culprit}, true)
		}
		if len(rr.answers) == 1 {
			// not reproduced alone (or the watchdog answered): keep the answer, flag non-reproduced deaths
			if rr.exit == 3 {
				out = append(out, rr.answers[0])
			} else {
				out = append(out, rr.answers[0]+" | "+c04Viol{"flaky-" + c04DeathKind(r), "worker", "?", "died in a batch, not alone", c04FirstLine(r.stderr)}.String())
			}
			continue
		}
		out = append(out, "- | "+c04DeathViol(rr).String())
	}
	return out
}

func c04FirstLine(s string) string {
	for _, l := range strings.Split(s, "\n") {
		if strings.HasPrefix(l, "fatal error") || strings.HasPrefix(l, "runtime:") || strings.HasPrefix(l, "panic") || strings.HasPrefix(l, "SIG") {
			return l
		}
	}
	if i := strings.Index(s, "\n"); i >= 0 {
		return s[:i]
	}
	return s
}

// c04DeathViol builds the violation of a traced single-input run that died.
func c04DeathViol(r c04ProcResult) c04Viol {
	kind := c04DeathKind(r)
	class, detail := "?", "?"
	var body []string
	for _, l := range strings.Split(r.stderr, "\n") {
		if strings.HasPrefix(l, "PH ") {
			f := strings.Fields(l)
			if len(f) >= 3 {
				class, detail = f[1], strings.ReplaceAll(f[2], "_", " ")
			}
			body = body[:0]
			continue
		}
		body = append(body, l)
	}
	txt := strings.Join(body, "\n")
	site := "?"
	if kind != "hang" {
		site = c04SiteFromStack(txt, false)
	}
	return c04Viol{kind, class, site, detail, c04FirstLine(txt)}
}

// c04RunPool distributes the lines over `workers` processes in batches; answers come back aligned with the lines.
func c04RunPool(lines []string, workers, batch int, progress func(done int)) []string {
	answers := make([]string, len(lines))
	type job struct{ lo, hi int }
	jobs := make(chan job, 1+len(lines)/batch)
	for lo := 0; lo < len(lines); lo += batch {
		hi := lo + batch
		if hi > len(lines) {
			hi = len(lines)
		}
		jobs <- job{lo, hi}
	}
	close(jobs)
	var wg sync.WaitGroup
	var mu sync.Mutex
	doneN := 0
	for w := 0; w < workers; w++ {
		wg.Add(1)
		go func() {
			defer wg.Done()
			for j := range jobs {
				a := c04RunIsolated(lines[j.lo:j.hi], false, "")
				for i := range a {
					if j.lo+i < j.hi {
						answers[j.lo+i] = a[i]
					}
				}
				mu.Lock()
				doneN += j.hi - j.lo
				if progress != nil {
					progress(doneN)
				}
				mu.Unlock()
			}
		}()
	}
	wg.Wait()
	for i := range answers {
		if answers[i] == "" {
			answers[i] = "- | " + c04Viol{"crash", "worker", "?", "no answer", ""}.String()
		}
	}
	return answers
}

var _ = fmt.Sprint
