package main

import (
	"bytes"
	"encoding/binary"
	"fmt"
	"os"
	"path/filepath"
	"strings"

	"github.com/Eyevinn/mp4ff/bits"
	"github.com/Eyevinn/mp4ff/mp4"
)

// eptObserved counts index outputs whose earliest presentation time differs from the reference track's first
// presentation time (an observation outside the statement of C12; reported in the evidence notes)
var eptObserved int

func init() {
	props["C12"] = &propDef{
		rule: "cases = generated fragmented files: 1..3 tracks (video and/or audio, any order), 1..6 segments x 1..4 fragments, 8- or 16-byte mdat headers, decoded through the io.Reader or the slice-reader path, delimiters {none, styp per segment, top-level sidx (version 0/1, with/without a free box after it, with the 8- or the 16-byte largesize box header, with 0..12 trailing bytes inside the box), references spread over 2..4 top-level sidx boxes in front of the media (1..3 references each, now and then an empty box; with/without a parent sidx of reference_type 1 entries in front of them), mfra/tfra with the ISM flag, start-on-moof flag}, emsg boxes before fragments, zero/non-zero composition offset on the first sample; a share of the files (90 of 690 index runs, 24 of 184 tool inputs, 48 of 368 histories in the quick tier) with several traf boxes per track in their moofs (2..3 for the reference track, 1..2 for the others, in any order in the moof, every traf with one or more truns, the tracks' samples optionally interleaved in the mdat; trafs without samples when samples run out; boundary members: every fragment / only the last / only the first fragment of every segment x every delimiter kind); checks: grouping of moof/mdat pairs into segments (for sidx-delimited files also with one field of the index disturbed: model vs code only), segment-mode re-encoding byte-identical, and after UpdateSidx(add/not, zero/non-zero EPT) + Encode the index tiles the media (each reference starts at its segment's first byte, ends at the end of the media, durations = summed durations of the reference track); plus the examples/add-sidx binary (built into $VERIF_BUILD/tools/add-sidx) on files of the same family written to disk, three quarters of them with saiz+saio+senc (with/without sub-samples) or PIFF uuid-senc boxes in the trafs of some or all tracks, x options {-removeEnc, -nzEPT, -startSegOnMoof}: the index in the written file is checked against the top-level boxes of the written file (same tiling/duration/EPT clauses; init, mdat and - without -removeEnc - moof boxes byte-identical and in order); plus histories (upd): files of the same family, decoded or assembled box by box through File.AddChild, x {segment mode, box-tree mode (FragEncMode set before or after UpdateSidx)} x {Encode, EncodeSW} x UpdateSidx(add/not, zero/non-zero EPT); boundary members: no index yet and the first segment opening with emsg / moof / styp / styp+emsg x both modes x {decoded, start-on-moof or slice reader, assembled, EncodeSW}; in segment mode three quarters are first modified through the public API: Fragment.AddEmsg (1..3 boxes; first / middle / last fragment of first / middle / last segment as boundary members), Fragment.AddChild (emsg, free, skip), MediaSegment.AddFragment (new fragment with prft and/or emsg boxes in front), File.AddMediaSegment (with/without styp) + AddFragment, Styp set on a segment; oracle on the written bytes only (independent walker): index = first top-level sidx, segment i = the next n_i top-level media boxes, references tile them (start of each, end of media, durations, EPT); UpdateSidx/Encode error returns on modified files are counted, not failed; model correspondence (usidx): referenced sizes, first_offset and the place of a new index among the top-level boxes after the same operations (box sizes handed over in the request, confirmed by the harness); non-trivial = distinct file with >= 2 segments, or distinct successful tool run",
		gen:  genC12,
		exec: execC12,
	}
}

type ffFrag struct {
	emsg bool
	ops  []fragOp // track, dur, size, flags, cto
	// several traf boxes per track in this moof (ISO/IEC 14496-12 8.8.6: "zero or more" per track): trafs = track ID of
	// every traf box in moof order, slot = for every op the traf its sample goes to (trafs[slot[i]] == ops[i].track);
	// a new trun is started whenever the previous sample went elsewhere. nil = one traf per track, in track order.
	trafs []int
	slot  []int
}
type ffSpec struct {
	media   []string // per track: video | audio
	segs    [][]ffFrag
	delim   string // none | styp | sidx0 | sidx1 | mfra
	free    bool   // free box between sidx and the first segment (first_offset != 0)
	flagSOM bool   // DecStartOnMoof
	largeMd bool   // every fragment's mdat carries the 16-byte largesize header
	sr      bool   // decode through the slice-reader path (DecodeFileSR)
	sidxLg  bool   // the top-level sidx carries the 16-byte largesize header (size32 == 1)
	sidxPad int    // trailing bytes inside the sidx box after its last reference (covered by the box size)
	enc     string // per track: '-' no encryption boxes in its trafs, 'c' saiz+saio+senc (8-byte IVs), 's' the same with sub-samples, 'u' PIFF uuid-senc ("" = none)
	split   []int  // several top-level sidx boxes in front of the media: number of references (segments) of each, in order (nil = one sidx listing every segment)
	hier    bool   // a parent sidx in front of them whose reference_type 1 entries point at those sidx boxes
}

func (s *ffSpec) splitStr() string {
	if len(s.split) == 0 {
		return "-"
	}
	var t []string
	for _, n := range s.split {
		t = append(t, fmt.Sprint(n))
	}
	return strings.Join(t, "+")
}

func (s *ffSpec) line() string {
	var p []string
	enc := s.enc
	if enc == "" {
		enc = "-"
	}
	p = append(p, fmt.Sprintf("ffile %s %s %s %s %s %s %s %d %s %s %s", strings.Join(s.media, ","), s.delim, b01(s.free), b01(s.flagSOM), b01(s.largeMd), b01(s.sr), b01(s.sidxLg), s.sidxPad, enc, s.splitStr(), b01(s.hier)))
	for _, sg := range s.segs {
		var fs []string
		for _, f := range sg {
			ops := []string{b01(f.emsg)}
			if f.trafs != nil {
				ops = append(ops, "t="+ffJoinInts(f.trafs)+"/"+ffJoinInts(f.slot))
			}
			for _, o := range f.ops {
				ops = append(ops, fmt.Sprintf("%d:%d:%d:%d:%d", o.track, o.dur, o.size, o.flags, o.cto))
			}
			fs = append(fs, strings.Join(ops, " "))
		}
		p = append(p, strings.Join(fs, " ; "))
	}
	return strings.Join(p, " | ")
}

func ffJoinInts(l []int) string {
	t := make([]string, len(l))
	for i, x := range l {
		t[i] = fmt.Sprint(x)
	}
	return strings.Join(t, ".")
}

func ffSplitInts(s string) []int {
	l := []int{}
	for _, x := range strings.Split(s, ".") {
		if x != "" {
			l = append(l, atoi(x))
		}
	}
	return l
}

func parseFF(req string) *ffSpec {
	parts := strings.Split(req, " | ")
	f0 := strings.Fields(parts[0])
	s := &ffSpec{media: strings.Split(f0[1], ","), delim: f0[2], free: f0[3] == "1", flagSOM: f0[4] == "1"}
	if len(f0) >= 7 {
		s.largeMd, s.sr = f0[5] == "1", f0[6] == "1"
	}
	if len(f0) >= 9 {
		s.sidxLg, s.sidxPad = f0[7] == "1", atoi(f0[8])
	}
	if len(f0) >= 10 && len(f0[9]) == len(s.media) {
		s.enc = f0[9]
	}
	if len(f0) >= 12 {
		if f0[10] != "-" {
			for _, x := range strings.Split(f0[10], "+") {
				s.split = append(s.split, atoi(x))
			}
		}
		s.hier = f0[11] == "1"
	}
	for _, sp := range parts[1:] {
		var sg []ffFrag
		for _, fp := range strings.Split(sp, " ; ") {
			w := strings.Fields(fp)
			fr := ffFrag{emsg: w[0] == "1"}
			for _, o := range w[1:] {
				if strings.HasPrefix(o, "t=") {
					tl := strings.SplitN(o[2:], "/", 2)
					fr.trafs, fr.slot = ffSplitInts(tl[0]), ffSplitInts(tl[1])
					continue
				}
				x := strings.Split(o, ":")
				fr.ops = append(fr.ops, fragOp{atoi(x[0]), uint32(atoi(x[1])), uint32(atoi(x[2])), uint32(atoi(x[3])), int32(atoi(x[4]))})
			}
			sg = append(sg, fr)
		}
		s.segs = append(s.segs, sg)
	}
	return s
}

type ffBuilt struct {
	bytes      []byte
	initLen    int
	segStart   []int // byte offset of the first byte of each segment
	segSize    []int
	moofPos    [][]int // per segment per fragment
	refDur     []uint64
	refEPT     uint64 // presentation time of the first sample of the reference track
	mediaEnd   int
	sidxPos    int // byte offset and size of the top-level sidx written by the generator (size 0: none)
	sidxSize   int
	nSidx      int        // number of top-level sidx boxes written (they are adjacent, sidxSize covers them all)
	fragRefDur [][]uint64 // per segment per fragment: summed durations of the reference track's samples
	init       *mp4.InitSegment
	objs       [][]ffObj // per segment per fragment: the library objects the bytes were written from
	refTrack   int
}

type ffObj struct {
	emsg *mp4.EmsgBox
	frag *mp4.Fragment
}

func box(typ string, payload []byte) []byte {
	b := make([]byte, 8, 8+len(payload))
	binary.BigEndian.PutUint32(b, uint32(8+len(payload)))
	copy(b[4:], typ)
	return append(b, payload...)
}

func buildFF(s *ffSpec) (*ffBuilt, error) {
	init := mp4.CreateEmptyInit()
	for _, m := range s.media {
		ts := uint32(90000)
		if m == "audio" {
			ts = 48000
		}
		init.AddEmptyTrack(ts, m, "und")
	}
	var ib bytes.Buffer
	if err := init.Encode(&ib); err != nil {
		return nil, err
	}
	refTrack := 1
	found := false
	for i, m := range s.media {
		if m == "video" {
			refTrack = i + 1
			found = true
			break
		}
	}
	if !found {
		for i, m := range s.media {
			if m == "audio" {
				refTrack = i + 1
				break
			}
		}
	}
	out := &ffBuilt{init: init, refTrack: refTrack}
	next := map[int]uint64{}
	cnt := map[int]int{}
	ids := make([]uint32, len(s.media))
	for i := range ids {
		ids[i] = uint32(i + 1)
		next[i+1] = uint64(100 * (i + 1))
	}
	type segBytes struct {
		b       []byte
		moofOff []int
	}
	var segs []segBytes
	seq := uint32(1)
	firstRef := true
	for _, sg := range s.segs {
		var sb segBytes
		if s.delim == "styp" {
			sb.b = append(sb.b, box("styp", []byte("msdh\x00\x00\x00\x00msdhmsix"))...)
		}
		var dur uint64
		var frd []uint64
		var objs []ffObj
		for _, fr := range sg {
			var fdur uint64
			var ob ffObj
			if fr.emsg {
				var eb bytes.Buffer
				e := &mp4.EmsgBox{Version: 1, TimeScale: 90000, PresentationTime: 5, EventDuration: 9, ID: seq, SchemeIDURI: "urn:y", Value: "1", MessageData: []byte{7, 7}}
				_ = e.Encode(&eb)
				sb.b = append(sb.b, eb.Bytes()...)
				ob.emsg = e
			}
			var f *mp4.Fragment
			var err error
			var slots []*mp4.TrafBox // fr.trafs given: the moof is put together box by box
			if fr.trafs == nil {
				f, err = mp4.CreateMultiTrackFragment(seq, ids)
			} else {
				f, slots, err = multiTrafFragment(seq, fr, len(s.media))
			}
			if err != nil {
				return nil, err
			}
			seq++
			lastSlot, trunNr := -1, uint32(1)
			for oi, o := range fr.ops {
				sm := mp4.Sample{Flags: o.flags, Dur: o.dur, Size: o.size, CompositionTimeOffset: o.cto}
				if slots != nil {
					// the sample goes to the traf the specification names: its tfdt is the decode time of the first
					// sample it gets; a trun ends when a sample goes to another traf (sample data in op order)
					traf := slots[fr.slot[oi]]
					if len(traf.Truns) == 0 {
						traf.Tfdt.SetBaseMediaDecodeTime(next[o.track])
					}
					if fr.slot[oi] != lastSlot {
						if err := traf.AddChild(mp4.CreateTrun(trunNr)); err != nil {
							return nil, err
						}
						trunNr++
						lastSlot = fr.slot[oi]
					}
					traf.Truns[len(traf.Truns)-1].AddSample(sm)
					f.Mdat.AddSampleData(sampleData(o.track, cnt[o.track], o.size))
				} else if err := f.AddFullSampleToTrack(mp4.FullSample{Sample: sm, DecodeTime: next[o.track], Data: sampleData(o.track, cnt[o.track], o.size)}, uint32(o.track)); err != nil {
					return nil, err
				}
				if o.track == refTrack {
					if firstRef {
						out.refEPT = uint64(int64(next[o.track]) + int64(o.cto))
						firstRef = false
					}
					dur += uint64(o.dur)
					fdur += uint64(o.dur)
				}
				next[o.track] += uint64(o.dur)
				cnt[o.track]++
			}
			frd = append(frd, fdur)
			for _, traf := range slots {
				if len(traf.Truns) == 0 { // a traf without samples: decode time reached by its track so far
					traf.Tfdt.SetBaseMediaDecodeTime(next[int(traf.Tfhd.TrackID)])
				}
			}
			if s.enc != "" {
				if err := addEncBoxes(s, f, fr); err != nil {
					return nil, err
				}
			}
			if s.largeMd {
				f.Mdat.LargeSize = true
			}
			var fb bytes.Buffer
			if err := f.Encode(&fb); err != nil {
				return nil, err
			}
			sb.moofOff = append(sb.moofOff, len(sb.b))
			sb.b = append(sb.b, fb.Bytes()...)
			ob.frag = f
			objs = append(objs, ob)
		}
		out.objs = append(out.objs, objs)
		out.refDur = append(out.refDur, dur)
		out.fragRefDur = append(out.fragRefDur, frd)
		segs = append(segs, sb)
	}
	file := cp(ib.Bytes())
	out.initLen = len(file)
	if s.delim == "sidx0" || s.delim == "sidx1" {
		ver := byte(0)
		if s.delim == "sidx1" {
			ver = 1
		}
		// one sidx box: (reference_type, referenced_size, duration) entries, first_offset; the box may occupy more
		// bytes than its minimal encoding (trailing bytes after the last reference and/or the 64-bit size form of the
		// header); references still count from the first byte after the box
		type sref struct {
			typ       uint32
			size, dur int
		}
		mk := func(firstOff int, refs []sref) []byte {
			pl := []byte{ver, 0, 0, 0, 0, 0, 0, 1, 0, 1, 0x5f, 0x90}
			if ver == 0 {
				pl = append(pl, 0, 0, 0, 0)
				pl = binary.BigEndian.AppendUint32(pl, uint32(firstOff))
			} else {
				pl = append(pl, 0, 0, 0, 0, 0, 0, 0, 0)
				pl = binary.BigEndian.AppendUint64(pl, uint64(firstOff))
			}
			pl = append(pl, 0, 0)
			pl = binary.BigEndian.AppendUint16(pl, uint16(len(refs)))
			for _, r := range refs {
				pl = binary.BigEndian.AppendUint32(pl, r.typ<<31|uint32(r.size))
				pl = binary.BigEndian.AppendUint32(pl, uint32(r.dur))
				if r.typ == 0 {
					pl = binary.BigEndian.AppendUint32(pl, 0x90000000)
				} else {
					pl = binary.BigEndian.AppendUint32(pl, 0)
				}
			}
			for k := 0; k < s.sidxPad; k++ {
				pl = append(pl, byte(0x11*k))
			}
			if s.sidxLg {
				hd := []byte{0, 0, 0, 1, 's', 'i', 'd', 'x'}
				hd = binary.BigEndian.AppendUint64(hd, uint64(16+len(pl)))
				return append(hd, pl...)
			}
			return box("sidx", pl)
		}
		split := s.split
		if len(split) == 0 {
			split = []int{len(segs)}
		}
		tot := 0
		for _, n := range split {
			tot += n
		}
		if tot != len(segs) {
			return nil, fmt.Errorf("sidx split %v does not cover %d segments", split, len(segs))
		}
		// the boxes sit one after the other in front of the media: box j lists the next split[j] segments; its
		// first_offset skips the sidx boxes behind it (and the free box) and the media listed by the boxes before it
		freeLen := 0
		if s.free {
			freeLen = 13
		}
		var refs [][]sref
		var durs []int
		at := 0
		for _, n := range split {
			var rs []sref
			d := 0
			for i := at; i < at+n; i++ {
				rs = append(rs, sref{0, len(segs[i].b), int(out.refDur[i])})
				d += int(out.refDur[i])
			}
			refs = append(refs, rs)
			durs = append(durs, d)
			at += n
		}
		sizes := make([]int, len(split))
		for j := range split {
			sizes[j] = len(mk(0, refs[j]))
		}
		var boxes [][]byte
		mediaBefore := 0
		for j := range split {
			behind := 0
			for _, x := range sizes[j+1:] {
				behind += x
			}
			boxes = append(boxes, mk(behind+freeLen+mediaBefore, refs[j]))
			for _, r := range refs[j] {
				mediaBefore += r.size
			}
		}
		if s.hier {
			// parent index: one reference_type 1 entry per sidx box behind it (referenced material = that box)
			var rs []sref
			for j := range split {
				rs = append(rs, sref{1, sizes[j], durs[j]})
			}
			boxes = append([][]byte{mk(0, rs)}, boxes...)
		}
		out.sidxPos = len(file)
		for _, bx := range boxes {
			file = append(file, bx...)
		}
		out.sidxSize = len(file) - out.sidxPos
		out.nSidx = len(boxes)
		if s.free {
			file = append(file, box("free", []byte{1, 2, 3, 4, 5})...)
		}
	}
	for _, sg := range segs {
		out.segStart = append(out.segStart, len(file))
		out.segSize = append(out.segSize, len(sg.b))
		var mp []int
		for _, o := range sg.moofOff {
			mp = append(mp, len(file)+o)
		}
		out.moofPos = append(out.moofPos, mp)
		file = append(file, sg.b...)
	}
	out.mediaEnd = len(file)
	if s.delim == "mfra" {
		// tfra version 1, 1-byte traf/trun/sample numbers, one entry per segment (first moof of the segment)
		pl := []byte{1, 0, 0, 0, 0, 0, 0, 1, 0, 0, 0, 0}
		pl = binary.BigEndian.AppendUint32(pl, uint32(len(segs)))
		for i := range segs {
			pl = binary.BigEndian.AppendUint64(pl, uint64(i)*1000)
			pl = binary.BigEndian.AppendUint64(pl, uint64(out.moofPos[i][0]))
			pl = append(pl, 1, 1, 1)
		}
		tfra := box("tfra", pl)
		mfroPl := []byte{0, 0, 0, 0}
		mfroPl = binary.BigEndian.AppendUint32(mfroPl, uint32(8+len(tfra)+16))
		mfra := box("mfra", append(cp(tfra), box("mfro", mfroPl)...))
		file = append(file, mfra...)
	}
	out.bytes = file
	return out, nil
}

// multiTrafFragment: moof(mfhd, one traf(tfhd, tfdt) per entry of fr.trafs) + mdat, without samples yet.
func multiTrafFragment(seq uint32, fr ffFrag, nTracks int) (*mp4.Fragment, []*mp4.TrafBox, error) {
	if len(fr.slot) != len(fr.ops) {
		return nil, nil, fmt.Errorf("traf layout: %d slots for %d samples", len(fr.slot), len(fr.ops))
	}
	for i, o := range fr.ops {
		if k := fr.slot[i]; k < 0 || k >= len(fr.trafs) || fr.trafs[k] != o.track {
			return nil, nil, fmt.Errorf("traf layout: sample %d of track %d sent to traf %d", i, o.track, k)
		}
	}
	f := mp4.NewFragment()
	moof := &mp4.MoofBox{}
	f.AddChild(moof)
	_ = moof.AddChild(mp4.CreateMfhd(seq))
	var slots []*mp4.TrafBox
	for _, id := range fr.trafs {
		if id < 1 || id > nTracks {
			return nil, nil, fmt.Errorf("traf layout: no track %d", id)
		}
		traf := &mp4.TrafBox{}
		_ = moof.AddChild(traf)
		_ = traf.AddChild(mp4.CreateTfhd(uint32(id)))
		_ = traf.AddChild(&mp4.TfdtBox{})
		slots = append(slots, traf)
	}
	f.AddChild(&mp4.MdatBox{})
	return f, slots, nil
}

func decodeFF(s *ffSpec, b *ffBuilt) (*mp4.File, error) {
	var opts []mp4.Option
	var flags mp4.DecFileFlags
	if s.delim == "mfra" {
		flags |= mp4.DecISMFlag
	}
	if s.flagSOM {
		flags |= mp4.DecStartOnMoof
	}
	if flags != 0 {
		opts = append(opts, mp4.WithDecodeFlags(flags))
	}
	if s.sr {
		return mp4.DecodeFileSR(bits.NewFixedSliceReader(b.bytes), opts...)
	}
	return mp4.DecodeFile(bytes.NewReader(b.bytes), opts...)
}

// expected grouping: list of segments, each a list of moof positions
func expectedGrouping(s *ffSpec, b *ffBuilt) [][]int {
	var all []int
	for _, sg := range b.moofPos {
		all = append(all, sg...)
	}
	switch {
	case s.flagSOM && s.delim == "none": // the flag is consulted only when neither sidx nor tfra delimit the file
		var out [][]int
		for _, p := range all {
			out = append(out, []int{p})
		}
		return out
	case s.delim == "styp", s.delim == "sidx0", s.delim == "sidx1", s.delim == "mfra":
		return b.moofPos
	default:
		return [][]int{all}
	}
}

func execC12(req string) string {
	if strings.HasPrefix(req, "group ") {
		f := strings.Fields(req)
		var out string
		p := safe(func() {
			d, _ := unhx(f[3])
			var flags mp4.DecFileFlags
			if f[1] == "1" {
				flags |= mp4.DecStartOnMoof
			}
			if f[2] == "1" {
				flags |= mp4.DecISMFlag
			}
			var opts []mp4.Option
			if flags != 0 {
				opts = append(opts, mp4.WithDecodeFlags(flags))
			}
			file, err := mp4.DecodeFile(bytes.NewReader(d), opts...)
			if err != nil {
				out = "err"
				return
			}
			out = groupingString(file)
		})
		if p != "" {
			return "panic"
		}
		return out
	}
	if strings.HasPrefix(req, "usidx ") {
		var out string
		if p := safe(func() { out = execUsidx(req) }); p != "" {
			return "panic"
		}
		return out
	}
	if strings.HasPrefix(req, "upd ") {
		var out string
		p := safe(func() {
			u := parseUpd(req)
			if u == nil {
				out = "bad-request"
				return
			}
			out = updAnswer(runUpd(u))
		})
		if p != "" {
			return p
		}
		return out
	}
	if strings.HasPrefix(req, "addsidx ") { // addsidx <removeEnc><nzEPT><startSegOnMoof> | ffile ...
		var out string
		p := safe(func() {
			o := strings.Fields(req)[1]
			s := parseFF(req[strings.Index(req, "ffile "):])
			b, err := buildFF(s)
			if err != nil || len(o) != 3 {
				out = "build-err"
				return
			}
			tr, ob, err := runAddSidx(b.bytes, o[0] == '1', o[1] == '1', o[2] == '1')
			if tr.exit != 0 {
				out = "fail " + failureClass(tr)
				return
			}
			if err != nil {
				out = "no-output"
				return
			}
			var t []string
			for _, x := range topLevelBoxes(ob) {
				t = append(t, fmt.Sprintf("%s:%d", x.typ, x.size))
				if x.typ == "sidx" {
					t = append(t, hx(ob[x.start:x.start+x.size]))
				}
			}
			out = "ok " + strings.Join(t, " ")
		})
		if p != "" {
			return p
		}
		return out
	}
	var out string
	p := safe(func() {
		s := parseFF(req)
		b, err := buildFF(s)
		if err != nil {
			out = "build-err"
			return
		}
		f, err := decodeFF(s, b)
		if err != nil {
			out = "dec-err"
			return
		}
		out = groupingString(f)
	})
	if p != "" {
		return p
	}
	return out
}

// disturbIndex returns a copy of the file in which one field of one of the top-level sidx boxes is changed (box sizes
// stay as they are).
func disturbIndex(c *Ctx, b *ffBuilt) []byte {
	r := c.R
	d := cp(b.bytes)
	type loc struct{ firstOff, offLen, refs, n int }
	var boxes []loc
	for p := b.sidxPos; p < b.sidxPos+b.sidxSize; {
		sz, hl := int(binary.BigEndian.Uint32(d[p:])), 8
		if sz == 1 {
			sz, hl = int(binary.BigEndian.Uint64(d[p+8:])), 16
		}
		l := loc{firstOff: p + hl + 16, offLen: 4}
		if d[p+hl] != 0 {
			l = loc{firstOff: p + hl + 20, offLen: 8}
		}
		l.refs = l.firstOff + l.offLen + 4
		l.n = int(binary.BigEndian.Uint16(d[l.refs-2:]))
		boxes = append(boxes, l)
		p += sz
	}
	l := boxes[r.Intn(len(boxes))]
	delta := uint32(1 + r.Intn(9))
	if r.Intn(2) == 0 {
		delta = -delta
	}
	switch k := r.Intn(4); {
	case k == 0 || l.n == 0:
		at := l.firstOff + l.offLen - 4
		binary.BigEndian.PutUint32(d[at:], binary.BigEndian.Uint32(d[at:])+delta)
	case k == 1:
		at := l.refs + 12*r.Intn(l.n)
		binary.BigEndian.PutUint32(d[at:], (binary.BigEndian.Uint32(d[at:])+delta)&0x7fffffff|uint32(d[at]&0x80)<<24)
	default:
		d[l.refs+12*r.Intn(l.n)] ^= 0x80
	}
	return d
}

func groupingString(f *mp4.File) string {
	var segs []string
	for _, sg := range f.Segments {
		var fr []string
		for _, x := range sg.Fragments {
			if x.Moof != nil {
				fr = append(fr, fmt.Sprint(x.Moof.StartPos))
			} else {
				fr = append(fr, "nomoof")
			}
		}
		segs = append(segs, "["+strings.Join(fr, ",")+"]")
	}
	return strings.Join(segs, "")
}

func genFF(c *Ctx) *ffSpec {
	r := c.R
	s := &ffSpec{}
	nt := 1 + r.Intn(3)
	for i := 0; i < nt; i++ {
		s.media = append(s.media, []string{"video", "audio"}[r.Intn(2)])
	}
	s.delim = []string{"none", "styp", "sidx0", "sidx1", "mfra", "styp"}[r.Intn(6)]
	s.free = (s.delim == "sidx0" || s.delim == "sidx1") && r.Intn(3) == 0
	s.flagSOM = r.Intn(5) == 0 && s.delim != "mfra"
	s.largeMd = r.Intn(5) == 0
	s.sr = r.Intn(3) == 0 && s.delim != "mfra" // the ISM flag needs a seekable reader
	nseg := 1 + r.Intn(6)
	firstCto := int32(0)
	if r.Intn(2) == 0 {
		firstCto = 3000
	}
	first := true
	for i := 0; i < nseg; i++ {
		var sg []ffFrag
		nf := 1 + r.Intn(4)
		for k := 0; k < nf; k++ {
			fr := ffFrag{emsg: r.Intn(6) == 0}
			if s.delim == "mfra" && k == 0 {
				fr.emsg = false // tfra offsets point at the moof: an emsg in front would belong to the previous segment
			}
			nops := 1 + r.Intn(5)
			// every track gets at least one sample in the first fragment of a segment (keeps tfra/sidx semantics simple)
			for t := 1; t <= nt; t++ {
				if k == 0 || r.Intn(2) == 0 {
					for q := 0; q < 1+r.Intn(nops); q++ {
						o := fragOp{track: t, dur: uint32([]int{1000, 3000, 1024}[r.Intn(3)]), size: uint32(1 + r.Intn(30)), flags: 0x01010000}
						if q == 0 {
							o.flags = 0x02000000
						}
						if first {
							o.cto = firstCto
						}
						fr.ops = append(fr.ops, o)
					}
				}
			}
			first = false
			if len(fr.ops) == 0 {
				fr.ops = append(fr.ops, fragOp{track: 1, dur: 1000, size: 5, flags: 0x02000000})
			}
			sg = append(sg, fr)
		}
		s.segs = append(s.segs, sg)
	}
	// the sidx box itself may be larger than its minimal encoding (64-bit size header, trailing bytes)
	if s.delim == "sidx0" || s.delim == "sidx1" {
		s.sidxLg = r.Intn(4) == 0
		if r.Intn(4) == 0 {
			s.sidxPad = 1 + r.Intn(12)
		}
		// the references may be spread over several top-level sidx boxes (a box holds at most 65535 of them; indexes
		// are also written in pieces), optionally below a parent index
		if r.Intn(3) == 0 {
			splitSidx(c, s, 2+r.Intn(3), r.Intn(3) == 0)
		}
	}
	return s
}

// splitSidx spreads the segments of s over k top-level sidx boxes (each gets at least one while segments last; now
// and then one box stays empty), adding segments (copies of drawn ones) so that boxes list several references.
func splitSidx(c *Ctx, s *ffSpec, k int, hier bool) {
	r := c.R
	s.split, s.hier = nil, hier
	tot := 0
	for j := 0; j < k; j++ {
		n := 1 + r.Intn(3)
		if r.Intn(8) == 0 {
			n = 0
		}
		s.split = append(s.split, n)
		tot += n
	}
	if tot == 0 {
		s.split[k-1], tot = 2, 2
	}
	for len(s.segs) > tot {
		s.segs = s.segs[:len(s.segs)-1]
	}
	for len(s.segs) < tot {
		src := s.segs[r.Intn(len(s.segs))]
		nf := 1 + r.Intn(2)
		if nf > len(src) {
			nf = len(src)
		}
		sg := make([]ffFrag, nf)
		copy(sg, src[:nf])
		if sg[0].ops[0].cto != 0 { // only the very first sample of the file carries the composition offset
			ops := append([]fragOp(nil), sg[0].ops...)
			for i := range ops {
				ops[i].cto = 0
			}
			sg[0].ops = ops
		}
		s.segs = append(s.segs, sg)
	}
}

// drawTrafs: the samples of the fragments of s (mode 0: about two thirds of them, 1: every one, 2: the last one of
// every segment, 3: the first one of every segment) are laid out in several traf boxes per track - 2..3 for the
// reference track, 1..2 for every other one, the boxes of the tracks in any order in the moof - and (half of the
// time) the samples of the tracks are interleaved in the mdat, so that a traf gets several truns. A track's samples
// stay in order: its trafs get consecutive runs of them, every traf at least one while samples last (trafs beyond
// that stay without trun). Durations, sizes and times of the samples are untouched: what the index has to say about
// the file does not change.
func drawTrafs(c *Ctx, s *ffSpec, mode int) {
	r := c.R
	nt := len(s.media)
	ref := 1
	for i := nt - 1; i >= 0; i-- {
		if s.media[i] == "audio" {
			ref = i + 1
		}
	}
	for i := nt - 1; i >= 0; i-- {
		if s.media[i] == "video" {
			ref = i + 1
		}
	}
	for si := range s.segs {
		for fi := range s.segs[si] {
			fr := s.segs[si][fi]
			switch {
			case mode == 0 && r.Intn(3) == 0, mode == 2 && fi != len(s.segs[si])-1, mode == 3 && fi != 0:
				continue
			}
			per := make([][]fragOp, nt+1)
			for _, o := range fr.ops {
				per[o.track] = append(per[o.track], o)
			}
			// the samples in the mdat: as drawn (track after track), or the tracks interleaved
			ops := append([]fragOp(nil), fr.ops...)
			if r.Intn(2) == 0 {
				ops = ops[:0]
				at := make([]int, nt+1)
				for left := len(fr.ops); left > 0; left-- {
					k := r.Intn(left)
					for t := 1; t <= nt; t++ {
						if rest := len(per[t]) - at[t]; k < rest {
							ops = append(ops, per[t][at[t]])
							at[t]++
							break
						} else {
							k -= rest
						}
					}
				}
			}
			// the traf boxes of the moof
			var trafs []int
			for t := 1; t <= nt; t++ {
				k := 1 + r.Intn(2)
				if t == ref {
					k = 2 + r.Intn(2)
				}
				for ; k > 0; k-- {
					trafs = append(trafs, t)
				}
			}
			r.Shuffle(len(trafs), func(i, j int) { trafs[i], trafs[j] = trafs[j], trafs[i] })
			// per track: which of its trafs (in moof order) gets the i-th of its samples
			slotOf := make([][]int, nt+1)
			for t := 1; t <= nt; t++ {
				var mine []int
				for k, id := range trafs {
					if id == t {
						mine = append(mine, k)
					}
				}
				n, k := len(per[t]), len(mine)
				if k > n {
					k = n
				}
				// k-1 distinct cut points in 1..n-1
				cut := map[int]bool{}
				for len(cut) < k-1 {
					cut[1+r.Intn(n-1)] = true
				}
				cur := 0
				for i := 0; i < n; i++ {
					if cut[i] {
						cur++
					}
					slotOf[t] = append(slotOf[t], mine[cur])
				}
			}
			seen := make([]int, nt+1)
			slot := make([]int, len(ops))
			for i, o := range ops {
				slot[i] = slotOf[o.track][seen[o.track]]
				seen[o.track]++
			}
			s.segs[si][fi] = ffFrag{emsg: fr.emsg, ops: ops, trafs: trafs, slot: slot}
		}
	}
}

func genC12(c *Ctx) {
	defer func() {
		if eptObserved > 0 {
			c.Note(fmt.Sprintf("%d index outputs carry an earliest presentation time that differs from the first presentation time of the reference track (outside the statement of C12: observed, not failed; with several trafs of the reference track in one moof UpdateSidx takes the times of the last one)", eptObserved))
		}
	}()
	nPlain := c.N(600, 12000)
	for it := 0; it < nPlain+c.N(90, 1800); it++ {
		s := genFF(c)
		if it >= nPlain {
			// fragments with several traf boxes per track; the first ones of the run: every fragment / the last / the
			// first of every segment, with every delimiter kind
			if k := it - nPlain; k < 18 {
				s.delim = []string{"none", "styp", "sidx0", "sidx1", "mfra", "styp"}[k%6]
				s.free, s.flagSOM, s.sidxLg, s.sidxPad, s.split, s.hier = false, false, false, 0, nil, false
				if s.delim == "mfra" {
					s.sr = false
					for si := range s.segs {
						s.segs[si][0].emsg = false
					}
				}
				drawTrafs(c, s, 1+k/6)
			} else {
				drawTrafs(c, s, 0)
			}
		}
		if it < 24 {
			// boundary members of the family "sidx-delimited file": every combination of sidx version, header
			// form, trailing bytes, free box behind it, and decoder, on an otherwise random layout
			s.delim = []string{"sidx0", "sidx1"}[it%2]
			s.sidxLg = []bool{true, false, true}[it/2%3]
			s.sidxPad = []int{0, 4, 8}[it/2%3]
			s.sr = it/6%2 == 1
			s.free = it/12%2 == 1
			s.flagSOM = false
			s.split, s.hier = nil, false
		} else if it < 24+36 {
			// boundary members of the family "references spread over several top-level sidx boxes": 2, 3 or 4 boxes,
			// with/without a parent index, both versions, both decoders, with/without the free box and the flag
			k := it - 24
			s.delim = []string{"sidx0", "sidx1"}[k%2]
			s.sr = k/2%2 == 1
			s.free = k/12%3 == 1
			s.flagSOM = k/12%3 == 2
			s.sidxLg, s.sidxPad = k%7 == 3, []int{0, 0, 0, 5}[k%4]
			splitSidx(c, s, 2+k/4%3, k%3 == 2)
		}
		req := s.line()
		key := ""
		if len(s.segs) >= 2 {
			key = req
		}
		c.Eval(key)
		c.Count("delim=" + s.delim)
		if len(s.split) > 0 {
			c.Count(fmt.Sprintf("top-level sidx boxes=%d parent=%v", len(s.split), s.hier))
		}
		if s.flagSOM {
			c.Count("startOnMoof")
		}
		if it >= nPlain {
			c.Count("several trafs per track in a moof")
		}
		if len(c.St.Samples) < 3 {
			c.Sample(req)
		}
		fail := func(kind, what, got, exp string) { c.Fail("C12-"+kind, what, req, clip(got), clip(exp)) }
		p := safe(func() {
			b, err := buildFF(s)
			if err != nil {
				fail("build", "cannot build file", err.Error(), "")
				return
			}
			f, err := decodeFF(s, b)
			if err != nil {
				fail("decode", "generated fragmented file does not decode", err.Error(), "")
				return
			}
			// model correspondence on the grouping (small files only), with and without the flags
			if len(b.bytes) < 6000 {
				for _, som := range []string{"0", "1"} {
					ism := b01(s.delim == "mfra")
					q := fmt.Sprintf("group %s %s %s", som, ism, hx(b.bytes))
					c.Case(q, execC12(q))
				}
				// the same file with its index disturbed (a reference's type bit flipped, a referenced size or a
				// first_offset changed): no expectation of its own, the grouping rule of model and code is compared
				if b.nSidx > 0 {
					for m := 0; m < 2; m++ {
						q := fmt.Sprintf("group 0 0 %s", hx(disturbIndex(c, b)))
						c.Case(q, execC12(q))
					}
				}
			}
			// (1) grouping
			got := groupingString(f)
			var ws []string
			for _, sg := range expectedGrouping(s, b) {
				var x []string
				for _, p := range sg {
					x = append(x, fmt.Sprint(p))
				}
				ws = append(ws, "["+strings.Join(x, ",")+"]")
			}
			want := strings.Join(ws, "")
			// empty segments (styp + start-on-moof) are tolerated: compare the non-empty ones
			gotNE := strings.ReplaceAll(got, "[]", "")
			if s.flagSOM && s.delim == "styp" {
				// delimiters are both styp and moof: every moof starts a segment
				var x []string
				for _, sg := range b.moofPos {
					for _, p := range sg {
						x = append(x, fmt.Sprintf("[%d]", p))
					}
				}
				want = strings.Join(x, "")
			}
			if gotNE != want {
				fp := "grouping"
				if strings.Contains(got, "nomoof") {
					fp = "grouping-emsg-startonmoof"
				}
				fail(fp, "moof/mdat pairs are not grouped into segments according to the delimiters present", got, want)
			}
			// mdat follows its moof
			for _, sg := range f.Segments {
				for _, fr := range sg.Fragments {
					if fr.Moof != nil && fr.Mdat != nil && fr.Mdat.StartPos != fr.Moof.StartPos+fr.Moof.Size() {
						fail("pairing", "a fragment's mdat is not the box following its moof", fmt.Sprint(fr.Mdat.StartPos), fmt.Sprint(fr.Moof.StartPos+fr.Moof.Size()))
					}
				}
			}
			// (2) segment-mode encode = input minus top-level boxes that are neither init nor segment boxes (the free box)
			var eb bytes.Buffer
			if err := f.Encode(&eb); err != nil {
				fp := "segment-encode"
				if strings.Contains(err.Error(), "moof not set") {
					fp = "segment-encode-emsg-startonmoof"
				}
				fail(fp, "segment-mode encoding of the decoded file fails", err.Error(), "")
			} else {
				want := b.bytes
				if s.free {
					// the free box after the sidx is not a segment box: dropped in segment mode
					idx := bytes.Index(want, box("free", []byte{1, 2, 3, 4, 5}))
					want = append(cp(want[:idx]), want[idx+13:]...)
				}
				if s.sidxLg || s.sidxPad > 0 {
					// a sidx that occupies more bytes than its minimal encoding is neither an init box nor a fragment:
					// the init boxes in front of it and every fragment behind it must come out byte-identically and
					// in order, with exactly the sidx boxes (as many as were read, in whatever encoding) in between
					pre, post, got := b.bytes[:b.sidxPos], b.bytes[b.segStart[0]:b.mediaEnd], eb.Bytes()
					okMid := false
					if len(got) >= len(pre)+len(post)+8 && bytes.HasPrefix(got, pre) && bytes.HasSuffix(got, post) {
						mid := got[len(pre) : len(got)-len(post)]
						n := 0
						for len(mid) >= 8 {
							sz := uint64(binary.BigEndian.Uint32(mid))
							if sz == 1 && len(mid) >= 16 {
								sz = binary.BigEndian.Uint64(mid[8:])
							}
							if string(mid[4:8]) != "sidx" || sz < 8 || sz > uint64(len(mid)) {
								break
							}
							mid = mid[sz:]
							n++
						}
						okMid = len(mid) == 0 && n == b.nSidx
					}
					if !okMid {
						fail("segment-identity", "segment-mode re-encoding does not reproduce the init and every fragment byte-identically and in order (around a non-minimal sidx)", fmt.Sprintf("len %d", len(got)), fmt.Sprintf("init %d bytes + %d sidx + fragments %d bytes", len(pre), b.nSidx, len(post)))
					}
				} else if !bytes.Equal(eb.Bytes(), want) {
					fail("segment-identity", "segment-mode re-encoding does not reproduce the init and every fragment byte-identically and in order", fmt.Sprintf("len %d", eb.Len()), fmt.Sprintf("len %d", len(want)))
				}
			}
			// (3) UpdateSidx + encode: tiling
			for _, variant := range [][2]bool{{true, false}, {true, true}} {
				f2, err := decodeFF(s, b)
				if err != nil {
					return
				}
				if s.flagSOM && (s.delim == "none" || s.delim == "styp") {
					continue // segments = fragments there; the tiling is covered by the other cases
				}
				if err := f2.UpdateSidx(variant[0], variant[1]); err != nil {
					fail("updatesidx", "UpdateSidx fails", err.Error(), "")
					continue
				}
				var ob bytes.Buffer
				if err := f2.Encode(&ob); err != nil {
					fail("updatesidx-encode", "encode after UpdateSidx fails", err.Error(), "")
					continue
				}
				checkSidxTiling(c, req, s, b, ob.Bytes(), variant[1])
			}
		})
		if p != "" {
			fail("panic", "panic: "+p, p, "")
		}
	}
	genAddSidx(c)
	genUpd(c)
}

// independent check of the written index against the written media
func checkSidxTiling(c *Ctx, req string, s *ffSpec, b *ffBuilt, out []byte, nonZeroEPT bool) {
	fail := func(kind, what, got, exp string) { c.Fail("C12-"+kind, what, req, clip(got), clip(exp)) }
	var bx []rawBox
	walkBoxes(out, 0, "", &bx)
	var top []rawBox
	for _, x := range bx {
		if strings.Count(x.path, "/") == 1 {
			top = append(top, x)
		}
	}
	// locate the first top-level sidx and the segment starts in the OUTPUT
	var sidx *rawBox
	for i := range top {
		if top[i].typ == "sidx" {
			sidx = &top[i]
			break
		}
	}
	if sidx == nil {
		fail("sidx-missing", "no top-level sidx in the output after UpdateSidx(addIfNotExists=true)", "", "")
		return
	}
	// segments in output: same sequence of segment boxes as the input => positions from sizes
	expSegs := expectedGrouping(s, b)
	if s.delim == "none" {
		expSegs = [][]int{nil}
	}
	// find first media box after init/sidx
	var mediaStart int
	for _, x := range top {
		if x.typ == "styp" || x.typ == "moof" || x.typ == "emsg" {
			mediaStart = x.start
			break
		}
	}
	var segStart, segSize []int
	if s.delim == "none" {
		segStart = []int{mediaStart}
		end := 0
		for _, x := range top {
			if x.typ == "mdat" {
				end = x.start + x.size
			}
		}
		segSize = []int{end - mediaStart}
	} else {
		pos := mediaStart
		for _, sz := range b.segSize {
			segStart = append(segStart, pos)
			segSize = append(segSize, sz)
			pos += sz
		}
	}
	_ = expSegs
	d := out[sidx.start : sidx.start+sidx.size]
	ver := d[8]
	p := 12
	refID := binary.BigEndian.Uint32(d[p:])
	p += 8
	var ept, firstOff uint64
	if ver == 0 {
		ept = uint64(binary.BigEndian.Uint32(d[p:]))
		firstOff = uint64(binary.BigEndian.Uint32(d[p+4:]))
		p += 8
	} else {
		ept = binary.BigEndian.Uint64(d[p:])
		firstOff = binary.BigEndian.Uint64(d[p+8:])
		p += 16
	}
	p += 2
	n := int(binary.BigEndian.Uint16(d[p:]))
	p += 2
	_ = refID
	if n != len(segStart) {
		fail("sidx-count", "number of sidx references != number of segments", fmt.Sprint(n), fmt.Sprint(len(segStart)))
		return
	}
	off := sidx.start + sidx.size + int(firstOff)
	for i := 0; i < n; i++ {
		sz := int(binary.BigEndian.Uint32(d[p:]) & 0x7fffffff)
		dur := uint64(binary.BigEndian.Uint32(d[p+4:]))
		p += 12
		if off != segStart[i] {
			fail("sidx-offset", fmt.Sprintf("sidx reference %d does not start at the first byte of its segment", i), fmt.Sprint(off), fmt.Sprint(segStart[i]))
			return
		}
		if sz != segSize[i] {
			fail("sidx-size", fmt.Sprintf("sidx reference %d size != size of its segment", i), fmt.Sprint(sz), fmt.Sprint(segSize[i]))
			return
		}
		wantDur := b.refDur[i]
		if s.delim == "none" {
			wantDur = 0
			for _, x := range b.refDur {
				wantDur += x
			}
		}
		if dur != wantDur {
			fail("sidx-duration", fmt.Sprintf("sidx reference %d duration != summed sample durations of the reference track", i), fmt.Sprint(dur), fmt.Sprint(wantDur))
		}
		off += sz
	}
	lastEnd := segStart[n-1] + segSize[n-1]
	if off != lastEnd {
		fail("sidx-end", "sidx references do not end at the end of the media", fmt.Sprint(off), fmt.Sprint(lastEnd))
	}
	wantEPT := uint64(0)
	if nonZeroEPT {
		wantEPT = b.refEPT
	}
	if ept != wantEPT {
		eptObserved++ // the property statement says nothing about the VALUE of the earliest presentation time: counted, not failed
	}
}

// ---------- trafs that really carry sample encryption boxes

// addEncBoxes gives the trafs of the tracks marked in s.enc the sample auxiliary information boxes of a protected
// track: saiz + saio + senc (8-byte IVs, optionally one sub-sample entry per sample) or a PIFF uuid-senc box.
// The init segment stays clear ("clear content with left-over encryption boxes", the documented input of
// add-sidx -removeEnc), so the decoder carries the boxes along unparsed.
func addEncBoxes(s *ffSpec, f *mp4.Fragment, fr ffFrag) error {
	seq := f.Moof.Mfhd.SequenceNumber
	for ti := range s.media {
		kind := s.enc[ti]
		if kind == '-' {
			continue
		}
		var sizes []uint32
		for _, o := range fr.ops {
			if o.track == ti+1 {
				sizes = append(sizes, o.size)
			}
		}
		if len(sizes) == 0 {
			continue
		}
		var traf *mp4.TrafBox
		for _, t := range f.Moof.Trafs {
			if int(t.Tfhd.TrackID) == ti+1 {
				traf = t
			}
		}
		if traf == nil {
			return fmt.Errorf("no traf for track %d", ti+1)
		}
		iv := func(k int) []byte {
			return []byte{byte(ti + 1), byte(seq >> 8), byte(seq), byte(k), 0xa5, 0x5a, byte(k * 7), 1}
		}
		switch kind {
		case 'c', 's':
			saiz, saio, senc := mp4.NewSaizBox(len(sizes)), mp4.NewSaioBox(), mp4.NewSencBox(len(sizes), len(sizes))
			for k, sz := range sizes {
				var pat []mp4.SubSamplePattern
				if kind == 's' {
					clear := uint32(3)
					if sz < clear {
						clear = sz
					}
					pat = []mp4.SubSamplePattern{{BytesOfClearData: uint16(clear), BytesOfProtectedData: sz - clear}}
				}
				if err := senc.AddSample(mp4.SencSample{IV: iv(k), SubSamples: pat}); err != nil {
					return err
				}
				saiz.AddSampleInfo(iv(k), pat)
			}
			for _, bx := range []mp4.Box{saiz, saio, senc} {
				if err := traf.AddChild(bx); err != nil {
					return err
				}
			}
		case 'u':
			pl, _ := unhx("a2394f525a9b4f14a2446c427c648df4")
			pl = append(pl, 0, 0, 0, 0)
			pl = binary.BigEndian.AppendUint32(pl, uint32(len(sizes)))
			for k := range sizes {
				pl = append(pl, iv(k)...)
			}
			bx, err := mp4.DecodeBox(0, bytes.NewReader(box("uuid", pl)))
			if err != nil {
				return err
			}
			if err := traf.AddChild(bx); err != nil {
				return err
			}
		default:
			return fmt.Errorf("bad enc kind %q", kind)
		}
	}
	// saio: offset of the first IV relative to the first byte of the moof
	off := uint64(8)
	for _, ch := range f.Moof.Children {
		if traf, ok := ch.(*mp4.TrafBox); ok && traf.Saio != nil {
			toff := off + 8
			for _, tc := range traf.Children {
				if tc.Type() == "senc" {
					traf.Saio.SetOffset(int64(toff + 16))
				}
				toff += tc.Size()
			}
		}
		off += ch.Size()
	}
	return nil
}

// ---------- examples/add-sidx (property anchor): UpdateSidx applied to files on disk, with the tool's options

type addSidxJob struct {
	s           *ffSpec
	b           *ffBuilt
	rm, nz, som bool
	req         string
	tr          toolResult
	out         []byte
	err         error
}

func addSidxLine(s *ffSpec, rm, nz, som bool) string {
	return fmt.Sprintf("addsidx %s%s%s | %s", b01(rm), b01(nz), b01(som), s.line())
}

// runAddSidx writes the input, runs `add-sidx [options] in.mp4 out.mp4` and reads the written file.
func runAddSidx(in []byte, rm, nz, som bool) (toolResult, []byte, error) {
	dir, done := scratchDir("as")
	defer done()
	inP, outP := filepath.Join(dir, "in.mp4"), filepath.Join(dir, "out.mp4")
	if err := os.WriteFile(inP, in, 0o644); err != nil {
		return toolResult{exit: -1, stderr: err.Error()}, nil, nil
	}
	var args []string
	if rm {
		args = append(args, "-removeEnc")
	}
	if nz {
		args = append(args, "-nzEPT")
	}
	if som {
		args = append(args, "-startSegOnMoof")
	}
	tr := runTool("add-sidx", dir, append(args, inP, outP)...)
	if tr.exit != 0 {
		return tr, nil, nil
	}
	out, err := os.ReadFile(outP)
	return tr, out, err
}

type toolSeg struct {
	firstBox int    // ordinal, among the top-level media boxes (styp, emsg, moof, mdat), of the segment's first box
	dur      uint64 // summed sample durations of the reference track
}

// addSidxSegments: the segments of the generated file as the tool's documentation defines them ("identified by styp
// boxes if they exist, otherwise by the start of moof or emsg boxes", every moof with -startSegOnMoof; an existing
// top-level sidx delimits as in the library), as ordinals of top-level media boxes so that they can be located in
// the written file whatever happens to the box sizes. ok=false: combination without a defined partition.
func addSidxSegments(s *ffSpec, b *ffBuilt, som bool) (segs []toolSeg, nBoxes int, ok bool) {
	sidx := s.delim == "sidx0" || s.delim == "sidx1"
	if som && s.delim == "styp" {
		return nil, 0, false // two kinds of delimiters at once: styp-only segments without fragments
	}
	perFrag := som && !sidx
	ord := 0
	for si, sg := range s.segs {
		segOrd := -1
		if s.delim == "styp" {
			segOrd = ord
			ord++
		}
		for fi, fr := range sg {
			first := ord
			if fr.emsg {
				ord++
			}
			ord += 2
			if perFrag {
				segs = append(segs, toolSeg{first, b.fragRefDur[si][fi]})
			} else if segOrd < 0 {
				segOrd = first
			}
		}
		if !perFrag {
			segs = append(segs, toolSeg{segOrd, b.refDur[si]})
		}
	}
	if !perFrag && !sidx && s.delim != "styp" {
		all := toolSeg{firstBox: 0}
		for _, x := range segs {
			all.dur += x.dur
		}
		segs = []toolSeg{all}
	}
	return segs, ord, true
}

func isMediaBox(t string) bool { return t == "styp" || t == "emsg" || t == "moof" || t == "mdat" }

func topLevelBoxes(d []byte) []rawBox {
	var bx, top []rawBox
	walkBoxes(d, 0, "", &bx)
	for _, x := range bx {
		if strings.Count(x.path, "/") == 1 {
			top = append(top, x)
		}
	}
	return top
}

// checkAddSidx: the written index against the written media, from the bytes of the output file alone.
func checkAddSidx(c *Ctx, j *addSidxJob) {
	fail := func(kind, what, got, exp string) { c.Fail("C12-addsidx-"+kind, what, j.req, clip(got), clip(exp)) }
	opt := fmt.Sprintf("removeEnc=%v startSegOnMoof=%v", j.rm, j.som)
	if j.tr.exit != 0 {
		c.Eval("")
		c.Count("add-sidx tool-failure: " + failureClass(j.tr))
		noteFirst(c, "add-sidx tool-failure: "+failureClass(j.tr), j.req)
		return
	}
	if j.err != nil {
		c.Eval("")
		fail("output-missing", "the tool succeeded but its output file cannot be read", j.err.Error(), "")
		return
	}
	segs, nBoxes, ok := addSidxSegments(j.s, j.b, j.som)
	if !ok {
		c.Eval("")
		c.Count("add-sidx skipped: styp and -startSegOnMoof together")
		return
	}
	c.Eval(j.req)
	c.Count("add-sidx outcome: success " + opt)
	c.Count(fmt.Sprintf("add-sidx input: delim=%s encBoxes=%v segments<=%d", j.s.delim, strings.Trim(j.s.enc, "-") != "", bucket(len(segs), []int{1, 2, 5, 30})))
	in, out := j.b.bytes, j.out
	var inMedia, outMedia []rawBox
	for _, x := range topLevelBoxes(in[:j.b.mediaEnd]) {
		if isMediaBox(x.typ) {
			inMedia = append(inMedia, x)
		}
	}
	var sidx *rawBox
	nSidx := 0
	outTop := topLevelBoxes(out)
	for i, x := range outTop {
		if isMediaBox(x.typ) {
			outMedia = append(outMedia, x)
		}
		if x.typ == "sidx" {
			nSidx++
			if sidx == nil {
				sidx = &outTop[i]
			}
		}
	}
	if n := len(outTop); n == 0 || outTop[n-1].start+outTop[n-1].size != len(out) {
		fail("output-boxes", "the written file is not a sequence of complete top-level boxes", fmt.Sprint(len(out)), "")
		return
	}
	if len(inMedia) != nBoxes {
		fail("harness", "harness: media box count of the generated input differs from its specification", fmt.Sprint(len(inMedia)), fmt.Sprint(nBoxes))
		return
	}
	// every fragment is written, in order; without -removeEnc byte-identically, with it at least the media data
	seq := func(l []rawBox) string {
		var t []string
		for _, x := range l {
			t = append(t, x.typ)
		}
		return strings.Join(t, " ")
	}
	if seq(inMedia) != seq(outMedia) {
		fail("media-boxes", "the written file does not carry the input's segment boxes in order", seq(outMedia), seq(inMedia))
		return
	}
	if len(outMedia) == 0 || !bytes.Equal(out[:j.b.initLen], in[:j.b.initLen]) {
		fail("identity", "the init boxes are not written byte-identically", "", "")
		return
	}
	for k := range inMedia {
		a, o := inMedia[k], outMedia[k]
		if (!j.rm || a.typ != "moof") && !bytes.Equal(in[a.start:a.start+a.size], out[o.start:o.start+o.size]) {
			fail("identity", fmt.Sprintf("media box %d (%s) is not written byte-identically (%s)", k, a.typ, opt), fmt.Sprintf("len %d", o.size), fmt.Sprintf("len %d", a.size))
			return
		}
	}
	if sidx == nil || nSidx != 1 || sidx.start+sidx.size > outMedia[0].start {
		fail("sidx-missing", "not exactly one top-level sidx in front of the media in the written file", fmt.Sprint(nSidx), "1")
		return
	}
	mediaEnd := outMedia[len(outMedia)-1].start + outMedia[len(outMedia)-1].size
	d := out[sidx.start+sidx.hl : sidx.start+sidx.size]
	if len(d) < 24 {
		fail("sidx-short", "written sidx too short", fmt.Sprint(len(d)), "")
		return
	}
	ver := d[0]
	p := 12
	var ept, firstOff uint64
	if ver == 0 {
		ept, firstOff = uint64(binary.BigEndian.Uint32(d[p:])), uint64(binary.BigEndian.Uint32(d[p+4:]))
		p += 8
	} else {
		if len(d) < 32 {
			fail("sidx-short", "written sidx too short", fmt.Sprint(len(d)), "")
			return
		}
		ept, firstOff = binary.BigEndian.Uint64(d[p:]), binary.BigEndian.Uint64(d[p+8:])
		p += 16
	}
	n := int(binary.BigEndian.Uint16(d[p+2:]))
	p += 4
	if len(d) < p+12*n {
		fail("sidx-short", "written sidx shorter than its reference count demands", fmt.Sprint(len(d)), fmt.Sprint(p+12*n))
		return
	}
	if n != len(segs) {
		fail("sidx-count", "number of sidx references != number of segments ("+opt+")", fmt.Sprint(n), fmt.Sprint(len(segs)))
		return
	}
	off := sidx.start + sidx.size + int(firstOff)
	for i := 0; i < n; i++ {
		sz := int(binary.BigEndian.Uint32(d[p:]) & 0x7fffffff)
		dur := uint64(binary.BigEndian.Uint32(d[p+4:]))
		p += 12
		start := outMedia[segs[i].firstBox].start
		end := mediaEnd
		if i+1 < n {
			end = outMedia[segs[i+1].firstBox].start
		}
		if off != start {
			fail("sidx-offset", fmt.Sprintf("sidx reference %d of %d does not start at the first byte of its segment in the written file (%s)", i, n, opt), fmt.Sprint(off), fmt.Sprint(start))
			return
		}
		if sz != end-start {
			fail("sidx-size", fmt.Sprintf("sidx reference %d of %d: size != size of its segment in the written file (%s)", i, n, opt), fmt.Sprint(sz), fmt.Sprint(end-start))
			return
		}
		if dur != segs[i].dur {
			fail("sidx-duration", fmt.Sprintf("sidx reference %d duration != summed sample durations of the reference track (%s)", i, opt), fmt.Sprint(dur), fmt.Sprint(segs[i].dur))
		}
		off += sz
	}
	if off != mediaEnd {
		fail("sidx-end", "sidx references do not end at the end of the written media ("+opt+")", fmt.Sprint(off), fmt.Sprint(mediaEnd))
	}
	wantEPT := uint64(0)
	if j.nz {
		wantEPT = j.b.refEPT
	}
	if ept != wantEPT {
		eptObserved++ // the property statement says nothing about the VALUE of the earliest presentation time: counted, not failed
	}
}

// genAddSidx: generated fragmented files (the family of genFF, a share of them with encryption boxes in the trafs
// of some or all tracks) x the tool's options.
func genAddSidx(c *Ctx) {
	if _, err := os.Stat(toolPath("add-sidx")); err != nil {
		c.Note("tool binary missing: " + toolPath("add-sidx") + " (set VERIF_BUILD; package ./examples/add-sidx)")
		c.Fail("C12-tool-missing", "the built add-sidx binary was not found", toolPath("add-sidx"), err.Error(), "")
		return
	}
	scratchRoot = absScratch(c, "c12work")
	defer os.RemoveAll(scratchRoot)
	r := c.R
	var jobs []*addSidxJob
	nPlain := c.N(160, 2500)
	for it := 0; it < nPlain+c.N(24, 400); it++ {
		s := genFF(c)
		if s.delim == "mfra" {
			s.delim = "none" // the tool does not decode with the ISM flag: a trailing mfra box is no delimiter
		}
		s.sr, s.flagSOM = false, false
		s.split, s.hier = nil, false // the tool is run on files with at most one index box
		if it >= nPlain {
			drawTrafs(c, s, it%2) // several traf boxes per track (without encryption boxes: they describe one traf per track)
		} else if r.Intn(4) > 0 {
			e := make([]byte, len(s.media))
			for i := range e {
				e[i] = "-ccsu"[r.Intn(5)]
			}
			if strings.Trim(string(e), "-") == "" {
				e[r.Intn(len(e))] = "csu"[r.Intn(3)]
			}
			s.enc = string(e)
		}
		b, err := buildFF(s)
		if err != nil {
			c.Fail("C12-build", "cannot build file", s.line(), err.Error(), "")
			continue
		}
		hasEnc := s.enc != ""
		for k := 0; k < 2; k++ {
			j := &addSidxJob{s: s, b: b, nz: r.Intn(2) == 0, som: r.Intn(3) == 0 && s.delim != "styp"}
			if hasEnc {
				j.rm = k == 0 || r.Intn(2) == 0
			} else {
				j.rm = r.Intn(4) == 0
			}
			j.req = addSidxLine(s, j.rm, j.nz, j.som)
			jobs = append(jobs, j)
		}
	}
	parallelDo(len(jobs), func(i int) {
		j := jobs[i]
		j.tr, j.out, j.err = runAddSidx(j.b.bytes, j.rm, j.nz, j.som)
	})
	for _, j := range jobs {
		checkAddSidx(c, j)
		if len(c.St.Samples) < 5 && j.tr.exit == 0 {
			c.Sample(j.req)
		}
	}
}

// ---------- histories: a decoded (or API-assembled) file is modified through the public API, then UpdateSidx + Encode
//
// upd <dec|api> <seg|tree> <w|sw> <add><nz> <ops|-> | ffile ...
//   dec: the generated bytes are decoded; api: the same boxes (library objects) are handed to File.AddChild one by one,
//   the way examples/resegmenter assembles its output. seg|tree: FragEncMode. w|sw: Encode / EncodeSW.
//   ops (comma separated, kind:segment:fragment:argument, indices into the decoded partition):
//     ae:s:f:l1+l2..   Fragment.AddEmsg, one emsg per length (message data bytes)
//     ac:s:f:T.len     Fragment.AddChild of an emsg (T=e), free (T=f) or skip (T=k) box
//     af:s:0:L/t.d.z+… MediaSegment.AddFragment of a new fragment: L = boxes put in front of its moof with AddChild
//                      (p prft, e emsg, - none), samples track.duration.size
//     as:0:0:S         File.AddMediaSegment of a new empty segment, S=1 with styp (NewMediaSegment)
//     st:s:0:-         the segment gets a styp box (field Styp)
// The oracle reads the written bytes only: top-level boxes from the independent walker, the index = first top-level
// sidx, segment i = the next nbox[i] media boxes.

type updOp struct {
	kind      string
	seg, frag int
	arg       string
}

type updSpec struct {
	s       *ffSpec
	src     string
	tree    bool
	late    bool // box-tree mode chosen after UpdateSidx (FragEncMode is a field of File) instead of before
	sw      bool
	add, nz bool
	ops     []updOp
}

func (u *updSpec) line() string {
	var o []string
	for _, x := range u.ops {
		o = append(o, fmt.Sprintf("%s:%d:%d:%s", x.kind, x.seg, x.frag, x.arg))
	}
	ops := "-"
	if len(o) > 0 {
		ops = strings.Join(o, ",")
	}
	mode, wr := "seg", "w"
	if u.tree {
		mode = "tree"
		if u.late {
			mode = "treel"
		}
	}
	if u.sw {
		wr = "sw"
	}
	return fmt.Sprintf("upd %s %s %s %s%s %s | %s", u.src, mode, wr, b01(u.add), b01(u.nz), ops, u.s.line())
}

func parseUpd(req string) *updSpec {
	i := strings.Index(req, "ffile ")
	if i < 0 {
		return nil
	}
	w := strings.Fields(req[:i])
	if len(w) < 6 || len(w[4]) != 2 {
		return nil
	}
	u := &updSpec{s: parseFF(req[i:]), src: w[1], tree: strings.HasPrefix(w[2], "tree"), late: w[2] == "treel", sw: w[3] == "sw", add: w[4][0] == '1', nz: w[4][1] == '1'}
	if w[5] != "-" {
		for _, o := range strings.Split(w[5], ",") {
			x := strings.SplitN(o, ":", 4)
			if len(x) != 4 {
				return nil
			}
			u.ops = append(u.ops, updOp{x[0], atoi(x[1]), atoi(x[2]), x[3]})
		}
	}
	return u
}

// mseg: what the harness knows of one media segment: how many top-level boxes it is written as, how many fragments
// it holds, the summed sample durations of the reference track.
type mseg struct {
	nbox, nfrag int
	styp        bool
	dur         uint64
}

// expectedMsegs: the partition of the generated file (the delimiters present decide, as in expectedGrouping).
// b == nil: shape only (durations 0). ok=false: combination without a defined partition (styp and start-on-moof).
func expectedMsegs(s *ffSpec, b *ffBuilt) (segs []mseg, ok bool) {
	if s.flagSOM && s.delim == "styp" {
		return nil, false
	}
	perFrag := s.flagSOM && s.delim == "none"
	for si, sg := range s.segs {
		cur := mseg{}
		if s.delim == "styp" {
			cur.nbox, cur.styp = 1, true
		}
		for fi, fr := range sg {
			n, d := 2, uint64(0)
			if fr.emsg {
				n++
			}
			if b != nil {
				d = b.fragRefDur[si][fi]
			}
			if perFrag {
				segs = append(segs, mseg{nbox: n, nfrag: 1, dur: d})
			} else {
				cur.nbox, cur.nfrag, cur.dur = cur.nbox+n, cur.nfrag+1, cur.dur+d
			}
		}
		if !perFrag {
			segs = append(segs, cur)
		}
	}
	if !perFrag && s.delim == "none" {
		all := mseg{}
		for _, x := range segs {
			all.nbox, all.nfrag, all.dur = all.nbox+x.nbox, all.nfrag+x.nfrag, all.dur+x.dur
		}
		segs = []mseg{all}
	}
	return segs, true
}

func updEmsg(n, id int) *mp4.EmsgBox {
	return &mp4.EmsgBox{Version: byte(n % 2), TimeScale: 90000, PresentationTimeDelta: 3, PresentationTime: 7, EventDuration: 11, ID: uint32(id), SchemeIDURI: "urn:z", Value: "2", MessageData: bytes.Repeat([]byte{0x5a}, n)}
}

// assembleFF hands the boxes of the generated file to File.AddChild one by one (positions 0, as the resegmenter does).
func assembleFF(s *ffSpec, b *ffBuilt) *mp4.File {
	f := mp4.NewFile()
	f.AddChild(b.init.Ftyp, 0)
	f.AddChild(b.init.Moov, 0)
	for si := range s.segs {
		if s.delim == "styp" {
			f.AddChild(mp4.CreateStyp(), 0)
		}
		for _, o := range b.objs[si] {
			if o.emsg != nil {
				f.AddChild(o.emsg, 0)
			}
			for _, ch := range o.frag.GetChildren() {
				f.AddChild(ch, 0)
			}
		}
	}
	return f
}

type updResult struct {
	status string // ok | skip:<why> | <fingerprint kind> on failure
	what   string
	got    string
	exp    string
	out    []byte
	segs   []mseg
	index  bool // a top-level index is expected in the output
	ept    uint64
	in     []byte   // the generated file
	sized  []string // per operation: what the boxes handed to the library measure (Size()), for the model
}

// applyUpdOps applies the operations to the file and to the harness's record of its segments. sized[k]: the sizes of
// the boxes operation k handed to the library.
func applyUpdOps(f *mp4.File, ops []updOp, nTracks, refTrack int, segs []mseg) (out []mseg, sized []string, status string) {
	ids := make([]uint32, nTracks)
	for i := range ids {
		ids[i] = uint32(i + 1)
	}
	for k, o := range ops {
		if o.kind == "as" {
			if o.arg == "1" {
				ms := mp4.NewMediaSegment()
				f.AddMediaSegment(ms)
				segs = append(segs, mseg{nbox: 1, styp: true})
				sized = append(sized, fmt.Sprint(ms.Styp.Size()))
			} else {
				f.AddMediaSegment(mp4.NewMediaSegmentWithoutStyp())
				segs = append(segs, mseg{})
				sized = append(sized, "0")
			}
			continue
		}
		if o.seg < 0 || o.seg >= len(segs) || o.seg >= len(f.Segments) {
			return nil, nil, "skip:operation out of range"
		}
		sg := f.Segments[o.seg]
		m := &segs[o.seg]
		switch o.kind {
		case "ae", "ac":
			if o.frag < 0 || o.frag >= len(sg.Fragments) {
				return nil, nil, "skip:operation out of range"
			}
			fr := sg.Fragments[o.frag]
			if o.kind == "ae" {
				var z []string
				for j, l := range strings.Split(o.arg, "+") {
					e := updEmsg(atoi(l), 1000+10*k+j)
					fr.AddEmsg(e)
					m.nbox++
					z = append(z, fmt.Sprint(e.Size()))
				}
				sized = append(sized, strings.Join(z, "+"))
			} else {
				x := strings.SplitN(o.arg, ".", 2)
				if len(x) != 2 {
					return nil, nil, "skip:bad operation"
				}
				var bx mp4.Box
				switch x[0] {
				case "e":
					bx = updEmsg(atoi(x[1]), 2000+k)
				case "f":
					bx = mp4.NewFreeBox(make([]byte, atoi(x[1])))
				default:
					bx = mp4.NewSkipBox(make([]byte, atoi(x[1])))
				}
				fr.AddChild(bx)
				m.nbox++
				sized = append(sized, fmt.Sprint(bx.Size()))
			}
		case "af":
			x := strings.SplitN(o.arg, "/", 2)
			if len(x) != 2 {
				return nil, nil, "skip:bad operation"
			}
			nf, err := mp4.CreateMultiTrackFragment(uint32(5000+k), ids)
			if err != nil {
				return nil, nil, "skip:" + err.Error()
			}
			dec := uint64(1000000 * (k + 1))
			for j, sp := range strings.Split(x[1], "+") {
				w := strings.Split(sp, ".")
				if len(w) != 3 || atoi(w[0]) < 1 || atoi(w[0]) > len(ids) {
					return nil, nil, "skip:bad operation"
				}
				t, d, z := atoi(w[0]), uint32(atoi(w[1])), uint32(atoi(w[2]))
				fl := uint32(0x01010000)
				if j == 0 {
					fl = 0x02000000
				}
				if err := nf.AddFullSampleToTrack(mp4.FullSample{Sample: mp4.Sample{Flags: fl, Dur: d, Size: z}, DecodeTime: dec, Data: sampleData(t, 100+j, z)}, uint32(t)); err != nil {
					return nil, nil, "skip:" + err.Error()
				}
				dec += uint64(d)
				if t == refTrack {
					m.dur += uint64(d)
				}
			}
			var z []string
			if lead := strings.Trim(x[0], "-"); lead != "" {
				af := mp4.NewFragment()
				for _, l := range lead {
					var bx mp4.Box
					if l == 'p' {
						bx = mp4.CreatePrftBox(1, 0, uint32(refTrack), mp4.NTP64(0x83aa7e8000000000+uint64(k)), dec)
					} else {
						bx = updEmsg(5+k, 3000+k)
					}
					af.AddChild(bx)
					m.nbox++
					z = append(z, fmt.Sprintf("%c.%d", l, bx.Size()))
				}
				af.AddChild(nf.Moof)
				af.AddChild(nf.Mdat)
				nf = af
			}
			z = append(z, fmt.Sprintf("m.%d", nf.Moof.Size()), fmt.Sprintf("d.%d", nf.Mdat.Size()))
			sg.AddFragment(nf)
			m.nbox, m.nfrag = m.nbox+2, m.nfrag+1
			sized = append(sized, strings.Join(z, "+"))
		case "st":
			if sg.Styp == nil && !m.styp {
				sg.Styp = mp4.CreateStyp()
				m.nbox, m.styp = m.nbox+1, true
				sized = append(sized, fmt.Sprint(sg.Styp.Size()))
			} else {
				sized = append(sized, "0")
			}
		default:
			return nil, nil, "skip:bad operation"
		}
	}
	return segs, sized, ""
}

// runUpd: build, decode/assemble, apply the operations, UpdateSidx, encode.
func runUpd(u *updSpec) (res updResult) {
	s := u.s
	b, err := buildFF(s)
	if err != nil {
		return updResult{status: "build", what: "cannot build file", got: err.Error()}
	}
	segs, ok := expectedMsegs(s, b)
	if !ok {
		return updResult{status: "skip:no defined partition"}
	}
	var f *mp4.File
	if u.src == "api" {
		if s.delim != "none" && s.delim != "styp" || s.flagSOM {
			return updResult{status: "skip:api source with decode-only delimiters"}
		}
		f = assembleFF(s, b)
	} else {
		f, err = decodeFF(s, b)
		if err != nil {
			return updResult{status: "decode", what: "generated fragmented file does not decode", got: err.Error()}
		}
	}
	var gt, wt []string
	for _, sg := range f.Segments {
		gt = append(gt, fmt.Sprint(len(sg.Fragments)))
	}
	for _, m := range segs {
		wt = append(wt, fmt.Sprint(m.nfrag))
	}
	if strings.Join(gt, ",") != strings.Join(wt, ",") {
		return updResult{status: "grouping", what: "moof/mdat pairs are not grouped into segments according to the delimiters present (fragments per segment)", got: strings.Join(gt, ","), exp: strings.Join(wt, ",")}
	}
	segs, sized, st := applyUpdOps(f, u.ops, len(s.media), b.refTrack, segs)
	if st != "" {
		return updResult{status: st}
	}
	res.segs, res.ept, res.sized = segs, b.refEPT, sized
	if u.src == "dec" {
		res.in = b.bytes
	}
	strict := len(u.ops) == 0 // an error return promises nothing; the unmodified file must go through, though
	if u.tree && !u.late {
		f.FragEncMode = mp4.EncModeBoxTree
	}
	if err := f.UpdateSidx(u.add, u.nz); err != nil {
		res.status = "skip:UpdateSidx error on a modified file"
		if strict {
			res.status, res.what, res.got = "updatesidx", "UpdateSidx fails", err.Error()
		}
		return res
	}
	if u.tree {
		f.FragEncMode = mp4.EncModeBoxTree
	}
	var out []byte
	if u.sw {
		sw := bits.NewFixedSliceWriter(2*len(b.bytes) + 65536)
		err = f.EncodeSW(sw)
		if err == nil {
			err = sw.AccError()
		}
		out = sw.Bytes()
	} else {
		var ob bytes.Buffer
		err = f.Encode(&ob)
		out = ob.Bytes()
	}
	if err != nil {
		res.status = "skip:encode error on a modified file"
		if strict {
			res.status, res.what, res.got = "updatesidx-encode", "encode after UpdateSidx fails", err.Error()
		}
		return res
	}
	res.status, res.out = "ok", out
	res.index = u.add || s.delim == "sidx0" || s.delim == "sidx1"
	return res
}

// usidx <startOnMoof> <ism> <add> <ops|-> <hex>: the bytes are decoded, the operations applied (kind:seg:frag:recipe/sizes,
// the sizes confirmed), UpdateSidx(add, false); answer = what it computed: referenced sizes, first_offset, and for a new
// index its place among the top-level boxes.
func execUsidx(req string) string {
	w := strings.Fields(req)
	if len(w) != 6 {
		return "bad-request"
	}
	d, err := unhx(w[5])
	if err != nil {
		return "bad-request"
	}
	var flags mp4.DecFileFlags
	if w[1] == "1" {
		flags |= mp4.DecStartOnMoof
	}
	if w[2] == "1" {
		flags |= mp4.DecISMFlag
	}
	var opts []mp4.Option
	if flags != 0 {
		opts = append(opts, mp4.WithDecodeFlags(flags))
	}
	f, err := mp4.DecodeFile(bytes.NewReader(d), opts...)
	if err != nil {
		return "dec-err"
	}
	if f.Moov == nil || len(f.Moov.Traks) == 0 {
		return "no-init"
	}
	var ops []updOp
	var given []string
	if w[4] != "-" {
		for _, o := range strings.Split(w[4], ",") {
			x := strings.SplitN(o, ":", 4)
			i := -1
			if len(x) == 4 {
				i = strings.LastIndex(x[3], "/")
			}
			if i < 0 {
				return "bad-request"
			}
			ops = append(ops, updOp{x[0], atoi(x[1]), atoi(x[2]), x[3][:i]})
			given = append(given, x[3][i+1:])
		}
	}
	segs := make([]mseg, len(f.Segments))
	for i, sg := range f.Segments {
		segs[i] = mseg{nfrag: len(sg.Fragments), styp: sg.Styp != nil}
	}
	_, sized, st := applyUpdOps(f, ops, len(f.Moov.Traks), 1, segs)
	if st != "" {
		return st
	}
	if strings.Join(sized, ",") != strings.Join(given, ",") {
		return "size-mismatch " + strings.Join(sized, ",")
	}
	existed := f.Sidx
	if err := f.UpdateSidx(w[3] == "1", false); err != nil {
		return "err"
	}
	if f.Sidx == nil {
		return "none"
	}
	var z []string
	for _, r := range f.Sidx.SidxRefs {
		z = append(z, fmt.Sprint(r.ReferencedSize))
	}
	at := "-"
	if existed == nil {
		for i, ch := range f.Children {
			if ch == mp4.Box(f.Sidx) {
				at = fmt.Sprint(i)
			}
		}
	}
	sz := "-"
	if len(z) > 0 {
		sz = strings.Join(z, ",")
	}
	return fmt.Sprintf("sizes=%s first=%d at=%s", sz, f.Sidx.FirstOffset, at)
}

func isUpdMedia(t string, tree bool) bool {
	switch t {
	case "styp", "emsg", "prft", "moof", "mdat", "skip":
		return true
	case "free": // box-tree mode writes the decoded file's free box (behind the index, in front of the media): no segment's box
		return !tree
	}
	return false
}

// checkUpdTiling: the written index against the written media, from the bytes of the output alone. Segment i is the
// run of segs[i].nbox top-level media boxes following those of segment i-1; every clause is one of the statement:
// references contiguous (each starts where the previous one ended, from the anchor), each at the first byte of its
// segment, ending at the end of the media, durations of the reference track.
func checkUpdTiling(fail func(kind, what, got, exp string), out []byte, segs []mseg, tree bool, wantEPT uint64) {
	top := topLevelBoxes(out)
	if n := len(top); n == 0 || top[n-1].start+top[n-1].size != len(out) {
		fail("output-boxes", "the written file is not a sequence of complete top-level boxes", fmt.Sprint(len(out)), "")
		return
	}
	var media []rawBox
	var sidx *rawBox
	for i, x := range top {
		if isUpdMedia(x.typ, tree) {
			media = append(media, x)
		}
		if x.typ == "sidx" && sidx == nil {
			sidx = &top[i]
		}
	}
	if sidx == nil {
		fail("sidx-missing", "no top-level sidx in the written file after UpdateSidx", "", "")
		return
	}
	tot := 0
	for _, m := range segs {
		tot += m.nbox
	}
	if len(media) != tot {
		var t []string
		for _, x := range media {
			t = append(t, x.typ)
		}
		fail("media-boxes", "the written file does not consist of the boxes of the segments", fmt.Sprintf("%d: %s", len(media), strings.Join(t, " ")), fmt.Sprint(tot))
		return
	}
	if tot == 0 {
		return
	}
	mediaEnd := media[tot-1].start + media[tot-1].size
	d := out[sidx.start+sidx.hl : sidx.start+sidx.size]
	if len(d) < 24 || d[0] != 0 && len(d) < 32 {
		fail("sidx-short", "written sidx too short", fmt.Sprint(len(d)), "")
		return
	}
	p := 12
	var ept, firstOff uint64
	if d[0] == 0 {
		ept, firstOff = uint64(binary.BigEndian.Uint32(d[p:])), uint64(binary.BigEndian.Uint32(d[p+4:]))
		p += 8
	} else {
		ept, firstOff = binary.BigEndian.Uint64(d[p:]), binary.BigEndian.Uint64(d[p+8:])
		p += 16
	}
	n := int(binary.BigEndian.Uint16(d[p+2:]))
	p += 4
	if len(d) < p+12*n {
		fail("sidx-short", "written sidx shorter than its reference count demands", fmt.Sprint(len(d)), fmt.Sprint(p+12*n))
		return
	}
	if n != len(segs) {
		fail("sidx-count", "number of sidx references != number of segments", fmt.Sprint(n), fmt.Sprint(len(segs)))
		return
	}
	// first byte of every segment in the written file (a segment without boxes starts where the previous one ends)
	starts := make([]int, n+1)
	ord := 0
	for i := 0; i < n; i++ {
		starts[i] = mediaEnd
		if ord < tot {
			starts[i] = media[ord].start
		}
		ord += segs[i].nbox
	}
	starts[n] = mediaEnd
	off := sidx.start + sidx.size + int(firstOff)
	for i := 0; i < n; i++ {
		sz := int(binary.BigEndian.Uint32(d[p:]) & 0x7fffffff)
		dur := uint64(binary.BigEndian.Uint32(d[p+4:]))
		p += 12
		if off != starts[i] {
			fail("sidx-offset", fmt.Sprintf("sidx reference %d of %d does not start at the first byte of its segment in the written file", i, n), fmt.Sprint(off), fmt.Sprint(starts[i]))
			return
		}
		if sz != starts[i+1]-starts[i] {
			fail("sidx-size", fmt.Sprintf("sidx reference %d of %d: the next reference does not start at the first byte of the next segment (size != written size of the segment)", i, n), fmt.Sprint(sz), fmt.Sprint(starts[i+1]-starts[i]))
			return
		}
		if dur != segs[i].dur {
			fail("sidx-duration", fmt.Sprintf("sidx reference %d duration != summed sample durations of the reference track", i), fmt.Sprint(dur), fmt.Sprint(segs[i].dur))
		}
		off += sz
	}
	if off != mediaEnd {
		fail("sidx-end", "sidx references do not end at the end of the written media", fmt.Sprint(off), fmt.Sprint(mediaEnd))
	}
	if ept != wantEPT {
		eptObserved++ // the property statement says nothing about the VALUE of the earliest presentation time: counted, not failed
	}
}

func updAnswer(res updResult) string {
	if res.status != "ok" {
		return strings.TrimSpace(res.status + " " + res.got)
	}
	var t []string
	for _, x := range topLevelBoxes(res.out) {
		t = append(t, fmt.Sprintf("%s:%d", x.typ, x.size))
		if x.typ == "sidx" {
			t = append(t, hx(res.out[x.start:x.start+x.size]))
		}
	}
	return "ok " + strings.Join(t, " ")
}

// cloneFrag: a copy of a drawn fragment that can stand anywhere but at the start of the file
func cloneFrag(fr ffFrag) ffFrag {
	ops := append([]fragOp(nil), fr.ops...)
	for i := range ops {
		ops[i].cto = 0
	}
	return ffFrag{emsg: fr.emsg, ops: ops}
}

// drawUpdOps: 1..3 modifications of the decoded file through the public API (first / last / any fragment of any
// segment; several boxes at once; fragments and segments appended)
func drawUpdOps(c *Ctx, u *updSpec) {
	r := c.R
	shape, ok := expectedMsegs(u.s, nil)
	if !ok {
		return
	}
	pickFrag := func(m mseg) int {
		switch r.Intn(3) {
		case 0:
			return 0
		case 1:
			return m.nfrag - 1
		}
		return r.Intn(m.nfrag)
	}
	newFrag := func(si int) updOp {
		var sm []string
		for t := 1; t <= len(u.s.media); t++ {
			if t == 1 || r.Intn(2) == 0 {
				for q := 0; q < 1+r.Intn(3); q++ {
					sm = append(sm, fmt.Sprintf("%d.%d.%d", t, []int{1000, 3000, 1024}[r.Intn(3)], 1+r.Intn(30)))
				}
			}
		}
		lead := []string{"-", "-", "p", "e", "pe", "ee"}[r.Intn(6)]
		return updOp{"af", si, 0, lead + "/" + strings.Join(sm, "+")}
	}
	for n := 1 + r.Intn(3); n > 0; n-- {
		si := r.Intn(len(shape))
		if shape[si].nfrag == 0 {
			continue
		}
		switch k := r.Intn(10); {
		case k < 4:
			var l []string
			for q := 0; q < 1+r.Intn(3); q++ {
				l = append(l, fmt.Sprint(r.Intn(40)))
			}
			u.ops = append(u.ops, updOp{"ae", si, pickFrag(shape[si]), strings.Join(l, "+")})
		case k < 6:
			u.ops = append(u.ops, updOp{"ac", si, pickFrag(shape[si]), fmt.Sprintf("%c.%d", "efk"[r.Intn(3)], r.Intn(30))})
		case k < 8:
			u.ops = append(u.ops, newFrag(si))
			shape[si].nfrag++
		case k == 8:
			styp := r.Intn(2) == 0
			u.ops = append(u.ops, updOp{"as", 0, 0, b01(styp)}, newFrag(len(shape)))
			shape = append(shape, mseg{nfrag: 1, styp: styp})
		default:
			if shape[si].styp {
				u.ops = append(u.ops, updOp{"ae", si, pickFrag(shape[si]), fmt.Sprint(r.Intn(40))})
			} else {
				u.ops = append(u.ops, updOp{"st", si, 0, "-"})
				shape[si].styp = true
			}
		}
	}
}

// genUpd: files of the genFF family x {decoded, assembled through File.AddChild} x {segment mode, box-tree mode} x
// {Encode, EncodeSW} x UpdateSidx flags; in segment mode (which writes File.Segments) three quarters of them modified
// through the public API first. The index of the written file must tile the written media.
func genUpd(c *Ctx) {
	r := c.R
	nPlain := c.N(320, 6000)
	for it := 0; it < nPlain+c.N(48, 900); it++ {
		s := genFF(c)
		if s.flagSOM && s.delim == "styp" {
			s.flagSOM = false // two kinds of delimiters at once: styp-only segments without fragments
		}
		if it >= nPlain {
			drawTrafs(c, s, it%2) // several traf boxes per track in the moofs
		}
		u := &updSpec{s: s, src: "dec", tree: r.Intn(2) == 0, late: r.Intn(2) == 0, sw: r.Intn(3) == 0, add: r.Intn(4) > 0, nz: r.Intn(2) == 0}
		withOps := !u.tree && r.Intn(4) > 0
		plain := func(delim string) {
			s.delim, s.free, s.sidxLg, s.sidxPad, s.split, s.hier = delim, false, false, 0, nil, false
		}
		switch {
		case it < 32:
			// boundary members of "no index yet, UpdateSidx adds one": the first segment opens with each kind of box
			// that can open one (emsg, moof, styp, styp followed by emsg) x both encode modes x {decoded, decoded
			// with start-on-moof / by the slice reader, assembled, EncodeSW}
			kind, variant := it%4, it/8
			plain([]string{"none", "none", "styp", "styp"}[kind])
			s.segs[0][0].emsg = kind == 0 || kind == 3
			s.flagSOM = variant == 1 && kind < 2
			if variant == 1 && kind >= 2 {
				s.sr = true
			}
			u.tree, u.sw, u.add, withOps = it/4%2 == 0, variant == 3, true, false
			if variant == 2 {
				u.src = "api"
			}
		case it < 32+27:
			// boundary members of "event message inserted with AddEmsg": first / middle / last fragment of the first /
			// a middle / the last segment, one, two or three boxes; segment mode
			k := it - 32
			if s.delim == "none" {
				plain("styp")
			}
			s.split, s.hier, s.flagSOM = nil, false, false
			for len(s.segs) < 3 {
				src := s.segs[len(s.segs)-1]
				var sg []ffFrag
				for _, fr := range src {
					sg = append(sg, cloneFrag(fr))
				}
				s.segs = append(s.segs, sg)
			}
			si := []int{0, 1, len(s.segs) - 1}[k%3]
			for len(s.segs[si]) < 3 {
				s.segs[si] = append(s.segs[si], cloneFrag(s.segs[si][len(s.segs[si])-1]))
			}
			fi := []int{0, 1, len(s.segs[si]) - 1}[k/3%3]
			u.tree, withOps = false, false
			u.add = u.add || !strings.HasPrefix(s.delim, "sidx")
			u.ops = []updOp{{"ae", si, fi, []string{"4", "0+9", "3+3+17"}[k/9]}}
		}
		if !u.add && !strings.HasPrefix(s.delim, "sidx") && r.Intn(4) > 0 {
			u.add = true // without an index and without addIfNotExists UpdateSidx has nothing to do: keep a few
		}
		if u.src == "dec" && it >= 32 && (s.delim == "none" || s.delim == "styp") && !s.flagSOM && r.Intn(4) == 0 {
			u.src = "api"
		}
		if withOps {
			drawUpdOps(c, u)
		}
		req := u.line()
		fail := func(kind, what, got, exp string) {
			if u.tree && s.free && kind == "sidx-offset" {
				// input class of its own: box-tree mode writes the box that sits between the index and the media
				kind = "boxtree-gap-" + kind
			}
			c.Fail("C12-upd-"+kind, what, req, clip(got), clip(exp))
		}
		var res updResult
		if p := safe(func() { res = runUpd(u) }); p != "" {
			c.Eval("")
			fail("panic", "panic: "+p, p, "")
			continue
		}
		// model correspondence: what UpdateSidx computes from the (modified) segments — referenced sizes, first_offset,
		// place of a new index among the top-level boxes
		if res.in != nil && len(res.in) < 6000 && len(res.sized) == len(u.ops) {
			o := "-"
			if len(u.ops) > 0 {
				var t []string
				for k, x := range u.ops {
					t = append(t, fmt.Sprintf("%s:%d:%d:%s/%s", x.kind, x.seg, x.frag, x.arg, res.sized[k]))
				}
				o = strings.Join(t, ",")
			}
			q := fmt.Sprintf("usidx %s %s %s %s %s", b01(s.flagSOM), b01(s.delim == "mfra"), b01(u.add), o, hx(res.in))
			c.Case(q, execC12(q))
		}
		var kinds []string
		for _, o := range u.ops {
			kinds = append(kinds, o.kind)
		}
		mode := "segment"
		if u.tree {
			mode = "box-tree"
		}
		c.Count(fmt.Sprintf("upd %s %s-mode ops=%s", u.src, mode, strings.Join(kinds, "+")))
		switch {
		case strings.HasPrefix(res.status, "skip:"):
			c.Eval("")
			c.Count("upd " + res.status)
			noteFirst(c, "upd "+res.status, req)
		case res.status != "ok":
			c.Eval("")
			fail(res.status, res.what, res.got, res.exp)
		case !res.index:
			c.Eval("")
			c.Count("upd no index asked for")
		default:
			key := ""
			if len(res.segs) >= 2 {
				key = req
			}
			c.Eval(key)
			wantEPT := uint64(0)
			if u.nz {
				wantEPT = res.ept
			}
			checkUpdTiling(fail, res.out, res.segs, u.tree, wantEPT)
		}
	}
}
