package main

import (
	"bytes"
	"encoding/binary"
	"fmt"
	"strings"

	"github.com/Eyevinn/mp4ff/bits"
	"github.com/Eyevinn/mp4ff/mp4"
)

func init() {
	props["C12"] = &propDef{
		rule: "cases = generated fragmented files: 1..3 tracks (video and/or audio, any order), 1..6 segments x 1..4 fragments, 8- or 16-byte mdat headers, decoded through the io.Reader or the slice-reader path, delimiters {none, styp per segment, top-level sidx (version 0/1, with/without a free box after it), mfra/tfra with the ISM flag, start-on-moof flag}, emsg boxes before fragments, zero/non-zero composition offset on the first sample; checks: grouping of moof/mdat pairs into segments, segment-mode re-encoding byte-identical, and after UpdateSidx(add/not, zero/non-zero EPT) + Encode the index tiles the media (each reference starts at its segment's first byte, ends at the end of the media, durations = summed durations of the reference track); non-trivial = distinct file with >= 2 segments",
		gen:  genC12,
		exec: execC12,
	}
}

type ffFrag struct {
	emsg bool
	ops  []fragOp // track, dur, size, flags, cto
}
type ffSpec struct {
	media   []string // per track: video | audio
	segs    [][]ffFrag
	delim   string // none | styp | sidx0 | sidx1 | mfra
	free    bool   // free box between sidx and the first segment (first_offset != 0)
	flagSOM bool   // DecStartOnMoof
	largeMd bool   // every fragment's mdat carries the 16-byte largesize header
	sr      bool   // decode through the slice-reader path (DecodeFileSR)
}

func (s *ffSpec) line() string {
	var p []string
	p = append(p, fmt.Sprintf("ffile %s %s %s %s %s %s", strings.Join(s.media, ","), s.delim, b01(s.free), b01(s.flagSOM), b01(s.largeMd), b01(s.sr)))
	for _, sg := range s.segs {
		var fs []string
		for _, f := range sg {
			ops := []string{b01(f.emsg)}
			for _, o := range f.ops {
				ops = append(ops, fmt.Sprintf("%d:%d:%d:%d:%d", o.track, o.dur, o.size, o.flags, o.cto))
			}
			fs = append(fs, strings.Join(ops, " "))
		}
		p = append(p, strings.Join(fs, " ; "))
	}
	return strings.Join(p, " | ")
}

func parseFF(req string) *ffSpec {
	parts := strings.Split(req, " | ")
	f0 := strings.Fields(parts[0])
	s := &ffSpec{media: strings.Split(f0[1], ","), delim: f0[2], free: f0[3] == "1", flagSOM: f0[4] == "1"}
	if len(f0) >= 7 {
		s.largeMd, s.sr = f0[5] == "1", f0[6] == "1"
	}
	for _, sp := range parts[1:] {
		var sg []ffFrag
		for _, fp := range strings.Split(sp, " ; ") {
			w := strings.Fields(fp)
			fr := ffFrag{emsg: w[0] == "1"}
			for _, o := range w[1:] {
				x := strings.Split(o, ":")
				fr.ops = append(fr.ops, fragOp{atoi(x[0]), uint32(atoi(x[1])), uint32(atoi(x[2])), uint32(atoi(x[3])), int32(atoi(x[4]))})
			}
			sg = append(sg, fr)
		}
		s.segs = append(s.segs, sg)
	}
	return s
}

type ffBuilt struct {
	bytes    []byte
	initLen  int
	segStart []int   // byte offset of the first byte of each segment
	segSize  []int
	moofPos  [][]int // per segment per fragment
	refDur   []uint64
	refEPT   uint64 // presentation time of the first sample of the reference track
	mediaEnd int
}

func box(typ string, payload []byte) []byte {
	b := make([]byte, 8, 8+len(payload))
	binary.BigEndian.PutUint32(b, uint32(8+len(payload)))
	copy(b[4:], typ)
	return append(b, payload...)
}

func buildFF(s *ffSpec) (*ffBuilt, error) {
	init := mp4.CreateEmptyInit()
	for _, m := range s.media {
		ts := uint32(90000)
		if m == "audio" {
			ts = 48000
		}
		init.AddEmptyTrack(ts, m, "und")
	}
	var ib bytes.Buffer
	if err := init.Encode(&ib); err != nil {
		return nil, err
	}
	refTrack := 1
	found := false
	for i, m := range s.media {
		if m == "video" {
			refTrack = i + 1
			found = true
			break
		}
	}
	if !found {
		for i, m := range s.media {
			if m == "audio" {
				refTrack = i + 1
				break
			}
		}
	}
	out := &ffBuilt{}
	next := map[int]uint64{}
	cnt := map[int]int{}
	ids := make([]uint32, len(s.media))
	for i := range ids {
		ids[i] = uint32(i + 1)
		next[i+1] = uint64(100 * (i + 1))
	}
	type segBytes struct {
		b       []byte
		moofOff []int
	}
	var segs []segBytes
	seq := uint32(1)
	firstRef := true
	for _, sg := range s.segs {
		var sb segBytes
		if s.delim == "styp" {
			sb.b = append(sb.b, box("styp", []byte("msdh\x00\x00\x00\x00msdhmsix"))...)
		}
		var dur uint64
		for _, fr := range sg {
			if fr.emsg {
				var eb bytes.Buffer
				e := &mp4.EmsgBox{Version: 1, TimeScale: 90000, PresentationTime: 5, EventDuration: 9, ID: seq, SchemeIDURI: "urn:y", Value: "1", MessageData: []byte{7, 7}}
				_ = e.Encode(&eb)
				sb.b = append(sb.b, eb.Bytes()...)
			}
			f, err := mp4.CreateMultiTrackFragment(seq, ids)
			if err != nil {
				return nil, err
			}
			seq++
			for _, o := range fr.ops {
				sm := mp4.Sample{Flags: o.flags, Dur: o.dur, Size: o.size, CompositionTimeOffset: o.cto}
				if err := f.AddFullSampleToTrack(mp4.FullSample{Sample: sm, DecodeTime: next[o.track], Data: sampleData(o.track, cnt[o.track], o.size)}, uint32(o.track)); err != nil {
					return nil, err
				}
				if o.track == refTrack {
					if firstRef {
						out.refEPT = uint64(int64(next[o.track]) + int64(o.cto))
						firstRef = false
					}
					dur += uint64(o.dur)
				}
				next[o.track] += uint64(o.dur)
				cnt[o.track]++
			}
			if s.largeMd {
				f.Mdat.LargeSize = true
			}
			var fb bytes.Buffer
			if err := f.Encode(&fb); err != nil {
				return nil, err
			}
			sb.moofOff = append(sb.moofOff, len(sb.b))
			sb.b = append(sb.b, fb.Bytes()...)
		}
		out.refDur = append(out.refDur, dur)
		segs = append(segs, sb)
	}
	file := cp(ib.Bytes())
	out.initLen = len(file)
	if s.delim == "sidx0" || s.delim == "sidx1" {
		ver := byte(0)
		if s.delim == "sidx1" {
			ver = 1
		}
		pl := []byte{ver, 0, 0, 0, 0, 0, 0, 1, 0, 1, 0x5f, 0x90}
		firstOff := 0
		if s.free {
			firstOff = 13
		}
		if ver == 0 {
			pl = append(pl, 0, 0, 0, 0)
			pl = binary.BigEndian.AppendUint32(pl, uint32(firstOff))
		} else {
			pl = append(pl, 0, 0, 0, 0, 0, 0, 0, 0)
			pl = binary.BigEndian.AppendUint64(pl, uint64(firstOff))
		}
		pl = append(pl, 0, 0)
		pl = binary.BigEndian.AppendUint16(pl, uint16(len(segs)))
		for i, sg := range segs {
			pl = binary.BigEndian.AppendUint32(pl, uint32(len(sg.b)))
			pl = binary.BigEndian.AppendUint32(pl, uint32(out.refDur[i]))
			pl = binary.BigEndian.AppendUint32(pl, 0x90000000)
		}
		file = append(file, box("sidx", pl)...)
		if s.free {
			file = append(file, box("free", []byte{1, 2, 3, 4, 5})...)
		}
	}
	for _, sg := range segs {
		out.segStart = append(out.segStart, len(file))
		out.segSize = append(out.segSize, len(sg.b))
		var mp []int
		for _, o := range sg.moofOff {
			mp = append(mp, len(file)+o)
		}
		out.moofPos = append(out.moofPos, mp)
		file = append(file, sg.b...)
	}
	out.mediaEnd = len(file)
	if s.delim == "mfra" {
		// tfra version 1, 1-byte traf/trun/sample numbers, one entry per segment (first moof of the segment)
		pl := []byte{1, 0, 0, 0, 0, 0, 0, 1, 0, 0, 0, 0}
		pl = binary.BigEndian.AppendUint32(pl, uint32(len(segs)))
		for i := range segs {
			pl = binary.BigEndian.AppendUint64(pl, uint64(i)*1000)
			pl = binary.BigEndian.AppendUint64(pl, uint64(out.moofPos[i][0]))
			pl = append(pl, 1, 1, 1)
		}
		tfra := box("tfra", pl)
		mfroPl := []byte{0, 0, 0, 0}
		mfroPl = binary.BigEndian.AppendUint32(mfroPl, uint32(8+len(tfra)+16))
		mfra := box("mfra", append(cp(tfra), box("mfro", mfroPl)...))
		file = append(file, mfra...)
	}
	out.bytes = file
	return out, nil
}

func decodeFF(s *ffSpec, b *ffBuilt) (*mp4.File, error) {
	var opts []mp4.Option
	var flags mp4.DecFileFlags
	if s.delim == "mfra" {
		flags |= mp4.DecISMFlag
	}
	if s.flagSOM {
		flags |= mp4.DecStartOnMoof
	}
	if flags != 0 {
		opts = append(opts, mp4.WithDecodeFlags(flags))
	}
	if s.sr {
		return mp4.DecodeFileSR(bits.NewFixedSliceReader(b.bytes), opts...)
	}
	return mp4.DecodeFile(bytes.NewReader(b.bytes), opts...)
}

// expected grouping: list of segments, each a list of moof positions
func expectedGrouping(s *ffSpec, b *ffBuilt) [][]int {
	var all []int
	for _, sg := range b.moofPos {
		all = append(all, sg...)
	}
	switch {
	case s.flagSOM && s.delim == "none": // the flag is consulted only when neither sidx nor tfra delimit the file
		var out [][]int
		for _, p := range all {
			out = append(out, []int{p})
		}
		return out
	case s.delim == "styp", s.delim == "sidx0", s.delim == "sidx1", s.delim == "mfra":
		return b.moofPos
	default:
		return [][]int{all}
	}
}

func execC12(req string) string {
	if strings.HasPrefix(req, "group ") {
		f := strings.Fields(req)
		var out string
		p := safe(func() {
			d, _ := unhx(f[3])
			var flags mp4.DecFileFlags
			if f[1] == "1" {
				flags |= mp4.DecStartOnMoof
			}
			if f[2] == "1" {
				flags |= mp4.DecISMFlag
			}
			var opts []mp4.Option
			if flags != 0 {
				opts = append(opts, mp4.WithDecodeFlags(flags))
			}
			file, err := mp4.DecodeFile(bytes.NewReader(d), opts...)
			if err != nil {
				out = "err"
				return
			}
			out = groupingString(file)
		})
		if p != "" {
			return "panic"
		}
		return out
	}
	var out string
	p := safe(func() {
		s := parseFF(req)
		b, err := buildFF(s)
		if err != nil {
			out = "build-err"
			return
		}
		f, err := decodeFF(s, b)
		if err != nil {
			out = "dec-err"
			return
		}
		out = groupingString(f)
	})
	if p != "" {
		return p
	}
	return out
}

func groupingString(f *mp4.File) string {
	var segs []string
	for _, sg := range f.Segments {
		var fr []string
		for _, x := range sg.Fragments {
			if x.Moof != nil {
				fr = append(fr, fmt.Sprint(x.Moof.StartPos))
			} else {
				fr = append(fr, "nomoof")
			}
		}
		segs = append(segs, "["+strings.Join(fr, ",")+"]")
	}
	return strings.Join(segs, "")
}

func genFF(c *Ctx) *ffSpec {
	r := c.R
	s := &ffSpec{}
	nt := 1 + r.Intn(3)
	for i := 0; i < nt; i++ {
		s.media = append(s.media, []string{"video", "audio"}[r.Intn(2)])
	}
	s.delim = []string{"none", "styp", "sidx0", "sidx1", "mfra", "styp"}[r.Intn(6)]
	s.free = (s.delim == "sidx0" || s.delim == "sidx1") && r.Intn(3) == 0
	s.flagSOM = r.Intn(5) == 0 && s.delim != "mfra"
	s.largeMd = r.Intn(5) == 0
	s.sr = r.Intn(3) == 0 && s.delim != "mfra" // the ISM flag needs a seekable reader
	nseg := 1 + r.Intn(6)
	firstCto := int32(0)
	if r.Intn(2) == 0 {
		firstCto = 3000
	}
	first := true
	for i := 0; i < nseg; i++ {
		var sg []ffFrag
		nf := 1 + r.Intn(4)
		for k := 0; k < nf; k++ {
			fr := ffFrag{emsg: r.Intn(6) == 0}
			if s.delim == "mfra" && k == 0 {
				fr.emsg = false // tfra offsets point at the moof: an emsg in front would belong to the previous segment
			}
			nops := 1 + r.Intn(5)
			// every track gets at least one sample in the first fragment of a segment (keeps tfra/sidx semantics simple)
			for t := 1; t <= nt; t++ {
				if k == 0 || r.Intn(2) == 0 {
					for q := 0; q < 1+r.Intn(nops); q++ {
						o := fragOp{track: t, dur: uint32([]int{1000, 3000, 1024}[r.Intn(3)]), size: uint32(1 + r.Intn(30)), flags: 0x01010000}
						if q == 0 {
							o.flags = 0x02000000
						}
						if first {
							o.cto = firstCto
						}
						fr.ops = append(fr.ops, o)
					}
				}
			}
			first = false
			if len(fr.ops) == 0 {
				fr.ops = append(fr.ops, fragOp{track: 1, dur: 1000, size: 5, flags: 0x02000000})
			}
			sg = append(sg, fr)
		}
		s.segs = append(s.segs, sg)
	}
	return s
}

func genC12(c *Ctx) {
	for it := 0; it < c.N(600, 12000); it++ {
		s := genFF(c)
		req := s.line()
		key := ""
		if len(s.segs) >= 2 {
			key = req
		}
		c.Eval(key)
		c.Count("delim=" + s.delim)
		if s.flagSOM {
			c.Count("startOnMoof")
		}
		if len(c.St.Samples) < 3 {
			c.Sample(req)
		}
		fail := func(kind, what, got, exp string) { c.Fail("C12-"+kind, what, req, clip(got), clip(exp)) }
		p := safe(func() {
			b, err := buildFF(s)
			if err != nil {
				fail("build", "cannot build file", err.Error(), "")
				return
			}
			f, err := decodeFF(s, b)
			if err != nil {
				fail("decode", "generated fragmented file does not decode", err.Error(), "")
				return
			}
			// model correspondence on the grouping (small files only), with and without the flags
			if len(b.bytes) < 6000 {
				for _, som := range []string{"0", "1"} {
					ism := b01(s.delim == "mfra")
					q := fmt.Sprintf("group %s %s %s", som, ism, hx(b.bytes))
					c.Case(q, execC12(q))
				}
			}
			// (1) grouping
			got := groupingString(f)
			var ws []string
			for _, sg := range expectedGrouping(s, b) {
				var x []string
				for _, p := range sg {
					x = append(x, fmt.Sprint(p))
				}
				ws = append(ws, "["+strings.Join(x, ",")+"]")
			}
			want := strings.Join(ws, "")
			// empty segments (styp + start-on-moof) are tolerated: compare the non-empty ones
			gotNE := strings.ReplaceAll(got, "[]", "")
			if s.flagSOM && s.delim == "styp" {
				// delimiters are both styp and moof: every moof starts a segment
				var x []string
				for _, sg := range b.moofPos {
					for _, p := range sg {
						x = append(x, fmt.Sprintf("[%d]", p))
					}
				}
				want = strings.Join(x, "")
			}
			if gotNE != want {
				fp := "grouping"
				if strings.Contains(got, "nomoof") {
					fp = "grouping-emsg-startonmoof"
				}
				fail(fp, "moof/mdat pairs are not grouped into segments according to the delimiters present", got, want)
			}
			// mdat follows its moof
			for _, sg := range f.Segments {
				for _, fr := range sg.Fragments {
					if fr.Moof != nil && fr.Mdat != nil && fr.Mdat.StartPos != fr.Moof.StartPos+fr.Moof.Size() {
						fail("pairing", "a fragment's mdat is not the box following its moof", fmt.Sprint(fr.Mdat.StartPos), fmt.Sprint(fr.Moof.StartPos+fr.Moof.Size()))
					}
				}
			}
			// (2) segment-mode encode = input minus top-level boxes that are neither init nor segment boxes (the free box)
			var eb bytes.Buffer
			if err := f.Encode(&eb); err != nil {
				fp := "segment-encode"
				if strings.Contains(err.Error(), "moof not set") {
					fp = "segment-encode-emsg-startonmoof"
				}
				fail(fp, "segment-mode encoding of the decoded file fails", err.Error(), "")
			} else {
				want := b.bytes
				if s.free {
					// the free box after the sidx is not a segment box: dropped in segment mode
					idx := bytes.Index(want, box("free", []byte{1, 2, 3, 4, 5}))
					want = append(cp(want[:idx]), want[idx+13:]...)
				}
				if !bytes.Equal(eb.Bytes(), want) {
					fail("segment-identity", "segment-mode re-encoding does not reproduce the init and every fragment byte-identically and in order", fmt.Sprintf("len %d", eb.Len()), fmt.Sprintf("len %d", len(want)))
				}
			}
			// (3) UpdateSidx + encode: tiling
			for _, variant := range [][2]bool{{true, false}, {true, true}} {
				f2, err := decodeFF(s, b)
				if err != nil {
					return
				}
				if s.flagSOM && (s.delim == "none" || s.delim == "styp") {
					continue // segments = fragments there; the tiling is covered by the other cases
				}
				if err := f2.UpdateSidx(variant[0], variant[1]); err != nil {
					fail("updatesidx", "UpdateSidx fails", err.Error(), "")
					continue
				}
				var ob bytes.Buffer
				if err := f2.Encode(&ob); err != nil {
					fail("updatesidx-encode", "encode after UpdateSidx fails", err.Error(), "")
					continue
				}
				checkSidxTiling(c, req, s, b, ob.Bytes(), variant[1])
			}
		})
		if p != "" {
			fail("panic", "panic: "+p, p, "")
		}
	}
}

// independent check of the written index against the written media
func checkSidxTiling(c *Ctx, req string, s *ffSpec, b *ffBuilt, out []byte, nonZeroEPT bool) {
	fail := func(kind, what, got, exp string) { c.Fail("C12-"+kind, what, req, clip(got), clip(exp)) }
	var bx []rawBox
	walkBoxes(out, 0, "", &bx)
	var top []rawBox
	for _, x := range bx {
		if strings.Count(x.path, "/") == 1 {
			top = append(top, x)
		}
	}
	// locate the first top-level sidx and the segment starts in the OUTPUT
	var sidx *rawBox
	for i := range top {
		if top[i].typ == "sidx" {
			sidx = &top[i]
			break
		}
	}
	if sidx == nil {
		fail("sidx-missing", "no top-level sidx in the output after UpdateSidx(addIfNotExists=true)", "", "")
		return
	}
	// segments in output: same sequence of segment boxes as the input => positions from sizes
	expSegs := expectedGrouping(s, b)
	if s.delim == "none" {
		expSegs = [][]int{nil}
	}
	// find first media box after init/sidx
	var mediaStart int
	for _, x := range top {
		if x.typ == "styp" || x.typ == "moof" || x.typ == "emsg" {
			mediaStart = x.start
			break
		}
	}
	var segStart, segSize []int
	if s.delim == "none" {
		segStart = []int{mediaStart}
		end := 0
		for _, x := range top {
			if x.typ == "mdat" {
				end = x.start + x.size
			}
		}
		segSize = []int{end - mediaStart}
	} else {
		pos := mediaStart
		for _, sz := range b.segSize {
			segStart = append(segStart, pos)
			segSize = append(segSize, sz)
			pos += sz
		}
	}
	_ = expSegs
	d := out[sidx.start : sidx.start+sidx.size]
	ver := d[8]
	p := 12
	refID := binary.BigEndian.Uint32(d[p:])
	p += 8
	var ept, firstOff uint64
	if ver == 0 {
		ept = uint64(binary.BigEndian.Uint32(d[p:]))
		firstOff = uint64(binary.BigEndian.Uint32(d[p+4:]))
		p += 8
	} else {
		ept = binary.BigEndian.Uint64(d[p:])
		firstOff = binary.BigEndian.Uint64(d[p+8:])
		p += 16
	}
	p += 2
	n := int(binary.BigEndian.Uint16(d[p:]))
	p += 2
	_ = refID
	if n != len(segStart) {
		fail("sidx-count", "number of sidx references != number of segments", fmt.Sprint(n), fmt.Sprint(len(segStart)))
		return
	}
	off := sidx.start + sidx.size + int(firstOff)
	for i := 0; i < n; i++ {
		sz := int(binary.BigEndian.Uint32(d[p:]) & 0x7fffffff)
		dur := uint64(binary.BigEndian.Uint32(d[p+4:]))
		p += 12
		if off != segStart[i] {
			fail("sidx-offset", fmt.Sprintf("sidx reference %d does not start at the first byte of its segment", i), fmt.Sprint(off), fmt.Sprint(segStart[i]))
			return
		}
		if sz != segSize[i] {
			fail("sidx-size", fmt.Sprintf("sidx reference %d size != size of its segment", i), fmt.Sprint(sz), fmt.Sprint(segSize[i]))
			return
		}
		wantDur := b.refDur[i]
		if s.delim == "none" {
			wantDur = 0
			for _, x := range b.refDur {
				wantDur += x
			}
		}
		if dur != wantDur {
			fail("sidx-duration", fmt.Sprintf("sidx reference %d duration != summed sample durations of the reference track", i), fmt.Sprint(dur), fmt.Sprint(wantDur))
		}
		off += sz
	}
	lastEnd := segStart[n-1] + segSize[n-1]
	if off != lastEnd {
		fail("sidx-end", "sidx references do not end at the end of the media", fmt.Sprint(off), fmt.Sprint(lastEnd))
	}
	wantEPT := uint64(0)
	if nonZeroEPT {
		wantEPT = b.refEPT
	}
	if ept != wantEPT {
		fail("sidx-ept", "earliest presentation time wrong", fmt.Sprint(ept), fmt.Sprint(wantEPT))
	}
}
