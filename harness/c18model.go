package main

import (
	"bytes"
	"encoding/binary"
	"fmt"
	"strings"

	"github.com/Eyevinn/mp4ff/aac"
	"github.com/Eyevinn/mp4ff/bits"
	"github.com/Eyevinn/mp4ff/mp4"
)

// Correspondence glue for the esds / MPEG-4 descriptor model (lean/Mp4ff/Model/Esds.lean, driver ops
// esds.dec / esds.rt / esds.create in lean/Mp4ff/Driver/C18.lean). The real mp4.DecodeBox / DecodeBoxSR /
// CreateEsdsBox / Encode results are rendered in the driver's canonical text.
//
//   esds.dec <payload hex>   payload = the bytes after the 8-byte box header; answer: the decoded tree + Size(), or err:<class>
//   esds.rt <payload hex>    decode, then Encode: answer: hex of the whole re-encoded box, or err:<class>
//   esds.create <asc hex>    CreateEsdsBox(asc).Encode: hex of the whole box + Size()

func esdsSfs(d mp4.Descriptor) uint64 { return d.SizeSize() - d.Size() - 2 }

// payload bytes of a descriptor whose fields are not exported (RawDescriptor): encode and strip tag + size field
func esdsBody(d mp4.Descriptor) []byte {
	sw := bits.NewFixedSliceWriter(int(d.SizeSize()))
	if err := d.EncodeSW(sw); err != nil {
		return []byte("ENCODE-ERROR")
	}
	b := sw.Bytes()
	return b[2+esdsSfs(d):]
}

func esdsRenderDesc(d mp4.Descriptor) string {
	switch x := d.(type) {
	case *mp4.DecoderConfigDescriptor:
		dsi := "none"
		if x.DecSpecificInfo != nil {
			dsi = fmt.Sprintf("%d:%s", esdsSfs(x.DecSpecificInfo), hx(x.DecSpecificInfo.DecConfig))
		}
		return fmt.Sprintf("dc[sfs=%d ot=%d st=%d buf=%d max=%d avg=%d dsi=%s oth=(%s) unk=%s]", esdsSfs(x), x.ObjectType, x.StreamType,
			x.BufferSizeDB, x.MaxBitrate, x.AvgBitrate, dsi, esdsRenderList(x.OtherDescriptors), hx(x.UnknownData))
	case *mp4.DecSpecificInfoDescriptor:
		return fmt.Sprintf("dsi[%d:%s]", esdsSfs(x), hx(x.DecConfig))
	case *mp4.SLConfigDescriptor:
		return fmt.Sprintf("sl[%d:%d:%s]", esdsSfs(x), x.ConfigValue, hx(x.MoreData))
	case *mp4.RawDescriptor:
		return fmt.Sprintf("raw[%d:%d:%s]", x.Tag(), esdsSfs(x), hx(esdsBody(x)))
	}
	return fmt.Sprintf("?%T", d)
}

func esdsRenderList(l []mp4.Descriptor) string {
	var p []string
	for _, d := range l {
		p = append(p, esdsRenderDesc(d))
	}
	return strings.Join(p, ",")
}

func esdsRender(e *mp4.EsdsBox) string {
	dc := "dc[nil]"
	if e.DecConfigDescriptor != nil {
		dc = esdsRenderDesc(e.DecConfigDescriptor)
	}
	sl := "none"
	if e.SLConfigDescriptor != nil {
		s := e.SLConfigDescriptor
		sl = fmt.Sprintf("%d:%d:%s", esdsSfs(s), s.ConfigValue, hx(s.MoreData))
	}
	es := &e.ESDescriptor
	return fmt.Sprintf("v=%d f=%d es[sfs=%d id=%d fl=%d dep=%d url=%s ocr=%d %s sl=%s oth=(%s) unk=%s] size=%d", e.Version, e.Flags,
		esdsSfs(es), e.EsID, e.FlagsAndPriority, e.DependsOnEsID, hx([]byte(e.URLString)), e.OCResID, dc, sl,
		esdsRenderList(e.OtherDescriptors), hx(e.UnknownData), e.Size())
}

func esdsErrClass(err error) string {
	m := err.Error()
	pre := ""
	for {
		i := strings.Index(m, "failed to decode descriptor: ")
		if i < 0 {
			break
		}
		pre += "dc>"
		m = m[i+len("failed to decode descriptor: "):]
	}
	has := func(s string) bool { return strings.Contains(m, s) }
	switch {
	case has("instead of ESDescriptorTag"):
		return pre + "tagES"
	case has("use DecodeESDescriptor"):
		return pre + "useES"
	case has("too small"):
		return pre + "tooSmall"
	case has("descriptor size field longer"):
		return pre + "sizeField"
	case has("more than 64 significant bits"):
		return pre + "sizeOverflow"
	case has("less than the 13 fixed bytes"):
		return pre + "dcShort"
	case has("ESDescriptor size") && has("exceeds"):
		return pre + "exceeds3"
	case has("DecoderConfigDescriptor size") && has("exceeds"):
		return pre + "exceeds4"
	case has("DecSpecificInfoDescriptor size") && has("exceeds"):
		return pre + "exceeds5"
	case has("DecodeSLConfigDescriptor size") && has("exceeds"):
		return pre + "exceeds6"
	case has("DecRawDescriptor size") && has("exceeds"):
		return pre + "exceeds0"
	case has("read too far in DecoderConfigDescriptor"):
		return pre + "tooFarDC"
	case has("read too far in ESDescriptor"):
		return pre + "tooFarES"
	case has("read too far in SliceReader"):
		return pre + "read"
	case has("bytes left"):
		return pre + "dsiLeft"
	case has("SLConfigDescriptor size is 0"):
		return pre + "slZero"
	case has("expected DecoderConfigDescriptor"):
		return pre + "expectedDC"
	case has("differs from calculated"):
		return pre + "sizeDiff"
	case has("negative number"):
		return pre + "neg"
	}
	return pre + "other:" + strings.ReplaceAll(m, " ", "_")
}

func esdsWrap(payload []byte) []byte {
	b := make([]byte, 8, 8+len(payload))
	binary.BigEndian.PutUint32(b, uint32(8+len(payload)))
	copy(b[4:], "esds")
	return append(b, payload...)
}

// decode through both library paths; returns the box (reader path), the canonical answer and the SR path's answer
func esdsDecodeBoth(payload []byte) (box *mp4.EsdsBox, ans, ansSR string) {
	raw := esdsWrap(payload)
	one := func(sr bool) (*mp4.EsdsBox, string) {
		var b mp4.Box
		var err error
		p := safe(func() {
			if sr {
				b, err = mp4.DecodeBoxSR(0, bits.NewFixedSliceReader(raw))
			} else {
				b, err = mp4.DecodeBox(0, bytes.NewReader(raw))
			}
		})
		if p != "" {
			return nil, p
		}
		if err != nil {
			return nil, "err:" + esdsErrClass(err)
		}
		e, ok := b.(*mp4.EsdsBox)
		if !ok {
			return nil, fmt.Sprintf("err:not-esds-%T", b)
		}
		var out string
		if p := safe(func() { out = esdsRender(e) }); p != "" {
			return e, p
		}
		return e, out
	}
	box, ans = one(false)
	_, ansSR = one(true)
	return
}

func esdsEncode(e *mp4.EsdsBox) (out []byte, outSW []byte, msg string) {
	p := safe(func() {
		var buf bytes.Buffer
		if err := e.Encode(&buf); err != nil {
			msg = "encerr:" + err.Error()
			return
		}
		out = buf.Bytes()
		sw := bits.NewFixedSliceWriter(int(e.Size()))
		if err := e.EncodeSW(sw); err != nil {
			msg = "encerr-sw:" + err.Error()
			return
		}
		outSW = sw.Bytes()
	})
	if p != "" {
		msg = p
	}
	return
}

// one payload through esds.dec and esds.rt, with the direct oracle (C01/C02 clauses for this box) on the real code
func esdsCase(c *Ctx, payload []byte, origin string) (accepted bool) {
	req := "esds.dec " + hx(payload)
	box, ans, ansSR := esdsDecodeBoth(payload)
	c.Case(req, ans)
	c.Count("esds.dec")
	key := ""
	if !strings.HasPrefix(ans, "err:tagES") {
		key = req
	}
	c.Eval(key)
	if ans != ansSR {
		c.Fail("C18-esds-paths-differ", "DecodeBox and DecodeBoxSR disagree on an esds box ("+origin+")", req, ans, ansSR)
	}
	if strings.HasPrefix(ans, "panic") {
		c.Fail("C18-esds-panic", "esds decoder panics ("+origin+")", req, ans, "error or box")
	}
	rreq := "esds.rt " + hx(payload)
	if box == nil || !strings.HasPrefix(ans, "v=") {
		c.Case(rreq, ans)
		c.Count("esds.rt")
		c.Count("esds.class." + strings.SplitN(strings.TrimPrefix(ans, "err:"), ":", 2)[0])
		return false
	}
	c.Count("esds.class.accepted")
	enc, encSW, msg := esdsEncode(box)
	if msg != "" {
		c.Case(rreq, msg)
		c.Count("esds.rt")
		c.Fail("C18-esds-encode-fails", "a decoded esds box cannot be encoded ("+origin+")", rreq, msg, "bytes")
		return true
	}
	c.Case(rreq, hx(enc))
	c.Count("esds.rt")
	if !bytes.Equal(enc, encSW) {
		c.Fail("C18-esds-encode-paths", "Encode and EncodeSW write different bytes", rreq, hx(enc), hx(encSW))
	}
	if uint64(len(enc)) != box.Size() || binary.BigEndian.Uint32(enc) != uint32(len(enc)) {
		c.Fail("C18-esds-size", "Size() / header size field != bytes written", rreq, fmt.Sprintf("len=%d Size=%d hdr=%d", len(enc), box.Size(), binary.BigEndian.Uint32(enc)), "")
	}
	full := esdsWrap(payload)
	switch {
	case bytes.Equal(enc, full):
		c.Count("esds.rt.identical")
	case len(enc) <= len(full) && bytes.Equal(enc[8:], full[8:len(enc)]):
		c.Count("esds.rt.trailing-bytes-dropped")
	default:
		c.Count("esds.rt.normalised")
		c.Sample("esds normalised: " + hx(payload) + " -> " + hx(enc[8:]))
	}
	// fixed point: decode the output again, same tree, same bytes
	box2, ans2, _ := esdsDecodeBoth(enc[8:])
	if ans2 != ans {
		c.Count("esds.rt.redecode-differs")
		{
			c.Fail("C18-esds-not-lossless", "decode(encode(decode(x))) differs from decode(x) ("+origin+")", req, ans2, ans)
		}
	} else if box2 != nil {
		enc2, _, _ := esdsEncode(box2)
		if !bytes.Equal(enc2, enc) {
			c.Fail("C18-esds-not-fixed-point", "second encode differs from the first", rreq, hx(enc2), hx(enc))
		}
	}
	return true
}

// the esds box inside an mp4a sample entry, followed by a btrt sibling: both library paths must agree
// (direct oracle only; guards fix 0fa6982: the SR path let the ES descriptor read on into the sibling)
func esdsEmbedded(c *Ctx, payload []byte, origin string) {
	mp4a := mp4.CreateAudioSampleEntryBox("mp4a", 2, 16, 48000, nil)
	var buf bytes.Buffer
	if err := mp4a.Encode(&buf); err != nil {
		return
	}
	raw := append(buf.Bytes(), esdsWrap(payload)...)
	var bb bytes.Buffer
	_ = (&mp4.BtrtBox{BufferSizeDB: 1, MaxBitrate: 2, AvgBitrate: 3}).Encode(&bb)
	raw = append(raw, bb.Bytes()...)
	binary.BigEndian.PutUint32(raw, uint32(len(raw)))
	show := func(b mp4.Box, err error) string {
		if err != nil || b == nil {
			return "err"
		}
		a, ok := b.(*mp4.AudioSampleEntryBox)
		if !ok {
			return fmt.Sprintf("%T", b)
		}
		var p []string
		for _, ch := range a.Children {
			if e, ok := ch.(*mp4.EsdsBox); ok {
				p = append(p, esdsRender(e))
			} else {
				p = append(p, fmt.Sprintf("%s:%d", ch.Type(), ch.Size()))
			}
		}
		return strings.Join(p, " | ")
	}
	var r1, r2 string
	if p := safe(func() { r1 = show(mp4.DecodeBox(0, bytes.NewReader(raw))) }); p != "" {
		r1 = p
	}
	if p := safe(func() { r2 = show(mp4.DecodeBoxSR(0, bits.NewFixedSliceReader(raw))) }); p != "" {
		r2 = p
	}
	c.Eval("embedded " + hx(payload))
	c.Count("esds.embedded")
	if r1 != r2 {
		c.Fail("C18-esds-embedded-paths-differ", "mp4a{esds,btrt}: DecodeBox and DecodeBoxSR disagree ("+origin+")", "box "+hx(raw), r1, r2)
	}
}

// ---- generators

// size field of n bytes for value v (n >= 1): the encoder's own form (0x80-padded), any n
func esdsSizeField(v uint64, n int) []byte {
	b := make([]byte, n)
	for i := 0; i < n; i++ {
		pos := n - 1 - i
		var x byte
		if 7*pos < 64 {
			x = byte(v>>uint(7*pos)) & 0x7f
		}
		if pos > 0 {
			x |= 0x80
		}
		b[i] = x
	}
	return b
}

func esdsPickSizeLen(c *Ctx, v int) int {
	min := 1
	for x := v >> 7; x > 0; x >>= 7 {
		min++
	}
	switch r := c.R.Intn(40); {
	case r < 20:
		return min
	case r < 28:
		return 4
	case r < 32:
		return min + 1 + c.R.Intn(3)
	case r < 34:
		return 9 + c.R.Intn(3)
	case r == 34:
		return 256 + c.R.Intn(3)
	case r == 35 && min > 1:
		return min - 1 // too short: high bits lost
	}
	return min
}

func esdsDescBytes(c *Ctx, tag byte, body []byte) []byte {
	v := len(body)
	if c.R.Intn(30) == 0 {
		v += c.R.Intn(5) - 2
		if v < 0 {
			v = 0
		}
	}
	out := []byte{tag}
	sf := esdsSizeField(uint64(v), esdsPickSizeLen(c, v))
	if c.R.Intn(60) == 0 && len(sf) > 1 {
		sf[0] |= byte(1 + c.R.Intn(127)) // garbage in the high bits of a long size field
	}
	out = append(out, sf...)
	return append(out, body...)
}

func esdsRandBytes(c *Ctx, n int) []byte {
	b := make([]byte, n)
	c.R.Read(b)
	return b
}

// a random descriptor (any tag the dispatcher knows, nested DecoderConfig included)
func esdsRandDesc(c *Ctx, depth int) []byte {
	switch r := c.R.Intn(16); {
	case r < 4 && depth < 4:
		return esdsRandDC(c, depth+1)
	case r < 7:
		return esdsDescBytes(c, 5, esdsRandBytes(c, c.R.Intn(8)))
	case r < 10:
		return esdsDescBytes(c, 6, esdsRandBytes(c, c.R.Intn(4)))
	case r == 10:
		return esdsDescBytes(c, 3, esdsRandBytes(c, c.R.Intn(6)))
	case r == 11:
		return esdsDescBytes(c, byte(c.R.Intn(256)), esdsRandBytes(c, c.R.Intn(140)))
	}
	return esdsDescBytes(c, []byte{0, 1, 2, 7, 8, 0x0e, 0x7f, 0x80, 0xff}[c.R.Intn(9)], esdsRandBytes(c, c.R.Intn(6)))
}

func esdsRandDC(c *Ctx, depth int) []byte {
	body := []byte{byte(c.R.Intn(256))}
	body = append(body, esdsRandBytes(c, 12)...)
	if c.R.Intn(4) == 0 {
		copy(body, []byte{0x40, 0x15, 0, 0, 0, 0, 1, 0xf4, 0, 0, 1, 0xf4, 0})
	}
	if c.R.Intn(5) > 0 {
		body = append(body, esdsDescBytes(c, 5, esdsRandBytes(c, c.R.Intn(9)))...)
	}
	for c.R.Intn(3) == 0 {
		body = append(body, esdsRandDesc(c, depth)...)
	}
	switch c.R.Intn(12) {
	case 0:
		body = append(body, byte(c.R.Intn(256)))
	case 1:
		body = append(body, 3)
		body = append(body, esdsRandBytes(c, c.R.Intn(4))...)
	case 2:
		body = append(body, esdsRandBytes(c, 1+c.R.Intn(5))...)
	}
	if c.R.Intn(25) == 0 {
		body = body[:c.R.Intn(len(body))]
	}
	return esdsDescBytes(c, 4, body)
}

// a random esds payload built bottom-up (mostly valid, all optional parts, every size-field form)
func esdsRandPayload(c *Ctx) []byte {
	flags := byte(0)
	if c.R.Intn(3) == 0 {
		flags = byte(c.R.Intn(256))
	}
	body := []byte{byte(c.R.Intn(256)), byte(c.R.Intn(256)), flags}
	if flags>>7 == 1 {
		body = append(body, esdsRandBytes(c, 2)...)
	}
	if (flags>>6)&1 == 1 {
		n := c.R.Intn(12)
		body = append(body, byte(n))
		body = append(body, esdsRandBytes(c, n)...)
	}
	if (flags>>5)&1 == 1 {
		body = append(body, esdsRandBytes(c, 2)...)
	}
	if c.R.Intn(20) > 0 {
		body = append(body, esdsRandDC(c, 0)...)
	}
	switch r := c.R.Intn(10); {
	case r < 6:
		body = append(body, esdsDescBytes(c, 6, append([]byte{2}, esdsRandBytes(c, c.R.Intn(3))...))...)
	case r < 8:
		body = append(body, esdsRandDesc(c, 0)...)
	}
	for c.R.Intn(3) == 0 {
		body = append(body, esdsRandDesc(c, 0)...)
	}
	switch c.R.Intn(12) {
	case 0:
		body = append(body, byte(c.R.Intn(256)))
	case 1:
		body = append(body, 3)
		body = append(body, esdsRandBytes(c, c.R.Intn(4))...)
	case 2:
		body = append(body, esdsRandBytes(c, 1+c.R.Intn(5))...)
	}
	p := []byte{0, 0, 0, 0}
	if c.R.Intn(6) == 0 {
		p = esdsRandBytes(c, 4)
	}
	p = append(p, esdsDescBytes(c, 3, body)...)
	if c.R.Intn(10) == 0 {
		p = append(p, esdsRandBytes(c, 1+c.R.Intn(4))...) // bytes after the ES descriptor
	}
	return p
}

// positions of the size fields of a well-formed payload (walks the nesting the way the decoder does, leniently)
func esdsSizeFieldPositions(p []byte) [][2]int {
	var out [][2]int
	var walk func(pos, end int, depth int)
	walk = func(pos, end int, depth int) {
		for pos+1 < end && depth < 8 {
			tag := p[pos]
			s := pos + 1
			e := s
			var v int
			for e < end {
				v = v<<7 | int(p[e]&0x7f)
				e++
				if p[e-1]&0x80 == 0 {
					break
				}
			}
			out = append(out, [2]int{s, e})
			body := e
			stop := body + v
			if stop > end || v < 0 {
				stop = end
			}
			switch tag {
			case 3:
				q := body + 3
				if q <= stop {
					fl := p[body+2]
					if fl>>7 == 1 {
						q += 2
					}
					if (fl>>6)&1 == 1 && q < stop {
						q += 1 + int(p[q])
					}
					if (fl>>5)&1 == 1 {
						q += 2
					}
					walk(q, stop, depth+1)
				}
			case 4:
				walk(body+13, stop, depth+1)
			}
			pos = stop
			if stop <= s {
				return
			}
		}
	}
	if len(p) > 4 {
		walk(4, len(p), 0)
	}
	return out
}

func esdsMutations(c *Ctx, p []byte) [][]byte {
	r := c.R
	var out [][]byte
	cp := func() []byte { return append([]byte{}, p...) }
	// truncations (every length for short payloads) and extensions
	for n := 0; n < len(p); n++ {
		if len(p) < 64 || r.Intn(len(p)/32+1) == 0 {
			out = append(out, cp()[:n])
		}
	}
	out = append(out, append(cp(), 0), append(cp(), esdsRandBytes(c, 1+r.Intn(6))...))
	// byte substitutions
	for k := 0; k < 24; k++ {
		m := cp()
		i := r.Intn(len(m))
		m[i] = []byte{0, 1, 2, 3, 4, 5, 6, 0x7f, 0x80, 0x81, 0xff, byte(r.Intn(256)), m[i] + 1, m[i] - 1}[r.Intn(14)]
		out = append(out, m)
	}
	// size-field corruptions: value +-k, re-coded in another length (padded 4-byte form, over-long, 10+, 256+), high bits set
	for _, sf := range esdsSizeFieldPositions(p) {
		var v uint64
		for _, b := range p[sf[0]:sf[1]] {
			v = v<<7 | uint64(b&0x7f)
		}
		recode := func(nv uint64, n int) {
			m := append([]byte{}, p[:sf[0]]...)
			m = append(m, esdsSizeField(nv, n)...)
			m = append(m, p[sf[1]:]...)
			out = append(out, m)
		}
		for _, n := range []int{1, 2, 3, 4, 5, 9, 10, 11} {
			recode(v, n)
		}
		if r.Intn(4) == 0 {
			recode(v, 255+r.Intn(4))
		}
		for _, d := range []int{-2, -1, 1, 2, 13, 127, 128, 1 << 14, 1 << 21, 1 << 28} {
			nv := uint64(int64(v) + int64(d))
			if int64(v)+int64(d) < 0 {
				nv = 0
			}
			recode(nv, sf[1]-sf[0])
			if r.Intn(3) == 0 {
				recode(nv, 4)
			}
		}
		// a consistent change: size fields of the enclosing descriptors are NOT adjusted here (that is the corruption);
		// 10-byte fields whose leading groups are not zero (bits beyond 64 are dropped by the decoder)
		m := append([]byte{}, p[:sf[0]]...)
		f := esdsSizeField(v, 10+r.Intn(2))
		f[0] |= byte(1 + r.Intn(127))
		m = append(m, f...)
		m = append(m, p[sf[1]:]...)
		out = append(out, m)
		// all-ones field of 9 / 10 bytes: int(size) negative or huge
		for _, n := range []int{9, 10} {
			m := append([]byte{}, p[:sf[0]]...)
			f := bytes.Repeat([]byte{0xff}, n)
			f[n-1] = 0x7f
			if r.Intn(2) == 0 {
				f[0] = 0x81
			}
			m = append(m, f...)
			m = append(m, p[sf[1]:]...)
			out = append(out, m)
		}
	}
	// insert a descriptor somewhere after the ES header, delete a span, duplicate a span
	for k := 0; k < 6 && len(p) > 8; k++ {
		i := 7 + r.Intn(len(p)-7)
		m := append([]byte{}, p[:i]...)
		m = append(m, esdsRandDesc(c, 2)...)
		m = append(m, p[i:]...)
		out = append(out, m)
		j := i + r.Intn(len(p)-i+1)
		out = append(out, append(append([]byte{}, p[:i]...), p[j:]...))
		out = append(out, append(append([]byte{}, p[:j]...), p[i:]...))
	}
	return out
}

// esds boxes of the repository's media files (payloads)
func esdsSeedPayloads() (out [][]byte, origins []string) {
	for _, sb := range seedBoxes(65536) {
		if len(sb.bs) >= 8 && string(sb.bs[4:8]) == "esds" && binary.BigEndian.Uint32(sb.bs) == uint32(len(sb.bs)) {
			out = append(out, sb.bs[8:])
			origins = append(origins, sb.origin)
		}
	}
	return
}

// genC18Esds is called from genC18 (c18.go): the model-correspondence stream for the esds descriptor framing
func genC18Esds(c *Ctx, freqs []int) {
	c.Note("esds model correspondence: boxes created from the generated configurations, the repository's esds boxes, random descriptor trees (all size-field forms, nested DecoderConfig, optional/unknown descriptors), and mutations/truncations/size-field corruptions of all of them")
	var pool [][]byte
	// (i) created from configurations
	create := func(asc []byte, origin string) []byte {
		req := "esds.create " + hx(asc)
		var ans string
		var enc []byte
		p := safe(func() {
			e := mp4.CreateEsdsBox(append([]byte{}, asc...))
			var buf bytes.Buffer
			if err := e.Encode(&buf); err != nil {
				ans = "encerr:" + err.Error()
				return
			}
			enc = buf.Bytes()
			ans = fmt.Sprintf("%s size=%d", hx(enc), e.Size())
		})
		if p != "" {
			ans = p
		}
		c.Case(req, ans)
		c.Count("esds.create")
		c.Eval(req)
		if enc == nil {
			c.Fail("C18-esds-create", "CreateEsdsBox(...).Encode fails ("+origin+")", req, ans, "bytes")
			return nil
		}
		return enc[8:]
	}
	for _, ot := range []int{2, 5, 29} {
		for i, f := range freqs {
			for _, ch := range []int{1, 2, 7, 15} {
				if (i+ch)%c.N(3, 1) != 0 {
					continue
				}
				ef := 0
				if ot != 2 {
					ef = 2 * f % (1 << 24)
				}
				a := &aac.AudioSpecificConfig{ObjectType: byte(ot), ChannelConfiguration: byte(ch), SamplingFrequency: f, ExtensionFrequency: ef,
					SBRPresentFlag: ot != 2, PSPresentFlag: ot == 29}
				var buf bytes.Buffer
				if err := a.Encode(&buf); err != nil {
					continue
				}
				asc := buf.Bytes()
				p := create(asc, "config")
				if p == nil {
					continue
				}
				box, ans, _ := esdsDecodeBoth(p)
				esdsCase(c, p, "created")
				// direct oracle of the clause: the sample entry's esds decodes back to the configuration
				ok := false
				if box != nil && box.DecConfigDescriptor != nil && box.DecConfigDescriptor.DecSpecificInfo != nil {
					got, err := aac.DecodeAudioSpecificConfig(bytes.NewReader(box.DecConfigDescriptor.DecSpecificInfo.DecConfig))
					ok = err == nil && *got == *a
				}
				if !ok {
					c.Fail("C18-esds-config-roundtrip", "esds created from a configuration does not decode back to it", "esds.create "+hx(asc), ans, fmt.Sprintf("%+v", *a))
				}
				if len(pool) < 40 || c.R.Intn(20) == 0 {
					pool = append(pool, p)
				}
				// embedded in a sample entry: as created, and with the ES descriptor claiming bytes of the sibling that follows
				esdsEmbedded(c, p, "created")
				if len(p) > 5 && p[5] < 100 {
					for _, k := range []byte{1, 8, 20, 21} {
						m := append([]byte{}, p...)
						m[5] += k
						esdsEmbedded(c, m, "es-size-inflated")
					}
				}
			}
		}
	}
	// arbitrary decConfig bytes, every length up to beyond what a one-byte size field can carry
	for n := 0; n <= 130; n++ {
		if p := create(esdsRandBytes(c, n), "arbitrary"); p != nil {
			esdsCase(c, p, "created-arbitrary")
			if n%16 == 0 {
				pool = append(pool, p)
			}
		}
	}
	// (ii) the repository's esds boxes
	seeds, origins := esdsSeedPayloads()
	for i, p := range seeds {
		if !esdsCase(c, p, origins[i]) {
			c.Fail("C18-esds-seed-rejected", "an esds box of a repository file is rejected", "esds.dec "+hx(p), origins[i], "accepted")
		}
		c.Count("esds.seed")
		pool = append(pool, p)
	}
	c.Note(fmt.Sprintf("esds seed boxes from repository files: %d", len(seeds)))
	// random trees
	for i := 0; i < c.N(1500, 20000); i++ {
		p := esdsRandPayload(c)
		esdsCase(c, p, "random-tree")
		if i%25 == 0 {
			pool = append(pool, p)
		}
	}
	// (iii) the malformed stream
	for _, p := range pool {
		ms := esdsMutations(c, p)
		for _, m := range ms {
			if len(ms) > c.N(150, 2000) && c.R.Intn(len(ms)) > c.N(150, 2000) {
				continue
			}
			esdsCase(c, m, "mutation")
			c.Count("esds.mutation")
		}
	}
}
