package main

// C16 syntax-directed generators: SPS / PPS / slice headers for AVC and HEVC written bit by bit in the
// order the mp4ff parsers read them, with one (or no) hostile count per NAL unit.

import (
	"math/rand"
	"strings"
)

// ---- bit writer ----
type c16BW struct {
	b    []byte
	nbit int
}

func (w *c16BW) bit(v uint64) {
	if w.nbit%8 == 0 {
		w.b = append(w.b, 0)
	}
	if v&1 != 0 {
		w.b[len(w.b)-1] |= 1 << uint(7-w.nbit%8)
	}
	w.nbit++
}

func (w *c16BW) u(n int, v uint64) {
	for i := n - 1; i >= 0; i-- {
		if i >= 64 {
			w.bit(0)
		} else {
			w.bit(v >> uint(i))
		}
	}
}

func (w *c16BW) f(b bool) {
	if b {
		w.bit(1)
	} else {
		w.bit(0)
	}
}

// ue writes an Exp-Golomb code for v <= 2^63-2
func (w *c16BW) ue(v uint64) {
	x := v + 1
	n := 0
	for t := x; t > 1; t >>= 1 {
		n++
	}
	w.u(n, 0)
	w.u(n+1, x)
}

// ueRaw writes zeros leading zero bits, a one, and the low bits of suffix as the zeros-bit suffix
func (w *c16BW) ueRaw(zeros int, suffix uint64) {
	w.u(zeros, 0)
	w.bit(1)
	w.u(zeros, suffix)
}

func (w *c16BW) se(v int64) {
	if v > 0 {
		w.ue(uint64(2*v - 1))
	} else {
		w.ue(uint64(-2 * v))
	}
}

func (w *c16BW) trailing() {
	w.bit(1)
	for w.nbit%8 != 0 {
		w.bit(0)
	}
}

func (w *c16BW) bytes() []byte { return append([]byte{}, w.b...) }

// ---- hostile value source ----
type c16Syn struct {
	r *rand.Rand
	w *c16BW
	// index of the count that is made hostile (counts are numbered in generation order); -1 = none
	tgt     int
	hostile bool // set once a hostile count has been written
	hitName string
	cutAt   int // bit position right after the hostile count (for truncation), -1 if none
}

func c16NewSyn(r *rand.Rand, hostile bool) *c16Syn {
	s := &c16Syn{r: r, w: &c16BW{}, tgt: -1, cutAt: -1}
	if hostile {
		s.tgt = r.Intn(14)
		if r.Intn(3) == 0 {
			s.tgt = r.Intn(40)
		}
	}
	return s
}

var c16Huge = []uint64{13, 29, 61, 100, 200, 253, 254, 255, 256, 257, 1023, 4096, 65534, 65535, 65536, 1 << 20, 1 << 24, 1<<31 - 1, 1 << 31, 1<<32 - 2, 1<<32 - 1, 1 << 32, 1<<32 + 1, 1 << 40, 1 << 56, 1<<62 - 1, 1<<63 - 2}

// hugeUE writes a hostile Exp-Golomb code and returns a rough value (capped) for the generator's own loops
func (s *c16Syn) hugeUE() {
	switch s.r.Intn(4) {
	case 0: // very long zero runs (values >= 2^63, 2^64 wrap)
		z := []int{62, 63, 64, 65, 70, 100, 200}[s.r.Intn(7)]
		var suf uint64
		switch s.r.Intn(3) {
		case 0:
			suf = 0
		case 1:
			suf = ^uint64(0)
		default:
			suf = s.r.Uint64()
		}
		s.w.ueRaw(z, suf)
	default:
		s.w.ue(c16Huge[s.r.Intn(len(c16Huge))])
	}
}

// cnt writes a count-like ue(v) field: benign value in 0..max, or hostile when this is the targeted count.
// It returns the number of entries the generator should write after it.
func (s *c16Syn) cnt(name string, max int) int {
	if s.tgt == 0 && !s.hostile {
		s.tgt = -1
		s.hostile = true
		s.hitName = name
		s.hugeUE()
		s.cutAt = s.w.nbit
		return s.r.Intn(4)
	}
	if s.tgt > 0 {
		s.tgt--
	}
	v := 0
	if max > 0 {
		switch s.r.Intn(4) {
		case 0:
			v = 0
		case 1:
			v = max
		default:
			v = s.r.Intn(max + 1)
		}
	}
	s.w.ue(uint64(v))
	return v
}

// val writes a non-count ue (sizes, offsets, ids): small, occasionally large
func (s *c16Syn) val(max int) uint64 {
	var v uint64
	if s.r.Intn(120) == 0 {
		v = c16Huge[s.r.Intn(len(c16Huge))]
	} else if max > 0 {
		v = uint64(s.r.Intn(max + 1))
	}
	s.w.ue(v)
	return v
}

func (s *c16Syn) sval(max int) {
	v := int64(s.r.Intn(2*max+1) - max)
	if s.r.Intn(120) == 0 {
		v = int64(c16Huge[s.r.Intn(len(c16Huge)-1)] / 2)
		if s.r.Intn(2) == 0 {
			v = -v
		}
	}
	s.w.se(v)
}

func (s *c16Syn) flag(pTrue int) bool { // pTrue in percent
	b := s.r.Intn(100) < pTrue
	s.w.f(b)
	return b
}

func (s *c16Syn) bits(n int) uint64 {
	var v uint64
	if n > 0 {
		v = s.r.Uint64()
		if n < 64 {
			v &= 1<<uint(n) - 1
		}
	}
	s.w.u(n, v)
	return v
}

// finish returns the NAL unit: header + emulation-prevented payload; hostile units are sometimes cut right
// after the hostile count or given a random tail instead of the regular continuation.
func (s *c16Syn) finish(hdr []byte, how int) []byte {
	rb := s.w.bytes()
	if s.hostile && s.cutAt >= 0 {
		switch how {
		case 1: // cut right after the hostile count (the parser then reads zeros past the end)
			rb = rb[:(s.cutAt+7)/8]
		case 2: // cut and append random bytes
			rb = rb[:(s.cutAt+7)/8]
			t := make([]byte, s.r.Intn(40))
			s.r.Read(t)
			rb = append(rb, t...)
		case 3: // cut and append zeros / ones
			rb = rb[:(s.cutAt+7)/8]
			fill := byte(0)
			if s.r.Intn(2) == 0 {
				fill = 0xff
			}
			for i, n := 0, s.r.Intn(64); i < n; i++ {
				rb = append(rb, fill)
			}
		}
	}
	return append(append([]byte{}, hdr...), escRef(rb)...)
}

// ================================================================= AVC

type c16AvcSpsInfo struct {
	id                  uint64
	log2FrameNum        uint64
	pocType             int
	log2Poc             uint64
	deltaZero           bool
	frameMbsOnly        bool
	separate            bool
	chromaArray         int
	hrd                 bool
	picStruct           bool
	cpbLen, dpbLen, tol int
}

func (s *c16Syn) avcScalingLists(n int) {
	for i := 0; i < n; i++ {
		if !s.flag(40) {
			continue
		}
		size := 16
		if i >= 6 {
			size = 64
		}
		for j := 0; j < size; j++ {
			s.w.se(1) // nextScale stays non-zero so that the parser reads every delta
		}
	}
}

func (s *c16Syn) avcHrd() (cpbLen, dpbLen, tol int) {
	n := s.cnt("avc.sps.cpb_cnt_minus1", 3)
	s.bits(4)
	s.bits(4)
	for i := 0; i <= n; i++ {
		s.val(1000)
		s.val(1000)
		s.flag(50)
	}
	s.bits(5)
	cpbLen = int(s.bits(5))
	dpbLen = int(s.bits(5))
	tol = int(s.bits(5))
	return
}

func c16AvcSPS(r *rand.Rand, hostile bool, how int) ([]byte, *c16AvcSpsInfo) {
	s := c16NewSyn(r, hostile)
	in := &c16AvcSpsInfo{chromaArray: 1}
	profile := []uint64{66, 77, 88, 100, 110, 122, 244, 44, 83, 86, 118, 128, 138, 139, 134, 135}[r.Intn(16)]
	s.w.u(8, profile)
	s.w.u(8, uint64(r.Intn(256)))
	s.w.u(8, uint64([]int{30, 31, 40, 51, 9}[r.Intn(5)]))
	in.id = uint64(r.Intn(2))
	if r.Intn(30) == 0 {
		in.id = uint64(r.Intn(32))
	}
	s.w.ue(in.id)
	if profile != 66 && profile != 77 && profile != 88 {
		cf := r.Intn(4)
		if r.Intn(30) == 0 {
			cf = 4 + r.Intn(300)
		}
		s.w.ue(uint64(cf))
		in.chromaArray = cf & 0xff
		if cf == 3 {
			in.separate = s.flag(50)
			if in.separate {
				in.chromaArray = 0
			}
		}
		s.val(6)
		s.val(6)
		s.flag(10)
		if s.flag(30) {
			n := 8
			if cf&0xff == 3 {
				n = 12
			}
			s.avcScalingLists(n)
		}
	}
	in.log2FrameNum = uint64(s.cnt("avc.sps.log2_max_frame_num_minus4", 12))
	if s.hitName == "avc.sps.log2_max_frame_num_minus4" {
		in.log2FrameNum = 1 << 62 // the slice generator then writes no frame_num bits
	}
	in.pocType = r.Intn(3)
	s.w.ue(uint64(in.pocType))
	switch in.pocType {
	case 0:
		in.log2Poc = uint64(s.cnt("avc.sps.log2_max_pic_order_cnt_lsb_minus4", 12))
		if s.hitName == "avc.sps.log2_max_pic_order_cnt_lsb_minus4" {
			in.log2Poc = 1 << 62
		}
	case 1:
		in.deltaZero = s.flag(50)
		s.val(100)
		s.val(100)
		n := s.cnt("avc.sps.num_ref_frames_in_pic_order_cnt_cycle", 6)
		for i := 0; i < n; i++ {
			s.val(100)
		}
	}
	s.val(16)
	s.flag(10)
	s.val(120)
	s.val(68)
	in.frameMbsOnly = s.flag(70)
	if !in.frameMbsOnly {
		s.flag(50)
	}
	s.flag(80)
	if s.flag(40) {
		for i := 0; i < 4; i++ {
			s.val(8)
		}
	}
	if s.flag(70) { // VUI
		if s.flag(60) {
			idc := uint64(1 + r.Intn(16))
			switch r.Intn(6) {
			case 0:
				idc = 255
			case 1:
				idc = uint64(r.Intn(256))
			}
			s.w.u(8, idc)
			if idc == 255 {
				s.bits(16)
				s.bits(16)
			}
		}
		if s.flag(30) {
			s.flag(50)
		}
		if s.flag(50) {
			s.bits(3)
			s.flag(50)
			if s.flag(50) {
				s.bits(24)
			}
		}
		if s.flag(30) {
			s.val(5)
			s.val(5)
		}
		if s.flag(60) {
			s.bits(32)
			s.bits(32)
			s.flag(50)
		}
		nal := s.flag(40)
		if nal {
			in.cpbLen, in.dpbLen, in.tol = s.avcHrd()
		}
		vcl := s.flag(30)
		if vcl {
			in.cpbLen, in.dpbLen, in.tol = s.avcHrd()
		}
		in.hrd = nal || vcl
		if in.hrd {
			s.flag(50)
		}
		in.picStruct = s.flag(60)
		if s.flag(50) {
			s.flag(50)
			for i := 0; i < 6; i++ {
				s.val(16)
			}
		}
	}
	s.w.trailing()
	return s.finish([]byte{0x67}, how), in
}

type c16AvcPpsInfo struct {
	id, spsID                               uint64
	entropy, bottomField, weighted, deblock bool
	redundant                               bool
	bipred                                  int
	sliceGroups                             int
	mapType                                 int
}

func c16AvcPPS(r *rand.Rand, hostile bool, how int, spsID uint64, chroma3 bool) ([]byte, *c16AvcPpsInfo) {
	s := c16NewSyn(r, hostile)
	in := &c16AvcPpsInfo{}
	// the slice-header parser looks the SPS up by the PPS id: keep both ids equal most of the time
	in.id = spsID
	if r.Intn(8) == 0 {
		in.id = uint64(r.Intn(4))
	}
	in.spsID = spsID
	s.w.ue(in.id)
	s.w.ue(in.spsID)
	in.entropy = s.flag(50)
	in.bottomField = s.flag(30)
	n := 0
	if r.Intn(3) == 0 || hostile {
		n = s.cnt("avc.pps.num_slice_groups_minus1", 7)
	} else {
		s.w.ue(0)
	}
	in.sliceGroups = n
	if n > 0 || (s.hostile && s.hitName == "avc.pps.num_slice_groups_minus1") {
		mt := r.Intn(7)
		if r.Intn(20) == 0 {
			mt = 7 + r.Intn(5)
		}
		in.mapType = mt
		s.w.ue(uint64(mt))
		switch mt {
		case 0:
			for i := 0; i <= n; i++ {
				s.val(50)
			}
		case 2:
			for i := 0; i <= n; i++ {
				s.val(50)
				s.val(50)
			}
		case 3, 4, 5:
			s.flag(50)
			if s.tgt == 0 || r.Intn(20) == 0 {
				s.cnt("avc.pps.slice_group_change_rate_minus1", 8)
			} else {
				s.val(8)
			}
		case 6:
			nb := 0
			for (1 << uint(nb)) < n+1 {
				nb++
			}
			for i := 0; i <= n; i++ {
				s.bits(nb)
			}
		}
	}
	if hostile && r.Intn(3) == 0 {
		s.cnt("avc.pps.num_ref_idx_l0_default_active_minus1", 15)
		s.cnt("avc.pps.num_ref_idx_l1_default_active_minus1", 15)
	} else {
		s.w.ue(uint64(r.Intn(4)))
		s.w.ue(uint64(r.Intn(4)))
	}
	in.weighted = s.flag(50)
	in.bipred = int(s.bits(2))
	s.sval(10)
	s.sval(10)
	s.sval(10)
	in.deblock = s.flag(50)
	s.flag(30)
	in.redundant = s.flag(20)
	if r.Intn(2) == 0 {
		t8 := s.flag(60)
		if s.flag(40) && t8 {
			nl := 8
			if chroma3 {
				nl = 12
			}
			s.avcScalingLists(nl)
		}
		s.sval(10)
	}
	s.w.trailing()
	return s.finish([]byte{0x68}, how), in
}

func c16CeilLog2(n uint64) int {
	for i := 0; i < 32; i++ {
		if uint64(1)<<uint(i) >= n {
			return i
		}
	}
	return 32
}

func c16AvcSlice(r *rand.Rand, hostile bool, how int, sps *c16AvcSpsInfo, pps *c16AvcPpsInfo) []byte {
	s := c16NewSyn(r, hostile)
	naluType := []int{1, 1, 5, 5, 2, 19}[r.Intn(6)]
	refIdc := r.Intn(4)
	if naluType == 5 && refIdc == 0 {
		refIdc = 1
	}
	hdr := byte(refIdc<<5 | naluType)
	s.val(100)
	st := r.Intn(10)
	if r.Intn(40) == 0 {
		st = 10 + r.Intn(20)
	}
	s.w.ue(uint64(st))
	st %= 5
	s.w.ue(pps.id)
	if sps.separate {
		s.bits(2)
	}
	if sps.log2FrameNum < 60 {
		s.bits(int(sps.log2FrameNum) + 4)
	}
	field := false
	if !sps.frameMbsOnly {
		field = s.flag(40)
		if field {
			s.flag(50)
		}
	}
	if naluType == 5 {
		s.val(100)
	}
	if sps.pocType == 0 {
		if sps.log2Poc < 60 {
			s.bits(int(sps.log2Poc) + 4)
		}
		if pps.bottomField && !field {
			s.sval(10)
		}
	} else if sps.pocType == 1 && !sps.deltaZero {
		s.sval(10)
		if pps.bottomField && !field {
			s.sval(10)
		}
	}
	if pps.redundant {
		s.val(5)
	}
	isB := st == 1
	isP := st == 0 || st == 3
	if isB {
		s.flag(50)
	}
	l0, l1 := 2, 2
	if isP || isB {
		if s.flag(60) {
			l0 = s.cnt("avc.slice.num_ref_idx_l0_active_minus1", 5)
			if isB {
				l1 = s.cnt("avc.slice.num_ref_idx_l1_active_minus1", 5)
			}
		}
	}
	rplm := func() {
		if s.flag(50) {
			n := r.Intn(6)
			for i := 0; i < n; i++ {
				op := []uint64{0, 1, 2, 4, 5, 6, 9}[r.Intn(7)]
				s.w.ue(op)
				if op <= 2 || op == 4 || op == 5 {
					s.val(20)
				}
			}
			if r.Intn(6) != 0 {
				s.w.ue(3)
			}
		}
	}
	if st != 2 && st != 4 {
		rplm()
	}
	if isB {
		rplm()
	}
	if pps.weighted && (isP) || (pps.bipred == 1 && isB) {
		s.val(7)
		if sps.chromaArray != 0 {
			s.val(7)
		}
		pw := func(n int) {
			for i := 0; i <= n && i < 40; i++ {
				if s.flag(50) {
					s.val(20)
					s.val(20)
				}
				if sps.chromaArray != 0 {
					if s.flag(50) {
						for j := 0; j < 4; j++ {
							s.val(20)
						}
					}
				}
			}
		}
		pw(l0)
		if isB {
			pw(l1)
		}
	}
	if refIdc != 0 {
		if naluType == 5 {
			s.flag(50)
			s.flag(50)
		} else if s.flag(50) {
			n := r.Intn(6)
			for i := 0; i < n; i++ {
				op := uint64(1 + r.Intn(8))
				s.w.ue(op)
				if op == 1 || op == 3 || op == 2 {
					s.val(20)
				}
				if op == 3 || op == 6 || op == 4 {
					s.val(20)
				}
			}
			if r.Intn(6) != 0 {
				s.w.ue(0)
			}
		}
	}
	if pps.entropy && st != 2 && st != 4 {
		s.val(2)
	}
	s.sval(20)
	if st == 3 || st == 4 {
		if st == 3 {
			s.flag(50)
		}
		s.sval(20)
	}
	if pps.deblock {
		idc := s.val(2)
		if idc != 1 {
			s.sval(6)
			s.sval(6)
		}
	}
	if pps.sliceGroups > 0 && pps.mapType >= 3 && pps.mapType <= 5 {
		s.bits(1 + r.Intn(3))
	}
	// slice data
	t := make([]byte, r.Intn(24))
	r.Read(t)
	s.w.u(8, uint64(r.Intn(256)))
	out := s.finish([]byte{hdr}, how)
	return append(out, escRef(t)...)
}

// ================================================================= HEVC

type c16HevcSpsInfo struct {
	id         uint64
	chroma     int
	separate   bool
	log2Poc    int
	numSt      int
	numDelta   []int // NumDeltaPocs per short-term RPS as the parser derives it
	ltPresent  bool
	numLt      int
	sao, tmvp  bool
	sccMvRes2  bool
	log2MinCb  uint64
	log2DiffCb uint64
	w, h       uint64
	maxSub     int
}

func (s *c16Syn) hevcPTL(maxSub int) {
	s.bits(8)
	s.bits(32)
	s.bits(48)
	s.bits(8)
	if maxSub > 0 {
		pp := make([]bool, maxSub)
		lp := make([]bool, maxSub)
		for i := 0; i < maxSub; i++ {
			pp[i] = s.flag(30)
			lp[i] = s.flag(30)
		}
		if maxSub < 8 {
			s.w.u(2*(8-maxSub), 0)
		}
		for i := 0; i < maxSub; i++ {
			if pp[i] {
				s.bits(8)
				s.bits(32)
				s.bits(48)
			}
			if lp[i] {
				s.bits(8)
			}
		}
	}
}

func (s *c16Syn) hevcScalingListData() {
	for sizeID := 0; sizeID < 4; sizeID++ {
		nm := 6
		if sizeID == 3 {
			nm = 2
		}
		for m := 0; m < nm; m++ {
			if !s.flag(50) {
				s.val(3)
			} else {
				coef := 1 << uint(4+2*sizeID)
				if coef > 64 {
					coef = 64
				}
				if sizeID > 1 {
					s.val(10)
				}
				for i := 0; i < coef; i++ {
					s.val(4)
				}
			}
		}
	}
}

func (s *c16Syn) hevcSubLayerHrd(n int, subPic bool) {
	for i := 0; i <= n && i < 40; i++ {
		s.val(1000)
		s.val(1000)
		if subPic {
			s.val(1000)
			s.val(1000)
		}
		s.flag(50)
	}
}

func (s *c16Syn) hevcHrd(maxSub int) {
	nal := s.flag(60)
	vcl := s.flag(40)
	subPic := false
	if nal || vcl {
		subPic = s.flag(40)
		if subPic {
			s.bits(8)
			s.bits(5)
			s.flag(50)
			s.bits(5)
		}
		s.bits(8)
		if subPic {
			s.bits(4)
		}
		s.bits(15)
	}
	for i := 0; i <= maxSub; i++ {
		fixedGeneral := s.flag(50)
		fixedCvs := true
		if !fixedGeneral {
			fixedCvs = s.flag(50)
		}
		lowDelay := false
		if fixedCvs {
			s.val(2047)
		} else {
			lowDelay = s.flag(50)
		}
		n := 0
		if !lowDelay {
			n = s.cnt("hevc.hrd.cpb_cnt_minus1", 4)
		}
		if nal {
			s.hevcSubLayerHrd(n, subPic)
		}
		if vcl {
			s.hevcSubLayerHrd(n, subPic)
		}
	}
}

func (s *c16Syn) hevcVUI(maxSub int) {
	if s.flag(50) {
		idc := uint64(1 + s.r.Intn(16))
		switch s.r.Intn(6) {
		case 0:
			idc = 255
		case 1:
			idc = uint64(s.r.Intn(256))
		}
		s.w.u(8, idc)
		if idc == 255 {
			s.bits(32)
		}
	}
	if s.flag(30) {
		s.flag(50)
	}
	if s.flag(50) {
		s.bits(3)
		s.flag(50)
		if s.flag(50) {
			s.bits(24)
		}
	}
	if s.flag(30) {
		s.val(5)
		s.val(5)
	}
	s.flag(20)
	s.flag(20)
	s.flag(40)
	if s.flag(30) {
		for i := 0; i < 4; i++ {
			s.val(8)
		}
	}
	if s.flag(70) {
		s.bits(32)
		s.bits(32)
		if s.flag(40) {
			s.val(10)
		}
		if s.flag(60) {
			s.hevcHrd(maxSub)
		}
	}
	if s.flag(50) {
		s.flag(50)
		s.flag(50)
		s.flag(50)
		for i := 0; i < 5; i++ {
			s.val(16)
		}
	}
}

// hevcStRps writes st_ref_pic_set(idx); numDelta holds the parser-derived NumDeltaPocs of earlier sets.
// chain=true writes an inter-predicted set whose flags are all "used" (NumDeltaPocs grows by one).
func (s *c16Syn) hevcStRps(idx, num int, numDelta []int, chain bool) int {
	inter := false
	if idx > 0 {
		p := 40
		if chain {
			p = 100
		}
		inter = s.flag(p)
	}
	if inter {
		ref := idx - 1
		if idx == num { // slice header
			d := 0
			if idx > 0 {
				d = s.r.Intn(idx)
			}
			if s.r.Intn(6) == 0 {
				// hostile delta_idx_minus1: beyond idx, 255 (wraps to 0 as a byte), large
				d = []int{idx, idx + 1, 254, 255, 256, 70000}[s.r.Intn(6)]
			}
			s.w.ue(uint64(d))
			ref = idx - (d+1)&0xff
			if ref < 0 || ref >= len(numDelta) {
				ref = 0
			}
		}
		s.bits(1)
		s.val(10)
		nd := 0
		if ref < len(numDelta) {
			nd = numDelta[ref]
		}
		out := 0
		for j := 0; j <= nd; j++ {
			used := chain || s.r.Intn(2) == 0
			s.w.f(used)
			if used {
				out++
			} else if s.flag(50) {
				out++
			}
		}
		return out & 0xff
	}
	neg := s.cnt("hevc.strps.num_negative_pics", 4)
	pos := s.cnt("hevc.strps.num_positive_pics", 4)
	for i := 0; i < neg; i++ {
		s.val(8)
		s.flag(60)
	}
	for i := 0; i < pos; i++ {
		s.val(8)
		s.flag(60)
	}
	return (neg + pos) & 0xff
}

func c16HevcSPS(r *rand.Rand, hostile bool, how int, chainRps bool) ([]byte, *c16HevcSpsInfo) {
	s := c16NewSyn(r, hostile)
	in := &c16HevcSpsInfo{}
	s.bits(4)
	in.maxSub = r.Intn(3)
	if r.Intn(6) == 0 {
		in.maxSub = r.Intn(8)
	}
	s.w.u(3, uint64(in.maxSub))
	s.flag(80)
	s.hevcPTL(in.maxSub)
	in.id = uint64(r.Intn(2))
	s.w.ue(in.id)
	in.chroma = r.Intn(4)
	if r.Intn(40) == 0 {
		in.chroma = 4 + r.Intn(300)
	}
	s.w.ue(uint64(in.chroma))
	if in.chroma == 3 {
		in.separate = s.flag(50)
	}
	in.chroma &= 0xff
	in.w = s.val(4096)
	in.h = s.val(2304)
	if s.flag(40) {
		for i := 0; i < 4; i++ {
			s.val(8)
		}
	}
	s.val(8)
	s.val(8)
	l2 := s.val(12)
	in.log2Poc = int(l2 & 0xff)
	start := in.maxSub
	if s.flag(40) {
		start = 0
	}
	for i := start; i <= in.maxSub; i++ {
		s.val(5)
		s.val(5)
		s.val(5)
	}
	in.log2MinCb = uint64(s.cnt("hevc.sps.log2_min_luma_coding_block_size_minus3", 3))
	in.log2DiffCb = uint64(s.cnt("hevc.sps.log2_diff_max_min_luma_coding_block_size", 3))
	if strings.HasPrefix(s.hitName, "hevc.sps.log2_") {
		in.log2MinCb = 1 << 40 // the slice generator then writes no slice_segment_address bits
	}
	s.val(3)
	s.val(3)
	s.val(4)
	s.val(4)
	if s.flag(30) {
		if s.flag(60) {
			s.hevcScalingListData()
		}
	}
	s.flag(50)
	in.sao = s.flag(50)
	if s.flag(30) {
		s.bits(8)
		s.val(3)
		s.val(3)
		s.flag(50)
	}
	// short-term RPS
	if chainRps {
		// 32 explicit pictures, then inter-predicted sets that each add one: NumDeltaPocs reaches 255 and wraps
		in.numSt = 230 + r.Intn(26)
		s.w.ue(uint64(in.numSt))
		for idx := 0; idx < in.numSt; idx++ {
			var nd int
			if idx == 0 {
				s.w.ue(16)
				s.w.ue(16)
				for i := 0; i < 32; i++ {
					s.w.ue(0)
					s.w.f(true)
				}
				nd = 32
			} else {
				nd = s.hevcStRps(idx, in.numSt, in.numDelta, true)
			}
			in.numDelta = append(in.numDelta, nd)
		}
	} else {
		in.numSt = s.cnt("hevc.sps.num_short_term_ref_pic_sets", 5)
		if in.numSt > 64 {
			in.numSt = 64
		}
		for idx := 0; idx < in.numSt; idx++ {
			in.numDelta = append(in.numDelta, s.hevcStRps(idx, in.numSt, in.numDelta, false))
		}
	}
	in.ltPresent = s.flag(40)
	if in.ltPresent {
		in.numLt = s.cnt("hevc.sps.num_long_term_ref_pics_sps", 4)
		for i := 0; i < in.numLt; i++ {
			s.bits(in.log2Poc + 4)
			s.flag(50)
		}
	}
	in.tmvp = s.flag(50)
	s.flag(50)
	if s.flag(50) {
		s.hevcVUI(in.maxSub)
	}
	if s.flag(40) {
		rng := s.flag(40)
		ml := s.flag(30)
		d3 := s.flag(30)
		scc := s.flag(40)
		e4 := uint64(0)
		if r.Intn(5) == 0 {
			e4 = uint64(r.Intn(16))
		}
		s.w.u(4, e4)
		if rng {
			s.bits(9)
		}
		if ml {
			s.flag(50)
		}
		if d3 {
			s.flag(50)
			s.flag(50)
			s.val(3)
			s.bits(4)
			s.bits(3)
			s.val(3)
			s.bits(5)
		}
		if scc {
			s.flag(50)
			if s.flag(60) {
				s.val(64)
				s.val(64)
				if s.flag(60) {
					n := s.cnt("hevc.sps.num_palette_predictor_initializers_minus1", 6)
					comps := 3
					if in.chroma == 0 {
						comps = 1
					}
					for c := 0; c < comps; c++ {
						for i := 0; i <= n; i++ {
							s.bits(8)
						}
					}
				}
			}
			mv := s.bits(2)
			in.sccMvRes2 = mv == 2
			s.flag(50)
		}
		if e4 > 0 {
			for i, n := 0, r.Intn(40); i < n; i++ {
				s.flag(50)
			}
		}
	}
	s.w.trailing()
	return s.finish([]byte{0x42, 0x01}, how), in
}

type c16HevcPpsInfo struct {
	id, spsID                                     uint64
	dep, outputFlag, cabacInit, wp, wbp, listsMod bool
	extraBits                                     int
	chromaQpOffsets, deblockOverride, lfAcross    bool
	tiles, entropySync, sliceExt                  bool
	sccCurrPicRef, sccAct, rangeChromaList        bool
	l0, l1                                        int
}

func (s *c16Syn) hevcOctants(octDepth, partNumY uint, resLs int, depth uint) {
	split := false
	if depth < octDepth {
		split = s.flag(50)
	}
	if split {
		for k := 0; k < 8; k++ {
			s.hevcOctants(octDepth, partNumY, resLs, depth+1)
		}
		return
	}
	for i := uint(0); i < partNumY; i++ {
		for j := 0; j < 4; j++ {
			if s.flag(40) {
				for c := 0; c < 3; c++ {
					q := s.val(3)
					rr := s.bits(resLs)
					if q != 0 || rr != 0 {
						s.flag(50)
					}
				}
			}
		}
	}
}

func c16HevcPPS(r *rand.Rand, hostile bool, how int, spsID uint64) ([]byte, *c16HevcPpsInfo) {
	s := c16NewSyn(r, hostile)
	in := &c16HevcPpsInfo{}
	in.id = uint64(r.Intn(2))
	in.spsID = spsID
	s.w.ue(in.id)
	s.w.ue(in.spsID)
	in.dep = s.flag(40)
	in.outputFlag = s.flag(40)
	in.extraBits = int(s.bits(3))
	s.flag(50)
	in.cabacInit = s.flag(50)
	if hostile && r.Intn(3) == 0 {
		in.l0 = s.cnt("hevc.pps.num_ref_idx_l0_default_active_minus1", 14) & 0xff
		in.l1 = s.cnt("hevc.pps.num_ref_idx_l1_default_active_minus1", 14) & 0xff
	} else {
		in.l0 = r.Intn(4)
		in.l1 = r.Intn(4)
		s.w.ue(uint64(in.l0))
		s.w.ue(uint64(in.l1))
	}
	s.sval(20)
	s.flag(30)
	transformSkip := s.flag(50)
	if s.flag(50) {
		s.val(3)
	}
	s.sval(12)
	s.sval(12)
	in.chromaQpOffsets = s.flag(40)
	in.wp = s.flag(50)
	in.wbp = s.flag(50)
	s.flag(20)
	in.tiles = s.flag(40)
	in.entropySync = s.flag(30)
	if in.tiles {
		cols := s.cnt("hevc.pps.num_tile_columns_minus1", 5)
		rows := s.cnt("hevc.pps.num_tile_rows_minus1", 5)
		if !s.flag(50) {
			for i := 0; i < cols; i++ {
				s.val(10)
			}
			for i := 0; i < rows; i++ {
				s.val(10)
			}
		}
		s.flag(50)
	}
	in.lfAcross = s.flag(50)
	if s.flag(50) {
		in.deblockOverride = s.flag(50)
		if !s.flag(40) {
			s.sval(6)
			s.sval(6)
		}
	}
	if s.flag(25) {
		s.hevcScalingListData()
	}
	in.listsMod = s.flag(50)
	s.val(4)
	in.sliceExt = s.flag(30)
	if s.flag(60) {
		rng := s.flag(50)
		ml := s.flag(40)
		d3 := s.flag(40)
		scc := s.flag(40)
		e4 := uint64(0)
		if r.Intn(5) == 0 {
			e4 = uint64(r.Intn(16))
		}
		s.w.u(4, e4)
		if rng {
			if transformSkip {
				s.val(3)
			}
			s.flag(50)
			in.rangeChromaList = s.flag(60)
			if in.rangeChromaList {
				s.val(3)
				n := s.cnt("hevc.pps.chroma_qp_offset_list_len_minus1", 5)
				for i := 0; i <= n; i++ {
					s.sval(12)
					s.sval(12)
				}
			}
			s.val(3)
			s.val(3)
		}
		if ml {
			s.flag(50)
			if s.flag(40) {
				s.bits(6)
			}
			n := s.cnt("hevc.pps.num_ref_loc_offsets", 4)
			for i := 0; i < n; i++ {
				s.bits(6)
				if s.flag(50) {
					for k := 0; k < 4; k++ {
						s.sval(100)
					}
				}
				if s.flag(50) {
					for k := 0; k < 4; k++ {
						s.sval(100)
					}
				}
				if s.flag(50) {
					for k := 0; k < 4; k++ {
						s.val(31)
					}
				}
			}
			if s.flag(50) { // colour mapping table
				nl := s.cnt("hevc.pps.num_cm_ref_layers_minus1", 3)
				for i := 0; i <= nl && i < 70; i++ {
					s.bits(6)
				}
				od := uint(s.bits(2))
				yp := uint(s.bits(2))
				li := s.val(4)
				s.val(4)
				lo := s.val(4)
				s.val(4)
				rq := s.bits(2)
				df := s.bits(2)
				if od == 1 {
					s.sval(10)
					s.sval(10)
				}
				resLs := 10 + int(li&0xff) - int(lo&0xff) - int(rq) - int(df+1)
				if resLs < 0 {
					resLs = 0
				}
				if resLs > 40 {
					resLs = 40
				}
				s.hevcOctants(od, 1<<yp, resLs, 0)
			}
		}
		if d3 {
			if s.flag(70) {
				nl := int(s.bits(6))
				if r.Intn(2) == 0 {
					nl = r.Intn(3)
					// rewrite: simpler to keep the random 6 bits; the generator below only bounds its own loop
				}
				bd := int(s.bits(4))
				for i := 0; i <= nl && i < 6; i++ {
					if s.flag(70) {
						pred := s.flag(40)
						valFlags := false
						if !pred {
							valFlags = s.flag(40)
						}
						if valFlags {
							for j, n := 0, r.Intn(300); j < n; j++ {
								s.flag(50)
							}
						} else {
							// delta_dlt
							b := bd + 8
							nv := s.bits(b)
							if nv > 0 {
								var maxDiff, minDiff uint64
								if nv > 1 {
									maxDiff = s.bits(b)
								}
								if nv > 2 && maxDiff > 0 {
									// min_diff_minus1: boundary values as well as random ones (0; max_diff - 1, i.e. all
									// differences equal, no per-value element coded)
									switch wd := c16CeilLog2(maxDiff + 1); r.Intn(3) {
									case 0:
										minDiff = maxDiff - 1
										s.w.u(wd, minDiff)
									case 1:
										minDiff = 0
										s.w.u(wd, 0)
									default:
										minDiff = s.bits(wd)
									}
								} else {
									minDiff = maxDiff - 1
								}
								s.bits(b)
								if maxDiff > minDiff+1 {
									nb := c16CeilLog2(maxDiff - (minDiff + 1) + 1)
									for k := uint64(1); k < nv && k < 50; k++ {
										s.bits(nb)
									}
								}
							}
						}
					}
				}
			}
		}
		if scc {
			in.sccCurrPicRef = s.flag(50)
			if s.flag(50) {
				in.sccAct = s.flag(50)
				s.sval(10)
				s.sval(10)
				s.sval(10)
			}
			if s.flag(60) {
				n := s.cnt("hevc.pps.num_palette_predictor_initializers", 6)
				if n > 0 || s.hitName == "hevc.pps.num_palette_predictor_initializers" {
					mono := s.flag(40)
					lb := s.val(4)
					cb := uint64(0)
					if !mono {
						cb = s.val(4)
					}
					for i := 0; i < n; i++ {
						s.bits(int(lb&0xff) + 8)
					}
					if !mono {
						for i := 0; i < 2*n; i++ {
							s.bits(int(cb&0xff) + 8)
						}
					}
				}
			}
		}
		if e4 > 0 {
			for i, n := 0, r.Intn(40); i < n; i++ {
				s.flag(50)
			}
		}
	}
	s.w.trailing()
	return s.finish([]byte{0x44, 0x01}, how), in
}

func c16HevcSlice(r *rand.Rand, hostile bool, how int, sps *c16HevcSpsInfo, pps *c16HevcPpsInfo) []byte {
	s := c16NewSyn(r, hostile)
	nt := []int{0, 1, 1, 19, 20, 21, 16, 9, 8}[r.Intn(9)]
	hdr := []byte{byte(nt << 1), 1}
	first := s.flag(70)
	if nt >= 16 && nt <= 23 {
		s.flag(50)
	}
	s.w.ue(pps.id)
	dependent := false
	if !first {
		if pps.dep {
			dependent = s.flag(30)
		}
		sh := sps.log2MinCb + 3 + sps.log2DiffCb
		if sh < 40 {
			ctb := uint64(1) << uint(sh&0xff)
			n := ((sps.w&0xffffffff + ctb - 1) / ctb) * ((sps.h&0xffffffff + ctb - 1) / ctb)
			s.bits(c16CeilLog2(n))
		}
	}
	if !dependent {
		for i := 0; i < pps.extraBits; i++ {
			s.flag(50)
		}
		st := r.Intn(3)
		if r.Intn(40) == 0 {
			st = 3 + r.Intn(10)
		}
		s.w.ue(uint64(st))
		if pps.outputFlag {
			s.flag(50)
		}
		if sps.separate {
			s.bits(2)
		}
		tmvp := false
		if nt != 19 && nt != 20 {
			s.bits(sps.log2Poc + 4)
			spsFlag := s.flag(50)
			if !spsFlag {
				s.hevcStRps(sps.numSt, sps.numSt, sps.numDelta, false)
			} else if sps.numSt > 1 {
				s.bits(c16CeilLog2(uint64(sps.numSt)))
			}
			if sps.ltPresent {
				nsps := 0
				if sps.numLt > 0 {
					nsps = s.cnt("hevc.slice.num_long_term_sps", sps.numLt)
				}
				npics := s.cnt("hevc.slice.num_long_term_pics", 3)
				for i := 0; i < nsps+npics && i < 40; i++ {
					if i < nsps {
						if sps.numLt > 1 {
							s.bits(c16CeilLog2(uint64(sps.numLt)))
						}
					} else {
						s.bits(sps.log2Poc + 4)
						s.flag(50)
					}
					if s.flag(40) {
						s.val(10)
					}
				}
			}
			if sps.tmvp {
				tmvp = s.flag(50)
			}
		}
		saoL, saoC := false, false
		if sps.sao {
			saoL = s.flag(50)
			ca := sps.chroma
			if sps.separate && sps.chroma == 3 {
				ca = 0
			}
			if ca != 0 {
				saoC = s.flag(50)
			}
		}
		chromaArray := sps.chroma
		if sps.separate && sps.chroma == 3 {
			chromaArray = 0
		}
		if st == 0 || st == 1 {
			l0, l1 := pps.l0, pps.l1
			if s.flag(60) {
				l0 = s.cnt("hevc.slice.num_ref_idx_l0_active_minus1", 14) & 0xff
				if st == 0 {
					l1 = s.cnt("hevc.slice.num_ref_idx_l1_active_minus1", 14) & 0xff
				}
			}
			if pps.listsMod {
				// NumPicTotalCurr is unknown to the generator: write plausible bits
				if s.flag(50) {
					for i := 0; i <= l0 && i < 20; i++ {
						s.bits(1 + r.Intn(3))
					}
				}
				if st == 0 && s.flag(50) {
					for i := 0; i <= l1 && i < 20; i++ {
						s.bits(1 + r.Intn(3))
					}
				}
			}
			if st == 0 {
				s.flag(50)
			}
			if pps.cabacInit {
				s.flag(50)
			}
			if tmvp {
				col := true
				if st == 0 {
					col = s.flag(50)
				}
				if (col && l0 > 0) || (!col && l1 > 0) {
					s.val(4)
				}
			}
			if (pps.wp && st == 1) || (pps.wbp && st == 0) {
				s.val(7)
				if chromaArray != 0 {
					s.sval(3)
				}
				pw := func(n int) {
					lf := make([]bool, 0)
					cf := make([]bool, 0)
					for i := 0; i <= n && i < 40; i++ {
						lf = append(lf, s.flag(50))
					}
					if chromaArray != 0 {
						for i := 0; i <= n && i < 40; i++ {
							cf = append(cf, s.flag(50))
						}
					}
					for i := range lf {
						if lf[i] {
							s.sval(100)
							s.sval(100)
						}
						if i < len(cf) && cf[i] {
							for k := 0; k < 4; k++ {
								s.sval(100)
							}
						}
					}
				}
				pw(l0)
				if st == 0 {
					pw(l1)
				}
			}
			s.val(4)
			if sps.sccMvRes2 {
				s.flag(50)
			}
		}
		s.sval(20)
		if pps.chromaQpOffsets {
			s.sval(12)
			s.sval(12)
		}
		if pps.sccAct {
			s.sval(12)
			s.sval(12)
			s.sval(12)
		}
		if pps.rangeChromaList {
			s.flag(50)
		}
		override := false
		if pps.deblockOverride {
			override = s.flag(50)
		}
		disabled := false
		if override {
			disabled = s.flag(50)
			if !disabled {
				s.sval(6)
				s.sval(6)
			}
		}
		if pps.lfAcross && (saoL || saoC || !disabled) {
			s.flag(50)
		}
	}
	if pps.tiles || pps.entropySync {
		n := s.cnt("hevc.slice.num_entry_point_offsets", 4)
		if n > 0 || s.hitName == "hevc.slice.num_entry_point_offsets" {
			ol := s.val(31)
			for i := 0; i < n; i++ {
				s.bits(int(ol&0xff) + 1)
			}
		}
	}
	if pps.sliceExt {
		n := s.cnt("hevc.slice.slice_segment_header_extension_length", 6)
		for i := 0; i < n; i++ {
			s.bits(8)
		}
	}
	s.w.trailing()
	t := make([]byte, r.Intn(24))
	r.Read(t)
	out := s.finish(hdr, how)
	return append(out, escRef(t)...)
}
