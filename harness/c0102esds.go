package main

import (
	"bytes"
	"encoding/binary"
	"fmt"
	"strings"

	"github.com/Eyevinn/mp4ff/mp4"
)

// C01 / C02 / C03 on the esds box and its MPEG-4 descriptor tree (mp4/esds.go, mp4/descriptors.go).
//
// The esds payload is not a flat field layout: an ES descriptor holds a DecoderConfig descriptor, an SLConfig descriptor
// and any number of further descriptors (language 0x43, registration, unknown tags, ...), each with a size field of a
// freely chosen number of bytes. The repository's media only have the layout DecoderConfig, SLConfig with minimal or
// 4-byte size fields, so this family supplies the rest of the input space:
//   - decoded side (all three properties): descriptor trees with optional / unknown descriptors at every position
//     (before the DecoderConfig, between DecoderConfig and SLConfig, after the SLConfig, several, no SLConfig, two of
//     them; the same inside the DecoderConfig descriptor around its DecSpecificInfo) in every size-field form, the random
//     trees of the C18 generator (esdsRandPayload), alone and inside mp4a / stsd; each goes through checkBoxBytes (four
//     code paths, direct oracle) and through the Lean model of the descriptor framing (ops esds.dec / esds.rt,
//     Model/Esds.lean; theorems Props/C01c.lean, Props/C02b.lean);
//   - built side (C02 / C03): CreateEsdsBox with decoder configurations of every length around the values at which a
//     descriptor size stops fitting its one-byte size field (ES descriptor: 105, DecoderConfig: 113, DecSpecificInfo: 128)
//     and around 2^14, alone, in stsd > mp4a and in an init segment; CreateRawDescriptor with every size-field length
//     and payloads around 2^7 / 2^14; through checkBuilt (Size() before / after, Encode, EncodeSW exact and with room
//     to spare, header size fields) and the model's esds.create.

// esdsPathAnswers: the canonical model answers (esds.dec, esds.rt) of one decode path + one encoder on a whole esds box
func esdsPathAnswers(r pathResult, enc func(mp4.Box) encResult) (dec, rt string) {
	if r.panic != "" {
		return "panic", "panic"
	}
	if r.err != nil {
		a := "err:" + esdsErrClass(r.err)
		return a, a
	}
	e, ok := r.box.(*mp4.EsdsBox)
	if !ok {
		a := fmt.Sprintf("err:not-esds-%T", r.box)
		return a, a
	}
	if p := safe(func() { dec = esdsRender(e) }); p != "" {
		return "panic", "panic"
	}
	o := enc(e)
	switch {
	case o.panic != "":
		rt = "panic"
	case o.err != nil:
		rt = "encerr"
	default:
		rt = hx(o.out)
	}
	return
}

// esdsModelLines: the model correspondence for one esds payload. C03 asks the same model about the other decode path
// and the other encoder as well.
func esdsModelLines(c *Ctx, which string, payload []byte) {
	box := esdsWrap(payload)
	h := hx(payload)
	dec, rt := esdsPathAnswers(decReader(box), encWriter)
	c.Case("esds.dec "+h, dec)
	c.Case("esds.rt "+h, rt)
	c.Count("model.esds")
	if which == "C03" {
		dec, rt = esdsPathAnswers(decSlice(box), encSlice)
		c.Case("esds.dec "+h, dec)
		c.Case("esds.rt "+h, rt)
		c.Count("model-path.esds-sr-sw")
	}
}

// execEsds: replay of the esds protocol lines on the real code (reader path + Encode)
func execEsds(op string, arg []byte) string {
	switch op {
	case "esds.dec", "esds.rt":
		dec, rt := esdsPathAnswers(decReader(esdsWrap(arg)), encWriter)
		if op == "esds.dec" {
			return dec
		}
		return rt
	case "esds.create":
		return esdsCreateAnswer(arg)
	}
	return "bad-op"
}

func esdsCreateAnswer(cfg []byte) (ans string) {
	p := safe(func() {
		e := mp4.CreateEsdsBox(append([]byte{}, cfg...))
		var buf bytes.Buffer
		if err := e.Encode(&buf); err != nil {
			ans = "encerr"
			return
		}
		ans = fmt.Sprintf("%s size=%d", hx(buf.Bytes()), e.Size())
	})
	if p != "" {
		return "panic"
	}
	return ans
}

// ---- decoded side: descriptor sequences

// one descriptor of a sequence: 'S' SLConfig, 'L' language (tag 0x43), 'U' unknown tag, 'D' DecSpecificInfo (tag 5),
// 'C' DecoderConfig (tag 4), 'B' a raw descriptor whose payload needs a two-byte size field
func esdsLetter(c *Ctx, l byte) (tag byte, body []byte) {
	switch l {
	case 'S':
		return 6, append([]byte{2}, esdsRandBytes(c, c.R.Intn(3)/2)...)
	case 'L':
		return 0x43, []byte{[]byte("sefd")[c.R.Intn(4)], 'w', 'e'}
	case 'U':
		return []byte{0, 1, 2, 7, 8, 0x0e, 0x13, 0x7f, 0x80, 0xc0, 0xfe, 0xff}[c.R.Intn(12)], esdsRandBytes(c, c.R.Intn(6))
	case 'D':
		return 5, esdsRandBytes(c, c.R.Intn(5))
	case 'C':
		b := []byte{0x40, 0x15, 0, 0, 0, 0, 1, 0xf4, 0, 0, 1, 0xf4, 0}
		if c.R.Intn(2) == 0 {
			b = append(b, 5, 2, 0x12, 0x10)
		}
		return 4, b
	}
	return byte(0x60 + c.R.Intn(32)), esdsRandBytes(c, []int{127, 128, 129, 200}[c.R.Intn(4)])
}

// form: 0 = minimal size fields, 1 = the 4-byte padded form everywhere, 2 = a random mix
func esdsFormDesc(c *Ctx, form int, tag byte, body []byte) []byte {
	min := 1
	for x := len(body) >> 7; x > 0; x >>= 7 {
		min++
	}
	n := min
	switch form {
	case 1:
		n = 4
	case 2:
		n = []int{min, min, min + 1, 2, 3, 4, 5}[c.R.Intn(7)]
		if n < min {
			n = min
		}
	}
	out := append([]byte{tag}, esdsSizeField(uint64(len(body)), n)...)
	return append(out, body...)
}

// esdsSeqPayload: version/flags + ES descriptor (optional fields by `esFlags`) holding the descriptors `before`, then a
// DecoderConfig descriptor whose DecSpecificInfo is surrounded by `inner`, then the descriptors `after`
func esdsSeqPayload(c *Ctx, form int, esFlags byte, before, inner, after string) []byte {
	seq := func(s string) []byte {
		var out []byte
		for i := 0; i < len(s); i++ {
			tag, body := esdsLetter(c, s[i])
			out = append(out, esdsFormDesc(c, form, tag, body)...)
		}
		return out
	}
	body := []byte{byte(c.R.Intn(256)), byte(c.R.Intn(256)), esFlags}
	if esFlags>>7 == 1 {
		body = append(body, esdsRandBytes(c, 2)...)
	}
	if (esFlags>>6)&1 == 1 {
		n := c.R.Intn(6)
		body = append(body, byte(n))
		body = append(body, esdsRandBytes(c, n)...)
	}
	if (esFlags>>5)&1 == 1 {
		body = append(body, esdsRandBytes(c, 2)...)
	}
	body = append(body, seq(before)...)
	dc := []byte{0x40, 0x15, 0, 0x18, 0, 0, 1, 0xf4, 0, 0, 0, 0xfa, 0}
	dc = append(dc, seq(inner)...)
	body = append(body, esdsFormDesc(c, form, 4, dc)...)
	body = append(body, seq(after)...)
	return append([]byte{0, 0, 0, 0}, esdsFormDesc(c, form, 3, body)...)
}

// all words over `alphabet` of length 0..maxLen
func esdsWords(alphabet string, maxLen int) []string {
	out := []string{""}
	for from, n := 0, 0; n < maxLen; n++ {
		to := len(out)
		for _, w := range out[from:to] {
			for i := 0; i < len(alphabet); i++ {
				out = append(out, w+string(alphabet[i]))
			}
		}
		from = to
	}
	return out
}

// the esds payload inside an mp4a sample entry (optionally followed by a btrt sibling), and that inside an stsd box
func esdsInSampleEntry(payload []byte, btrt bool) (mp4a, stsd []byte) {
	var buf bytes.Buffer
	if err := mp4.CreateAudioSampleEntryBox("mp4a", 2, 16, 48000, nil).Encode(&buf); err != nil {
		return nil, nil
	}
	mp4a = append(buf.Bytes(), esdsWrap(payload)...)
	if btrt {
		var bb bytes.Buffer
		_ = (&mp4.BtrtBox{BufferSizeDB: 6144, MaxBitrate: 128000, AvgBitrate: 96000}).Encode(&bb)
		mp4a = append(mp4a, bb.Bytes()...)
	}
	binary.BigEndian.PutUint32(mp4a, uint32(len(mp4a)))
	stsd = rawBoxBytes("stsd", append([]byte{0, 0, 0, 0, 0, 0, 0, 1}, mp4a...))
	return
}

func genEsdsBoxes(c *Ctx, which string) {
	c.Note("esds family: descriptor trees with optional / unknown descriptors at every position and every size-field form (alone, in mp4a, in stsd), random descriptor trees, through the four code paths and the descriptor model (esds.dec / esds.rt); CreateEsdsBox for decoder configurations of 0..131 bytes, around 2^14 and larger, CreateRawDescriptor with every size-field length (checkBuilt + esds.create)")
	feed := func(payload []byte, origin string) bool {
		v := checkBoxBytes(c, which, esdsWrap(payload), origin)
		esdsModelLines(c, which, payload)
		key := ""
		if v.accepted {
			key = "esds " + string(payload)
			c.Count("esds-accepted")
		} else {
			c.Count("esds-rejected")
		}
		c.Eval(key)
		return v.accepted
	}
	feedBox := func(bs []byte, origin, bucket string) {
		v := checkBoxBytes(c, which, bs, origin)
		key := ""
		if v.accepted {
			key = string(bs)
			c.Count(bucket + "-accepted")
		} else {
			c.Count(bucket + "-rejected")
		}
		c.Eval(key)
	}
	// (a) descriptor sequences at the ES level (after the DecoderConfig) and inside the DecoderConfig, each size-field form
	k := 0
	one := func(form int, esFlags byte, before, inner, after string) {
		p := esdsSeqPayload(c, form, esFlags, before, inner, after)
		origin := fmt.Sprintf("esds sequence [%s dc(%s) %s] size-field form %d es-flags %#x", before, inner, after, form, esFlags)
		acc := feed(p, origin)
		if acc {
			c.Count("esds-seq-accepted")
		}
		if k++; acc && k%4 == 0 {
			mp4a, stsd := esdsInSampleEntry(p, k%8 == 0)
			if mp4a != nil {
				feedBox(mp4a, origin+" in mp4a", "esds-in-mp4a")
				feedBox(stsd, origin+" in stsd > mp4a", "esds-in-stsd")
			}
		}
	}
	for _, w := range esdsWords("SLUDC", 3) {
		for form := 0; form < 3; form++ {
			one(form, 0, "", "D", w)
		}
	}
	for _, w := range esdsWords("DLUC", 2) {
		for form := 0; form < 3; form++ {
			one(form, 0, "", w, "S")
			one(form, 0, "", w, "LS")
		}
	}
	for _, w := range []string{"L", "U", "S", "D", "LU"} {
		one(c.R.Intn(3), 0, w, "D", "S") // a descriptor before the DecoderConfig
	}
	for it := 0; it < c.N(150, 3000); it++ {
		word := func(alphabet string, max int) string {
			var s []byte
			for n := c.R.Intn(max + 1); n > 0; n-- {
				s = append(s, alphabet[c.R.Intn(len(alphabet))])
			}
			return string(s)
		}
		flags := byte(0)
		if c.R.Intn(2) == 0 {
			flags = byte(c.R.Intn(8)) << 5
		}
		if c.R.Intn(8) == 0 {
			flags |= byte(c.R.Intn(32))
		}
		one(c.R.Intn(3), flags, "", word("DDLUCB", 3), word("SSLUDCB", 5))
	}
	// (b) the random trees of the C18 generator (garbage size fields, nested DecoderConfigs, tails, off-by-k sizes)
	for it := 0; it < c.N(400, 8000); it++ {
		feed(esdsRandPayload(c), "random descriptor tree")
	}
	if which == "C01" {
		return // the constructors are C02 / C03 territory (their encodings reach C01 through the families above)
	}
	// (c) built through the public constructors
	var lens []int
	for n := 0; n <= 131; n++ {
		if n <= 12 || n >= 95 || n%16 == 0 {
			lens = append(lens, n)
		}
	}
	lens = append(lens, 200, 255, 256, 1000, 16346, 16347, 16360, 16361, 16362, 16368, 16369, 16370, 16383, 16384, 16385, 70000)
	mkEntry := func(cfg []byte) *mp4.AudioSampleEntryBox {
		return mp4.CreateAudioSampleEntryBox("mp4a", 2, 16, 48000, mp4.CreateEsdsBox(append([]byte{}, cfg...)))
	}
	for _, n := range lens {
		cfg := esdsRandBytes(c, n)
		req := "esds.create " + hx(cfg)
		out := checkBuilt(c, which, "esds", req, func() sizedEncoder { return mp4.CreateEsdsBox(append([]byte{}, cfg...)) })
		if n <= 20000 {
			c.Case(req, esdsCreateAnswer(cfg))
			c.Count("model.esds-create")
		}
		if out != nil && len(out) >= 8 {
			feed(out[8:], fmt.Sprintf("CreateEsdsBox(%d bytes)", n))
		}
		sreq := fmt.Sprintf("built stsd > mp4a > CreateEsdsBox(%s)", hx(cfg))
		out = checkBuilt(c, which, "stsd-esds", sreq, func() sizedEncoder {
			stsd := mp4.NewStsdBox()
			stsd.AddChild(mkEntry(cfg))
			return stsd
		})
		if out != nil {
			feedBox(out, sreq, "built-stsd-esds")
		}
		if n%8 == 1 || n >= 200 {
			ireq := fmt.Sprintf("built init segment, audio track, stsd > mp4a > CreateEsdsBox(%s)", hx(cfg))
			out = checkBuilt(c, which, "init-esds", ireq, func() sizedEncoder {
				init := mp4.CreateEmptyInit()
				init.AddEmptyTrack(48000, "audio", "und")
				init.Moov.Trak.Mdia.Minf.Stbl.Stsd.AddChild(mkEntry(cfg))
				return init
			})
			if out != nil {
				checkWholeFile(c, which, out, clip(ireq))
			}
		}
	}
	// raw descriptors with a caller-chosen size-field length, appended to the ES descriptor or to the DecoderConfig
	type rawCase struct {
		sfs byte
		n   int
	}
	var raws []rawCase
	for sfs := 0; sfs < 4; sfs++ {
		for _, n := range []int{0, 1, 5, 126, 127, 128, 129} {
			raws = append(raws, rawCase{byte(sfs), n})
		}
	}
	for _, n := range []int{16382, 16383, 16384, 16385} {
		raws = append(raws, rawCase{0, n}, rawCase{1, n}, rawCase{2, n})
	}
	raws = append(raws, rawCase{7, 3}, rawCase{255, 3})
	for i, rc := range raws {
		rc := rc
		tag := []byte{0x43, 0x0e, 0x7f, 0xfe}[i%4]
		data := esdsRandBytes(c, rc.n)
		inDC := i%3 == 2
		req := fmt.Sprintf("built CreateEsdsBox(1190) + CreateRawDescriptor(tag=%#x, sizeFieldSizeMinus1=%d, %d bytes) appended to inDecoderConfig=%v: %s", tag, rc.sfs, rc.n, inDC, hx(data))
		out := checkBuilt(c, which, "esds-raw", req, func() sizedEncoder {
			e := mp4.CreateEsdsBox([]byte{0x11, 0x90})
			r, err := mp4.CreateRawDescriptor(tag, rc.sfs, append([]byte{}, data...))
			if err != nil {
				return nil
			}
			if inDC {
				e.DecConfigDescriptor.OtherDescriptors = append(e.DecConfigDescriptor.OtherDescriptors, &r)
			} else {
				e.OtherDescriptors = append(e.OtherDescriptors, &r)
			}
			return e
		})
		if out != nil && len(out) >= 8 && strings.HasPrefix(string(out[4:]), "esds") {
			feed(out[8:], clip(req))
		}
	}
}
