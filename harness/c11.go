package main

import (
	"bytes"
	"crypto/sha256"
	"encoding/binary"
	"fmt"
	"math/rand"
	"os"
	"path/filepath"
	"sort"
	"strconv"
	"strings"
	"time"

	"github.com/Eyevinn/mp4ff/mp4"
)

func init() {
	props["C11"] = &propDef{
		rule: "cases = (a) examples/segmenter binary on generated progressive files (harness/progfile.go and c10_gen.go: one video + optional audio in either order, and 1..3-track files for the multiplexed mode) and the repository's progressive files x modes {one file per track, lazy, multiplexed, multiplexed+lazy} x segment durations {1 ms, around every sync point, random, longer than the file}; (b) examples/resegmenter binary on fragmented single-track files built with the library API (1..5 segments x 1..4 fragments, one or two sample runs per fragment, with/without styp, trun optimisation on/off, values taken from trex defaults, zero/non-zero start time incl. timelines shifted so that a fragment-first or arbitrary sample begins at 2^32-1, 2^32, 2^32+1 or near it, and 64-bit start times) and on the segmenter's own output x new durations in ticks {1, around sync samples' presentation times, random, beyond the end}; (c) mp4.MediaSegment.Fragmentify through the API on the same segments x fragment durations x {trex, nil}; (d) examples/combine-segs binary on pairs of single-track single-fragment segments (library-built, four fifths carrying all values explicitly and one fifth possibly relying on trex defaults, and the segmenter's per-track output); (e) a third of the fragmented tracks of (b)/(c) and a quarter of the pairs of (d) once more with their media segments written by the harness's byte-level packager (c11pack.go, no library encoder): tfhd with base_data_offset (moof start, mdat payload start, first run's data, an earlier position incl. 0, end of the mdat with negative run offsets) with and without default-base-is-moof also set, neither flag, default-base-is-moof only, tfhd defaults and first_sample_flags, 1..3 runs per traf with data_offset present or absent (first run: data at the base; later run: data follows the previous run), run data in any order in the mdat with unreferenced bytes around, 8/16-byte mdat header, tfdt/trun versions 0/1 - read by the library (sample list against the truth; the positions the bytes are taken from against the Lean model of ISO/IEC 14496-12 8.8.7.1 / 8.8.8.1, op seg.pos; a refusal is counted) and fed to the resegmenter, Fragmentify and combine-segs; outputs are expanded with the library's Fragment.GetFullSamples per fragment with the output init's trex boxes and the concatenated per-track sequence is compared with the input's (count, bytes, durations, flags, composition offsets, decode times; first sample of every segment is a sync sample of the reference track); non-trivial = distinct case in which the tool/API succeeded",
		gen:  genC11,
		exec: execC11,
	}
}

// ---------- truth and output sample lists

type tsample struct {
	dur   uint32
	cto   int32
	flags uint32
	dec   uint64
	data  []byte
	sync  bool
	sdtp  int // -1 unknown, else the sdtp byte (progressive inputs)
}

type ttrack struct {
	media      string
	timescale  uint32
	samples    []tsample
	flagsExact bool // fragmented source: all 32 flag bits are given; progressive source: sync (+ sdtp) only
	hasStss    bool
}

func truthFromRaw(t *rawTrack) *ttrack {
	tt := &ttrack{timescale: t.timescale, hasStss: t.hasStss}
	switch t.hdlr {
	case "vide":
		tt.media = "video"
	case "soun":
		tt.media = "audio"
	default:
		tt.media = t.hdlr
	}
	for i := 0; i < t.n; i++ {
		s := tsample{dur: t.dur[i], cto: t.cto[i], dec: t.dec[i], data: t.data[i], sync: t.sync[i], sdtp: -1}
		if t.hasSdtp {
			s.sdtp = int(t.sdtp[i])
		}
		tt.samples = append(tt.samples, s)
	}
	return tt
}

// flagsAgree: fragmented source -> identical; progressive source -> the non-sync bit equals "not in stss", the
// four dependency fields equal the sdtp entry when there is one; without sdtp they are either unknown (0) or do
// not contradict the sync status (sync: depends_on 0|2, non-sync: 0|1), nothing else is set.
func flagsAgree(tr *ttrack, want tsample, got uint32) bool {
	if tr.flagsExact {
		return got == want.flags
	}
	nonSync := got&0x00010000 != 0
	if nonSync == want.sync {
		return false
	}
	if got&0xf00effff != 0 { // reserved, padding, degradation priority
		return false
	}
	dep := (got >> 20) & 0xff
	if want.sdtp >= 0 {
		return dep == uint32(want.sdtp)
	}
	if dep&0xcf != 0 { // is_leading, is_depended_on, has_redundancy
		return false
	}
	d := (dep >> 4) & 3
	if want.sync {
		return d == 0 || d == 2
	}
	return d == 0 || d == 1
}

type outSample struct {
	mp4.FullSample
}

type outSeg struct {
	perTrack map[uint32][]mp4.FullSample
}

type outExpanded struct {
	fragN    []map[uint32]int // per fragment (file order), per track: number of samples
	trackIDs []uint32
	tracks   map[uint32][]mp4.FullSample
	segs     []outSeg
	tsOf     map[uint32]uint32
}

// expandFragmentedFile decodes init+media bytes with the library and lists every track's samples per segment
// using Fragment.GetFullSamples with the init's trex of that track.
func expandFragmentedFile(data []byte, into *outExpanded) (err error) {
	if p := safe(func() {
		var f *mp4.File
		f, err = mp4.DecodeFile(bytes.NewReader(data))
		if err != nil {
			return
		}
		if f.Init == nil || f.Init.Moov == nil || f.Init.Moov.Mvex == nil {
			err = fmt.Errorf("no init segment with mvex in output")
			return
		}
		if into.tracks == nil {
			into.tracks = map[uint32][]mp4.FullSample{}
			into.tsOf = map[uint32]uint32{}
			for _, trak := range f.Init.Moov.Traks {
				into.trackIDs = append(into.trackIDs, trak.Tkhd.TrackID)
				into.tsOf[trak.Tkhd.TrackID] = trak.Mdia.Mdhd.Timescale
			}
		}
		for _, sg := range f.Segments {
			os := outSeg{perTrack: map[uint32][]mp4.FullSample{}}
			for _, fr := range sg.Fragments {
				if fr.Moof == nil || fr.Mdat == nil {
					err = fmt.Errorf("fragment without moof or mdat")
					return
				}
				fn := map[uint32]int{}
				into.fragN = append(into.fragN, fn)
				seen := map[uint32]bool{}
				for _, traf := range fr.Moof.Trafs {
					seen[traf.Tfhd.TrackID] = true
				}
				for _, trex := range f.Init.Moov.Mvex.Trexs {
					delete(seen, trex.TrackID)
					fs, e := fr.GetFullSamples(trex)
					if e != nil {
						err = e
						return
					}
					fn[trex.TrackID] = len(fs)
					os.perTrack[trex.TrackID] = append(os.perTrack[trex.TrackID], fs...)
					into.tracks[trex.TrackID] = append(into.tracks[trex.TrackID], fs...)
				}
				if len(seen) > 0 {
					err = fmt.Errorf("fragment has a traf for a track without trex")
					return
				}
			}
			into.segs = append(into.segs, os)
		}
	}); p != "" {
		return fmt.Errorf("%s", p)
	}
	return err
}

func hashFull(fs []mp4.FullSample) string {
	h := sha256.New()
	for _, s := range fs {
		fmt.Fprintf(h, "%d %d %d %d %d|", s.Dur, s.CompositionTimeOffset, s.Flags, s.DecodeTime, len(s.Data))
		h.Write(s.Data)
	}
	return fmt.Sprintf("%x", h.Sum(nil)[:6])
}

func (o *outExpanded) summary() string {
	p := []string{fmt.Sprintf("ok segs=%d", len(o.segs))}
	for _, id := range o.trackIDs {
		p = append(p, fmt.Sprintf("t%d:n=%d:h=%s", id, len(o.tracks[id]), hashFull(o.tracks[id])))
	}
	return strings.Join(p, " ")
}

// compareTrack: the direct oracle for one track. tool names the fingerprint family.
// c11OneFingerprint: when set, compareTrack reports every difference under this fingerprint
var c11OneFingerprint string

func compareTrack(c *Ctx, tool, req, label string, tr *ttrack, got []mp4.FullSample) bool {
	fail := func(kind, what, g, e string) {
		if c11OneFingerprint != "" { // a recorded class of inputs: one fingerprint for whatever field is lost
			c.Fail(c11OneFingerprint, label+": "+what+" ["+kind+"]", req, clip(g), clip(e))
			return
		}
		c.Fail("C11-"+tool+"-"+kind, label+": "+what, req, clip(g), clip(e))
	}
	n := len(tr.samples)
	ok := true
	if len(got) != n {
		ok = false
		kind := "sample-count"
		if len(got) == n-1 {
			kind = "last-sample-dropped"
		}
		fail(kind, "number of samples in the output differs from the input", fmt.Sprint(len(got)), fmt.Sprint(n))
	}
	m := n
	if len(got) < m {
		m = len(got)
	}
	for i := 0; i < m; i++ {
		w, g := tr.samples[i], got[i]
		switch {
		case !bytes.Equal(g.Data, w.data):
			fail("sample-bytes", fmt.Sprintf("sample %d: bytes differ", i+1), hx(clipB(g.Data)), hx(clipB(w.data)))
		case g.Dur != w.dur:
			fail("sample-duration", fmt.Sprintf("sample %d: duration differs", i+1), fmt.Sprint(g.Dur), fmt.Sprint(w.dur))
		case g.CompositionTimeOffset != w.cto:
			fail("sample-cto", fmt.Sprintf("sample %d: composition offset differs", i+1), fmt.Sprint(g.CompositionTimeOffset), fmt.Sprint(w.cto))
		case g.DecodeTime != w.dec:
			fail("sample-decode-time", fmt.Sprintf("sample %d: decode time differs", i+1), fmt.Sprint(g.DecodeTime), fmt.Sprint(w.dec))
		case !flagsAgree(tr, w, g.Flags):
			exp := fmt.Sprintf("%08x", w.flags)
			if !tr.flagsExact {
				exp = fmt.Sprintf("sync=%v sdtp=%d", w.sync, w.sdtp)
			}
			fail("sample-flags", fmt.Sprintf("sample %d: flags differ", i+1), fmt.Sprintf("%08x", g.Flags), exp)
		default:
			continue
		}
		ok = false
		break
	}
	return ok
}

// segment starts: in every produced segment the first sample of the reference track must be a sync sample
// (by the output's flags and by the input's sync status of the sample at that position).
func checkSegmentStarts(c *Ctx, tool, req string, o *outExpanded, refID uint32, ref *ttrack, requireRef bool) {
	pos := 0
	for si, sg := range o.segs {
		fs := sg.perTrack[refID]
		if len(fs) == 0 {
			if requireRef {
				c.Fail("C11-"+tool+"-segment-without-reference-sample", fmt.Sprintf("segment %d has no sample of the reference track, so it does not start with one of its sync samples", si+1), req, "0 samples", ">= 1")
			}
			continue
		}
		nonSync := fs[0].Flags&0x00010000 != 0
		inSync := true
		if pos < len(ref.samples) {
			inSync = ref.samples[pos].sync
		}
		if nonSync || !inSync {
			c.Fail("C11-"+tool+"-segment-start-not-sync", fmt.Sprintf("segment %d of %d starts with reference-track sample %d which is not a sync sample", si+1, len(o.segs), pos+1), req, fmt.Sprintf("flags %08x, input sync=%v", fs[0].Flags, inSync), "sync sample")
		}
		pos += len(fs)
	}
}

// ---------- fragmented single-track inputs built with the library API

type ffTrack struct {
	media        string
	timescale    uint32
	start        uint64
	layout       [][]int // samples per fragment, per segment
	styp         bool
	optimize     bool
	trexMode     int // 0 explicit values; 1 durations from trex; 2 durations+flags(+size) from trex where uniform
	truth        *ttrack
	init         []byte
	segs         [][]byte
	reliesOnTrex bool
	multiTrun    bool // fragments with >= 2 samples carry them in two truns
	// which values the init's trex carries (uniform over the track); set by build
	useDur, useFlags, useSize bool
	// pack != 0: the media segments are written by the byte-level "foreign packager" of c11pack.go (spec "ffp ... <pack>")
	pack int64
}

// keepTrex: with oneFrag, keep the randomly chosen trex mode (values carried by trex defaults) instead of forcing
// every value into the segment (spec "ff <seed> <media> 2")
func genFFTrack(r *rand.Rand, media string, oneFrag bool, keepTrex ...bool) *ffTrack {
	ffKeepTrex := len(keepTrex) > 0 && keepTrex[0]
	t := &ffTrack{media: media}
	if media == "video" {
		t.timescale = []uint32{90000, 25000, 12800, 600}[r.Intn(4)]
	} else {
		t.timescale = []uint32{48000, 44100, 22050}[r.Intn(3)]
	}
	base := uint32(1024)
	if media == "video" {
		base = t.timescale / uint32([]int{24, 25, 30, 50}[r.Intn(4)])
	}
	if r.Intn(4) == 0 {
		t.start = uint64(r.Intn(20)) * uint64(base) * uint64(1+r.Intn(50))
	}
	t.styp = r.Intn(5) > 0
	t.optimize = r.Intn(2) == 0
	t.trexMode = r.Intn(3)
	nseg := 1 + r.Intn(5)
	if oneFrag {
		// combine-segs input: one segment, one fragment, every value carried by the segment itself
		nseg = 1
		if !ffKeepTrex {
			t.trexMode = 0
		}
	}
	irregular := r.Intn(3) == 0
	gop := 1 + r.Intn(8)
	hasCto := media == "video" && r.Intn(3) > 0
	uniformSize := r.Intn(6) == 0
	usz := uint32(1 + r.Intn(30))
	tt := &ttrack{media: media, timescale: t.timescale, flagsExact: true, hasStss: media == "video"}
	dec := t.start
	idx := 0
	for s := 0; s < nseg; s++ {
		nf := 1 + r.Intn(4)
		if oneFrag {
			nf = 1
		}
		var seg []int
		for f := 0; f < nf; f++ {
			ns := 1 + r.Intn(12)
			seg = append(seg, ns)
			for k := 0; k < ns; k++ {
				d := base
				if irregular && r.Intn(4) == 0 {
					d = 1 + uint32(r.Intn(int(2*base)))
				}
				sync := media != "video" || idx%gop == 0 || r.Intn(20) == 0
				fl := uint32(0x02000000)
				if !sync {
					fl = 0x01010000
				}
				if r.Intn(10) == 0 {
					fl |= uint32(r.Intn(4)) << 22 // is_depended_on
				}
				if r.Intn(30) == 0 {
					fl |= uint32(r.Intn(1 << 16)) // degradation priority
				}
				cto := int32(0)
				if hasCto {
					cto = int32(r.Intn(4)) * int32(base)
					if r.Intn(8) == 0 && idx > 0 {
						cto = -int32(base)
					}
				}
				sz := uint32(1 + r.Intn(40))
				if uniformSize {
					sz = usz
				}
				d2 := make([]byte, sz)
				r.Read(d2)
				tt.samples = append(tt.samples, tsample{dur: d, cto: cto, flags: fl, dec: dec, data: d2, sync: sync, sdtp: -1})
				dec += uint64(d)
				idx++
			}
		}
		t.layout = append(t.layout, seg)
	}
	t.truth = tt
	t.multiTrun = !oneFrag && r.Intn(4) == 0
	// late timelines (long-running or epoch-based streams): the whole track is shifted so that one of its samples -
	// the first of an input fragment or any other one, which the tools may turn into the first of an output
	// segment/fragment - begins at 2^32-1, 2^32 or 2^32+1 ticks or within a few sample durations of 2^32 (where the
	// 32-bit form of the decode time ends), or the track starts somewhere in the 64-bit range
	switch r.Intn(8) {
	case 0, 1:
		k := r.Intn(len(tt.samples))
		if r.Intn(2) == 0 { // first sample of a randomly chosen input fragment
			var firsts []int
			n := 0
			for _, seg := range t.layout {
				for _, ns := range seg {
					firsts = append(firsts, n)
					n += ns
				}
			}
			k = firsts[r.Intn(len(firsts))]
		}
		at := uint64(1) << 32
		switch r.Intn(6) {
		case 0:
			at--
		case 1:
			at++
		case 2:
			at = at - uint64(base) + uint64(r.Intn(int(2*base)+1))
		}
		t.shiftStart(at - (tt.samples[k].dec - t.start))
	case 2:
		t.shiftStart(uint64(r.Int63n(1 << 46)))
	}
	t.build()
	return t
}

// shiftStart moves the track's timeline so that its first sample is decoded at newStart
func (t *ffTrack) shiftStart(newStart uint64) {
	for i := range t.truth.samples {
		t.truth.samples[i].dec = t.truth.samples[i].dec - t.start + newStart
	}
	t.start = newStart
}

func (t *ffTrack) build() {
	init := mp4.CreateEmptyInit()
	init.AddEmptyTrack(t.timescale, t.media, "und")
	trak := init.Moov.Trak
	if t.media == "video" {
		sps, _ := unhx(sps1nalu)
		pps, _ := unhx(pps1nalu)
		_ = trak.SetAVCDescriptor("avc1", [][]byte{sps}, [][]byte{pps}, true)
	} else {
		_ = trak.SetAACDescriptor(2, int(t.timescale))
	}
	trex := init.Moov.Mvex.Trex
	ss := t.truth.samples
	// which values can come from trex: those that are the same for all samples of the track
	durU, flagsU, sizeU := true, true, true
	for _, s := range ss {
		if s.dur != ss[0].dur {
			durU = false
		}
		if s.flags != ss[0].flags {
			flagsU = false
		}
		if len(s.data) != len(ss[0].data) {
			sizeU = false
		}
	}
	useDur := t.trexMode >= 1 && durU
	useFlags := t.trexMode == 2 && flagsU
	useSize := t.trexMode == 2 && sizeU
	if useDur {
		trex.DefaultSampleDuration = ss[0].dur
	}
	if useFlags {
		trex.DefaultSampleFlags = ss[0].flags
	}
	if useSize {
		trex.DefaultSampleSize = uint32(len(ss[0].data))
	}
	t.reliesOnTrex = useDur || useFlags || useSize
	t.useDur, t.useFlags, t.useSize = useDur, useFlags, useSize
	var ib bytes.Buffer
	must(init.Encode(&ib))
	t.init = ib.Bytes()
	idx := 0
	seq := uint32(1)
	for _, segLayout := range t.layout {
		var seg *mp4.MediaSegment
		if t.styp {
			seg = mp4.NewMediaSegment()
		} else {
			seg = mp4.NewMediaSegmentWithoutStyp()
		}
		if t.optimize && !t.reliesOnTrex && !t.multiTrun {
			seg.EncOptimize = mp4.OptimizeTrun
		}
		for _, ns := range segLayout {
			fr, err := mp4.CreateFragment(seq, 1)
			must(err)
			seq++
			split := ns // samples of this fragment that go into the first trun
			if t.multiTrun && ns >= 2 {
				split = 1 + (idx*7+ns)%(ns-1)
			}
			var trun2 *mp4.TrunBox
			for k := 0; k < ns; k++ {
				s := ss[idx]
				if k < split {
					fr.AddFullSample(mp4.FullSample{Sample: mp4.Sample{Flags: s.flags, Dur: s.dur, Size: uint32(len(s.data)), CompositionTimeOffset: s.cto}, DecodeTime: s.dec, Data: s.data})
				} else {
					if trun2 == nil {
						trun2 = mp4.CreateTrun(1)
						must(fr.Moof.Traf.AddChild(trun2))
					}
					trun2.AddSample(mp4.Sample{Flags: s.flags, Dur: s.dur, Size: uint32(len(s.data)), CompositionTimeOffset: s.cto})
					fr.Mdat.AddSampleData(s.data)
				}
				idx++
			}
			for _, trun := range fr.Moof.Traf.Truns {
				if useDur {
					trun.Flags &^= mp4.TrunSampleDurationPresentFlag
				}
				if useFlags {
					trun.Flags &^= mp4.TrunSampleFlagsPresentFlag
				}
				if useSize {
					trun.Flags &^= mp4.TrunSampleSizePresentFlag
				}
			}
			seg.AddFragment(fr)
		}
		var sb bytes.Buffer
		must(seg.Encode(&sb))
		t.segs = append(t.segs, sb.Bytes())
	}
}

func (t *ffTrack) file() []byte {
	b := cp(t.init)
	for i := range t.segs {
		b = append(b, t.segAt(i, uint64(len(b)))...)
	}
	return b
}

func (t *ffTrack) describe(c *Ctx, what string) {
	nfr := 0
	for _, s := range t.layout {
		nfr += len(s)
	}
	c.Count(fmt.Sprintf("%s input: %s segs<=%d frags<=%d samples<=%d", what, t.media, bucket(len(t.layout), []int{1, 2, 5}), bucket(nfr, []int{1, 4, 20}), bucket(len(t.truth.samples), []int{1, 3, 10, 30, 100, 1000})))
	c.Count(fmt.Sprintf("%s input: styp=%v optimize=%v trexDefaults=%v startZero=%v", what, t.styp, t.optimize && !t.reliesOnTrex, t.reliesOnTrex, t.start == 0))
	at32 := "none"
	for _, sm := range t.truth.samples {
		if sm.dec == 1<<32 {
			at32 = "exactly"
			break
		}
		if sm.dec+1 == 1<<32 || sm.dec == 1<<32+1 {
			at32 = "off by one"
		}
	}
	c.Count(fmt.Sprintf("%s input: start<2^%d, sample beginning at 2^32: %s", what, bucket(bitsLen(t.start), []int{0, 16, 32, 33, 64}), at32))
}

func ffFromSpec(f []string) (*ffTrack, int, error) {
	// "ff <seed> <media> <onefrag>" | "ffp <seed> <media> <onefrag> <pack seed>" (segments re-written by c11pack.go)
	if len(f) < 4 || (f[0] != "ff" && f[0] != "ffp") || (f[0] == "ffp" && len(f) < 5) {
		return nil, 0, fmt.Errorf("bad ff spec")
	}
	seed, _ := strconv.ParseInt(f[1], 10, 64)
	t := genFFTrack(rand.New(rand.NewSource(seed)), f[2], f[3] == "1" || f[3] == "2", f[3] == "2")
	if f[0] == "ffp" {
		t.pack, _ = strconv.ParseInt(f[4], 10, 64)
		if t.pack == 0 {
			t.pack = 1
		}
		return t, 5, nil
	}
	return t, 4, nil
}

// ---------- segmenter

type segOutput struct {
	exp   map[string]*outExpanded // "v", "a" (single-track modes) or "mux"
	files int
}

func numericSuffixSort(names []string) {
	num := func(s string) int {
		s = strings.TrimSuffix(s, ".m4s")
		return atoi(s[strings.LastIndex(s, "_")+1:])
	}
	sort.Slice(names, func(i, j int) bool { return num(names[i]) < num(names[j]) })
}

// runSegmenter runs the binary in dir on in.mp4; returns per output init the expanded samples.
func runSegmenter(dir, inPath, mode string, ms uint64) (toolResult, *segOutput, error) {
	args := []string{"-d", strconv.FormatUint(ms, 10)}
	if mode == "mux" || mode == "muxlazy" {
		args = append(args, "-m")
	}
	if mode == "lazy" || mode == "muxlazy" {
		args = append(args, "-lazy")
	}
	args = append(args, inPath, "out")
	tr := runTool("segmenter", dir, args...)
	if tr.exit != 0 {
		return tr, nil, nil
	}
	so := &segOutput{exp: map[string]*outExpanded{}}
	load := func(key, initName, pattern string) error {
		ib, err := os.ReadFile(filepath.Join(dir, initName))
		if err != nil {
			return nil // no such track
		}
		ms, _ := filepath.Glob(filepath.Join(dir, pattern))
		numericSuffixSort(ms)
		oe := &outExpanded{}
		if len(ms) == 0 {
			// init only: decode it to learn the tracks
			if err := expandFragmentedFile(ib, oe); err != nil {
				return err
			}
		}
		for _, m := range ms {
			sb, err := os.ReadFile(m)
			if err != nil {
				return err
			}
			so.files++
			if err := expandFragmentedFile(append(cp(ib), sb...), oe); err != nil {
				return fmt.Errorf("%s: %w", filepath.Base(m), err)
			}
		}
		so.exp[key] = oe
		return nil
	}
	var err error
	if mode == "mux" || mode == "muxlazy" {
		err = load("mux", "out_init.mp4", "out_media_*.m4s")
	} else {
		err = load("v", "out_v1_init.mp4", "out_v1_*.m4s")
		if err == nil {
			err = load("a", "out_a1_init.mp4", "out_a1_*.m4s")
		}
	}
	return tr, so, err
}

func segmentDurations(r *rand.Rand, in *rawProg, quota int) []uint64 {
	ri := in.refTrack()
	rt := in.tracks[ri]
	set := map[uint64]bool{}
	var out []uint64
	add := func(v int64) {
		if v >= 1 && !set[uint64(v)] {
			set[uint64(v)] = true
			out = append(out, uint64(v))
		}
	}
	total := int64(rt.total * 1000 / uint64(rt.timescale))
	add(1)
	add(total + 1)
	add(total + 5000)
	var sp []int64
	for i := 1; i < rt.n; i++ {
		if rt.sync[i] {
			pt := int64(rt.dec[i]) + int64(rt.cto[i])
			sp = append(sp, pt*1000/int64(rt.timescale))
		}
	}
	r.Shuffle(len(sp), func(i, j int) { sp[i], sp[j] = sp[j], sp[i] })
	for _, m := range sp {
		if len(out) >= quota*2/3 {
			break
		}
		add(m)
		add(m + 1)
		if r.Intn(2) == 0 {
			add(m - 1)
		}
		if r.Intn(2) == 0 && m > 2 {
			add(m / 2)
		}
	}
	for k := 0; len(out) < quota && k < 3*quota && total > 1; k++ {
		add(1 + r.Int63n(total))
	}
	return out
}

// segmenterSupported: the tool's documented input (at most one video and one audio track; a video track is
// needed as reference) for the one-file-per-track modes; the multiplexed mode names no files per track and
// takes any number of video/audio tracks.
func segmenterInputKind(in *rawProg) string {
	nv, na, other := 0, 0, 0
	for _, t := range in.tracks {
		switch t.hdlr {
		case "vide":
			nv++
		case "soun":
			na++
		default:
			other++
		}
	}
	switch {
	case other > 0:
		return "other-handler"
	case nv == 0:
		return "no-video"
	case nv == 1 && na <= 1:
		return "documented"
	default:
		return "multi"
	}
}

func checkSegmenter(c *Ctx, req, mode string, in *rawProg, tr toolResult, so *segOutput, expErr error) {
	kind := segmenterInputKind(in)
	c.Count("segmenter mode=" + mode + " input=" + kind)
	if tr.exit != 0 {
		c.Eval("")
		c.Count("segmenter tool-failure: " + failureClass(tr))
		noteFirst(c, "segmenter tool-failure: "+failureClass(tr), req)
		return
	}
	c.Eval(req)
	c.Count("segmenter outcome: success")
	if expErr != nil {
		c.Fail("C11-segmenter-output-undecodable", "an output segment cannot be decoded/expanded with its init segment", req, expErr.Error(), "")
		return
	}
	ri := in.refTrack()
	if mode == "mux" || mode == "muxlazy" {
		oe := so.exp["mux"]
		if oe == nil || len(oe.trackIDs) != len(in.tracks) {
			n := -1
			if oe != nil {
				n = len(oe.trackIDs)
			}
			c.Fail("C11-segmenter-track-count", "multiplexed init does not have one track per input track", req, fmt.Sprint(n), fmt.Sprint(len(in.tracks)))
			return
		}
		for ti, t := range in.tracks {
			id := oe.trackIDs[ti]
			if oe.tsOf[id] != t.timescale {
				c.Fail("C11-segmenter-timescale", fmt.Sprintf("track %d: time scale changed (decode times/durations are compared in ticks)", ti+1), req, fmt.Sprint(oe.tsOf[id]), fmt.Sprint(t.timescale))
				continue
			}
			compareTrack(c, "segmenter", req, fmt.Sprintf("mode %s, track %d (%s)", mode, ti+1, t.hdlr), truthFromRaw(t), oe.tracks[id])
		}
		checkSegmentStarts(c, "segmenter", req, oe, oe.trackIDs[ri], truthFromRaw(in.tracks[ri]), true)
		c.Count(fmt.Sprintf("segmenter segments<=%d", bucket(len(oe.segs), []int{1, 2, 5, 20, 1000})))
		segmenterModelCase(c, req, in, oe)
		return
	}
	// one file per track: the first video and the first audio track (documented: at most one of each)
	for ti, t := range in.tracks {
		key := map[string]string{"vide": "v", "soun": "a"}[t.hdlr]
		if kind != "documented" {
			// several tracks of a kind overwrite each other's files: outside the documented input
			continue
		}
		oe := so.exp[key]
		if oe == nil || len(oe.trackIDs) != 1 {
			c.Fail("C11-segmenter-track-missing", fmt.Sprintf("no output init/segments for track %d (%s)", ti+1, t.hdlr), req, "", "")
			continue
		}
		id := oe.trackIDs[0]
		if oe.tsOf[id] != t.timescale {
			c.Fail("C11-segmenter-timescale", fmt.Sprintf("track %d: time scale changed", ti+1), req, fmt.Sprint(oe.tsOf[id]), fmt.Sprint(t.timescale))
			continue
		}
		compareTrack(c, "segmenter", req, fmt.Sprintf("mode %s, track %d (%s)", mode, ti+1, t.hdlr), truthFromRaw(t), oe.tracks[id])
		if ti == ri {
			checkSegmentStarts(c, "segmenter", req, oe, id, truthFromRaw(t), true)
			c.Count(fmt.Sprintf("segmenter segments<=%d", bucket(len(oe.segs), []int{1, 2, 5, 20, 1000})))
		}
	}
}

// ---------- resegmenter

func runResegmenter(dir string, input []byte, ticks uint64, tag string) (toolResult, *outExpanded, error) {
	in := filepath.Join(dir, "rin_"+tag+".mp4")
	out := filepath.Join(dir, "rout_"+tag+".mp4")
	if err := os.WriteFile(in, input, 0o644); err != nil {
		return toolResult{exit: -1, stderr: err.Error()}, nil, nil
	}
	defer os.Remove(in)
	defer os.Remove(out)
	tr := runTool("resegmenter", dir, "-d", strconv.FormatUint(ticks, 10), in, out)
	if tr.exit != 0 {
		return tr, nil, nil
	}
	ob, err := os.ReadFile(out)
	if err != nil {
		return tr, nil, err
	}
	oe := &outExpanded{}
	err = expandFragmentedFile(ob, oe)
	return tr, oe, err
}

func resegDurations(r *rand.Rand, tt *ttrack, quota int) []uint64 {
	set := map[uint64]bool{}
	var out []uint64
	add := func(v int64) {
		if v >= 1 && !set[uint64(v)] {
			set[uint64(v)] = true
			out = append(out, uint64(v))
		}
	}
	n := len(tt.samples)
	last := tt.samples[n-1]
	end := int64(last.dec) + int64(last.dur)
	add(1)
	add(int64(tt.samples[0].dur))
	add(end + 1)
	add(2 * end)
	var sp []int64
	for i := 1; i < n; i++ {
		if tt.samples[i].sync {
			sp = append(sp, int64(tt.samples[i].dec)+int64(tt.samples[i].cto))
		}
	}
	r.Shuffle(len(sp), func(i, j int) { sp[i], sp[j] = sp[j], sp[i] })
	for _, p := range sp {
		if len(out) >= quota*2/3 {
			break
		}
		add(p)
		add(p + 1)
		add(p - 1)
		add(p / 2)
	}
	for k := 0; len(out) < quota && k < 3*quota && end > 1; k++ {
		add(1 + r.Int63n(end))
	}
	return out
}

func checkReseg(c *Ctx, req string, tt *ttrack, tr toolResult, oe *outExpanded, expErr error) {
	if tr.exit != 0 {
		c.Eval("")
		c.Count("resegmenter tool-failure: " + failureClass(tr))
		noteFirst(c, "resegmenter tool-failure: "+failureClass(tr), req)
		return
	}
	c.Eval(req)
	c.Count("resegmenter outcome: success")
	if expErr != nil {
		c.Fail("C11-resegmenter-output-undecodable", "the resegmented file cannot be decoded/expanded", req, expErr.Error(), "")
		return
	}
	if len(oe.trackIDs) != 1 {
		c.Fail("C11-resegmenter-track-count", "output does not have exactly one track", req, fmt.Sprint(len(oe.trackIDs)), "1")
		return
	}
	id := oe.trackIDs[0]
	if oe.tsOf[id] != tt.timescale {
		c.Fail("C11-resegmenter-timescale", "time scale changed", req, fmt.Sprint(oe.tsOf[id]), fmt.Sprint(tt.timescale))
	}
	compareTrack(c, "resegmenter", req, "track", tt, oe.tracks[id])
	checkSegmentStarts(c, "resegmenter", req, oe, id, tt, true)
	resegModelCase(c, req, tt, oe)
	c.Count(fmt.Sprintf("resegmenter segments<=%d", bucket(len(oe.segs), []int{1, 2, 5, 20, 1000})))
}

// ---------- Fragmentify (API)

// fragmentifyRun decodes init+segment, calls MediaSegment.Fragmentify and expands the encoded result.
func fragmentifyRun(t *ffTrack, segIdx int, dur uint32, withTrex bool) (oe *outExpanded, nFrags int, err error) {
	p := safe(func() {
		var f *mp4.File
		f, err = mp4.DecodeFile(bytes.NewReader(append(cp(t.init), t.segAt(segIdx, uint64(len(t.init)))...)))
		if err != nil {
			if t.pack != 0 {
				err = fmt.Errorf("api-error: decode: %w", err)
			}
			return
		}
		if len(f.Segments) != 1 {
			err = fmt.Errorf("harness: %d segments decoded from one generated segment", len(f.Segments))
			return
		}
		var trex *mp4.TrexBox
		if withTrex {
			trex = f.Init.Moov.Mvex.Trex
		}
		var frags []*mp4.Fragment
		frags, err = f.Segments[0].Fragmentify(uint64(t.timescale), trex, dur)
		if err != nil {
			err = fmt.Errorf("api-error: %w", err)
			return
		}
		nFrags = len(frags)
		out := cp(t.init)
		for _, fr := range frags {
			var b bytes.Buffer
			if e := fr.Encode(&b); e != nil {
				err = fmt.Errorf("encode of a produced fragment: %w", e)
				return
			}
			out = append(out, b.Bytes()...)
		}
		oe = &outExpanded{}
		err = expandFragmentedFile(out, oe)
	})
	if p != "" {
		return nil, 0, fmt.Errorf("%s", p)
	}
	return
}

func segTruth(t *ffTrack, segIdx int) *ttrack {
	a := 0
	for s := 0; s < segIdx; s++ {
		for _, n := range t.layout[s] {
			a += n
		}
	}
	b := a
	for _, n := range t.layout[segIdx] {
		b += n
	}
	tt := *t.truth
	tt.samples = t.truth.samples[a:b]
	return &tt
}

func checkFragmentify(c *Ctx, req string, t *ffTrack, segIdx int, dur uint32, withTrex bool) {
	oe, nf, err := fragmentifyRun(t, segIdx, dur, withTrex)
	if err != nil && strings.HasPrefix(err.Error(), "api-error") {
		c.Eval("")
		c.Count("fragmentify api-error: " + reDigits.ReplaceAllString(clipN(err.Error(), 100), "N"))
		return
	}
	c.Eval(req)
	c.Count("fragmentify outcome: success")
	if err != nil {
		kind := "output-undecodable"
		if strings.HasPrefix(err.Error(), "panic") {
			kind = "panic"
		}
		c.Fail("C11-fragmentify-"+kind, "Fragmentify result cannot be encoded/decoded/expanded", req, err.Error(), "")
		return
	}
	tt := segTruth(t, segIdx)
	if len(oe.trackIDs) != 1 {
		return
	}
	compareTrack(c, "fragmentify", req, fmt.Sprintf("segment %d split at %d ticks (trex=%v)", segIdx+1, dur, withTrex), tt, oe.tracks[oe.trackIDs[0]])
	fragModelCase(c, req, t, segIdx, dur, withTrex)
	c.Count(fmt.Sprintf("fragmentify fragments<=%d", bucket(nf, []int{1, 2, 5, 20, 1000})))
}

// ---------- combine-segs

func runCombine(dir string, initA, segA, initB, segB []byte) (toolResult, *outExpanded, error) {
	for _, d := range []string{"testdata/V300", "testdata/A48"} {
		os.MkdirAll(filepath.Join(dir, d), 0o755)
	}
	w := func(rel string, b []byte) { must(os.WriteFile(filepath.Join(dir, rel), b, 0o644)) }
	w("testdata/V300/init.mp4", initA)
	w("testdata/V300/1.m4s", segA)
	w("testdata/A48/init.mp4", initB)
	w("testdata/A48/1.m4s", segB)
	tr := runTool("combine-segs", dir)
	if tr.exit != 0 {
		return tr, nil, nil
	}
	ib, err := os.ReadFile(filepath.Join(dir, "combined-init.mp4"))
	if err != nil {
		return tr, nil, err
	}
	sb, err := os.ReadFile(filepath.Join(dir, "combined-1.m4s"))
	if err != nil {
		return tr, nil, err
	}
	oe := &outExpanded{}
	err = expandFragmentedFile(append(ib, sb...), oe)
	return tr, oe, err
}

func checkCombine(c *Ctx, req string, a, b *ttrack, tr toolResult, oe *outExpanded, expErr error) {
	if tr.exit != 0 {
		c.Eval("")
		c.Count("combine-segs tool-failure: " + failureClass(tr))
		noteFirst(c, "combine-segs tool-failure: "+failureClass(tr), req)
		return
	}
	c.Eval(req)
	c.Count("combine-segs outcome: success")
	if expErr != nil {
		c.Fail("C11-combine-output-undecodable", "the combined segment cannot be decoded/expanded with the combined init", req, expErr.Error(), "")
		return
	}
	if len(oe.trackIDs) != 2 {
		c.Fail("C11-combine-track-count", "combined init does not have two tracks", req, fmt.Sprint(len(oe.trackIDs)), "2")
		return
	}
	for k, tt := range []*ttrack{a, b} {
		id := oe.trackIDs[k]
		if oe.tsOf[id] != tt.timescale {
			c.Fail("C11-combine-timescale", fmt.Sprintf("track %d: time scale changed", k+1), req, fmt.Sprint(oe.tsOf[id]), fmt.Sprint(tt.timescale))
		}
		compareTrack(c, "combine", req, fmt.Sprintf("track %d (%s)", k+1, tt.media), tt, oe.tracks[id])
	}
}

// truth of a segmenter-produced single-track segment: the samples the (already verified) expansion returned,
// with exact flags
func truthFromFull(fs []mp4.FullSample, media string, ts uint32) *ttrack {
	tt := &ttrack{media: media, timescale: ts, flagsExact: true}
	for _, s := range fs {
		tt.samples = append(tt.samples, tsample{dur: s.Dur, cto: s.CompositionTimeOffset, flags: s.Flags, dec: s.DecodeTime, data: s.Data, sync: s.Flags&0x00010000 == 0, sdtp: -1})
	}
	return tt
}

// ---------- exec

func execC11(req string) string {
	f := strings.Fields(req)
	if len(f) >= 4 && f[0] == "dumpreseg" { // diagnostic: write the resegmenter input of "reseg …" to a file
		input, _, err := resegInputFromSpec(f[3:])
		if err != nil {
			return "input-err " + err.Error()
		}
		return fmt.Sprint(os.WriteFile(f[1], input, 0o644))
	}
	if len(f) >= 2 && f[0] == "readpacked" {
		return execReadPacked(f[1:], -1)
	}
	if len(f) >= 2 && strings.HasPrefix(f[0], "seg.") && strings.HasPrefix(f[1], "H=") {
		return execSegModel(f[0], f[1][2:])
	}
	if len(f) < 3 {
		return "bad-op"
	}
	var ans string
	p := safe(func() {
		switch f[0] {
		case "segment": // segment <mode> <ms> <input spec>
			ms, _ := strconv.ParseUint(f[2], 10, 64)
			data, _, err := progInputBytes(f[3:])
			if err != nil {
				ans = "input-err " + err.Error()
				return
			}
			dir, done := scratchDir("c11x")
			defer done()
			in := filepath.Join(dir, "in.mp4")
			must(os.WriteFile(in, data, 0o644))
			tr, so, err := runSegmenter(dir, in, f[1], ms)
			if tr.exit != 0 {
				ans = "fail " + failureClass(tr)
				return
			}
			if err != nil {
				ans = "ok unexpandable " + err.Error()
				return
			}
			var keys []string
			for k := range so.exp {
				keys = append(keys, k)
			}
			sort.Strings(keys)
			var p []string
			for _, k := range keys {
				p = append(p, k+"["+so.exp[k].summary()+"]")
			}
			ans = strings.Join(p, " ")
		case "reseg": // reseg <ticks> ff ... | reseg <ticks> seg <ms> <v|a> <input spec>
			ticks, _ := strconv.ParseUint(f[1], 10, 64)
			input, _, err := resegInputFromSpec(f[2:])
			if err != nil {
				ans = "input-err " + err.Error()
				return
			}
			dir, done := scratchDir("c11x")
			defer done()
			tr, oe, err := runResegmenter(dir, input, ticks, "x")
			if tr.exit != 0 {
				ans = "fail " + failureClass(tr)
				return
			}
			if err != nil {
				ans = "ok unexpandable " + err.Error()
				return
			}
			ans = oe.summary()
		case "fragmentify": // fragmentify <segIdx> <dur> <trex 0|1> ff ...
			if len(f) < 8 {
				ans = "bad-op"
				return
			}
			t, _, err := ffFromSpec(f[4:])
			if err != nil {
				ans = "input-err " + err.Error()
				return
			}
			si := atoi(f[1])
			if si >= len(t.segs) {
				ans = "input-err segment index"
				return
			}
			oe, nf, err := fragmentifyRun(t, si, uint32(atoi(f[2])), f[3] == "1")
			if err != nil {
				ans = "fail " + reDigits.ReplaceAllString(clipN(err.Error(), 120), "N")
				return
			}
			ans = fmt.Sprintf("frags=%d %s", nf, oe.summary())
		case "combine": // combine ff <seedA> <mediaA> 1 ff <seedB> <mediaB> 1 | combine seg <ms> <segNr> <input spec>
			ia, sa, ib, sb, _, _, err := combineInputFromSpec(f[1:])
			if err != nil {
				ans = "input-err " + err.Error()
				return
			}
			dir, done := scratchDir("c11x")
			defer done()
			tr, oe, err := runCombine(dir, ia, sa, ib, sb)
			if tr.exit != 0 {
				ans = "fail " + failureClass(tr)
				return
			}
			if err != nil {
				ans = "ok unexpandable " + err.Error()
				return
			}
			ans = oe.summary()
		default:
			ans = "bad-op"
		}
	})
	if p != "" {
		return p
	}
	return ans
}

// segmenterTrackOutput runs the segmenter (one file per track) and returns init + media segment bytes of the
// video ("v") or audio ("a") track.
func segmenterTrackOutput(spec []string, ms uint64, which string) (initB []byte, segs [][]byte, err error) {
	data, _, err := progInputBytes(spec)
	if err != nil {
		return nil, nil, err
	}
	dir, done := scratchDir("c11s")
	defer done()
	in := filepath.Join(dir, "in.mp4")
	must(os.WriteFile(in, data, 0o644))
	tr := runTool("segmenter", dir, "-d", strconv.FormatUint(ms, 10), in, "out")
	if tr.exit != 0 {
		return nil, nil, fmt.Errorf("segmenter failed: %s", failureClass(tr))
	}
	initB, err = os.ReadFile(filepath.Join(dir, "out_"+which+"1_init.mp4"))
	if err != nil {
		return nil, nil, err
	}
	names, _ := filepath.Glob(filepath.Join(dir, "out_"+which+"1_*.m4s"))
	numericSuffixSort(names)
	for _, n := range names {
		b, err := os.ReadFile(n)
		if err != nil {
			return nil, nil, err
		}
		segs = append(segs, b)
	}
	return initB, segs, nil
}

func resegInputFromSpec(f []string) ([]byte, *ttrack, error) {
	switch f[0] {
	case "ff", "ffp":
		t, _, err := ffFromSpec(f)
		if err != nil {
			return nil, nil, err
		}
		return t.file(), t.truth, nil
	case "seg":
		if len(f) < 5 {
			return nil, nil, fmt.Errorf("bad seg spec")
		}
		ms, _ := strconv.ParseUint(f[1], 10, 64)
		ib, segs, err := segmenterTrackOutput(f[3:], ms, f[2])
		if err != nil {
			return nil, nil, err
		}
		all := cp(ib)
		for _, s := range segs {
			all = append(all, s...)
		}
		oe := &outExpanded{}
		if err := expandFragmentedFile(all, oe); err != nil {
			return nil, nil, err
		}
		if len(oe.trackIDs) != 1 {
			return nil, nil, fmt.Errorf("segmenter output has %d tracks", len(oe.trackIDs))
		}
		id := oe.trackIDs[0]
		media := map[string]string{"v": "video", "a": "audio"}[f[2]]
		return all, truthFromFull(oe.tracks[id], media, oe.tsOf[id]), nil
	}
	return nil, nil, fmt.Errorf("bad reseg input")
}

func combineInputFromSpec(f []string) (ia, sa, ib, sb []byte, ta, tb *ttrack, err error) {
	switch f[0] {
	case "ff", "ffp":
		a, n, e := ffFromSpec(f)
		if e != nil {
			err = e
			return
		}
		b, _, e := ffFromSpec(f[n:])
		if e != nil {
			err = e
			return
		}
		// a media segment file is read on its own: positions in it count from its first byte
		return a.init, a.segAt(0, 0), b.init, b.segAt(0, 0), a.truth, b.truth, nil
	case "seg":
		if len(f) < 4 {
			err = fmt.Errorf("bad combine spec")
			return
		}
		ms, _ := strconv.ParseUint(f[1], 10, 64)
		nr := atoi(f[2])
		var vs, as [][]byte
		ia, vs, err = segmenterTrackOutput(f[3:], ms, "v")
		if err != nil {
			return
		}
		ib, as, err = segmenterTrackOutput(f[3:], ms, "a")
		if err != nil {
			return
		}
		if nr < 1 || nr > len(vs) || nr > len(as) {
			err = fmt.Errorf("segment %d not produced for both tracks", nr)
			return
		}
		sa, sb = vs[nr-1], as[nr-1]
		for k, pr := range [][2][]byte{{ia, sa}, {ib, sb}} {
			oe := &outExpanded{}
			if e := expandFragmentedFile(append(cp(pr[0]), pr[1]...), oe); e != nil {
				err = e
				return
			}
			id := oe.trackIDs[0]
			tt := truthFromFull(oe.tracks[id], []string{"video", "audio"}[k], oe.tsOf[id])
			if k == 0 {
				ta = tt
			} else {
				tb = tt
			}
		}
		return
	}
	err = fmt.Errorf("bad combine input")
	return
}

// ---------- generator

func genC11(c *Ctx) {
	for _, t := range []string{"segmenter", "resegmenter", "combine-segs"} {
		if _, err := os.Stat(toolPath(t)); err != nil {
			c.Note("tool binary missing: " + toolPath(t) + " (set VERIF_BUILD)")
			c.Fail("C11-tool-missing", "a built tool binary was not found", toolPath(t), err.Error(), "")
			return
		}
	}
	scratchRoot = absScratch(c, "c11work")
	defer os.RemoveAll(scratchRoot)
	r := c.R
	overBudget := func() bool { return !c.deadline.IsZero() && time.Now().After(c.deadline) }

	// (a) segmenter
	var specs [][]string
	for _, n := range repoProgressiveFiles() {
		specs = append(specs, []string{"repo", n})
	}
	nFiles := c.N(800, 6000)
	for i := 0; i < nFiles; i++ {
		sub := strconv.FormatInt(r.Int63(), 10)
		maxS := []int{4, 12, 40, 90}[r.Intn(4)]
		switch r.Intn(8) {
		case 0, 1:
			specs = append(specs, []string{"prog", sub, strconv.Itoa(1 + r.Intn(3)), strconv.Itoa(maxS)})
		case 2:
			specs = append(specs, []string{"ext", sub, strconv.Itoa(1 + r.Intn(3)), strconv.Itoa(maxS), "mixed"})
		default:
			specs = append(specs, []string{"ext", sub, strconv.Itoa(1 + r.Intn(2)), strconv.Itoa(maxS), "va"})
		}
	}
	type segJob struct {
		mode string
		ms   uint64
		tr   toolResult
		so   *segOutput
		err  error
	}
	var chain [][]string // inputs on which the per-track mode worked: reused for resegmenter / combine-segs
	var chainMS []uint64
	for _, spec := range specs {
		if overBudget() {
			c.Note("time budget reached")
			break
		}
		data, pf, err := progInputBytes(spec)
		if err != nil {
			c.Note("input not available: " + strings.Join(spec, " "))
			continue
		}
		in, err := expandProg(data)
		if err != nil {
			c.Fail("C11-harness-input", "input cannot be expanded by the harness", strings.Join(spec, " "), err.Error(), "")
			continue
		}
		if pf != nil {
			if d := progSelfCheck(pf, in); d != "" {
				c.Fail("C11-harness-input", "raw expansion of the generated file differs from what the generator wrote", strings.Join(spec, " "), d, "")
				continue
			}
		} else if p := in.problems(); len(p) > 0 {
			c.Count("repo-file-skipped:inconsistent-tables")
			continue
		}
		if in.refTrack() < 0 || len(in.mdats) != 1 {
			c.Count("segmenter input skipped: no audio/video track or several mdat boxes")
			continue
		}
		kind := segmenterInputKind(in)
		rt := in.tracks[in.refTrack()]
		c.Count(fmt.Sprintf("segmenter file: %s tracks=%d kind=%s refStss=%v", spec[0], len(in.tracks), kind, rt.hasStss))
		for _, t := range in.tracks {
			c.Count(fmt.Sprintf("segmenter track: %s ctts=%v stss=%v sdtp=%v samples<=%d", t.hdlr, t.hasCtts, t.hasStss, t.hasSdtp, bucket(t.n, []int{1, 3, 10, 30, 100, 400, 100000})))
		}
		durs := segmentDurations(r, in, c.N(6, 9))
		var jobs []*segJob
		for _, ms := range durs {
			modes := []string{"single", "lazy", "mux", "muxlazy"}
			if spec[0] == "repo" && len(data) > 1<<20 {
				modes = []string{"single", "mux"}
			}
			for _, m := range modes {
				if (m == "single" || m == "lazy") && kind == "multi" {
					continue // file names collide: outside the documented input
				}
				jobs = append(jobs, &segJob{mode: m, ms: ms})
			}
		}
		parallelDo(len(jobs), func(i int) {
			dir, done := scratchDir("s")
			defer done()
			inPath := filepath.Join(dir, "in.mp4")
			must(os.WriteFile(inPath, data, 0o644))
			j := jobs[i]
			j.tr, j.so, j.err = runSegmenter(dir, inPath, j.mode, j.ms)
		})
		worked := false
		for _, j := range jobs {
			req := fmt.Sprintf("segment %s %d %s", j.mode, j.ms, strings.Join(spec, " "))
			checkSegmenter(c, req, j.mode, in, j.tr, j.so, j.err)
			if j.mode == "single" && j.tr.exit == 0 && j.err == nil && kind == "documented" && !worked {
				worked = true
				chain = append(chain, spec)
				chainMS = append(chainMS, j.ms)
			}
			if len(c.St.Samples) < 2 && j.tr.exit == 0 {
				c.Sample(req)
			}
		}
	}

	// (b) resegmenter + (c) Fragmentify on library-built fragmented tracks
	nFF := c.N(900, 8000)
	// doTrack: resegmenter + Fragmentify on one fragmented track; packed = the segments are those of the foreign
	// packager (c11pack.go; fewer durations, its random choices come from rr so that the main sequence is unchanged)
	doTrack := func(spec []string, t *ffTrack, r *rand.Rand, packed bool) {
		nDur, nFragDur := c.N(8, 12), c.N(2, 4)
		if packed {
			t.describe(c, "ffp")
			nDur, nFragDur = c.N(5, 8), 1
			checkPacked(c, spec, t)
		} else {
			t.describe(c, "ff")
			// self check: the library reads back what was written (guards the truth side)
			oe := &outExpanded{}
			if err := expandFragmentedFile(t.file(), oe); err != nil || len(oe.trackIDs) != 1 {
				c.Fail("C11-harness-input", "generated fragmented file cannot be expanded", strings.Join(spec, " "), fmt.Sprint(err), "")
				return
			}
			if !compareTrack(c, "harness-input", strings.Join(spec, " "), "generated fragmented file read back", t.truth, oe.tracks[oe.trackIDs[0]]) {
				return
			}
		}
		durs := resegDurations(r, t.truth, nDur)
		type rj struct {
			ticks uint64
			tr    toolResult
			oe    *outExpanded
			err   error
		}
		jobs := make([]rj, len(durs))
		input := t.file()
		dir, done := scratchDir("r")
		parallelDo(len(durs), func(k int) {
			jobs[k].ticks = durs[k]
			jobs[k].tr, jobs[k].oe, jobs[k].err = runResegmenter(dir, input, durs[k], strconv.Itoa(k))
		})
		done()
		for _, j := range jobs {
			req := fmt.Sprintf("reseg %d %s", j.ticks, strings.Join(spec, " "))
			checkReseg(c, req, t.truth, j.tr, j.oe, j.err)
			if len(c.St.Samples) < 4 && j.tr.exit == 0 {
				c.Sample(req)
			}
		}
		// Fragmentify: every segment x a few durations x trex/nil
		for si := range t.segs {
			st := segTruth(t, si)
			var total uint64
			for _, s := range st.samples {
				total += uint64(s.dur)
			}
			fd := []uint32{1, st.samples[0].dur, st.samples[0].dur + 1, uint32(total), uint32(total) + 7}
			if packed {
				fd = []uint32{1, uint32(total)}
			}
			for k := 0; k < nFragDur; k++ {
				fd = append(fd, uint32(1+r.Int63n(int64(total)+1)))
			}
			for _, d := range fd {
				for _, withTrex := range []bool{true, false} {
					if !withTrex && t.reliesOnTrex {
						continue // nil trex is only valid for segments that carry every value themselves
					}
					req := fmt.Sprintf("fragmentify %d %d %s %s", si, d, b01(withTrex), strings.Join(spec, " "))
					checkFragmentify(c, req, t, si, d, withTrex)
					if len(c.St.Samples) < 6 {
						c.Sample(req)
					}
				}
			}
		}
	}
	for i := 0; i < nFF && !overBudget(); i++ {
		sub := strconv.FormatInt(r.Int63(), 10)
		media := []string{"video", "video", "audio"}[r.Intn(3)]
		spec := []string{"ff", sub, media, "0"}
		t, _, _ := ffFromSpec(spec)
		doTrack(spec, t, r, false)
		if i%3 == 1 {
			// the same track as a foreign packager writes it
			ps := packSeedOf(sub)
			pspec := []string{"ffp", sub, media, "0", strconv.FormatInt(ps, 10)}
			pt, _, _ := ffFromSpec(pspec)
			doTrack(pspec, pt, rand.New(rand.NewSource(ps)), true)
		}
	}

	// (b') resegmenter on the segmenter's own output
	nChain := c.N(120, 1000)
	for i := 0; i < nChain && i < len(chain) && !overBudget(); i++ {
		spec, ms := chain[i], chainMS[i]
		which := []string{"v", "a"}[r.Intn(2)]
		rs := append([]string{"seg", strconv.FormatUint(ms, 10), which}, spec...)
		input, tt, err := resegInputFromSpec(rs)
		if err != nil {
			c.Count("reseg-on-segmenter-output input unavailable (e.g. no such track)")
			continue
		}
		if len(tt.samples) == 0 {
			continue
		}
		c.Count("resegmenter input: segmenter output track " + which)
		durs := resegDurations(r, tt, c.N(4, 8))
		dir, done := scratchDir("r")
		type rj struct {
			tr  toolResult
			oe  *outExpanded
			err error
		}
		jobs := make([]rj, len(durs))
		parallelDo(len(durs), func(k int) {
			jobs[k].tr, jobs[k].oe, jobs[k].err = runResegmenter(dir, input, durs[k], strconv.Itoa(k))
		})
		done()
		for k, j := range jobs {
			req := fmt.Sprintf("reseg %d %s", durs[k], strings.Join(rs, " "))
			checkReseg(c, req, tt, j.tr, j.oe, j.err)
		}
	}

	// (d) combine-segs
	nComb := c.N(800, 8000)
	type cj struct {
		req            string
		ia, sa, ib, sb []byte
		ta, tb         *ttrack
		tr             toolResult
		oe             *outExpanded
		err            error
		skip           bool
		trexInput      bool
	}
	var cjobs []*cj
	for i := 0; i < nComb; i++ {
		sa, sb := strconv.FormatInt(r.Int63(), 10), strconv.FormatInt(r.Int63(), 10)
		ma := []string{"video", "video", "audio"}[r.Intn(3)]
		mb := []string{"audio", "audio", "video"}[r.Intn(3)]
		of := "1"
		if i%5 == 4 {
			of = "2" // inputs that may carry values in their trex boxes
		}
		spec := []string{"ff", sa, ma, of, "ff", sb, mb, of}
		j := &cj{req: "combine " + strings.Join(spec, " ")}
		var err error
		j.ia, j.sa, j.ib, j.sb, j.ta, j.tb, err = combineInputFromSpec(spec)
		if err != nil {
			continue
		}
		// the documented limitation: inputs must not rely on trex defaults
		a, _, _ := ffFromSpec(spec[0:4])
		b, _, _ := ffFromSpec(spec[4:8])
		if a.reliesOnTrex || b.reliesOnTrex {
			// the tool used to expand its inputs without their trex boxes, losing values carried only by trex
			// (fixed; see known-findings C11-combine-trex-defaults): differences on such inputs get that fingerprint.
			c.Count("combine-segs input: relies on trex defaults")
			j.trexInput = true
		}
		a.describe(c, "combine")
		b.describe(c, "combine")
		cjobs = append(cjobs, j)
		if i%4 == 1 {
			// the same pair as a foreign packager writes the media segments
			pspec := []string{"ffp", sa, ma, of, strconv.FormatInt(packSeedOf(sa), 10), "ffp", sb, mb, of, strconv.FormatInt(packSeedOf(sb), 10)}
			pj := &cj{req: "combine " + strings.Join(pspec, " "), trexInput: j.trexInput}
			pj.ia, pj.sa, pj.ib, pj.sb, pj.ta, pj.tb, err = combineInputFromSpec(pspec)
			if err == nil {
				c.Count("combine-segs input: foreign packager layout")
				cjobs = append(cjobs, pj)
			}
		}
	}
	for i := 0; i < c.N(100, 800) && i < len(chain); i++ {
		spec, ms := chain[i], chainMS[i]
		cs := append([]string{"seg", strconv.FormatUint(ms, 10), strconv.Itoa(1 + r.Intn(3))}, spec...)
		j := &cj{req: "combine " + strings.Join(cs, " ")}
		var err error
		j.ia, j.sa, j.ib, j.sb, j.ta, j.tb, err = combineInputFromSpec(cs)
		if err != nil {
			c.Count("combine-on-segmenter-output input unavailable (no audio track or too few segments)")
			continue
		}
		c.Count("combine-segs input: segmenter output")
		cjobs = append(cjobs, j)
	}
	if !overBudget() {
		parallelDo(len(cjobs), func(i int) {
			dir, done := scratchDir("c")
			defer done()
			j := cjobs[i]
			j.tr, j.oe, j.err = runCombine(dir, j.ia, j.sa, j.ib, j.sb)
		})
		for _, j := range cjobs {
			if j.trexInput {
				c11OneFingerprint = "C11-combine-trex-defaults"
			}
			checkCombine(c, j.req, j.ta, j.tb, j.tr, j.oe, j.err)
			c11OneFingerprint = ""
			if len(c.St.Samples) < 8 && j.tr.exit == 0 {
				c.Sample(j.req)
			}
		}
	}
}

// packSeedOf: the pack seed of the foreign-packager variant of the track generated from sub (no draw from c.R)
func packSeedOf(sub string) int64 {
	h := sha256.Sum256([]byte("pack " + sub))
	return int64(binary.BigEndian.Uint32(h[:4])) + 1
}

func bitsLen(v uint64) int {
	n := 0
	for ; v != 0; v >>= 1 {
		n++
	}
	return n
}
