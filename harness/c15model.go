package main

import (
	"fmt"
	"math/rand"
	"strings"

	"github.com/Eyevinn/mp4ff/avc"
)

// Correspondence glue for C15: avc.ParseSPSNALUnit(nalu, true) rendered in the canonical text of
// lean/Mp4ff/Driver/C15.lean `record` (the fields the Go struct keeps, in syntax order), for the `avcspsm` op.

func b01i(b bool) int {
	if b {
		return 1
	}
	return 0
}

var avcHighProfilesM = map[uint32]bool{100: true, 110: true, 122: true, 244: true, 44: true, 83: true, 86: true, 118: true, 128: true, 138: true, 139: true, 134: true, 135: true}

func avcSPSRecord(nalu []byte) (ans string) {
	defer func() {
		if r := recover(); r != nil {
			ans = fmt.Sprintf("panic: %v", r)
		}
	}()
	s, err := avc.ParseSPSNALUnit(nalu, true)
	if err != nil || s == nil {
		return "err"
	}
	var p []string
	add := func(n string, v interface{}) { p = append(p, fmt.Sprintf("%s=%v", n, v)) }
	add("profile_idc", s.Profile)
	add("constraint_flags", s.ProfileCompatibility)
	add("level_idc", s.Level)
	add("seq_parameter_set_id", s.ParameterID)
	if avcHighProfilesM[s.Profile] {
		add("chroma_format_idc", s.ChromaFormatIDC)
		if s.ChromaFormatIDC == 3 {
			add("separate_colour_plane_flag", b01i(s.SeparateColourPlaneFlag))
		}
		add("bit_depth_luma_minus8", s.BitDepthLumaMinus8)
		add("bit_depth_chroma_minus8", s.BitDepthChromaMinus8)
		add("qpprime_y_zero_transform_bypass_flag", b01i(s.QPPrimeYZeroTransformBypassFlag))
		add("seq_scaling_matrix_present_flag", b01i(s.SeqScalingMatrixPresentFlag))
		if s.SeqScalingMatrixPresentFlag {
			var ls []string
			for _, l := range s.SeqScalingLists {
				if l == nil {
					ls = append(ls, "nil")
					continue
				}
				var vs []string
				for _, x := range l {
					vs = append(vs, fmt.Sprint(x))
				}
				ls = append(ls, strings.Join(vs, ","))
			}
			add("lists", strings.Join(ls, "|"))
		}
	}
	add("log2_max_frame_num_minus4", s.Log2MaxFrameNumMinus4)
	add("pic_order_cnt_type", s.PicOrderCntType)
	switch s.PicOrderCntType {
	case 0:
		add("log2_max_pic_order_cnt_lsb_minus4", s.Log2MaxPicOrderCntLsbMinus4)
	case 1:
		add("delta_pic_order_always_zero_flag", b01i(s.DeltaPicOrderAlwaysZeroFlag))
		add("offset_for_non_ref_pic", s.OffsetForNonRefPic)
		add("offset_for_top_to_bottom_field", s.OffsetForTopToBottomField)
		add("num_ref_frames_in_pic_order_cnt_cycle", len(s.RefFramesInPicOrderCntCycle))
		for _, x := range s.RefFramesInPicOrderCntCycle {
			add("offset_for_ref_frame", x)
		}
	}
	add("max_num_ref_frames", s.NumRefFrames)
	add("gaps_in_frame_num_value_allowed_flag", b01i(s.GapsInFrameNumValueAllowedFlag))
	add("frame_mbs_only_flag", b01i(s.FrameMbsOnlyFlag))
	if !s.FrameMbsOnlyFlag {
		add("mb_adaptive_frame_field_flag", b01i(s.MbAdaptiveFrameFieldFlag))
	}
	add("direct_8x8_inference_flag", b01i(s.Direct8x8InferenceFlag))
	add("frame_cropping_flag", b01i(s.FrameCroppingFlag))
	if s.FrameCroppingFlag {
		add("frame_crop_left_offset", s.FrameCropLeftOffset)
		add("frame_crop_right_offset", s.FrameCropRightOffset)
		add("frame_crop_top_offset", s.FrameCropTopOffset)
		add("frame_crop_bottom_offset", s.FrameCropBottomOffset)
	}
	add("vui_parameters_present_flag", b01i(s.VUI != nil))
	if v := s.VUI; v != nil {
		p = append(p, fmt.Sprintf("sar=%d:%d", v.SampleAspectRatioWidth, v.SampleAspectRatioHeight))
		add("overscan_info_present_flag", b01i(v.OverscanInfoPresentFlag))
		if v.OverscanInfoPresentFlag {
			add("overscan_appropriate_flag", b01i(v.OverscanAppropriateFlag))
		}
		add("video_signal_type_present_flag", b01i(v.VideoSignalTypePresentFlag))
		if v.VideoSignalTypePresentFlag {
			add("video_format", v.VideoFormat)
			add("video_full_range_flag", b01i(v.VideoFullRangeFlag))
			add("colour_description_present_flag", b01i(v.ColourDescriptionFlag))
			if v.ColourDescriptionFlag {
				add("colour_primaries", v.ColourPrimaries)
				add("transfer_characteristics", v.TransferCharacteristics)
				add("matrix_coefficients", v.MatrixCoefficients)
			}
		}
		add("chroma_loc_info_present_flag", b01i(v.ChromaLocInfoPresentFlag))
		if v.ChromaLocInfoPresentFlag {
			add("chroma_sample_loc_type_top_field", v.ChromaSampleLocTypeTopField)
			add("chroma_sample_loc_type_bottom_field", v.ChromaSampleLocTypeBottomField)
		}
		add("timing_info_present_flag", b01i(v.TimingInfoPresentFlag))
		if v.TimingInfoPresentFlag {
			add("num_units_in_tick", v.NumUnitsInTick)
			add("time_scale", v.TimeScale)
			add("fixed_frame_rate_flag", b01i(v.FixedFrameRateFlag))
		}
		hrd := func(h *avc.HrdParameters) {
			add("cpb_cnt_minus1", h.CpbCountMinus1)
			add("bit_rate_scale", h.BitRateScale)
			add("cpb_size_scale", h.CpbSizeScale)
			for _, e := range h.CpbEntries {
				add("bit_rate_value_minus1", e.BitRateValueMinus1)
				add("cpb_size_value_minus1", e.CpbSizeValueMinus1)
				add("cbr_flag", b01i(e.CbrFlag))
			}
			add("initial_cpb_removal_delay_length_minus1", h.InitialCpbRemovalDelayLengthMinus1)
			add("cpb_removal_delay_length_minus1", h.CpbRemovalDelayLengthMinus1)
			add("dpb_output_delay_length_minus1", h.DpbOutputDelayLengthMinus1)
			add("time_offset_length", h.TimeOffsetLength)
		}
		add("nal_hrd_parameters_present_flag", b01i(v.NalHrdParametersPresentFlag))
		if v.NalHrdParametersPresentFlag && v.NalHrdParameters != nil {
			hrd(v.NalHrdParameters)
		}
		add("vcl_hrd_parameters_present_flag", b01i(v.VclHrdParametersPresentFlag))
		if v.VclHrdParametersPresentFlag && v.VclHrdParameters != nil {
			hrd(v.VclHrdParameters)
		}
		if v.NalHrdParametersPresentFlag || v.VclHrdParametersPresentFlag {
			add("low_delay_hrd_flag", b01i(v.LowDelayHrdFlag))
		}
		add("pic_struct_present_flag", b01i(v.PicStructPresentFlag))
		add("bitstream_restriction_flag", b01i(v.BitstreamRestrictionFlag))
		if v.BitstreamRestrictionFlag {
			add("motion_vectors_over_pic_boundaries_flag", b01i(v.MotionVectorsOverPicBoundariesFlag))
			add("max_bytes_per_pic_denom", v.MaxBytesPerPicDenom)
			add("max_bits_per_mb_denom", v.MaxBitsPerMbDenom)
			add("log2_max_mv_length_horizontal", v.Log2MaxMvLengthHorizontal)
			add("log2_max_mv_length_vertical", v.Log2MaxMvLengthVertical)
			add("max_num_reorder_frames", v.MaxNumReorderFrames)
			add("max_dec_frame_buffering", v.MaxDecFrameBuffering)
		}
	}
	return strings.Join(p, " ") + fmt.Sprintf(" dims=%dx%d", s.Width, s.Height)
}

// avcSPSModelCases: the generated SPS itself plus truncations of it (error paths) as `avcspsm ue <hex>` cases.
// "ue": the current code reads the poc-type-1 offsets as ue(v) (known finding C15-avcsps-field-Offset…).
func avcSPSModelCases(c *Ctx, r *rand.Rand, nalu []byte) {
	emit := func(b []byte) {
		req := "avcspsm ue " + hx(b)
		c.Case(req, avcSPSRecord(b))
	}
	emit(nalu)
	if len(nalu) > 6 && r.Intn(3) == 0 {
		emit(nalu[:4+r.Intn(len(nalu)-4)])
	}
	// hostile variants (C16): bit flips, a long zero run (huge Exp-Golomb value), random tail, random body
	if len(nalu) > 6 && r.Intn(2) == 0 {
		b := cp(nalu)
		switch r.Intn(4) {
		case 0:
			for k := 0; k < 1+r.Intn(3); k++ {
				b[1+r.Intn(len(b)-1)] ^= byte(1 << uint(r.Intn(8)))
			}
		case 1:
			at := 4 + r.Intn(len(b)-4)
			z := make([]byte, 1+r.Intn(9))
			b = append(append(append([]byte{}, b[:at]...), z...), b[at:]...)
		case 2:
			t := make([]byte, 1+r.Intn(12))
			r.Read(t)
			b = append(b[:4+r.Intn(len(b)-4)], t...)
		default:
			b = make([]byte, 4+r.Intn(40))
			r.Read(b)
			b[0] = 0x67
			b[1] = []byte{66, 77, 100, 110, 122, 244, 44}[r.Intn(7)]
		}
		emit(b)
	}
}
