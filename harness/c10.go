package main

import (
	"bytes"
	"context"
	"crypto/sha256"
	"fmt"
	"math/rand"
	"os"
	"os/exec"
	"path/filepath"
	"regexp"
	"runtime"
	"sort"
	"strconv"
	"strings"
	"sync"
	"time"

	"github.com/Eyevinn/mp4ff/mp4"
)

func init() {
	props["C10"] = &propDef{
		rule: "cases = (progressive file, crop duration) pairs run through the built cmd/mp4ff-crop binary: files from harness/progfile.go (1..4 tracks, random chunking/interleaving/gaps, stco|co64, ctts/stss/sdtp present or absent, mdat before or after moov, 8/16-byte mdat header), from the extended generator c10_gen.go (adds edts/elst, uniform stsz, ctts v1, 14 time scales, movie time scales 600/1000/90000, audio-only and audio-first files, round-robin/sequential layouts, sync samples a fraction of a millisecond before a whole millisecond, samples of other tracks within one tick of the converted end time) from the long-track generator c10_long.go (tracks of 1..2.6 x 2^32 ticks: 10 MHz / microsecond time scales at 1..50 fps, 90 kHz tracks with one picture per 2 or 10 s, up to 30000 tiny samples, one or a few stts runs, with ordinary companion tracks), from the layout family c10_layout.go (the extended generator's tracks stored with an arbitrary placement of the chunks inside mdat: random permutation, tracks back to front, per-track descending offsets, everything backwards, exchanged places, late chunks first, with/without unreferenced bytes around the chunks; additional top-level free/skip/uuid boxes and empty mdat boxes with 8- or 16-byte headers before/between/after moov and the media, moov before or after the media) and the repository's progressive test files; durations = 1,2,3 ms, for every sync sample of the reference track its start in ms -1/+0/+1/+2, every track end -1/+0/+1, every multiple of 2^32 ticks of a track and the first sync sample after it -1/+0/+1, random points, beyond the end, and EVERY millisecond for files shorter than 400 ms (quick) / 1500 ms (thorough); oracle = independent raw-byte expansion of input and output sample tables; non-trivial = distinct (file, duration) on which the tool succeeded and at least one track was really cut",
		gen:  genC10,
		exec: execC10,
	}
}

// ---------- running built tools (shared with C11)

func toolPath(name string) string {
	b := os.Getenv("VERIF_BUILD")
	if b == "" {
		b = "/verif/.build"
	}
	return filepath.Join(b, "tools", name)
}

type toolResult struct {
	exit   int // 0 ok, >0 exit code, -1 could not start / timeout
	stdout string
	stderr string
}

func runTool(name, dir string, args ...string) toolResult {
	ctx, cancel := context.WithTimeout(context.Background(), 60*time.Second)
	defer cancel()
	cmd := exec.CommandContext(ctx, toolPath(name), args...)
	cmd.Dir = dir
	var so, se bytes.Buffer
	cmd.Stdout, cmd.Stderr = &so, &se
	err := cmd.Run()
	r := toolResult{stdout: so.String(), stderr: se.String()}
	if err != nil {
		if ee, ok := err.(*exec.ExitError); ok && ctx.Err() == nil {
			r.exit = ee.ExitCode()
		} else {
			r.exit = -1
			r.stderr += " [" + err.Error() + "]"
		}
	}
	return r
}

var reDigits = regexp.MustCompile(`[0-9]+`)

// failureClass turns a tool's stderr into a stable class name: "panic <site>" or the error text with numbers
// replaced by N.
func failureClass(r toolResult) string {
	s := r.stderr
	if i := strings.Index(s, "panic:"); i >= 0 || strings.Contains(s, "goroutine 1 [running]") {
		msg := ""
		if i >= 0 {
			msg = strings.SplitN(s[i:], "\n", 2)[0]
		}
		site := ""
		lines := strings.Split(s, "\n")
		for k, l := range lines {
			if strings.HasPrefix(l, "\t") && !strings.Contains(l, "/runtime/") && strings.Contains(l, ".go:") && k > 0 {
				loc := strings.TrimSpace(l)
				if j := strings.Index(loc, " "); j > 0 {
					loc = loc[:j]
				}
				parts := strings.Split(loc, "/")
				if len(parts) >= 2 {
					loc = parts[len(parts)-2] + "/" + parts[len(parts)-1]
				}
				site = loc
				break
			}
		}
		return "panic " + reDigits.ReplaceAllString(msg, "N") + " @ " + site
	}
	if r.exit == -1 {
		return "not-run " + clipN(r.stderr, 80)
	}
	l := strings.TrimSpace(s)
	if k := strings.LastIndex(l, "error:"); k >= 0 {
		l = l[k:]
	}
	l = strings.SplitN(l, "\n", 2)[0]
	return reDigits.ReplaceAllString(clipN(l, 120), "N")
}

func clipN(s string, n int) string {
	if len(s) > n {
		return s[:n]
	}
	return s
}

// noteFirst records the first request that produced each tool-failure class (evidence for the report).
var firstSeen = map[string]bool{}

func noteFirst(c *Ctx, class, req string) {
	if !firstSeen[class] {
		firstSeen[class] = true
		c.Note("first request with " + class + ": " + req)
	}
}

var scratchRoot string // set by generators to a directory under c.OutDir; empty in replay mode

func scratchDir(tag string) (string, func()) {
	if scratchRoot != "" {
		d, err := os.MkdirTemp(scratchRoot, tag)
		if err == nil {
			return d, func() { os.RemoveAll(d) }
		}
	}
	d, err := os.MkdirTemp("", "verif-"+tag)
	if err != nil {
		panic(err)
	}
	return d, func() { os.RemoveAll(d) }
}

func absScratch(c *Ctx, name string) string {
	d, err := filepath.Abs(filepath.Join(c.OutDir, name))
	if err != nil {
		d = filepath.Join(c.OutDir, name)
	}
	os.MkdirAll(d, 0o755)
	return d
}

// parallelDo runs f(i) for i in 0..n-1 on all cores; results must be written to per-index slots.
func parallelDo(n int, f func(i int)) {
	w := runtime.NumCPU()
	if w > 16 {
		w = 16
	}
	var wg sync.WaitGroup
	ch := make(chan int)
	for k := 0; k < w; k++ {
		wg.Add(1)
		go func() {
			defer wg.Done()
			for i := range ch {
				f(i)
			}
		}()
	}
	for i := 0; i < n; i++ {
		ch <- i
	}
	close(ch)
	wg.Wait()
}

// ---------- inputs

// progInputBytes resolves an input description ("prog seed ntracks max" | "ext seed ntracks max flavor" |
// "long seed ntracks" | "lay seed ntracks max" | "repo path") to file bytes.
func progInputBytes(f []string) ([]byte, *progFile, error) {
	switch f[0] {
	case "prog":
		if len(f) < 4 {
			return nil, nil, fmt.Errorf("bad input spec")
		}
		seed, _ := strconv.ParseInt(f[1], 10, 64)
		pf := genProgFile(rand.New(rand.NewSource(seed)), atoi(f[2]), atoi(f[3]))
		return pf.bytes, pf, nil
	case "ext":
		if len(f) < 5 {
			return nil, nil, fmt.Errorf("bad input spec")
		}
		seed, _ := strconv.ParseInt(f[1], 10, 64)
		pe := genProgExt(rand.New(rand.NewSource(seed)), atoi(f[2]), atoi(f[3]), f[4])
		return pe.bytes, pe.progFile, nil
	case "long":
		if len(f) < 3 {
			return nil, nil, fmt.Errorf("bad input spec")
		}
		seed, _ := strconv.ParseInt(f[1], 10, 64)
		pe := genProgLong(rand.New(rand.NewSource(seed)), atoi(f[2]))
		return pe.bytes, pe.progFile, nil
	case "lay":
		if len(f) < 4 {
			return nil, nil, fmt.Errorf("bad input spec")
		}
		seed, _ := strconv.ParseInt(f[1], 10, 64)
		pe := genProgLayout(rand.New(rand.NewSource(seed)), atoi(f[2]), atoi(f[3]))
		return pe.bytes, pe.progFile, nil
	case "repo":
		d, err := os.ReadFile(repoPath(f[1]))
		return d, nil, err
	}
	return nil, nil, fmt.Errorf("bad input spec")
}

func inputSpecLen(kind string) int {
	switch kind {
	case "prog", "lay":
		return 4
	case "ext":
		return 5
	case "long":
		return 3
	}
	return 2
}

// progressive repository files (decoded by the library only to select them)
func repoProgressiveFiles() []string {
	files, names := repoMediaFiles()
	var out []string
	for i, d := range files {
		if len(d) > 6<<20 {
			continue
		}
		rp, err := expandProg(d)
		if err != nil || rp.fragmented || len(rp.tracks) == 0 || len(rp.mdats) == 0 {
			continue
		}
		ok := true
		for _, t := range rp.tracks {
			if t.n == 0 {
				ok = false
			}
		}
		if ok {
			out = append(out, names[i])
		}
	}
	return out
}

// ---------- exec: "crop <ms> <input spec>"

func sampleListHash(t *rawTrack) string {
	h := sha256.New()
	for i := 0; i < t.n && i < len(t.data) && i < len(t.dur) && i < len(t.cto); i++ {
		fmt.Fprintf(h, "%d %d %v %d|", t.dur[i], t.cto[i], t.sync[i], len(t.data[i]))
		h.Write(t.data[i])
	}
	return fmt.Sprintf("%x", h.Sum(nil)[:6])
}

func cropSummary(out []byte) string {
	rp, err := expandProg(out)
	if err != nil {
		return "ok unparsable-output " + err.Error()
	}
	p := []string{fmt.Sprintf("ok mvhd=%d/%d", rp.mvhdDur, rp.mvhdTimescale)}
	for _, t := range rp.tracks {
		p = append(p, fmt.Sprintf("t%d:n=%d:tkhd=%d:mdhd=%d:h=%s", t.trackID, t.n, t.tkhdDur, t.mdhdDur, sampleListHash(t)))
	}
	return strings.Join(p, " ")
}

func runCrop(dir string, inPath string, ms uint64, tag string) (toolResult, []byte) {
	outPath := filepath.Join(dir, "out_"+tag+".mp4")
	r := runTool("mp4ff-crop", dir, "-d", strconv.FormatUint(ms, 10), inPath, outPath)
	var out []byte
	if r.exit == 0 {
		out, _ = os.ReadFile(outPath)
	}
	os.Remove(outPath)
	return r, out
}

func execC10(req string) string {
	f := strings.Fields(req)
	if len(f) >= 2 && f[0] == "crop" && strings.HasPrefix(f[1], "H=") {
		return execCropModel(strings.ReplaceAll(f[1][2:], "/", " "))
	}
	if len(f) >= 2 && f[0] == "cropmdat" && strings.HasPrefix(f[1], "H=") {
		return execCropMdat(strings.ReplaceAll(f[1][2:], "/", " "))
	}
	if len(f) < 4 || f[0] != "crop" {
		return "bad-op"
	}
	ms, err := strconv.ParseUint(f[1], 10, 64)
	if err != nil {
		return "bad-op"
	}
	var ans string
	p := safe(func() {
		data, _, err := progInputBytes(f[2:])
		if err != nil {
			ans = "input-err " + err.Error()
			return
		}
		dir, done := scratchDir("c10x")
		defer done()
		in := filepath.Join(dir, "in.mp4")
		if err := os.WriteFile(in, data, 0o644); err != nil {
			ans = "input-err " + err.Error()
			return
		}
		r, out := runCrop(dir, in, ms, "x")
		if r.exit != 0 {
			ans = "fail " + failureClass(r)
			return
		}
		ans = cropSummary(out)
	})
	if p != "" {
		return p
	}
	return ans
}

// ---------- oracle

// expected cut per the statement: end time = start of the first sync sample of the reference track whose start
// (an exact rational: ticks/timescale) is at or after ms/1000; k_t = number of samples of track t that start
// (exactly) before the end time. ok=false when no such sync sample exists.
func expectedCrop(in *rawProg, ms uint64) (ks []int, refSample int, ok bool) {
	ri := in.refTrack()
	if ri < 0 {
		return nil, -1, false
	}
	rt := in.tracks[ri]
	T := uint64(rt.timescale)
	j := -1
	for i := 0; i < rt.n; i++ {
		if rt.sync[i] && rt.dec[i]*1000 >= ms*T {
			j = i
			break
		}
	}
	if j < 0 {
		return nil, -1, false
	}
	E := rt.dec[j]
	for _, t := range in.tracks {
		k := 0
		for i := 0; i < t.n; i++ {
			if t.dec[i]*T < E*uint64(t.timescale) {
				k++
			}
		}
		ks = append(ks, k)
	}
	return ks, j, true
}

func cropDurations(r *rand.Rand, in *rawProg, quota int, exhaustBelow uint64) []uint64 {
	set := map[uint64]bool{}
	var special []uint64
	add := func(v int64) {
		if v >= 1 && !set[uint64(v)] {
			set[uint64(v)] = true
			special = append(special, uint64(v))
		}
	}
	var totalMS uint64
	for _, t := range in.tracks {
		e := (t.total*1000 + uint64(t.timescale) - 1) / uint64(t.timescale)
		if e > totalMS {
			totalMS = e
		}
	}
	if totalMS+2 <= exhaustBelow {
		// every millisecond up to just after the last possible end point (the last sync sample of the reference
		// track), then a dozen values spread over the rest (where the tool can only refuse) and beyond the end
		last := totalMS
		if ri := in.refTrack(); ri >= 0 {
			rt := in.tracks[ri]
			for i := rt.n - 1; i >= 0; i-- {
				if rt.sync[i] {
					last = rt.dec[i]*1000/uint64(rt.timescale) + 3
					break
				}
			}
		}
		if last > totalMS+2 {
			last = totalMS + 2
		}
		var all []uint64
		for v := uint64(1); v <= last; v++ {
			all = append(all, v)
		}
		if rest := totalMS + 2 - last; rest > 0 {
			step := rest/12 + 1
			for v := last + 1; v <= totalMS+2; v += step {
				all = append(all, v)
			}
			if all[len(all)-1] != totalMS+2 {
				all = append(all, totalMS+1, totalMS+2)
			}
		}
		all = append(all, totalMS+1000)
		sort.Slice(all, func(i, j int) bool { return all[i] < all[j] })
		uniq := all[:0]
		for i, v := range all {
			if i == 0 || v != all[i-1] {
				uniq = append(uniq, v)
			}
		}
		return uniq
	}
	add(1)
	add(2)
	add(3)
	ri := in.refTrack()
	if ri >= 0 {
		rt := in.tracks[ri]
		for i := 0; i < rt.n; i++ {
			if rt.sync[i] {
				m := int64(rt.dec[i] * 1000 / uint64(rt.timescale))
				add(m - 1)
				add(m)
				add(m + 1)
				add(m + 2)
			}
		}
	}
	for _, t := range in.tracks {
		e := int64(t.total * 1000 / uint64(t.timescale))
		add(e - 1)
		add(e)
		add(e + 1)
		if t.n > 0 {
			l := int64(t.dec[t.n-1] * 1000 / uint64(t.timescale))
			add(l)
			add(l + 1)
		}
	}
	add(int64(totalMS) + 17)
	add(int64(totalMS) + 1000)
	if len(special) > quota*3/4 {
		// keep a random subset of the special points (deterministic per seed)
		r.Shuffle(len(special), func(i, j int) { special[i], special[j] = special[j], special[i] })
		for _, v := range special[quota*3/4:] {
			delete(set, v)
		}
		special = special[:quota*3/4]
	}
	// tracks longer than 2^32 ticks: the durations around each multiple of 2^32 ticks (none for shorter tracks)
	for _, v := range wrapDurations(in) {
		add(int64(v))
	}
	for len(special) < quota && totalMS > 0 {
		v := uint64(1 + r.Int63n(int64(totalMS)))
		if !set[v] {
			set[v] = true
			special = append(special, v)
		} else if totalMS < uint64(quota)*2 {
			break
		}
	}
	sort.Slice(special, func(i, j int) bool { return special[i] < special[j] })
	return special
}

func genC10(c *Ctx) {
	if _, err := os.Stat(toolPath("mp4ff-crop")); err != nil {
		c.Note("tool binary missing: " + toolPath("mp4ff-crop") + " (set VERIF_BUILD)")
		c.Fail("C10-tool-missing", "the built mp4ff-crop binary was not found", toolPath("mp4ff-crop"), err.Error(), "")
		return
	}
	scratchRoot = absScratch(c, "c10work")
	defer os.RemoveAll(scratchRoot)
	r := c.R
	nFiles := c.N(1000, 2400)
	quota := c.N(70, 110)
	exhaustBelow := uint64(c.N(400, 1500))
	var specs [][]string
	for _, n := range repoProgressiveFiles() {
		specs = append(specs, []string{"repo", n})
	}
	for i := 0; i < nFiles; i++ {
		sub := strconv.FormatInt(r.Int63(), 10)
		switch r.Intn(5) {
		case 0, 1:
			maxS := []int{4, 12, 40, 90}[r.Intn(4)]
			specs = append(specs, []string{"prog", sub, strconv.Itoa(1 + r.Intn(4)), strconv.Itoa(maxS)})
		default:
			maxS := []int{4, 12, 40, 90}[r.Intn(4)]
			fl := []string{"mixed", "mixed", "va", "audio"}[r.Intn(4)]
			specs = append(specs, []string{"ext", sub, strconv.Itoa(1 + r.Intn(4)), strconv.Itoa(maxS), fl})
		}
	}
	runSpec := func(spec []string) bool {
		if !c.deadline.IsZero() && time.Now().After(c.deadline) {
			c.Note("time budget reached")
			return false
		}
		data, pf, err := progInputBytes(spec)
		if err != nil {
			c.Note("input not available: " + strings.Join(spec, " ") + ": " + err.Error())
			return true
		}
		in, err := expandProg(data)
		if err != nil {
			c.Fail("C10-harness-input", "generated/selected input cannot be expanded by the harness", strings.Join(spec, " "), err.Error(), "")
			return true
		}
		if pf != nil {
			if d := progSelfCheck(pf, in); d != "" {
				c.Fail("C10-harness-input", "raw expansion of the generated file differs from what the generator wrote", strings.Join(spec, " "), d, "")
				return true
			}
		} else if p := in.problems(); len(p) > 0 {
			c.Count("repo-file-skipped:inconsistent-tables")
			c.Note("repository file skipped (tables not consistent per the harness expansion): " + spec[1] + ": " + p[0])
			return true
		}
		inFile, err := mp4.DecodeFile(bytes.NewReader(data))
		if err != nil {
			c.Count("input-not-decodable")
			return true
		}
		c10CurIn, c10CurInBytes, c10CurKind = inFile, data, spec[0]
		if spec[0] == "long" {
			// the executable model walks the tables sample by sample (quadratic in the number of kept samples): model
			// correspondence lines only for long files with few samples (slow tracks); the direct oracle covers all
			total := 0
			for _, t := range in.tracks {
				total += t.n
			}
			if total > 6000 {
				c10CurIn = nil
				c.Count("long: model lines skipped (more than 6000 samples)")
			}
		}
		c.Count("file:" + spec[0])
		describeInput(c, in)
		describeLayout(c, in)
		q, eb := quota, exhaustBelow
		if spec[0] == "repo" {
			q = c.N(40, 120)
		}
		if spec[0] == "long" {
			q = c.N(40, 80)
		}
		if spec[0] == "lay" {
			// the layout family varies where things are stored, not where the cut falls: fewer durations per file
			q, eb = c.N(30, 60), 0
		}
		durs := cropDurations(r, in, q, eb)
		dir, done := scratchDir("f")
		inPath := filepath.Join(dir, "in.mp4")
		must(os.WriteFile(inPath, data, 0o644))
		type res struct {
			r   toolResult
			out []byte
		}
		results := make([]res, len(durs))
		parallelDo(len(durs), func(i int) {
			tr, out := runCrop(dir, inPath, durs[i], strconv.Itoa(i))
			results[i] = res{tr, out}
		})
		done()
		for i, ms := range durs {
			req := fmt.Sprintf("crop %d %s", ms, strings.Join(spec, " "))
			checkCrop(c, req, in, ms, results[i].r, results[i].out)
			if spec[0] == "long" && results[i].r.exit == 0 {
				if ri := in.refTrack(); ri >= 0 && ms*uint64(in.tracks[ri].timescale)/1000 >= 1<<32 {
					c.Count("long: successful crop later than 2^32 ticks of the reference track")
				} else {
					c.Count("long: successful crop before 2^32 ticks of the reference track")
				}
			}
		}
		if len(c.St.Samples) < 4 {
			c.Sample(fmt.Sprintf("crop %d %s", durs[len(durs)/2], strings.Join(spec, " ")))
		}
		return true
	}
	for _, spec := range specs {
		if !runSpec(spec) {
			return
		}
	}
	// long tracks (decode times beyond 2^32 ticks), see c10_long.go; generated after the other inputs so that their
	// random stream is unchanged
	for i := 0; i < c.N(12, 60); i++ {
		sub := strconv.FormatInt(r.Int63(), 10)
		if !runSpec([]string{"long", sub, strconv.Itoa(1 + r.Intn(3))}) {
			return
		}
	}
	// layout family (arbitrary chunk placement inside mdat, additional top-level boxes), see c10_layout.go; again
	// generated after everything else so that the older inputs keep their random stream
	for i := 0; i < c.N(200, 700); i++ {
		sub := strconv.FormatInt(r.Int63(), 10)
		maxS := []int{4, 12, 40, 90}[r.Intn(4)]
		if !runSpec([]string{"lay", sub, strconv.Itoa(1 + r.Intn(4)), strconv.Itoa(maxS)}) {
			return
		}
	}
}

func describeInput(c *Ctx, in *rawProg) {
	c.Count(fmt.Sprintf("tracks=%d", len(in.tracks)))
	ri := in.refTrack()
	if ri >= 0 {
		c.Count(fmt.Sprintf("ref=%s#%d stss=%v", in.tracks[ri].hdlr, ri+1, in.tracks[ri].hasStss))
	}
	for _, t := range in.tracks {
		c.Count(fmt.Sprintf("track: ctts=%v stss=%v sdtp=%v edts=%v co64=%v uniform=%v", t.hasCtts, t.hasStss, t.hasSdtp, t.hasEdts, t.co64, t.uniform != 0))
		c.Count(fmt.Sprintf("track: samples<=%d", bucket(t.n, []int{1, 3, 10, 30, 100, 400, 100000})))
		c.Count(fmt.Sprintf("track: stscEntries<=%d", bucket(len(t.stsc), []int{1, 2, 4, 8, 1000000})))
		c.Count(fmt.Sprintf("track: timescale=%d", t.timescale))
	}
	if len(in.top) > 0 {
		mdatFirst := false
		for _, x := range in.top {
			if x == "mdat" {
				mdatFirst = true
				break
			}
			if x == "moov" {
				break
			}
		}
		c.Count(fmt.Sprintf("mdatBeforeMoov=%v", mdatFirst))
	}
}

func bucket(v int, bounds []int) int {
	for _, b := range bounds {
		if v <= b {
			return b
		}
	}
	return bounds[len(bounds)-1]
}

func checkCrop(c *Ctx, req string, in *rawProg, ms uint64, tr toolResult, out []byte) {
	ks, j, defined := expectedCrop(in, ms)
	if tr.exit != 0 {
		c.Eval("")
		cl := failureClass(tr)
		c.Count("tool-failure: " + cl)
		noteFirst(c, "crop tool-failure: "+cl, req)
		if tr.exit == -1 || strings.Contains(cl, "opening input file") || strings.Contains(cl, "creating output file") {
			c.Fail("C10-harness-tool-run", "the tool could not be run on the scratch files", req, cl, "")
		}
		if defined {
			c.Count("outcome: tool failed although the cut is defined (not a violation: 'when mp4ff-crop succeeds')")
		} else {
			c.Count("outcome: tool failed, no sync sample at or after the duration")
		}
		return
	}
	fail := func(kind, what, got, exp string) {
		c.Fail("C10-"+kind, what, req, clip(got), clip(exp))
	}
	// decodable
	var dec *mp4.File
	var derr error
	if p := safe(func() { dec, derr = mp4.DecodeFile(bytes.NewReader(out)) }); p != "" {
		c.Eval("")
		fail("output-undecodable", "mp4.DecodeFile panics on the cropped file", p, "")
		return
	}
	if derr != nil {
		c.Eval("")
		fail("output-undecodable", "mp4.DecodeFile rejects the cropped file", derr.Error(), "")
		return
	}
	cropModelCase(c, req, dec, ms)
	if dec.IsFragmented() || dec.Moov == nil {
		c.Eval("")
		fail("output-not-progressive", "cropped file is not a progressive file", "", "")
		return
	}
	o, err := expandProg(out)
	if err != nil {
		c.Eval("")
		fail("output-unparsable", "cropped file's boxes cannot be walked", err.Error(), "")
		return
	}
	if len(o.tracks) != len(in.tracks) {
		c.Eval("")
		fail("track-count", "number of tracks changed", fmt.Sprint(len(o.tracks)), fmt.Sprint(len(in.tracks)))
		return
	}
	cropMdatCase(c, req, ms, in, o, out)
	ri := in.refTrack()
	cut := false
	for ti := range in.tracks {
		if o.tracks[ti].n < in.tracks[ti].n {
			cut = true
		}
	}
	if cut {
		c.Eval(req)
	} else {
		c.Eval("")
	}
	c.Count("outcome: success")
	c.Count(keptOrderShape(in, o))
	// table well-formedness of the output (needed to speak about "the track's samples" at all)
	for ti, t := range o.tracks {
		for _, p := range t.problems {
			kind := "table-inconsistent"
			if strings.Contains(p, "first_chunk not strictly increasing") {
				kind = "stsc-first-chunk-not-increasing"
			}
			fail(kind, fmt.Sprintf("output track %d: %s", ti+1, p), fmt.Sprintf("stsc=%v chunks=%d n=%d", t.stsc, len(t.chunkOff), t.n), fmt.Sprintf("input stsc=%v", in.tracks[ti].stsc))
			break
		}
	}
	// expected k
	refOK := true
	if !defined {
		rt := in.tracks[ri]
		fail(endTimeKind(in, ms, o.tracks[ri].n, -1), "crop succeeded although no sync sample of the reference track starts at or after the requested duration",
			fmt.Sprintf("ref track kept %d of %d samples", o.tracks[ri].n, rt.n), "failure (end time undefined)")
		refOK = false
	} else if o.tracks[ri].n != ks[ri] {
		rt := in.tracks[ri]
		fail(endTimeKind(in, ms, o.tracks[ri].n, ks[ri]), "reference track is not cut at the first sync sample starting at or after the requested duration",
			fmt.Sprintf("k=%d (cut before sample %d)", o.tracks[ri].n, o.tracks[ri].n+1),
			fmt.Sprintf("k=%d: first sync sample at/after %d ms is sample %d starting at %d/%d s", ks[ri], ms, j+1, rt.dec[j], rt.timescale))
		refOK = false
	}
	for ti, it := range in.tracks {
		ot := o.tracks[ti]
		if ot.trackID != it.trackID || ot.timescale != it.timescale || ot.hdlr != it.hdlr {
			fail("track-identity", fmt.Sprintf("track %d changed id/timescale/handler", ti+1), fmt.Sprintf("%d %d %s", ot.trackID, ot.timescale, ot.hdlr), fmt.Sprintf("%d %d %s", it.trackID, it.timescale, it.hdlr))
			continue
		}
		if refOK && ti != ri && ot.n != ks[ti] {
			kind := "track-sample-count"
			rt := in.tracks[ri]
			E := rt.dec[j]
			x := E * uint64(it.timescale)
			if ot.n == ks[ti]-1 && x%uint64(rt.timescale) != 0 && it.dec[ks[ti]-1] == x/uint64(rt.timescale) {
				kind = "track-end-floor"
			}
			fail(kind, fmt.Sprintf("track %d: number of kept samples differs from the number of samples starting before the end time", ti+1),
				fmt.Sprintf("k=%d", ot.n),
				fmt.Sprintf("k=%d (end time %d/%d s = %d.%03d/%d in this track's scale; sample %d starts at %d)", ks[ti], E, rt.timescale, x/uint64(rt.timescale), (x%uint64(rt.timescale))*1000/uint64(rt.timescale), it.timescale, ks[ti], it.dec[maxInt(ks[ti]-1, 0)]))
		}
		if ot.n > it.n {
			fail("track-sample-count", fmt.Sprintf("track %d has more samples than the input", ti+1), fmt.Sprint(ot.n), fmt.Sprint(it.n))
			continue
		}
		if len(ot.problems) > 0 {
			continue
		}
		// prefix
		for k := 0; k < ot.n; k++ {
			switch {
			case !bytes.Equal(ot.data[k], it.data[k]):
				fail("sample-bytes", fmt.Sprintf("track %d sample %d: bytes differ", ti+1, k+1), hx(clipB(ot.data[k])), hx(clipB(it.data[k])))
			case ot.dur[k] != it.dur[k]:
				fail("sample-duration", fmt.Sprintf("track %d sample %d: duration differs", ti+1, k+1), fmt.Sprint(ot.dur[k]), fmt.Sprint(it.dur[k]))
			case ot.cto[k] != it.cto[k]:
				fail("sample-cto", fmt.Sprintf("track %d sample %d: composition offset differs", ti+1, k+1), fmt.Sprint(ot.cto[k]), fmt.Sprint(it.cto[k]))
			case ot.sync[k] != it.sync[k]:
				fail("sample-sync", fmt.Sprintf("track %d sample %d: sync flag differs", ti+1, k+1), fmt.Sprint(ot.sync[k]), fmt.Sprint(it.sync[k]))
			default:
				continue
			}
			break
		}
		if it.hasSdtp && ot.hasSdtp && len(ot.sdtp) == ot.n {
			if !bytes.Equal(ot.sdtp, it.sdtp[:ot.n]) {
				c.Count("observation: sdtp entries are not the prefix (not demanded by the statement)")
			}
		}
		// header durations
		if ot.tkhdDur > it.tkhdDur {
			fail("header-duration", fmt.Sprintf("track %d tkhd duration grew", ti+1), fmt.Sprint(ot.tkhdDur), "<= "+fmt.Sprint(it.tkhdDur))
		}
		if ot.mdhdDur > it.mdhdDur {
			fail("header-duration", fmt.Sprintf("track %d mdhd duration grew", ti+1), fmt.Sprint(ot.mdhdDur), "<= "+fmt.Sprint(it.mdhdDur))
		}
		if ot.n < it.n {
			c.Count(cutShape(it, ot.n))
		}
	}
	if o.mvhdTimescale != in.mvhdTimescale || o.mvhdDur > in.mvhdDur {
		fail("header-duration", "mvhd duration grew or movie time scale changed", fmt.Sprintf("%d/%d", o.mvhdDur, o.mvhdTimescale), fmt.Sprintf("<= %d/%d", in.mvhdDur, in.mvhdTimescale))
	}
	// mdat
	allOK := true
	for _, t := range o.tracks {
		if len(t.problems) > 0 {
			allOK = false
		}
	}
	if allOK {
		outside, notExact := o.samplesTileMdat()
		if outside != "" {
			fail("chunk-offset-outside-mdat", "a chunk offset of the output does not point inside the new mdat", outside, "")
		}
		if notExact != "" {
			fail("mdat-not-exact", "the new mdat does not hold exactly the kept samples' bytes", notExact, "")
		}
	}
}

func maxInt(a, b int) int {
	if a > b {
		return a
	}
	return b
}

func clipB(b []byte) []byte {
	if len(b) > 24 {
		return b[:24]
	}
	return b
}

// endTimeKind names the class of a wrong cut of the reference track.
func endTimeKind(in *rawProg, ms uint64, got, want int) string {
	rt := in.tracks[in.refTrack()]
	T := uint64(rt.timescale)
	if !rt.hasStss && want >= 0 && got == want+1 {
		return "end-time-no-stss-one-sample-late"
	}
	// the tool cut at a sync sample that starts before ms but at or after floor(ms*T/1000) ticks
	if got >= 0 && got < rt.n && rt.sync[got] && rt.dec[got]*1000 < ms*T && rt.dec[got] >= ms*T/1000 {
		return "end-time-ms-rounded-down"
	}
	if !rt.hasStss && got-1 >= 0 && got-1 < rt.n && rt.dec[got-1]*1000 < ms*T && rt.dec[got-1] >= ms*T/1000 {
		return "end-time-ms-rounded-down"
	}
	return "end-time"
}

// cutShape describes where the cut falls relative to the run-length tables (evidence for coverage).
func cutShape(t *rawTrack, k int) string {
	// position within chunk
	si := 0
	pos := "cut: at chunk boundary"
	for c := range t.chunkN {
		if k > si && k < si+t.chunkN[c] {
			pos = "cut: inside a chunk"
			// is this chunk the first of its stsc entry?
			for _, e := range t.stsc {
				if int(e[0]) == c+1 {
					pos = "cut: inside the first chunk of an stsc entry"
				}
			}
			break
		}
		si += t.chunkN[c]
	}
	return pos
}
