package main

import (
	"bytes"
	"encoding/binary"
	"encoding/hex"
	"encoding/json"
	"fmt"
	"math/rand"
	"os"
	"path/filepath"
	"sort"
	"strings"

	"github.com/Eyevinn/mp4ff/bits"
	"github.com/Eyevinn/mp4ff/mp4"
)

// Shared machinery for C01 (lossless + fixed point), C02 (sizes) and C03 (two decoders / two encoders):
// a corpus of boxes (every box of the repository's media files, whole files, API-built structures),
// structured mutations of them, and one function that runs all four code paths on a byte string.

var walkContainers = map[string]int{"moov": 0, "trak": 0, "mdia": 0, "minf": 0, "stbl": 0, "dinf": 0, "edts": 0, "mvex": 0, "moof": 0,
	"traf": 0, "udta": 0, "sinf": 0, "schi": 0, "mfra": 0, "tref": 0, "stsd": 8, "dref": 8, "meta": 4,
	"avc1": 78, "avc3": 78, "hvc1": 78, "hev1": 78, "encv": 78, "mp4a": 28, "enca": 28, "ac-3": 28, "ec-3": 28, "wvtt": 8, "vttc": 0,
	"ludt": 0, "vp08": 78, "vp09": 78, "av01": 78}

type rawBox struct {
	typ   string
	start int // offset in the walked buffer
	hl    int
	size  int
	path  string
}

// independent box walker (does not use the library)
func walkBoxes(data []byte, base int, path string, out *[]rawBox) {
	pos := 0
	for pos+8 <= len(data) {
		size := int(binary.BigEndian.Uint32(data[pos:]))
		typ := string(data[pos+4 : pos+8])
		hl := 8
		if size == 1 {
			if pos+16 > len(data) {
				return
			}
			size = int(binary.BigEndian.Uint64(data[pos+8:]))
			hl = 16
		}
		if size < hl || pos+size > len(data) {
			return
		}
		*out = append(*out, rawBox{typ, base + pos, hl, size, path + "/" + typ})
		if skip, ok := containerSkip(typ, data[pos+hl:pos+size]); ok && size >= hl+skip {
			walkBoxes(data[pos+hl+skip:pos+size], base+pos+hl+skip, path+"/"+typ, out)
		}
		pos += size
	}
}

// containerSkip: number of payload bytes before the first child of a container box (ok=false: not a container).
// A meta box comes in two styles: ISO (a version/flags word, then the children) and QuickTime (children only); the
// QuickTime style is recognised, as the format defines it, by the hdlr child starting right at the payload.
func containerSkip(typ string, payload []byte) (int, bool) {
	skip, ok := walkContainers[typ]
	if ok && typ == "meta" && len(payload) >= 8 && string(payload[4:8]) == "hdlr" {
		return 0, true
	}
	return skip, ok
}

type dcField struct {
	Box      []string          `json:"box"`
	Version  *int              `json:"version"`
	VerElse  bool              `json:"version_else"`
	Ranges   [][2]int          `json:"ranges"`
	Bitmask  map[string]int    `json:"bitmask"`
	MaskEnd  map[string]int    `json:"bitmask_from_end"`
	WhenASC  map[string]string `json:"when_ascii"`
	Stride   map[string]int    `json:"stride_byte"`
	PascalPd []int             `json:"pascal_padding"`
	Walker   string            `json:"walker"`
}
type dcSpec struct {
	Fields         []dcField `json:"fields"`
	Normalisations []struct {
		ID    string   `json:"id"`
		Boxes []string `json:"boxes"`
	} `json:"normalisations"`
}

var dontCare *dcSpec

func loadDontCare() *dcSpec {
	if dontCare != nil {
		return dontCare
	}
	dir := os.Getenv("VERIF_DIR")
	if dir == "" {
		dir = "/verif"
	}
	b, err := os.ReadFile(filepath.Join(dir, "spec", "C01-dontcare.json"))
	if err != nil {
		panic(err)
	}
	dontCare = &dcSpec{}
	if err := json.Unmarshal(b, dontCare); err != nil {
		panic(err)
	}
	return dontCare
}

// maskDontCare zeroes the don't-care bits of every box found in data (in place on a copy)
func maskDontCare(data []byte) []byte {
	out := append([]byte{}, data...)
	var boxes []rawBox
	walkBoxes(out, 0, "", &boxes)
	spec := loadDontCare()
	for _, b := range boxes {
		if b.hl != 8 {
			continue
		}
		for _, f := range spec.Fields {
			match := false
			for _, t := range f.Box {
				if t == b.typ {
					match = true
				}
			}
			if !match {
				continue
			}
			if f.Version != nil && (b.size < 9 || int(out[b.start+8]) != *f.Version) {
				if !f.VerElse || b.size < 9 {
					continue
				}
				// "else" entry: applies unless another entry of this box names the actual version
				other := false
				for _, g := range spec.Fields {
					if g.Version != nil && *g.Version == int(out[b.start+8]) {
						for _, t := range g.Box {
							if t == b.typ {
								other = true
							}
						}
					}
				}
				if other {
					continue
				}
			}
			condOK := true
			for k, v := range f.WhenASC {
				i := atoi(k)
				if b.size < i+len(v) || string(out[b.start+i:b.start+i+len(v)]) != v {
					condOK = false
				}
			}
			if !condOK {
				continue
			}
			if len(f.Stride) > 0 && b.size >= f.Stride["first"] {
				st := int(binary.BigEndian.Uint32(out[b.start+f.Stride["stride_u32_at"]:]))
				cnt := int(binary.BigEndian.Uint32(out[b.start+f.Stride["count_u32_at"]:]))
				for k := 0; st > 0 && k < cnt && f.Stride["first"]+k*st < b.size; k++ {
					out[b.start+f.Stride["first"]+k*st] = 0
				}
			}
			for _, r := range f.Ranges {
				for i := r[0]; i < r[1] && i < b.size; i++ {
					out[b.start+i] = 0
				}
			}
			for k, m := range f.Bitmask {
				i := atoi(k)
				if i < b.size {
					out[b.start+i] &^= byte(m)
				}
			}
			if len(f.MaskEnd) > 0 && b.size > 16 && out[b.start+9] != 66 && out[b.start+9] != 77 && out[b.start+9] != 88 {
				for k, m := range f.MaskEnd {
					i := b.size - atoi(k)
					if i > 13 {
						out[b.start+i] &^= byte(m)
					}
				}
			}
			if f.Walker != "" {
				maskWalker(f.Walker, out[b.start:b.start+b.size])
			}
			if len(f.PascalPd) == 2 && f.PascalPd[1] <= b.size {
				n := int(out[b.start+f.PascalPd[0]])
				for i := f.PascalPd[0] + 1 + n; i < f.PascalPd[1]; i++ {
					if i > f.PascalPd[0] {
						out[b.start+i] = 0
					}
				}
			}
		}
	}
	return out
}

// maskWalker zeroes reserved bits whose offsets depend on the box's own values (box = whole box incl. 8-byte header)
func maskWalker(name string, box []byte) {
	switch name {
	case "dec3-substreams": // ETSI TS 102 366 F.6: per independent substream reserved(1) after bsid, reserved(3) before num_dep_sub, reserved(1) instead of chan_loc when num_dep_sub = 0
		if len(box) < 10 {
			return
		}
		p := 10
		for n := int(box[9]&7) + 1; n > 0 && p+3 <= len(box); n-- {
			box[p] &^= 0x01
			box[p+2] &^= 0xe0
			if box[p+2]&0x1e != 0 {
				p += 4
			} else {
				box[p+2] &^= 0x01
				p += 3
			}
		}
	case "loudness-bases": // ISO/IEC 14496-12 12.2.7.2: per loudness base reserved(2) before EQ_set_ID (version >= 1) and the upper two bits of reserved(3) before downmix_ID
		if len(box) < 12 {
			return
		}
		p, n := 12, 1
		if box[8] >= 1 {
			if len(box) < 13 {
				return
			}
			p, n = 13, int(box[12]&0x3f)
		}
		for ; n > 0; n-- {
			if box[8] >= 1 {
				if p >= len(box) {
					return
				}
				box[p] &^= 0xc0
				p++
			}
			if p+7 > len(box) {
				return
			}
			box[p] &^= 0xc0
			p += 7 + 3*int(box[p+6])
		}
	}
}

func trailingDropAllowed(typ string) bool {
	for _, n := range loadDontCare().Normalisations {
		if n.ID == "trailing-dropped" {
			for _, b := range n.Boxes {
				if b == typ {
					return true
				}
			}
		}
	}
	return false
}

// ---- running the four code paths

type pathResult struct {
	box   mp4.Box
	err   error
	panic string
}

func decReader(bs []byte) (r pathResult) {
	r.panic = safe(func() { r.box, r.err = mp4.DecodeBox(0, bytes.NewReader(bs)) })
	return
}
func decSlice(bs []byte) (r pathResult) {
	r.panic = safe(func() { r.box, r.err = mp4.DecodeBoxSR(0, bits.NewFixedSliceReader(bs)) })
	return
}

type encResult struct {
	out   []byte
	err   error
	panic string
}

func encWriter(b mp4.Box) (r encResult) {
	r.panic = safe(func() {
		var buf bytes.Buffer
		r.err = b.Encode(&buf)
		r.out = buf.Bytes()
	})
	return
}
func encSlice(b mp4.Box) (r encResult) {
	r.panic = safe(func() {
		sw := bits.NewFixedSliceWriter(int(b.Size()))
		r.err = b.EncodeSW(sw)
		r.out = sw.Bytes()
	})
	return
}

// encSliceRoomy: EncodeSW into a slice writer that has room to spare (a caller that collects several boxes in one
// buffer): an encoder that writes more than Size() then reports success instead of an overflow error. The capacity is
// not derived from Size() when the caller passes one (so that EncodeSW can be the first method that runs on a structure).
func encSliceRoomy(b mp4.Box, capacity int) (r encResult) {
	r.panic = safe(func() {
		if capacity <= 0 {
			capacity = int(b.Size()) + 64
		}
		// the caller's buffer is one it has used before: not zeroed (reserved fields must be WRITTEN by the encoder)
		dirty := bytes.Repeat([]byte{0xa5}, capacity)
		sw := bits.NewFixedSliceWriterFromSlice(dirty)
		r.err = b.EncodeSW(sw)
		r.out = sw.Bytes()
	})
	return
}

// dirtyWriter: a slice writer over a buffer the caller has used before (every byte 0xa5): an encoder must write
// every byte it accounts for, reserved and zero fields included
func dirtyWriter(n int) *bits.FixedSliceWriter {
	if n < 0 {
		n = 0
	}
	return bits.NewFixedSliceWriterFromSlice(bytes.Repeat([]byte{0xa5}, n))
}

func infoOf(b mp4.Box) string {
	var buf bytes.Buffer
	p := safe(func() { _ = b.Info(&buf, "all:1", "", "  ") })
	if p != "" {
		return "PANIC " + p
	}
	return buf.String()
}

// checkSizeFields verifies, with the independent walker, that every box header size field inside `enc`
// tiles its parent exactly (containers = header + sum of children)
func checkSizeFields(enc []byte) string {
	var boxes []rawBox
	walkBoxes(enc, 0, "", &boxes)
	if len(boxes) == 0 {
		return "no box found in encoder output"
	}
	if boxes[0].size != len(enc) {
		return fmt.Sprintf("top box size field %d != bytes written %d", boxes[0].size, len(enc))
	}
	// children of each container must tile it
	for _, b := range boxes {
		skip, ok := containerSkip(b.typ, enc[b.start+b.hl:b.start+b.size])
		if !ok || b.size < b.hl+skip {
			continue
		}
		inner := enc[b.start+b.hl+skip : b.start+b.size]
		pos := 0
		for pos+8 <= len(inner) {
			sz := int(binary.BigEndian.Uint32(inner[pos:]))
			if sz == 1 && pos+16 <= len(inner) {
				sz = int(binary.BigEndian.Uint64(inner[pos+8:]))
			}
			if sz < 8 || pos+sz > len(inner) {
				return fmt.Sprintf("child of %s at %d has size field %d not fitting its parent", b.path, pos, sz)
			}
			pos += sz
		}
		if pos != len(inner) && !(b.typ == "stsd" || b.typ == "avc1" || b.typ == "mp4a" || b.typ == "meta" || b.typ == "wvtt" || b.typ == "stpp" || b.typ == "hvc1" || b.typ == "hev1" || b.typ == "encv" || b.typ == "enca" || b.typ == "avc3" || b.typ == "ac-3" || b.typ == "ec-3") {
			return fmt.Sprintf("children of %s do not tile it (%d of %d bytes)", b.path, pos, len(inner))
		}
	}
	return ""
}

type boxVerdict struct {
	accepted bool
	typ      string
}

// checkBoxBytes runs every check of C01/C02/C03 on one candidate byte string.
// `which` selects the property whose failures are reported.
func checkBoxBytes(c *Ctx, which string, bs []byte, origin string) boxVerdict {
	typ := "????"
	if len(bs) >= 8 {
		typ = string(bs[4:8])
	}
	for _, ch := range typ {
		if ch < 32 || ch > 126 {
			typ = "bin"
		}
	}
	req := "box " + hx(bs)
	rr := decReader(bs)
	rs := decSlice(bs)
	fail := func(prop, kind, what, got, exp string) {
		if prop == which {
			c.Fail(fmt.Sprintf("%s-%s-%s", prop, typ, kind), what+" ["+origin+"]", req, clip(got), clip(exp))
		}
	}
	okR := rr.panic == "" && rr.err == nil && rr.box != nil
	okS := rs.panic == "" && rs.err == nil && rs.box != nil
	if !okR && !okS {
		return boxVerdict{false, typ}
	}
	// the decoders must have consumed exactly the box (candidate strings are single boxes)
	var eW, eS encResult
	var box mp4.Box
	if okR {
		box = rr.box
	} else {
		box = rs.box
	}
	sizeBefore := uint64(0)
	if p := safe(func() { sizeBefore = box.Size() }); p != "" {
		fail("C02", "size-panic", "Size() panics on a decoded box", p, "")
		return boxVerdict{true, typ}
	}
	eW = encWriter(box)
	eS = encSlice(box)
	// ---- C03: two encoders
	if (eW.panic != "") != (eS.panic != "") || (eW.err != nil) != (eS.err != nil) {
		fail("C03", "encoders-outcome", "Encode and EncodeSW: one fails, the other does not", fmt.Sprintf("Encode: %v %s | EncodeSW: %v %s", eW.err, eW.panic, eS.err, eS.panic), "")
	} else if eW.err == nil && eW.panic == "" && !bytes.Equal(eW.out, eS.out) {
		fail("C03", "encoders-bytes", "Encode and EncodeSW produce different bytes", hx(eW.out), hx(eS.out))
	}
	// ---- C03: two decoders, on canonical inputs
	encOK := eW.err == nil && eW.panic == ""
	if encOK && bytes.Equal(eW.out, bs) {
		if okR != okS {
			fail("C03", "decoders-accept", "a byte string one decode path reproduces exactly is rejected by the other path",
				fmt.Sprintf("DecodeBox ok=%v (%v %s) DecodeBoxSR ok=%v (%v %s)", okR, rr.err, rr.panic, okS, rs.err, rs.panic), "")
		} else if okR && okS {
			if a, b := infoOf(rr.box), infoOf(rs.box); a != b {
				fail("C03", "decoders-structure", "DecodeBox and DecodeBoxSR yield different structures for a canonical byte string", a, b)
			}
			if e2 := encWriter(rs.box); e2.err != nil || !bytes.Equal(e2.out, eW.out) {
				fail("C03", "decoders-reencode", "the structure from DecodeBoxSR re-encodes differently from the one from DecodeBox", hx(e2.out), hx(eW.out))
			}
		}
	}
	if !encOK {
		if eW.panic != "" {
			fail("C01", "encode-panic", "a decoded box panics on Encode", eW.panic, "")
		} else {
			if typ != "trun" && strings.Contains(strings.ReplaceAll(strings.ToLower(fmt.Sprint(eW.err)), " ", ""), "offset") && strings.Contains(fmt.Sprint(eW.err), "trun") {
				// the refusal comes from a trun nested in this box (known finding C01-trun-encode-error: data-offset-present
				// with data_offset 0): the fingerprint names the box at fault, not the container it was met in
				if which == "C01" {
					c.Fail("C01-trun-encode-error", "a decoded box fails to encode (a trun inside a "+typ+" box) ["+origin+"]", req, clip(fmt.Sprint(eW.err)), "")
				}
			} else {
				fail("C01", "encode-error", "a decoded box fails to encode", fmt.Sprint(eW.err), "")
			}
		}
		return boxVerdict{true, typ}
	}
	// ---- C02
	if uint64(len(eW.out)) != sizeBefore {
		fail("C02", "size-before", "Size() before Encode != bytes written", fmt.Sprintf("Size()=%d written=%d", sizeBefore, len(eW.out)), "")
	}
	if sa := box.Size(); uint64(len(eW.out)) != sa {
		fail("C02", "size-after", "Size() after Encode != bytes written", fmt.Sprintf("Size()=%d written=%d", sa, len(eW.out)), "")
	}
	if msg := checkSizeFields(eW.out); msg != "" {
		fail("C02", "size-field", "a header size field does not equal the length of its box: "+msg, hx(eW.out), "")
	}
	// the same clauses for EncodeSW, into a buffer with room to spare: success => bytes written == Size()
	if eR := encSliceRoomy(box, 0); eR.panic == "" && eR.err == nil {
		if sa := box.Size(); uint64(len(eR.out)) != sa {
			fail("C02", "size-sw", "EncodeSW reports success but bytes written != Size()", fmt.Sprintf("Size()=%d written=%d", sa, len(eR.out)), "")
		} else if msg := checkSizeFields(eR.out); msg != "" {
			fail("C02", "size-field-sw", "a header size field written by EncodeSW does not equal the length of its box: "+msg, hx(eR.out), "")
		} else if !bytes.Equal(eR.out, eW.out) {
			fail("C02", "encode-twice-sw", "EncodeSW into a caller's used (non-zero) buffer yields other bytes than the first encoding of the same structure", hx(eR.out), hx(eW.out))
			fail("C03", "encoders-bytes-reused-buffer", "Encode and EncodeSW (into a caller's used, non-zero buffer) produce different bytes", hx(eW.out), hx(eR.out))
		}
	}
	// twice, Info in between
	_ = infoOf(box)
	if e2 := encWriter(box); e2.err != nil || !bytes.Equal(e2.out, eW.out) {
		fail("C02", "encode-twice", "encoding twice (Info in between) yields different bytes", hx(e2.out), hx(eW.out))
	}
	// ---- C01: lossless modulo the committed list
	lossless := func(out []byte) (bool, int) {
		ma, mb := maskDontCare(bs), maskDontCare(out)
		if bytes.Equal(ma, mb) {
			return true, -1
		}
		// normalisations (each alone, or one after the other): a large-size header on a small box is rewritten
		// as an 8-byte header; trailing payload bytes the decoder ignores are dropped
		cands := [][]byte{bs}
		if len(bs) >= 16 && binary.BigEndian.Uint32(bs) == 1 && typ != "mdat" {
			short := append([]byte{}, bs[:8]...)
			binary.BigEndian.PutUint32(short, uint32(len(bs)-8))
			short = append(short, bs[16:]...)
			cands = append(cands, short)
		}
		for i, cand := range cands {
			if i > 0 && bytes.Equal(maskDontCare(cand), mb) {
				return true, -1
			}
			if len(out) < len(cand) && len(out) >= 8 {
				pre := append([]byte{}, cand[:len(out)]...)
				binary.BigEndian.PutUint32(pre, uint32(len(out)))
				if bytes.Equal(maskDontCare(pre), mb) {
					return true, -1
				}
			}
		}
		// normalisation trak-adjacent: the children of a moov box may come out in another order as long as the trak
		// boxes keep their relative order and so do all the other children (nothing lost, nothing altered)
		if len(out) == len(bs) && bytes.Contains(bs, []byte("moov")) && bytes.Equal(canonMoovOrder(ma, 0), canonMoovOrder(mb, 0)) {
			return true, -1
		}
		for i := 0; i < len(ma) && i < len(mb); i++ {
			if ma[i] != mb[i] {
				return false, i
			}
		}
		return false, -1
	}
	if ok, d := lossless(eW.out); !ok {
		fail("C01", "not-lossless", fmt.Sprintf("re-encoding differs from the input outside the don't-care list (len %d -> %d, first difference at byte %d)", len(bs), len(eW.out), d), hx(eW.out), hx(bs))
	}
	// the property quantifies over both decode paths: when both accept, the structure from the slice-reader path
	// must re-encode losslessly too (the structure from the reader path was checked above)
	if okR && okS {
		if e2 := encWriter(rs.box); e2.panic == "" && e2.err == nil {
			if ok, d := lossless(e2.out); !ok {
				fail("C01", "not-lossless", fmt.Sprintf("DecodeBoxSR + Encode differs from the input outside the don't-care list (len %d -> %d, first difference at byte %d)", len(bs), len(e2.out), d), hx(e2.out), hx(bs))
			}
		}
	}
	// fixed point: decode(out) ok, equal structure, encode again identical
	r2 := decReader(eW.out)
	if r2.panic != "" || r2.err != nil {
		fail("C01", "redecode", "the re-encoded bytes are not accepted by the decoder", fmt.Sprintf("%v %s", r2.err, r2.panic), "")
	} else {
		if a, b := infoOf(box), infoOf(r2.box); a != b {
			fail("C01", "field-lost", "decode(encode(decode(x))) exposes different field values than decode(x)", b, a)
		}
		if e3 := encWriter(r2.box); e3.err != nil || !bytes.Equal(e3.out, eW.out) {
			fail("C01", "not-fixed-point", "encode(decode(encode(decode(x)))) != encode(decode(x))", hx(e3.out), hx(eW.out))
		}
	}
	return boxVerdict{true, typ}
}

// ---- corpus

var repoFilesCache [][]byte
var repoFileNames []string

func repoMediaFiles() ([][]byte, []string) {
	if repoFilesCache != nil {
		return repoFilesCache, repoFileNames
	}
	repo := os.Getenv("VERIF_REPO")
	if repo == "" {
		repo = "/repo"
	}
	var names []string
	for _, pat := range []string{"mp4/testdata/*", "examples/*/testdata/*", "cmd/*/testdata/*", "avc/testdata/*", "hevc/testdata/*"} {
		ms, _ := filepath.Glob(filepath.Join(repo, pat))
		names = append(names, ms...)
	}
	sort.Strings(names)
	for _, m := range names {
		ext := filepath.Ext(m)
		if ext != ".mp4" && ext != ".m4s" && ext != ".cmfv" && ext != ".cmfa" && ext != ".isma" && ext != ".ismv" && ext != ".m4a" && ext != ".m4v" && ext != ".mov" && ext != ".dat" && ext != ".cmft" {
			continue
		}
		d, err := os.ReadFile(m)
		if err != nil || len(d) > 12<<20 {
			continue
		}
		repoFilesCache = append(repoFilesCache, d)
		repoFileNames = append(repoFileNames, strings.TrimPrefix(m, repo+"/"))
	}
	return repoFilesCache, repoFileNames
}

type seedBox struct {
	bs     []byte
	origin string
}

func seedBoxes(maxSize int) []seedBox {
	files, names := repoMediaFiles()
	var out []seedBox
	seen := map[string]bool{}
	// committed regression corpus first (spec/seed-boxes.txt)
	vd := os.Getenv("VERIF_DIR")
	if vd == "" {
		vd = "/verif"
	}
	if raw, err := os.ReadFile(filepath.Join(vd, "spec", "seed-boxes.txt")); err == nil {
		for ln, line := range strings.Split(string(raw), "\n") {
			if i := strings.Index(line, "#"); i >= 0 {
				line = line[:i]
			}
			line = strings.TrimSpace(line)
			if b, err := hex.DecodeString(line); err == nil && len(b) >= 8 && !seen[string(b)] {
				seen[string(b)] = true
				out = append(out, seedBox{b, fmt.Sprintf("corpus:%d", ln+1)})
			}
		}
	}
	for i, d := range files {
		var bx []rawBox
		walkBoxes(d, 0, "", &bx)
		for _, b := range bx {
			if b.typ == "mdat" || b.size > maxSize {
				continue
			}
			k := string(d[b.start : b.start+b.size])
			if seen[k] {
				continue
			}
			seen[k] = true
			out = append(out, seedBox{append([]byte{}, d[b.start:b.start+b.size]...), names[i] + ":" + b.path})
		}
	}
	// boxes of the types no repository file contains, built through the library API with random field values
	// (deterministic: fixed seed; at most 6 per type; only leaf types that no file provided)
	have := map[string]int{}
	for _, sb := range out {
		have[string(sb.bs[4:8])]++
	}
	r := rand.New(rand.NewSource(20260929))
	perType := map[string]int{}
	for i := 0; i < 6000; i++ {
		b, typ := c04BuildAPIBox(r)
		if b == nil || len(b) > maxSize || len(typ) != 4 || have[typ] > 0 || perType[typ] >= 6 {
			continue
		}
		if _, isContainer := walkContainers[typ]; isContainer {
			continue
		}
		k := string(b)
		if seen[k] {
			continue
		}
		seen[k] = true
		perType[typ]++
		out = append(out, seedBox{b, "api:" + typ})
	}
	return out
}

// structured mutations of one box
func mutateBox(c *Ctx, bs []byte) [][]byte {
	r := c.R
	var out [][]byte
	cp := func() []byte { return append([]byte{}, bs...) }
	if len(bs) < 12 {
		return nil
	}
	// version / flags
	for _, v := range []byte{0, 1, 2, 3, 255} {
		m := cp()
		m[8] = v
		out = append(out, m)
	}
	for k := 0; k < 3; k++ {
		m := cp()
		m[9+r.Intn(3)] ^= 1 << uint(r.Intn(8))
		out = append(out, m)
	}
	// field bytes
	for k := 0; k < 6; k++ {
		m := cp()
		i := 8 + r.Intn(len(m)-8)
		m[i] = []byte{0, 1, 0x7f, 0x80, 0xff, byte(r.Intn(256))}[r.Intn(6)]
		out = append(out, m)
	}
	// several bytes at once
	m := cp()
	for k := 0; k < 1+len(m)/16; k++ {
		m[8+r.Intn(len(m)-8)] = byte(r.Intn(256))
	}
	out = append(out, m)
	// truncate / extend, size field fixed up
	for _, dl := range []int{-1, -2, -4, 1, 4, 8} {
		n := len(bs) + dl
		if n < 8 {
			continue
		}
		var m []byte
		if dl < 0 {
			m = append([]byte{}, bs[:n]...)
		} else {
			m = append(cp(), make([]byte, dl)...)
		}
		binary.BigEndian.PutUint32(m, uint32(n))
		out = append(out, m)
	}
	// large-size header
	if binary.BigEndian.Uint32(bs) != 1 {
		m := []byte{0, 0, 0, 1}
		m = append(m, bs[4:8]...)
		var sz [8]byte
		binary.BigEndian.PutUint64(sz[:], uint64(len(bs)+8))
		m = append(m, sz[:]...)
		m = append(m, bs[8:]...)
		out = append(out, m)
	}
	return out
}

// topChildren splits the payload of one box with an 8-byte header into its children (nil if it does not tile)
func topChildren(box []byte) [][]byte {
	if len(box) < 8 || binary.BigEndian.Uint32(box) != uint32(len(box)) {
		return nil
	}
	var out [][]byte
	p := box[8:]
	for len(p) > 0 {
		if len(p) < 8 {
			return nil
		}
		sz := int(binary.BigEndian.Uint32(p))
		if sz < 8 || sz > len(p) {
			return nil
		}
		out = append(out, p[:sz])
		p = p[sz:]
	}
	return out
}

// moovOrderNormalised: b is a with its children permuted so that trak boxes keep their order and the rest keep theirs
func moovOrderNormalised(a, b []byte) bool {
	ca, cb := topChildren(a), topChildren(b)
	if ca == nil || cb == nil || len(ca) != len(cb) {
		return false
	}
	split := func(l [][]byte) (traks, rest [][]byte) {
		for _, c := range l {
			if string(c[4:8]) == "trak" {
				traks = append(traks, c)
			} else {
				rest = append(rest, c)
			}
		}
		return
	}
	ta, ra := split(ca)
	tb, rb := split(cb)
	if len(ta) != len(tb) || len(ra) != len(rb) {
		return false
	}
	for i := range ta {
		if !bytes.Equal(ta[i], tb[i]) {
			return false
		}
	}
	for i := range ra {
		if !bytes.Equal(ra[i], rb[i]) {
			return false
		}
	}
	return true
}

// canonMoovOrder rewrites every moov box (at any depth the independent walker reaches) so that its non-trak children
// come first in their order and its trak children after them in their order: two byte strings that differ only by the
// committed trak-adjacent normalisation have the same canonical form
func canonMoovOrder(box []byte, depth int) []byte {
	if len(box) < 8 || depth > 24 || binary.BigEndian.Uint32(box) != uint32(len(box)) {
		return box
	}
	typ := string(box[4:8])
	skip, ok := containerSkip(typ, box[8:])
	if !ok || 8+skip > len(box) {
		return box
	}
	var kids [][]byte
	p := box[8+skip:]
	for len(p) > 0 {
		if len(p) < 8 {
			return box
		}
		sz := int(binary.BigEndian.Uint32(p))
		if sz < 8 || sz > len(p) {
			return box
		}
		kids = append(kids, canonMoovOrder(p[:sz], depth+1))
		p = p[sz:]
	}
	out := append([]byte{}, box[:8+skip]...)
	if typ == "moov" {
		for _, k := range kids {
			if string(k[4:8]) != "trak" {
				out = append(out, k...)
			}
		}
		for _, k := range kids {
			if string(k[4:8]) == "trak" {
				out = append(out, k...)
			}
		}
	} else {
		for _, k := range kids {
			out = append(out, k...)
		}
	}
	return out
}
