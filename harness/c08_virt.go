package main

import (
	"bytes"
	"encoding/binary"
	"fmt"
	"io"
	"math/rand"
	"sort"
	"strconv"
	"strings"

	"github.com/Eyevinn/mp4ff/mp4"
)

// C08 part (d): multi-GiB progressive files, which is what lazy mode exists for. The file is never materialised:
// virtFile is an io.ReadSeeker over a sparse description (the real bytes of the small boxes and of the mdat header,
// every other byte computed from its absolute position). Only lazy mode can decode such a file; the in-memory side of
// the statement is represented by what it would necessarily report: the sizes, header length and positions written in
// the file's own header bytes, and the file's bytes for every range / sample.
//
// Family: ftyp [free] [moov] mdat(8- or 16-byte header, size S >= 2 GiB) [moov] [free]; 1..2 tracks (co64) whose
// chunks lie at the first payload byte, across the absolute offset 2^32, at random places, and end at the last
// payload byte. S: 32-bit size fields up to 0xffffffff, 64-bit sizes around 2^32 and up to 2^36.
// Request (replayable): "md.virt <layout seed> <header length> <S>".

type virtSeg struct {
	off  int64
	data []byte
}

type virtFile struct {
	size  int64
	segs  []virtSeg // real bytes, ascending, non-overlapping
	salt  uint64
	pos   int64
	nread int64 // bytes delivered so far (a lazy decode must not read the media data)
}

func (v *virtFile) bg(p int64) byte {
	x := uint64(p)*0x9E3779B97F4A7C15 + v.salt
	x ^= x >> 29
	x *= 0xBF58476D1CE4E5B9
	return byte(x >> 56)
}

// slice returns the file bytes [off, off+n) (clipped to the file).
func (v *virtFile) slice(off, n int64) []byte {
	if off < 0 || off >= v.size || n <= 0 {
		return []byte{}
	}
	if off+n > v.size {
		n = v.size - off
	}
	b := make([]byte, n)
	for i := range b {
		b[i] = v.bg(off + int64(i))
	}
	for _, s := range v.segs {
		lo, hi := s.off, s.off+int64(len(s.data))
		if hi <= off || lo >= off+n {
			continue
		}
		a, e := lo, hi
		if a < off {
			a = off
		}
		if e > off+n {
			e = off + n
		}
		copy(b[a-off:e-off], s.data[a-lo:e-lo])
	}
	return b
}

func (v *virtFile) Read(p []byte) (int, error) {
	if len(p) == 0 {
		return 0, nil
	}
	if v.pos >= v.size {
		return 0, io.EOF
	}
	b := v.slice(v.pos, int64(len(p)))
	copy(p, b)
	v.pos += int64(len(b))
	v.nread += int64(len(b))
	return len(b), nil
}

func (v *virtFile) Seek(offset int64, whence int) (int64, error) {
	var np int64
	switch whence {
	case io.SeekStart:
		np = offset
	case io.SeekCurrent:
		np = v.pos + offset
	case io.SeekEnd:
		np = v.size + offset
	default:
		return 0, fmt.Errorf("virtFile: bad whence %d", whence)
	}
	if np < 0 {
		return 0, fmt.Errorf("virtFile: negative position")
	}
	v.pos = np
	return np, nil
}

func (v *virtFile) clone() *virtFile {
	return &virtFile{size: v.size, segs: v.segs, salt: v.salt}
}

type virtChunk struct {
	track int
	rel   uint64 // offset relative to the first payload byte
	sizes []uint32
}

type virtLayout struct {
	vf        *virtFile
	top       []string // top-level box types in file order
	mdatStart uint64
	hl        int
	S         uint64
	hdr       []byte // the mdat header bytes in the file
	moovStart uint64
	tracks    []*progTrack
	chunks    [][]virtChunk // per track, in chunk order
	// queries (derived from the same seed so that exec and the generator agree)
	relRanges [][2]uint64 // (offset relative to payload start, length)
	tailLens  []uint64    // ranges ending at the last payload byte
	ivs       [][4]int    // track, a, b, work-buffer length
}

func freeBox(r *rand.Rand, n int) []byte {
	b := make([]byte, n)
	r.Read(b)
	binary.BigEndian.PutUint32(b, uint32(n))
	copy(b[4:], "free")
	return b
}

// buildVirt lays the file out from (seed, hl, S).
func buildVirt(seed int64, hl int, S uint64) *virtLayout {
	r := rand.New(rand.NewSource(seed))
	L := &virtLayout{hl: hl, S: S}
	pl := S - uint64(hl)
	moovFirst := r.Intn(2) == 0
	nTracks := 1 + r.Intn(2)
	pf := &progFile{co64: true}
	for i := 0; i < nTracks; i++ {
		media := "video"
		if i > 0 {
			media = "audio"
		}
		pf.tracks = append(pf.tracks, genProgTrack(r, media, 1+r.Intn(8)))
	}
	L.tracks = pf.tracks
	moov := pf.buildMoov()
	ftyp := mp4.NewFtyp("isom", 0x200, []string{"isom", "iso2", "avc1", "mp41"})
	var head bytes.Buffer
	must(ftyp.Encode(&head))
	L.top = append(L.top, "ftyp")
	if r.Intn(2) == 0 {
		head.Write(freeBox(r, 8+r.Intn(40)))
		L.top = append(L.top, "free")
	}
	if moovFirst {
		L.moovStart = uint64(head.Len())
		head.Write(make([]byte, moov.Size())) // placeholder, encoded below once the chunk offsets are known
		L.top = append(L.top, "moov")
	}
	L.mdatStart = uint64(head.Len())
	L.hdr = make([]byte, hl)
	if hl == 8 {
		binary.BigEndian.PutUint32(L.hdr, uint32(S))
		copy(L.hdr[4:], "mdat")
	} else {
		binary.BigEndian.PutUint32(L.hdr, 1)
		copy(L.hdr[4:], "mdat")
		binary.BigEndian.PutUint64(L.hdr[8:], S)
	}
	head.Write(L.hdr)
	L.top = append(L.top, "mdat")
	ps := L.mdatStart + uint64(hl)
	// chunk placement
	var all []*virtChunk
	L.chunks = make([][]virtChunk, nTracks)
	for ti, t := range pf.tracks {
		si := 0
		for _, k := range t.chunkLens {
			L.chunks[ti] = append(L.chunks[ti], virtChunk{track: ti, sizes: t.sizes[si : si+k]})
			si += k
		}
	}
	idx := make([]int, nTracks)
	for {
		var cand []int
		for ti := range pf.tracks {
			if idx[ti] < len(L.chunks[ti]) {
				cand = append(cand, ti)
			}
		}
		if len(cand) == 0 {
			break
		}
		ti := cand[r.Intn(len(cand))]
		all = append(all, &L.chunks[ti][idx[ti]])
		idx[ti]++
	}
	csize := func(c *virtChunk) uint64 {
		var s uint64
		for _, x := range c.sizes {
			s += uint64(x)
		}
		return s
	}
	rels := make([]uint64, len(all))
	for i := range rels {
		rels[i] = uint64(r.Int63n(int64(pl - 8000)))
	}
	if len(all) > 2 && ps < 1<<32 && ps+pl > 1<<32+8000 {
		// one chunk across the absolute offset 2^32 (where 32-bit offset arithmetic would wrap)
		rels[1+r.Intn(len(all)-2)] = 1<<32 - ps - uint64(1+r.Intn(3))
	}
	sort.Slice(rels, func(i, j int) bool { return rels[i] < rels[j] })
	for i, c := range all {
		c.rel = rels[i]
	}
	all[0].rel = 0
	last := all[len(all)-1]
	last.rel = pl - csize(last)
	for ti := range pf.tracks {
		offs := make([]uint64, len(L.chunks[ti]))
		for ci, c := range L.chunks[ti] {
			offs[ci] = ps + c.rel
		}
		moov.Traks[ti].Mdia.Minf.Stbl.Co64.ChunkOffset = offs
	}
	var mb bytes.Buffer
	must(moov.Encode(&mb))
	var tail bytes.Buffer
	if !moovFirst {
		L.moovStart = L.mdatStart + S
		tail.Write(mb.Bytes())
		L.top = append(L.top, "moov")
	} else {
		copy(head.Bytes()[L.moovStart:], mb.Bytes())
	}
	if r.Intn(2) == 0 {
		tail.Write(freeBox(r, 8+r.Intn(24)))
		L.top = append(L.top, "free")
	}
	L.vf = &virtFile{size: int64(L.mdatStart+S) + int64(tail.Len()), salt: uint64(r.Int63())}
	L.vf.segs = []virtSeg{{0, head.Bytes()}}
	if tail.Len() > 0 {
		L.vf.segs = append(L.vf.segs, virtSeg{int64(L.mdatStart + S), tail.Bytes()})
	}
	// queries
	for _, k := range []uint64{1, 2, 16, uint64(1 + r.Intn(64))} {
		L.relRanges = append(L.relRanges, [2]uint64{0, k}, [2]uint64{pl / 2, k})
		L.tailLens = append(L.tailLens, k)
	}
	for q := 0; q < 4; q++ {
		ln := uint64(1 + r.Intn(64))
		L.relRanges = append(L.relRanges, [2]uint64{uint64(r.Int63n(int64(pl - ln))), ln})
	}
	if ps < 1<<32 && ps+pl > 1<<32+64 {
		a := uint64(1 + r.Intn(32))
		L.relRanges = append(L.relRanges, [2]uint64{1<<32 - ps - a, a + uint64(1+r.Intn(32))})
	}
	workLens := []int{0, 1, 2, 3, 5, 7, 8, 64, 4096}
	for ti, t := range pf.tracks {
		n := len(t.sizes)
		L.ivs = append(L.ivs, [4]int{ti, 1, n, workLens[r.Intn(len(workLens))]}, [4]int{ti, n, n, workLens[r.Intn(len(workLens))]})
		for q := 0; q < 3; q++ {
			a := 1 + r.Intn(n)
			L.ivs = append(L.ivs, [4]int{ti, a, a + r.Intn(n-a+1), workLens[r.Intn(len(workLens))]})
		}
	}
	return L
}

// sampleOffsets: absolute offset of every sample of a track, from the layout (not from the library's tables).
func (L *virtLayout) sampleBytes(ti, a, b int) []byte {
	var out []byte
	nr := 1
	for _, c := range L.chunks[ti] {
		o := L.mdatStart + uint64(L.hl) + c.rel
		for _, sz := range c.sizes {
			if nr >= a && nr <= b {
				out = append(out, L.vf.slice(int64(o), int64(sz))...)
			}
			o += uint64(sz)
			nr++
		}
	}
	return out
}

// expectVirt: what the statement demands, from the layout alone. Same format as observeVirt.
func expectVirt(L *virtLayout) []string {
	pl := L.S - uint64(L.hl)
	ps := L.mdatStart + uint64(L.hl)
	out := []string{
		"tree=" + strings.Join(L.top, ","),
		fmt.Sprintf("geom=start:%d,size:%d,hdr:%d,large:%v,payload:%d,lazy:%d,moov:%d", L.mdatStart, L.S, L.hl, L.hl == 16, ps, pl, L.moovStart),
		fmt.Sprintf("fsize=%d", L.vf.size),
		"enc=" + hx(L.hdr),
	}
	var rd []string
	for _, rg := range L.relRanges {
		rd = append(rd, hx(L.vf.slice(int64(ps+rg[0]), int64(rg[1]))))
	}
	for _, k := range L.tailLens {
		rd = append(rd, hx(L.vf.slice(int64(ps+pl-k), int64(k))))
	}
	out = append(out, "read="+strings.Join(rd, ","))
	var cp []string
	for _, iv := range L.ivs {
		cp = append(cp, hx(L.sampleBytes(iv[0], iv[1], iv[2])))
	}
	out = append(out, "copy="+strings.Join(cp, ","), "mediaread=0")
	return out
}

// observeVirt decodes the virtual file lazily and reports tree, geometry, encoded header, ranges and sample copies.
// Every range is addressed through the decoded box's own geometry (PayloadAbsoluteOffset, Size - HeaderSize), as the
// library's users (mp4ff-crop, the segmenter) do.
func observeVirt(L *virtLayout) []string {
	vf := L.vf.clone()
	f, err := mp4.DecodeFile(vf, mp4.WithDecodeMode(mp4.DecModeLazyMdat))
	if err != nil {
		return []string{"decode-err=" + strings.ReplaceAll(err.Error(), " ", "_")}
	}
	headerReads := vf.nread
	var types []string
	for _, b := range f.Children {
		types = append(types, b.Type())
	}
	out := []string{"tree=" + strings.Join(types, ",")}
	m := f.Mdat
	if m == nil || f.Moov == nil {
		return append(out, "no-mdat-or-moov")
	}
	ps := m.PayloadAbsoluteOffset()
	pl := m.Size() - m.HeaderSize()
	out = append(out, fmt.Sprintf("geom=start:%d,size:%d,hdr:%d,large:%v,payload:%d,lazy:%d,moov:%d", m.StartPos, m.Size(), m.HeaderSize(), m.LargeSize, ps, m.GetLazyDataSize(), f.Moov.StartPos))
	out = append(out, fmt.Sprintf("fsize=%d", f.Size()))
	var eb bytes.Buffer
	if err := m.Encode(&eb); err != nil {
		out = append(out, "enc=err")
	} else {
		out = append(out, "enc="+hx(eb.Bytes()))
	}
	one := func(st, ln uint64) string {
		d, e1 := m.ReadData(int64(st), int64(ln), vf.clone())
		var cb bytes.Buffer
		n, e2 := m.CopyData(int64(st), int64(ln), vf.clone(), &cb)
		r1, r2 := "err", "err"
		if e1 == nil {
			r1 = hx(d)
		}
		if e2 == nil && n == int64(ln) {
			r2 = hx(cb.Bytes())
		}
		if r1 != r2 {
			return "ReadData:" + r1 + "/CopyData:" + r2
		}
		return r1
	}
	var rd []string
	for _, rg := range L.relRanges {
		rd = append(rd, one(ps+rg[0], rg[1]))
	}
	for _, k := range L.tailLens {
		rd = append(rd, one(ps+pl-k, k))
	}
	out = append(out, "read="+strings.Join(rd, ","))
	var cp []string
	for _, iv := range L.ivs {
		if iv[0] >= len(f.Moov.Traks) {
			cp = append(cp, "no-track")
			continue
		}
		var ws []byte
		if iv[3] > 0 {
			ws = make([]byte, iv[3])
		}
		var cb bytes.Buffer
		if err := f.CopySampleData(&cb, vf.clone(), f.Moov.Traks[iv[0]], uint32(iv[1]), uint32(iv[2]), ws); err != nil {
			cp = append(cp, "err")
		} else {
			cp = append(cp, hx(cb.Bytes()))
		}
	}
	// bytes of the media data touched while decoding (lazy mode leaves them on disk): everything the decoder read
	// beyond the small boxes and the mdat header
	media := headerReads - (L.vf.size - int64(L.S) + int64(L.hl))
	if media < 0 {
		media = 0
	}
	out = append(out, "copy="+strings.Join(cp, ","), fmt.Sprintf("mediaread=%d", media))
	return out
}

func execC08Virt(a []string) string {
	if len(a) != 3 {
		return "bad-op"
	}
	seed, e1 := strconv.ParseInt(a[0], 10, 64)
	hl := atoi(a[1])
	S, e2 := strconv.ParseUint(a[2], 10, 64)
	if e1 != nil || e2 != nil || (hl != 8 && hl != 16) || S < 1<<31 || S >= 1<<40 || (hl == 8 && S > 0xffffffff) {
		return "bad-op"
	}
	return strings.Join(observeVirt(buildVirt(seed, hl, S)), " ")
}

// virtSizes: the (header length, size) members of the family: the deterministic boundary members first, then random ones.
func virtSizes(c *Ctx) [][2]uint64 {
	var out [][2]uint64
	for _, d := range []int64{-17, -16, -9, -8, -7, -2, -1} {
		out = append(out, [2]uint64{8, uint64(1<<32 + d)})
	}
	out = append(out, [2]uint64{8, 1 << 31}, [2]uint64{8, 1<<31 + 1})
	for _, d := range []int64{-9, -8, -1, 0, 1, 6, 7, 8, 9, 15, 16, 17} {
		out = append(out, [2]uint64{16, uint64(1<<32 + d)})
	}
	out = append(out, [2]uint64{16, 1 << 31}, [2]uint64{16, 1<<33 - 1}, [2]uint64{16, 1 << 33}, [2]uint64{16, 1<<35 + 5})
	r := c.R
	for i := 0; i < c.N(40, 600); i++ {
		switch r.Intn(5) {
		case 0:
			out = append(out, [2]uint64{8, 0xffffffff - uint64(r.Intn(64))})
		case 1:
			out = append(out, [2]uint64{8, 1<<31 + uint64(r.Int63n(1<<31))})
		case 2:
			out = append(out, [2]uint64{16, 1<<32 - 64 + uint64(r.Intn(128))})
		case 3:
			out = append(out, [2]uint64{16, 1<<31 + uint64(r.Int63n(1<<33))})
		default:
			out = append(out, [2]uint64{16, 1<<32 + uint64(r.Int63n(1<<36-1<<32))})
		}
	}
	return out
}

func genC08Virt(c *Ctx) {
	what := map[string][2]string{
		"tree":      {"C08-virt-tree", "lazy decode of a multi-GiB file: top-level boxes differ from the file"},
		"geom":      {"C08-virt-geometry", "lazily decoded mdat: start, Size(), HeaderSize(), LargeSize, payload offset or lazy data size differ from the header bytes in the file (or the following moov is at the wrong position)"},
		"fsize":     {"C08-virt-geometry", "File.Size() of the lazily decoded file != size of the file"},
		"enc":       {"C08-lazy-encode", "lazily decoded mdat: Encode does not write exactly the header that is in the file"},
		"read":      {"C08-read-range", "ReadData/CopyData of a valid range (addressed from the box's payload offset and size) != the file bytes"},
		"copy":      {"C08-copy-samples", "CopySampleData over a sample interval != the samples' bytes in the file"},
		"mediaread": {"C08-virt-geometry", "lazy decode read media data"},
	}
	for _, hs := range virtSizes(c) {
		hl, S := int(hs[0]), hs[1]
		seed := c.R.Int63()
		req := fmt.Sprintf("md.virt %d %d %d", seed, hl, S)
		L := buildVirt(seed, hl, S)
		want := expectVirt(L)
		got := strings.Fields(execC08(req))
		c.Eval(req)
		c.Count(fmt.Sprintf("virtual-file hdr=%d", hl))
		gm := map[string]string{}
		for _, g := range got {
			if i := strings.Index(g, "="); i > 0 {
				gm[g[:i]] = g[i+1:]
			}
		}
		for _, w := range want {
			i := strings.Index(w, "=")
			k, v := w[:i], w[i+1:]
			if gm[k] != v {
				g := gm[k]
				if _, ok := gm[k]; !ok {
					g = strings.Join(got, " ")
				}
				c.Fail(what[k][0], what[k][1], req, clip(g), clip(v))
			}
		}
		// the model's lazily decoded box for the same header: Encode and Size
		mreq := fmt.Sprintf("md.enc 1 %d %d %d -", L.mdatStart, hl, S)
		c.Case(mreq, execC08(mreq))
	}
}
