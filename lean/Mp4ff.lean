import Mp4ff.Model.Basic
import Mp4ff.Model.Bits
