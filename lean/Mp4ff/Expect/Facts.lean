import Mp4ff.Generated.Facts
import Mp4ff.Model.Aac
import Mp4ff.Model.Boxes
/-!
Obligations on the facts regenerated from /repo's sources on every run (`/verif/extract`).  Each is closed by
the kernel (`decide`), so a source change that invalidates one makes `lake build` of the property fail.
-/
namespace Mp4ff.Expect
open Mp4ff.Generated

def sameSet (a b : List String) : Bool := a.all (b.contains ·) && b.all (a.contains ·)

/-- C03: the two decoder registries have the same key set -/
theorem registries_same_keys : sameSet decoderKeys decoderSRKeys = true := by decide +kernel

/-- C03: key k is served by `DecodeX` in one table and by `DecodeXSR` in the other -/
theorem registries_paired :
    (decoderKeys.zip decoderFuncs).all (fun kf =>
      (decoderSRKeys.zip decoderSRFuncs).any fun ks => ks.1 == kf.1 && ks.2 == kf.2 ++ "SR") = true := by
  decide +kernel

/-- no duplicate keys (a duplicate key in a Go map literal does not compile, but keep the fact explicit) -/
theorem registry_nodup : decoderKeys.Nodup ∧ decoderSRKeys.Nodup := by decide +kernel

/-- C01-C03 coverage accounting: every hand-modelled box type is a registered type -/
theorem modelled_are_registered : (Boxes.specs.map (·.1)).all (decoderKeys.contains ·) = true := by decide +kernel

/-- C20: the only package-level variables any function writes are the decoder registries, and only from
    `init`, `SetBoxDecoder`, `RemoveBoxDecoder` -/
def allowedWriters : List String := ["init", "SetBoxDecoder", "RemoveBoxDecoder"]
def registryVars : List String := ["decoders", "decodersSR", "sgeDecoders"]
theorem globals_written_only_by_registry_functions :
    globals.all (fun g => g.2.2.2 = [] || (registryVars.contains g.2.1 && g.2.2.2.all (allowedWriters.contains ·))) = true := by
  decide +kernel

/-- C20: apart from the registries and read-only tables/sentinel errors there is no package-level state.  The
    extractor follows named types to their definition and classifies initialisers (`&T{}`/`new(T)` = pointer, `T{}` of
    a struct type = struct, value of another package's type = foreign, result of an unrecognised call = unknown, …):
    a package-level OBJECT (pointer, struct, interface, chan, func, foreign, unknown) is not accepted, since its
    pointer-receiver methods can mutate it without any assignment the writers pass would see (a shared reader, a
    buffer pool, a cache behind a mutex …) -/
theorem globals_kinds :
    globals.all (fun g => g.2.2.1 == "error" || g.2.2.1 == "map" || g.2.2.1 == "slice" || g.2.2.1 == "array" || g.2.2.1 == "scalar") = true := by
  decide +kernel

/-- C18: the frequency tables in aac/aac.go are the model's table and its inverse -/
theorem aac_tables : aacFrequencyTable = Aac.freqTable ∧ aacReverseFrequencies = Aac.freqTable.map (fun p => (p.2, p.1)) := by
  decide +kernel

/-- constants the theorems depend on -/
theorem consts : const_minClearSize = 96 ∧ const_naluHdrLen = 4 ∧ const_maxNormalPayloadSize = 2 ^ 32 - 1 - 8 ∧
    const_boxHeaderSize = 8 ∧ const_largeSizeLen = 8 ∧ const_startCodeEmulationPreventionByte = 3 := by decide

/-- every Go function a model file is a transcription of (committed table spec/transcribed.json, regenerated against
    the current source by the extractor) still exists: a model is never silently tied to code that has gone -/
theorem transcribed_functions_exist : transcribed.all (fun e => e.2.2) = true := by decide +kernel

end Mp4ff.Expect
