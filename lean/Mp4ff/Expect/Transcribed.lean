import Mp4ff.Generated.Facts
/-!
Obligation on the regenerated fact `Generated.transcribed`: for a model file, every Go function the committed table
`spec/transcribed.json` says it transcribes still exists in the current source.  Each `Props/Cxx.lean` states it for the
model files in its import closure, so a property's theorems are never silently tied to code that has gone.
-/
namespace Mp4ff.Expect
open Mp4ff.Generated

/-- all functions recorded for `model` are present -/
def presentFor (model : String) : Bool := (transcribed.filter (fun e => e.1 == model)).all (fun e => e.2.2)

end Mp4ff.Expect
