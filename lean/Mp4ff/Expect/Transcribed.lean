import Mp4ff.Generated.Facts
/-!
Obligation on the regenerated fact `Generated.transcribed`: for a model file, every Go function the committed table
`spec/transcribed.json` says it transcribes still exists in the current source.  Each `Props/Cxx.lean` states it for the
model files in its import closure, so a property's theorems are never silently tied to code that has gone.
-/
namespace Mp4ff.Expect
open Mp4ff.Generated

/-- all functions recorded for `model` are present -/
def presentFor (model : String) : Bool := (transcribed.filter (fun e => e.1 == model)).all (fun e => e.2.2)

/-- the flag bits the box layouts (`Model/Boxes.lean`: trun, tfhd) and the fragment model (`Model/Frag.lean`) hard-code are
    the constants of the current source (mp4/trun.go, mp4/tfhd.go, mp4/sampleflags.go, mp4/audiosamplentry.go) -/
theorem flag_constants :
    const_TrunDataOffsetPresentFlag = 0x01 ∧ const_TrunFirstSampleFlagsPresentFlag = 0x04 ∧
    const_TrunSampleDurationPresentFlag = 0x100 ∧ const_TrunSampleSizePresentFlag = 0x200 ∧
    const_TrunSampleFlagsPresentFlag = 0x400 ∧ const_TrunSampleCompositionTimeOffsetPresentFlag = 0x800 ∧
    const_baseDataOffsetPresent = 0x01 ∧ const_sampleDescriptionIndexPresent = 0x02 ∧
    const_defaultSampleDurationPresent = 0x08 ∧ const_defaultSampleSizePresent = 0x10 ∧
    const_defaultSampleFlagsPresent = 0x20 ∧ const_durationIsEmpty = 0x010000 ∧ const_defaultBaseIsMoof = 0x020000 ∧
    const_SyncSampleFlags = 0x02000000 ∧ const_NonSyncSampleFlags = 0x00010000 ∧
    const_nrAudioSampleBytesBeforeChildren = 36 := by decide

end Mp4ff.Expect
