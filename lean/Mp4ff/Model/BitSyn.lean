import Mp4ff.Model.BitSpec
/-!
M13: a **bitstream-syntax DSL** for parameter sets (C15).  A syntax is a list of elements over the values parsed so
far: fixed-width fields u(n), flags, ue(v), se(v), groups present under a condition on earlier values, groups
repeated a number of times given by earlier values.  `parse` is the reader (on the emulation-prevention-removing
reader of M1), `ops` is the serialiser: it turns a trace of values into the primitive write operations.
-/
namespace Mp4ff.BitSyn
open Mp4ff.Bits

abbrev Trace := List (String × Int)

/-- latest value of a name (0 when absent) -/
def Trace.get (t : Trace) (name : String) : Int :=
  match t.reverse.find? (·.1 == name) with
  | some (_, v) => v
  | none => 0

def Trace.nat (t : Trace) (name : String) : Nat := (t.get name).toNat

/-- all values of a name, in order -/
def Trace.all (t : Trace) (name : String) : List Int := (t.filter (·.1 == name)).map (·.2)

inductive Syn where
  | fld (name : String) (k : Nat)
  | flag (name : String)
  | ue (name : String)
  | se (name : String)
  | cond (p : Trace → Bool) (body : List Syn)
  | rep (cap : Nat) (n : Trace → Nat) (body : List Syn)     -- min (n acc) cap iterations
  | seterr (p : Trace → Bool)                                -- the parser records an error and goes on (reads return 0)
  | abort (p : Trace → Bool)                                 -- the parser returns an error at once

/-- the parser has returned early (an `abort` fired) -/
def stopped (t : Trace) : Bool := t.any (·.1 == "__stop")

/-- read a syntax; `none` only when the fuel runs out (the reader itself never fails: it accumulates an error) -/
def parse : Nat → List Syn → Trace → ER → Option (Trace × ER)
  | 0, _, _, _ => none
  | _ + 1, [], acc, e => some (acc, e)
  | f + 1, .seterr p :: rest, acc, e =>
    if stopped acc then some (acc, e) else
    parse f rest acc (if p acc then { e with err := true } else e)
  | f + 1, .abort p :: rest, acc, e =>
    if stopped acc then some (acc, e) else
    if p acc then some (acc ++ [("__stop", 1)], { e with err := true }) else parse f rest acc e
  | f + 1, .fld nm k :: rest, acc, e =>
    if stopped acc then some (acc, e) else
    let (e', v) := e.read k
    parse f rest (acc ++ [(nm, (v : Int))]) e'
  | f + 1, .flag nm :: rest, acc, e =>
    if stopped acc then some (acc, e) else
    let (e', b) := e.readFlag
    parse f rest (acc ++ [(nm, if b then 1 else 0)]) e'
  | f + 1, .ue nm :: rest, acc, e =>
    if stopped acc then some (acc, e) else
    let (e', v) := e.readExpGolomb
    parse f rest (acc ++ [(nm, (v : Int))]) e'
  | f + 1, .se nm :: rest, acc, e =>
    if stopped acc then some (acc, e) else
    let (e', v) := e.readSignedGolomb
    parse f rest (acc ++ [(nm, v)]) e'
  | f + 1, .cond p body :: rest, acc, e =>
    if stopped acc then some (acc, e) else
    if p acc then
      match parse f body acc e with
      | some (a1, e1) => parse f rest a1 e1
      | none => none
    else parse f rest acc e
  | f + 1, .rep cap n body :: rest, acc, e =>
    if stopped acc then some (acc, e) else
    match min (n acc) cap with
    | 0 => parse f rest acc e
    | k + 1 =>
      match parse f body acc e with
      | some (a1, e1) => parse f (.rep k (fun _ => k) body :: rest) a1 e1
      | none => none

/-- serialise: consume the values of `src` in order, produce the primitive operations -/
def ops : Nat → List Syn → Trace → Trace → Option (List Op × Trace × Trace)
  | 0, _, _, _ => none
  | _ + 1, [], acc, src => some ([], acc, src)
  | f + 1, .fld nm k :: rest, acc, src =>
    match src with
    | (nm', v) :: src' =>
      if nm' = nm ∧ 0 ≤ v then (ops f rest (acc ++ [(nm, v)]) src').map fun (o, a, s) => (Op.fld k v.toNat :: o, a, s) else none
    | [] => none
  | f + 1, .flag nm :: rest, acc, src =>
    match src with
    | (nm', v) :: src' =>
      if nm' = nm ∧ (v = 0 ∨ v = 1) then (ops f rest (acc ++ [(nm, v)]) src').map fun (o, a, s) => (Op.flag (v == 1) :: o, a, s) else none
    | [] => none
  | f + 1, .ue nm :: rest, acc, src =>
    match src with
    | (nm', v) :: src' =>
      if nm' = nm ∧ 0 ≤ v then (ops f rest (acc ++ [(nm, v)]) src').map fun (o, a, s) => (Op.ue v.toNat :: o, a, s) else none
    | [] => none
  | f + 1, .se nm :: rest, acc, src =>
    match src with
    | (nm', v) :: src' =>
      if nm' = nm then (ops f rest (acc ++ [(nm, v)]) src').map fun (o, a, s) => (Op.se v :: o, a, s) else none
    | [] => none
  | f + 1, .cond p body :: rest, acc, src =>
    if p acc then
      match ops f body acc src with
      | some (o1, a1, s1) => (ops f rest a1 s1).map fun (o2, a2, s2) => (o1 ++ o2, a2, s2)
      | none => none
    else ops f rest acc src
  | f + 1, .rep cap n body :: rest, acc, src =>
    match min (n acc) cap with
    | 0 => ops f rest acc src
    | k + 1 =>
      match ops f body acc src with
      | some (o1, a1, s1) => (ops f (.rep k (fun _ => k) body :: rest) a1 s1).map fun (o2, a2, s2) => (o1 ++ o2, a2, s2)
      | none => none
  | f + 1, .seterr p :: rest, acc, src => if p acc then none else ops f rest acc src
  | f + 1, .abort p :: rest, acc, src => if p acc then none else ops f rest acc src

/-- the NAL unit an independent serialiser produces from a trace: operations written with the emulation-preventing
    writer, closed with rbsp trailing bits -/
def serialize (fuel : Nat) (L : List Syn) (tr : Trace) : Option Bytes :=
  match ops fuel L [] tr with
  | some (os, _, []) => some ((os.foldl EW.writeOp {}).writeRbspTrailingBits).out
  | _ => none

/-- parse a NAL unit (first syntax element is the NAL header) -/
def parseNalu (fuel : Nat) (L : List Syn) (nalu : Bytes) : Option (Trace × ER) :=
  parse fuel L [] { rest := nalu }

end Mp4ff.BitSyn
