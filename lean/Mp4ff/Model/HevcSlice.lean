import Mp4ff.Model.HevcPps
/-!
M19: the HEVC slice segment header (ISO/IEC 23008-2 7.3.6.1 with st_ref_pic_set in the header, long-term pictures,
ref_pic_lists_modification, pred_weight_table, entry points, header extension, byte alignment) as `hevc/slice.go`
`ParseSliceHeader(nalu, spsMap, ppsMap)` reads it: a `BitSyn` term parameterised by the *parsed parameter sets* (their
traces, as produced by the `HevcSps` / `HevcPps` models): the PPS is found under the slice's pps id, the SPS under that
PPS's sps id; the short-term reference picture sets of the SPS (`HevcSps.rpsSets`) give the reference for an
inter-predicted set in the header, the number of list entry bits, etc.  After the term: the alignment bits, read on
the reader (`alignBits`), and the size in bytes.
-/
namespace Mp4ff.HevcSlice
open Mp4ff.BitSyn Mp4ff.Bits Mp4ff.HevcSps Mp4ff.HevcPps

/-- parameter-set maps: key → trace of the parsed set (the last entry with a key wins, as in a Go map) -/
abbrev PsMap := List (Nat × Trace)

def lookup (m : PsMap) (k : Nat) : Option Trace := (m.reverse.find? (·.1 = k)).map (·.2)

section
variable (sm pm : PsMap)

def ppsOf (t : Trace) : Option Trace := lookup pm (t.nat "slice_pic_parameter_set_id" % 2 ^ 32)
def spsOf (t : Trace) : Option Trace :=
  (ppsOf pm t).bind fun p => lookup sm (p.nat "pps_seq_parameter_set_id" % 2 ^ 32)
def pp (t : Trace) : Trace := (ppsOf pm t).getD []
def sp (t : Trace) : Trace := (spsOf sm pm t).getD []

def naluType (t : Trace) : Nat := t.nat "nal_header" / 512 % 64
def isIdr (t : Trace) : Bool := naluType t = 19 ∨ naluType t = 20

/-- `CtbLog2SizeY` from the SPS's byte-sized fields -/
def ctbLog2 (s : Trace) : Nat :=
  s.nat "log2_min_luma_coding_block_size_minus3" % 256 + 3 + s.nat "log2_diff_max_min_luma_coding_block_size" % 256

def ceilDiv (a b : Nat) : Nat := (a + b - 1) / b

def picSizeInCtbs (s : Trace) : Nat :=
  let c := 2 ^ ctbLog2 s
  (ceilDiv (s.nat "pic_width_in_luma_samples" % 2 ^ 32) c * ceilDiv (s.nat "pic_height_in_luma_samples" % 2 ^ 32) c) % W64

def chromaArrayType (s : Trace) : Nat :=
  if s.get "separate_colour_plane_flag" = 1 ∧ chroma s = 3 then 0 else chroma s

def dependent (t : Trace) : Bool := t.get "dependent_slice_segment_flag" = 1

/-- number of short-term sets of the SPS (`NumShortTermRefPicSets`, a byte = `len(sps.ShortTermRefPicSets)`) -/
def numSets (s : Trace) : Nat := s.nat "num_short_term_ref_pic_sets" % 256
def numLt (s : Trace) : Nat := s.nat "num_long_term_ref_pics_sps" % 256

/-! ### st_ref_pic_set( num_short_term_ref_pic_sets ) in the header -/

def sliceRpsSeg (t : Trace) : Trace := t.filter (fun e => rpsNames.contains e.1 ∨ e.1 == "delta_idx_minus1")

/-- `deltaIdx` (uint: wraps to 0 for 2^64−1) -/
def deltaIdx (t : Trace) : Nat := (t.nat "delta_idx_minus1" + 1) % W64

def interPred (t : Trace) : Bool := t.get "inter_ref_pic_set_prediction_flag" = 1

/-- the SPS set the header's set is predicted from: `sps.ShortTermRefPicSets[idx - byte(deltaIdx)]` -/
def sliceRef (t : Trace) : Rps :=
  let s := sp sm pm t
  (rpsSets s).getD (numSets s - deltaIdx t % 256) {}

def sliceRefBad (t : Trace) : Bool :=
  let r := sliceRef sm pm t
  r.numDelta ≠ r.s0.length + r.s1.length ∨ r.numDelta > 16

/-- `sh.ShortTermRefPicSet` -/
def sliceRps (t : Trace) : Rps :=
  let s := sp sm pm t
  if t.get "short_term_ref_pic_set_sps_flag" = 1 then (rpsSets s).getD (t.nat "short_term_ref_pic_set_idx" % 256) {}
  else deriveSet (sliceRef sm pm t) (sliceRpsSeg t)

def stRpsInHeader : List Syn := [
  .cond (fun t => numSets (sp sm pm t) > 0) [.flag "inter_ref_pic_set_prediction_flag"],
  .cond interPred [
    .ue "delta_idx_minus1",
    .abort (fun t => deltaIdx t = 0 ∨ deltaIdx t > numSets (sp sm pm t)),
    .fld "delta_rps_sign" 1, .ue "abs_delta_rps_minus1",
    .abort (sliceRefBad sm pm),
    .rep 17 (fun t => (sliceRef sm pm t).numDelta + 1) [
      .flag "used_by_curr_pic_flag",
      .cond (fun t => t.get "used_by_curr_pic_flag" = 0) [.flag "use_delta_flag"]]],
  .cond (fun t => ¬ interPred t) [
    .ue "num_negative_pics", .ue "num_positive_pics",
    .abort (fun t => t.nat "num_negative_pics" % 256 > 16 ∨ t.nat "num_positive_pics" % 256 > 16),
    .rep 16 (fun t => t.nat "num_negative_pics" % 256) [.ue "delta_poc_s0_minus1", .flag "used_by_curr_pic_s0_flag"],
    .rep 16 (fun t => t.nat "num_positive_pics" % 256) [.ue "delta_poc_s1_minus1", .flag "used_by_curr_pic_s1_flag"]]]

/-! ### long-term pictures -/

def nlSps (t : Trace) : Nat := t.nat "num_long_term_sps" % 256
def ltIter (t : Trace) : Nat := (t.all "delta_poc_msb_present_flag").length
def ltIdx (t : Trace) : Nat := if numLt (sp sm pm t) > 1 then (sinceLast "delta_poc_msb_present_flag" t).nat "lt_idx_sps" else 0

/-- used_by_curr_pic_lt_sps_flag[ i ] of the SPS -/
def spsLtUsed (s : Trace) (i : Nat) : Bool := nth s "used_by_curr_pic_lt_sps_flag" i = 1

/-- how many long-term pictures of the header are used by the current picture -/
def ltUsedCount (t : Trace) : Nat :=
  let s := sp sm pm t
  let idxs := t.all "lt_idx_sps"
  let fromSps := (List.range (min (nlSps t) (ltIter t))).filter fun i =>
    spsLtUsed s (if numLt s > 1 then (idxs.getD i 0).toNat else 0)
  fromSps.length + ((t.all "used_by_curr_pic_lt_flag").filter (· = 1)).length

def ltEntry : List Syn := [
  .cond (fun t => ltIter t < nlSps t) [
    .cond (fun t => numLt (sp sm pm t) > 1)
      (varFld "lt_idx_sps" (fun t => AvcPps.ceilLog2 (numLt (sp sm pm t))) 8),
    .abort (fun t => ltIdx sm pm t ≥ numLt (sp sm pm t))],
  .cond (fun t => ¬ (ltIter t < nlSps t)) [
    .cond (fun _ => true) (varFldT "poc_lsb_lt" (fun t => pocLsbBits (sp sm pm t)) 9 0 255),
    .flag "used_by_curr_pic_lt_flag"],
  .flag "delta_poc_msb_present_flag",
  .cond (fun t => t.get "delta_poc_msb_present_flag" = 1) [.ue "delta_poc_msb_cycle_lt"]]

/-! ### reference lists, weights -/

def isP (t : Trace) : Bool := t.nat "slice_type" = 1
def isB (t : Trace) : Bool := t.nat "slice_type" = 0
def override (t : Trace) : Bool := t.get "num_ref_idx_active_override_flag" = 1

def numL0 (t : Trace) : Nat :=
  if override t then t.nat "num_ref_idx_l0_active_minus1" % 256 else (pp pm t).nat "num_ref_idx_l0_default_active_minus1" % 256
def numL1 (t : Trace) : Nat :=
  if override t ∧ isB t then t.nat "num_ref_idx_l1_active_minus1" % 256
  else (pp pm t).nat "num_ref_idx_l1_default_active_minus1" % 256

/-- `NumPicTotalCurr` (uint8) when the list modification is parsed -/
def numPicTotalCurr (t : Trace) : Nat :=
  let r := sliceRps sm pm t
  let st := if isIdr t then 0 else ((r.s0.filter (·.2)).length + (r.s1.filter (·.2)).length) % 256
  let lt := if isIdr t then 0 else ltUsedCount sm pm t
  (st + lt + (if (pp pm t).get "pps_curr_pic_ref_enabled_flag" = 1 then 1 else 0)) % 256

def listEntryBits (t : Trace) : Nat := AvcPps.ceilLog2 (numPicTotalCurr sm pm t)

def collocatedFromL0 (t : Trace) : Bool := if isB t then t.get "collocated_from_l0_flag" = 1 else true

def pwEntry (l : String) (n : Trace → Nat) (i : Nat) : Syn :=
  .cond (fun t => i ≤ n t) [
    .cond (fun t => nth t ("luma_weight_" ++ l ++ "_flag") i = 1) [
      .se ("delta_luma_weight_" ++ l), .se ("luma_offset_" ++ l)],
    .cond (fun t => nth t ("chroma_weight_" ++ l ++ "_flag") i = 1) [
      .rep 2 (fun _ => 2) [.se ("delta_chroma_weight_" ++ l), .se ("delta_chroma_offset_" ++ l)]]]

def pwList (l : String) (n : Trace → Nat) : List Syn := [
  .rep 15 (fun t => n t + 1) [.flag ("luma_weight_" ++ l ++ "_flag")],
  .cond (fun t => chromaArrayType (sp sm pm t) ≠ 0) [.rep 15 (fun t => n t + 1) [.flag ("chroma_weight_" ++ l ++ "_flag")]]] ++
  (List.range 15).map (pwEntry l n)

def predWeightTable : List Syn := [
  .ue "luma_log2_weight_denom",
  .cond (fun t => chromaArrayType (sp sm pm t) ≠ 0) [.se "delta_chroma_log2_weight_denom"],
  .cond (fun _ => true) (pwList sm pm "l0" (numL0 pm)),
  .cond isB (pwList sm pm "l1" (numL1 pm))]

/-- slice_deblocking_filter_disabled_flag as inferred -/
def deblockDisabled (t : Trace) : Bool :=
  if t.get "deblocking_filter_override_flag" = 1 then t.get "slice_deblocking_filter_disabled_flag" = 1
  else (pp pm t).get "pps_deblocking_filter_disabled_flag" = 1

def pOrB : List Syn := [
  .flag "num_ref_idx_active_override_flag",
  .cond override [.ue "num_ref_idx_l0_active_minus1", .cond isB [.ue "num_ref_idx_l1_active_minus1"]],
  .abort (fun t => numL0 pm t > 14 ∨ numL1 pm t > 14),
  .cond (fun t => (pp pm t).get "lists_modification_present_flag" = 1 ∧ numPicTotalCurr sm pm t > 1) [
    .flag "ref_pic_list_modification_flag_l0",
    .cond (fun t => t.get "ref_pic_list_modification_flag_l0" = 1) [
      .rep 15 (fun t => numL0 pm t + 1) (varFld "list_entry_l0" (listEntryBits sm pm) 8)],
    .cond isB [
      .flag "ref_pic_list_modification_flag_l1",
      .cond (fun t => t.get "ref_pic_list_modification_flag_l1" = 1) [
        .rep 15 (fun t => numL1 pm t + 1) (varFld "list_entry_l1" (listEntryBits sm pm) 8)]]],
  .cond isB [.flag "mvd_l1_zero_flag"],
  .cond (fun t => (pp pm t).get "cabac_init_present_flag" = 1) [.flag "cabac_init_flag"],
  .cond (fun t => t.get "slice_temporal_mvp_enabled_flag" = 1) [
    .cond isB [.flag "collocated_from_l0_flag"],
    .cond (fun t => (collocatedFromL0 t ∧ numL0 pm t > 0) ∨ (¬ collocatedFromL0 t ∧ numL1 pm t > 0)) [
      .ue "collocated_ref_idx"]],
  .cond (fun t => ((pp pm t).get "weighted_pred_flag" = 1 ∧ isP t) ∨ ((pp pm t).get "weighted_bipred_flag" = 1 ∧ isB t))
    (predWeightTable sm pm),
  .ue "five_minus_max_num_merge_cand",
  .cond (fun t => (sp sm pm t).get "motion_vector_resolution_control_idc" = 2) [.flag "use_integer_mv_flag"]]

def independentPart (cap : Nat) : List Syn := [
  .rep 7 (fun t => (pp pm t).nat "num_extra_slice_header_bits") [.flag "slice_reserved_flag"],
  .ue "slice_type",
  .cond (fun t => (pp pm t).get "output_flag_present_flag" = 1) [.flag "pic_output_flag"],
  .cond (fun t => (sp sm pm t).get "separate_colour_plane_flag" = 1) [.fld "colour_plane_id" 2],
  .cond (fun t => ¬ isIdr t) [
    .cond (fun _ => true) (varFldT "slice_pic_order_cnt_lsb" (fun t => pocLsbBits (sp sm pm t)) 9 0 255),
    .flag "short_term_ref_pic_set_sps_flag",
    .cond (fun t => t.get "short_term_ref_pic_set_sps_flag" = 0) (stRpsInHeader sm pm),
    .cond (fun t => t.get "short_term_ref_pic_set_sps_flag" = 1) [
      .cond (fun t => numSets (sp sm pm t) > 1)
        (varFld "short_term_ref_pic_set_idx" (fun t => AvcPps.ceilLog2 (numSets (sp sm pm t))) 8),
      .abort (fun t => t.nat "short_term_ref_pic_set_idx" % 256 ≥ numSets (sp sm pm t))],
    .cond (fun t => (sp sm pm t).get "long_term_ref_pics_present_flag" = 1) [
      .cond (fun t => numLt (sp sm pm t) > 0) [.ue "num_long_term_sps"],
      .ue "num_long_term_pics",
      .rep cap (fun t => (nlSps t + t.nat "num_long_term_pics") % W64) (ltEntry sm pm)],
    .cond (fun t => (sp sm pm t).get "sps_temporal_mvp_enabled_flag" = 1) [.flag "slice_temporal_mvp_enabled_flag"]],
  .cond (fun t => (sp sm pm t).get "sample_adaptive_offset_enabled_flag" = 1) [
    .flag "slice_sao_luma_flag",
    .cond (fun t => chromaArrayType (sp sm pm t) ≠ 0) [.flag "slice_sao_chroma_flag"]],
  .cond (fun t => isP t ∨ isB t) (pOrB sm pm),
  .se "slice_qp_delta",
  .cond (fun t => (pp pm t).get "pps_slice_chroma_qp_offsets_present_flag" = 1) [
    .se "slice_cb_qp_offset", .se "slice_cr_qp_offset"],
  .cond (fun t => (pp pm t).get "pps_slice_act_qp_offsets_present_flag" = 1) [
    .se "slice_act_y_qp_offset", .se "slice_act_cb_qp_offset", .se "slice_act_cr_qp_offset"],
  .cond (fun t => (pp pm t).get "chroma_qp_offset_list_enabled_flag" = 1) [.flag "cu_chroma_qp_offset_enabled_flag"],
  .cond (fun t => (pp pm t).get "deblocking_filter_override_enabled_flag" = 1) [.flag "deblocking_filter_override_flag"],
  .cond (fun t => t.get "deblocking_filter_override_flag" = 1) [
    .flag "slice_deblocking_filter_disabled_flag",
    .cond (fun t => t.get "slice_deblocking_filter_disabled_flag" = 0) [.se "slice_beta_offset_div2", .se "slice_tc_offset_div2"]],
  .cond (fun t => (pp pm t).get "pps_loop_filter_across_slices_enabled_flag" = 1 ∧
      (t.get "slice_sao_luma_flag" = 1 ∨ t.get "slice_sao_chroma_flag" = 1 ∨ ¬ deblockDisabled pm t)) [
    .flag "slice_loop_filter_across_slices_enabled_flag"]]

def slice (cap : Nat) : List Syn := [
  .fld "nal_header" 16,
  .flag "first_slice_segment_in_pic_flag",
  .cond (fun t => 16 ≤ naluType t ∧ naluType t ≤ 23) [.flag "no_output_of_prior_pics_flag"],
  .ue "slice_pic_parameter_set_id",
  .abort (fun t => (ppsOf pm t).isNone),                                      -- "pps ID unknown"
  .abort (fun t => (spsOf sm pm t).isNone),                                   -- "sps ID unknown"
  .cond (fun t => t.get "first_slice_segment_in_pic_flag" = 0) [
    .cond (fun t => (pp pm t).get "dependent_slice_segments_enabled_flag" = 1) [.flag "dependent_slice_segment_flag"],
    .abort (fun t => ctbLog2 (sp sm pm t) > 6),
    .cond (fun _ => true)
      (varFld "slice_segment_address" (fun t => AvcPps.ceilLog2 (picSizeInCtbs (sp sm pm t))) 32)],
  .cond (fun t => ¬ dependent t) (independentPart sm pm cap),
  .cond (fun t => (pp pm t).get "tiles_enabled_flag" = 1 ∨ (pp pm t).get "entropy_coding_sync_enabled_flag" = 1) [
    .ue "num_entry_point_offsets",
    .cond (fun t => t.nat "num_entry_point_offsets" > 0) [
      .ue "offset_len_minus1",
      .abort (fun t => t.nat "offset_len_minus1" > 31),
      .rep cap (fun t => t.nat "num_entry_point_offsets")
        (varFld "entry_point_offset_minus1" (fun t => t.nat "offset_len_minus1" + 1) 32)]],
  .cond (fun t => (pp pm t).get "slice_segment_header_extension_present_flag" = 1) [
    .ue "slice_segment_header_extension_length",
    .rep 65535 (fun t => t.nat "slice_segment_header_extension_length" % 65536) [
      .fld "slice_segment_header_extension_data_byte" 8]],
  .flag "alignment_bit_equal_to_one",
  .abort (fun t => t.get "alignment_bit_equal_to_one" = 0)]

end

/-- `for r.NrBitsReadInCurrentByte() < 8 { if r.ReadFlag() → error }`: `true` = a one bit was found -/
def alignBits : Nat → ER → ER × Bool
  | 0, r => (r, false)
  | f + 1, r =>
    if r.n = 0 then (r, false) else
    let (r1, b) := r.readFlag
    if b then (r1, true) else alignBits f r1

inductive Result
  | fuel
  | err
  | ok (t : Trace) (size : Nat)
deriving Repr, DecidableEq

def capOf (nalu : Bytes) : Nat := 8 * nalu.length + 8

def fuel (nalu : Bytes) : Nat := 64 * (nalu.length + 8) + 80000

/-- `ParseSliceHeader`; `size` = `NrBytesRead()` -/
def parseSlice (f : Nat) (sm pm : PsMap) (nalu : Bytes) : Result :=
  match parse f (slice sm pm (capOf nalu)) [] { rest := nalu } with
  | none => .fuel
  | some (t, e) =>
    if stopped t then .err else
    let (e2, bad) := alignBits 9 e
    if bad ∨ e2.err then .err else .ok t e2.nrBytesRead

end Mp4ff.HevcSlice
