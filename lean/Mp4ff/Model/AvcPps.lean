import Mp4ff.Model.AvcSps
import Mp4ff.Model.Sei
/-!
M15: the AVC picture parameter set (ISO/IEC 14496-10 7.3.2.2) as `avc/pps.go` `ParsePPSNALUnit(data, spsMap)` reads it:
a **prefix syntax** (DSL term, up to redundant_pic_cnt_present_flag), the `more_rbsp_data()` look-ahead on the reader
(`Sei.moreRbspData`, the transcription of `EBSPReader.MoreRbspData`), a **tail syntax** (DSL term: transform_8x8_mode_flag,
picture scaling lists sized by the chroma_format_idc of the SPS the PPS refers to, second_chroma_qp_index_offset) and the
`rbsp_trailing_bits` check (`Sei.readTrailing`).
-/
namespace Mp4ff.AvcPps
open Mp4ff.BitSyn Mp4ff.Bits

/-- `bits.CeilLog2(n)` -/
def ceilLog2 (n : Nat) : Nat :=
  match (List.range 32).find? (fun i => 2 ^ i ≥ n) with
  | some i => i
  | none => 32

/-- width of slice_group_id: `bits.CeilLog2(num_slice_groups_minus1 + 1)` (1..3 bits as num_slice_groups_minus1 is 1..7) -/
def sgiBits (t : Trace) : Nat := ceilLog2 (t.nat "num_slice_groups_minus1" + 1)

/-- the syntax up to the look-ahead.  `cap` bounds the slice_group_id loop, which the parser runs
    pic_size_in_map_units_minus1 + 1 times *or until the reader reports an error*: with `cap` ≥ the number of bits of
    the NAL unit the two stop conditions give the same answer (every iteration consumes at least one bit). -/
def pre (cap : Nat) : List Syn := [
  .fld "nal_header" 8,
  .abort (fun t => t.nat "nal_header" % 32 ≠ 8),                    -- ErrNotPPS
  .ue "pic_parameter_set_id", .ue "seq_parameter_set_id", .flag "entropy_coding_mode_flag",
  .flag "bottom_field_pic_order_in_frame_present_flag", .ue "num_slice_groups_minus1",
  .abort (fun t => t.nat "num_slice_groups_minus1" > 7),
  .cond (fun t => t.nat "num_slice_groups_minus1" > 0) [
    .ue "slice_group_map_type",
    .cond (fun t => t.nat "slice_group_map_type" = 0) [
      .rep 8 (fun t => t.nat "num_slice_groups_minus1" + 1) [.ue "run_length_minus1"]],
    .cond (fun t => t.nat "slice_group_map_type" = 2) [
      .rep 7 (fun t => t.nat "num_slice_groups_minus1") [.ue "top_left", .ue "bottom_right"]],
    .cond (fun t => 3 ≤ t.nat "slice_group_map_type" ∧ t.nat "slice_group_map_type" ≤ 5) [
      .flag "slice_group_change_direction_flag", .ue "slice_group_change_rate_minus1"],
    .cond (fun t => t.nat "slice_group_map_type" = 6) [
      .ue "pic_size_in_map_units_minus1",
      .rep cap (fun t => t.nat "pic_size_in_map_units_minus1" + 1) [
        .cond (fun t => sgiBits t = 1) [.fld "slice_group_id" 1],
        .cond (fun t => sgiBits t = 2) [.fld "slice_group_id" 2],
        .cond (fun t => sgiBits t = 3) [.fld "slice_group_id" 3]]]],
  .ue "num_ref_idx_l0_default_active_minus1", .ue "num_ref_idx_l1_default_active_minus1", .flag "weighted_pred_flag",
  .fld "weighted_bipred_idc" 2, .se "pic_init_qp_minus26", .se "pic_init_qs_minus26", .se "chroma_qp_index_offset",
  .flag "deblocking_filter_control_present_flag", .flag "constrained_intra_pred_flag",
  .flag "redundant_pic_cnt_present_flag"]

/-- number of picture scaling lists (`nrScalingLists`) -/
def nrLists (chroma : Nat) (t : Trace) : Nat :=
  if t.get "transform_8x8_mode_flag" = 1 then (if chroma ≠ 3 then 8 else 12) else 6

/-- the syntax after `more_rbsp_data()`; `chroma` = chroma_format_idc of the SPS with the PPS's sps id in the map
    (`none`: not in the map — an error once pic_scaling_matrix_present_flag is 1) -/
def tail (chroma : Option Nat) : List Syn := [
  .flag "transform_8x8_mode_flag", .flag "pic_scaling_matrix_present_flag",
  .cond (fun t => t.get "pic_scaling_matrix_present_flag" = 1) [
    .abort (fun _ => chroma.isNone),
    .rep 12 (nrLists (chroma.getD 0)) [
      .flag "scaling_list_present",
      .cond (fun t => t.get "scaling_list_present" = 1) [
        .rep 64 AvcSps.listSize [.cond AvcSps.needDelta [.se "delta_scale"]]]]],
  .se "second_chroma_qp_index_offset"]

/-- the `spsMap[pps.SeqParameterSetID]` lookup: the key is `uint32(seq_parameter_set_id)` -/
def lookupChroma (spsMap : List (Nat × Nat)) (t : Trace) : Option Nat :=
  (spsMap.find? (fun kv => kv.1 = t.nat "seq_parameter_set_id" % 2 ^ 32)).map (·.2)

inductive Result
  | fuel                      -- not enough fuel (never with `fuel`: `pps_total`)
  | err                       -- the parser returns an error
  | ok (t : Trace) (more : Bool)
deriving Repr, DecidableEq

def capOf (nalu : Bytes) : Nat := 8 * nalu.length + 8

/-- driver fuel (any value ≥ `fuelNeedL` gives the same answer: `parse_fuel_mono`) -/
def fuel (nalu : Bytes) : Nat := 64 * (nalu.length + 8) + 8192

/-- `ParsePPSNALUnit` on a seekable reader -/
def parsePps (f : Nat) (spsMap : List (Nat × Nat)) (nalu : Bytes) : Result :=
  match parse f (pre (capOf nalu)) [] { rest := nalu } with
  | none => .fuel
  | some (t1, e1) =>
    if stopped t1 then .err else
    let (e2, more) := Sei.moreRbspData e1
    match (if more then parse f (tail (lookupChroma spsMap t1)) t1 e2 else some (t1, e2)) with
    | none => .fuel
    | some (t2, e3) =>
      if stopped t2 then .err else
      let (e4, te) := Sei.readTrailing e3
      if te ≠ .none ∨ e4.err then .err else .ok t2 more

/-- the independent serialiser of a PPS: prefix values, then (optionally) tail values, then rbsp trailing bits -/
def serializePps (f : Nat) (cap : Nat) (chroma : Option Nat) (tr1 : Trace) (tr2 : Option Trace) : Option Bytes :=
  match ops f (pre cap) [] tr1 with
  | some (os1, _, []) =>
    match tr2 with
    | none => some ((os1.foldl EW.writeOp {}).writeRbspTrailingBits).out
    | some tr2 =>
      match ops f (tail chroma) tr1 tr2 with
      | some (os2, _, []) => some (((os1 ++ os2).foldl EW.writeOp {}).writeRbspTrailingBits).out
      | _ => none
  | _ => none

end Mp4ff.AvcPps
