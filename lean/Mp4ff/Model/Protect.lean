/-!
M7b: the *box bookkeeping* of Common Encryption in mp4/crypto.go, at the level of box structure with sizes and
offsets (no payload bytes):

* `EncryptFragment`  — `encryptFrag`: saiz, saio, senc appended to the traf (`SaizBox.AddSampleInfo`,
  `SencBox.AddSample`, the offset walk that fills `saio.Offset[0]`);
* `Fragment.Encode` followed by decoding — `layout`: `SetTrunDataOffsets`, position of the mdat, the decoded state of
  a senc (start position, read size, "read but not parsed");
* `DecryptFragment` — `decryptFrag`: `ContainsSencBox`, the saio check of `ParseReadSenc`, `RemoveEncryptionBoxes`,
  `MoofBox.RemovePsshs`, the data offset / mdat position shift;
* `InitProtect` / `DecryptInit` / `RemoveEncryption` — `protectEntry`, `unprotectEntry`, `initProtect`, `decryptInit`.

Sizes are the Go `Size()` formulas of mp4/saiz.go, saio.go, senc.go, tenc.go, schm.go, frma.go, traf.go, moof.go.
`encryptAll` is the same per-traf step applied to every traf of a multi-track fragment (the library function itself
refuses more than one traf); the library function is `encryptFrag`.
-/
namespace Mp4ff.Protect

inductive Scheme
  | cenc
  | cbcs
deriving DecidableEq, Repr

/-- length of the IV stored per sample in senc: `EncryptFragment` always works with a 16-byte IV (8-byte IVs are
    zero-extended) and stores none for cbcs (constant IV in tenc) -/
def Scheme.ivLen : Scheme → Nat
  | .cenc => 16
  | .cbcs => 0

def Scheme.name : Scheme → String
  | .cenc => "cenc"
  | .cbcs => "cbcs"

/-! ## boxes of a track fragment -/

structure Trun where
  size : Nat
  dataOffset : Int
  /-- `writeOrderNr` (0 after decoding) -/
  writeOrder : Nat
  sampleSizes : List Nat
deriving DecidableEq, Repr

/-- `TrunBox.SizeOfData` -/
def Trun.dataSize (r : Trun) : Nat := r.sampleSizes.sum

structure Saiz where
  /-- flags & 1: aux_info_type present -/
  auxType : Bool := false
  defaultSize : Nat := 0
  sampleCount : Nat := 0
  info : List Nat := []
deriving DecidableEq, Repr

/-- `SaizBox.expectedSize` -/
def Saiz.size (b : Saiz) : Nat :=
  17 + (if b.auxType then 8 else 0) + (if b.defaultSize = 0 then b.sampleCount else 0)

structure Saio where
  version : Nat := 0
  auxType : Bool := false
  offsets : List Int := []
deriving DecidableEq, Repr

/-- `SaioBox.expectedSize` -/
def Saio.size (b : Saio) : Nat :=
  16 + (if b.auxType then 8 else 0) + (if b.version = 0 then 4 else 8) * b.offsets.length

structure Senc where
  /-- flags & UseSubSampleEncryption -/
  subFlag : Bool := false
  /-- `perSampleIVSize` -/
  ivSize : Nat := 0
  sampleCount : Nat := 0
  /-- `len(SubSamples[i])` of the stored entries -/
  subs : List Nat := []
  /-- `readBoxSize` (0 for a box built in memory) -/
  readSize : Nat := 0
  /-- `!readButNotParsed` -/
  parsed : Bool := true
  /-- `StartPos` (absolute, set by the decoder) -/
  startPos : Nat := 0
deriving DecidableEq, Repr

/-- `SencBox.calcSize` in closed form (one `SubSamples` entry per sample when the flag is set; the Go loop indexes
    out of range otherwise — `Lemmas.Protect.sencLoop_eq` relates the loop to this form) -/
def Senc.calcSize (s : Senc) : Nat :=
  16 + s.sampleCount * s.ivSize + (if s.subFlag then (s.subs.map fun n => 2 + 6 * n).sum else 0)

/-- `SencBox.Size` -/
def Senc.size (s : Senc) : Nat := if s.readSize > 0 then s.readSize else s.calcSize

inductive TrafChild
  | other (kind : String) (size : Nat)
  | trun (r : Trun)
  | saiz (b : Saiz)
  | saio (b : Saio)
  | senc (b : Senc)
  /-- PIFF uuid box of sub-type senc: size, parsed, start position of the embedded senc (box start + 16) -/
  | uuidSenc (size : Nat) (parsed : Bool) (startPos : Nat)
deriving DecidableEq, Repr

def TrafChild.size : TrafChild → Nat
  | .other _ n => n
  | .trun r => r.size
  | .saiz b => b.size
  | .saio b => b.size
  | .senc b => b.size
  | .uuidSenc n _ _ => n

/-- the boxes `TrafBox.RemoveEncryptionBoxes` removes -/
def TrafChild.isProt : TrafChild → Bool
  | .saiz _ | .saio _ | .senc _ | .uuidSenc _ _ _ => true
  | _ => false

def sizes (l : List TrafChild) : Nat := (l.map TrafChild.size).sum

structure Traf where
  /-- `Tfhd.TrackID` -/
  trackID : Nat
  children : List TrafChild
deriving DecidableEq, Repr

/-- `containerSize` -/
def Traf.size (t : Traf) : Nat := 8 + sizes t.children

def trunsOf : List TrafChild → List Trun
  | [] => []
  | .trun r :: rest => r :: trunsOf rest
  | _ :: rest => trunsOf rest

def Traf.truns (t : Traf) : List Trun := trunsOf t.children

inductive MoofChild
  | other (kind : String) (size : Nat)
  | pssh (size : Nat)
  | traf (t : Traf)
deriving DecidableEq, Repr

def MoofChild.size : MoofChild → Nat
  | .other _ n => n
  | .pssh n => n
  | .traf t => t.size

def msizes (l : List MoofChild) : Nat := (l.map MoofChild.size).sum

structure Frag where
  /-- `Moof.StartPos` -/
  moofStart : Nat
  children : List MoofChild
  /-- `Mdat.StartPos` -/
  mdatStart : Nat
  /-- `Mdat.HeaderSize()` (8, or 16 with largesize) -/
  mdatHdr : Nat
deriving DecidableEq, Repr

def Frag.moofSize (f : Frag) : Nat := 8 + msizes f.children

def trafsOf : List MoofChild → List Traf
  | [] => []
  | .traf t :: rest => t :: trafsOf rest
  | _ :: rest => trafsOf rest

def Frag.trafs (f : Frag) : List Traf := trafsOf f.children

def allTrunsOf (l : List MoofChild) : List Trun := (trafsOf l).flatMap Traf.truns

def Frag.allTruns (f : Frag) : List Trun := allTrunsOf f.children

/-- byte position inside the mdat payload that a trun's data offset addresses (`offsetInMdat` of
    `Fragment.GetFullSamples` with the moof as base) -/
def Frag.payloadPos (f : Frag) (r : Trun) : Int :=
  ((f.moofStart : Int) + r.dataOffset) - ((f.mdatStart : Int) + (f.mdatHdr : Int))

def mapTrunsC (g : Trun → Trun) : List TrafChild → List TrafChild
  | [] => []
  | .trun r :: rest => .trun (g r) :: mapTrunsC g rest
  | c :: rest => c :: mapTrunsC g rest

def mapTrafs (g : Traf → Traf) : List MoofChild → List MoofChild
  | [] => []
  | .traf t :: rest => .traf (g t) :: mapTrafs g rest
  | c :: rest => c :: mapTrafs g rest

def mapTruns (g : Trun → Trun) (l : List MoofChild) : List MoofChild :=
  mapTrafs (fun t => { t with children := mapTrunsC g t.children }) l

/-- no protection signalling among a traf's children -/
def clearT (l : List TrafChild) : Bool := l.all fun c => !c.isProt

/-- a clear fragment: no pssh in the moof, no saiz / saio / senc / PIFF senc in any traf -/
def clearM : List MoofChild → Bool
  | [] => true
  | .pssh _ :: _ => false
  | .traf t :: rest => clearT t.children && clearM rest
  | _ :: rest => clearM rest

def Frag.Clear (f : Frag) : Prop := clearM f.children = true

/-! ## EncryptFragment -/

/-- size of one sample's auxiliary information: IV plus, when sub-samples are used, a 16-bit count and 6 bytes per entry -/
def sampleInfoSize (ivLen nsub : Nat) : Nat := ivLen + (if nsub > 0 then 2 + 6 * nsub else 0)

/-- `SaizBox.AddSampleInfo` (`none` = panic "inconsistent sample info size"); sizes are stored in one byte -/
def Saiz.addSampleInfo (b : Saiz) (ivLen nsub : Nat) : Option Saiz :=
  let size := sampleInfoSize ivLen nsub
  let b1 : Option Saiz :=
    if nsub > 0 then some { b with info := b.info ++ [size % 256] }
    else if size > 0 then
      if b.defaultSize = 0 then some { b with defaultSize := size % 256 }
      else if size % 256 ≠ b.defaultSize then none else some b
    else some b
  b1.map fun b => if size > 0 then { b with sampleCount := b.sampleCount + 1 } else b

/-- `SencBox.AddSample` (its "mix of IV lengths" error is ignored by `EncryptFragment`: the box is left unchanged) -/
def Senc.addSample (s : Senc) (ivLen nsub : Nat) : Senc :=
  if ivLen ≠ 0 ∧ s.sampleCount ≠ 0 ∧ ivLen ≠ s.ivSize then s
  else
    let s1 := if ivLen ≠ 0 ∧ s.sampleCount = 0 then { s with ivSize := ivLen } else s
    let s2 := if nsub > 0 then { s1 with subs := s1.subs ++ [nsub], subFlag := true } else s1
    { s2 with sampleCount := s2.sampleCount + 1 }

/-- the per-sample loop of `EncryptFragment` on the two boxes: `subs` = number of sub-sample entries the protect-range
    function returns for each sample -/
def buildAux (ivLen : Nat) : List Nat → Saiz → Senc → Option (Saiz × Senc)
  | [], a, s => some (a, s)
  | n :: rest, a, s =>
    match a.addSampleInfo ivLen n with
    | none => none
    | some a' => buildAux ivLen rest a' (s.addSample ivLen n)

/-- what `EncryptFragment` refuses before touching anything: a sample whose auxiliary information does not fit the
    one-byte saiz entry, and a mix of samples with and without sub-sample entries (the senc/saiz pair cannot express it) -/
def subsOk (ivLen : Nat) (subs : List Nat) : Bool :=
  subs.all (fun n => decide (sampleInfoSize ivLen n ≤ 255)) && (subs.all (fun n => decide (n > 0)) || subs.all (fun n => decide (n = 0)))

def auxBoxes (sc : Scheme) (subs : List Nat) : Option (Saiz × Senc) :=
  if subsOk sc.ivLen subs then buildAux sc.ivLen subs {} {} else none

/-- the walk over one traf's children in the saio offset computation: running offset, last senc data position seen -/
def sencWalk : List TrafChild → Nat → Nat → Nat
  | [], _, acc => acc
  | c :: rest, off, acc =>
    sencWalk rest (off + c.size) (match c with | .senc _ => off + 16 | _ => acc)

/-- the offset walk of `EncryptFragment` (stops after the first traf) -/
def sencDataOffset : List MoofChild → Nat → Nat
  | [], _ => 0
  | .traf t :: _, off => sencWalk t.children (off + 8) 0
  | c :: rest, off => sencDataOffset rest (off + c.size)

def addProt (a : Saiz) (o : Int) (s : Senc) (t : Traf) : Traf :=
  { t with children := t.children ++ [.saiz a, .saio { offsets := [o] }, .senc s] }

/-- `EncryptFragment` (structure only). `subs`: sub-sample entry count per sample. `none` = error. -/
def encryptFrag (sc : Scheme) (subs : List Nat) (f : Frag) : Option Frag :=
  match f.trafs with
  | [t] =>
    match t.truns with
    | [r] =>
      if subs.length ≠ r.sampleSizes.length then none else
      match auxBoxes sc subs with
      | none => none
      | some (a, s) =>
        let off := sencDataOffset (mapTrafs (addProt a (-1) s) f.children) 8
        some { f with children := mapTrafs (addProt a off s) f.children }
    | _ => none
  | _ => none

/-- `EncryptFragment` as its caller sees it, with the length of the IV passed in: an 8-byte IV is zero-extended to 16
    bytes before anything else is looked at — the size check of `subsOk` and the boxes written both use the 16-byte
    IV — and any length other than 8 or 16 is refused -/
def encryptFragIV (ivLen : Nat) (sc : Scheme) (subs : List Nat) (f : Frag) : Option Frag :=
  if ivLen = 8 ∨ ivLen = 16 then encryptFrag sc subs f else none

/-- the same step for every traf that has parameters (by track ID), saio offsets by position -/
def encChildren (ps : Nat → Option (Scheme × List Nat)) : List MoofChild → Nat → Option (List MoofChild)
  | [], _ => some []
  | .traf t :: rest, off =>
    match ps t.trackID with
    | none => (encChildren ps rest (off + t.size)).map (.traf t :: ·)
    | some (sc, subs) =>
      match t.truns with
      | [r] =>
        if subs.length ≠ r.sampleSizes.length then none else
        match auxBoxes sc subs with
        | none => none
        | some (a, s) =>
          let t' := addProt a ((off + 8 + sizes t.children + a.size + 20 + 16 : Nat) : Int) s t
          (encChildren ps rest (off + t'.size)).map (.traf t' :: ·)
      | _ => none
  | c :: rest, off => (encChildren ps rest (off + c.size)).map (c :: ·)

def encryptAll (ps : Nat → Option (Scheme × List Nat)) (f : Frag) : Option Frag :=
  (encChildren ps f.children 8).map fun ch => { f with children := ch }

/-! ## Encode + decode -/

/-- several truns, none with a write order: `Fragment.SetTrunDataOffsets` leaves the data offsets alone -/
def offsetsUnmanaged (ts : List Trun) : Bool :=
  ts.all (fun r => decide (r.writeOrder = 0)) && decide (ts.length > 1)

/-- what writing and decoding does to a trun: `Fragment.SetTrunDataOffsets` gives every trun moof size + mdat header +
    the data of the truns written before it (sort by write order, numbers distinct), unless the offsets are unmanaged;
    a decoded trun has no write order -/
def trunLayout (moofSize mdatHdr : Nat) (ts : List Trun) (r : Trun) : Trun :=
  { r with
    dataOffset :=
      if offsetsUnmanaged ts then r.dataOffset
      else ((moofSize + mdatHdr + ((ts.filter fun u => decide (u.writeOrder < r.writeOrder)).map Trun.dataSize).sum : Nat) : Int)
    writeOrder := 0 }

/-- what the decoder records per box: position and read size of a senc, which is parsed at once only when it has no
    sample or no payload; a saiz with a default size has no table -/
def placeTrafChildren : List TrafChild → Nat → List TrafChild
  | [], _ => []
  | c :: rest, pos =>
    (match c with
      | .senc s => .senc { s with startPos := pos, readSize := s.size, parsed := decide (s.sampleCount = 0 ∨ s.size = 16) }
      | .uuidSenc n p _ => .uuidSenc n p (pos + 16)
      | .saiz a => .saiz { a with info := if a.defaultSize = 0 then a.info else [] }
      | c => c) :: placeTrafChildren rest (pos + c.size)

def placeChildren : List MoofChild → Nat → List MoofChild
  | [], _ => []
  | .traf t :: rest, pos =>
    .traf { t with children := placeTrafChildren t.children (pos + 8) } :: placeChildren rest (pos + t.size)
  | c :: rest, pos => c :: placeChildren rest (pos + c.size)

/-! ## DecryptFragment -/

/-- per track: `none` = no sinf (clear track); else scheme type and tenc default per-sample IV size -/
abbrev DecInfo := List (Nat × Option (String × Nat))

/-- `DecryptInfo.findTrackInfo` -/
def findTrack : DecInfo → Nat → Option (String × Nat)
  | [], _ => none
  | (id, x) :: rest, k => if id = k then x else findTrack rest k

/-- `TrafBox.ContainsSencBox`: first senc / PIFF senc child; result = parsed -/
def containsSenc : List TrafChild → Option Bool
  | [] => none
  | .senc s :: _ => some s.parsed
  | .uuidSenc _ p _ :: _ => some p
  | _ :: rest => containsSenc rest

/-- `t.Senc`: the last senc child -/
def lastSenc : List TrafChild → Option Senc
  | [] => none
  | c :: rest =>
    match lastSenc rest with
    | some s => some s
    | none => match c with | .senc s => some s | _ => none

/-- `t.UUIDSenc`: the last PIFF senc child (parsed, start position of the embedded senc) -/
def lastUuidSenc : List TrafChild → Option (Bool × Nat)
  | [] => none
  | c :: rest =>
    match lastUuidSenc rest with
    | some p => some p
    | none => match c with | .uuidSenc _ p sp => some (p, sp) | _ => none

def lastSaio : List TrafChild → Option Saio
  | [] => none
  | c :: rest =>
    match lastSaio rest with
    | some b => some b
    | none => match c with | .saio b => some b | _ => none

/-- the saio check of `TrafBox.ParseReadSenc`: the first saio offset, taken from the moof start, must be 16 bytes into
    the senc box that starts at `sp` -/
def saioOk (l : List TrafChild) (moofStart sp : Nat) : Bool :=
  match lastSaio l with
  | some b => (match b.offsets with | o :: _ => decide (o + (moofStart : Int) = ((sp + 16 : Nat) : Int)) | [] => true)
  | none => true

/-- `TrafBox.ParseReadSenc` succeeds: there is a senc (or else a PIFF senc), the saio check passes, and the box has not
    been parsed before (`ParseReadBox`: "senc box already parsed").  The parse of the senc payload itself is not
    modelled: assumed to succeed for the per-sample IV size given. -/
def parseReadSencOk (l : List TrafChild) (moofStart : Nat) : Bool :=
  match lastSenc l with
  | some s => saioOk l moofStart s.startPos && !s.parsed
  | none =>
    match lastUuidSenc l with
    | some (p, sp) => saioOk l moofStart sp && !p
    | none => false

/-- `TrafBox.RemoveEncryptionBoxes`: remaining children, bytes removed -/
def removeProt (l : List TrafChild) : List TrafChild := l.filter fun c => !c.isProt
def removedBytes (l : List TrafChild) : Nat := sizes (l.filter TrafChild.isProt)

def decryptTraf (di : DecInfo) (moofStart : Nat) (t : Traf) : Option (Traf × Nat) :=
  match findTrack di t.trackID with
  | none => some (t, 0)
  | some (scheme, _) =>
    if scheme ≠ "cenc" ∧ scheme ≠ "cbcs" then none else
    match containsSenc t.children with
    | none => none
    | some parsed =>
      if !parsed && !parseReadSencOk t.children moofStart then none
      else some ({ t with children := removeProt t.children }, removedBytes t.children)

def decryptTrafs (di : DecInfo) (moofStart : Nat) : List MoofChild → Option (List MoofChild × Nat)
  | [] => some ([], 0)
  | .traf t :: rest =>
    match decryptTraf di moofStart t with
    | none => none
    | some (t', n) =>
      match decryptTrafs di moofStart rest with
      | none => none
      | some (r, m) => some (.traf t' :: r, n + m)
  | c :: rest =>
    match decryptTrafs di moofStart rest with
    | none => none
    | some (r, m) => some (c :: r, m)

def MoofChild.isPssh : MoofChild → Bool
  | .pssh _ => true
  | _ => false

def shiftTrun (n : Nat) (r : Trun) : Trun := { r with dataOffset := r.dataOffset - (n : Int) }

/-- `DecryptFragment` (structure only): `none` = error -/
def decryptFrag (di : DecInfo) (f : Frag) : Option Frag :=
  match decryptTrafs di f.moofStart f.children with
  | none => none
  | some (ch, n) =>
    let removed := n + msizes (ch.filter MoofChild.isPssh)
    some { f with
      children := mapTruns (shiftTrun removed) (ch.filter fun c => !c.isPssh)
      mdatStart := if f.mdatStart > f.moofStart then (f.mdatStart + 2 ^ 64 - removed % 2 ^ 64) % 2 ^ 64 else f.mdatStart }

/-! ## Encode + DecodeFile -/

/-- marks the last senc child as parsed -/
def markSenc : List TrafChild → List TrafChild × Bool
  | [] => ([], false)
  | c :: rest =>
    match markSenc rest with
    | (r, true) => (c :: r, true)
    | (r, false) => match c with | .senc s => (.senc { s with parsed := true } :: r, true) | c => (c :: r, false)

def markUuidSenc : List TrafChild → List TrafChild × Bool
  | [] => ([], false)
  | c :: rest =>
    match markUuidSenc rest with
    | (r, true) => (c :: r, true)
    | (r, false) => match c with | .uuidSenc n _ sp => (.uuidSenc n true sp :: r, true) | c => (c :: r, false)

def markParsed (l : List TrafChild) : List TrafChild :=
  match markSenc l with
  | (r, true) => r
  | (_, false) => (markUuidSenc l).1

/-- the moof case of `DecodeFile`: a senc that has been read but not parsed is parsed at once (no init segment, or one
    that marks the track as protected); a failing saio check makes the decoder fail -/
def decodeTrafs (moofStart : Nat) : List MoofChild → Option (List MoofChild)
  | [] => some []
  | .traf t :: rest =>
    match containsSenc t.children with
    | some false =>
      if parseReadSencOk t.children moofStart then
        (decodeTrafs moofStart rest).map (.traf { t with children := markParsed t.children } :: ·)
      else none
    | _ => (decodeTrafs moofStart rest).map (.traf t :: ·)
  | c :: rest => (decodeTrafs moofStart rest).map (c :: ·)

/-- the in-memory structure after `Fragment.Encode` and `DecodeFile` of the bytes (moof directly followed by mdat):
    data offsets set by the writer, positions assigned and senc boxes parsed by the decoder. `none` = decode error. -/
def layout (f : Frag) : Option Frag :=
  (decodeTrafs f.moofStart (placeChildren f.children (f.moofStart + 8))).map fun ch =>
    { f with children := mapTruns (trunLayout f.moofSize f.mdatHdr f.allTruns) ch, mdatStart := f.moofStart + f.moofSize }

/-! ## init segment: sample entries -/

inductive EntryClass
  | visual
  | audio
  | other
deriving DecidableEq, Repr

structure Sinf where
  /-- frma data_format -/
  frma : String
  /-- schm scheme_type -/
  scheme : String
  /-- tenc default_Per_Sample_IV_Size -/
  ivSize : Nat
  /-- length of the tenc constant IV (used when ivSize = 0) -/
  constIVLen : Nat
deriving DecidableEq, Repr

/-- `TencBox.Size` (default_isProtected = 1) -/
def Sinf.tencSize (s : Sinf) : Nat := 32 + (if s.ivSize = 0 then 1 + s.constIVLen else 0)

/-- sinf = header + frma (12) + schm (20, no URI) + schi (header + tenc) -/
def Sinf.size (s : Sinf) : Nat := 8 + 12 + 20 + (8 + s.tencSize)

inductive EntryChild
  | other (kind : String) (size : Nat)
  | sinf (s : Sinf)
deriving DecidableEq, Repr

def EntryChild.size : EntryChild → Nat
  | .other _ n => n
  | .sinf s => s.size

structure SampleEntry where
  cls : EntryClass
  kind : String
  children : List EntryChild
deriving DecidableEq, Repr

/-- bytes before the children: 8 + 78 (visual), 36 (audio) -/
def EntryClass.fixed : EntryClass → Nat
  | .visual => 86
  | .audio => 36
  | .other => 8

def SampleEntry.size (e : SampleEntry) : Nat := e.cls.fixed + (e.children.map EntryChild.size).sum

def schemeSinf (sc : Scheme) (orig : String) : Sinf :=
  match sc with
  | .cenc => { frma := orig, scheme := "cenc", ivSize := 16, constIVLen := 0 }
  | .cbcs => { frma := orig, scheme := "cbcs", ivSize := 0, constIVLen := 16 }

/-- the sample entry part of `InitProtect`: type becomes encv/enca, a sinf(frma, schm, schi(tenc)) is appended -/
def protectEntry (sc : Scheme) (e : SampleEntry) : Option SampleEntry :=
  match e.cls with
  | .visual =>
    if e.kind = "avc1" ∨ e.kind = "avc3" ∨ e.kind = "hvc1" ∨ e.kind = "hev1" then
      some { e with kind := "encv", children := e.children ++ [.sinf (schemeSinf sc e.kind)] }
    else none
  | .audio => some { e with kind := "enca", children := e.children ++ [.sinf (schemeSinf sc e.kind)] }
  | .other => none

/-- the `Sinf` field of the entry: the last sinf child -/
def lastSinf : List EntryChild → Option Sinf
  | [] => none
  | c :: rest =>
    match lastSinf rest with
    | some s => some s
    | none => match c with | .sinf s => some s | _ => none

/-- removal of the first sinf child -/
def dropFirstSinf : List EntryChild → List EntryChild
  | [] => []
  | .sinf _ :: rest => rest
  | c :: rest => c :: dropFirstSinf rest

/-- `RemoveEncryption` of a visual / audio sample entry -/
def unprotectEntry (e : SampleEntry) : Option (SampleEntry × Sinf) :=
  if (e.cls = .visual ∧ e.kind = "encv") ∨ (e.cls = .audio ∧ e.kind = "enca") then
    match lastSinf e.children with
    | none => none
    | some s => some ({ e with kind := s.frma, children := dropFirstSinf e.children }, s)
  else none

structure Trak where
  trackID : Nat
  entries : List SampleEntry
deriving DecidableEq, Repr

inductive MoovChild
  | other (kind : String) (size : Nat)
  | pssh (size : Nat)
  | trak (t : Trak)
deriving DecidableEq, Repr

def MoovChild.isPssh : MoovChild → Bool
  | .pssh _ => true
  | _ => false

def traksOf : List MoovChild → List Trak
  | [] => []
  | .trak t :: rest => t :: traksOf rest
  | _ :: rest => traksOf rest

def mapTraks (g : Trak → Trak) : List MoovChild → List MoovChild
  | [] => []
  | .trak t :: rest => .trak (g t) :: mapTraks g rest
  | c :: rest => c :: mapTraks g rest

/-- `InitProtect` on the moov: exactly one trak with one sample entry; pssh boxes appended to the moov -/
def initProtect (sc : Scheme) (psshSizes : List Nat) (moov : List MoovChild) : Option (List MoovChild) :=
  match traksOf moov with
  | [t] =>
    match t.entries with
    | [e] =>
      match protectEntry sc e with
      | none => none
      | some e' => some (mapTraks (fun t => { t with entries := [e'] }) moov ++ psshSizes.map MoovChild.pssh)
    | _ => none
  | _ => none

/-- one trak of `DecryptInit`: every encv/enca entry is unprotected; track infos as appended by the loop -/
def decryptEntries : List SampleEntry → Option (List SampleEntry × List (String × Nat))
  | [] => some ([], [])
  | e :: rest =>
    if e.kind = "encv" ∨ e.kind = "enca" then
      match unprotectEntry e with
      | none => none
      | some (e', s) =>
        match decryptEntries rest with
        | none => none
        | some (es, infos) => some (e' :: es, (s.scheme, s.ivSize) :: infos)
    else
      match decryptEntries rest with
      | none => none
      | some (es, infos) => some (e :: es, infos)

def decryptTraks : List MoovChild → Option (List MoovChild × DecInfo)
  | [] => some ([], [])
  | .trak t :: rest =>
    match decryptEntries t.entries with
    | none => none
    | some (es, infos) =>
      -- the scheme type remembered is the one of the last protected entry
      let last := (infos.getLast?.map (·.1)).getD ""
      if last ≠ "" ∧ last ≠ "cenc" ∧ last ≠ "cbcs" then none else
      match decryptTraks rest with
      | none => none
      | some (r, di) =>
        let mine : DecInfo := infos.map (fun i => (t.trackID, some i)) ++ (if last = "" then [(t.trackID, none)] else [])
        some (.trak { t with entries := es } :: r, mine ++ di)
  | c :: rest =>
    match decryptTraks rest with
    | none => none
    | some (r, di) => some (c :: r, di)

/-- `DecryptInit` on the moov: sample entries restored, pssh boxes removed, decrypt info per track -/
def decryptInit (moov : List MoovChild) : Option (List MoovChild × DecInfo) :=
  match decryptTraks moov with
  | none => none
  | some (ch, di) => some (ch.filter (fun c => !c.isPssh), di)

/-! ## DecryptInit: the trex box of every track

`DecryptInit` ends with a loop over the trex boxes of mvex (in file order): each goes to the first track info with the
same track ID.  `DecryptFragment` reads the samples of a traf through that box (`GetFullSamples` selects the traf by the
trex box's track ID and takes default duration / size / flags from it), so a track must get the box of its own ID whatever
the order of the trex boxes.  A trex box is (track ID, tag); the driver uses the position in mvex as tag. -/

/-- one round of the loop: the trex box `tag` of track `tid` goes to the first track info with that track ID (`break`) -/
def assignTrex (tid tag : Nat) : List (Nat × Option Nat) → List (Nat × Option Nat)
  | [] => []
  | (id, x) :: rest => if id = tid then (id, some tag) :: rest else (id, x) :: assignTrex tid tag rest

/-- the loop over `moov.Mvex.Trexs`: `ids` = track IDs of the track infos in `DecryptInfo` order -/
def pairTrexs (ids : List Nat) (trexs : List (Nat × Nat)) : List (Nat × Option Nat) :=
  trexs.foldl (fun acc t => assignTrex t.1 t.2 acc) (ids.map fun id => (id, none))

/-- lookup by track ID, the last box with that ID winning: what `pairTrexs` computes for distinct track IDs
    (`Lemmas/ProtectTrex.lean`) -/
def trexOf : List (Nat × Nat) → Nat → Option Nat
  | [], _ => none
  | (tid, tag) :: rest, id =>
    match trexOf rest id with
    | some t => some t
    | none => if id = tid then some tag else none

/-- trex boxes numbered by their position in mvex (from `n`) -/
def numbered : Nat → List Nat → List (Nat × Nat)
  | _, [] => []
  | n, id :: rest => (id, n) :: numbered (n + 1) rest

/-- `DecryptInit`, the trex side: per track info (in `DecryptInfo` order) the track ID and the position (from 1) of the
    trex box it is given; `trexIDs` = track IDs of the trex boxes in mvex order -/
def decryptInitTrex (moov : List MoovChild) (trexIDs : List Nat) : Option (List (Nat × Option Nat)) :=
  match decryptInit moov with
  | none => none
  | some (_, di) => some (pairTrexs (di.map (·.1)) (numbered 1 trexIDs))

end Mp4ff.Protect
