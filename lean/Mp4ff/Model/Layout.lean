import Mp4ff.Model.Basic
/-!
M3: the box-payload **layout DSL**.  A layout is a list of syntax elements over earlier values
(fixed-width big-endian fields, raw bytes, reserved bytes written as a constant, zero-terminated strings,
"all remaining bytes", optional groups guarded by earlier fields (version/flags), repeated groups counted by
an earlier field); `decode`, `encode`, `size` and the set of don't-care byte positions are generic.

A value is a *trace*: the list of (field name, value) in syntax order — exactly the information the Go
struct exposes.  Reserved fields carry no information: the decoder drops them, the encoder writes the
constant.  Signed integers are kept as their two's-complement unsigned value.
-/
namespace Mp4ff.Layout

inductive Val where
  | n (v : Nat)
  | b (bs : Bytes)
deriving Repr, DecidableEq, Inhabited

abbrev Trace := List (String × Val)

def Trace.nat (t : Trace) (name : String) : Nat :=
  match t.reverse.find? (·.1 == name) with
  | some (_, .n v) => v
  | _ => 0

def Trace.bytesLen (t : Trace) (name : String) : Nat :=
  match t.reverse.find? (·.1 == name) with
  | some (_, .b bs) => bs.length
  | _ => 0

/-- primitive fields -/
inductive Fld where
  | u (w : Nat)                    -- unsigned big endian, w bytes
  | raw (n : Nat)                  -- n raw bytes, exposed
  | rsv (fill : Bytes)             -- reserved / pre_defined / template: not exposed, written as `fill`
  | cstr                           -- zero-terminated string (value without the terminator)
  | rest                           -- all remaining bytes of the payload
  | udyn (w : Trace → Nat)         -- unsigned, width (bytes) from earlier fields
  | rawdyn (n : Trace → Nat)       -- raw bytes, length from earlier fields

inductive Syn where
  | fld (name : String) (f : Fld)
  | cond (p : Trace → Bool) (body : List Syn)
  | rep (count : Trace → Nat) (body : List Syn)

/-- split off the bytes before the first 0 -/
def splitZero : Bytes → Option (Bytes × Bytes)
  | [] => none
  | b :: bs => if b = 0 then some ([], bs) else (splitZero bs).map fun (a, r) => (b :: a, r)

def decFld (f : Fld) (acc : Trace) (bs : Bytes) : Option (Val × Bytes) :=
  match f with
  | .u w => if bs.length < w then none else some (.n (beVal (bs.take w)), bs.drop w)
  | .raw n => if bs.length < n then none else some (.b (bs.take n), bs.drop n)
  | .rsv fill => if bs.length < fill.length then none else some (.n 0, bs.drop fill.length)
  | .cstr => (splitZero bs).map fun (a, r) => (.b a, r)
  | .rest => some (.b bs, [])
  | .udyn w => if bs.length < w acc then none else some (.n (beVal (bs.take (w acc))), bs.drop (w acc))
  | .rawdyn n => if bs.length < n acc then none else some (.b (bs.take (n acc)), bs.drop (n acc))

def encFld (f : Fld) (acc : Trace) (v : Val) : Option Bytes :=
  match f, v with
  | .u w, .n x => some (beBytes w x)
  | .raw n, .b bs => if bs.length = n then some bs else none
  | .rsv fill, _ => some fill
  | .cstr, .b bs => some (bs ++ [0])
  | .rest, .b bs => some bs
  | .udyn w, .n x => some (beBytes (w acc) x)
  | .rawdyn n, .b bs => if bs.length = n acc then some bs else none
  | _, _ => none

/-- decode a layout: accumulated trace `acc`, remaining payload bytes -/
def decode : Nat → List Syn → Trace → Bytes → Option (Trace × Bytes)
  | 0, _, _, _ => none
  | _ + 1, [], acc, bs => some (acc, bs)
  | f + 1, .fld nm fl :: rest, acc, bs =>
    match decFld fl acc bs with
    | some (v, bs') => decode f rest (acc ++ [(nm, v)]) bs'
    | none => none
  | f + 1, .cond p body :: rest, acc, bs =>
    if p acc then
      match decode f body acc bs with
      | some (a1, bs1) => decode f rest a1 bs1
      | none => none
    else decode f rest acc bs
  | f + 1, .rep cnt body :: rest, acc, bs =>
    match cnt acc with
    | 0 => decode f rest acc bs
    | n + 1 =>
      match decode f body acc bs with
      | some (a1, bs1) => decode f (.rep (fun _ => n) body :: rest) a1 bs1
      | none => none

/-- encode: consumes the values of `src` in order -/
def encode : Nat → List Syn → Trace → Trace → Option (Bytes × Trace × Trace)
  | 0, _, _, _ => none
  | _ + 1, [], acc, src => some ([], acc, src)
  | f + 1, .fld nm fl :: rest, acc, src =>
    match src with
    | [] => none
    | (nm', v) :: src' =>
      if nm' = nm then
        match encFld fl acc v, encode f rest (acc ++ [(nm, v)]) src' with
        | some b, some (bs, a, s) => some (b ++ bs, a, s)
        | _, _ => none
      else none
  | f + 1, .cond p body :: rest, acc, src =>
    if p acc then
      match encode f body acc src with
      | some (b1, a1, s1) =>
        match encode f rest a1 s1 with
        | some (b2, a2, s2) => some (b1 ++ b2, a2, s2)
        | none => none
      | none => none
    else encode f rest acc src
  | f + 1, .rep cnt body :: rest, acc, src =>
    match cnt acc with
    | 0 => encode f rest acc src
    | n + 1 =>
      match encode f body acc src with
      | some (b1, a1, s1) =>
        match encode f (.rep (fun _ => n) body :: rest) a1 s1 with
        | some (b2, a2, s2) => some (b1 ++ b2, a2, s2)
        | none => none
      | none => none

/-- don't-care byte positions (relative to the start of the decoded bytes) met while decoding -/
def dontCare : Nat → List Syn → Trace → Bytes → Nat → Option (List Nat × Trace × Bytes × Nat)
  | 0, _, _, _, _ => none
  | _ + 1, [], acc, bs, pos => some ([], acc, bs, pos)
  | f + 1, .fld nm fl :: rest, acc, bs, pos =>
    match decFld fl acc bs with
    | some (v, bs') =>
      let used := bs.length - bs'.length
      let here := match fl with
        | .rsv _ => List.range' pos used
        | _ => []
      (dontCare f rest (acc ++ [(nm, v)]) bs' (pos + used)).map fun (l, a, b, p) => (here ++ l, a, b, p)
    | none => none
  | f + 1, .cond p body :: rest, acc, bs, pos =>
    if p acc then
      match dontCare f body acc bs pos with
      | some (l1, a1, bs1, p1) => (dontCare f rest a1 bs1 p1).map fun (l, a, b, p) => (l1 ++ l, a, b, p)
      | none => none
    else dontCare f rest acc bs pos
  | f + 1, .rep cnt body :: rest, acc, bs, pos =>
    match cnt acc with
    | 0 => dontCare f rest acc bs pos
    | n + 1 =>
      match dontCare f body acc bs pos with
      | some (l1, a1, bs1, p1) =>
        (dontCare f (.rep (fun _ => n) body :: rest) a1 bs1 p1).map fun (l, a, b, p) => (l1 ++ l, a, b, p)
      | none => none

/-- fuel that suffices for a payload of `n` bytes under the layouts of M4 (every repeated group consumes at
    least one byte per iteration, except trun's empty per-sample group which the code bounds by 1024) -/
def fuelFor (L : List Syn) (n : Nat) : Nat := 4 * (n + 2) * (L.length + 4) + 2100

end Mp4ff.Layout
