import Mp4ff.Model.Layout
/-!
M4: layout terms for the hand-modelled boxes (transcribed from mp4/<box>.go: DecodeXxxSR / EncodeSW / Size), the box
header, and the single-box decode → encode round trip the correspondence drives.

`strict`  : the Go decoder checks `hdr.Size == expectedSize(...)` (otherwise trailing payload bytes are ignored and
            dropped on re-encoding);
`valid`   : extra conditions under which the Go decoder rejects;
`encOK`   : conditions under which the Go encoder refuses a decoded box.
-/
namespace Mp4ff.Boxes
open Mp4ff.Layout

def u (name : String) (w : Nat) : Syn := .fld name (.u w)
def raw (name : String) (n : Nat) : Syn := .fld name (.raw n)
def rsv (fill : Bytes) : Syn := .fld "_" (.rsv fill)
def zeros (n : Nat) : Syn := rsv (List.replicate n 0)
def full : List Syn := [u "version" 1, u "flags" 3]
def ver (t : Trace) : Nat := t.nat "version"
def flg (t : Trace) : Nat := t.nat "flags"
def hasFlag (bit : Nat) (t : Trace) : Bool := (flg t / bit) % 2 = 1

/-- the unity matrix written by `WriteUnityMatrix` -/
def unityMatrix : Bytes :=
  [0,1,0,0, 0,0,0,0, 0,0,0,0,  0,0,0,0, 0,1,0,0, 0,0,0,0,  0,0,0,0, 0,0,0,0, 0x40,0,0,0]

structure Spec where
  layout : List Syn
  strict : Bool := false
  exact : Bool := false      -- the payload must be consumed exactly, whatever the header length (frma)
  valid : Trace → Bool := fun _ => true
  encOK : Trace → Bool := fun _ => true

/-- stsc: `sample_description_index` 0 is rejected -/
def noZeroSdi (t : Trace) : Bool := t.all fun e => !(e.1 == "sdi" && e.2 == Val.n 0)

def cstr (name : String) : Syn := .fld name .cstr

/-- leva: the low 7 bits of the padding/assignment byte of the level being decoded (the byte itself is kept whole) -/
def assignmentType (t : Trace) : Nat := t.nat "padding_assignment_type" % 128

/-- dac3 (`decodeDac3FromData`): 3..258 payload bytes, all but the last three are zero; the last three carry
    fscod(2) bsid(5) bsmod(3) acmod(3) lfeon(1) bit_rate_code(5) reserved(5), every bit of which the decoder keeps and the
    encoder writes back, after `len - 3` zero bytes -/
def dac3OK (t : Trace) : Bool :=
  match t with
  | [(_, .b bs)] => decide (3 ≤ bs.length) && decide (bs.length ≤ 258) && (bs.take (bs.length - 3)).all (· == 0)
  | _ => false

def table (entry : List Syn) : List Syn := [u "count" 4, .rep (fun t => t.nat "count") entry]

def specs : List (String × Spec) := [
  -- ftyp / styp: major brand + minor version are mandatory (payload below 8 bytes is rejected), the rest is kept as it is
  ("ftyp", { layout := [raw "major_brand_minor_version" 8, .fld "compatible_brands" .rest] }),
  ("styp", { layout := [raw "major_brand_minor_version" 8, .fld "compatible_brands" .rest] }),
  ("free", { layout := [.fld "data" .rest] }),
  ("skip", { layout := [.fld "data" .rest] }),
  ("mvhd", { layout := full ++ [
      .cond (fun t => ver t = 1) [u "creation" 8, u "modification" 8, u "timescale" 4, u "duration" 8],
      .cond (fun t => ver t ≠ 1) [u "creation" 4, u "modification" 4, u "timescale" 4, u "duration" 4],
      u "rate" 4, u "volume" 2, zeros 10, rsv unityMatrix, zeros 24, u "next_track_id" 4] }),
  ("tkhd", { layout := full ++ [
      .cond (fun t => ver t = 1) [u "creation" 8, u "modification" 8, u "track_id" 4, zeros 4, u "duration" 8],
      .cond (fun t => ver t ≠ 1) [u "creation" 4, u "modification" 4, u "track_id" 4, zeros 4, u "duration" 4],
      zeros 8, u "layer" 2, u "alternate_group" 2, u "volume" 2, zeros 2, rsv unityMatrix, u "width" 4, u "height" 4] }),
  ("mdhd", { layout := full ++ [
      .cond (fun t => ver t = 1) [u "creation" 8, u "modification" 8, u "timescale" 4, u "duration" 8],
      .cond (fun t => ver t ≠ 1) [u "creation" 4, u "modification" 4, u "timescale" 4, u "duration" 4],
      u "language" 2, zeros 2], valid := fun t => ver t ≤ 1 }),
  ("hdlr", { layout := full ++ [u "pre_defined" 4, raw "handler" 4, zeros 12, .fld "name" .rest] }),
  ("vmhd", { layout := full ++ [u "graphicsmode" 2, u "r" 2, u "g" 2, u "b" 2] }),
  ("smhd", { layout := full ++ [u "balance" 2, zeros 2] }),
  ("nmhd", { layout := full }),
  ("sthd", { layout := full }),
  ("stts", { layout := full ++ table [u "sample_count" 4, u "sample_delta" 4], strict := true }),
  ("ctts", { layout := full ++ table [u "sample_count" 4, u "sample_offset" 4], strict := true }),
  ("stsc", { layout := full ++ table [u "first_chunk" 4, u "samples_per_chunk" 4, u "sdi" 4], strict := true, valid := noZeroSdi }),
  ("stsz", { layout := full ++ [u "sample_size" 4, u "count" 4,
      .cond (fun t => t.nat "sample_size" = 0) [.rep (fun t => t.nat "count") [u "entry_size" 4]]], strict := true }),
  ("stco", { layout := full ++ table [u "chunk_offset" 4], strict := true }),
  ("co64", { layout := full ++ table [u "chunk_offset" 8], strict := true }),
  ("stss", { layout := full ++ table [u "sample_number" 4], strict := true }),
  ("sdtp", { layout := full ++ [.fld "entries" .rest] }),
  ("elst", { layout := full ++ [u "count" 4,
      .cond (fun t => ver t = 1) [.rep (fun t => t.nat "count") [u "segment_duration" 8, u "media_time" 8, u "rate_int" 2, u "rate_frac" 2]],
      .cond (fun t => ver t = 0) [.rep (fun t => t.nat "count") [u "segment_duration" 4, u "media_time" 4, u "rate_int" 2, u "rate_frac" 2]]], strict := true, valid := fun t => ver t ≤ 1 }),
  ("mehd", { layout := full ++ [.cond (fun t => ver t = 0) [u "fragment_duration" 4], .cond (fun t => ver t ≠ 0) [u "fragment_duration" 8]] }),
  ("trex", { layout := full ++ [u "track_id" 4, u "default_sdi" 4, u "default_duration" 4, u "default_size" 4, u "default_flags" 4] }),
  ("mfhd", { layout := full ++ [u "sequence_number" 4] }),
  ("tfhd", { layout := full ++ [u "track_id" 4,
      .cond (hasFlag 0x01) [u "base_data_offset" 8], .cond (hasFlag 0x02) [u "sdi" 4],
      .cond (hasFlag 0x08) [u "default_duration" 4], .cond (hasFlag 0x10) [u "default_size" 4],
      .cond (hasFlag 0x20) [u "default_flags" 4]] }),
  ("tfdt", { layout := full ++ [.cond (fun t => ver t = 0) [u "base_media_decode_time" 4], .cond (fun t => ver t ≠ 0) [u "base_media_decode_time" 8]] }),
  ("trun", { layout := full ++ [u "sample_count" 4,
      .cond (hasFlag 0x01) [u "data_offset" 4], .cond (hasFlag 0x04) [u "first_sample_flags" 4],
      .rep (fun t => t.nat "sample_count") [
        .cond (hasFlag 0x100) [u "dur" 4], .cond (hasFlag 0x200) [u "size" 4],
        .cond (hasFlag 0x400) [u "flags_" 4], .cond (hasFlag 0x800) [u "cto" 4]]], strict := true, valid := fun t => ¬ (t.nat "sample_count" > 1024 ∧ ¬ hasFlag 0x100 t ∧ ¬ hasFlag 0x200 t ∧ ¬ hasFlag 0x400 t ∧ ¬ hasFlag 0x800 t), encOK := fun t => ¬ (hasFlag 0x01 t ∧ t.nat "data_offset" = 0) }),
  ("sidx", { layout := full ++ [u "reference_id" 4, u "timescale" 4,
      .cond (fun t => ver t = 0) [u "earliest_presentation_time" 4, u "first_offset" 4],
      .cond (fun t => ver t ≠ 0) [u "earliest_presentation_time" 8, u "first_offset" 8],
      zeros 2, u "reference_count" 2,
      .rep (fun t => t.nat "reference_count") [u "type_size" 4, u "subsegment_duration" 4, u "sap" 4]] }),
  ("saio", { layout := full ++ [.cond (hasFlag 0x01) [raw "aux_info_type" 4, u "aux_info_type_parameter" 4], u "count" 4,
      .cond (fun t => ver t = 0) [.rep (fun t => t.nat "count") [u "offset" 4]],
      .cond (fun t => ver t ≠ 0) [.rep (fun t => t.nat "count") [u "offset" 8]]], strict := true }),
  ("saiz", { layout := full ++ [.cond (hasFlag 0x01) [raw "aux_info_type" 4, u "aux_info_type_parameter" 4],
      u "default_sample_info_size" 1, u "count" 4,
      .cond (fun t => t.nat "default_sample_info_size" = 0) [.rep (fun t => t.nat "count") [u "sample_info_size" 1]]], strict := true }),
  ("tenc", { layout := full ++ [zeros 1,
      .cond (fun t => ver t = 0) [zeros 1], .cond (fun t => ver t ≠ 0) [u "crypt_skip" 1],
      u "is_protected" 1, u "per_sample_iv_size" 1, raw "kid" 16,
      .cond (fun t => t.nat "is_protected" = 1 ∧ t.nat "per_sample_iv_size" = 0)
        [u "constant_iv_size" 1, .fld "constant_iv" (.rawdyn fun t => t.nat "constant_iv_size")]] }),
  ("frma", { layout := [raw "data_format" 4], exact := true }),
  ("pssh", { layout := full ++ [raw "system_id" 16,
      .cond (fun t => ver t > 0) [u "kid_count" 4, .rep (fun t => t.nat "kid_count") [raw "kid" 16]],
      u "data_size" 4, .fld "data" (.rawdyn fun t => t.nat "data_size")] }),
  ("prft", { layout := full ++ [u "reference_track_id" 4, u "ntp" 8,
      .cond (fun t => ver t = 0) [u "media_time" 4], .cond (fun t => ver t ≠ 0) [u "media_time" 8]] }),
  ("mfro", { layout := full ++ [u "parent_size" 4] }),
  ("btrt", { layout := [u "buffer_size_db" 4, u "max_bitrate" 4, u "avg_bitrate" 4] }),
  ("pasp", { layout := [u "h_spacing" 4, u "v_spacing" 4] }),
  ("clap", { layout := [u "width_n" 4, u "width_d" 4, u "height_n" 4, u "height_d" 4,
      u "horiz_off_n" 4, u "horiz_off_d" 4, u "vert_off_n" 4, u "vert_off_d" 4] }),
  ("cslg", { layout := full ++ [
      .cond (fun t => ver t = 0) [u "composition_to_dts_shift" 4, u "least_delta" 4, u "greatest_delta" 4, u "start" 4, u "end" 4],
      .cond (fun t => ver t ≠ 0) [u "composition_to_dts_shift" 8, u "least_delta" 8, u "greatest_delta" 8, u "start" 8, u "end" 8]] }),
  ("CoLL", { layout := full ++ [u "max_cll" 2, u "max_fall" 2], strict := true }),
  ("SmDm", { layout := full ++ [u "rx" 2, u "ry" 2, u "gx" 2, u "gy" 2, u "bx" 2, u "by" 2, u "wx" 2, u "wy" 2,
      u "luminance_max" 4, u "luminance_min" 4], strict := true }),
  ("sbgp", { layout := full ++ [raw "grouping_type" 4, .cond (fun t => ver t = 1) [u "grouping_type_parameter" 4],
      u "count" 4, .rep (fun t => t.nat "count") [u "sample_count" 4, u "group_description_index" 4]], strict := true }),
  -- ---- second batch (mp4/schm.go kind.go mime.go emsg.go leva.go subs.go wvtt.go eventmessage.go av1c.go vppc.go cdat.go
  --      unknown.go dac3.go).  Notes:
  --  * zero-terminated strings: `ReadZeroTerminatedString(maxLen)` with the maxLen values the decoders pass accepts exactly
  --    when `cstr` followed by the remaining fields does (kind, emsg, emib, schm); bytes after the last field are dropped.
  --  * mime: >= 5 payload bytes; a final 0 is stripped and written back, anything else is kept: the content bytes are
  --    reproduced as they are (first content byte mandatory).
  --  * emsg: the message length is computed from the box size assuming an 8-byte header, so a large-size header is rejected
  --    (`strict`; the layout itself always consumes the whole payload).
  --  * vpcC: `hdr.Size == expectedSize(codecInitSize)`; the packed byte (bit depth 4, chroma subsampling 3, full range 1)
  --    is split and re-joined without loss, so it is one 8-bit field here.  av1C likewise: bytes 1 and 2 are kept whole.
  --  * vtte: the decoder ignores the payload (encoder writes the bare header); emeb: size must be 8.
  ("schm", { layout := full ++ [raw "scheme_type" 4, u "scheme_version" 4, .cond (hasFlag 0x01) [cstr "scheme_uri"]] }),
  ("kind", { layout := full ++ [cstr "scheme_uri", cstr "value"] }),
  ("mime", { layout := full ++ [raw "content_type_first" 1, .fld "content_type_tail" .rest] }),
  ("emsg", { layout := full ++ [
      .cond (fun t => ver t = 1) [u "timescale" 4, u "presentation_time" 8, u "event_duration" 4, u "id" 4,
        cstr "scheme_id_uri", cstr "value"],
      .cond (fun t => ver t = 0) [cstr "scheme_id_uri", cstr "value",
        u "timescale" 4, u "presentation_time_delta" 4, u "event_duration" 4, u "id" 4],
      .fld "message_data" .rest], strict := true, valid := fun t => ver t ≤ 1 }),
  ("leva", { layout := full ++ [u "level_count" 1, .rep (fun t => t.nat "level_count") [
      u "track_id" 4, u "padding_assignment_type" 1,
      .cond (fun t => assignmentType t = 0) [u "grouping_type" 4],
      .cond (fun t => assignmentType t = 1) [u "grouping_type" 4, u "grouping_type_parameter" 4],
      .cond (fun t => assignmentType t = 4) [u "sub_track_id" 4]]] }),
  ("subs", { layout := full ++ [u "entry_count" 4, .rep (fun t => t.nat "entry_count") [
      u "sample_delta" 4, u "subsample_count" 2, .rep (fun t => t.nat "subsample_count") [
        .cond (fun t => ver t = 1) [u "subsample_size" 4], .cond (fun t => ver t ≠ 1) [u "subsample_size" 2],
        u "subsample_priority" 1, u "discardable" 1, u "codec_specific_parameters" 4]]] }),
  ("payl", { layout := [.fld "cue_text" .rest] }),
  ("sttg", { layout := [.fld "settings" .rest] }),
  ("iden", { layout := [.fld "cue_id" .rest] }),
  ("ctim", { layout := [.fld "cue_current_time" .rest] }),
  ("vlab", { layout := [.fld "source_label" .rest] }),
  ("vttC", { layout := [.fld "config" .rest] }),
  ("vtta", { layout := [.fld "cue_additional_text" .rest] }),
  ("vsid", { layout := [u "source_id" 4] }),
  ("vtte", { layout := [] }),
  ("emib", { layout := full ++ [zeros 4, u "presentation_time_delta" 8, u "event_duration" 4, u "id" 4,
      cstr "scheme_id_uri", cstr "value", .fld "message_data" .rest] }),
  ("emeb", { layout := [], strict := true }),
  ("av1C", { layout := [u "marker_version" 1, u "seq_profile_level_idx_0" 1, u "tier_bitdepth_mono_subsampling" 1,
      u "initial_presentation_delay" 1, .fld "config_obus" .rest],
             valid := fun t => t.nat "marker_version" = 0x81 ∧
        (t.nat "initial_presentation_delay" = 0 ∨ (0x10 ≤ t.nat "initial_presentation_delay" ∧ t.nat "initial_presentation_delay" ≤ 0x1f)) }),
  ("vpcC", { layout := full ++ [u "profile" 1, u "level" 1, u "bitdepth_subsampling_fullrange" 1, u "colour_primaries" 1,
      u "transfer_characteristics" 1, u "matrix_coefficients" 1, u "codec_init_size" 2,
      .fld "codec_init_data" (.rawdyn fun t => t.nat "codec_init_size")], strict := true, valid := fun t => ver t = 1 }),
  ("cdat", { layout := [.fld "data" .rest] }),
  ("iods", { layout := [.fld "data" .rest] }),
  ("dac3", { layout := [.fld "initial_zeroes_and_bits" .rest], valid := dac3OK })
]

def specOf (ty : String) : Option Spec := (specs.find? (·.1 == ty)).map (·.2)

/-- box header: (type, header length, total size) -/
def parseHeader (bs : Bytes) : Option (String × Nat × Nat) :=
  if bs.length < 8 then none else
  let size := beVal (bs.take 4)
  let ty := String.ofList (((bs.drop 4).take 4).map fun b => Char.ofNat b)
  if size = 1 then
    if bs.length < 16 then none else
    let big := beVal ((bs.drop 8).take 8)
    if big < 16 then none else some (ty, 16, big)
  else if size = 0 then none
  else if size < 8 then none
  else some (ty, 8, size)

inductive RT where
  | unmodelled
  | rejected
  | encFails
  | ok (size : Nat) (enc : Bytes) (dontCare : List Nat)
deriving Repr

/-- `DecodeBox` (io.Reader path) of exactly one box followed by `Encode`: what the model says the code does -/
def roundTrip (bs : Bytes) : RT :=
  match parseHeader bs with
  | none => .rejected
  | some (ty, hl, size) =>
    if size ≠ bs.length then .rejected          -- the correspondence only sends exact single boxes
    else match specOf ty with
    | none => .unmodelled
    | some sp =>
      let payload := bs.drop hl
      let fuel := fuelFor sp.layout payload.length
      match decode fuel sp.layout [] payload with
      | none => .rejected
      | some (tr, rest) =>
        if sp.strict ∧ (rest ≠ [] ∨ hl ≠ 8) then .rejected   -- expectedSize assumes an 8-byte header
        else if sp.exact ∧ rest ≠ [] then .rejected
        else if ¬ sp.valid tr then .rejected
        else if ¬ sp.encOK tr then .encFails
        else match encode fuel sp.layout [] tr with
        | some (out, _, _) =>
          let dc := match dontCare fuel sp.layout [] payload 0 with
            | some (l, _, _, _) => l.map (· + 8)
            | none => []
          .ok (8 + out.length) (beBytes 4 (8 + out.length) ++ (bs.drop 4).take 4 ++ out) dc
        | none => .encFails

end Mp4ff.Boxes
