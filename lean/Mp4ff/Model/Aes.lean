import Mp4ff.Model.Basic
/-!
Executable AES-128 (FIPS-197), used ONLY by the driver to instantiate the abstract block cipher of
`Model/Cenc.lean`.  It is validated (FIPS-197 vectors below; differential runs against Go's crypto/aes in
`bin/check C07`), not verified; no theorem depends on it.
-/
namespace Mp4ff.Aes

def xtime (b : Nat) : Nat := let s := (b * 2) % 256; if b ≥ 128 then s ^^^ 0x1b else s

/-- GF(2^8) multiplication -/
def gmul (a b : Nat) : Nat :=
  (List.range 8).foldl (fun (acc : Nat × Nat) i =>
    let (r, x) := acc
    (if (b >>> i) % 2 = 1 then r ^^^ x else r, xtime x)) (0, a) |>.1

/-- multiplicative inverse by exponentiation a^254 -/
def ginv (a : Nat) : Nat :=
  if a = 0 then 0 else
  let sq (x : Nat) := gmul x x
  let a2 := sq a; let a4 := sq a2; let a8 := sq a4; let a16 := sq a8; let a32 := sq a16; let a64 := sq a32; let a128 := sq a64
  gmul a128 (gmul a64 (gmul a32 (gmul a16 (gmul a8 (gmul a4 a2)))))

def rotl8 (x n : Nat) : Nat := ((x <<< n) ||| (x >>> (8 - n))) % 256

def sboxByte (a : Nat) : Nat :=
  let x := ginv a
  x ^^^ rotl8 x 1 ^^^ rotl8 x 2 ^^^ rotl8 x 3 ^^^ rotl8 x 4 ^^^ 0x63

def sbox : Array Nat := (Array.range 256).map sboxByte
def invSbox : Array Nat := Id.run do
  let mut t := Array.replicate 256 0
  for i in [0:256] do
    t := t.set! (sbox[i]!) i
  return t

def subW (w : List Nat) : List Nat := w.map fun b => sbox[b]!

/-- key expansion: 44 words of 4 bytes -/
def expandKey (key : Bytes) : Array (List Nat) := Id.run do
  let mut w : Array (List Nat) := #[key.take 4, (key.drop 4).take 4, (key.drop 8).take 4, (key.drop 12).take 4]
  let mut rc := 1
  for i in [4:44] do
    let mut t := w[i - 1]!
    if i % 4 = 0 then
      t := subW (t.drop 1 ++ t.take 1)
      t := (t.headD 0 ^^^ rc) :: t.drop 1
      rc := xtime rc
    w := w.push (List.zipWith (· ^^^ ·) (w[i - 4]!) t)
  return w

def roundKey (w : Array (List Nat)) (r : Nat) : List Nat :=
  w[4 * r]! ++ w[4 * r + 1]! ++ w[4 * r + 2]! ++ w[4 * r + 3]!

def xorB (a b : List Nat) : List Nat := List.zipWith (· ^^^ ·) a b

/-- state is column-major: byte index = 4*col + row -/
def shiftRows (s : List Nat) : List Nat :=
  (List.range 16).map fun i => let c := i / 4; let r := i % 4; s.getD (4 * ((c + r) % 4) + r) 0
def invShiftRows (s : List Nat) : List Nat :=
  (List.range 16).map fun i => let c := i / 4; let r := i % 4; s.getD (4 * ((c + 4 - r) % 4) + r) 0

def mixCol (m : List Nat) (col : List Nat) : List Nat :=
  (List.range 4).map fun r =>
    (List.range 4).foldl (fun acc k => acc ^^^ gmul (m.getD ((k + 4 - r) % 4) 0) (col.getD k 0)) 0

def mixColumns (m : List Nat) (s : List Nat) : List Nat :=
  (List.range 4).flatMap fun c => mixCol m ((s.drop (4 * c)).take 4)

def encryptBlock (key block : Bytes) : Bytes := Id.run do
  let w := expandKey key
  let mut s := xorB block (roundKey w 0)
  for r in [1:10] do
    s := xorB (mixColumns [2, 3, 1, 1] (shiftRows (s.map fun b => sbox[b]!))) (roundKey w r)
  return xorB (shiftRows (s.map fun b => sbox[b]!)) (roundKey w 10)

def decryptBlock (key block : Bytes) : Bytes := Id.run do
  let w := expandKey key
  let mut s := xorB block (roundKey w 10)
  for r' in [1:10] do
    let r := 10 - r'
    s := mixColumns [14, 11, 13, 9] (xorB ((invShiftRows s).map fun b => invSbox[b]!) (roundKey w r))
  return xorB ((invShiftRows s).map fun b => invSbox[b]!) (roundKey w 0)

-- FIPS-197 Appendix C.1
#guard encryptBlock [0,1,2,3,4,5,6,7,8,9,10,11,12,13,14,15]
  [0x00,0x11,0x22,0x33,0x44,0x55,0x66,0x77,0x88,0x99,0xaa,0xbb,0xcc,0xdd,0xee,0xff]
  = [0x69,0xc4,0xe0,0xd8,0x6a,0x7b,0x04,0x30,0xd8,0xcd,0xb7,0x80,0x70,0xb4,0xc5,0x5a]
#guard decryptBlock [0,1,2,3,4,5,6,7,8,9,10,11,12,13,14,15]
  [0x69,0xc4,0xe0,0xd8,0x6a,0x7b,0x04,0x30,0xd8,0xcd,0xb7,0x80,0x70,0xb4,0xc5,0x5a]
  = [0x00,0x11,0x22,0x33,0x44,0x55,0x66,0x77,0x88,0x99,0xaa,0xbb,0xcc,0xdd,0xee,0xff]

end Mp4ff.Aes
