import Mp4ff.Model.SampleTables
/-!
M12: the three "split a sample sequence into consecutive groups" algorithms behind C11:
* `examples/segmenter/segment.go` `getSegmentStartsFromVideo` + `getSegmentIntervals`,
* `examples/resegmenter/resegment.go` `Resegment`,
* `mp4/mediasegment.go` `MediaSegment.Fragmentify`.
A sample is its (duration, composition offset, sync flag, identity); bytes travel with the identity.
-/
namespace Mp4ff.Segmenter
open Mp4ff.Stbl

structure Sample where
  dur : Nat
  cto : Int
  sync : Bool
  id : Nat
deriving Repr, DecidableEq

/-! ### resegmenter -/

structure RSt where
  done : List (List Sample) := []     -- finished segments
  cur : List Sample := []             -- samples waiting for the current segment
  seq : Nat := 1                      -- currOutSeqNr
  time : Nat := 0                     -- decode time of the next sample
  first : Bool := true                -- no sample seen yet (`nr > 0` is false)

/-- one iteration of the loop over `inSamples` -/
def rstep (chunkDur : Nat) (st : RSt) (s : Sample) : RSt :=
  let pts : Int := (st.time : Int) + s.cto
  if ¬ st.first ∧ pts ≥ ((chunkDur * st.seq : Nat) : Int) ∧ s.sync then
    { done := st.done ++ [st.cur], cur := [s], seq := st.seq + 1, time := st.time + s.dur, first := false }
  else { st with cur := st.cur ++ [s], time := st.time + s.dur, first := false }

/-- `Resegment`: the sample groups of the output segments, in order (`t0` = decode time of the first sample) -/
def resegment (chunkDur t0 : Nat) (samples : List Sample) : List (List Sample) :=
  let st := samples.foldl (rstep chunkDur) { time := t0 }
  st.done ++ [st.cur]

/-! ### Fragmentify -/

structure FSt where
  out : List (List Sample) := []
  cum : Nat := 0

/-- one sample of `Fragmentify`'s inner loop (`cumDur` is a uint32) -/
def fstep (duration : Nat) (st : FSt) (s : Sample) : FSt :=
  let out := if st.cum = 0 then st.out ++ [[s]]
             else match st.out.getLast? with
               | some l => st.out.dropLast ++ [l ++ [s]]
               | none => [[s]]
  let cum := (st.cum + s.dur) % U32
  { out := out, cum := if cum ≥ duration then 0 else cum }

/-- `Fragmentify` over all samples of all input fragments -/
def fragmentify (duration : Nat) (frags : List (List Sample)) : List (List Sample) :=
  (frags.flatten.foldl (fstep duration) {}).out

/-! ### segmenter -/

structure SyncPoint where
  sampleNr : Nat
  decodeTime : Nat
  presTime : Int
deriving Repr, DecidableEq

/-- `getSegmentStartsFromVideo`: walk the sync samples, take one whenever its presentation time has reached the
    next multiple of the step.  `decode n` / `cto n` are the reference track's queries. -/
def segmentStarts (step : Nat) (decode : Nat → Nat) (cto : Nat → Int) (syncs : List Nat) : List SyncPoint :=
  (syncs.foldl (fun (acc : List SyncPoint × Nat) nr =>
    let pres : Int := (decode nr : Int) + cto nr
    if pres ≥ (acc.2 : Int) then (acc.1 ++ [⟨nr, decode nr, pres⟩], (acc.2 + step) % U32) else acc) ([], 0)).1

/-- `getSegmentIntervals` for one track: `nrAt t` = `Stts.GetSampleNrAtTime` of that track (none = error);
    `conv t` = the time-scale conversion of a reference decode time.  Intervals are (start, end) inclusive. -/
def segmentIntervals (total : Nat) (nrAt : Nat → Option Nat) (conv : Nat → Nat) :
    List SyncPoint → Nat → Nat → Option (List (Nat × Nat))
  | [], _, _ => some []
  | [_], start, next =>
    let start := if next ≠ 0 then next else start
    some [(start, total)]
  | _ :: p2 :: rest, start, next => do
    let start := if next ≠ 0 then next else start
    let n ← nrAt (conv p2.decodeTime)
    let more ← segmentIntervals total nrAt conv (p2 :: rest) start n
    some ((start, (n + U32 - 1) % U32) :: more)

def intervals (total : Nat) (nrAt : Nat → Option Nat) (conv : Nat → Nat) (pts : List SyncPoint) : Option (List (Nat × Nat)) :=
  segmentIntervals total nrAt conv pts 1 0

end Mp4ff.Segmenter
