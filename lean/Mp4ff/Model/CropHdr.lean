import Mp4ff.Model.Crop
/-!
M10 (headers): the duration updates of `writeUptoMdat` (cmd/mp4ff-crop/main.go): every track header gets the new duration, the movie header too unless it was shorter already (end time converted to the movie timescale, uint64 arithmetic), the tool fails when that
is larger than a track's previous duration, and every edit-list entry longer than the removed amount is shortened by it.
-/
namespace Mp4ff.Crop
open Mp4ff.Stbl

structure TrackHdr where
  tkhdDur : Nat
  elst : List Nat            -- segment durations of the edit-list entries, in order
deriving Repr, DecidableEq

structure MovieHdr where
  timescale : Nat
  mvhdDur : Nat
  tracks : List TrackHdr
deriving Repr, DecidableEq

/-- `newDur := endTime * uint64(mvhd.Timescale) / endTimescale` -/
def newDuration (mvTimescale endTime endTimescale : Nat) : Nat := (endTime * mvTimescale) % U64 / endTimescale

/-- `if prevDur > durDiff { SegmentDuration -= durDiff }` for every entry -/
def cropElst (durDiff : Nat) (es : List Nat) : List Nat := es.map fun d => if d > durDiff then d - durDiff else d

/-- the header part of `writeUptoMdat`; `none` = the tool fails ("new duration … larger than previous", or a zero
    reference timescale, which the tool does not survive) -/
def cropHeaders (h : MovieHdr) (endTime endTimescale : Nat) : Option MovieHdr :=
  if endTimescale = 0 then none else
  let nd := newDuration h.timescale endTime endTimescale
  if h.tracks.all (fun t => decide (nd ≤ t.tkhdDur)) then
    some { h with mvhdDur := min nd h.mvhdDur, tracks := h.tracks.map fun t => ⟨nd, cropElst (t.tkhdDur - nd) t.elst⟩ }
  else none

/-- end time from the reference track (video, else audio), then the header updates -/
def cropHeadersOf (tracks : List TrackIn) (durationMS : Nat) (h : MovieHdr) : Option MovieHdr := do
  let ref ← match tracks.find? (·.hdlr == "vide") with
    | some r => some r
    | none => tracks.find? (·.hdlr == "soun")
  let endTime ← findEndTime ref.t.stts ref.t.stss ref.timescale durationMS
  cropHeaders h endTime ref.timescale

end Mp4ff.Crop
