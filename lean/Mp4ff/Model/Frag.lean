import Mp4ff.Model.Basic
/-!
M6 (core): what a sample run (trun) and its track fragment header (tfhd) carry through encode → decode:
`OptimizeTfhdTrun` (mp4/traf.go), the per-sample fields written/read by trun EncodeSW/DecodeTrunSR (mp4/trun.go),
`AddSampleDefaultValues` (resolution tfhd > trex > first-sample-flags), `TrunBox.GetFullSamples`
(decode times and bytes), and `Fragment.SetTrunDataOffsets` (mp4/fragment.go).
-/
namespace Mp4ff.Frag

structure Sample where
  flags : Nat
  dur : Nat
  size : Nat
  cto : Int
deriving Repr, DecidableEq

/-- tfhd defaults: `none` = flag not set -/
structure Tfhd where
  defDur : Option Nat := none
  defSize : Option Nat := none
  defFlags : Option Nat := none
deriving Repr, DecidableEq

structure Trex where
  defDur : Nat := 0
  defSize : Nat := 0
  defFlags : Nat := 0
deriving Repr, DecidableEq

/-- trun: which per-sample fields are present, optional first-sample-flags, the samples -/
structure Trun where
  hasDur : Bool := true
  hasSize : Bool := true
  hasFlags : Bool := true
  hasCto : Bool := true
  firstFlags : Option Nat := none
  samples : List Sample := []
deriving Repr, DecidableEq

/-- `OptimizeTfhdTrun` (first run of a track; `none` = error "no samples in trun") -/
def optimize (tfhd : Tfhd) (t : Trun) : Option (Tfhd × Trun) :=
  match t.samples with
  | [] => none
  | [_] => some (tfhd, t)
  | s0 :: s1 :: rest =>
    let all := s0 :: s1 :: rest
    let (tfhd, t) :=
      if t.hasDur ∧ all.all (fun s => s.dur == s0.dur) then ({ tfhd with defDur := some s0.dur }, { t with hasDur := false })
      else (tfhd, t)
    let (tfhd, t) :=
      if t.hasSize ∧ all.all (fun s => s.size == s0.size) then ({ tfhd with defSize := some s0.size }, { t with hasSize := false })
      else (tfhd, t)
    let (tfhd, t) :=
      if t.hasFlags ∧ (s1 :: rest).all (fun s => s.flags == s1.flags) then
        ({ tfhd with defFlags := some s1.flags },
         { t with hasFlags := false, firstFlags := if s0.flags ≠ s1.flags then some s0.flags else t.firstFlags })
      else (tfhd, t)
    let t := if t.hasCto ∧ all.all (fun s => s.cto == 0) then { t with hasCto := false } else t
    some (tfhd, t)

/-- `n` passes of `OptimizeTfhdTrun` over the same traf: the same fragment object is optimised every time it is encoded
    (`Fragment.Encode`/`EncodeSW` called again, or the caller optimises itself to learn the final `Size()`) -/
def optimizeN : Nat → Tfhd → Trun → Option (Tfhd × Trun)
  | 0, tfhd, t => some (tfhd, t)
  | n + 1, tfhd, t =>
    match optimize tfhd t with
    | none => none
    | some (tfhd', t') => optimizeN n tfhd' t'

/-- what trun encode → decode preserves of the per-sample values: a field whose flag is clear is not written and
    decodes as 0, except that sample 0 gets `first_sample_flags` when that is present and per-sample flags are not -/
def wire (t : Trun) : List Sample :=
  t.samples.zipIdx.map fun (s, i) =>
    { flags := if t.hasFlags then s.flags else if i = 0 then t.firstFlags.getD 0 else 0,
      dur := if t.hasDur then s.dur else 0,
      size := if t.hasSize then s.size else 0,
      cto := if t.hasCto then s.cto else 0 }

/-- `AddSampleDefaultValues` applied to decoded samples -/
def resolve (tfhd : Tfhd) (trex : Trex) (t : Trun) (decoded : List Sample) : List Sample :=
  let dDur := tfhd.defDur.getD trex.defDur
  let dSize := tfhd.defSize.getD trex.defSize
  let dFlags := tfhd.defFlags.getD trex.defFlags
  decoded.zipIdx.map fun (s, i) =>
    { s with
      dur := if t.hasDur then s.dur else dDur,
      size := if t.hasSize then s.size else dSize,
      flags := if t.hasFlags then s.flags else if i > 0 ∨ t.firstFlags.isNone then dFlags else s.flags }

/-- samples as read back from a run: resolution of what went over the wire -/
def readBack (tfhd : Tfhd) (trex : Trex) (t : Trun) : List Sample := resolve tfhd trex t (wire t)

/-- decode times of consecutive samples from a base time (`GetFullSamples`) -/
def decodeTimes (base : Nat) : List Sample → List Nat
  | [] => []
  | s :: rest => base :: decodeTimes (base + s.dur) rest

/-- byte slices of consecutive samples from an offset into the mdat payload (`GetFullSamples`) -/
def sampleBytes (mdat : Bytes) (off : Nat) : List Sample → List Bytes
  | [] => []
  | s :: rest => (mdat.drop off).take s.size :: sampleBytes mdat (off + s.size) rest

/-- `SetTrunDataOffsets`: runs given in write order with their data sizes; offset of run k relative to the moof
    start = moof size + mdat header size + sizes of the runs written before it -/
def dataOffsets (moofSize mdatHdr : Nat) : List Nat → List Nat
  | [] => []
  | sz :: rest => (moofSize + mdatHdr) :: dataOffsets (moofSize + sz) mdatHdr rest

end Mp4ff.Frag
