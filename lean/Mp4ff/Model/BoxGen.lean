import Mp4ff.Model.Boxes
/-!
Model-based generator: boxes produced **from the layout terms** (`Boxes.specs`).  A pseudo-random trace is drawn by
walking the layout exactly as `Layout.decode` does (so every optional group and every repeated group is driven by
the values drawn for the earlier fields — version, flags, counts), encoded with `Layout.encode`, wrapped in an
8-byte or 16-byte header and kept only when the model's own `roundTrip` accepts it.  The correspondence harness
asks the driver for these boxes and feeds them (and their mutations) to the four Go code paths, so every
combination of flag bits / versions / counts the *model* allows reaches the real decoders and encoders, whether or
not a repository file contains it.

Nothing here is used by a theorem; soundness of what is emitted is by construction (filtered through `roundTrip`).
-/
namespace Mp4ff.BoxGen
open Mp4ff Mp4ff.Layout Mp4ff.Boxes

/-- 64-bit LCG (Knuth MMIX) -/
def next (s : Nat) : Nat := (s * 6364136223846793005 + 1442695040888963407) % 2 ^ 64
def pick (s : Nat) (n : Nat) : Nat := if n = 0 then 0 else (s / 2 ^ 33) % n

def randBytes : Nat → Nat → Bytes × Nat
  | 0, s => ([], s)
  | n + 1, s =>
    let s1 := next s
    let (r, s2) := randBytes n s1
    (pick s1 256 :: r, s2)

def nonZeroBytes (bs : Bytes) : Bytes := bs.map fun b => if b = 0 then 0x41 else b

def hasSub (name sub : String) : Bool := (name.splitOn sub).length > 1

/-- value for an unsigned field of `w` bytes; names steer the fields that drive the rest of the layout -/
def genNat (name : String) (w : Nat) (s : Nat) : Nat × Nat :=
  let s1 := next s
  let s2 := next s1
  let bound := 2 ^ (8 * w)
  let k := pick s1 8
  let v :=
    if name = "version" then [0, 0, 0, 1, 1, 1, 2, 3].getD k 0
    else if name = "flags" then
      (if k < 6 then pick s2 4096 else pick s2 bound)
    else if hasSub name "count" then [0, 1, 1, 2, 2, 3, 4, 5].getD k 1
    else if name = "sample_size" ∨ name = "default_sample_info_size" ∨ name = "constant_iv_size"
            ∨ name = "codec_init_size" ∨ name = "data_size" then
      (if k < 4 then 0 else if k < 6 then 8 else 16)
    else if name = "is_protected" ∨ name = "per_sample_iv_size" then [0, 1, 1, 0, 8, 16, 1, 0].getD k 0
    else if name = "marker_version" then [0x81, 0x81, 0x81, 0x81, 0x81, 0x81, 0x81, 0x80].getD k 0x81
    else if name = "initial_presentation_delay" then [0, 0x10, 0x1f, 0x15, 0, 0x20, 0x0f, 0x11].getD k 0
    else if name = "padding_assignment_type" then [0, 1, 2, 3, 4, 0x80, 0x81, 0x84].getD k 0
    else if k = 0 then 0
    else if k = 1 then 1
    else if k = 2 then bound - 1
    else if k = 3 then bound / 2
    else if k = 4 then pick s2 256
    else pick s2 bound
  (v % bound, s2)

def genFld (name : String) (f : Fld) (acc : Trace) (s : Nat) : Option (Val × Nat) :=
  match f with
  | .u w => let (v, s') := genNat name w s; some (.n v, s')
  | .raw n => let (b, s') := randBytes n s; some (.b b, s')
  | .rsv _ => some (.n 0, s)
  | .cstr => let s1 := next s; let (b, s') := randBytes (pick s1 7) s1; some (.b (nonZeroBytes b), s')
  | .rest => let s1 := next s; let (b, s') := randBytes (pick s1 13) s1; some (.b b, s')
  | .udyn w => if w acc > 8 then none else let (v, s') := genNat name (w acc) s; some (.n v, s')
  | .rawdyn n => if n acc > 64 then none else let (b, s') := randBytes (n acc) s; some (.b b, s')

/-- draw a trace for a layout (same traversal as `Layout.decode`); repeated groups above 6 iterations are refused -/
def gen : Nat → List Syn → Trace → Nat → Option (Trace × Nat)
  | 0, _, _, _ => none
  | _ + 1, [], acc, s => some (acc, s)
  | f + 1, .fld nm fl :: rest, acc, s =>
    match genFld nm fl acc s with
    | some (v, s') => gen f rest (acc ++ [(nm, v)]) s'
    | none => none
  | f + 1, .cond p body :: rest, acc, s =>
    if p acc then
      match gen f body acc s with
      | some (a1, s1) => gen f rest a1 s1
      | none => none
    else gen f rest acc s
  | f + 1, .rep cnt body :: rest, acc, s =>
    match cnt acc with
    | 0 => gen f rest acc s
    | n + 1 =>
      if n ≥ 6 then none else
      match gen f body acc s with
      | some (a1, s1) => gen f (.rep (fun _ => n) body :: rest) a1 s1
      | none => none

def typeBytes (ty : String) : Bytes := ty.toList.map fun c => c.toNat % 256

/-- the trace a decoder would return: reserved fields carry no value -/
def header (ty : String) (payloadLen : Nat) (large : Bool) : Bytes :=
  if large then beBytes 4 1 ++ typeBytes ty ++ beBytes 8 (16 + payloadLen)
  else beBytes 4 (8 + payloadLen) ++ typeBytes ty

/-- one generated box of type `ty` for `seed` (none when the draw was refused or the model rejects the result) -/
def genBox (ty : String) (seed : Nat) : Option Bytes :=
  match specOf ty with
  | none => none
  | some sp =>
    let s0 := next (seed * 2654435761 + ty.length + (typeBytes ty).foldl (fun a b => a * 131 + b) 7)
    match gen 4000 sp.layout [] s0 with
    | none => none
    | some (tr, s1) =>
      match encode 4000 sp.layout [] tr with
      | some (payload, _, _) =>
        -- non-strict layouts ignore trailing payload bytes: sometimes add a few
        let s2 := next s1
        let extra := if sp.strict ∨ sp.exact then [] else
          (if pick s2 8 = 0 then (randBytes (1 + pick (next s2) 3) s2).1 else [])
        let large := ¬ sp.strict ∧ pick (next s2) 16 = 0
        let bs := header ty (payload.length + extra.length) large ++ payload ++ extra
        match roundTrip bs with
        | .ok _ _ _ => some bs
        | .encFails => some bs
        | _ => none
      | none => none

end Mp4ff.BoxGen
