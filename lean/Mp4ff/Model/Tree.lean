import Mp4ff.Model.Boxes
import Mp4ff.Generated.Facts
/-!
M4b: the **nested** round trip.  `DecodeBox`/`DecodeBoxSR` followed by `Encode` on exactly one box that may be a
plain container (mp4/container.go `DecodeContainerChildren[SR]`, `EncodeContainer[SW]`, `containerSize`; the
container decoders of moov, trak, mdia, minf, stbl, dinf, edts, mvex, moof, traf, mfra, udta, sinf, schi, ludt and their
`AddChild` methods).  Leaves are decoded and re-encoded by their layout (`Boxes.roundTrip`).

What the Go code does and the model transcribes:
* a container with a 16-byte header is never accepted as a single box (children are counted from `startPos+8`);
* children are decoded one after the other until the container's end; a stray tail shorter than a header, a child
  that does not fit, or a child the leaf decoder rejects, rejects the container;
* `pos += child.Size()`: a child whose recomputed size differs from the bytes it occupied (trailing bytes dropped,
  16-byte header rewritten) makes the container fail ("size mismatch" / "non-matching children box sizes");
* `edts` accepts only `elst` children; `traf` needs a `tfhd` child;
* `MoovBox.AddChild` puts a `trak` right after the last previous `trak` unless that one is first or last;
* `Encode`: header with `containerSize` = 8 + Σ child sizes, then the children in `Children` order.
-/
namespace Mp4ff.TreeRT
open Mp4ff Mp4ff.Boxes Mp4ff.Layout

/-- plain containers: `DecodeContainerChildren[SR](hdr, startPos+8, startPos+hdr.Size, …)` and `AddChild` -/
def plain : List String :=
  ["moov", "trak", "mdia", "minf", "stbl", "dinf", "edts", "mvex", "moof", "traf", "mfra", "udta", "sinf", "schi", "ludt", "vttc"]

/-- a container whose children follow a fixed-syntax prefix -/
structure PSpec where
  pre : List Syn                       -- fields between the header and the first child
  valid : Trace → Bool := fun _ => true
  count : Option String := none        -- the field that must equal the number of children (stsd, dref)

/-- 8 + 70 bytes of `VisualSampleEntryBox` (mp4/visualsampleentry.go): reserved bytes are skipped / written as zeros,
    depth is written as 0x0018 and pre_defined as 0xffff whatever was read; the compressor name is a length byte,
    that many bytes, and padding up to 31 -/
def visualPre : List Syn :=
  [zeros 6, u "data_reference_index" 2, zeros 16, u "width" 2, u "height" 2, u "horizresolution" 4,
   u "vertresolution" 4, zeros 4, u "frame_count" 2, u "compressor_name_length" 1,
   .fld "compressor_name" (.rawdyn fun t => t.nat "compressor_name_length"),
   .rep (fun t => 31 - t.nat "compressor_name_length") [zeros 1], rsv [0, 0x18], rsv [0xff, 0xff]]

def visual : PSpec := { pre := visualPre, valid := fun t => t.nat "compressor_name_length" ≤ 31 }

/- The audio sample entries (mp4a, enca, ac-3, ec-3) are NOT in the model: their two decoders are written separately and
   differ on inputs neither reproduces exactly (the io.Reader twin stops at the end of the body without a position
   check, so it accepts a 16-byte header and children that shrink on re-encoding; the slice-reader twin rejects both).
   C03 does not constrain such inputs; a single model function cannot answer for both paths. -/

/-- stsd / dref: full box, entry count, children; the count must be the number of children -/
def counted : PSpec := { pre := full ++ [u "entry_count" 4], count := some "entry_count" }

/-- the WebVTT sample entry (mp4/wvtt.go): 6 reserved bytes, data reference index, then vttC / vlab / btrt … -/
def wvtt : PSpec := { pre := [zeros 6, u "data_reference_index" 2] }

def prefixed : List (String × PSpec) :=
  [("stsd", counted), ("dref", counted), ("wvtt", wvtt),
   ("avc1", visual), ("avc3", visual), ("hvc1", visual), ("hev1", visual), ("encv", visual), ("av01", visual),
   ("vp08", visual), ("vp09", visual)]

/-- the prefix specification of a container type (`none`: not a container of the model) -/
def pspecOf (ty : String) : Option PSpec :=
  if plain.contains ty then some { pre := [] } else (prefixed.find? (·.1 == ty)).map (·.2)

def containers : List String := plain ++ prefixed.map (·.1)

/-- a decoded child as far as re-encoding is concerned -/
structure Kid where
  ty : String
  enc : Bytes          -- the child re-encoded
  dc : List Nat        -- don't-care positions relative to the start of the child
  encOK : Bool := true -- `Encode` of the child succeeds
deriving Repr

inductive Res where
  | unmodelled
  | rejected
  | encFails
  | ok (enc : Bytes) (dc : List Nat)
deriving Repr

/-- index of the last `trak` (0 when there is none): the loop in `MoovBox.AddChild` -/
def lastTrakIdxFrom : List Kid → Nat → Nat → Nat
  | [], _, acc => acc
  | c :: cs, i, acc => lastTrakIdxFrom cs (i + 1) (if c.ty = "trak" then i else acc)

def moovAddChild (cs : List Kid) (c : Kid) : List Kid :=
  if c.ty = "trak" then
    let l := lastTrakIdxFrom cs 0 0
    if l ≠ 0 ∧ l + 1 ≠ cs.length then cs.take (l + 1) ++ [c] ++ cs.drop (l + 1) else cs ++ [c]
  else cs ++ [c]

/-- the `Children` slice after the container decoder has called `AddChild` for every decoded child -/
def arrange (ty : String) (kids : List Kid) : List Kid :=
  if ty = "moov" then kids.foldl moovAddChild [] else kids

/-- container-specific acceptance -/
def accepts (ty : String) (kids : List Kid) : Bool :=
  if ty = "edts" then kids.all (·.ty = "elst")
  else if ty = "traf" then kids.any (·.ty = "tfhd")
  else true

def encKids : List Kid → Bytes
  | [] => []
  | k :: ks => k.enc ++ encKids ks

/-- don't-care positions of the children, relative to `off` -/
def dcKids : List Kid → Nat → List Nat
  | [], _ => []
  | k :: ks, off => k.dc.map (· + off) ++ dcKids ks (off + k.enc.length)

inductive KidsRes where
  | unmodelled
  | rejected
  | ok (kids : List Kid)

mutual
/-- one box, given as exactly its bytes -/
def rtBox : Nat → Bytes → Res
  | 0, _ => .rejected
  | f + 1, bs =>
    match parseHeader bs with
    | none => .rejected
    | some (ty, hl, size) =>
      if size ≠ bs.length then .rejected
      else match pspecOf ty with
      | some ps =>
        if hl ≠ 8 then .rejected
        else
          let payload := bs.drop 8
          let fuelP := fuelFor ps.pre payload.length
          match decode fuelP ps.pre [] payload with
          | none => .rejected
          | some (tr, rest) =>
            if ¬ ps.valid tr then .rejected
            else match rtKids f rest with
            | .unmodelled => .unmodelled
            | .rejected => .rejected
            | .ok kids =>
              if ¬ accepts ty kids then .rejected
              else if (match ps.count with | some c => decide (tr.nat c ≠ kids.length) | none => false) then .rejected
              else
                let ks := arrange ty kids
                if ks.all (·.encOK) then
                  match encode fuelP ps.pre [] tr, dontCare fuelP ps.pre [] payload 0 with
                  | some (pb, _, _), some (pdc, _, _, _) =>
                    let body := encKids ks
                    .ok (beBytes 4 (8 + pb.length + body.length) ++ (bs.drop 4).take 4 ++ pb ++ body)
                        (pdc.map (· + 8) ++ dcKids ks (8 + pb.length))
                  | _, _ => .encFails
                else .encFails
      | none =>
        match roundTrip bs with
        | .unmodelled =>
          -- a type the decoder registry (regenerated from mp4/box.go on every run) does not know is kept verbatim by
          -- `DecodeUnknown[SR]` and written back behind an 8-byte header (mp4/unknown.go)
          if Generated.decoderKeys.contains ty then .unmodelled
          else
            let payload := bs.drop hl
            .ok (beBytes 4 (8 + payload.length) ++ (bs.drop 4).take 4 ++ payload) []
        | .rejected => .rejected
        | .encFails => .encFails
        | .ok _ enc dc => .ok enc dc
/-- the children of a container: a concatenation of boxes filling `bs` exactly -/
def rtKids : Nat → Bytes → KidsRes
  | 0, _ => .rejected
  | f + 1, bs =>
    if bs.isEmpty then .ok [] else
    match parseHeader bs with
    | none => .rejected
    | some (ty, _, size) =>
      if size > bs.length then .rejected
      else
        let child := bs.take size
        match rtBox f child, rtKids f (bs.drop size) with
        | .rejected, _ => .rejected
        | .unmodelled, _ => .unmodelled
        | .encFails, .ok ks =>
          -- the decoder accepted the child; its recomputed size is not known to the model when Encode fails:
          -- only modelled case is trun with data_offset 0, whose Size() equals the bytes it occupied
          .ok ({ ty := ty, enc := child, dc := [], encOK := false } :: ks)
        | .ok enc dc, .ok ks =>
          if enc.length ≠ size then .rejected            -- child.Size() differs from the bytes it occupied
          else .ok ({ ty := ty, enc := enc, dc := dc } :: ks)
        | _, .rejected => .rejected
        | _, .unmodelled => .unmodelled
end

/-- what the model says `DecodeBox` + `Encode` does on one (possibly nested) box -/
def roundTripTree (bs : Bytes) : Res := rtBox (bs.length + 2) bs

end Mp4ff.TreeRT
