import Mp4ff.Model.Nalu
/-!
M7: Common Encryption logic of mp4/crypto.go over an abstract block cipher: sub-sample (protect) ranges for AVC and
HEVC, `AppendProtectRange`, AES-CTR over the protected ranges (`CryptSampleCenc`), the CBC 1:9 pattern cipher
(`cbcsCrypt`, `cryptSampleCbcs`), `incrementIV`.  The block cipher is a parameter `E`/`D` on 16-byte blocks.
-/
namespace Mp4ff.Cenc
open Mp4ff.Nalu

structure SubSample where
  clear : Nat
  prot : Nat
deriving Repr, DecidableEq

/-- `AppendProtectRange`: clear runs of 65536 bytes or more are split into 65535-byte entries without protected bytes -/
def appendProtectRange (l : List SubSample) (nrClear nrProt : Nat) : List SubSample :=
  if h : nrClear ≥ 65536 then appendProtectRange (l ++ [⟨65535, 0⟩]) (nrClear - 65535) nrProt
  else l ++ [⟨nrClear, nrProt⟩]
termination_by nrClear
decreasing_by omega

def minClearSize : Nat := 96
def naluHdrLen : Nat := 4

/-- `GetAVCProtectRanges` / `GetHEVCProtectRanges` (uint32 arithmetic). `cbcsHdr = none` is scheme cenc; for cbcs it
    gives the slice header size of a video NAL unit (from the slice header parser), `none` inside = parse error. -/
def protectRanges (c : Codec) (cbcsHdr : Option (Bytes → Option Nat)) (s : Bytes) : Option (List SubSample) :=
  if s.length < 4 then none else
  let rec go : Nat → Nat → Nat → Nat → List SubSample → Option (List SubSample)
    | 0, _, _, _, _ => none
    | fuel + 1, pos, clearStart, clearEnd, acc =>
      if pos < (s.length - 4) % U32 then
        let n := be32 s pos
        let pos := (pos + 4) % U32
        if (pos + n) % U32 > s.length then none else
        let t := c.typeOf (byteAt s pos)
        let clearEnd := (pos + n) % U32
        let r : Option (Nat × Nat) :=   -- (clearEnd, bytesToProtect)
          if c.isVideo t then
            match cbcsHdr with
            | none =>
              if (n + naluHdrLen) % U32 ≥ minClearSize + 16 then
                let p := (((n + naluHdrLen) % U32 + U32 - minClearSize) % U32) / 16 * 16
                some (if p > 0 then (clearEnd + U32 - p) % U32 else clearEnd, p)
              else some (clearEnd, 0)
            | some hdr =>
              match hdr (slice s pos (pos + n)) with
              | none => none
              | some h => some ((pos + h) % U32, (n + U32 - h) % U32)
          else some (clearEnd, 0)
        match r with
        | none => none
        | some (clearEnd, p) =>
          if p > 0 then
            let acc := appendProtectRange acc ((clearEnd + U32 - clearStart) % U32) p
            let cs := (clearEnd + p) % U32
            go fuel ((pos + n) % U32) cs cs acc
          else go fuel ((pos + n) % U32) clearStart clearEnd acc
      else some (if clearEnd > clearStart then appendProtectRange acc ((clearEnd + U32 - clearStart) % U32) 0 else acc)
  go (s.length + 1) 0 0 0 []

/-! ## ciphers over an abstract 16-byte block function -/

abbrev Block := Bytes

def xorBytes (a b : Bytes) : Bytes := List.zipWith (· ^^^ ·) a b

/-- 128-bit big-endian counter block `iv + i` -/
def ctrBlock (iv : Bytes) (i : Nat) : Bytes := beBytes 16 ((beVal iv + i) % 2 ^ 128)

/-- `n` keystream bytes starting at keystream byte offset `off` -/
def keystream (E : Block → Block) (iv : Bytes) (off n : Nat) : Bytes :=
  (List.range n).map fun k => (E (ctrBlock iv ((off + k) / 16))).getD ((off + k) % 16) 0

/-- `CryptSampleCenc`: one continuous CTR stream over the protected ranges (whole sample if there are no ranges) -/
def cryptCenc (E : Block → Block) (sample iv : Bytes) (ranges : List SubSample) : Bytes :=
  if ranges = [] then xorBytes sample (keystream E iv 0 sample.length)
  else
    let rec go : List SubSample → Nat → Nat → Bytes → Bytes
      | [], _, _, s => s
      | r :: rest, pos, koff, s =>
        let pos := pos + r.clear
        let seg := (s.drop pos).take r.prot
        let s := s.take pos ++ xorBytes seg (keystream E iv koff seg.length) ++ s.drop (pos + r.prot)
        go rest (pos + r.prot) (koff + r.prot) s
    go ranges 0 0 sample

/-- CBC over whole 16-byte blocks; returns output and the chaining value -/
def cbcEnc (E : Block → Block) : Bytes → Bytes → Bytes × Bytes
  | chain, data =>
    if data.length < 16 then ([], chain)
    else
      let c := E (xorBytes (data.take 16) chain)
      let (out, ch) := cbcEnc E c (data.drop 16)
      (c ++ out, ch)
termination_by _ data => data.length
decreasing_by simp; omega

def cbcDec (D : Block → Block) : Bytes → Bytes → Bytes × Bytes
  | chain, data =>
    if data.length < 16 then ([], chain)
    else
      let blk := data.take 16
      let p := xorBytes (D blk) chain
      let (out, ch) := cbcDec D blk (data.drop 16)
      (p ++ out, ch)
termination_by _ data => data.length
decreasing_by simp; omega

/-- `cbcsCrypt`: pattern encryption with `crypt`/`skip` byte counts (multiples of 16); `F` is cbcEnc E or cbcDec D.
    The chaining value continues across the stripes of one call. -/
def cbcsCrypt (F : Bytes → Bytes → Bytes × Bytes) (data iv : Bytes) (crypt skip : Nat) : Bytes :=
  if skip = 0 then
    let n := data.length / 16 * 16
    (F iv (data.take n)).1 ++ data.drop n
  else
    let rec go : Nat → Nat → Bytes → Bytes → Bytes
      | 0, _, _, acc => acc
      | fuel + 1, pos, chain, acc =>
        if data.length - pos ≥ crypt then
          let (out, ch) := F chain ((data.drop pos).take crypt)
          let acc := acc ++ out
          let pos := pos + crypt
          if data.length - pos < skip then acc ++ data.drop pos
          else go fuel (pos + skip) ch (acc ++ (data.drop pos).take skip)
        else acc ++ data.drop pos
    go (data.length + 2) 0 iv []

/-- `cryptSampleCbcs`: the pattern cipher restarts from the constant IV in every sub-sample -/
def cryptCbcs (F : Bytes → Bytes → Bytes × Bytes) (sample iv : Bytes) (ranges : List SubSample) (crypt skip : Nat) : Bytes :=
  if ranges = [] then cbcsCrypt F sample iv crypt skip
  else
    let rec go : List SubSample → Nat → Bytes → Bytes
      | [], _, s => s
      | r :: rest, pos, s =>
        let pos := pos + r.clear
        let s := if r.prot > 0 then
            s.take pos ++ cbcsCrypt F ((s.drop pos).take r.prot) iv crypt skip ++ s.drop (pos + r.prot)
          else s
        go rest (pos + r.prot) s
    go ranges 0 sample

/-- `incrementIV`: number of cipher blocks used, then add with carry from the last byte -/
def nrEncBlocks (ranges : List SubSample) (sampleLen : Nat) : Nat :=
  if ranges = [] then (sampleLen + 15) / 16 else (ranges.map fun r => r.prot / 16).sum

def incrementIVInPlace : List Nat → Nat → List Nat   -- iv reversed (last byte first)
  | [], _ => []
  | b :: rest, steps =>
    let sum := b + steps
    if sum < 256 then sum :: rest else (sum % 256) :: incrementIVInPlace rest (sum / 256)

def incrementIV (iv : Bytes) (ranges : List SubSample) (sampleLen : Nat) : Bytes :=
  (incrementIVInPlace iv.reverse (nrEncBlocks ranges sampleLen)).reverse

/-! ## specification side -/

/-- per-byte protection mask of a sub-sample list -/
def maskOf : List SubSample → List Bool
  | [] => []
  | r :: rest => List.replicate r.clear false ++ List.replicate r.prot true ++ maskOf rest

/-- cenc: protected length of a NAL unit of length `n` (length field not included) -/
def cencProt (c : Codec) (nalu : Bytes) : Nat :=
  if c.isVideo (c.typeOf (nalu.headD 0)) ∧ nalu.length + 4 ≥ 112 then (nalu.length + 4 - 96) / 16 * 16 else 0

/-- the mask the standard asks for: length field and the clear head of each unit clear, the tail protected -/
def cencMask (c : Codec) (ns : List Bytes) : List Bool :=
  ns.flatMap fun n => List.replicate (4 + n.length - cencProt c n) false ++ List.replicate (cencProt c n) true

/-- cbcs: protected length of a NAL unit: everything after the slice header of a video unit (`hdr` = bytes of the unit
    occupied by NAL header and slice header), nothing of any other unit -/
def cbcsProt (c : Codec) (hdr : Bytes → Option Nat) (nalu : Bytes) : Nat :=
  if c.isVideo (c.typeOf (nalu.headD 0)) then nalu.length - (hdr nalu).getD 0 else 0

/-- the mask the standard asks for under cbcs: length field, NAL header and slice header clear, the rest of a video
    unit protected -/
def cbcsMask (c : Codec) (hdr : Bytes → Option Nat) (ns : List Bytes) : List Bool :=
  ns.flatMap fun n => List.replicate (4 + n.length - cbcsProt c hdr n) false ++ List.replicate (cbcsProt c hdr n) true

end Mp4ff.Cenc
