import Mp4ff.Model.SampleTables
/-!
M11: `cmd/mp4ff-crop/main.go` — where each track is cut and how every sample table is cropped.

`findEndTime` / `findTrakEnds` pick the last sample number of every track from the requested duration;
`cropStts` / `cropStss` / `cropCtts` / `cropStsc` / `cropStsz` / `cropSdtp` shorten the tables to that sample;
`fillTrakOutsAndByteRanges` interleaves the kept chunks by ascending input offset and lays them out contiguously.
`none` = the Go code panics or returns an error.
-/
namespace Mp4ff.Crop
open Mp4ff.Stbl

/-! ### the cut point -/

/-- `findEndTime` on the reference track: (endTime in the reference track's timescale) -/
def findEndTime (stts : Stts) (stss : Option (List Nat)) (timescale durationMS : Nat) : Option Nat := do
  let endTime := ((durationMS * timescale) % U64 + 999) % U64 / 1000      -- rounded up
  let last0 ← stts.getSampleNrAtTime endTime
  let last ← match stss with
    | none => some ((last0 + U32 - 1) % U32)        -- all samples are sync samples: end just before that one
    | some nums =>
      -- for sampleNr := lastSampleNr; sampleNr <= last sync sample; sampleNr++ { if IsSyncSample … }
      let lastSync ← nums.getLast?
      let rec go : Nat → Nat → Option Nat
        | 0, _ => none
        | fuel + 1, n =>
          if n ≤ lastSync then
            if isSyncSample nums n then some ((n + U32 - 1) % U32) else go fuel ((n + 1) % U32)
          else none
      go (lastSync + 2) last0
  let (t, d) ← stts.getDecodeTime last
  some ((t + d) % U64)

/-- `findTrakEnds` for one track: last kept sample number -/
def trackEnd (stts : Stts) (trackTimescale endTime endTimescale : Nat) : Option Nat := do
  if endTimescale = 0 then none else
  let te := if trackTimescale ≠ endTimescale % U32
    then (((endTime * trackTimescale) % U64 + endTimescale) % U64 + U64 - 1) % U64 / endTimescale   -- rounded up
    else endTime
  let n ← stts.getSampleNrAtTime te
  some ((n + U32 - 1) % U32)

/-! ### table cropping -/

/-- the loop of `cropStts`: (countedSamples, lastEntry + 1) -/
def sttsWalk : List Nat → Nat → Nat → Nat → Nat × Nat
  | [], _, counted, e => (counted, e)
  | c :: cs, last, counted, e =>
    let e' := if counted < last then e + 1 else e
    if (counted + c) % U32 ≥ last then (counted, e') else sttsWalk cs last ((counted + c) % U32) e'

def cropStts (b : Stts) (last : Nat) : Option Stts :=
  let (counted, e) := sttsWalk b.count last 0 0
  let remaining := (last + U32 - counted) % U32
  if remaining > 0 then
    if e = 0 ∨ e > b.count.length then none           -- SampleCount[-1] / beyond the table
    else some ⟨(b.count.set (e - 1) remaining).take e, b.delta.take e⟩
  else if e > b.count.length then none else some ⟨b.count.take e, b.delta.take e⟩

/-- `cropStss`: keep the leading entries that are ≤ last -/
def cropStss (nums : List Nat) (last : Nat) : List Nat := nums.takeWhile (· ≤ last)

/-- `cropCtts` -/
def cropCtts (b : Ctts) (last : Nat) : Option Ctts :=
  let i := bsearchGE b.endSampleNr last (b.endSampleNr.length + 1) 0 b.endSampleNr.length
  if i ≥ b.endSampleNr.length then none          -- EndSampleNr[lastIdx] out of range
  else if i > b.offset.length then none
  else some ⟨(b.endSampleNr.set i last).take (i + 1), b.offset.take i⟩

/-- `cropStsc` on the raw entries (first_chunk, samples_per_chunk, sample_description_index) -/
def cropStsc (raw : List (Nat × Nat × Nat)) (last : Nat) : Option (List (Nat × Nat × Nat)) := do
  let b := Stsc.ofRaw raw
  let idx := b.findEntryForSample last 0
  let e ← b.entries[idx]?
  let r ← raw[idx]?
  if e.samplesPerChunk = 0 then none else
  let samplesLeft := (last + U32 - e.firstSampleNr + 1) % U32
  let nrChunks := samplesLeft / e.samplesPerChunk
  let nrLeft := samplesLeft - nrChunks * e.samplesPerChunk
  let kept := raw.take (idx + 1)
  if nrLeft > 0 ∧ nrChunks = 0 then
    -- the cut is inside the first chunk of the last kept entry: that entry is shortened
    some (raw.take idx ++ [(r.1, nrLeft, r.2.2)])
  else if nrLeft > 0 then some (kept ++ [((e.firstChunk + nrChunks) % U32, nrLeft, r.2.2)]) else some kept

def cropStsz (b : Stsz) (last : Nat) : Option Stsz :=
  if b.uniform = 0 then
    if last > b.sizes.length then none else some ⟨0, last, b.sizes.take last⟩
  else some ⟨b.uniform, last, b.sizes⟩

def cropSdtp (entries : List Nat) (last : Nat) : List Nat := if entries.length > last then entries.take last else entries

/-! ### interleaving the kept chunks -/

/-- a kept chunk: input offset and number of bytes kept of it -/
structure KChunk where
  off : Nat
  size : Nat
deriving Repr, DecidableEq

/-- per track: chunks still to place (in chunk order) -/
abbrev Pending := List (List KChunk)

/-- index of the track whose next chunk has the smallest input offset (`trakIDMin`; ties: first track) -/
def pickMin (p : Pending) : Option Nat :=
  let rec go : List (List KChunk) → Nat → Option (Nat × Nat) → Option (Nat × Nat)
    | [], _, best => best
    | [] :: rest, i, best => go rest (i + 1) best
    | (c :: _) :: rest, i, best =>
      match best with
      | some (_, bo) => if c.off < bo then go rest (i + 1) (some (i, c.off)) else go rest (i + 1) best
      | none => if c.off < 2 ^ 62 then go rest (i + 1) (some (i, c.off)) else go rest (i + 1) none
  (go p 0 none).map (·.1)

/-- `fillTrakOutsAndByteRanges`: output offsets per track (relative layout, before `updateChunkOffsets`) and the
    list of copied (input offset, size) pieces in output order -/
def layout : Nat → Pending → Nat → List (List Nat) → List KChunk → List (List Nat) × List KChunk
  | 0, _, _, outs, pieces => (outs, pieces)
  | fuel + 1, p, cur, outs, pieces =>
    match pickMin p with
    | none => (outs, pieces)
    | some i =>
      match p.getD i [] with
      | [] => (outs, pieces)
      | c :: rest =>
        layout fuel (p.set i rest) (cur + c.size) (outs.set i (outs.getD i [] ++ [cur])) (pieces ++ [c])

/-- whole layout: chunk offsets in the output file (payload starts at `payloadStart`) and the copied pieces -/
def place (p : Pending) (payloadStart : Nat) : List (List Nat) × List KChunk :=
  layout ((p.map List.length).sum + 1) p payloadStart (p.map fun _ => []) []

/-- `byteRanges.addRange`: adjacent pieces are merged -/
def mergeRanges : List KChunk → List KChunk
  | [] => []
  | c :: rest =>
    match mergeRanges rest with
    | [] => [c]
    | d :: ds => if c.off + c.size = d.off then ⟨c.off, c.size + d.size⟩ :: ds else c :: d :: ds

/-- the bytes the tool writes into the new mdat, given the input file -/
def copied (file : Bytes) (pieces : List KChunk) : Bytes := pieces.flatMap fun c => (file.drop c.off).take c.size

/-! ### the whole tool on the tables of every track -/

structure TrackIn where
  hdlr : String
  timescale : Nat
  t : Tables
  rawStsc : List (Nat × Nat × Nat)

structure TrackOut where
  last : Nat
  stts : Stts
  ctts : Option Ctts
  stsc : List (Nat × Nat × Nat)
  stsz : Stsz
  offsets : List Nat
  stss : Option (List Nat)
  sdtp : Option (List Nat)

/-- kept chunks of one track: chunk 1..lastChunk, the last one cut after sample `last` -/
def keptChunks (t : Tables) (last : Nat) : Option (List KChunk) := do
  let (chunkNr, _) ← t.stsc.chunkNrFromSampleNr last
  (List.range' 1 chunkNr).mapM fun c => do
    let ch ← t.stsc.getChunk c
    let off ← getOffset t.offsets c
    let lastIn := (ch.startSampleNr + ch.nrSamples + U32 - 1) % U32
    let size ← t.stsz.getTotalSampleSize ch.startSampleNr (min lastIn last)
    some ⟨off, size⟩

def cropTrack (tr : TrackIn) (last : Nat) (offsets : List Nat) : Option TrackOut := do
  let stts ← cropStts tr.t.stts last
  let ctts ← match tr.t.ctts with
    | none => some none
    | some c => (cropCtts c last).map some
  let stsc ← cropStsc tr.rawStsc last
  let stsz ← cropStsz tr.t.stsz last
  some ⟨last, stts, ctts, stsc, stsz, offsets, tr.t.stss.map (cropStss · last), tr.t.sdtp.map (cropSdtp · last)⟩

/-- `cropMP4` on the sample tables: per-track outputs and the merged byte ranges copied into the new mdat -/
def cropAll (tracks : List TrackIn) (durationMS payloadStart : Nat) : Option (List TrackOut × List KChunk) := do
  let ref ← match tracks.find? (·.hdlr == "vide") with
    | some r => some r
    | none => tracks.find? (·.hdlr == "soun")
  let endTime ← findEndTime ref.t.stts ref.t.stss ref.timescale durationMS
  let lasts ← tracks.mapM fun tr => do
    let k ← trackEnd tr.t.stts tr.timescale endTime ref.timescale
    let _ ← tr.t.stts.getDecodeTime k
    some k
  let pend ← (tracks.zip lasts).mapM fun (tr, k) => keptChunks tr.t k
  let (outs, pieces) := place pend payloadStart
  let touts ← ((tracks.zip lasts).zip outs).mapM fun ((tr, k), o) => cropTrack tr k o
  some (touts, mergeRanges pieces)

end Mp4ff.Crop
