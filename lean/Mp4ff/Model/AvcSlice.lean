import Mp4ff.Model.HevcPps
/-!
M18: the AVC slice header (ISO/IEC 14496-10 7.3.3 with ref_pic_list_modification, pred_weight_table and
dec_ref_pic_marking) as `avc/slice.go` `ParseSliceHeader(nalu, spsMap, ppsMap)` reads it, as a `BitSyn` term
parameterised by the parameter-set maps: the PPS is found under the slice's pic_parameter_set_id, the SPS under that
PPS's seq_parameter_set_id.  The parser never looks at the reader's error: on a NAL unit that ends inside the header it
returns the values read so far and zeros.  The header size is the number of bytes the reader has taken.
-/
namespace Mp4ff.AvcSlice
open Mp4ff.BitSyn Mp4ff.Bits Mp4ff.HevcSps Mp4ff.HevcPps

/-- what the slice header parser uses of an SPS -/
structure SpsInfo where
  id : Nat
  log2MaxFrameNumMinus4 : Nat
  log2MaxPocLsbMinus4 : Nat
  separateColourPlane : Bool
  frameMbsOnly : Bool
  pocType : Nat
  deltaPicOrderAlwaysZero : Bool
  chromaFormatIdc : Nat
  width : Nat
  height : Nat
  cropLeft : Nat
  cropRight : Nat
  cropTop : Nat
  cropBottom : Nat
deriving Repr, DecidableEq, Inhabited

/-- what the slice header parser uses of a PPS -/
structure PpsInfo where
  id : Nat
  spsId : Nat
  bottomFieldPicOrderInFramePresent : Bool
  redundantPicCntPresent : Bool
  numRefIdxL0Default : Nat
  numRefIdxL1Default : Nat
  weightedPred : Bool
  weightedBipredIdc : Nat
  entropyCodingMode : Bool
  deblockingFilterControlPresent : Bool
  numSliceGroupsMinus1 : Nat
  sliceGroupMapType : Nat
  sliceGroupChangeRateMinus1 : Nat
deriving Repr, DecidableEq, Inhabited

def ppsOf (pm : List PpsInfo) (t : Trace) : Option PpsInfo :=
  pm.find? (fun p => p.id = t.nat "pic_parameter_set_id" % 2 ^ 32)

def spsOf (sm : List SpsInfo) (pm : List PpsInfo) (t : Trace) : Option SpsInfo :=
  (ppsOf pm t).bind fun p => sm.find? (fun s => s.id = p.spsId % 2 ^ 32)

/-- `SPS.ChromaArrayType()` -/
def SpsInfo.chromaArrayType (s : SpsInfo) : Nat := if s.separateColourPlane then 0 else s.chromaFormatIdc % 256

/-- `SPS.picSizeInMapUnits()` (Go uint arithmetic) -/
def SpsInfo.picSizeInMapUnits (s : SpsInfo) : Nat :=
  let W := W64
  let fmo := if s.frameMbsOnly then 1 else 0
  let cu : Option (Nat × Nat) := match s.chromaFormatIdc with
    | 0 => some (1, 2 - fmo) | 1 => some (2, 2 * (2 - fmo)) | 2 => some (2, 2 - fmo) | 3 => some (1, 2 - fmo)
    | _ => none
  let (w, h) := match cu with
    | some (cx, cy) => ((s.width + ((s.cropLeft + s.cropRight) % W * cx) % W) % W,
                        (s.height + ((s.cropTop + s.cropBottom) % W * cy) % W) % W)
    | none => (s.width, s.height)
  let hm := if s.frameMbsOnly then h / 16 else h / 16 / 2
  ((w / 16) * hm) % W

def naluType (t : Trace) : Nat := t.nat "nal_header" % 32
def nalRefIdc (t : Trace) : Nat := t.nat "nal_header" / 32 % 4
/-- `SliceType(sh.SliceType % 5)`: 0 P, 1 B, 2 I, 3 SP, 4 SI -/
def st (t : Trace) : Nat := t.nat "slice_type" % 5

section
variable (sm : List SpsInfo) (pm : List PpsInfo)

def sp (t : Trace) : SpsInfo := (spsOf sm pm t).getD default
def pp (t : Trace) : PpsInfo := (ppsOf pm t).getD default

def override (t : Trace) : Bool := t.get "num_ref_idx_active_override_flag" = 1

/-- `sh.NumRefIdxL0ActiveMinus1` / L1 after the P/SP/B block -/
def numL0 (t : Trace) : Nat :=
  if override t then t.nat "num_ref_idx_l0_active_minus1" % 2 ^ 32 else (pp pm t).numRefIdxL0Default % 2 ^ 32
def numL1 (t : Trace) : Nat :=
  if override t then (if st t = 1 then t.nat "num_ref_idx_l1_active_minus1" % 2 ^ 32 else 0)
  else (pp pm t).numRefIdxL1Default % 2 ^ 32

/-- has the modification loop behind `flag` read its end code 3? -/
def modDone (flag : String) (t : Trace) : Bool :=
  ((sinceLast flag t).all "modification_of_pic_nums_idc").any (fun v => v.toNat % 2 ^ 32 = 3)

def idc (t : Trace) : Nat := t.nat "modification_of_pic_nums_idc" % 2 ^ 32

/-- the `for { … }` loop of ref_pic_list_modification: ends with code 3 (or, in the parser, with a reader error: then
    every further code reads as 0 and the term goes on to `cap`) -/
def modLoop (flag : String) (cap : Nat) : Syn :=
  .rep cap (fun _ => cap) [
    .cond (fun t => ¬ modDone flag t) [
      .ue "modification_of_pic_nums_idc",
      .cond (fun t => idc t = 0 ∨ idc t = 1) [.ue "abs_diff_pic_num_minus1"],
      .cond (fun t => idc t = 2) [.ue "long_term_pic_num"],
      .cond (fun t => idc t = 4 ∨ idc t = 5) [.ue "abs_diff_view_idx_minus1"]]]

def mmco (t : Trace) : Nat := t.nat "memory_management_control_operation"

def mmcoDone (t : Trace) : Bool :=
  ((sinceLast "adaptive_ref_pic_marking_mode_flag" t).all "memory_management_control_operation").any (· = 0)

def mmcoLoop (cap : Nat) : Syn :=
  .rep cap (fun _ => cap) [
    .cond (fun t => ¬ mmcoDone t) [
      .ue "memory_management_control_operation",
      .cond (fun t => mmco t = 1 ∨ mmco t = 3) [.ue "difference_of_pic_nums_minus1"],
      .cond (fun t => mmco t = 2) [.ue "long_term_pic_num"],
      .cond (fun t => mmco t = 3 ∨ mmco t = 6) [.ue "long_term_frame_idx"],
      .cond (fun t => mmco t = 4) [.ue "max_long_term_frame_idx_plus1"]]]

def predWeightList (sfx : String) (n : Trace → Nat) (signedChroma : Bool) : Syn :=
  .rep 32 (fun t => n t + 1) [
    .flag ("luma_weight_flag_" ++ sfx),
    .cond (fun t => t.get ("luma_weight_flag_" ++ sfx) = 1) [.ue ("luma_weight_" ++ sfx), .ue ("luma_offset_" ++ sfx)],
    .cond (fun t => (sp sm pm t).chromaArrayType ≠ 0) [
      .flag ("chroma_weight_flag_" ++ sfx),
      .cond (fun t => t.get ("chroma_weight_flag_" ++ sfx) = 1) [
        .rep 2 (fun _ => 2) (if signedChroma then [.se ("chroma_weight_" ++ sfx), .se ("chroma_offset_" ++ sfx)]
                             else [.ue ("chroma_weight_" ++ sfx), .ue ("chroma_offset_" ++ sfx)])]]]

def usesPredWeight (t : Trace) : Bool :=
  ((pp pm t).weightedPred ∧ (st t = 0 ∨ st t = 3)) ∨ ((pp pm t).weightedBipredIdc = 1 ∧ st t = 1)

/-- `sliceGroupChangeRate` (uint) -/
def changeRate (t : Trace) : Nat := ((pp pm t).sliceGroupChangeRateMinus1 + 1) % W64

/-- width of slice_group_change_cycle -/
def cycleBits (t : Trace) : Nat :=
  let r := changeRate pm t
  AvcPps.ceilLog2 ((((sp sm pm t).picSizeInMapUnits + r + W64 - 1) % W64 / r + 1) % W64)

def usesChangeCycle (t : Trace) : Bool :=
  (pp pm t).numSliceGroupsMinus1 > 0 ∧ 3 ≤ (pp pm t).sliceGroupMapType ∧ (pp pm t).sliceGroupMapType ≤ 5

def slice (cap : Nat) : List Syn := [
  .fld "nal_header" 8,
  .abort (fun t => ¬ [1, 2, 5, 19].contains (naluType t)),                     -- ErrNoSliceHeader
  .ue "first_mb_in_slice", .ue "slice_type", .ue "pic_parameter_set_id",
  .abort (fun t => (ppsOf pm t).isNone),                                      -- "pps ID unknown"
  .abort (fun t => (spsOf sm pm t).isNone),                                   -- "sps ID unknown"
  .abort (fun t => (sp sm pm t).log2MaxFrameNumMinus4 > 12 ∨ (sp sm pm t).log2MaxPocLsbMinus4 > 12),
  .cond (fun t => (sp sm pm t).separateColourPlane) [.fld "colour_plane_id" 2],
  .cond (fun _ => true) (varFld "frame_num" (fun t => (sp sm pm t).log2MaxFrameNumMinus4 + 4) 16),
  .cond (fun t => ¬ (sp sm pm t).frameMbsOnly) [
    .flag "field_pic_flag", .cond (fun t => t.get "field_pic_flag" = 1) [.flag "bottom_field_flag"]],
  .cond (fun t => naluType t = 5) [.ue "idr_pic_id"],
  .cond (fun t => (sp sm pm t).pocType = 0) [
    .cond (fun _ => true) (varFld "pic_order_cnt_lsb" (fun t => (sp sm pm t).log2MaxPocLsbMinus4 + 4) 16),
    .cond (fun t => (pp pm t).bottomFieldPicOrderInFramePresent ∧ t.get "field_pic_flag" = 0) [
      .se "delta_pic_order_cnt_bottom"]],
  .cond (fun t => (sp sm pm t).pocType = 1 ∧ ¬ (sp sm pm t).deltaPicOrderAlwaysZero) [
    .se "delta_pic_order_cnt_0",
    .cond (fun t => (pp pm t).bottomFieldPicOrderInFramePresent ∧ t.get "field_pic_flag" = 0) [
      .se "delta_pic_order_cnt_1"]],
  .cond (fun t => (pp pm t).redundantPicCntPresent) [.ue "redundant_pic_cnt"],
  .cond (fun t => st t = 1) [.flag "direct_spatial_mv_pred_flag"],
  .cond (fun t => st t = 0 ∨ st t = 3 ∨ st t = 1) [
    .flag "num_ref_idx_active_override_flag",
    .cond override [
      .ue "num_ref_idx_l0_active_minus1", .cond (fun t => st t = 1) [.ue "num_ref_idx_l1_active_minus1"]],
    .abort (fun t => numL0 pm t > 31 ∨ numL1 pm t > 31)],
  .cond (fun t => st t ≠ 2 ∧ st t ≠ 4) [
    .flag "ref_pic_list_modification_flag_l0",
    .cond (fun t => t.get "ref_pic_list_modification_flag_l0" = 1) [modLoop "ref_pic_list_modification_flag_l0" cap]],
  .cond (fun t => st t = 1) [
    .flag "ref_pic_list_modification_flag_l1",
    .cond (fun t => t.get "ref_pic_list_modification_flag_l1" = 1) [modLoop "ref_pic_list_modification_flag_l1" cap]],
  .cond (usesPredWeight pm) [
    .ue "luma_log2_weight_denom",
    .cond (fun t => (sp sm pm t).chromaArrayType ≠ 0) [.ue "chroma_log2_weight_denom"],
    predWeightList sm pm "l0" (numL0 pm) false,
    .cond (fun t => st t = 1) [predWeightList sm pm "l1" (numL1 pm) true]],
  .cond (fun t => nalRefIdc t ≠ 0) [
    .cond (fun t => naluType t = 5) [.flag "no_output_of_prior_pics_flag", .flag "long_term_reference_flag"],
    .cond (fun t => naluType t ≠ 5) [
      .flag "adaptive_ref_pic_marking_mode_flag",
      .cond (fun t => t.get "adaptive_ref_pic_marking_mode_flag" = 1) [mmcoLoop cap]]],
  .cond (fun t => (pp pm t).entropyCodingMode ∧ st t ≠ 2 ∧ st t ≠ 4) [.ue "cabac_init_idc"],
  .se "slice_qp_delta",
  .cond (fun t => st t = 3 ∨ st t = 4) [
    .cond (fun t => st t = 3) [.flag "sp_for_switch_flag"], .se "slice_qs_delta"],
  .cond (fun t => (pp pm t).deblockingFilterControlPresent) [
    .ue "disable_deblocking_filter_idc",
    .cond (fun t => t.nat "disable_deblocking_filter_idc" % 2 ^ 32 ≠ 1) [
      .se "slice_alpha_c0_offset_div2", .se "slice_beta_offset_div2"]],
  .cond (usesChangeCycle pm) [
    .abort (fun t => changeRate pm t = 0),
    .cond (fun _ => true) (varFld "slice_group_change_cycle" (cycleBits sm pm) 32)]]

end

inductive Result
  | fuel
  | err                                  -- the parser returns an error
  | trunc                                -- the NAL unit ended inside the header (the parser returns zeros from there on)
  | ok (t : Trace) (size : Nat)
deriving Repr, DecidableEq

def capOf (nalu : Bytes) : Nat := 8 * nalu.length + 8

def fuel (nalu : Bytes) : Nat := 64 * (nalu.length + 8) + 4096

/-- `ParseSliceHeader`; `size` = `NrBytesRead()` -/
def parseSlice (f : Nat) (sm : List SpsInfo) (pm : List PpsInfo) (nalu : Bytes) : Result :=
  match parse f (slice sm pm (capOf nalu)) [] { rest := nalu } with
  | none => .fuel
  | some (t, e) => if stopped t then .err else if e.err then .trunc else .ok t e.nrBytesRead

end Mp4ff.AvcSlice
