import Mp4ff.Model.Bits
/-!
M9 (audio part): aac/aac.go (AudioSpecificConfig) and aac/adts.go (ADTS header), on top of the
plain bit writer/reader of M1.
-/
namespace Mp4ff.Aac
open Mp4ff.Bits

/-- `FrequencyTable` (index → Hz); the extractor regenerates this literal from aac/aac.go and
    `Expect/Consts.lean` checks it is this list and that `ReverseFrequencies` is its inverse -/
def freqTable : List (Nat × Nat) :=
  [(0, 96000), (1, 88200), (2, 64000), (3, 48000), (4, 44100), (5, 32000), (6, 24000),
   (7, 22050), (8, 16000), (9, 12000), (10, 11025), (11, 8000), (12, 7350)]

def freqOfIndex (i : Nat) : Option Nat := (freqTable.find? (·.1 == i)).map (·.2)
def indexOfFreq (f : Nat) : Option Nat := (freqTable.find? (·.2 == f)).map (·.1)

structure ASC where
  objectType : Nat
  channelConfiguration : Nat
  samplingFrequency : Nat
  extensionFrequency : Nat
  sbrPresent : Bool
  psPresent : Bool
deriving Repr, DecidableEq

def writeFreq (w : BW) (f : Nat) : BW :=
  match indexOfFreq f with
  | some i => w.write i 4
  | none => (w.write 0x0f 4).write f 24

/-- `AudioSpecificConfig.Encode`; `none` = unsupported object type -/
def encodeASC (a : ASC) : Option Bytes :=
  if a.objectType = 2 ∨ a.objectType = 5 ∨ a.objectType = 29 then
    let w := ({} : BW).write a.objectType 5
    let w := writeFreq w a.samplingFrequency
    let w := w.write a.channelConfiguration 4
    let w := if a.objectType = 5 ∨ a.objectType = 29 then (writeFreq w a.extensionFrequency).write 2 5 else w
    let w := w.write 0 3
    some w.flush
  else none

/-- `getFrequency`: `none` = not ok -/
def getFrequency (r : BR) : BR × Option Nat :=
  let (r, idx) := r.read 4
  if idx = 0x0f then
    let (r, f) := r.read 24
    if r.err then (r, none) else (r, some f)
  else if r.err then (r, none)
  else (r, freqOfIndex (idx % 256))

inductive AscErr | unsupported | frequency | baseType
deriving Repr, DecidableEq

/-- `DecodeAudioSpecificConfig` -/
def decodeASC (bs : Bytes) : Except AscErr ASC :=
  let r : BR := { rest := bs }
  let (r, ot) := r.read 5
  let ot := ot % 256
  if ot = 2 ∨ ot = 5 ∨ ot = 29 then
    let sbr := ot = 5 ∨ ot = 29
    let ps := ot = 29
    match getFrequency r with
    | (_, none) => .error .frequency
    | (r, some f) =>
      let (r, ch) := r.read 4
      if ot = 5 ∨ ot = 29 then
        match getFrequency r with
        | (_, none) => .error .frequency
        | (r, some ef) =>
          let (_, base) := r.read 5
          if base % 256 ≠ 2 then .error .baseType
          else .ok ⟨ot, ch % 256, f, ef, sbr, ps⟩
      else
        -- audioObjectType is still `ot` = 2 here
        .ok ⟨ot, ch % 256, f, 0, sbr, ps⟩
  else .error .unsupported

/-! ## ADTS -/

structure ADTS where
  id : Nat
  objectType : Nat
  samplingFrequencyIndex : Nat
  channelConfig : Nat
  headerLength : Nat
  payloadLength : Nat
  bufferFullness : Nat
deriving Repr, DecidableEq

/-- `ADTSHeader.Encode` (`a.PayloadLength+7` is a uint16 sum) -/
def encodeADTS (a : ADTS) : Bytes :=
  BW.flush <| (((((((((({} : BW).write 0xfff 12).write 1 4).write ((a.objectType + W64 - 1) % W64) 2).write
    a.samplingFrequencyIndex 4).write 0 1).write a.channelConfig 3).write 0 4).write
    ((a.payloadLength + 7) % 65536) 13).write a.bufferFullness 11).write 0 2

structure SyncState where
  r : BR
  sync2 : Nat := 0
  offset : Int := 0
  mpegID : Nat := 0
  layer : Nat := 0
  protectionAbsent : Nat := 0
  found : Bool := false

/-- the 188-iteration sync search loop -/
def syncSearch : Nat → SyncState → SyncState
  | 0, st => st
  | n + 1, st =>
    let (r1, sync1, off1) :=
      if st.sync2 ≠ 0xff then
        let (r', b) := st.r.read 8
        (r', b % 256, st.offset)
      else (st.r, st.sync2, st.offset - 1)
    if sync1 = 0xff then
      let (r2, b2) := r1.read 8
      let sync2 := b2 % 256
      let startPattern := sync2 / 16
      let mpegID := (sync2 / 8) % 2
      let layer := (sync2 / 2) % 4
      let pa := sync2 % 2
      if startPattern = 0xf ∧ layer = 0 then
        { r := r2, sync2 := sync2, offset := off1, mpegID := mpegID, layer := layer,
          protectionAbsent := pa, found := true }
      else
        syncSearch n { r := r2, sync2 := sync2, offset := off1 + 2, mpegID := mpegID, layer := layer,
                       protectionAbsent := pa, found := false }
    else
      syncSearch n { st with r := r1, offset := off1 + 1 }

inductive AdtsErr | read | noSync | layer | rawBlocks
deriving Repr, DecidableEq

/-- `DecodeADTSHeader` → (header, offset) -/
def decodeADTS (bs : Bytes) : Except AdtsErr (ADTS × Int) :=
  let st := syncSearch 188 { r := { rest := bs } }
  if st.r.err then .error .read
  else if !st.found then .error .noSync
  else if st.layer ≠ 0 then .error .layer
  else
    let hl := if st.protectionAbsent ≠ 1 then 9 else 7
    let (r, profile) := st.r.read 2
    let (r, sfi) := r.read 4
    let (r, _) := r.read 1
    let (r, ch) := r.read 3
    let (r, _) := r.read 4
    let (r, frameLength) := r.read 13
    let (r, bf) := r.read 11
    let (r, nrb) := r.read 2
    if nrb ≠ 0 then .error .rawBlocks
    else
      let r := if st.protectionAbsent ≠ 1 then (r.read 16).1 else r
      if r.err then .error .read
      else .ok (⟨st.mpegID, (profile + 1) % 256, sfi % 256, ch % 256, hl,
                 (frameLength % 65536 + 65536 - hl) % 65536, bf % 65536⟩, st.offset)

end Mp4ff.Aac
