import Mp4ff.Model.Boxes
/-!
M6 (file level): how `DecodeFile` groups the top-level boxes of a fragmented file into media segments and fragments —
mp4/file.go `AddChild` (styp / emsg / moof / mdat / sidx cases) and `startSegmentIfNeeded` (sidx references, tfra
offsets with the ISM flag, the start-on-moof flag, default) — the arithmetic of `fillSidx`, and what `UpdateSidx`
computes from the segments (`MediaSegment.Size`, `Fragment.Size`, `MediaSegment.FirstBox`, `insertSidx`) after the
file was modified through `Fragment.AddEmsg` / `Fragment.AddChild` / `MediaSegment.AddFragment` /
`File.AddMediaSegment`.
-/
namespace Mp4ff.Segments
open Mp4ff.Boxes

inductive Kind where
  | ftyp | moov | styp | sidx | emsg | moof | mdat | mfra | other
deriving Repr, DecidableEq

structure Item where
  kind : Kind
  pos : Nat
  size : Nat
deriving Repr, DecidableEq

def kindOf (ty : String) : Kind :=
  if ty = "ftyp" then .ftyp else if ty = "moov" then .moov else if ty = "styp" then .styp else if ty = "sidx" then .sidx
  else if ty = "emsg" then .emsg else if ty = "moof" then .moof else if ty = "mdat" then .mdat
  else if ty = "mfra" then .mfra else .other

/-- top-level boxes of a file (stops at the first malformed header) -/
def topLevel : Nat → Bytes → Nat → List Item
  | 0, _, _ => []
  | fuel + 1, bs, pos =>
    match parseHeader bs with
    | none => []
    | some (ty, _, size) =>
      if size > bs.length then [] else ⟨kindOf ty, pos, size⟩ :: topLevel fuel (bs.drop size) (pos + size)

structure Frag where
  startPos : Nat
  moof : Option Nat := none      -- start position of its moof
  children : List Item := []
deriving Repr, DecidableEq

structure Seg where
  startPos : Nat
  hasStyp : Bool := false
  frags : List Frag := []
  stypSize : Nat := 0            -- size of the styp box that opened it (`MediaSegment.Styp`)
deriving Repr, DecidableEq

/-- one top-level sidx as `startSegmentIfNeeded` sees it: anchor point and (reference_type, referenced_size) list -/
structure Sidx where
  anchor : Nat
  refs : List (Nat × Nat)
deriving Repr, DecidableEq

structure St where
  segs : List Seg := []
  sidxs : List Sidx := []           -- file-level sidx boxes (added while no segment exists)
  tfra : Option (List Nat) := none  -- moof offsets of the first tfra (ISM flag)
  startOnMoof : Bool := false
deriving Repr

/-- the sidx loop: does a segment with index `segIdx` start at `pos`? `idx` is declared before the loop over `f.Sidxs`:
    it numbers the references of ALL top-level sidx boxes consecutively (it is not reset per box), while `startPos`
    restarts at each box's own anchor point. A sidx containing a reference_type 1 entry is skipped from that entry
    on, as the `continue sidxLoop` does (the references counted so far stay counted).
    Characterised by `C12.multi_sidx_delimits`. -/
def sidxStart (sidxs : List Sidx) (pos segIdx : Nat) : Bool :=
  let rec refsLoop : List (Nat × Nat) → Nat → Nat → Option Bool × Nat   -- (found?, idx)
    | [], _, idx => (none, idx)
    | (ty, sz) :: rest, start, idx =>
      if ty = 1 then (none, idx)
      else if pos = start ∧ idx = segIdx then (some true, idx)
      else refsLoop rest (start + sz) (idx + 1)
  let rec go : List Sidx → Nat → Bool
    | [], _ => false
    | sx :: rest, idx =>
      match refsLoop sx.refs sx.anchor idx with
      | (some b, _) => b
      | (none, idx') => go rest idx'
  go sidxs 0

/-- `startSegmentIfNeeded` -/
def startIfNeeded (st : St) (pos : Nat) : St :=
  let segIdx := st.segs.length
  let start :=
    if st.sidxs ≠ [] then sidxStart st.sidxs pos segIdx
    else match st.tfra with
      | some offs => (segIdx < offs.length ∧ pos = offs.getD segIdx 0) ∨ segIdx = 0
      | none => if st.startOnMoof then true else segIdx = 0
  -- a fragment must belong to a segment: the first one always starts a segment
  if start ∨ segIdx = 0 then { st with segs := st.segs ++ [{ startPos := pos }] } else st

def updLastSeg (st : St) (f : Seg → Seg) : St :=
  match st.segs.reverse with
  | [] => st
  | s :: rest => { st with segs := (f s :: rest).reverse }

def updLastFrag (s : Seg) (f : Frag → Frag) : Seg :=
  match s.frags.reverse with
  | [] => s
  | x :: rest => { s with frags := (f x :: rest).reverse }

/-- `File.AddChild` for the boxes of a fragmented file (`none` = the Go code dereferences a nil segment/fragment) -/
def addChild (st : St) (it : Item) (sidxOf : Item → Option Sidx) : Option St :=
  match it.kind with
  | .styp => some { st with segs := st.segs ++ [{ startPos := it.pos, hasStyp := true, stypSize := it.size }] }
  | .sidx =>
    if st.segs = [] then
      match sidxOf it with
      | some sx => some { st with sidxs := st.sidxs ++ [sx] }
      | none => some st
    else some st                      -- belongs to the current segment; not used for grouping
  | .emsg =>
    let st := startIfNeeded st it.pos
    if st.segs = [] then none else
    let st := updLastSeg st fun s => if s.frags = [] then { s with frags := [{ startPos := it.pos }] } else s
    some (updLastSeg st fun s => updLastFrag s fun f => { f with children := f.children ++ [it] })
  | .moof =>
    let open_ := match st.segs.getLast? with
      | some s => match s.frags.getLast? with
        | some f => f.moof.isNone
        | none => false
      | none => false
    let st := if open_ then st else startIfNeeded st it.pos
    if st.segs = [] then none else
    let st := updLastSeg st fun s =>
      match s.frags.getLast? with
      | some f => if f.moof.isSome then { s with frags := s.frags ++ [{ startPos := it.pos }] } else s
      | none => { s with frags := [{ startPos := it.pos }] }
    some (updLastSeg st fun s => updLastFrag s fun f => { f with moof := some it.pos, children := f.children ++ [it] })
  | .mdat =>
    match st.segs.getLast? with
    | none => none
    | some s => if s.frags = [] then none else
      some (updLastSeg st fun s => updLastFrag s fun f => { f with children := f.children ++ [it] })
  | _ => some st

def groupItems (st : St) (sidxOf : Item → Option Sidx) : List Item → Option St
  | [] => some st
  | it :: rest =>
    match addChild st it sidxOf with
    | none => none
    | some st' => groupItems st' sidxOf rest

/-- `fillSidx` + `insertSidx`: byte offset (from the anchor point) at which reference `i` starts -/
def refStart (sizes : List Nat) (i : Nat) : Nat := (sizes.take i).sum

/-! ### UpdateSidx: referenced sizes and the place of a new index -/

/-- `Fragment.Size()`: the boxes in `Children` -/
def Frag.size (f : Frag) : Nat := (f.children.map (·.size)).sum

/-- `MediaSegment.Size()`: styp + fragments (segment-level sidx boxes are not in the model) -/
def Seg.size (s : Seg) : Nat := s.stypSize + (s.frags.map Frag.size).sum

/-- `MediaSegment.FirstBox()`: the styp, else the first child of the first fragment -/
def Seg.firstBox (s : Seg) : Option Item :=
  if s.hasStyp then some ⟨.styp, s.startPos, s.stypSize⟩
  else match s.frags with
    | f :: _ => f.children.head?
    | [] => none

/-- `insertSidx`: index, in the list of top-level boxes (`File.Children`), in front of which the new sidx goes. The
    first box of the first segment is looked up by identity (a box is identified by kind, position, size; boxes added
    through the API carry positions beyond the end of the file); not found, or found at index 0: error return. -/
def insertIdx (items : List Item) (st : St) : Option Nat :=
  match st.segs with
  | [] => none
  | s :: _ =>
    match s.firstBox with
    | none => none
    | some b =>
      match items.findIdx? (· == b) with
      | some (i + 1) => some (i + 1)
      | _ => none

structure IndexOut where
  sizes : List Nat                -- referenced_size of every reference (`fillSidx`)
  firstOffset : Nat
  insertAt : Option Nat           -- `none`: the index existed and is refilled in place
deriving Repr, DecidableEq

inductive UpdOut where
  | error | nothing | index (o : IndexOut)
deriving Repr, DecidableEq

/-- `File.UpdateSidx` without the timing fields. `otherSidx`: written sizes of the top-level sidx boxes behind the
    first one (they stay between the index and the media). -/
def updateSidx (items : List Item) (st : St) (add : Bool) (otherSidx : List Nat) : UpdOut :=
  if st.segs = [] then .error
  else if st.sidxs ≠ [] then .index ⟨st.segs.map Seg.size, otherSidx.sum, none⟩
  else if !add then .nothing
  else match insertIdx items st with
    | none => .error
    | some i => .index ⟨st.segs.map Seg.size, 0, some i⟩

/-! ### modifications through the public API between decoding and UpdateSidx -/

def modifyAt {α} (l : List α) (i : Nat) (f : α → α) : List α :=
  match l, i with
  | [], _ => []
  | x :: xs, 0 => f x :: xs
  | x :: xs, i + 1 => x :: modifyAt xs i f

/-- `Fragment.AddEmsg`: behind the run of emsg boxes the fragment starts with -/
def Frag.addEmsg (f : Frag) (it : Item) : Frag :=
  let lead := f.children.takeWhile (·.kind == .emsg)
  { f with children := lead ++ it :: f.children.drop lead.length }

/-- `Fragment.AddChild`: appended -/
def Frag.addBox (f : Frag) (it : Item) : Frag :=
  { f with children := f.children ++ [it], moof := if it.kind == .moof then some it.pos else f.moof }

inductive ApiOp where
  | addEmsg (seg frag : Nat) (sizes : List Nat)          -- `Fragment.AddEmsg`, once per size
  | addChild (seg frag : Nat) (kind : Kind) (size : Nat) -- `Fragment.AddChild`
  | addFragment (seg : Nat) (boxes : List (Kind × Nat))  -- `MediaSegment.AddFragment` of a fragment built with AddChild
  | addSegment (styp : Option Nat)                       -- `File.AddMediaSegment` (with a styp of that size, or none)
  | setStyp (seg : Nat) (size : Nat)                     -- the segment's `Styp` field is set
deriving Repr

/-- boxes made by the caller get positions from `base` on (no box of the file sits there) -/
def applyOp (base : Nat) (st : St) : ApiOp → St
  | .addEmsg si fi sizes =>
    { st with segs := modifyAt st.segs si fun s => { s with frags := modifyAt s.frags fi fun f =>
        (sizes.zipIdx.foldl (fun f (z, j) => f.addEmsg ⟨.emsg, base + j, z⟩) f) } }
  | .addChild si fi k z =>
    { st with segs := modifyAt st.segs si fun s => { s with frags := modifyAt s.frags fi (·.addBox ⟨k, base, z⟩) } }
  | .addFragment si boxes =>
    let fr := boxes.zipIdx.foldl (fun (f : Frag) (kz, j) => f.addBox ⟨kz.1, base + j, kz.2⟩) { startPos := base }
    { st with segs := modifyAt st.segs si fun s => { s with frags := s.frags ++ [fr] } }
  | .addSegment styp =>
    { st with segs := st.segs ++ [match styp with
        | some z => { startPos := base, hasStyp := true, stypSize := z }
        | none => { startPos := base }] }
  | .setStyp si z =>
    { st with segs := modifyAt st.segs si fun s => if s.hasStyp then s else { s with hasStyp := true, stypSize := z } }

def applyOps (base : Nat) (st : St) : List ApiOp → St
  | [] => st
  | op :: rest => applyOps (base + 1000) (applyOp base st op) rest

end Mp4ff.Segments
