/-!
M10: the concurrency discipline of the library as an abstract machine (C20).

The library keeps no package-level mutable state apart from the decoder registries (a fact regenerated from the
sources on every run, see `Expect/Facts.lean`), so a goroutine's step reads the shared, immutable input and the
registries and reads/writes only the structures it decoded itself.  `System.step inp reg g l` is that step for
goroutine `g` with private state `l`.  A schedule is the list of goroutine ids in the order their steps happen.
-/
namespace Mp4ff.Conc

structure System (I R L : Type) where
  step : I → R → Nat → L → L

variable {I R L : Type}

/-- run a schedule: each entry lets that goroutine take one step on its own private state -/
def run (sys : System I R L) (inp : I) (reg : R) (sched : List Nat) (ls : Nat → L) : Nat → L :=
  sched.foldl (fun ls g => fun k => if k = g then sys.step inp reg g (ls g) else ls k) ls

/-- a goroutine running alone for `n` steps -/
def alone (sys : System I R L) (inp : I) (reg : R) (g : Nat) : Nat → L → L
  | 0, l => l
  | n + 1, l => alone sys inp reg g n (sys.step inp reg g l)

/-- a machine *with* hidden shared state `H` (what a package-level cache would be): steps read and write it -/
structure LeakySystem (I H L : Type) where
  step : I → H → Nat → L → H × L

def runLeaky {H : Type} (sys : LeakySystem I H L) (inp : I) (sched : List Nat) (h : H) (ls : Nat → L) : H × (Nat → L) :=
  sched.foldl (fun (s : H × (Nat → L)) g =>
    let r := sys.step inp s.1 g (s.2 g)
    (r.1, fun k => if k = g then r.2 else s.2 k)) (h, ls)

end Mp4ff.Conc
