import Mp4ff.Model.HevcSps
import Mp4ff.Model.AvcPps
/-!
M17: the HEVC picture parameter set (ISO/IEC 23008-2 7.3.2.3 with the range, multilayer (incl. the colour mapping
table and its recursive octants), 3D (depth look-up tables) and SCC extensions) as `hevc/pps.go` `ParsePPSNALUnit`
reads it: a `BitSyn` term (`pps spsIds cap`), then — as for the SPS — the `pps_extension_data_flag` look-ahead loop and
the `rbsp_trailing_bits` check on the reader.

As in `HevcSps`: variable-width reads are `varFld`/`varFldCap`, the octant recursion (depth ≤ 3 as cm_octant_depth is
u(2)) is unrolled, loops that run "count times or until the reader reports an error" are capped by `cap` ≥ the number
of bits of the NAL unit, and where the code returns on a reader error the term reads on (sticky error, same answer).
-/
namespace Mp4ff.HevcPps
open Mp4ff.BitSyn Mp4ff.Bits Mp4ff.HevcSps

/-- `Read(w t)` for lo ≤ width ≤ hi as a binary decision tree (the width function must not depend on the field itself) -/
def varFldT (nm : String) (w : Trace → Nat) : Nat → Nat → Nat → List Syn
  | 0, lo, _ => [.cond (fun t => w t = lo) [.fld nm lo]]
  | f + 1, lo, hi =>
    if lo ≥ hi then [.cond (fun t => w t = lo) [.fld nm lo]] else
    let mid := (lo + hi) / 2
    [.cond (fun t => w t ≤ mid) (varFldT nm w f lo mid), .cond (fun t => w t > mid) (varFldT nm w f (mid + 1) hi)]

/-- a read whose width can be anything: widths above `cap` (≥ bits in the NAL unit) cannot succeed -/
def varFldCap (nm : String) (w : Trace → Nat) (cap : Nat) : List Syn :=
  [.cond (fun t => w t ≤ cap) (varFldT nm w 64 0 cap), .seterr (fun t => w t > cap)]

/-- entries after the last occurrence of `marker` -/
def sinceLast (marker : String) (t : Trace) : Trace := (t.reverse.takeWhile (·.1 != marker)).reverse

/-! ### range extension -/

def rangeExt : List Syn := [
  .cond (fun t => t.get "transform_skip_enabled_flag" = 1) [.ue "log2_max_transform_skip_block_size_minus2"],
  .flag "cross_component_prediction_enabled_flag", .flag "chroma_qp_offset_list_enabled_flag",
  .cond (fun t => t.get "chroma_qp_offset_list_enabled_flag" = 1) [
    .ue "diff_cu_chroma_qp_offset_depth", .ue "chroma_qp_offset_list_len_minus1",
    .abort (fun t => t.nat "chroma_qp_offset_list_len_minus1" > 5),
    .rep 6 (fun t => t.nat "chroma_qp_offset_list_len_minus1" + 1) [.se "cb_qp_offset_list", .se "cr_qp_offset_list"]],
  .ue "log2_sao_offset_scale_luma", .ue "log2_sao_offset_scale_chroma"]

/-! ### multilayer extension with the colour mapping table -/

def octDepth (t : Trace) : Nat := t.nat "cm_octant_depth"

/-- `resLsBits`: Go `int` arithmetic on the uint bit depths, clamped at 0 -/
def resLsBits (t : Trace) : Nat :=
  let i (x : Int) : Int := wrapI64 ((x + 8) % 2 ^ 64)
  (wrapI64 (10 + i (t.get "luma_bit_depth_cm_input_minus8") - i (t.get "luma_bit_depth_cm_output_minus8")
    - t.get "cm_res_quant_bits" - (t.get "cm_delta_flc_bits_minus1" + 1))).toNat

def octLeaf (cap : Nat) : List Syn := [
  .rep 8 (fun t => 2 ^ t.nat "cm_y_part_num_log2") [
    .rep 4 (fun _ => 4) [
      .flag "coded_res_flag",
      .cond (fun t => t.get "coded_res_flag" = 1) [
        .rep 3 (fun _ => 3) ([.ue "res_coeff_q"] ++ varFldCap "res_coeff_r" resLsBits cap ++ [
          .cond (fun t => t.get "res_coeff_q" ≠ 0 ∨ t.get "res_coeff_r" ≠ 0) [.flag "res_coeff_s"]])]]]]

def splitName (d : Nat) : String := s!"split_octant_flag_d{d}"

/-- eight sub-octants, one after the other -/
def eight (child : List Syn) : List Syn :=
  [.cond (fun _ => true) child, .cond (fun _ => true) child, .cond (fun _ => true) child, .cond (fun _ => true) child,
   .cond (fun _ => true) child, .cond (fun _ => true) child, .cond (fun _ => true) child, .cond (fun _ => true) child]

/-- `parseColourMappingOctants` at depth `d` with the syntax `child` for the sub-octants -/
def octSplit (cap d : Nat) (child : List Syn) : List Syn :=
  [.cond (fun t => d < octDepth t) [.flag (splitName d)],
   .cond (fun t => d < octDepth t ∧ t.get (splitName d) = 1) (eight child),
   .cond (fun t => ¬ (d < octDepth t ∧ t.get (splitName d) = 1)) (octLeaf cap)]

/-- the recursion unrolled: cm_octant_depth is u(2), so an octant at depth 3 is never split -/
def octNode3 (cap : Nat) : List Syn := octLeaf cap
def octNode2 (cap : Nat) : List Syn := octSplit cap 2 (octNode3 cap)
def octNode1 (cap : Nat) : List Syn := octSplit cap 1 (octNode2 cap)
def octNode0 (cap : Nat) : List Syn := octSplit cap 0 (octNode1 cap)

def colourMappingTable (cap : Nat) : List Syn := [
  .ue "num_cm_ref_layers_minus1",
  .abort (fun t => t.nat "num_cm_ref_layers_minus1" > 61),
  .rep 62 (fun t => t.nat "num_cm_ref_layers_minus1" + 1) [.fld "cm_ref_layer_id" 6],
  .fld "cm_octant_depth" 2, .fld "cm_y_part_num_log2" 2,
  .ue "luma_bit_depth_cm_input_minus8", .ue "chroma_bit_depth_cm_input_minus8",
  .ue "luma_bit_depth_cm_output_minus8", .ue "chroma_bit_depth_cm_output_minus8",
  .fld "cm_res_quant_bits" 2, .fld "cm_delta_flc_bits_minus1" 2,
  .cond (fun t => octDepth t = 1) [.se "cm_adapt_threshold_u_delta", .se "cm_adapt_threshold_v_delta"]] ++
  octNode0 cap

def multilayerExt (cap : Nat) : List Syn := [
  .flag "poc_reset_info_present_flag", .flag "pps_infer_scaling_list_flag",
  .cond (fun t => t.get "pps_infer_scaling_list_flag" = 1) [.fld "pps_scaling_list_ref_layer_id" 6],
  .ue "num_ref_loc_offsets",
  .abort (fun t => t.nat "num_ref_loc_offsets" > 63),
  .rep 63 (fun t => t.nat "num_ref_loc_offsets") [
    .fld "ref_loc_offset_layer_id" 6,
    .flag "scaled_ref_layer_offset_present_flag",
    .cond (fun t => t.get "scaled_ref_layer_offset_present_flag" = 1) [
      .se "scaled_ref_layer_left_offset", .se "scaled_ref_layer_top_offset", .se "scaled_ref_layer_right_offset",
      .se "scaled_ref_layer_bottom_offset"],
    .flag "ref_region_offset_present_flag",
    .cond (fun t => t.get "ref_region_offset_present_flag" = 1) [
      .se "ref_region_left_offset", .se "ref_region_top_offset", .se "ref_region_right_offset",
      .se "ref_region_bottom_offset"],
    .flag "resample_phase_set_present_flag",
    .cond (fun t => t.get "resample_phase_set_present_flag" = 1) [
      .ue "phase_hor_luma", .ue "phase_ver_luma", .ue "phase_hor_chroma_plus8", .ue "phase_ver_chroma_plus8"]],
  .flag "colour_mapping_enabled_flag",
  .cond (fun t => t.get "colour_mapping_enabled_flag" = 1) (colourMappingTable cap)]

/-! ### 3D extension: depth look-up tables -/

/-- values of the depth layer being parsed -/
def cur (t : Trace) (nm : String) : Nat := (sinceLast "dlt_flag" t).nat nm

/-- `BitDepthForDepthLayersMinus8 + 8` (uint8 arithmetic; the field has 4 bits) -/
def dltBits (t : Trace) : Nat := t.nat "pps_bit_depth_for_depth_layers_minus8" + 8

def valFlagsPresent (t : Trace) : Bool := cur t "dlt_pred_flag" = 0 ∧ cur t "dlt_val_flags_present_flag" = 1

/-- was min_diff_minus1 coded for this layer? -/
def minCoded (t : Trace) : Bool := cur t "num_val_delta_dlt" > 2 ∧ cur t "max_diff" > 0

/-- `dd.MinDiffMinus1 + 1` (uint arithmetic: max_diff − 1 + 1 when not coded) -/
def minDiff (t : Trace) : Nat := if minCoded t then cur t "min_diff_minus1" + 1 else cur t "max_diff"

def deltaDlt (cap : Nat) : List Syn :=
  varFld "num_val_delta_dlt" dltBits 23 ++ [
  .cond (fun t => cur t "num_val_delta_dlt" > 0) (
    [.cond (fun t => cur t "num_val_delta_dlt" > 1) (varFld "max_diff" dltBits 23),
     .cond minCoded (varFld "min_diff_minus1" (fun t => AvcPps.ceilLog2 (cur t "max_diff" + 1)) 32)] ++
    varFld "delta_dlt_val0" dltBits 23 ++ [
    .cond (fun t => cur t "max_diff" > minDiff t) [
      .rep cap (fun t => cur t "num_val_delta_dlt" - 1)
        (varFld "delta_val_diff_minus_min" (fun t => AvcPps.ceilLog2 (cur t "max_diff" - minDiff t + 1)) 32)]])]

def ext3d (cap : Nat) : List Syn := [
  .flag "dlts_present_flag",
  .cond (fun t => t.get "dlts_present_flag" = 1) [
    .fld "pps_depth_layers_minus1" 6, .fld "pps_bit_depth_for_depth_layers_minus8" 4,
    .rep 64 (fun t => t.nat "pps_depth_layers_minus1" + 1) [
      .flag "dlt_flag",
      .cond (fun t => t.get "dlt_flag" = 1) [
        .flag "dlt_pred_flag",
        .cond (fun t => t.get "dlt_pred_flag" = 0) [.flag "dlt_val_flags_present_flag"],
        .cond valFlagsPresent [.rep cap (fun t => 2 ^ dltBits t) [.flag "dlt_value_flag"]],
        .cond (fun t => ¬ valFlagsPresent t) (deltaDlt cap)]]]]

/-! ### SCC extension -/

def paletteBad (t : Trace) : Bool :=
  t.nat "luma_bit_depth_entry_minus8" > 8 ∨ t.nat "chroma_bit_depth_entry_minus8" > 8

def sccExt (cap : Nat) : List Syn := [
  .flag "pps_curr_pic_ref_enabled_flag", .flag "residual_adaptive_colour_transform_enabled_flag",
  .cond (fun t => t.get "residual_adaptive_colour_transform_enabled_flag" = 1) [
    .flag "pps_slice_act_qp_offsets_present_flag", .se "pps_act_y_qp_offset_plus5", .se "pps_act_cb_qp_offset_plus5",
    .se "pps_act_cr_qp_offset_plus3"],
  .flag "pps_palette_predictor_initializers_present_flag",
  .cond (fun t => t.get "pps_palette_predictor_initializers_present_flag" = 1) [
    .ue "pps_num_palette_predictor_initializers",
    .cond (fun t => t.nat "pps_num_palette_predictor_initializers" > 0) [
      .flag "monochrome_palette_flag", .ue "luma_bit_depth_entry_minus8",
      .cond (fun t => t.get "monochrome_palette_flag" = 0) [.ue "chroma_bit_depth_entry_minus8"],
      .abort paletteBad,
      .rep cap (fun t => t.nat "pps_num_palette_predictor_initializers")
        (varFld "pps_palette_predictor_initializer_luma" (fun t => t.nat "luma_bit_depth_entry_minus8" + 8) 16),
      .cond (fun t => t.get "monochrome_palette_flag" = 0) [
        .rep cap (fun t => t.nat "pps_num_palette_predictor_initializers")
          (varFld "pps_palette_predictor_initializer_cb" (fun t => t.nat "chroma_bit_depth_entry_minus8" + 8) 16),
        .rep cap (fun t => t.nat "pps_num_palette_predictor_initializers")
          (varFld "pps_palette_predictor_initializer_cr" (fun t => t.nat "chroma_bit_depth_entry_minus8" + 8) 16)]]]]

/-! ### the PPS -/

/-- `spsIds`: the keys of the SPS map -/
def ppsHead (spsIds : List Nat) (cap : Nat) : List Syn := [
  .fld "nal_header" 16,
  .abort (fun t => t.nat "nal_header" / 512 % 64 ≠ 34),                      -- ErrNotPPS
  .ue "pps_pic_parameter_set_id", .ue "pps_seq_parameter_set_id",
  .abort (fun t => ¬ spsIds.contains (t.nat "pps_seq_parameter_set_id" % 2 ^ 32)),   -- "sps ID not found in map"
  .flag "dependent_slice_segments_enabled_flag", .flag "output_flag_present_flag",
  .fld "num_extra_slice_header_bits" 3, .flag "sign_data_hiding_enabled_flag", .flag "cabac_init_present_flag",
  .ue "num_ref_idx_l0_default_active_minus1", .ue "num_ref_idx_l1_default_active_minus1", .se "init_qp_minus26",
  .flag "constrained_intra_pred_flag", .flag "transform_skip_enabled_flag", .flag "cu_qp_delta_enabled_flag",
  .cond (fun t => t.get "cu_qp_delta_enabled_flag" = 1) [.ue "diff_cu_qp_delta_depth"],
  .se "pps_cb_qp_offset", .se "pps_cr_qp_offset", .flag "pps_slice_chroma_qp_offsets_present_flag",
  .flag "weighted_pred_flag", .flag "weighted_bipred_flag", .flag "transquant_bypass_enabled_flag",
  .flag "tiles_enabled_flag", .flag "entropy_coding_sync_enabled_flag",
  .cond (fun t => t.get "tiles_enabled_flag" = 1) [
    .ue "num_tile_columns_minus1", .ue "num_tile_rows_minus1", .flag "uniform_spacing_flag",
    .cond (fun t => t.get "uniform_spacing_flag" = 0) [
      .rep cap (fun t => t.nat "num_tile_columns_minus1") [.ue "column_width_minus1"],
      .rep cap (fun t => t.nat "num_tile_rows_minus1") [.ue "row_height_minus1"]],
    .flag "loop_filter_across_tiles_enabled_flag"],
  .flag "pps_loop_filter_across_slices_enabled_flag", .flag "deblocking_filter_control_present_flag",
  .cond (fun t => t.get "deblocking_filter_control_present_flag" = 1) [
    .flag "deblocking_filter_override_enabled_flag", .flag "pps_deblocking_filter_disabled_flag",
    .cond (fun t => t.get "pps_deblocking_filter_disabled_flag" = 0) [.se "pps_beta_offset_div2", .se "pps_tc_offset_div2"]],
  .flag "pps_scaling_list_data_present_flag",
  .cond (fun t => t.get "pps_scaling_list_data_present_flag" = 1) scalingListData,
  .flag "lists_modification_present_flag", .ue "log2_parallel_merge_level_minus2",
  .flag "slice_segment_header_extension_present_flag", .flag "pps_extension_present_flag",
  .cond (fun t => t.get "pps_extension_present_flag" = 1) [
    .flag "pps_range_extension_flag", .flag "pps_multilayer_extension_flag", .flag "pps_3d_extension_flag",
    .flag "pps_scc_extension_flag", .fld "pps_extension_4bits" 4],
  .cond (fun t => t.get "pps_range_extension_flag" = 1) rangeExt]

def pps (spsIds : List Nat) (cap : Nat) : List Syn :=
  ppsHead spsIds cap ++ [
  .cond (fun t => t.get "pps_multilayer_extension_flag" = 1) (multilayerExt cap),
  .cond (fun t => t.get "pps_3d_extension_flag" = 1) (ext3d cap),
  .cond (fun t => t.get "pps_scc_extension_flag" = 1) (sccExt cap)]

inductive Result
  | fuel
  | err
  | ok (t : Trace) (extData : List Bool)
deriving Repr, DecidableEq

def capOf (nalu : Bytes) : Nat := 8 * nalu.length + 8

/-- driver fuel (any value ≥ the need gives the same answer: `parse_fuel_mono`) -/
def fuel (nalu : Bytes) : Nat := 64 * (nalu.length + 8) + 16384

/-- `ParsePPSNALUnit` -/
def parsePps (f : Nat) (spsIds : List Nat) (nalu : Bytes) : Result :=
  match parse f (pps spsIds (capOf nalu)) [] { rest := nalu } with
  | none => .fuel
  | some (t, e) =>
    if stopped t ∨ e.err then .err else
    let (e2, fl) := if t.nat "pps_extension_4bits" > 0 then extFlags (e.bitsLeft + 1) e [] else (e, [])
    let (e3, te) := Sei.readTrailing e2
    if te ≠ .none ∨ e3.err then .err else .ok t fl

end Mp4ff.HevcPps
