/-!
C04: the second-stage `senc` parser's size check (mp4/senc.go, `SencBox.ParseReadBox`, branch without sub-sample
entries). Inputs: the per-sample IV size handed in by the context (tenc / seig; 0 = unknown, to be inferred), the
announced sample count and the number of per-sample bytes present in the box. All quantities are natural numbers: the
Go code compares `uint64(ivSize) * uint64(sampleCount)` with the bytes left, which cannot wrap (8-bit x 32-bit).
-/
namespace Mp4ff.SencSize

/-- the IV size the parser works with: the one given, or `byte(bytesLeft / sampleCount)` when none is known -/
def effIV (iv count left : Nat) : Nat := if iv = 0 then (left / count) % 256 else iv

/-- number of IV slots the parser allocates (`make([]InitializationVector, 0, nrIVs)`); 0 when the size check rejects -/
def slots (iv count left : Nat) : Nat :=
  let v := effIV iv count left
  if v * count > left then 0 else if v = 0 then 0 else count

/-- outcome: `some (iv size recorded, IVs read)` or `none` = an error is returned -/
def parse (iv count left : Nat) : Option (Nat × Nat) :=
  let v := effIV iv count left
  if v * count > left then none
  else if v = 0 then some (0, 0)
  else if v = 8 ∨ v = 16 then some (v, count)
  else none

end Mp4ff.SencSize
