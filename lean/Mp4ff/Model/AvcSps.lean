import Mp4ff.Model.BitSyn
/-!
M14: the AVC sequence parameter set syntax (ISO/IEC 14496-10 7.3.2.1.1, E.1.1, E.1.2) as `avc/sps.go`
`ParseSPSNALUnit(data, true)` reads it, as a `BitSyn` term, plus the derived picture size.
-/
namespace Mp4ff.AvcSps
open Mp4ff.BitSyn

def highProfiles : List Nat := [100, 110, 122, 244, 44, 83, 86, 118, 128, 138, 139, 134, 135]

/-- deltas read so far for the scaling list being parsed = the `delta_scale` entries after the last
    `scaling_list_present` entry -/
def currentDeltas (t : Trace) : List Int :=
  ((t.reverse.takeWhile (·.1 != "scaling_list_present")).reverse.filter (·.1 == "delta_scale")).map (·.2)

/-- `readScalingList`: (lastScale, nextScale) after the given deltas; reading stops once nextScale = 0 -/
def scaleState (deltas : List Int) : Int × Int :=
  deltas.foldl (fun (s : Int × Int) d =>
    if s.2 = 0 then s else
    let next := (s.1 + d + 256).tmod 256      -- Go's % truncates toward zero (negative for hostile deltas)
    if next = 0 then (s.1, 0) else (next, next)) (8, 8)

/-- does the next coefficient read a delta? -/
def needDelta (t : Trace) : Bool := (scaleState (currentDeltas t)).2 != 0

/-- size of the scaling list being parsed: index = number of presence flags read so far - 1 -/
def listSize (t : Trace) : Nat := if (t.all "scaling_list_present").length ≤ 6 then 16 else 64

def hrd : List Syn := [
  .ue "cpb_cnt_minus1",
  -- cpb_cnt_minus1 > 31: SetError and return from parseHrdParameters (the rest of the VUI is still read, as zeros)
  .seterr (fun t => t.nat "cpb_cnt_minus1" > 31),
  .cond (fun t => t.nat "cpb_cnt_minus1" ≤ 31) [
    .fld "bit_rate_scale" 4, .fld "cpb_size_scale" 4,
    .rep 32 (fun t => t.nat "cpb_cnt_minus1" + 1) [.ue "bit_rate_value_minus1", .ue "cpb_size_value_minus1", .flag "cbr_flag"],
    .fld "initial_cpb_removal_delay_length_minus1" 5, .fld "cpb_removal_delay_length_minus1" 5,
    .fld "dpb_output_delay_length_minus1" 5, .fld "time_offset_length" 5]]

def vui : List Syn := [
  .flag "aspect_ratio_info_present_flag",
  .cond (fun t => t.get "aspect_ratio_info_present_flag" = 1) [
    .fld "aspect_ratio_idc" 8,
    .cond (fun t => t.get "aspect_ratio_idc" = 255) [.fld "sar_width" 16, .fld "sar_height" 16]],
  .flag "overscan_info_present_flag",
  .cond (fun t => t.get "overscan_info_present_flag" = 1) [.flag "overscan_appropriate_flag"],
  .flag "video_signal_type_present_flag",
  .cond (fun t => t.get "video_signal_type_present_flag" = 1) [
    .fld "video_format" 3, .flag "video_full_range_flag", .flag "colour_description_present_flag",
    .cond (fun t => t.get "colour_description_present_flag" = 1) [
      .fld "colour_primaries" 8, .fld "transfer_characteristics" 8, .fld "matrix_coefficients" 8]],
  .flag "chroma_loc_info_present_flag",
  .cond (fun t => t.get "chroma_loc_info_present_flag" = 1) [
    .ue "chroma_sample_loc_type_top_field", .ue "chroma_sample_loc_type_bottom_field"],
  .flag "timing_info_present_flag",
  .cond (fun t => t.get "timing_info_present_flag" = 1) [
    .fld "num_units_in_tick" 32, .fld "time_scale" 32, .flag "fixed_frame_rate_flag"],
  .flag "nal_hrd_parameters_present_flag",
  .cond (fun t => t.get "nal_hrd_parameters_present_flag" = 1) hrd,
  .flag "vcl_hrd_parameters_present_flag",
  .cond (fun t => t.get "vcl_hrd_parameters_present_flag" = 1) hrd,
  .cond (fun t => t.get "nal_hrd_parameters_present_flag" = 1 || t.get "vcl_hrd_parameters_present_flag" = 1) [
    .flag "low_delay_hrd_flag"],
  .flag "pic_struct_present_flag",
  .flag "bitstream_restriction_flag",
  .cond (fun t => t.get "bitstream_restriction_flag" = 1) [
    .flag "motion_vectors_over_pic_boundaries_flag", .ue "max_bytes_per_pic_denom", .ue "max_bits_per_mb_denom",
    .ue "log2_max_mv_length_horizontal", .ue "log2_max_mv_length_vertical", .ue "max_num_reorder_frames",
    .ue "max_dec_frame_buffering"]]

/-- offsets of poc type 1 are se(v) in the standard; `signedOffsets` = how the code reads them -/
def sps (signedOffsets : Bool) : List Syn :=
  let off (nm : String) : Syn := if signedOffsets then .se nm else .ue nm
  [
  .fld "nal_header" 8, .fld "profile_idc" 8, .fld "constraint_flags" 8, .fld "level_idc" 8, .ue "seq_parameter_set_id",
  .cond (fun t => highProfiles.contains (t.nat "profile_idc")) [
    .ue "chroma_format_idc",
    -- `sps.ChromaFormatIDC = byte(reader.ReadExpGolomb())`: the parser keeps the low 8 bits
    .cond (fun t => t.nat "chroma_format_idc" % 256 = 3) [.flag "separate_colour_plane_flag"],
    .ue "bit_depth_luma_minus8", .ue "bit_depth_chroma_minus8", .flag "qpprime_y_zero_transform_bypass_flag",
    .flag "seq_scaling_matrix_present_flag",
    .cond (fun t => t.get "seq_scaling_matrix_present_flag" = 1) [
      .rep 12 (fun t => if t.nat "chroma_format_idc" % 256 = 3 then 12 else 8) [
        .flag "scaling_list_present",
        .cond (fun t => t.get "scaling_list_present" = 1) [
          .rep 64 listSize [.cond needDelta [.se "delta_scale"]]]]]],
  .ue "log2_max_frame_num_minus4", .ue "pic_order_cnt_type",
  .cond (fun t => t.get "pic_order_cnt_type" = 0) [.ue "log2_max_pic_order_cnt_lsb_minus4"],
  .cond (fun t => t.get "pic_order_cnt_type" = 1) [
    .flag "delta_pic_order_always_zero_flag", off "offset_for_non_ref_pic", off "offset_for_top_to_bottom_field",
    .ue "num_ref_frames_in_pic_order_cnt_cycle",
    .abort (fun t => t.nat "num_ref_frames_in_pic_order_cnt_cycle" > 255),
    .rep 255 (fun t => t.nat "num_ref_frames_in_pic_order_cnt_cycle") [off "offset_for_ref_frame"]],
  .ue "max_num_ref_frames", .flag "gaps_in_frame_num_value_allowed_flag",
  .ue "pic_width_in_mbs_minus1", .ue "pic_height_in_map_units_minus1", .flag "frame_mbs_only_flag",
  .cond (fun t => t.get "frame_mbs_only_flag" = 0) [.flag "mb_adaptive_frame_field_flag"],
  .flag "direct_8x8_inference_flag", .flag "frame_cropping_flag",
  .cond (fun t => t.get "frame_cropping_flag" = 1) [
    .ue "frame_crop_left_offset", .ue "frame_crop_right_offset", .ue "frame_crop_top_offset", .ue "frame_crop_bottom_offset"],
  .flag "vui_parameters_present_flag",
  .cond (fun t => t.get "vui_parameters_present_flag" = 1) vui]

/-- chroma_format_idc as the parser infers it: 1 unless coded (profile 138 starts from 0 but always codes it) -/
def chromaFormat (t : Trace) : Nat :=
  if highProfiles.contains (t.nat "profile_idc") then t.nat "chroma_format_idc" % 256 else 1

/-- width / height as `ParseSPSNALUnit` computes them: Go `uint` arithmetic, i.e. modulo 2^64 with wrapping
    subtraction (`none` = "non-valid chroma_format_idc" error) -/
def dims (t : Trace) : Option (Nat × Nat) :=
  let W := Mp4ff.Bits.W64
  let w := ((t.nat "pic_width_in_mbs_minus1" + 1) % W * 16) % W
  let fmo := t.nat "frame_mbs_only_flag"
  let h0 := ((t.nat "pic_height_in_map_units_minus1" + 1) % W * 16) % W
  let h := if fmo = 1 then h0 else (h0 * 2) % W
  if t.get "frame_cropping_flag" = 1 then
    let cu : Option (Nat × Nat) := match chromaFormat t with
      | 0 => some (1, 2 - fmo)
      | 1 => some (2, 2 * (2 - fmo))
      | 2 => some (2, 2 - fmo)
      | 3 => some (1, 2 - fmo)
      | _ => none
    cu.map fun (cx, cy) =>
      let cw := ((t.nat "frame_crop_left_offset" + t.nat "frame_crop_right_offset") % W * cx) % W
      let ch := ((t.nat "frame_crop_top_offset" + t.nat "frame_crop_bottom_offset") % W * cy) % W
      ((w + W - cw) % W, (h + W - ch) % W)
  else some (w, h)

/-- the cropping rectangle lies inside the coded picture and the coded size is below 2^64 (what the standard
    requires of a valid SPS: 7.4.2.1.1) -/
def CropFits (t : Trace) : Prop :=
  let fmo := t.nat "frame_mbs_only_flag"
  let w := (t.nat "pic_width_in_mbs_minus1" + 1) * 16
  let h := (t.nat "pic_height_in_map_units_minus1" + 1) * 16 * (2 - fmo)
  h < Mp4ff.Bits.W64 ∧ w < Mp4ff.Bits.W64 ∧
  (t.get "frame_cropping_flag" = 1 →
    2 * (t.nat "frame_crop_left_offset" + t.nat "frame_crop_right_offset") ≤ w ∧
    4 * (t.nat "frame_crop_top_offset" + t.nat "frame_crop_bottom_offset") ≤ h)

/-- the standard's derivation (7.4.2.1.1): SubWidthC/SubHeightC by chroma_format_idc, ChromaArrayType,
    CropUnitX/Y, PicWidthInSamples, FrameHeightInMbs -/
def stdDims (t : Trace) : Option (Nat × Nat) :=
  let chroma := chromaFormat t
  let sep := t.get "separate_colour_plane_flag" = 1
  let sub : Option (Nat × Nat) := match chroma with
    | 1 => some (2, 2) | 2 => some (2, 1) | 3 => some (1, 1) | 0 => some (1, 1) | _ => none
  let chromaArrayType := if sep then 0 else chroma
  let fmo := t.nat "frame_mbs_only_flag"
  let picWidthInSamples := (t.nat "pic_width_in_mbs_minus1" + 1) * 16
  let frameHeightInMbs := (2 - fmo) * (t.nat "pic_height_in_map_units_minus1" + 1)
  if t.get "frame_cropping_flag" = 1 then
    sub.map fun (sw, sh) =>
      let cropUnitX := if chromaArrayType = 0 then 1 else sw
      let cropUnitY := if chromaArrayType = 0 then 2 - fmo else sh * (2 - fmo)
      (picWidthInSamples - cropUnitX * (t.nat "frame_crop_left_offset" + t.nat "frame_crop_right_offset"),
       16 * frameHeightInMbs - cropUnitY * (t.nat "frame_crop_top_offset" + t.nat "frame_crop_bottom_offset"))
  else some (picWidthInSamples, 16 * frameHeightInMbs)

/-- scaling lists as `readScalingList` derives them from the deltas of one list -/
def scalingList (size : Nat) (deltas : List Int) : List Int :=
  let rec go : Nat → List Int → Int → Int → List Int
    | 0, _, _, _ => []
    | n + 1, ds, last, next =>
      if next ≠ 0 then
        match ds with
        | d :: ds' =>
          let next' := (last + d + 256).tmod 256
          let v := if next' = 0 then last else next'
          v :: go n ds' v next'
        | [] => last :: go n [] last next      -- cannot happen for a parsed trace
      else last :: go n ds last next
  go size deltas 8 8

def fuel (nalu : Bytes) : Nat := 64 * (nalu.length + 8) + 4096

end Mp4ff.AvcSps
