import Mp4ff.Model.Boxes
import Mp4ff.Model.BoxTree
/-!
M9: init segments built through the API (mp4/initsegment.go `CreateEmptyInit`, `AddEmptyTrack`, `CreateEmptyTrak`;
mp4/moov.go `MoovBox.AddChild`; mp4/mvex.go; mp4/mdhd.go `SetLanguage`/`GetLanguage`; mp4/hdlr.go `CreateHdlr`).

The model keeps the bookkeeping state the property is about (moov children order, `Traks`, `Trexs`, `NextTrackID`)
and also produces the complete byte image of the init segment, so the correspondence compares whole encodings.
Sample entries (set by the `Set…Descriptor` calls) are opaque byte strings handed to the model together with the
width/height the video setters store in the tkhd.
-/
namespace Mp4ff.Init
open Mp4ff.BoxTree

/-- what the caller supplies per track -/
structure TrackSpec where
  timescale : Nat
  media : String
  lang : String
  width : Nat := 0          -- set by Set{AVC,HEVC}Descriptor
  height : Nat := 0
  entries : List Bytes := []   -- encoded sample entries, in order
deriving Repr, DecidableEq

structure Trak where
  id : Nat
  spec : TrackSpec
deriving Repr, DecidableEq

inductive Child where
  | mvhd
  | mvex
  | trak (t : Trak)
  | other (ty : String)
deriving Repr, DecidableEq

def Child.isTrak : Child → Bool
  | .trak _ => true
  | _ => false

/-- index of the last trak among the children (0 when there is none) — the loop in `MoovBox.AddChild` -/
def lastTrakIdxFrom : List Child → Nat → Nat → Nat
  | [], _, acc => acc
  | c :: cs, i, acc => lastTrakIdxFrom cs (i + 1) (if c.isTrak then i else acc)

def lastTrakIdx (cs : List Child) : Nat := lastTrakIdxFrom cs 0 0

/-- `MoovBox.AddChild` on the ordered child list: a trak is put right after the last previous trak when that one is
    neither at index 0 nor last; everything else is appended -/
def moovAddChild (cs : List Child) (c : Child) : List Child :=
  if c.isTrak then
    let l := lastTrakIdx cs
    if l ≠ 0 ∧ l + 1 ≠ cs.length then cs.take (l + 1) ++ [c] ++ cs.drop (l + 1) else cs ++ [c]
  else cs ++ [c]

structure St where
  children : List Child := []     -- moov.Children
  traks : List Trak := []         -- moov.Traks
  trexs : List Nat := []          -- track ids of moov.Mvex.Trexs
  next : Nat := 2                 -- moov.Mvhd.NextTrackID (CreateMvhd sets 2)
deriving Repr

/-- `CreateEmptyInit` -/
def empty : St := { children := [.mvhd, .mvex] }

/-- `AddEmptyTrack` -/
def addEmptyTrack (st : St) (sp : TrackSpec) : St :=
  let id := st.traks.length + 1
  let t : Trak := ⟨id, sp⟩
  { children := moovAddChild st.children (.trak t), traks := st.traks ++ [t], trexs := st.trexs ++ [id], next := id + 1 }

def build (specs : List TrackSpec) : St := specs.foldl addEmptyTrack empty

/-- the traks in child order -/
def childTraks (cs : List Child) : List Trak := cs.filterMap fun c => match c with | .trak t => some t | _ => none

/-! ### language code (mdhd) -/

/-- `SetLanguage`: three 5-bit values, `(c - 0x60) & 0x1f` = `c mod 32` -/
def packLang (cs : List Nat) : Nat :=
  match cs with
  | [a, b, c] => (a % 32) * 1024 + (b % 32) * 32 + c % 32
  | _ => 0

/-- `GetLanguage` -/
def unpackLang (code : Nat) : List Nat := [(code / 1024) % 32 + 0x60, (code / 32) % 32 + 0x60, code % 32 + 0x60]

def und : List Nat := [117, 110, 100]

/-- language field of the mdhd and optional elng text, as `CreateEmptyTrak` sets them -/
def langFields (lang : String) : Nat × Option String :=
  let bs := lang.toUTF8.toList.map (·.toNat)
  if bs.length = 3 then (packLang bs, none) else (packLang und, some lang)

/-! ### handler and media header per media type -/

/-- `CreateHdlr`: handler type and name -/
def hdlrOf (media : String) : String × String :=
  if media = "video" ∨ media = "vide" then ("vide", "mp4ff video handler")
  else if media = "audio" ∨ media = "soun" then ("soun", "mp4ff audio handler")
  else if media = "subtitle" ∨ media = "subt" then ("subt", "mp4ff subtitle handler")
  else if media = "text" ∨ media = "wvtt" then ("text", "mp4ff text handler")
  else if media = "meta" then ("meta", "mp4ff timed metadata handler")
  else if media = "clcp" then ("subt", "mp4ff closed captions handler")
  else (media, "mp4ff " ++ media ++ " handler")

/-- media header box type chosen by `CreateEmptyTrak` -/
def mediaHeaderOf (media : String) : String :=
  if media = "video" then "vmhd"
  else if media = "audio" then "smhd"
  else if media = "subtitle" ∨ media = "subtitles" ∨ media = "stpp" then "sthd"
  else "nmhd"

/-! ### byte image -/

def str (s : String) : Bytes := s.toUTF8.toList.map (·.toNat)
def z (n : Nat) : Bytes := List.replicate n 0
def leaf (ty : String) (p : Bytes) : Tree := .leaf (str ty) p
def node (ty : String) (cs : List Tree) : Tree := .node (str ty) cs

def ftyp : Tree := leaf "ftyp" (str "cmfc" ++ z 4 ++ str "dash" ++ str "iso6")

def mvhd (next : Nat) : Tree :=
  leaf "mvhd" (z 4 ++ z 8 ++ beBytes 4 90000 ++ z 4 ++ beBytes 4 0x10000 ++ beBytes 2 0x100 ++ z 10 ++
    Boxes.unityMatrix ++ z 24 ++ beBytes 4 next)

def tkhd (t : Trak) : Tree :=
  leaf "tkhd" ([0, 0, 0, 7] ++ z 8 ++ beBytes 4 t.id ++ z 4 ++ z 4 ++ z 8 ++ z 2 ++ z 2 ++
    beBytes 2 (if t.spec.media = "audio" then 0x100 else 0) ++ z 2 ++ Boxes.unityMatrix ++
    beBytes 4 (t.spec.width * 65536) ++ beBytes 4 (t.spec.height * 65536))

def mediaHeader (media : String) : Tree :=
  let ty := mediaHeaderOf media
  if ty = "vmhd" then leaf ty ([0, 0, 0, 1] ++ z 8)
  else if ty = "smhd" then leaf ty (z 8)
  else leaf ty (z 4)

def stsd (entries : List Bytes) : Tree :=
  leaf "stsd" (z 4 ++ beBytes 4 entries.length ++ entries.flatten)

def trak (t : Trak) : Tree :=
  let (code, elng) := langFields t.spec.lang
  let (h, name) := hdlrOf t.spec.media
  node "trak" [
    tkhd t,
    node "mdia" ([
      leaf "mdhd" (z 4 ++ z 8 ++ beBytes 4 t.spec.timescale ++ z 4 ++ beBytes 2 code ++ z 2),
      leaf "hdlr" (z 4 ++ z 4 ++ str h ++ z 12 ++ str name ++ [0])] ++
      (match elng with | some l => [leaf "elng" (z 4 ++ str l ++ [0])] | none => []) ++ [
      node "minf" [
        mediaHeader t.spec.media,
        node "dinf" [leaf "dref" (z 4 ++ beBytes 4 1 ++ (leaf "url " [0, 0, 0, 1]).enc)],
        node "stbl" [stsd t.spec.entries, leaf "stts" (z 8), leaf "stsc" (z 8), leaf "stsz" (z 12), leaf "stco" (z 8)]]])]

def trex (id : Nat) : Tree := leaf "trex" (z 4 ++ beBytes 4 id ++ beBytes 4 1 ++ z 12)

def childTree (st : St) : Child → Tree
  | .mvhd => mvhd st.next
  | .mvex => node "mvex" (st.trexs.map trex)
  | .trak t => trak t
  | .other ty => leaf ty []

/-- `InitSegment.Encode` -/
def encode (st : St) : Bytes := ftyp.enc ++ (node "moov" (st.children.map (childTree st))).enc

end Mp4ff.Init
