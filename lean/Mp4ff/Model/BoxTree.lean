import Mp4ff.Model.Basic
/-!
The box *tree*: a leaf carries its already-encoded payload, a container carries children
(mp4/container.go: `containerSize`, `EncodeContainer`; mp4/box.go: `EncodeHeader`).
-/
namespace Mp4ff.BoxTree

inductive Tree where
  | leaf (ty : Bytes) (payload : Bytes)
  | node (ty : Bytes) (children : List Tree)

mutual
/-- `Size()`: leaf = header + payload; container = `containerSize` = header + Σ child.Size() -/
def Tree.size : Tree → Nat
  | .leaf _ p => 8 + p.length
  | .node _ cs => 8 + sizes cs
def sizes : List Tree → Nat
  | [] => 0
  | c :: cs => c.size + sizes cs
end

mutual
/-- `Encode`: 4-byte size from `Size()`, 4-byte type, then payload / children in order -/
def Tree.enc : Tree → Bytes
  | .leaf ty p => beBytes 4 (8 + p.length) ++ ty ++ p
  | .node ty cs => beBytes 4 (8 + sizes cs) ++ ty ++ encs cs
def encs : List Tree → Bytes
  | [] => []
  | c :: cs => c.enc ++ encs cs
end

mutual
def Tree.WF : Tree → Prop
  | .leaf ty _ => ty.length = 4
  | .node ty cs => ty.length = 4 ∧ WFs cs
def WFs : List Tree → Prop
  | [] => True
  | c :: cs => c.WF ∧ WFs cs
end

end Mp4ff.BoxTree
