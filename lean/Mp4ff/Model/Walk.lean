import Mp4ff.Model.Basic
/-!
M15: the structural skeleton of container decoding on **arbitrary** bytes (C04), slice-reader path:
mp4/boxsr.go `DecodeHeaderSR`, `DecodeBoxSR`, `DecodeFileSR` (the loop), mp4/container.go
`DecodeContainerChildrenSR`.  Leaf decoders are abstracted to "consume the payload"; plain containers recurse.
Positions are reader positions in the input; `none` = the code returns an error.
-/
namespace Mp4ff.Walk

inductive Node where
  | mk (ty : String) (size : Nat) (kids : List Node)
deriving Repr

def Node.ty : Node → String | .mk t _ _ => t
def Node.size : Node → Nat | .mk _ s _ => s

/-- box types whose decoder is `DecodeContainerChildrenSR(hdr, startPos+8, startPos+hdr.Size, sr)` and nothing else -/
def plainContainers : List String :=
  ["moov", "trak", "mdia", "minf", "stbl", "dinf", "edts", "mvex", "moof", "traf", "mfra", "udta", "sinf", "schi", "ludt"]

/-- `DecodeHeaderSR` at reader position `pos`: (type, size, header length); reading past the end sets the
    accumulated error, which the function returns -/
def header (bs : Bytes) (pos : Nat) : Option (String × Nat × Nat) :=
  if pos + 8 > bs.length then none else
  let size := beVal ((bs.drop pos).take 4)
  let ty := String.ofList (((bs.drop (pos + 4)).take 4).map fun b => Char.ofNat b)
  if size = 1 then
    if pos + 16 > bs.length then none else
    let big := beVal ((bs.drop (pos + 8)).take 8)
    if 16 > big then none else some (ty, big, 16)
  else if size = 0 then none
  else if 8 > size then none
  else some (ty, size, 8)

mutual
/-- `DecodeBoxSR`: the node and the reader position after it -/
def decodeBox : Nat → Bytes → Nat → Option (Node × Nat)
  | 0, _, _ => none
  | f + 1, bs, pos =>
    match header bs pos with
    | none => none
    | some (ty, size, hl) =>
      -- maxSize = remaining bytes after the header + header length
      if size > bs.length - pos ∧ ty ≠ "mdat" then none
      else if plainContainers.contains ty then
        match decodeChildren f bs (pos + hl) (size - 8) with
        | some (kids, p) => some (.mk ty size kids, p)
        | none => none
      else if pos + size > bs.length then none       -- a leaf (or mdat) that does not fit: accumulated read error
      else some (.mk ty size [], pos + size)
/-- `DecodeContainerChildrenSR`: `left` = endPos - pos; the reader must advance by exactly the children's sizes -/
def decodeChildren : Nat → Bytes → Nat → Nat → Option (List Node × Nat)
  | 0, _, _, _ => none
  | f + 1, bs, rpos, left =>
    if left = 0 then some ([], rpos) else
    match decodeBox f bs rpos with
    | none => none
    | some (n, rpos') =>
      if n.size > left then none                       -- pos > endPos
      else if rpos' ≠ rpos + n.size then none          -- "child size mismatch"
      else match decodeChildren f bs rpos' (left - n.size) with
        | some (ns, p) => some (n :: ns, p)
        | none => none
end

/-- `DecodeFileSR`: top-level loop until no byte remains -/
def decodeFile : Nat → Bytes → Nat → Option (List Node)
  | 0, _, _ => none
  | f + 1, bs, pos =>
    if pos ≥ bs.length then some [] else
    match decodeBox (bs.length + 2) bs pos with
    | none => none
    | some (n, pos') =>
      match decodeFile f bs pos' with
      | some ns => some (n :: ns)
      | none => none

def walk (bs : Bytes) : Option (List Node) := decodeFile (bs.length + 2) bs 0

mutual
def Node.count : Node → Nat
  | .mk _ _ kids => 1 + countAll kids
def countAll : List Node → Nat
  | [] => 0
  | n :: ns => n.count + countAll ns
end

mutual
def Node.show : Node → String
  | .mk ty size kids => if kids.isEmpty then s!"{ty}:{size}" else s!"{ty}:{size}(" ++ showAll kids ++ ")"
def showAll : List Node → String
  | [] => ""
  | [n] => n.show
  | n :: ns => n.show ++ "," ++ showAll ns
end

def hexDigit (n : Nat) : Char := if n < 10 then Char.ofNat (48 + n) else Char.ofNat (87 + n)

/-- a type with every character outside the plain printable range rendered as ~hh -/
def typeText (ty : String) : String :=
  String.join (ty.toList.map fun ch =>
    let n := ch.toNat
    if n < 0x21 ∨ n > 0x7d ∨ ch = '(' ∨ ch = ')' ∨ ch = ',' then
      String.ofList ['~', hexDigit (n / 16 % 16), hexDigit (n % 16)]
    else String.ofList [ch])

mutual
/-- nested box types only (sizes omitted): what the correspondence compares -/
def Node.types : Node → String
  | .mk ty _ kids => if kids.isEmpty then typeText ty else typeText ty ++ "(" ++ typesAll kids ++ ")"
def typesAll : List Node → String
  | [] => ""
  | [n] => n.types
  | n :: ns => n.types ++ "," ++ typesAll ns
end

end Mp4ff.Walk
