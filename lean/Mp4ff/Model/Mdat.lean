import Mp4ff.Model.SampleTables
/-!
Media-data access in lazy and in-memory mode: mp4/mdat.go (ReadData, CopyData, header of a lazily decoded
mdat), mp4/box.go (DecodeBoxLazyMdat seek arithmetic), mp4/file.go (CopySampleData chunk walk with a work buffer).
A file is a byte list `F`; an `io.ReadSeeker` over it is a cursor; `Read(p)` delivers `min(len p, available)`
bytes and reports EOF when it can deliver none although some were requested.
-/
namespace Mp4ff.Mdat
open Mp4ff.Stbl

def readAt (F : Bytes) (off len : Nat) : Bytes := (F.drop off).take len

structure MdatBox where
  startPos : Nat
  largeSize : Bool
  data : Bytes            -- in-memory payload (empty in lazy mode)
  lazyDataSize : Nat      -- > 0 ⇒ lazy
deriving Repr

def MdatBox.isLazy (m : MdatBox) : Bool := m.lazyDataSize > 0
def MdatBox.headerSize (m : MdatBox) : Nat := if m.largeSize then 16 else 8
def MdatBox.payloadStart (m : MdatBox) : Nat := m.startPos + m.headerSize

/-- what the two decoders produce for an mdat box found at `startPos` with header length `hdrLen`, size `size` -/
def decodeEager (F : Bytes) (startPos hdrLen size : Nat) : MdatBox :=
  ⟨startPos, hdrLen > 8, readAt F (startPos + hdrLen) (size - hdrLen), 0⟩
def decodeLazy (startPos hdrLen size : Nat) : MdatBox := ⟨startPos, hdrLen > 8, [], size - hdrLen⟩

/-- `MdatBox.Size()` (also switches to a large-size header for payloads above 2^32-9) -/
def MdatBox.size (m : MdatBox) : Nat :=
  let dataSize := if m.lazyDataSize > 0 then m.lazyDataSize else m.data.length
  8 + dataSize + (if m.largeSize ∨ dataSize > 2 ^ 32 - 1 - 8 then 8 else 0)

/-- header bytes written by `EncodeHeaderWithSize("mdat", size, largeSize)` -/
def mdatHeader (size : Nat) (large : Bool) : Bytes :=
  if large then beBytes 4 1 ++ [0x6d, 0x64, 0x61, 0x74] ++ beBytes 8 size
  else beBytes 4 size ++ [0x6d, 0x64, 0x61, 0x74]

/-- `MdatBox.Encode`: header then in-memory data (nothing in lazy mode) -/
def MdatBox.encode (m : MdatBox) : Bytes :=
  let dataSize := if m.lazyDataSize > 0 then m.lazyDataSize else m.data.length
  mdatHeader m.size (m.largeSize ∨ dataSize > 2 ^ 32 - 1 - 8) ++ m.data

/-- `ReadData` / `CopyData` (as repaired: a range may end at the last payload byte); `none` = error.
    `start` is an absolute file offset. -/
def MdatBox.readData (m : MdatBox) (F : Bytes) (start size : Nat) : Option Bytes :=
  if m.lazyDataSize > 0 then
    if start + size ≤ F.length then some (readAt F start size) else none   -- io.ReadFull / CopyN hit EOF otherwise
  else
    if start < m.payloadStart then none            -- uint64 wrap makes the offset huge
    else
      let off := start - m.payloadStart
      if off > m.data.length ∨ off + size > m.data.length then none
      else some (readAt m.data off size)

/-- the buffered read loop of `CopySampleData` for one chunk range in lazy mode.
    state: remaining bytes of the range, file position, work buffer content, output so far -/
def fillLoop (F : Bytes) (workLen : Nat) : Nat → Nat → Nat → Bytes → Bytes → Option (Bytes × Bytes)
  | 0, _, _, work, out => some (work, out)
  | fuel + 1, nrLeft, pos, work, out =>
    let stop := min workLen (work.length + nrLeft)
    let req := stop - work.length
    let got := readAt F pos req
    if req > 0 ∧ got.length = 0 then none          -- EOF
    else
      let nrLeft := nrLeft - got.length
      let work := work ++ got
      let pos := pos + got.length
      if nrLeft = 0 then some (work, out)
      else if work.length = workLen then fillLoop F workLen fuel nrLeft pos [] (out ++ work)
      else fillLoop F workLen fuel nrLeft pos work out

/-- `File.CopySampleData` over the byte ranges of the interval (one (offset, size) per containing chunk) -/
def copyRanges (m : MdatBox) (F : Bytes) (workLen : Nat) (ranges : List (Nat × Nat)) : Option Bytes :=
  let rec go : List (Nat × Nat) → Bytes → Bytes → Option (Bytes × Bytes)
    | [], work, out => some (work, out)
    | (off, size) :: rest, work, out =>
      if m.lazyDataSize > 0 then
        if off > F.length then none       -- Seek beyond the end is allowed by bytes.Reader; the read then fails
        else if workLen = 0 then
          if off + size ≤ F.length then go rest work (out ++ readAt F off size) else none
        else
          match fillLoop F workLen (2 * size + 2) size off work out with
          | none => none
          | some (work', out') => go rest work' out'
      else
        if off < m.payloadStart then none
        else
          let o := off - m.payloadStart
          if o + size ≤ m.data.length then go rest work (out ++ readAt m.data o size) else none
  match go ranges [] [] with
  | none => none
  | some (work, out) => some (out ++ work)

/-- `CopySampleData`: interval → chunk ranges (sample sizes summed per chunk) → copy -/
def copySampleData (t : Tables) (m : MdatBox) (F : Bytes) (workLen a b : Nat) : Option Bytes := do
  let rs ← t.getRanges a b
  copyRanges m F workLen rs

end Mp4ff.Mdat
