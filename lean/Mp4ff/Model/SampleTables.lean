import Mp4ff.Model.Basic
/-!
M5: sample-table queries of a progressive track — mp4/stts.go, ctts.go, stsc.go, stsz.go, stco.go/co64.go,
stss.go, sdtp.go, trak.go — each transcribed loop for loop (with the cached cumulative fields the decoders
and `AddEntry` compute), plus the naive per-sample expansion the property compares against.
Fixed-width Go arithmetic is explicit (`% 2^32`, `% 2^64`).
-/
namespace Mp4ff.Stbl

def U32 : Nat := 2 ^ 32
def U64 : Nat := 2 ^ 64

/-! ## stts -/
structure Stts where
  count : List Nat
  delta : List Nat
deriving Repr, DecidableEq

/-- `GetDecodeTime`: open loop over entries; `none` = index out of range (Go panics) -/
def Stts.getDecodeTime (b : Stts) (sampleNr : Nat) : Option (Nat × Nat) :=
  if sampleNr = 0 then none else
  let rec go : List Nat → List Nat → Nat → Nat → Option (Nat × Nat)
    | c :: cs, d :: ds, remaining, dec =>
      if remaining ≥ c then go cs ds (remaining - c) ((dec + c * d) % U64)
      else some (if remaining > 0 then (dec + remaining * d) % U64 else dec, d)
    | _, _, _, _ => none
  go b.count b.delta (sampleNr - 1) 0

/-- `GetDur`: returns the last `dur` seen when running off the end -/
def Stts.getDur (b : Stts) (sampleNr : Nat) : Option Nat :=
  if sampleNr = 0 then none else
  let rec go : List Nat → List Nat → Nat → Nat → Nat
    | c :: cs, d :: ds, nr, _ => if nr ≥ c then go cs ds (nr - c) d else d
    | _, _, _, dur => dur
  some (go b.count b.delta (sampleNr - 1) 0)

/-- `GetSampleNrAtTime`: `none` = error return -/
def Stts.getSampleNrAtTime (b : Stts) (t : Nat) : Option Nat :=
  let rec go : List Nat → List Nat → Nat → Nat → Option Nat
    | c :: cs, d :: ds, accTime, accNr =>
      if t < (accTime + (c * d) % U64) % U64 then
        let rel := (t + U64 - accTime) % U64
        -- timeDelta = 0 cannot reach here (t < accTime + 0 is false)
        let k := rel / d
        let k := if rel % d ≠ 0 then k + 1 else k
        some ((accNr + k % U32 + 1) % U32)
      else go cs ds ((accTime + (d * c) % U64) % U64) ((accNr + c) % U32)
    | _, _, accTime, accNr =>
      match b.delta.getLast?, b.count.getLast? with
      | some 0, some 1 => if t = accTime then some accNr else none
      | _, _ => none
  go b.count b.delta 0 0

/-! ## ctts -/
structure Ctts where
  endSampleNr : List Nat     -- cumulative, starts with 0, length = entries + 1
  offset : List Int
deriving Repr, DecidableEq

/-- cumulative ends as the decoder / `AddSampleCountsAndOffset` compute them (uint32 sums) -/
def Ctts.ofCounts (counts : List Nat) (offsets : List Int) : Ctts :=
  ⟨(counts.foldl (fun (acc : List Nat × Nat) c => let e := (acc.2 + c) % U32; (acc.1 ++ [e], e)) ([0], 0)).1, offsets⟩

/-- the `sort.Search`-style binary search: least `i` with `EndSampleNr[i] ≥ sampleNr` -/
def bsearchGE (a : List Nat) (x : Nat) : Nat → Nat → Nat → Nat
  | 0, i, _ => i
  | fuel + 1, i, j =>
    if i < j then
      let h := (i + j) / 2
      if a.getD h 0 < x then bsearchGE a x fuel (h + 1) j else bsearchGE a x fuel i h
    else i

/-- `GetCompositionTimeOffset`; `none` = panic (sampleNr 0 or index out of range) -/
def Ctts.getCto (b : Ctts) (sampleNr : Nat) : Option Int :=
  if sampleNr = 0 then none else
  let i := bsearchGE b.endSampleNr sampleNr (b.endSampleNr.length + 1) 0 b.endSampleNr.length
  if i = 0 then none else b.offset[i - 1]?

/-! ## stsc -/
structure StscEntry where
  firstChunk : Nat
  samplesPerChunk : Nat
  firstSampleNr : Nat
deriving Repr, DecidableEq

structure Stsc where
  entries : List StscEntry
  sdi : List Nat            -- sample description id per entry (the Go box stores a single id when all are equal)
deriving Repr, DecidableEq

/-- cached `FirstSampleNr` as `DecodeStscSR` / `AddEntry` compute it -/
def Stsc.ofRaw (raw : List (Nat × Nat × Nat)) : Stsc :=
  let es := raw.foldl (fun (acc : List StscEntry) (r : Nat × Nat × Nat) =>
    match acc.getLast? with
    | none => [⟨r.1, r.2.1, 1⟩]
    | some l => acc ++ [⟨r.1, r.2.1, (l.firstSampleNr + ((r.1 + U32 - l.firstChunk) % U32 * l.samplesPerChunk) % U32) % U32⟩]) []
  ⟨es, raw.map (·.2.2)⟩

/-- `FindEntryNrForSampleNr(sampleNr, lowEntryIdx)`: uint32 arithmetic, result `low - 1` may wrap -/
def Stsc.findEntryForSample (b : Stsc) (sampleNr low0 : Nat) : Nat :=
  let rec go : Nat → Nat → Nat → Nat
    | 0, low, _ => low
    | fuel + 1, low, high =>
      if low < high then
        let mid := (low + high) / 2
        if (b.entries.getD mid ⟨0, 0, 0⟩).firstSampleNr > sampleNr then go fuel low mid else go fuel (mid + 1) high
      else low
  (go (b.entries.length + 1) low0 b.entries.length + U32 - 1) % U32

/-- `findEntryNrForChunkNr` -/
def Stsc.findEntryForChunk (b : Stsc) (chunkNr : Nat) : Nat :=
  let rec go : Nat → Nat → Nat → Nat
    | 0, low, _ => low
    | fuel + 1, low, high =>
      if low < high then
        let mid := (low + high) / 2
        if (b.entries.getD mid ⟨0, 0, 0⟩).firstChunk > chunkNr then go fuel low mid else go fuel (mid + 1) high
      else low
  (go (b.entries.length + 1) 0 b.entries.length + U32 - 1) % U32

/-- `ChunkNrFromSampleNr` → (chunkNr, firstSampleInChunk); `none` = panic (entry index out of range / division by zero) -/
def Stsc.chunkNrFromSampleNr (b : Stsc) (sampleNr : Nat) : Option (Nat × Nat) := do
  let e ← b.entries[b.findEntryForSample sampleNr 0]?
  if e.samplesPerChunk = 0 then none else
  let nrInEntry := ((sampleNr + U32 - e.firstSampleNr) % U32) / e.samplesPerChunk
  some ((e.firstChunk + nrInEntry) % U32, (e.firstSampleNr + (nrInEntry * e.samplesPerChunk) % U32) % U32)

structure Chunk where
  chunkNr : Nat
  startSampleNr : Nat
  nrSamples : Nat
deriving Repr, DecidableEq

/-- `GetChunk` -/
def Stsc.getChunk (b : Stsc) (chunkNr : Nat) : Option Chunk := do
  if chunkNr = 0 then none else
  let e ← b.entries[b.findEntryForChunk chunkNr]?
  some ⟨chunkNr, (((chunkNr + U32 - e.firstChunk) % U32 * e.samplesPerChunk) % U32 + e.firstSampleNr) % U32, e.samplesPerChunk⟩

/-- `GetContainingChunks`: `none` = error or panic -/
def Stsc.getContainingChunks (b : Stsc) (startNr endNr : Nat) : Option (List Chunk) := do
  if startNr = 0 ∨ endNr < startNr then none else
  let n := b.entries.length
  let se := b.findEntryForSample startNr 0
  let ee := b.findEntryForSample endNr se
  let sEnt ← b.entries[se]?
  let eEnt ← b.entries[ee]?
  if sEnt.samplesPerChunk = 0 ∨ eEnt.samplesPerChunk = 0 then none else
  let startChunk := (((startNr + U32 - sEnt.firstSampleNr) % U32) / sEnt.samplesPerChunk + sEnt.firstChunk) % U32
  let endChunk := (((endNr + U32 - eEnt.firstSampleNr) % U32) / eEnt.samplesPerChunk + eEnt.firstChunk) % U32
  let rec go : Nat → Nat → Nat → StscEntry → List Chunk → List Chunk
    | 0, _, _, _, acc => acc
    | fuel + 1, chunkNr, entryNr, entry, acc =>
      if chunkNr ≤ endChunk then
        let ch : Chunk := ⟨chunkNr, (entry.firstSampleNr + ((chunkNr + U32 - entry.firstChunk) % U32 * entry.samplesPerChunk) % U32) % U32,
                          entry.samplesPerChunk⟩
        let (entryNr', entry') :=
          if entryNr + 1 < n ∧ chunkNr + 1 = (b.entries.getD (entryNr + 1) ⟨0, 0, 0⟩).firstChunk
          then (entryNr + 1, b.entries.getD (entryNr + 1) ⟨0, 0, 0⟩) else (entryNr, entry)
        go fuel (chunkNr + 1) entryNr' entry' (acc ++ [ch])
      else acc
  some (go (endChunk + 1 - startChunk) startChunk se sEnt [])

/-- the single id the Go box stores when all entries carry the same one -/
def Stsc.uniformSdi (b : Stsc) : Option Nat :=
  match b.sdi with
  | [] => some 0
  | x :: xs => if xs.all (· == x) then some x else none

/-- `GetSampleDescriptionID(chunkNr)` (chunkNr 1-based, as documented and as mp4ff-crop calls it): the id of the stsc
    entry the chunk belongs to; `none` = panic (no entry) -/
def Stsc.getSampleDescriptionID (b : Stsc) (chunkNr : Nat) : Option Nat := do
  let _ ← b.entries[b.findEntryForChunk chunkNr]?
  b.sdi[b.findEntryForChunk chunkNr]?

/-! ## stsz / stco / stss / sdtp -/
structure Stsz where
  uniform : Nat
  sampleNumber : Nat
  sizes : List Nat
deriving Repr, DecidableEq

/-- `GetSampleSize(i)` (1-based; Go panics on i = 0 with a non-empty table) -/
def Stsz.getSampleSize (b : Stsz) (i : Nat) : Option Nat :=
  if i > b.sizes.length then some b.uniform
  else if i = 0 then none else b.sizes[i - 1]?

/-- `GetTotalSampleSize`: outer `none` = error return -/
def Stsz.getTotalSampleSize (b : Stsz) (startNr endNr : Nat) : Option Nat :=
  if startNr = 0 ∨ endNr > b.sampleNumber then none
  else if endNr < startNr then some 0
  else if b.uniform ≠ 0 then some (((endNr - startNr + 1) * b.uniform) % U64)
  else some (((List.range' startNr (endNr + 1 - startNr)).map fun nr => b.sizes.getD (nr - 1) 0).sum % U64)

/-- `StcoBox.GetOffset` / `Co64Box.GetOffset` -/
def getOffset (offsets : List Nat) (chunkNr : Nat) : Option Nat :=
  if chunkNr = 0 ∨ chunkNr > offsets.length then none else offsets[chunkNr - 1]?

/-- `IsSyncSample` -/
def isSyncSample (nums : List Nat) (sampleNr : Nat) : Bool :=
  let i := bsearchGE nums sampleNr (nums.length + 1) 0 nums.length
  i < nums.length ∧ nums.getD i 0 = sampleNr

/-- `createSampleFlagsFromProgressiveBoxes` then `SampleFlags.Encode` -/
def sampleFlags (stss : Option (List Nat)) (sdtp : Option (List Nat)) (nr : Nat) : Option Nat := do
  let (nonSync, dependsOn) := match stss with
    | some l => let s := isSyncSample l nr; (!s, if s then 2 else 0)
    | none => (false, 0)
  match sdtp with
  | some es =>
    let e ← es[nr - 1]?
    let isLeading := (e / 64) % 4
    let dep := (e / 16) % 4
    let depOn := (e / 4) % 4
    let red := e % 4
    some (isLeading * 2 ^ 26 + dep * 2 ^ 24 + depOn * 2 ^ 22 + red * 2 ^ 20 + (if nonSync then 2 ^ 16 else 0))
  | none => some (dependsOn * 2 ^ 24 + (if nonSync then 2 ^ 16 else 0))

/-! ## trak level -/
structure Tables where
  stts : Stts
  ctts : Option Ctts
  stsc : Stsc
  stsz : Stsz
  offsets : List Nat
  stss : Option (List Nat)
  sdtp : Option (List Nat)
deriving Repr

def Stsz.nrSamples (b : Stsz) : Nat := b.sampleNumber

structure SampleMeta where
  flags : Nat
  dur : Nat
  size : Nat
  cto : Int
deriving Repr, DecidableEq

/-- `TrakBox.GetSampleData` (as repaired: entries are stored at `nr - startSampleNr`) -/
def Tables.getSampleData (t : Tables) (a b : Nat) : Option (List SampleMeta) :=
  if a < 1 ∨ b > t.stsz.nrSamples then none else
  (List.range' a (b + 1 - a)).mapM fun nr => do
    let cto ← match t.ctts with
      | some c => c.getCto nr
      | none => some 0
    let fl ← sampleFlags t.stss t.sdtp nr
    let dur ← t.stts.getDur nr
    let sz ← t.stsz.getSampleSize nr
    some ⟨fl, dur, sz, cto⟩

/-- `TrakBox.GetRangesForSampleInterval` → (offset, size) list -/
def Tables.getRanges (t : Tables) (a b : Nat) : Option (List (Nat × Nat)) := do
  if a < 1 ∨ b > t.stsz.nrSamples then none else
  let chunks ← t.stsc.getContainingChunks a b
  let last := chunks.length - 1
  (List.range chunks.length).mapM fun idx => do
    let ch ← chunks[idx]?
    let off0 ← getOffset t.offsets ch.chunkNr
    let (off, startIn) ← if idx = 0 then do
        let up ← t.stsz.getTotalSampleSize ch.startSampleNr (a - 1)
        pure ((off0 + up) % U64, a)
      else pure (off0, ch.startSampleNr)
    let endIn := if idx = last then b else (ch.startSampleNr + ch.nrSamples + U32 - 1) % U32
    let size ← t.stsz.getTotalSampleSize startIn endIn
    some (off, size)

/-! ## naive expansion (ISO/IEC 14496-12 semantics) -/

/-- one value per sample from a run-length table -/
def expandRuns {α} (counts : List Nat) (vals : List α) : List α :=
  (counts.zip vals).flatMap fun (c, v) => List.replicate c v

def Stts.durations (b : Stts) : List Nat := expandRuns b.count b.delta

/-- decode time of sample `n` (1-based) = sum of the durations before it -/
def naiveDecodeTime (durs : List Nat) (n : Nat) : Nat := (durs.take (n - 1)).sum

/-- samples-per-chunk for every chunk 1..nChunks from raw stsc entries -/
def chunkSizes (raw : List (Nat × Nat)) (nChunks : Nat) : List Nat :=
  (List.range nChunks).map fun i =>
    let c := i + 1
    ((raw.filter fun e => e.1 ≤ c).getLast?.map (·.2)).getD 0

/-- (chunk number, first sample in chunk) of sample `n`, by walking chunks -/
def naiveChunkOf (sizes : List Nat) (n : Nat) : Option (Nat × Nat) :=
  let rec go : List Nat → Nat → Nat → Option (Nat × Nat)
    | [], _, _ => none
    | s :: rest, c, first => if n < first + s then some (c, first) else go rest (c + 1) (first + s)
  go sizes 1 1

/-- byte offset of sample `n`: chunk offset + sizes of the earlier samples in its chunk -/
def naiveSampleOffset (sizes : List Nat) (chunkOffsets : List Nat) (sampleSizes : List Nat) (n : Nat) : Option Nat := do
  let (c, first) ← naiveChunkOf sizes n
  let off ← chunkOffsets[c - 1]?
  some (off + ((List.range' first (n - first)).map fun k => sampleSizes.getD (k - 1) 0).sum)

end Mp4ff.Stbl
