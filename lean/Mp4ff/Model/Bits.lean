import Mp4ff.Model.Basic
/-!
M1: the bit writers and readers of package `bits`, transcribed statement by statement.

Go                                  model
----------------------------------  ------------------------------------------
bits.Writer{n,v} + io.Writer        `BW` (out = bytes handed to the io.Writer)
bits.FixedSliceWriter.WriteBits     `BW` as well (same code, `WriteUint8` appends)
bits.EBSPWriter{n,v,nr0}            `EW`
bits.Reader{n,value,pos}            `BR` (rest = bytes still in the io.Reader)
bits.EBSPReader{n,v,pos,zeroCount}  `ER`

Go's `uint` is 64 bit: every shift left is followed by `% 2^64`.
`pos` starts at -1 in Go; the model stores `pos+1` (= NrBytesRead).
-/
namespace Mp4ff.Bits

def W64 : Nat := 2 ^ 64

/-- `bits.Mask(n)` for 0 ≤ n < 64 -/
def mask (n : Nat) : Nat := 2 ^ n - 1

/-! ## bits.Writer / FixedSliceWriter.WriteBits -/

structure BW where
  n : Nat := 0
  v : Nat := 0
  out : Bytes := []
deriving Repr, DecidableEq

/-- the `for w.n >= 8` loop of `Writer.Write` -/
def BW.drain (v : Nat) : Nat → Bytes → Nat × Bytes
  | n, out =>
    if _h : n ≥ 8 then
      BW.drain v (n - 8) (out ++ [(v >>> (n - 8)) &&& mask 8])
    else (n, out)
termination_by n => n
decreasing_by omega

def BW.write (w : BW) (bits k : Nat) : BW :=
  let v1 := ((w.v <<< k) % W64) ||| (bits &&& mask k)
  let (n2, out2) := BW.drain v1 (w.n + k) w.out
  { n := n2, v := v1 &&& mask 8, out := out2 }

def BW.flush (w : BW) : Bytes :=
  if w.n ≠ 0 then w.out ++ [((w.v <<< (8 - w.n)) % W64) &&& mask 8] else w.out

/-! ## bits.EBSPWriter -/

structure EW where
  n : Nat := 0
  v : Nat := 0
  nr0 : Nat := 0
  out : Bytes := []
deriving Repr, DecidableEq

/-- one emitted byte: the body of the loop in `EBSPWriter.Write` -/
def EW.emit (nr0 : Nat) (out : Bytes) (b : Nat) : Nat × Bytes :=
  let (nr0a, outa) := if nr0 = 2 ∧ b ≤ 3 then (0, out ++ [3]) else (nr0, out)
  (if b = 0 then nr0a + 1 else 0, outa ++ [b])

def EW.drain (v : Nat) : Nat → Nat → Bytes → Nat × Nat × Bytes
  | n, nr0, out =>
    if _h : n ≥ 8 then
      let b := (v >>> (n - 8)) &&& mask 8
      let (nr0', out') := EW.emit nr0 out b
      EW.drain v (n - 8) nr0' out'
    else (n, nr0, out)
termination_by n => n
decreasing_by omega

def EW.write (w : EW) (bits k : Nat) : EW :=
  let v1 := ((w.v <<< k) % W64) ||| (bits &&& mask k)
  let (n2, nr02, out2) := EW.drain v1 (w.n + k) w.nr0 w.out
  { n := n2, v := v1 &&& mask 8, nr0 := nr02, out := out2 }

/-- the prefix search loop of `WriteExpGolomb`: returns (prefixLen, offset) -/
def expGolombPrefix (nr : Nat) : Nat → Nat → Nat → Nat → Nat × Nat
  | 0, prefixLen, offset, _ => (prefixLen, offset)
  | fuel + 1, prefixLen, offset, max =>
    if nr ≤ max then (prefixLen, offset)
    else
      let offset' := offset + 2 ^ prefixLen
      let prefixLen' := prefixLen + 1
      expGolombPrefix nr fuel prefixLen' offset' (offset' + 2 ^ prefixLen' - 1)

def EW.writeExpGolomb (w : EW) (nr : Nat) : EW :=
  let (p, offset) := expGolombPrefix nr 64 0 0 0
  let w1 := w.write 1 (p + 1)
  if p > 0 then w1.write (nr - offset) p else w1

/-- `WriteSEIValue`: 0xFF until the rest is below 255 -/
def EW.writeSEIValue (w : EW) (val : Nat) : EW :=
  if h : val ≥ 255 then (w.write 0xff 8).writeSEIValue (val - 255) else w.write val 8
termination_by val
decreasing_by omega

def EW.stuffByteWithZeros (w : EW) : EW := if w.n > 0 then w.write 0 (8 - w.n) else w

def EW.writeRbspTrailingBits (w : EW) : EW := (w.write 1 1).stuffByteWithZeros

/-! ## bits.Reader -/

structure BR where
  n : Nat := 0
  v : Nat := 0
  nread : Nat := 0        -- pos + 1
  rest : Bytes := []
  err : Bool := false
deriving Repr, DecidableEq

/-- the `for r.n < n` refill loop; `none` = EOF (err set, 0 returned) -/
def BR.fill (k : Nat) : Nat → Nat → Nat → Nat → Bytes → Option (Nat × Nat × Nat × Bytes)
  | 0, n, v, nread, rest => if n < k then none else some (n, v, nread, rest)
  | fuel + 1, n, v, nread, rest =>
    if n < k then
      match rest with
      | [] => none
      | b :: rest' => BR.fill k fuel (n + 8) (((v <<< 8) % W64) ||| b) (nread + 1) rest'
    else some (n, v, nread, rest)

/-- `Reader.Read(k)`.  On EOF Go leaves `value`/`n`/`pos` as they were when the read
failed; all later reads return 0, so only `err` is observable afterwards (plus the
byte counters, which the model keeps as Go does: bytes consumed before the failure). -/
def BR.read (r : BR) (k : Nat) : BR × Nat :=
  if r.err then (r, 0)
  else
    match BR.fill k (k / 8 + 1) r.n r.v r.nread r.rest with
    | none =>
      -- consumed everything that was left
      ({ r with err := true, nread := r.nread + r.rest.length, rest := [],
                n := r.n + 8 * r.rest.length }, 0)
    | some (n, v, nread, rest) =>
      let value := v >>> (n - k)
      ({ n := n - k, v := v &&& mask (n - k), nread := nread, rest := rest, err := false }, value)

def BR.nrBytesRead (r : BR) : Nat := r.nread

/-- `NrBitsRead` (Go computes it with signed ints; `8 - n` can be ≤ 0 only after an error) -/
def BR.nrBitsRead (r : BR) : Int :=
  let cur : Int := 8 - (r.n : Int)
  if cur ≠ 8 then (r.nread : Int) * 8 + cur - 8 else (r.nread : Int) * 8

/-- `Reader.ReadSigned(k)` (k ≥ 1): two's complement interpretation of the k bits -/
def BR.readSigned (r : BR) (k : Nat) : BR × Int :=
  let (r', v) := r.read k
  (r', if v >>> (k - 1) = 1 then (v : Int) - (2 ^ k : Nat) else (v : Int))

/-- `Reader.ReadFlag`: false on error -/
def BR.readFlag (r : BR) : BR × Bool :=
  let (r', v) := r.read 1
  (r', !r'.err && v = 1)

/-- `Reader.ReadRemainingBytes`: only at a byte boundary; the byte counter does not move -/
def BR.readRemainingBytes (r : BR) : BR × Option Bytes :=
  if r.err then (r, none)
  else if r.n ≠ 0 then ({ r with err := true }, none)
  else ({ r with rest := [] }, some r.rest)

/-! ## bits.EBSPReader -/

structure ER where
  n : Nat := 0
  v : Nat := 0
  nread : Nat := 0        -- pos + 1 : bytes taken from the (escaped) stream
  zeroCount : Nat := 0
  rest : Bytes := []
  err : Bool := false
deriving Repr, DecidableEq

/-- refill loop of `EBSPReader.Read`; result `none` carries the counters at failure -/
def ER.fill (k : Nat) : Nat → Nat → Nat → Nat → Nat → Bytes →
    Except (Nat × Nat) (Nat × Nat × Nat × Nat × Bytes)
  | 0, n, v, nread, zc, rest => if n < k then .error (nread, zc) else .ok (n, v, nread, zc, rest)
  | fuel + 1, n, v, nread, zc, rest =>
    if n < k then
      let v1 := (v <<< 8) % W64
      match rest with
      | [] => .error (nread, zc)
      | b :: rest' =>
        if zc = 2 ∧ b = 3 then
          match rest' with
          | [] => .error (nread + 1, zc)
          | c :: rest'' =>
            ER.fill k fuel (n + 8) (v1 ||| c) (nread + 2) (if c ≠ 0 then 0 else 1) rest''
        else
          ER.fill k fuel (n + 8) (v1 ||| b) (nread + 1) (if b ≠ 0 then 0 else zc + 1) rest'
    else .ok (n, v, nread, zc, rest)

def ER.read (r : ER) (k : Nat) : ER × Nat :=
  if r.err then (r, 0)
  else
    match ER.fill k (k / 8 + 1) r.n r.v r.nread r.zeroCount r.rest with
    | .error (nread, zc) =>
      ({ r with err := true, nread := nread, zeroCount := zc, rest := [] }, 0)
    | .ok (n, v, nread, zc, rest) =>
      let value := v >>> (n - k)
      ({ n := n - k, v := v &&& mask (n - k), nread := nread, zeroCount := zc, rest := rest,
         err := false }, value)

def ER.readFlag (r : ER) : ER × Bool :=
  let (r', v) := r.read 1
  (r', v = 1)

/-- leading-zero loop of `ReadExpGolomb`; fuel = an upper bound on remaining bits + 1 -/
def ER.countZeros : Nat → ER → Nat → ER × Option Nat
  | 0, r, _ => (r, none)
  | fuel + 1, r, cnt =>
    let (r', b) := r.read 1
    if r'.err then (r', none)
    else if b = 1 then (r', some cnt)
    else ER.countZeros fuel r' (cnt + 1)

def ER.bitsLeft (r : ER) : Nat := r.n + 8 * r.rest.length

def ER.readExpGolomb (r : ER) : ER × Nat :=
  if r.err then (r, 0)
  else
    match ER.countZeros (r.bitsLeft + 1) r 0 with
    | (r', none) => ({ r' with err := true }, 0)
    | (r', some lz) =>
      let res := (2 ^ lz - 1) % W64
      let (r'', endBits) := r'.read lz
      if r''.err then (r'', 0) else (r'', (res + endBits) % W64)

def ER.readSignedGolomb (r : ER) : ER × Int :=
  if r.err then (r, 0)
  else
    let (r', u) := r.readExpGolomb
    if r'.err then (r', 0)
    else if u % 2 = 1 then (r', ((u + 1) / 2 : Nat))
    else (r', - ((u / 2 : Nat) : Int))

def ER.readBytes : Nat → ER → Bytes → ER × Bytes
  | 0, r, acc => (r, acc)
  | k + 1, r, acc =>
    let (r', b) := r.read 8
    ER.readBytes k r' (acc ++ [b % 256])

def ER.nrBytesRead (r : ER) : Nat := r.nread

def ER.nrBitsRead (r : ER) : Int :=
  let cur : Int := 8 - (r.n : Int)
  if cur ≠ 8 then (r.nread : Int) * 8 + cur - 8 else (r.nread : Int) * 8

/-! ## byte-level specification of emulation prevention (ISO/IEC 14496-10 7.4.1) -/

/-- escape a payload; `z` = number of zero bytes immediately before (in the output) -/
def esc : Nat → Bytes → Bytes
  | _, [] => []
  | z, b :: bs =>
    if z = 2 ∧ b ≤ 3 then 3 :: b :: esc (if b = 0 then 1 else 0) bs
    else b :: esc (if b = 0 then z + 1 else 0) bs

/-- the zero-run state after `esc z bs` -/
def escState : Nat → Bytes → Nat
  | z, [] => z
  | z, b :: bs =>
    if z = 2 ∧ b ≤ 3 then escState (if b = 0 then 1 else 0) bs
    else escState (if b = 0 then z + 1 else 0) bs

/-- remove emulation prevention bytes -/
def unesc : Nat → Bytes → Bytes
  | _, [] => []
  | z, b :: bs =>
    if z = 2 ∧ b = 3 then
      match bs with
      | [] => []
      | c :: cs => c :: unesc (if c = 0 then 1 else 0) cs
    else b :: unesc (if b = 0 then z + 1 else 0) bs

end Mp4ff.Bits
