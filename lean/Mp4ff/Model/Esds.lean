import Mp4ff.Model.Basic
/-!
M9b: the `esds` box and its MPEG-4 descriptor framing — mp4/esds.go and mp4/descriptors.go.

Transcribed from the Go code as it is:

* the reader is `bits.FixedSliceReader`: reads are atomic, the error is sticky (`Rd.err`), after an error every
  read returns 0 / empty and does not move, `ReadBytes(n)` with `n < 0` *overwrites* the error, `SetPos` restores
  the position but never clears the error;
* `readSizeSize` accumulates 7 bits per byte in a `uint64` (bits shifted beyond 64 are lost) and counts the
  continuation bytes in a `byte` (wraps at 256); inside a parent the size field may not be longer than the bytes
  the parent has left (worktree fix 0f75ebb: nothing beyond the enclosing descriptor is read), and a
  DecoderConfig descriptor must declare at least its 13 fixed bytes; a size field whose value would leave the
  `uint64` or whose length would leave the `byte` is refused (worktree fix 24eac13), so both wraps are dead code
  in the fixed tree but stay in the transcription;
* `int(size)` conversions are two's-complement (`toI64`), `exceedsMaxNrBytes` is a `uint64` sum;
* `DecodeDescriptor` dispatches on the tag (4 DecoderConfig — recursive —, 5 DecSpecificInfo, 6 SLConfig, 3 is
  refused, anything else raw); errors inside the optional-descriptor loops are *caught*: the rest of the parent
  is kept as `UnknownData`;
* the encoder writes the size in exactly `sizeFieldSizeMinus1+1` bytes (0x80-padded form is preserved).

Recursion (nested DecoderConfig descriptors, the loops) is driven by fuel; `decodeEsds` supplies
`input length + 1`, which `Lemmas/Esds.lean` proves is never exhausted.  Core Lean only.
-/
namespace Mp4ff.Esds

def W64 : Nat := 2 ^ 64

/-- two's-complement wrap of an `int` (64 bit) result: the value in [-2^63, 2^63) congruent to `x` mod 2^64
    (`Lemmas/Esds.lean: wrapI64_eq`: `= (x + 2^63) % 2^64 - 2^63`).  Written by cases on the sign so that
    evaluation on a symbolic argument gets stuck at once (no `symbolic + 2^63` term for the kernel to peel). -/
def wrapI64 (x : Int) : Int :=
  match x with
  | .ofNat k => let y : Nat := k % 2 ^ 64; if y < 2 ^ 63 then (y : Int) else (y : Int) - 2 ^ 64
  | .negSucc k => let y : Nat := 2 ^ 64 - 1 - k % 2 ^ 64; if y < 2 ^ 63 then (y : Int) else (y : Int) - 2 ^ 64
/-- `int(u)` for a `uint64` -/
def toI64 (n : Nat) : Int := wrapI64 (n : Int)
/-- `uint64(i)` for an `int` (`= (x % 2^64).toNat`) -/
def toU64 (x : Int) : Nat :=
  match x with
  | .ofNat k => k % 2 ^ 64
  | .negSucc k => 2 ^ 64 - 1 - k % 2 ^ 64

/-! ## the slice reader -/

inductive RdErr
  | eof  -- ErrSliceRead "read too far in SliceReader"
  | neg  -- "attempt to read negative number of bytes"
deriving Repr, DecidableEq

structure Rd where
  rest : Bytes
  pos : Nat
  err : Option RdErr := none
deriving Repr

/-- read `n` bytes atomically (`ReadUint8/16/32`, `ReadFixedLengthString`) -/
def readN (n : Nat) (s : Rd) : Bytes × Rd :=
  if s.err.isSome then ([], s)
  else if s.rest.length < n then ([], { s with err := some .eof })
  else (s.rest.take n, { rest := s.rest.drop n, pos := s.pos + n, err := none })

def readBE (n : Nat) (s : Rd) : Nat × Rd :=
  let (b, s') := readN n s
  (beVal b, s')

/-- `ReadBytes(n int)`: the negative check comes first and overwrites an earlier error -/
def readBytes (n : Int) (s : Rd) : Bytes × Rd :=
  if n < 0 then ([], { s with err := some .neg })
  else readN n.toNat s

/-- `SetPos(saved position)`; the position is one that was valid before, so it cannot fail; the error stays -/
def setPos (saved cur : Rd) : Rd := { saved with err := cur.err }

/-- explicit (non-reader) errors of `readSizeSize` -/
inductive SzErr
  | long      -- "descriptor size field longer than the %d bytes available"
  | overflow  -- "descriptor size field has more than 256 bytes or more than 64 significant bits"
deriving Repr, DecidableEq

/-- continuation bytes of `readSizeSize` (`acc`, `sfs` so far, `nr` bytes read; the previous byte had bit 7 set).
    Last component: explicit error (nothing more is read then). -/
def sizeLoop (maxLen : Int) (acc sfs nr : Nat) : Bytes → Nat → Nat × Nat × Rd × Option SzErr
  | [], pos =>
    if (nr : Int) ≥ maxLen then (0, 0, ⟨[], pos, none⟩, some .long)
    else if sfs = 255 ∨ acc / 2 ^ 57 ≠ 0 then (0, 0, ⟨[], pos, none⟩, some .overflow)
    else ((sfs + 1) % 256, (acc * 128) % W64, ⟨[], pos, some .eof⟩, none)
  | b :: r, pos =>
    if (nr : Int) ≥ maxLen then (0, 0, ⟨b :: r, pos, none⟩, some .long)
    else if sfs = 255 ∨ acc / 2 ^ 57 ≠ 0 then (0, 0, ⟨b :: r, pos, none⟩, some .overflow)
    else
      let sfs' := (sfs + 1) % 256
      let acc' := (acc * 128 + b % 128) % W64
      if b ≥ 128 then sizeLoop maxLen acc' sfs' (nr + 1) r (pos + 1) else (sfs', acc', ⟨r, pos + 1, none⟩, none)

/-- `readSizeSize(sr, maxLen)` → (sizeFieldSizeMinus1, size, reader, explicit error); callers look at the
    explicit error and at the reader's error -/
def readSizeSize (maxLen : Int) (s : Rd) : Nat × Nat × Rd × Option SzErr :=
  if s.err.isSome then (0, 0, s, none)
  else match s.rest with
    | [] => (0, 0, { s with err := some .eof }, none)
    | b :: r =>
      if b ≥ 128 then sizeLoop maxLen (b % 128) 0 1 r (s.pos + 1) else (0, b, ⟨r, s.pos + 1, none⟩, none)

/-- `math.MaxInt`: the ES descriptor's own size field is bounded by the reader only -/
def maxInt : Int := 2 ^ 63 - 1

/-- `exceedsMaxNrBytes` -/
def exceeds (sfs size : Nat) (maxNr : Int) : Bool :=
  decide (size > toU64 maxNr ∨ (1 + sfs + 1 + size) % W64 > toU64 maxNr)

/-! ## descriptor trees -/

/-- the scalar part of a `DecoderConfigDescriptor` (+ its optional DecSpecificInfo and UnknownData) -/
structure DcHdr where
  sfs : Nat
  objType : Nat
  streamType : Nat
  bufSize : Nat
  maxBr : Nat
  avgBr : Nat
  /-- `DecSpecificInfo` (sizeFieldSizeMinus1, DecConfig) -/
  dsi : Option (Nat × Bytes)
  unk : Bytes
deriving Repr

/-- what `DecodeDescriptor` can return (`Descriptor` interface values) -/
inductive Desc where
  | dc (h : DcHdr) (others : List Desc)
  | dsi (sfs : Nat) (data : Bytes)
  | sl (sfs cfg : Nat) (more : Bytes)
  | raw (tag sfs : Nat) (data : Bytes)
deriving Repr

structure ES where
  sfs : Nat
  esId : Nat
  flags : Nat
  dependsOn : Nat
  url : Bytes
  ocr : Nat
  dc : DcHdr
  dcOthers : List Desc
  /-- `SLConfigDescriptor` (sizeFieldSizeMinus1, ConfigValue, MoreData) -/
  sl : Option (Nat × Nat × Bytes)
  others : List Desc
  unk : Bytes
deriving Repr

structure Esds where
  version : Nat
  flags : Nat
  es : ES
deriving Repr

/-! ## Size() / SizeSize() -/

def dsiSizeSize (d : Option (Nat × Bytes)) : Nat :=
  match d with
  | none => 0
  | some (f, x) => 1 + f + 1 + x.length

mutual
/-- `Size()`: payload after tag and size field -/
def Desc.size : Desc → Nat
  | .dc h others => 13 + dsiSizeSize h.dsi + sizeSizes others + h.unk.length
  | .dsi _ data => data.length
  | .sl _ _ more => 1 + more.length
  | .raw _ _ data => data.length
/-- Σ `SizeSize()` -/
def sizeSizes : List Desc → Nat
  | [] => 0
  | d :: ds => (1 + d.sfsOf + 1 + d.size) + sizeSizes ds
/-- `sizeFieldSizeMinus1` -/
def Desc.sfsOf : Desc → Nat
  | .dc h _ => h.sfs
  | .dsi f _ => f
  | .sl f _ _ => f
  | .raw _ f _ => f
end

/-- `SizeSize()`: tag + size field + payload -/
def Desc.sizeSize (d : Desc) : Nat := 1 + d.sfsOf + 1 + d.size

def slSizeSize (d : Option (Nat × Nat × Bytes)) : Nat :=
  match d with
  | none => 0
  | some (f, _, m) => 1 + f + 1 + (1 + m.length)

def flagDep (flags : Nat) : Bool := flags / 128 % 2 = 1
def flagUrl (flags : Nat) : Bool := flags / 64 % 2 = 1
def flagOcr (flags : Nat) : Bool := flags / 32 % 2 = 1

/-- `ESDescriptor.Size()` -/
def ES.size (e : ES) : Nat :=
  3 + (if flagDep e.flags then 2 else 0) + (if flagUrl e.flags then 1 + e.url.length else 0)
    + (if flagOcr e.flags then 2 else 0)
    + (Desc.dc e.dc e.dcOthers).sizeSize + slSizeSize e.sl + sizeSizes e.others + e.unk.length

def ES.sizeSize (e : ES) : Nat := 1 + e.sfs + 1 + e.size

/-- `EsdsBox.Size()` -/
def sizeEsds (e : Esds) : Nat := 8 + 4 + e.es.sizeSize

/-! ## encoder -/

/-- `writeDescriptorSize`: `sfs+1` bytes, 7 bits each, most significant first, bit 7 set on all but the last -/
def writeSize (size : Nat) : Nat → Bytes
  | 0 => [size % 128]
  | p + 1 => (size / 2 ^ (7 * (p + 1)) % 128 + 128) :: writeSize size p

def encodeDsi (d : Option (Nat × Bytes)) : Bytes :=
  match d with
  | none => []
  | some (f, x) => 5 :: writeSize x.length f ++ x

mutual
/-- `EncodeSW` of a descriptor -/
def encodeDesc : Desc → Bytes
  | .dc h others =>
      4 :: writeSize (Desc.dc h others).size h.sfs ++ beBytes 1 h.objType
        ++ beBytes 4 ((h.streamType % 256) <<< 24 ||| h.bufSize) ++ beBytes 4 h.maxBr ++ beBytes 4 h.avgBr
        ++ encodeDsi h.dsi ++ encodeDescs others ++ h.unk
  | .dsi f data => 5 :: writeSize data.length f ++ data
  | .sl f cfg more => 6 :: writeSize (1 + more.length) f ++ beBytes 1 cfg ++ more
  | .raw tag f data => (tag % 256) :: writeSize data.length f ++ data
def encodeDescs : List Desc → Bytes
  | [] => []
  | d :: ds => encodeDesc d ++ encodeDescs ds
end

def encodeSl (d : Option (Nat × Nat × Bytes)) : Bytes :=
  match d with
  | none => []
  | some (f, c, m) => encodeDesc (.sl f c m)

/-- `ESDescriptor.EncodeSW` -/
def encodeES (e : ES) : Bytes :=
  3 :: writeSize e.size e.sfs ++ beBytes 2 e.esId ++ beBytes 1 e.flags
    ++ (if flagDep e.flags then beBytes 2 e.dependsOn else [])
    ++ (if flagUrl e.flags then beBytes 1 e.url.length ++ e.url else [])
    ++ (if flagOcr e.flags then beBytes 2 e.ocr else [])
    ++ encodeDesc (.dc e.dc e.dcOthers) ++ encodeSl e.sl ++ encodeDescs e.others ++ e.unk

/-- box payload: version/flags + ES descriptor -/
def encodeEsds (e : Esds) : Bytes :=
  beBytes 4 ((e.version % 256) * 2 ^ 24 + e.flags) ++ encodeES e.es

/-- the whole box as `EsdsBox.Encode` writes it: 32-bit size, "esds", payload -/
def encodeEsdsBox (e : Esds) : Bytes :=
  beBytes 4 (sizeEsds e) ++ [0x65, 0x73, 0x64, 0x73] ++ encodeEsds e

/-! ## decoder -/

inductive Err
  | tagES                 -- "got tag %d instead of ESDescriptorTag"
  | acc (e : RdErr)       -- sr.AccError()
  | tooSmall              -- "descriptor size %d too small"
  | useES                 -- "use DecodeESDescriptor instead"
  | exceeds (tag : Nat)   -- "... size %d exceeds maxNrBytes %d" (4/5/6, 0 = raw; 3 = ES descriptor vs. box)
  | sizeField (e : SzErr) -- the explicit errors of `readSizeSize`
  | dcShort               -- "DecoderConfigDescriptor size %d is less than the 13 fixed bytes"
  | dcFail (e : Err)      -- "failed to decode descriptor: %w"
  | tooFarDC              -- "read too far in DecoderConfigDescriptor"
  | tooFarES              -- "read too far in ESDescriptor"
  | dsiLeft               -- "DecSpecificInfoDescriptor has %d bytes left"
  | slZero                -- "SLConfigDescriptor size is 0"
  | expectedDC            -- "expected DecoderConfigDescriptor"
  | sizeDiff              -- "read size %d differs from calculated size %d"
  | fuel                  -- model only: recursion fuel exhausted (proved impossible for `decodeEsds`)
deriving Repr, DecidableEq

def Err.isFuel : Err → Bool
  | .fuel => true
  | _ => false

abbrev Res (α : Type) := Except Err α × Rd

def accErr (s : Rd) : Err := match s.err with | some e => .acc e | none => .acc .eof

/-- `DecodeDecSpecificInfoDescriptor` (after the tag) -/
def decodeDSI (s : Rd) (maxNr : Int) : Res Desc :=
  let (sfs, size, s, ex) := readSizeSize (maxNr - 1) s
  if let some e := ex then (.error (.sizeField e), s)
  else if s.err.isSome then (.error (accErr s), s)
  else if exceeds sfs size maxNr then (.error (.exceeds 5), s)
  else
    let start := s.pos
    let (data, s) := readBytes (toI64 size) s
    let left : Int := toI64 size - ((s.pos - start : Nat) : Int)
    if left > 0 then (.error .dsiLeft, s)
    else if s.err.isSome then (.error (accErr s), s)
    else (.ok (.dsi sfs data), s)

/-- `DecodeSLConfigDescriptor` (after the tag) -/
def decodeSL (s : Rd) (maxNr : Int) : Res Desc :=
  let (sfs, size, s, ex) := readSizeSize (maxNr - 1) s
  if let some e := ex then (.error (.sizeField e), s)
  else if s.err.isSome then (.error (accErr s), s)
  else if exceeds sfs size maxNr then (.error (.exceeds 6), s)
  else if size = 0 then (.error .slZero, s)
  else
    let (cfg, s) := readBE 1 s
    let (more, s) := if size > 1 then readBytes (toI64 (size - 1)) s else ([], s)
    if s.err.isSome then (.error (accErr s), s)
    else (.ok (.sl sfs cfg more), s)

/-- `DecodeRawDescriptor` -/
def decodeRaw (tag : Nat) (s : Rd) (maxNr : Int) : Res Desc :=
  let (sfs, size, s, ex) := readSizeSize (maxNr - 1) s
  if let some e := ex then (.error (.sizeField e), s)
  else if s.err.isSome then (.error (accErr s), s)
  else if exceeds sfs size maxNr then (.error (.exceeds 0), s)
  else
    let (data, s) := readBytes (toI64 size) s
    if s.err.isSome then (.error (accErr s), s)
    else (.ok (.raw tag sfs data), s)

/-- the `for` loop of `DecodeDecoderConfigDescriptor`; `dec` = `DecodeDescriptor` -/
def dcLoop (dec : Rd → Int → Res Desc) (sizeI : Int) (dataStart : Nat) (h : DcHdr) :
    Nat → Rd → List Desc → Res Desc
  | 0, s, _ => (.error .fuel, s)
  | m + 1, s, others =>
    let left := wrapI64 (sizeI - ((s.pos - dataStart : Nat) : Int))
    if left = 0 then (.ok (.dc h others), s)
    else if left < 0 then (.error .tooFarDC, s)
    else
      match dec s left with
      | (.error e, s') =>
        if e.isFuel then (.error .fuel, s')
        else
          let (unk, s'') := readBytes left (setPos s s')
          (.ok (.dc { h with unk := unk } others), s'')
      | (.ok d, s') => dcLoop dec sizeI dataStart h m s' (others ++ [d])

/-- `DecodeDecoderConfigDescriptor` (after the tag); `n` = loop fuel -/
def decodeDC (dec : Rd → Int → Res Desc) (n : Nat) (s : Rd) (maxNr : Int) : Res Desc :=
  let (sfs, size, s, ex) := readSizeSize (maxNr - 1) s
  if let some e := ex then (.error (.sizeField e), s)
  else if s.err.isSome then (.error (accErr s), s)
  else if exceeds sfs size maxNr then (.error (.exceeds 4), s)
  else if size < 13 then (.error .dcShort, s)
  else
    let dataStart := s.pos
    let (ot, s) := readBE 1 s
    let (w, s) := readBE 4 s
    let (maxBr, s) := readBE 4 s
    let (avgBr, s) := readBE 4 s
    let h : DcHdr := ⟨sfs, ot, w / 2 ^ 24, w % 2 ^ 24, maxBr, avgBr, none, []⟩
    let left := wrapI64 (toI64 size - ((s.pos - dataStart : Nat) : Int))
    if left = 0 then (.ok (.dc h []), s)
    else
      match dec s left with
      | (.error e, s') => (.error (if e.isFuel then .fuel else .dcFail e), s')
      | (.ok d, s') =>
        match d with
        | .dsi f x => dcLoop dec (toI64 size) dataStart { h with dsi := some (f, x) } n s' []
        | d => dcLoop dec (toI64 size) dataStart h n s' [d]

/-- `DecodeDescriptor(sr, maxNrBytes)` -/
def decodeDescriptor : Nat → Rd → Int → Res Desc
  | 0, s, _ => (.error .fuel, s)
  | n + 1, s, maxNr =>
    if maxNr < 2 then (.error .tooSmall, s)
    else
      let (tag, s) := readBE 1 s
      if s.err.isSome then (.error (accErr s), s)
      else if tag = 3 then (.error .useES, s)
      else if tag = 4 then decodeDC (decodeDescriptor n) n s maxNr
      else if tag = 5 then decodeDSI s maxNr
      else if tag = 6 then decodeSL s maxNr
      else decodeRaw tag s maxNr

/-- the `for` loop of `DecodeESDescriptor` (including the size check after it) -/
def esLoop (dec : Rd → Int → Res Desc) (size : Nat) (dataStart : Nat) (e : ES) :
    Nat → Rd → List Desc → Res ES
  | 0, s, _ => (.error .fuel, s)
  | m + 1, s, others =>
    let left := wrapI64 (toI64 size - ((s.pos - dataStart : Nat) : Int))
    if left = 0 then
      let ed := { e with others := others }
      if size ≠ ed.size % W64 then (.error .sizeDiff, s)
      else if s.err.isSome then (.error (accErr s), s)
      else (.ok ed, s)
    else if left < 0 then (.error .tooFarES, s)
    else
      match dec s left with
      | (.error er, s') =>
        if er.isFuel then (.error .fuel, s')
        else
          let (unk, s'') := readBytes left (setPos s s')
          (.ok { e with others := others, unk := unk }, s'')
      | (.ok d, s') => esLoop dec size dataStart e m s' (others ++ [d])

/-- `DecodeESDescriptor`, second half: the DecoderConfig descriptor, the optional SLConfig descriptor, the loop
    (`s` = reader after the fixed and flag-dependent fields) -/
def decodeESBody (dec : Rd → Int → Res Desc) (n : Nat) (sfs size dataStart esId flags dep : Nat) (url : Bytes)
    (ocr : Nat) (s : Rd) : Res ES :=
  let left := wrapI64 (toI64 size - ((s.pos - dataStart : Nat) : Int))
  match dec s left with
  | (.error e, s') => (.error e, s')
  | (.ok (.dc h dcOthers), s') =>
    let e : ES := ⟨sfs, esId, flags, dep, url, ocr, h, dcOthers, none, [], []⟩
    let left := wrapI64 (toI64 size - ((s'.pos - dataStart : Nat) : Int))
    match dec s' left with
    | (.error er, s'') =>
      if er.isFuel then (.error .fuel, s'')
      else
        let (unk, s3) := readBytes left (setPos s' s'')
        (.ok { e with unk := unk }, s3)
    | (.ok (.sl f c m), s'') => esLoop dec size dataStart { e with sl := some (f, c, m) } n s'' []
    | (.ok d, s'') => esLoop dec size dataStart e n s'' [d]
  | (.ok _, s') => (.error .expectedDC, s')

/-- the flag-dependent fields of the ES descriptor: dependsOn_ES_ID, URL string, OCR_ES_Id -/
def readESOpt (flags : Nat) (s : Rd) : Nat × Bytes × Nat × Rd :=
  let (dep, s) := if flagDep flags then readBE 2 s else (0, s)
  let (url, s) :=
    if flagUrl flags then
      let (l, s) := readBE 1 s
      readN l s
    else ([], s)
  let (ocr, s) := if flagOcr flags then readBE 2 s else (0, s)
  (dep, url, ocr, s)

/-- `DecodeESDescriptor(sr, descSize)`; `descSize` = bytes of the box after version/flags (worktree fix 0fa6982:
    the ES descriptor may not reach beyond them) -/
def decodeES (dec : Rd → Int → Res Desc) (n : Nat) (descSize : Nat) (s : Rd) : Res ES :=
  let (tag, s) := readBE 1 s
  if tag ≠ 3 then (.error .tagES, s)
  else
    let (sfs, size, s, ex) := readSizeSize maxInt s
    if let some e := ex then (.error (.sizeField e), s)
    else if s.err.isSome then (.error (accErr s), s)
    else if exceeds sfs size (descSize : Int) then (.error (.exceeds 3), s)
    else
      let dataStart := s.pos
      let (esId, s) := readBE 2 s
      let (flags, s) := readBE 1 s
      let (dep, url, ocr, s) := readESOpt flags s
      decodeESBody dec n sfs size dataStart esId flags dep url ocr s

/-- `DecodeEsdsSR` on the box payload with explicit fuel -/
def decodeEsdsFuel (n : Nat) (bs : Bytes) : Except Err Esds :=
  let (vf, s) := readBE 4 ⟨bs, 0, none⟩
  let descSize := if bs.length ≥ 4 then (bs.length - 4) % 2 ^ 32 else 0
  match decodeES (decodeDescriptor n) n descSize s with
  | (.error e, _) => .error e
  | (.ok es, s) =>
    if s.err.isSome then .error (accErr s)
    else .ok ⟨vf / 2 ^ 24, vf % 2 ^ 24, es⟩

/-- `DecodeEsds`/`DecodeEsdsSR` on the payload of an `esds` box (the bytes after the 8-byte header) -/
def decodeEsds (bs : Bytes) : Except Err Esds := decodeEsdsFuel (bs.length + 1) bs

/-! ## CreateEsdsBox -/

/-- `CreateESDescriptor(decConfig)` -/
def createES (decConfig : Bytes) : ES :=
  { sfs := 0, esId := 1, flags := 0, dependsOn := 0, url := [], ocr := 0,
    dc := ⟨0, 0x40, 0x15, 0, 0, 0, some (0, decConfig), []⟩, dcOthers := [],
    sl := some (0, 2, []), others := [], unk := [] }

/-- `CreateEsdsBox(decConfig)` -/
def createEsds (decConfig : Bytes) : Esds := ⟨0, 0, createES decConfig⟩

end Mp4ff.Esds
