import Mp4ff.Model.BitSyn
import Mp4ff.Model.Sei
/-!
M16: the HEVC sequence parameter set (ISO/IEC 23008-2 7.3.2.2, 7.3.3 profile_tier_level, 7.3.4 scaling_list_data,
7.3.7 st_ref_pic_set, E.2.1 VUI, E.2.2/E.2.3 HRD, 7.3.2.2.2-4 range / multilayer / 3D / SCC extensions) as `hevc/sps.go`
`ParseSPSNALUnit` reads it: a `BitSyn` term (`sps cap`) for everything up to the end of the SCC extension, then the
`sps_extension_data_flag` look-ahead loop and the `rbsp_trailing_bits` check on the reader (`parseSps`), plus the derived
short-term reference picture sets (`rpsSets`, incl. inter-RPS prediction) and the picture size (`dims`, `ImageSize`).

Deviations of the term from the letter of the code (none observable in the parser's result):
* `Read(48)` of the constraint flags is written as a 16-bit and a 32-bit field (the generic round trip is stated for
  fields of up to 32 bits); the record joins them again.
* variable-width reads (`Read(n)` with n computed from earlier values) are `varFld`: one condition per width.
* loops over an index the body needs (sub-layers, scaling list sizeId/matrixId) are unrolled.
* where the code returns as soon as the reader reports an error (after each short-term RPS, after the VUI) the term
  goes on reading (zeros): the reader's error is sticky, the final answer is the error in both cases.
* loops that run "count times or until the reader reports an error" (palette predictor initialisers) are capped by
  `cap` ≥ the number of bits of the NAL unit.
-/
namespace Mp4ff.HevcSps
open Mp4ff.BitSyn Mp4ff.Bits

/-- `Read(w t)` for a width computed from earlier values, 0 ≤ width ≤ `maxw` -/
def varFld (nm : String) (w : Trace → Nat) : Nat → List Syn
  | 0 => [.cond (fun t => w t = 0) [.fld nm 0]]
  | k + 1 => varFld nm w k ++ [.cond (fun t => w t = k + 1) [.fld nm (k + 1)]]

def maxSub (t : Trace) : Nat := t.nat "sps_max_sub_layers_minus1"

/-- i-th value of a name -/
def nth (t : Trace) (nm : String) (i : Nat) : Int := (t.all nm).getD i 0

/-! ### profile_tier_level (profilePresentFlag = true) -/

def ptlSubLayer (i : Nat) : Syn :=
  .cond (fun t => i < maxSub t) [
    .cond (fun t => nth t "sub_layer_profile_present_flag" i = 1) [
      .fld "sub_layer_profile_space" 2, .flag "sub_layer_tier_flag", .fld "sub_layer_profile_idc" 5,
      .fld "sub_layer_profile_compatibility_flags" 32,
      .fld "sub_layer_constraint_flags_hi16" 16, .fld "sub_layer_constraint_flags_lo32" 32],
    .cond (fun t => nth t "sub_layer_level_present_flag" i = 1) [.fld "sub_layer_level_idc" 8]]

def ptl : List Syn := [
  .fld "general_profile_space" 2, .flag "general_tier_flag", .fld "general_profile_idc" 5,
  .fld "general_profile_compatibility_flags" 32,
  .fld "general_constraint_flags_hi16" 16, .fld "general_constraint_flags_lo32" 32,
  .fld "general_level_idc" 8,
  .cond (fun t => maxSub t > 0) ([
    .rep 7 maxSub [.flag "sub_layer_profile_present_flag", .flag "sub_layer_level_present_flag"]] ++
    varFld "reserved_zero_2bits" (fun t => 2 * (8 - maxSub t)) 16 ++
    (List.range 7).map ptlSubLayer)]

/-! ### scaling_list_data (`readPastScalingListData`: every code is read as ue(v) and dropped) -/

def scalingEntry (sizeId : Nat) : List Syn := [
  .flag "scaling_list_pred_mode_flag",
  .cond (fun t => t.get "scaling_list_pred_mode_flag" = 0) [.ue "scaling_list_pred_matrix_id_delta"],
  .cond (fun t => t.get "scaling_list_pred_mode_flag" = 1) (
    (if sizeId > 1 then [.ue "scaling_list_dc_coef_minus8"] else []) ++
    [.rep (min 64 (2 ^ (4 + 2 * sizeId))) (fun _ => min 64 (2 ^ (4 + 2 * sizeId))) [.ue "scaling_list_delta_coef"]])]

def scalingListData : List Syn :=
  (List.range 4).flatMap fun sizeId =>
    (List.range (if sizeId = 3 then 2 else 6)).flatMap fun _ => scalingEntry sizeId

/-! ### short-term reference picture sets -/

/-- Go `int` (64 bit, wrapping) -/
def wrapI64 (x : Int) : Int := (x + 2 ^ 63) % 2 ^ 64 - 2 ^ 63

/-- `ShortTermRPS` as the parser stores it: distance to the previous entry (uint32) and the used flag, per list -/
structure Rps where
  s0 : List (Nat × Bool) := []
  s1 : List (Nat × Bool) := []
  numDelta : Nat := 0           -- NumDeltaPocs (byte)
deriving Repr, DecidableEq, Inhabited

def rpsNames : List String := ["inter_ref_pic_set_prediction_flag", "delta_rps_sign", "abs_delta_rps_minus1",
  "used_by_curr_pic_flag", "use_delta_flag", "num_negative_pics", "num_positive_pics", "delta_poc_s0_minus1",
  "used_by_curr_pic_s0_flag", "delta_poc_s1_minus1", "used_by_curr_pic_s1_flag"]

def splitSets : Trace → Trace → List Trace
  | [], cur => if cur.isEmpty then [] else [cur]
  | e :: rest, cur =>
    if e.1 == "inter_ref_pic_set_prediction_flag" then
      (if cur.isEmpty then splitSets rest [e] else cur :: splitSets rest [e])
    else splitSets rest (cur ++ [e])

/-- the values of each st_ref_pic_set read so far (the last one may be incomplete) -/
def rpsSegments (t : Trace) : List Trace :=
  let body := (t.dropWhile (·.1 != "num_short_term_ref_pic_sets")).drop 1
  splitSets (body.takeWhile (fun e => rpsNames.contains e.1)) []

/-- `accumulatedDeltaPocs` -/
def accNeg (l : List (Nat × Bool)) : List Int :=
  (l.foldl (fun (s : Int × List Int) d => let p := wrapI64 (s.1 - d.1); (p, s.2 ++ [p])) (0, [])).2
def accPos (l : List (Nat × Bool)) : List Int :=
  (l.foldl (fun (s : Int × List Int) d => let p := wrapI64 (s.1 + d.1); (p, s.2 ++ [p])) (0, [])).2

/-- (used_by_curr_pic_flag, use_delta_flag) per j of an inter-predicted set -/
def interFlags (seg : Trace) : List (Bool × Bool) :=
  seg.foldl (fun acc e =>
    if e.1 == "used_by_curr_pic_flag" then acc ++ [(decide (e.2 = 1), decide (e.2 = 1))]
    else if e.1 == "use_delta_flag" then acc.dropLast ++ [((acc.getLast?.getD (false, false)).1, decide (e.2 = 1))]
    else acc) []

/-- store accumulated differences as distances to the previous entry (uint32) -/
def toDist (neg : Bool) (l : List (Int × Bool)) : List (Nat × Bool) :=
  (l.foldl (fun (s : Int × List (Nat × Bool)) d =>
    let dist := if neg then wrapI64 (s.1 - d.1) else wrapI64 (d.1 - s.1)
    (d.1, s.2 ++ [((dist % 2 ^ 32).toNat, d.2)])) (0, [])).2

/-- one set from its values; `ref` = the set it is predicted from (the previous one inside an SPS) -/
def deriveSet (ref : Rps) (seg : Trace) : Rps :=
  if seg.get "inter_ref_pic_set_prediction_flag" = 1 then
    let sign := seg.get "delta_rps_sign"
    let absm1 := wrapI64 (seg.get "abs_delta_rps_minus1")
    let deltaRps := wrapI64 ((1 - 2 * sign) * wrapI64 (absm1 + 1))
    let fl := interFlags seg
    let used (j : Nat) : Bool := (fl.getD j (false, false)).1
    let useDelta (j : Nat) : Bool := (fl.getD j (false, false)).2
    let refS0 := accNeg ref.s0
    let refS1 := accPos ref.s1
    let nrNeg := refS0.length
    let nrPos := refS1.length
    let nd := ref.numDelta
    let idxNeg := List.range nrNeg
    let idxPos := List.range nrPos
    let pick (js : List Nat) (src : List Int) (off : Nat) (wantNeg : Bool) : List (Int × Bool) :=
      js.filterMap fun j =>
        let dPoc := wrapI64 (src.getD j 0 + deltaRps)
        if (if wantNeg then dPoc < 0 else dPoc > 0) ∧ useDelta (off + j) then some (dPoc, used (off + j)) else none
    let s0 := pick idxPos.reverse refS1 nrNeg true ++
      (if deltaRps < 0 ∧ useDelta nd then [(deltaRps, used nd)] else []) ++
      pick idxNeg refS0 0 true
    let s1 := pick idxNeg.reverse refS0 0 false ++
      (if deltaRps > 0 ∧ useDelta nd then [(deltaRps, used nd)] else []) ++
      pick idxPos refS1 nrNeg false
    { s0 := toDist true s0, s1 := toDist false s1, numDelta := (s0.length % 256 + s1.length % 256) % 256 }
  else
    let nn := seg.nat "num_negative_pics" % 256
    let np := seg.nat "num_positive_pics" % 256
    if nn > 16 ∨ np > 16 then {} else
    let d0 := (seg.all "delta_poc_s0_minus1").map fun v => (v.toNat + 1) % 2 ^ 32
    let u0 := (seg.all "used_by_curr_pic_s0_flag").map fun v => decide (v = 1)
    let d1 := (seg.all "delta_poc_s1_minus1").map fun v => (v.toNat + 1) % 2 ^ 32
    let u1 := (seg.all "used_by_curr_pic_s1_flag").map fun v => decide (v = 1)
    { s0 := (List.range nn).map (fun i => (d0.getD i 0, u0.getD i false)),
      s1 := (List.range np).map (fun i => (d1.getD i 0, u1.getD i false)), numDelta := (nn + np) % 256 }

def deriveAll (segs : List Trace) : List Rps :=
  segs.foldl (fun acc seg => acc ++ [deriveSet (acc.getLast?.getD {}) seg]) []

/-- all short-term reference picture sets of a parsed SPS -/
def rpsSets (t : Trace) : List Rps := deriveAll (rpsSegments t)

/-- the set the one being parsed is predicted from (`sps.ShortTermRefPicSets[idx-1]`) -/
def refSet (t : Trace) : Rps := ((deriveAll (rpsSegments t).dropLast).getLast?).getD {}

/-- "reference set is broken or too big to predict from" -/
def refBad (t : Trace) : Bool :=
  let r := refSet t
  r.numDelta ≠ r.s0.length + r.s1.length ∨ r.numDelta > 16

def stRps : List Syn := [
  .cond (fun t => (rpsSegments t).length > 0) [.flag "inter_ref_pic_set_prediction_flag"],
  .cond (fun t => (rpsSegments t).length > 0 ∧ t.get "inter_ref_pic_set_prediction_flag" = 1) [
    .fld "delta_rps_sign" 1, .ue "abs_delta_rps_minus1",
    .abort refBad,
    .rep 17 (fun t => (refSet t).numDelta + 1) [
      .flag "used_by_curr_pic_flag",
      .cond (fun t => t.get "used_by_curr_pic_flag" = 0) [.flag "use_delta_flag"]]],
  .cond (fun t => ¬ ((rpsSegments t).length > 0 ∧ t.get "inter_ref_pic_set_prediction_flag" = 1)) [
    .ue "num_negative_pics", .ue "num_positive_pics",
    .abort (fun t => t.nat "num_negative_pics" % 256 > 16 ∨ t.nat "num_positive_pics" % 256 > 16),
    .rep 16 (fun t => t.nat "num_negative_pics" % 256) [.ue "delta_poc_s0_minus1", .flag "used_by_curr_pic_s0_flag"],
    .rep 16 (fun t => t.nat "num_positive_pics" % 256) [.ue "delta_poc_s1_minus1", .flag "used_by_curr_pic_s1_flag"]]]

/-! ### VUI and HRD -/

/-- no `cpb_cnt_minus1 > 31` so far (`parseHrdParameters` returns at once when it sees one) -/
def hrdOk (t : Trace) : Bool := (t.all "cpb_cnt_minus1").all (· ≤ 31)

def subPic (t : Trace) : Bool := t.get "sub_pic_hrd_params_present_flag" = 1

/-- fixed_pic_rate_within_cvs_flag of the sub-layer being parsed (inferred 1 when the general flag is 1) -/
def withinCvs (t : Trace) : Bool :=
  t.get "fixed_pic_rate_general_flag" = 1 ∨ t.get "fixed_pic_rate_within_cvs_flag" = 1

/-- low_delay_hrd_flag of the sub-layer being parsed (only coded when not fixed rate) -/
def lowDelay (t : Trace) : Bool := ¬ withinCvs t ∧ t.get "low_delay_hrd_flag" = 1

/-- cpb_cnt_minus1 of the sub-layer being parsed (0 when not coded) -/
def cpbCnt (t : Trace) : Nat := if lowDelay t then 0 else t.nat "cpb_cnt_minus1" % 256

def subLayerHrdParams : List Syn := [
  .rep 32 (fun t => cpbCnt t + 1) [
    .ue "bit_rate_value_minus1", .ue "cpb_size_value_minus1",
    .cond subPic [.ue "cpb_size_du_value_minus1", .ue "bit_rate_du_value_minus1"],
    .flag "cbr_flag"]]

def hrd : List Syn := [
  .flag "nal_hrd_parameters_present_flag", .flag "vcl_hrd_parameters_present_flag",
  .cond (fun t => t.get "nal_hrd_parameters_present_flag" = 1 ∨ t.get "vcl_hrd_parameters_present_flag" = 1) [
    .flag "sub_pic_hrd_params_present_flag",
    .cond subPic [
      .fld "tick_divisor_minus2" 8, .fld "du_cpb_removal_delay_increment_length_minus1" 5,
      .flag "sub_pic_cpb_params_in_pic_timing_sei_flag", .fld "dpb_output_delay_du_length_minus1" 5],
    .fld "bit_rate_scale" 4, .fld "cpb_size_scale" 4,
    .cond subPic [.fld "cpb_size_du_scale" 4],
    .fld "initial_cpb_removal_delay_length_minus1" 5, .fld "au_cpb_removal_delay_length_minus1" 5,
    .fld "dpb_output_delay_length_minus1" 5],
  .rep 8 (fun t => maxSub t + 1) [
    .cond hrdOk [
      .flag "fixed_pic_rate_general_flag",
      .cond (fun t => t.get "fixed_pic_rate_general_flag" = 0) [.flag "fixed_pic_rate_within_cvs_flag"],
      .cond withinCvs [.ue "elemental_duration_in_tc_minus1"],
      .cond (fun t => ¬ withinCvs t) [.flag "low_delay_hrd_flag"],
      .cond (fun t => ¬ lowDelay t) [
        .ue "cpb_cnt_minus1",
        .seterr (fun t => t.nat "cpb_cnt_minus1" > 31)],
      .cond (fun t => hrdOk t ∧ t.get "nal_hrd_parameters_present_flag" = 1) subLayerHrdParams,
      .cond (fun t => hrdOk t ∧ t.get "vcl_hrd_parameters_present_flag" = 1) subLayerHrdParams]]]

def vui : List Syn := [
  .flag "aspect_ratio_info_present_flag",
  .cond (fun t => t.get "aspect_ratio_info_present_flag" = 1) [
    .fld "aspect_ratio_idc" 8,
    .cond (fun t => t.get "aspect_ratio_idc" = 255) [.fld "sar_width" 16, .fld "sar_height" 16],
    .seterr (fun t => t.get "aspect_ratio_idc" ≠ 255 ∧ t.get "aspect_ratio_idc" > 16)],     -- GetSARfromIDC error
  .flag "overscan_info_present_flag",
  .cond (fun t => t.get "overscan_info_present_flag" = 1) [.flag "overscan_appropriate_flag"],
  .flag "video_signal_type_present_flag",
  .cond (fun t => t.get "video_signal_type_present_flag" = 1) [
    .fld "video_format" 3, .flag "video_full_range_flag", .flag "colour_description_present_flag",
    .cond (fun t => t.get "colour_description_present_flag" = 1) [
      .fld "colour_primaries" 8, .fld "transfer_characteristics" 8, .fld "matrix_coeffs" 8]],
  .flag "chroma_loc_info_present_flag",
  .cond (fun t => t.get "chroma_loc_info_present_flag" = 1) [
    .ue "chroma_sample_loc_type_top_field", .ue "chroma_sample_loc_type_bottom_field"],
  .flag "neutral_chroma_indication_flag", .flag "field_seq_flag", .flag "frame_field_info_present_flag",
  .flag "default_display_window_flag",
  .cond (fun t => t.get "default_display_window_flag" = 1) [
    .ue "def_disp_win_left_offset", .ue "def_disp_win_right_offset", .ue "def_disp_win_top_offset",
    .ue "def_disp_win_bottom_offset"],
  .flag "vui_timing_info_present_flag",
  .cond (fun t => t.get "vui_timing_info_present_flag" = 1) [
    .fld "vui_num_units_in_tick" 32, .fld "vui_time_scale" 32, .flag "vui_poc_proportional_to_timing_flag",
    .cond (fun t => t.get "vui_poc_proportional_to_timing_flag" = 1) [.ue "vui_num_ticks_poc_diff_one_minus1"],
    .flag "vui_hrd_parameters_present_flag",
    .cond (fun t => t.get "vui_hrd_parameters_present_flag" = 1) hrd],
  .flag "bitstream_restriction_flag",
  .cond (fun t => t.get "bitstream_restriction_flag" = 1) [
    .flag "tiles_fixed_structure_flag", .flag "motion_vectors_over_pic_boundaries_flag",
    .flag "restricted_ref_pic_lists_flag", .ue "min_spatial_segmentation_idc", .ue "max_bytes_per_pic_denom",
    .ue "max_bits_per_min_cu_denom", .ue "log2_max_mv_length_horizontal", .ue "log2_max_mv_length_vertical"]]

/-! ### extensions -/

def rangeExt : List Syn := [
  .flag "transform_skip_rotation_enabled_flag", .flag "transform_skip_context_enabled_flag",
  .flag "implicit_rdpcm_enabled_flag", .flag "explicit_rdpcm_enabled_flag",
  .flag "extended_precision_processing_flag", .flag "intra_smoothing_disabled_flag",
  .flag "high_precision_offsets_enabled_flag", .flag "persistent_rice_adaptation_enabled_flag",
  .flag "cabac_bypass_alignment_enabled_flag"]

def ext3d : List Syn := [
  .flag "iv_di_mc_enabled_flag0", .flag "iv_mv_scal_enabled_flag0", .ue "log2_ivmc_sub_pb_size_minus3",
  .flag "iv_res_pred_enabled_flag", .flag "depth_ref_enabled_flag", .flag "vsp_mc_enabled_flag",
  .flag "dbbp_enabled_flag",
  .flag "iv_di_mc_enabled_flag1", .flag "iv_mv_scal_enabled_flag1", .flag "tex_mc_enabled_flag",
  .ue "log2_texmc_sub_pb_size_minus3", .flag "intra_contour_enabled_flag", .flag "intra_dc_only_wedge_enabled_flag",
  .flag "cqt_cu_part_pred_enabled_flag", .flag "inter_dc_only_enabled_flag", .flag "skip_intra_enabled_flag"]

def chroma (t : Trace) : Nat := t.nat "chroma_format_idc" % 256

/-- `int(BitDepthLumaMinus8+8)`: byte arithmetic -/
def lumaBits (t : Trace) : Nat := (t.nat "bit_depth_luma_minus8" % 256 + 8) % 256
def chromaBits (t : Trace) : Nat := (t.nat "bit_depth_chroma_minus8" % 256 + 8) % 256

/-- the bit depths the palette predictor initialisers are read with are out of range (> 16 bits): the parser records
    an error and leaves the SCC extension at once (without this check `BitDepth+8` can wrap to a 0-bit read that never
    fails, and the loops below would run 2^64 times: finding C16-hevcsps-scc-zero-width) -/
def depthBad (t : Trace) : Bool :=
  t.nat "bit_depth_luma_minus8" % 256 > 8 ∨ (chroma t ≠ 0 ∧ t.nat "bit_depth_chroma_minus8" % 256 > 8)

def sccBad (t : Trace) : Bool :=
  t.get "palette_mode_enabled_flag" = 1 ∧ t.get "sps_palette_predictor_initializers_present_flag" = 1 ∧ depthBad t

def sccExt (cap : Nat) : List Syn := [
  .flag "sps_curr_pic_ref_enabled_flag", .flag "palette_mode_enabled_flag",
  .cond (fun t => t.get "palette_mode_enabled_flag" = 1) [
    .ue "palette_max_size", .ue "delta_palette_max_predictor_size",
    .flag "sps_palette_predictor_initializers_present_flag",
    .cond (fun t => t.get "sps_palette_predictor_initializers_present_flag" = 1) [
      .ue "sps_num_palette_predictor_initializers_minus1",
      .seterr depthBad,
      .cond (fun t => ¬ depthBad t) [
        .rep cap (fun t => t.nat "sps_num_palette_predictor_initializers_minus1" + 1)
          (varFld "palette_predictor_initializer_luma" lumaBits 16),
        .cond (fun t => chroma t ≠ 0) [
          .rep cap (fun t => t.nat "sps_num_palette_predictor_initializers_minus1" + 1)
            (varFld "palette_predictor_initializer_cb" chromaBits 16),
          .rep cap (fun t => t.nat "sps_num_palette_predictor_initializers_minus1" + 1)
            (varFld "palette_predictor_initializer_cr" chromaBits 16)]]]],
  .cond (fun t => ¬ sccBad t) [
    .fld "motion_vector_resolution_control_idc" 2, .flag "intra_boundary_filtering_disabled_flag"]]

/-! ### the SPS -/

/-- width of lt_ref_pic_poc_lsb_sps: `int(sps.Log2MaxPicOrderCntLsbMinus4 + 4)`, byte arithmetic -/
def pocLsbBits (t : Trace) : Nat := (t.nat "log2_max_pic_order_cnt_lsb_minus4" % 256 + 4) % 256

/-- everything before the SCC extension (no part of it depends on the NAL unit length) -/
def spsHead : List Syn := [
  .fld "nal_header" 16,
  .abort (fun t => t.nat "nal_header" / 512 % 64 ≠ 33),
  .fld "sps_video_parameter_set_id" 4, .fld "sps_max_sub_layers_minus1" 3, .flag "sps_temporal_id_nesting_flag"] ++
  ptl ++ [
  .ue "sps_seq_parameter_set_id", .ue "chroma_format_idc",
  .cond (fun t => chroma t = 3) [.flag "separate_colour_plane_flag"],
  .ue "pic_width_in_luma_samples", .ue "pic_height_in_luma_samples", .flag "conformance_window_flag",
  .cond (fun t => t.get "conformance_window_flag" = 1) [
    .ue "conf_win_left_offset", .ue "conf_win_right_offset", .ue "conf_win_top_offset", .ue "conf_win_bottom_offset"],
  .ue "bit_depth_luma_minus8", .ue "bit_depth_chroma_minus8", .ue "log2_max_pic_order_cnt_lsb_minus4",
  .flag "sps_sub_layer_ordering_info_present_flag",
  .rep 8 (fun t => if t.get "sps_sub_layer_ordering_info_present_flag" = 1 then maxSub t + 1 else 1) [
    .ue "sps_max_dec_pic_buffering_minus1", .ue "sps_max_num_reorder_pics", .ue "sps_max_latency_increase_plus1"],
  .ue "log2_min_luma_coding_block_size_minus3", .ue "log2_diff_max_min_luma_coding_block_size",
  .ue "log2_min_luma_transform_block_size_minus2", .ue "log2_diff_max_min_luma_transform_block_size",
  .ue "max_transform_hierarchy_depth_inter", .ue "max_transform_hierarchy_depth_intra",
  .flag "scaling_list_enabled_flag",
  .cond (fun t => t.get "scaling_list_enabled_flag" = 1) [
    .flag "sps_scaling_list_data_present_flag",
    .cond (fun t => t.get "sps_scaling_list_data_present_flag" = 1) scalingListData],
  .flag "amp_enabled_flag", .flag "sample_adaptive_offset_enabled_flag", .flag "pcm_enabled_flag",
  .cond (fun t => t.get "pcm_enabled_flag" = 1) [
    .fld "pcm_sample_bit_depth_luma_minus1" 4, .fld "pcm_sample_bit_depth_chroma_minus1" 4,
    .ue "log2_min_pcm_luma_coding_block_size_minus3", .ue "log2_diff_max_min_pcm_luma_coding_block_size",
    .flag "pcm_loop_filter_disabled_flag"],
  .ue "num_short_term_ref_pic_sets",
  .rep 255 (fun t => t.nat "num_short_term_ref_pic_sets" % 256) stRps,
  .flag "long_term_ref_pics_present_flag",
  .cond (fun t => t.get "long_term_ref_pics_present_flag" = 1) [
    .ue "num_long_term_ref_pics_sps",
    .rep 255 (fun t => t.nat "num_long_term_ref_pics_sps" % 256)
      (varFld "lt_ref_pic_poc_lsb_sps" pocLsbBits 255 ++ [.flag "used_by_curr_pic_lt_sps_flag"])],
  .flag "sps_temporal_mvp_enabled_flag", .flag "strong_intra_smoothing_enabled_flag",
  .flag "vui_parameters_present_flag",
  .cond (fun t => t.get "vui_parameters_present_flag" = 1) vui,
  .flag "sps_extension_present_flag",
  .cond (fun t => t.get "sps_extension_present_flag" = 1) [
    .flag "sps_range_extension_flag", .flag "sps_multilayer_extension_flag", .flag "sps_3d_extension_flag",
    .flag "sps_scc_extension_flag", .fld "sps_extension_4bits" 4],
  .cond (fun t => t.get "sps_range_extension_flag" = 1) rangeExt,
  .cond (fun t => t.get "sps_multilayer_extension_flag" = 1) [.flag "inter_view_mv_vert_constraint_flag"],
  .cond (fun t => t.get "sps_3d_extension_flag" = 1) ext3d]

def sps (cap : Nat) : List Syn :=
  spsHead ++ [.cond (fun t => t.get "sps_scc_extension_flag" = 1) (sccExt cap)]

/-- the `sps_extension_data_flag` loop: `for more { append(ReadFlag()); more = MoreRbspData() }` -/
def extFlags : Nat → ER → List Bool → ER × List Bool
  | 0, r, acc => (r, acc)
  | f + 1, r, acc =>
    let (r1, more) := Sei.moreRbspData r
    if more then
      let (r2, b) := r1.readFlag
      extFlags f r2 (acc ++ [b])
    else (r1, acc)

inductive Result
  | fuel
  | err
  | ok (t : Trace) (extData : List Bool)
deriving Repr, DecidableEq

def capOf (nalu : Bytes) : Nat := 8 * nalu.length + 8

/-- driver fuel (any value ≥ the need gives the same answer: `parse_fuel_mono`) -/
def fuel (nalu : Bytes) : Nat := 64 * (nalu.length + 8) + 16384

/-- `ParseSPSNALUnit` -/
def parseSps (f : Nat) (nalu : Bytes) : Result :=
  match parse f (sps (capOf nalu)) [] { rest := nalu } with
  | none => .fuel
  | some (t, e) =>
    if stopped t ∨ e.err then .err else
    let (e2, fl) := if t.nat "sps_extension_4bits" > 0 then extFlags (e.bitsLeft + 1) e [] else (e, [])
    let (e3, te) := Sei.readTrailing e2
    if te ≠ .none ∨ e3.err then .err else .ok t fl

/-! ### picture size -/

/-- `SPS.ImageSize()`: uint32 arithmetic -/
def dims (t : Trace) : Nat × Nat :=
  let M := 2 ^ 32
  let c := chroma t
  let (sw, sh) := if c = 1 then (2, 2) else if c = 2 then (2, 1) else (1, 1)
  let w := t.nat "pic_width_in_luma_samples" % M
  let h := t.nat "pic_height_in_luma_samples" % M
  let l := t.nat "conf_win_left_offset" % M
  let r := t.nat "conf_win_right_offset" % M
  let tp := t.nat "conf_win_top_offset" % M
  let b := t.nat "conf_win_bottom_offset" % M
  ((w + M - ((l + r) % M * sw) % M) % M, (h + M - ((tp + b) % M * sh) % M) % M)

/-- the standard's derivation (7.4.3.2.1, Table 6-1): the conformance window offsets count in units of
    SubWidthC / SubHeightC luma samples -/
def stdDims (t : Trace) : Option (Nat × Nat) :=
  let sub : Option (Nat × Nat) := match t.nat "chroma_format_idc" with
    | 0 => some (1, 1) | 1 => some (2, 2) | 2 => some (2, 1) | 3 => some (1, 1) | _ => none
  sub.map fun (sw, sh) =>
    (t.nat "pic_width_in_luma_samples" - sw * (t.nat "conf_win_left_offset" + t.nat "conf_win_right_offset"),
     t.nat "pic_height_in_luma_samples" - sh * (t.nat "conf_win_top_offset" + t.nat "conf_win_bottom_offset"))

/-- what the standard requires of the sizes (7.4.3.2.1): the window lies inside the picture, sizes fit 32 bits -/
def WindowFits (t : Trace) : Prop :=
  t.nat "pic_width_in_luma_samples" < 2 ^ 32 ∧ t.nat "pic_height_in_luma_samples" < 2 ^ 32 ∧
  2 * (t.nat "conf_win_left_offset" + t.nat "conf_win_right_offset") ≤ t.nat "pic_width_in_luma_samples" ∧
  2 * (t.nat "conf_win_top_offset" + t.nat "conf_win_bottom_offset") ≤ t.nat "pic_height_in_luma_samples"

end Mp4ff.HevcSps
