/-!
M0: shared basics for the executable model of Eyevinn/mp4ff. Core Lean only (no Mathlib),
so that the line-protocol driver can be linked as a `lean_exe`.

Bytes are `Nat`s (with `< 256` stated where it matters) and byte strings are `List Nat`:
the Go code's `[]byte`.  Hex conversion is used by the driver only.
-/
namespace Mp4ff

abbrev Bytes := List Nat

/-- all elements are bytes -/
def IsBytes (l : Bytes) : Prop := ∀ b ∈ l, b < 256

def hexDigit (n : Nat) : Char :=
  if n < 10 then Char.ofNat (48 + n) else Char.ofNat (87 + n)

def hexOfByte (b : Nat) : String :=
  String.singleton (hexDigit ((b / 16) % 16)) ++ String.singleton (hexDigit (b % 16))

def toHex (l : Bytes) : String :=
  if l.isEmpty then "-" else l.foldl (fun s b => s ++ hexOfByte b) ""

def hexVal (c : Char) : Option Nat :=
  if '0' ≤ c ∧ c ≤ '9' then some (c.toNat - 48)
  else if 'a' ≤ c ∧ c ≤ 'f' then some (c.toNat - 87)
  else if 'A' ≤ c ∧ c ≤ 'F' then some (c.toNat - 55)
  else none

def fromHexChars : List Char → Option Bytes
  | [] => some []
  | [_] => none
  | a :: b :: rest => do
    let x ← hexVal a
    let y ← hexVal b
    let r ← fromHexChars rest
    pure ((x * 16 + y) :: r)

/-- "-" is the empty byte string -/
def fromHex (s : String) : Option Bytes :=
  if s = "-" then some [] else fromHexChars s.toList

/-- big-endian bytes of `v`, `n` bytes wide (most significant first) -/
def beBytes : Nat → Nat → Bytes
  | 0, _ => []
  | n + 1, v => ((v / 256 ^ n) % 256) :: beBytes n v

/-- big-endian value of a byte list -/
def beVal (l : Bytes) : Nat := l.foldl (fun acc b => acc * 256 + b) 0

end Mp4ff
