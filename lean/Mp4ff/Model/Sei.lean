import Mp4ff.Model.BitSpec
/-!
SEI layer: sei/sei.go (WriteSEIMessages / ExtractSEIData), bits/ebspreader.go (MoreRbspData,
ReadRbspTrailingBits), and the typed messages with a serialiser: sei136.go (time code),
sei137.go (mastering display colour volume), sei144.go (content light level), sei1_avc.go (AVC
picture timing).
-/
namespace Mp4ff.Sei
open Mp4ff.Bits

/-! ## EBSPReader.MoreRbspData / ReadRbspTrailingBits -/

/-- the "all remaining bits are zero?" loop of `MoreRbspData`: `true` = found another 1 bit.
    EOF ends the loop with `false` (Go resets the error). -/
def scanForOne : Nat → ER → Bool
  | 0, _ => false
  | fuel + 1, r =>
    let (r', b) := r.read 1
    if r'.err then false
    else if b = 1 then true
    else scanForOne fuel r'

/-- `MoreRbspData` on a seekable reader: (reader after the call, more, EOF-error-left-set).
    The reader state is restored (`reset`) except that an EOF on the *first* bit stays set. -/
def moreRbspData (r : ER) : ER × Bool :=
  let (r1, first) := r.read 1
  if r1.err then (r1, false)
  else if first ≠ 1 then (r, true)
  else (r, scanForOne (r1.bitsLeft + 1) r1)

inductive TrailErr | none | notOne | anotherOne
deriving Repr, DecidableEq

/-- `ReadRbspTrailingBits` -/
def readTrailing (r : ER) : ER × TrailErr :=
  if r.err then (r, .none) else
  let (r1, first) := r.read 1
  if r1.err then (r1, .none)
  else if first ≠ 1 then (r1, .notOne)
  else
    let rec go : Nat → ER → ER × TrailErr
      | 0, r => (r, .none)
      | fuel + 1, r =>
        let (r', b) := r.read 1
        if r'.err then ({ r' with err := false }, .none)
        else if b = 1 then (r', .anotherOne)
        else go fuel r'
    go (r1.bitsLeft + 1) r1

/-! ## SEI NAL unit payload framing -/

structure Msg where
  type : Nat
  payload : Bytes
deriving Repr, DecidableEq

/-- `WriteSEIMessages` -/
def writeSEI (msgs : List Msg) : Bytes :=
  let w := msgs.foldl (fun (w : EW) m =>
    let w := w.writeSEIValue m.type
    let w := w.writeSEIValue m.payload.length
    m.payload.foldl (fun w b => w.write b 8) w) ({} : EW)
  w.writeRbspTrailingBits.out

/-- the 0xFF-run value loop of `ExtractSEIData` (`wrap` = 2^64 for the type, 2^32 for the size) -/
def readFFValue (wrap : Nat) : Nat → ER → Nat → ER × Nat
  | 0, r, acc => (r, acc)
  | fuel + 1, r, acc =>
    let (r', b) := r.read 8
    let acc' := (acc + b) % wrap
    if b ≠ 0xff then (r', acc') else readFFValue wrap fuel r' acc'

inductive ExtractErr | read | trailingMissing
deriving Repr, DecidableEq

/-- `ExtractSEIData`: messages, and an error class (`trailingMissing` still returns the messages) -/
def extractSEI (bs : Bytes) : List Msg × Option ExtractErr :=
  let rec go : Nat → ER → List Msg → List Msg × Option ExtractErr
    | 0, _, acc => (acc, none)
    | fuel + 1, r, acc =>
      let (r, ty) := readFFValue W64 (r.bitsLeft / 8 + 2) r 0
      let (r, sz) := readFFValue (2 ^ 32) (r.bitsLeft / 8 + 2) r 0
      let (r, pl) := if r.err then (r, []) else ER.readBytes sz r []
      if r.err then ([], some .read)
      else
        let acc := acc ++ [⟨ty, pl⟩]
        let (r, more) := moreRbspData r
        if r.err then (acc, some .trailingMissing)
        else if !more then (acc, none)
        else go fuel r acc
  go (bs.length + 1) { rest := bs } []

/-! ## SEI NAL units: `avc.ParseSEINalu` / `hevc.ParseSEINalu` -/

inductive Codec | avc | hevc
deriving Repr, DecidableEq

/-- bytes of the NAL unit header (AVC 1, HEVC 2) -/
def Codec.hdrLen : Codec → Nat
  | .avc => 1
  | .hevc => 2

/-- the `ErrNotSEINalu` test: AVC `nalu[0] & 0x1f == 6`; HEVC at least two bytes and `(nalu[0] >> 1) & 0x3f` ∈ {39, 40} -/
def isSEINalu : Codec → Bytes → Bool
  | .avc, b :: _ => b % 32 == 6
  | .hevc, b :: _ :: _ => (b / 2) % 64 == 39 || (b / 2) % 64 == 40
  | _, _ => false

/-- `ParseSEINalu` as a list of (type, payload): header test, `ExtractSEIData` on the bytes after the header; `none` =
    not an SEI NAL unit. Every message of the list then goes through its decoder (by type and codec) on its own; for a
    payload its decoder accepts, (Type(), Payload()) of the result is the (type, payload) pair extracted: the general
    and pass-through messages keep the payload bytes, the typed messages re-serialise to them (`timeCode_roundtrip`,
    `mdcv_roundtrip`, `cll_roundtrip`, `picTiming_roundtrip`). The list is a value: one entry per message, in order. -/
def parseSEINalu (c : Codec) (nalu : Bytes) : Option (List Msg × Option ExtractErr) :=
  if isSEINalu c nalu then some (extractSEI (nalu.drop c.hdrLen)) else none

/-! ## typed messages -/

def flagBit (b : Bool) : Nat := if b then 1 else 0

/-- `ClockTS` of SEI 136 -/
structure ClockTS where
  timeOffsetValue : Nat := 0
  nFrames : Nat := 0
  hours : Nat := 0
  minutes : Nat := 0
  seconds : Nat := 0
  clockTimeStampFlag : Bool := false
  unitsFieldBasedFlag : Bool := false
  fullTimeStampFlag : Bool := false
  secondsFlag : Bool := false
  minutesFlag : Bool := false
  hoursFlag : Bool := false
  discontinuityFlag : Bool := false
  cntDroppedFlag : Bool := false
  countingType : Nat := 0
  timeOffsetLength : Nat := 0
deriving Repr, DecidableEq

/-- the (width, value) fields `TimeCodeSEI.Payload` writes for one clock -/
def ClockTS.fields (c : ClockTS) : List (Nat × Nat) :=
  (1, flagBit c.clockTimeStampFlag) ::
  if c.clockTimeStampFlag then
    [(1, flagBit c.unitsFieldBasedFlag), (5, c.countingType), (1, flagBit c.fullTimeStampFlag),
     (1, flagBit c.discontinuityFlag), (1, flagBit c.cntDroppedFlag), (9, c.nFrames)] ++
    (if c.fullTimeStampFlag then [(6, c.seconds), (6, c.minutes), (5, c.hours)]
     else (1, flagBit c.secondsFlag) ::
       if c.secondsFlag then (6, c.seconds) :: (1, flagBit c.minutesFlag) ::
         if c.minutesFlag then (6, c.minutes) :: (1, flagBit c.hoursFlag) ::
           if c.hoursFlag then [(5, c.hours)] else []
         else []
       else []) ++
    (5, c.timeOffsetLength) :: (if c.timeOffsetLength > 0 then [(c.timeOffsetLength, c.timeOffsetValue)] else [])
  else []

/-- `TimeCodeSEI.Size()` in bits before rounding (the Go code counts exactly the fields above, plus the 2-bit count) -/
def ClockTS.nrBits (c : ClockTS) : Nat :=
  1 + if c.clockTimeStampFlag then
    18 + (if c.fullTimeStampFlag then 17
          else 1 + if c.secondsFlag then 7 + (if c.minutesFlag then 7 + (if c.hoursFlag then 5 else 0) else 0) else 0)
      + 5 + c.timeOffsetLength
  else 0

def timeCodeSize (clocks : List ClockTS) : Nat := (2 + (clocks.map ClockTS.nrBits).sum + 7) / 8

/-- write with a FixedSliceWriter of capacity `cap`: bytes beyond the capacity are dropped
    (`WriteUint8` sets the accumulated error and `Bytes()` returns what fitted) -/
def sliceWriterBytes (cap : Nat) (w : BW) : Bytes := w.flush.take cap

/-- `TimeCodeSEI.Payload` -/
def timeCodePayload (clocks : List ClockTS) : Bytes :=
  let w := ({} : BW).write clocks.length 2
  let w := clocks.foldl (fun w c => w.writeAll c.fields) w
  let w := w.write 1 1
  sliceWriterBytes (timeCodeSize clocks) w

def readFlagBR (r : BR) : BR × Bool :=
  let (r', b) := r.read 1
  (r', if r'.err then false else b = 1)

/-- `DecodeClockTS` -/
def decodeClockTS (r : BR) : BR × ClockTS :=
  let (r, ctf) := readFlagBR r
  if ctf then
    let (r, ufb) := readFlagBR r
    let (r, ct) := r.read 5
    let (r, full) := readFlagBR r
    let (r, disc) := readFlagBR r
    let (r, cnt) := readFlagBR r
    let (r, nf) := r.read 9
    let c : ClockTS := { clockTimeStampFlag := true, unitsFieldBasedFlag := ufb, countingType := ct % 256,
                         fullTimeStampFlag := full, discontinuityFlag := disc, cntDroppedFlag := cnt,
                         nFrames := nf % 65536 }
    let (r, c) :=
      if full then
        let (r, s) := r.read 6
        let (r, m) := r.read 6
        let (r, h) := r.read 5
        (r, { c with seconds := s % 256, minutes := m % 256, hours := h % 256 })
      else
        let (r, sf) := readFlagBR r
        if sf then
          let (r, s) := r.read 6
          let (r, mf) := readFlagBR r
          if mf then
            let (r, m) := r.read 6
            let (r, hf) := readFlagBR r
            if hf then
              let (r, h) := r.read 5
              (r, { c with secondsFlag := true, seconds := s % 256, minutesFlag := true, minutes := m % 256,
                           hoursFlag := true, hours := h % 256 })
            else (r, { c with secondsFlag := true, seconds := s % 256, minutesFlag := true, minutes := m % 256 })
          else (r, { c with secondsFlag := true, seconds := s % 256 })
        else (r, c)
    let (r, tol) := r.read 5
    let c := { c with timeOffsetLength := tol % 256 }
    if tol % 256 > 0 then
      let (r, tov) := r.read (tol % 256)
      (r, { c with timeOffsetValue := tov % 2 ^ 32 })
    else (r, c)
  else (r, {})

/-- `DecodeTimeCodeSEI`: clocks and "reader error" -/
def decodeTimeCode (pl : Bytes) : List ClockTS × Bool :=
  let (r, n) := ({ rest := pl } : BR).read 2
  let rec go : Nat → BR → List ClockTS → BR × List ClockTS
    | 0, r, acc => (r, acc)
    | k + 1, r, acc => let (r, c) := decodeClockTS r; go k r (acc ++ [c])
  let (r, cs) := go n r []
  (cs, r.err)

/-- SEI 137: 10 × u16, 2 × u32, big endian; decode rejects any other length -/
structure MDCV where
  px : List Nat     -- DisplayPrimariesX[0..2]
  py : List Nat
  wx : Nat
  wy : Nat
  maxLum : Nat
  minLum : Nat
deriving Repr, DecidableEq

def mdcvPayload (m : MDCV) : Bytes :=
  let xy := (List.range 3).flatMap fun i => beBytes 2 (m.px.getD i 0) ++ beBytes 2 (m.py.getD i 0)
  xy ++ beBytes 2 m.wx ++ beBytes 2 m.wy ++ beBytes 4 m.maxLum ++ beBytes 4 m.minLum

def u16at (d : Bytes) (p : Nat) : Nat := beVal ((d.drop p).take 2)
def u32at (d : Bytes) (p : Nat) : Nat := beVal ((d.drop p).take 4)

def decodeMDCV (d : Bytes) : Option MDCV :=
  if d.length ≠ 24 then none else
  some ⟨[u16at d 0, u16at d 4, u16at d 8], [u16at d 2, u16at d 6, u16at d 10],
        u16at d 12, u16at d 14, u32at d 16, u32at d 20⟩

/-- SEI 144 -/
def cllPayload (maxCLL maxPALL : Nat) : Bytes := beBytes 2 maxCLL ++ beBytes 2 maxPALL
def decodeCLL (d : Bytes) : Option (Nat × Nat) :=
  if d.length ≠ 4 then none else some (u16at d 0, u16at d 2)

/-! ### AVC picture timing (SEI 1) -/

structure ClockAvc where
  ctType : Nat := 0
  nuitFieldBasedFlag : Bool := false
  countingType : Nat := 0
  nFrames : Nat := 0
  hours : Nat := 0
  minutes : Nat := 0
  seconds : Nat := 0
  clockTimeStampFlag : Bool := false
  fullTimeStampFlag : Bool := false
  secondsFlag : Bool := false
  minutesFlag : Bool := false
  hoursFlag : Bool := false
  discontinuityFlag : Bool := false
  cntDroppedFlag : Bool := false
  timeOffsetLength : Nat := 0
  timeOffsetValue : Int := 0
deriving Repr, DecidableEq

/-- `uint(c.TimeOffsetValue)` masked to the field width by `WriteBits` -/
def toUnsigned (v : Int) (n : Nat) : Nat := (v % (2 ^ n : Int)).toNat

def ClockAvc.fields (c : ClockAvc) : List (Nat × Nat) :=
  (1, flagBit c.clockTimeStampFlag) ::
  if c.clockTimeStampFlag then
    [(2, c.ctType), (1, flagBit c.nuitFieldBasedFlag), (5, c.countingType), (1, flagBit c.fullTimeStampFlag),
     (1, flagBit c.discontinuityFlag), (1, flagBit c.cntDroppedFlag), (8, c.nFrames)] ++
    (if c.fullTimeStampFlag then [(6, c.seconds), (6, c.minutes), (5, c.hours)]
     else (1, flagBit c.secondsFlag) ::
       if c.secondsFlag then (6, c.seconds) :: (1, flagBit c.minutesFlag) ::
         if c.minutesFlag then (6, c.minutes) :: (1, flagBit c.hoursFlag) ::
           if c.hoursFlag then [(5, c.hours)] else []
         else []
       else []) ++
    (if c.timeOffsetLength > 0 then [(c.timeOffsetLength, toUnsigned c.timeOffsetValue c.timeOffsetLength)] else [])
  else []

def ClockAvc.nrBits (c : ClockAvc) : Nat :=
  1 + if c.clockTimeStampFlag then
    19 + (if c.fullTimeStampFlag then 17
          else 1 + if c.secondsFlag then 7 + (if c.minutesFlag then 7 + (if c.hoursFlag then 5 else 0) else 0) else 0)
      + c.timeOffsetLength
  else 0

structure PicTimingAvc where
  hrd : Option (Nat × Nat × Nat × Nat) := none   -- (cpbRemovalDelay, dpbOutputDelay, cpbLenMinus1, dpbLenMinus1)
  pictStruct : Nat
  clocks : List ClockAvc
deriving Repr, DecidableEq

def picTimingSize (p : PicTimingAvc) : Nat :=
  ((match p.hrd with | some (_, _, a, b) => a + 1 + b + 1 | none => 0) + 4 + (p.clocks.map ClockAvc.nrBits).sum + 7) / 8

def picTimingPayload (p : PicTimingAvc) : Bytes :=
  let w : BW := {}
  let w := match p.hrd with
    | some (cpb, dpb, a, b) => (w.write cpb (a + 1)).write dpb (b + 1)
    | none => w
  let w := w.write p.pictStruct 4
  let w := p.clocks.foldl (fun w c => w.writeAll c.fields) w
  sliceWriterBytes (picTimingSize p) w

/-- `Reader.ReadSigned(n)` for 1 ≤ n -/
def readSigned (r : BR) (n : Nat) : BR × Int :=
  let (r', v) := r.read n
  (r', if v >>> (n - 1) = 1 then (v : Int) - 2 ^ n else v)

def decodeClockAvc (r : BR) (tol : Nat) : BR × ClockAvc :=
  let (r, ctf) := readFlagBR r
  if ctf then
    let (r, ctt) := r.read 2
    let (r, nfb) := readFlagBR r
    let (r, ct) := r.read 5
    let (r, full) := readFlagBR r
    let (r, disc) := readFlagBR r
    let (r, cnt) := readFlagBR r
    let (r, nf) := r.read 8
    let c : ClockAvc := { clockTimeStampFlag := true, ctType := ctt % 256, nuitFieldBasedFlag := nfb,
                          countingType := ct % 256, fullTimeStampFlag := full, discontinuityFlag := disc,
                          cntDroppedFlag := cnt, nFrames := nf % 256, timeOffsetLength := tol }
    let (r, c) :=
      if full then
        let (r, s) := r.read 6
        let (r, m) := r.read 6
        let (r, h) := r.read 5
        (r, { c with seconds := s % 256, minutes := m % 256, hours := h % 256 })
      else
        let (r, sf) := readFlagBR r
        if sf then
          let (r, s) := r.read 6
          let (r, mf) := readFlagBR r
          if mf then
            let (r, m) := r.read 6
            let (r, hf) := readFlagBR r
            if hf then
              let (r, h) := r.read 5
              (r, { c with secondsFlag := true, seconds := s % 256, minutesFlag := true, minutes := m % 256,
                           hoursFlag := true, hours := h % 256 })
            else (r, { c with secondsFlag := true, seconds := s % 256, minutesFlag := true, minutes := m % 256 })
          else (r, { c with secondsFlag := true, seconds := s % 256 })
        else (r, c)
    if tol > 0 then
      let (r, v) := readSigned r tol
      (r, { c with timeOffsetValue := v })
    else (r, c)
  else (r, { timeOffsetLength := tol })

/-- `DecodePicTimingAvcSEIHRD`: `none` = unknown pict_struct; otherwise message and reader error -/
def decodePicTimingAvc (pl : Bytes) (hrdLens : Option (Nat × Nat)) (tol : Nat) : Option (PicTimingAvc × Bool) :=
  let r : BR := { rest := pl }
  let (r, hrd) := match hrdLens with
    | some (a, b) =>
      let (r, cpb) := r.read (a + 1)
      let (r, dpb) := r.read (b + 1)
      (r, some (cpb, dpb, a, b))
    | none => (r, none)
  let (r, ps) := r.read 4
  let ps := ps % 256
  if ps > 8 then none else
  let n := if ps ≤ 2 then 1 else if ps ≤ 4 then 2 else 3
  let rec go : Nat → BR → List ClockAvc → BR × List ClockAvc
    | 0, r, acc => (r, acc)
    | k + 1, r, acc => let (r, c) := decodeClockAvc r tol; go k r (acc ++ [c])
  let (r, cs) := go n r []
  some (⟨hrd, ps, cs⟩, r.err)

end Mp4ff.Sei
