import Mp4ff.Model.Bits
/-!
Bit-string view used to state the C13 theorems: a byte string *is* the list of its bits,
most significant bit first; a field of width `k` with value `v` is `lowBits k v`.
-/
namespace Mp4ff.Bits

/-- the `n` low bits of `v`, most significant first -/
def lowBits : Nat → Nat → List Bool
  | 0, _ => []
  | n + 1, v => v.testBit n :: lowBits n v

def bitsOfBytes : Bytes → List Bool
  | [] => []
  | b :: bs => lowBits 8 b ++ bitsOfBytes bs

/-- value of a bit list (MSB first) -/
def ofBits (l : List Bool) : Nat := l.foldl (fun acc b => 2 * acc + (if b then 1 else 0)) 0

/-- all bits written so far by a plain writer (bytes handed out ++ bits still in the accumulator) -/
def BW.abs (w : BW) : List Bool := bitsOfBytes w.out ++ lowBits w.n w.v

/-- invariant Go maintains between calls: fewer than 8 pending bits, `v &= Mask(8)` -/
def BW.Inv (w : BW) : Prop := w.n < 8 ∧ w.v < 256 ∧ IsBytes w.out

/-- bits not yet consumed by a plain reader -/
def BR.abs (r : BR) : List Bool := lowBits r.n r.v ++ bitsOfBytes r.rest

def BR.Inv (r : BR) : Prop := r.n < 8 ∧ r.v < 2 ^ r.n ∧ IsBytes r.rest ∧ r.err = false

/-- a list of (width, value) fields as one bit string -/
def fieldBits : List (Nat × Nat) → List Bool
  | [] => []
  | (k, v) :: rest => lowBits k v ++ fieldBits rest

def BW.writeAll (w : BW) : List (Nat × Nat) → BW
  | [] => w
  | (k, v) :: rest => (w.write v k).writeAll rest

def BR.readAll (r : BR) : List Nat → BR × List Nat
  | [] => (r, [])
  | k :: ks =>
    let (r1, v) := r.read k
    let (r2, vs) := r1.readAll ks
    (r2, v :: vs)

def EW.writeAll (w : EW) : List (Nat × Nat) → EW
  | [] => w
  | (k, v) :: rest => (w.write v k).writeAll rest

def ER.readAll (r : ER) : List Nat → ER × List Nat
  | [] => (r, [])
  | k :: ks =>
    let (r1, v) := r.read k
    let (r2, vs) := r1.readAll ks
    (r2, v :: vs)

/-- fields the property quantifies over: width 1..32 (proved for up to 56), value fits -/
def FieldsOK (ops : List (Nat × Nat)) : Prop := ∀ kv ∈ ops, 1 ≤ kv.1 ∧ kv.1 ≤ 56 ∧ kv.2 < 2 ^ kv.1

end Mp4ff.Bits

namespace Mp4ff.Bits

/-! ### operation sequences for the C13 statements -/

/-- what a caller writes: a fixed-width field, a flag, ue(v), se(v) -/
inductive Op
  | fld (k v : Nat)
  | flag (b : Bool)
  | ue (nr : Nat)
  | se (x : Int)
deriving Repr, DecidableEq

/-- the standard se(v) → ue(v) mapping (the package has a signed reader but no signed writer) -/
def seToUe (x : Int) : Nat := if x > 0 then (2 * x - 1).toNat else (-2 * x).toNat

/-- the domain the property quantifies over: widths 1..32, values that fit, 32-bit Exp-Golomb -/
def Op.OK : Op → Prop
  | .fld k v => 1 ≤ k ∧ k ≤ 32 ∧ v < 2 ^ k
  | .flag _ => True
  | .ue nr => nr < 2 ^ 32
  | .se x => -(2 ^ 31 : Int) < x ∧ x < 2 ^ 31

def Op.value : Op → Int
  | .fld _ v => v
  | .flag b => if b then 1 else 0
  | .ue nr => nr
  | .se x => x

def EW.writeOp (w : EW) : Op → EW
  | .fld k v => w.write v k
  | .flag b => w.write (if b then 1 else 0) 1
  | .ue nr => w.writeExpGolomb nr
  | .se x => w.writeExpGolomb (seToUe x)

/-- read with the *shape* of the op only (the op's value is not consulted) -/
def ER.readOp (r : ER) : Op → ER × Int
  | .fld k _ => let (r', v) := r.read k; (r', (v : Int))
  | .flag _ => let (r', b) := r.readFlag; (r', if b then 1 else 0)
  | .ue _ => let (r', v) := r.readExpGolomb; (r', (v : Int))
  | .se _ => r.readSignedGolomb

def ER.readOps (r : ER) : List Op → ER × List Int
  | [] => (r, [])
  | op :: ops =>
    let (r1, v) := r.readOp op
    let (r2, vs) := r1.readOps ops
    (r2, v :: vs)

/-- plain (non-escaping) counterpart of a field op, for `bits.Writer`/`bits.Reader` -/
def BW.writeFields (ops : List (Nat × Nat)) : Bytes := (({} : BW).writeAll ops).flush

end Mp4ff.Bits
