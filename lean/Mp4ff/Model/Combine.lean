import Mp4ff.Model.Frag
/-!
M12 (multiplexing): `examples/combine-segs` — every input is a single-track fragment as decoded (its tfhd, its sample run)
together with the trex of its own init segment; the tool expands it with `GetFullSamples(trex)` and adds the samples
to their own track of a new multi-track fragment (runs created by the fragment builder: every value explicit).
-/
namespace Mp4ff.Frag

structure CombineInput where
  tfhd : Tfhd
  trex : Trex          -- of the input's init segment
  run : Trun
deriving Repr, DecidableEq

/-- what a reader gets per output track, with whatever tfhd / trex defaults the combined init and fragment carry -/
def combine (inputs : List CombineInput) (outTfhd : Tfhd) (outTrex : Trex) : List (List Sample) :=
  inputs.map fun i => readBack outTfhd outTrex { samples := readBack i.tfhd i.trex i.run }

/-- the tool before the repair: inputs expanded without their trex (`GetFullSamples(nil)`: defaults are zero) -/
def combineNoTrex (inputs : List CombineInput) (outTfhd : Tfhd) (outTrex : Trex) : List (List Sample) :=
  inputs.map fun i => readBack outTfhd outTrex { samples := readBack i.tfhd {} i.run }

end Mp4ff.Frag

/-! ### where the sample data of a track fragment is (ISO/IEC 14496-12 8.8.7.1 tfhd, 8.8.8.1 trun)
`Fragment.GetFullSamples` (mp4/fragment.go) resolves these for the traf it expands; it is the sample source of
`MediaSegment.Fragmentify`, `examples/resegmenter` and `examples/combine-segs`. -/
namespace Mp4ff.Frag

/-- the two tfhd fields that determine the base of the data offsets -/
structure TfhdBase where
  baseDataOffset : Option Nat := none    -- flag 0x000001 and the field
  defaultBaseIsMoof : Bool := false      -- flag 0x020000
deriving Repr, DecidableEq

/-- base_data_offset, when present, wins; otherwise default-base-is-moof, or being the first traf of the moof, gives
    the moof start; otherwise the end of the data of the previous traf -/
def TfhdBase.base (h : TfhdBase) (moofStart prevTrafEnd : Nat) (firstTraf : Bool) : Nat :=
  match h.baseDataOffset with
  | some b => b
  | none => if h.defaultBaseIsMoof || firstTraf then moofStart else prevTrafEnd

/-- a run as far as the location of its data goes: trun data_offset (`none` = flag 0x000001 not set), sample sizes -/
structure RunLoc where
  dataOffset : Option Int
  sizes : List Nat
deriving Repr, DecidableEq

/-- start of every run's data: base + data_offset, or — without data_offset — the end of the previous run's data
    (`prevEnd`, which is the base for the first run) -/
def runStarts (base : Int) : Int → List RunLoc → List Int
  | _, [] => []
  | prevEnd, r :: rest =>
    let start := match r.dataOffset with
      | some d => base + d
      | none => prevEnd
    start :: runStarts base (start + (r.sizes.sum : Nat)) rest

/-- consecutive samples from a position -/
def offsetsFrom (p : Int) : List Nat → List Int
  | [] => []
  | s :: rest => p :: offsetsFrom (p + (s : Nat)) rest

/-- absolute position of the first byte of every sample of a (first or only) traf, in track order -/
def samplePositions (h : TfhdBase) (moofStart : Nat) (runs : List RunLoc) : List Int :=
  let base : Int := (h.base moofStart moofStart true : Nat)
  ((runStarts base base runs).zip runs).flatMap fun pr => offsetsFrom pr.1 pr.2.sizes

/-- a writer that put the data of its runs at the absolute positions `p` (with the sample sizes given) describes each
    by `data_offset = p - base`, or — when it chooses to (`omit`) and the run follows the previous one — by nothing -/
def describeRuns (base : Int) : Int → List (Int × Bool × List Nat) → List RunLoc
  | _, [] => []
  | prevEnd, (p, om, sizes) :: rest =>
    { dataOffset := if om = true ∧ p = prevEnd then none else some (p - base), sizes := sizes } ::
      describeRuns base (p + (sizes.sum : Nat)) rest

end Mp4ff.Frag
