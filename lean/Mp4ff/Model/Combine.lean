import Mp4ff.Model.Frag
/-!
M12 (multiplexing): `examples/combine-segs` — every input is a single-track fragment as decoded (its tfhd, its sample run)
together with the trex of its own init segment; the tool expands it with `GetFullSamples(trex)` and adds the samples
to their own track of a new multi-track fragment (runs created by the fragment builder: every value explicit).
-/
namespace Mp4ff.Frag

structure CombineInput where
  tfhd : Tfhd
  trex : Trex          -- of the input's init segment
  run : Trun
deriving Repr, DecidableEq

/-- what a reader gets per output track, with whatever tfhd / trex defaults the combined init and fragment carry -/
def combine (inputs : List CombineInput) (outTfhd : Tfhd) (outTrex : Trex) : List (List Sample) :=
  inputs.map fun i => readBack outTfhd outTrex { samples := readBack i.tfhd i.trex i.run }

/-- the tool before the repair: inputs expanded without their trex (`GetFullSamples(nil)`: defaults are zero) -/
def combineNoTrex (inputs : List CombineInput) (outTfhd : Tfhd) (outTrex : Trex) : List (List Sample) :=
  inputs.map fun i => readBack outTfhd outTrex { samples := readBack i.tfhd {} i.run }

end Mp4ff.Frag
