import Mp4ff.Model.Basic
/-!
M8: NAL unit framing — avc/annexb.go, avc/nalus.go, avc/avc.go, hevc/hevc.go, hevc/annexb.go.

Loops over an index are written as `List.range'` maps (the Go loops have no early exit except
where a `break`/`return` is modelled explicitly by recursion).  Indexing is `getD · 0`: the
theorems are stated for well-formed inputs where every index is in range; hostile inputs are
C16's subject and have their own fault-level model.
-/
namespace Mp4ff.Nalu

def U32 : Nat := 2 ^ 32

abbrev byteAt (s : Bytes) (i : Nat) : Nat := s.getD i 0

/-- `data[a:b]` -/
def slice (s : Bytes) (a b : Nat) : Bytes := (s.drop a).take (b - a)

/-- `binary.BigEndian.Uint32(s[pos:pos+4])` -/
def be32 (s : Bytes) (pos : Nat) : Nat :=
  ((byteAt s pos * 256 + byteAt s (pos + 1)) * 256 + byteAt s (pos + 2)) * 256 + byteAt s (pos + 3)

def put32 (v : Nat) : Bytes := beBytes 4 v

/-! ## start-code scanning -/

/-- 00 00 01 at position `i` -/
def isSC (s : Bytes) (i : Nat) : Bool := byteAt s i == 0 && byteAt s (i + 1) == 0 && byteAt s (i + 2) == 1

structure SC where
  len : Nat        -- startCodeLength (3 or 4)
  pos : Nat        -- startPos: first byte after the start code
deriving Repr, DecidableEq

/-- the byte-by-byte loop `for ; i < streamLen-3; i++` of getStartCodePositions, from `i0` -/
def scanFrom (s : Bytes) (i0 : Nat) : List SC :=
  (List.range' i0 (s.length - 3 - i0)).filterMap fun i =>
    if isSC s i then some ⟨if i ≥ 1 ∧ byteAt s (i - 1) = 0 then 4 else 3, i + 3⟩ else none

/-- reference: byte-by-byte scan of the whole stream -/
def scanByte (s : Bytes) : List SC := scanFrom s 0

/-- the machine word at `i` (amd64: little endian, 8 bytes) -/
def word (s : Bytes) (i : Nat) : BitVec 64 :=
  BitVec.ofNat 64 ((List.range 8).foldr (fun k acc => acc * 256 + byteAt s (i + k)) 0)

def magicLeft : BitVec 64 := 0x0101010101010101#64
def magicRight : BitVec 64 := 0x8080808080808080#64

/-- `hasZeroByte` -/
def hasZeroByte (x : BitVec 64) : Bool := ((x - magicLeft) &&& (~~~x) &&& magicRight) != 0#64

/-- one probe of the inner loop at odd offset `j` -/
def probe (s : Bytes) (j : Nat) : Option SC :=
  if byteAt s j = 0 then
    if byteAt s (j - 1) = 0 ∧ byteAt s (j + 1) = 1 then
      some ⟨if j ≥ 2 ∧ byteAt s (j - 2) = 0 then 4 else 3, j + 2⟩
    else if byteAt s (j + 1) = 0 ∧ byteAt s (j + 2) = 1 then
      some ⟨if j ≥ 1 ∧ byteAt s (j - 1) = 0 then 4 else 3, j + 3⟩
    else none
  else none

/-- `streamLenLim` (negative values behave like 0: the word loop does not run) -/
def wordLim (s : Bytes) : Nat := s.length - s.length % 8 - 8

/-- the word loop -/
def scanWords (s : Bytes) : List SC :=
  (List.range (wordLim s / 8)).flatMap fun w =>
    let i := 8 * w
    if hasZeroByte (word s i) then
      [i + 1, i + 3, i + 5, i + 7].filterMap (probe s)
    else []

/-- `getStartCodePositions` -/
def scanWord (s : Bytes) : List SC := scanWords s ++ scanFrom s (wordLim s)

def minSCLen (l : List SC) : Nat := l.foldl (fun m sc => if sc.len < m then sc.len else m) 4

/-! ## conversions -/

/-- replace `s[a:a+4]` by `v` (the in-place `copy(stream[startPos-4:startPos], lengthField)`) -/
def patch4 (s : Bytes) (a : Nat) (v : Bytes) : Bytes := s.take a ++ v ++ s.drop (a + 4)

/-- NALU length for entry `i` of the start-code list -/
def naluLenAt (s : Bytes) (scs : List SC) (i : Nat) (inPlace : Bool) : Nat :=
  match scs[i]?, scs[i + 1]? with
  | some c, some nx => nx.pos - c.pos - (if inPlace then 4 else nx.len)
  | some c, none => s.length - c.pos
  | none, _ => 0

/-- `ConvertByteStreamToNaluSample` -/
def toSample (s : Bytes) : Bytes :=
  let scs := scanWord s
  if minSCLen scs = 4 then
    (List.range scs.length).foldl (fun st i =>
      match scs[i]? with
      | some c => patch4 st (c.pos - 4) (put32 (naluLenAt s scs i true % U32))
      | none => st) s
  else
    (List.range scs.length).foldl (fun out i =>
      match scs[i]? with
      | some c =>
        let n := naluLenAt s scs i false
        out ++ put32 (n % U32) ++ slice s c.pos (c.pos + n)
      | none => out) []

/-- `ConvertSampleToByteStream` (checked `int` cursor: a length field pointing beyond the sample ends the walk) -/
def toByteStream : Nat → Bytes → Nat → Bytes
  | 0, s, _ => s
  | fuel + 1, s, pos =>
    if pos + 4 ≤ s.length then
      let n := be32 s pos
      let s' := patch4 s pos [0, 0, 0, 1]
      if n > s.length - (pos + 4) then s' else toByteStream fuel s' (pos + 4 + n)
    else s

/-- `GetNalusFromSample`: `none` = error return -/
def nalusFromSample (s : Bytes) : Option (List Bytes) :=
  if s.length < 4 then none else
  let rec go : Nat → Nat → List Bytes → Option (List Bytes)
    | 0, _, acc => some acc
    | fuel + 1, pos, acc =>
      if pos + 4 < s.length then
        let n := be32 s pos
        let pos1 := pos + 4
        if n > s.length - pos1 then none
        else go fuel (pos1 + n) (acc ++ [slice s pos1 (pos1 + n)])
      else some acc
  go (s.length + 1) 0 []

/-! ## Annex B helpers (all share the loop of ExtractNalusFromByteStream) -/

/-- trailing zeros removal: `for j := i-1; j > start; j--` -/
def trimEnd (s : Bytes) (start : Nat) : Nat → Nat
  | 0 => 0
  | e + 1 => if e > start ∧ byteAt s e = 0 then trimEnd s start e else e + 1

/-- state of the extraction loop: current NALU start (0 = none yet; Go uses -1 / `> 0` tests) -/
def extractLoop (s : Bytes) (bound : Nat) : Nat → Nat → Nat → List (Nat × Nat) → List (Nat × Nat) × Nat
  | 0, _, cur, acc => (acc, cur)
  | fuel + 1, i, cur, acc =>
    if i < bound then
      if isSC s i then
        let acc' := if cur > 0 then acc ++ [(cur, trimEnd s cur i)] else acc
        extractLoop s bound fuel (i + 1) (i + 3) acc'
      else extractLoop s bound fuel (i + 1) cur acc
    else (acc, cur)

/-- `ExtractNalusFromByteStream` -/
def extractNalus (s : Bytes) : List Bytes :=
  let (rs, cur) := extractLoop s (s.length - 3) (s.length + 1) 0 0 []
  if cur = 0 then [] else (rs ++ [(cur, s.length)]).map fun (a, b) => slice s a b

/-- codec parameters: header → type, video test -/
structure Codec where
  typeOf : Nat → Nat
  isVideo : Nat → Bool

def avc : Codec := ⟨fun h => h % 32, fun t => t ≤ 5⟩
def hevc : Codec := ⟨fun h => (h / 2) % 64, fun t => t ≤ 31⟩

/-- `ExtractNalusOfTypeFromByteStream` (avc: video = type < 6, hevc: < 32) -/
def extractOfType (c : Codec) (s : Bytes) (nType : Nat) (stopAtVideo : Bool) : List Bytes :=
  let rec go : Nat → Nat → Nat → List Bytes → List Bytes
    | 0, _, _, acc => acc
    | fuel + 1, i, cur, acc =>
      if i < s.length - 3 then
        if isSC s i then
          let acc' := if cur > 0 ∧ c.typeOf (byteAt s cur) = nType
            then acc ++ [slice s cur (trimEnd s cur i)] else acc
          let cur' := i + 3
          if cur' < s.length ∧ stopAtVideo ∧ c.isVideo (c.typeOf (byteAt s cur')) then acc'
          else go fuel (i + 1) cur' acc'
        else go fuel (i + 1) cur acc
      else
        if cur = 0 then []
        else if c.typeOf (byteAt s cur) = nType then acc ++ [slice s cur s.length] else acc
  go (s.length + 1) 0 0 []

/-- `GetFirstAVCVideoNALUFromByteStream` (none = nil) -/
def firstVideoNalu (c : Codec) (s : Bytes) : Option Bytes :=
  let rec go : Nat → Nat → Nat → Option Bytes
    | 0, _, _ => none
    | fuel + 1, i, cur =>
      if i < s.length - 3 then
        if isSC s i then
          if cur > 0 ∧ c.isVideo (c.typeOf (byteAt s cur)) then some (slice s cur (trimEnd s cur i))
          else go fuel (i + 1) (i + 3)
        else go fuel (i + 1) cur
      else
        if cur > 0 ∧ c.isVideo (c.typeOf (byteAt s cur)) then some (slice s cur s.length) else none
  go (s.length + 1) 0 0

/-- `GetParameterSetsFromByteStream`: returns the list of (type, nalu) kept, in stream order.
    `isPS` selects the parameter-set types (avc 7,8; hevc 32,33,34).  The loop `break`s when the NALU
    that starts is video; if it never does, the NALU open at the end of the data is emitted too. -/
def paramSetsFromByteStream (c : Codec) (isPS : Nat → Bool) (s : Bytes) : List (Nat × Bytes) :=
  let rec go : Nat → Nat → Nat → List (Nat × Bytes) → List (Nat × Bytes)
    | 0, _, _, acc => acc
    | fuel + 1, i, cur, acc =>
      if i < s.length - 3 then
        if isSC s i then
          let t := c.typeOf (byteAt s cur)
          let acc' := if cur > 0 ∧ isPS t then acc ++ [(t, slice s cur (trimEnd s cur i))] else acc
          let cur' := i + 3
          if c.isVideo (c.typeOf (byteAt s cur')) then acc'
          else go fuel (i + 1) cur' acc'
        else go fuel (i + 1) cur acc
      else
        let t := c.typeOf (byteAt s cur)
        if cur > 0 ∧ isPS t then acc ++ [(t, slice s cur s.length)] else acc
  go (s.length + 1) 0 0 []

/-! ## length-prefixed walkers (`uint32` cursor) -/

/-- `FindNaluTypes` / `FindNaluTypesUpToFirstVideoNALU` (stop = true) -/
def naluTypes (c : Codec) (stopAtVideo : Bool) (s : Bytes) : List Nat :=
  if s.length < 4 then [] else
  let rec go : Nat → Nat → List Nat → List Nat
    | 0, _, acc => acc
    | fuel + 1, pos, acc =>
      if pos + 4 < s.length then
        let n := be32 s pos
        let pos1 := pos + 4
        let t := c.typeOf (byteAt s pos1)
        let acc' := acc ++ [t]
        if stopAtVideo ∧ c.isVideo t then acc'
        else if n > s.length - pos1 then acc'          -- length field points beyond the sample
        else go fuel (pos1 + n) acc'
      else acc
  go (s.length + 1) 0 []

/-- `ContainsNaluType` -/
def containsType (c : Codec) (s : Bytes) (t0 : Nat) : Bool :=
  let rec go : Nat → Nat → Bool
    | 0, _ => false
    | fuel + 1, pos =>
      if pos + 4 < s.length then
        let n := be32 s pos
        let pos1 := pos + 4
        if c.typeOf (byteAt s pos1) = t0 then true
        else if n > s.length - pos1 then false
        else go fuel (pos1 + n)
      else false
  go (s.length + 1) 0

/-- `GetParameterSets`: (type, nalu) for the parameter-set types until the first video NALU -/
def paramSets (c : Codec) (isPS : Nat → Bool) (s : Bytes) : List (Nat × Bytes) :=
  let rec go : Nat → Nat → List (Nat × Bytes) → List (Nat × Bytes)
    | 0, _, acc => acc
    | fuel + 1, pos, acc =>
      if pos + 4 < s.length then
        let n := be32 s pos
        let pos1 := pos + 4
        if n > s.length - pos1 then acc else
        let t := c.typeOf (byteAt s pos1)
        if isPS t then go fuel (pos1 + n) (acc ++ [(t, slice s pos1 (pos1 + n))])
        else if c.isVideo t then acc
        else go fuel (pos1 + n) acc
      else acc
  go (s.length + 1) 0 []

def avcIsPS (t : Nat) : Bool := t == 7 || t == 8
def hevcIsPS (t : Nat) : Bool := t == 32 || t == 33 || t == 34

/-- avc `HasParameterSets` / hevc `HasParameterSets` -/
def hasParamSets (c : Codec) (need : List Nat) (s : Bytes) : Bool :=
  let ts := naluTypes c true s
  need.all fun t => ts.contains t

/-- avc `IsIDRSample` = contains type 5; hevc `IsRAPSample` 16..23, `IsIDRSample` 19..20 -/
def anyTypeIn (c : Codec) (lo hi : Nat) (s : Bytes) : Bool :=
  (naluTypes c false s).any fun t => lo ≤ t ∧ t ≤ hi

/-! ## specification side -/

def startCode (k : Nat) : Bytes := if k = 4 then [0, 0, 0, 1] else [0, 0, 1]

/-- Annex B stream for units (start-code length, NALU) -/
def annexB : List (Nat × Bytes) → Bytes
  | [] => []
  | (k, n) :: rest => startCode k ++ n ++ annexB rest

/-- 4-byte length-prefixed sample -/
def lenPrefixed : List Bytes → Bytes
  | [] => []
  | n :: rest => put32 n.length ++ n ++ lenPrefixed rest

/-- no 00 00 0{0,1,2} window inside -/
def EmulationFree : Bytes → Prop
  | a :: b :: c :: rest => ¬ (a = 0 ∧ b = 0 ∧ c ≤ 2) ∧ EmulationFree (b :: c :: rest)
  | _ => True

/-- a well-formed NAL unit: non-empty bytes, emulation-free, not ending in 00 (rbsp trailing bits) -/
def WFNalu (n : Bytes) : Prop := n ≠ [] ∧ IsBytes n ∧ EmulationFree n ∧ n.getLast? ≠ some 0

end Mp4ff.Nalu
