import Mp4ff.Model.Boxes
/-!
TODO statements for the generic layout DSL (serves C01, C02, C03).  Replace every `sorry` by a complete proof.
If a statement is false as written find the counterexample, report it, and prove the closest true variant
(`…_partial`), keeping the original in a comment.
-/
namespace Mp4ff.Layout

/-- a value fits a primitive field (given the values before it) -/
def FldOK (f : Fld) (acc : Trace) (v : Val) : Prop :=
  match f, v with
  | .u w, .n x => x < 256 ^ w
  | .raw n, .b bs => bs.length = n ∧ IsBytes bs
  | .rsv _, .n x => x = 0
  | .cstr, .b bs => IsBytes bs ∧ 0 ∉ bs
  | .rest, .b bs => IsBytes bs
  | .udyn w, .n x => x < 256 ^ (w acc)
  | .rawdyn n, .b bs => bs.length = n acc ∧ IsBytes bs
  | _, _ => False

/-- `.rest` may only be decoded against an empty tail -/
def FldTailOK (f : Fld) (tail : Bytes) : Prop :=
  match f with
  | .rest => tail = []
  | _ => True

/-- every value consumed by `encode` fits its field; `tail` is what follows the encoding when it is decoded -/
def Fits : Nat → List Syn → Trace → Trace → Bytes → Prop
  | 0, _, _, _, _ => False
  | _ + 1, [], _, _, _ => True
  | f + 1, .fld nm fl :: rest, acc, src, tail =>
    match src with
    | [] => False
    | (nm', v) :: src' =>
      nm' = nm ∧ FldOK fl acc v ∧ Fits f rest (acc ++ [(nm, v)]) src' tail ∧
      (match encode f rest (acc ++ [(nm, v)]) src' with
       | some (bs, _, _) => FldTailOK fl (bs ++ tail)
       | none => False)
  | f + 1, .cond p body :: rest, acc, src, tail =>
    if p acc then
      (match encode f body acc src with
       | some (_, a1, s1) =>
         Fits f rest a1 s1 tail ∧
         (match encode f rest a1 s1 with
          | some (b2, _, _) => Fits f body acc src (b2 ++ tail)
          | none => False)
       | none => False)
    else Fits f rest acc src tail
  | f + 1, .rep cnt body :: rest, acc, src, tail =>
    match cnt acc with
    | 0 => Fits f rest acc src tail
    | n + 1 =>
      (match encode f body acc src with
       | some (_, a1, s1) =>
         Fits f (.rep (fun _ => n) body :: rest) a1 s1 tail ∧
         (match encode f (.rep (fun _ => n) body :: rest) a1 s1 with
          | some (b2, _, _) => Fits f body acc src (b2 ++ tail)
          | none => False)
       | none => False)

/-- **decode ∘ encode = id**: what the encoder writes, the decoder reads back as the same trace, leaving the tail -/
theorem decode_encode (f : Nat) : ∀ (L : List Syn) (acc src : Trace) (tail : Bytes),
    Fits f L acc src tail →
    ∀ bs a s, encode f L acc src = some (bs, a, s) →
      decode f L acc (bs ++ tail) = some (a, tail) := by
  sorry

/-- **encode ∘ decode = id outside the don't-care positions**: if the decoder accepts `bs` (bytes) leaving `rest`,
    then encoding the decoded values writes exactly as many bytes as were consumed, equal to the consumed bytes at
    every position that `dontCare` does not list, and the result decodes to the same trace again (fixed point).
    `a.drop acc.length` are the values decoded by this layout (the trace grows by appending). -/
theorem encode_decode (f : Nat) : ∀ (L : List Syn) (acc : Trace) (bs : Bytes) (a : Trace) (rest : Bytes),
    IsBytes bs → decode f L acc bs = some (a, rest) →
    ∃ out dc p, encode f L acc (a.drop acc.length) = some (out, a, []) ∧
      dontCare f L acc bs 0 = some (dc, a, rest, p) ∧ p = out.length ∧
      out.length + rest.length = bs.length ∧
      (∀ i, i < out.length → i ∉ dc → out[i]? = bs[i]?) ∧
      decode f L acc (out ++ rest) = some (a, rest) := by
  sorry

/-- more fuel never changes a successful decode -/
theorem decode_fuel_mono (f g : Nat) (h : f ≤ g) : ∀ (L : List Syn) (acc : Trace) (bs : Bytes) r,
    decode f L acc bs = some r → decode g L acc bs = some r := by
  sorry

end Mp4ff.Layout

namespace Mp4ff.Boxes
open Mp4ff.Layout

/-- **single-box round trip (C01/C02 at the box level)**: whenever the model of `DecodeBox` + `Encode` produces
    output for an input with a normal 8-byte header, (i) the number of bytes written is the reported size and the
    written header size field equals it (C02), (ii) the box type is unchanged, (iii) the output is no longer than the
    input and equals the input at every position the don't-care list does not name, up to the output's length (C01:
    trailing payload bytes the decoder ignores are dropped), (iv) when nothing was dropped the output is a fixed point: feeding it back
    gives the same output (C01). -/
theorem roundTrip_spec (bs : Bytes) (hb : IsBytes bs) (size : Nat) (enc : Bytes) (dc : List Nat)
    (h8 : beVal (bs.take 4) ≠ 1) (hsz : bs.length < 2 ^ 32) (h : roundTrip bs = .ok size enc dc) :
    enc.length = size ∧ beVal (enc.take 4) = size ∧ (enc.drop 4).take 4 = (bs.drop 4).take 4 ∧
    enc.length ≤ bs.length ∧
    (∀ i, 8 ≤ i → i < enc.length → i ∉ dc → enc[i]? = bs[i]?) ∧
    (enc.length = bs.length → ∃ dc', roundTrip enc = .ok size enc dc') := by
  sorry

end Mp4ff.Boxes
