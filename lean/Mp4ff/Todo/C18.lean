import Mp4ff.Model.Aac
import Mp4ff.Lemmas.C13Seq
/-!
TODO statements for C18 (audio configuration codecs).  Replace every `sorry` by a complete proof.
Useful existing lemmas (Mp4ff/Lemmas/BitsWriter.lean, BitsReader.lean, C13Seq.lean):
`BW.write_spec`, `BW.writeAll_spec`, `BW.flush_spec`, `BW.init_inv`, `BR.read_spec`, `BR.readAll_spec`,
`eq_of_lowBits_eq`, `lowBits_append`, `bitsOfBytes_append`.
-/
namespace Mp4ff.Aac
open Mp4ff.Bits

/-- the two frequency tables of aac/aac.go are mutually inverse -/
theorem freq_tables_inverse : ∀ p ∈ freqTable, indexOfFreq p.2 = some p.1 ∧ freqOfIndex p.1 = some p.2 := by
  sorry

/-- the whole domain the library supports -/
def AscDom (a : ASC) : Prop :=
  (a.objectType = 2 ∨ a.objectType = 5 ∨ a.objectType = 29) ∧ a.channelConfiguration < 16 ∧
  a.samplingFrequency < 2 ^ 24 ∧ a.extensionFrequency < 2 ^ 24 ∧
  (a.objectType = 2 → a.extensionFrequency = 0) ∧
  a.sbrPresent = decide (a.objectType = 5 ∨ a.objectType = 29) ∧ a.psPresent = decide (a.objectType = 29)

/-- every supported configuration (table or explicit 24-bit frequencies, all 16 channel configurations,
    object types 2/5/29) survives encode → decode -/
theorem asc_roundtrip (a : ASC) (h : AscDom a) :
    ∃ bs, encodeASC a = some bs ∧ decodeASC bs = .ok a := by
  sorry

def AdtsDom (a : ADTS) : Prop :=
  a.id = 0 ∧ 1 ≤ a.objectType ∧ a.objectType ≤ 4 ∧ a.samplingFrequencyIndex < 16 ∧ a.channelConfig < 8 ∧
  a.headerLength = 7 ∧ a.payloadLength ≤ 8184 ∧ a.bufferFullness < 2048

/-- no byte pair inside the junk looks like a sync word (ff, then fx with layer bits 00) -/
def NoFalseSync : Bytes → Prop
  | a :: b :: rest => ¬ (a = 0xff ∧ b / 16 = 0xf ∧ (b / 2) % 4 = 0) ∧ NoFalseSync (b :: rest)
  | _ => True

/-- every ADTS header (all indices, channel configs, payload lengths representable in 13 bits) survives
    encode → decode, and with up to 187 junk bytes in front the decoder reports the offset of the sync word -/
theorem adts_roundtrip (a : ADTS) (h : AdtsDom a) (junk tail : Bytes) (hj : IsBytes junk) (ht : IsBytes tail)
    (hl : junk.length ≤ 187) (hns : NoFalseSync junk) :
    decodeADTS (junk ++ encodeADTS a ++ tail) = .ok (a, (junk.length : Int)) := by
  sorry

end Mp4ff.Aac
