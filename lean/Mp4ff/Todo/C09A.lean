import Mp4ff.Model.SampleTables
/-!
TODO statements for C09 (sample-table queries = naive per-sample expansion), batch A.
Replace every `sorry` by a complete proof.  If a statement needs an extra side condition to be true
(e.g. a no-wrap bound), find the counterexample with `#eval`, report it, and prove the `_partial` variant.
-/
namespace Mp4ff.Stbl

/-! ### stts -/
def Stts.OK (b : Stts) : Prop := b.count.length = b.delta.length ∧ b.durations.sum < U64

/-- decode time and duration of every sample 1..N -/
theorem getDecodeTime_spec (b : Stts) (h : b.OK) (n : Nat) (h1 : 1 ≤ n) (hn : n ≤ b.durations.length) :
    b.getDecodeTime n = some (naiveDecodeTime b.durations n, b.durations.getD (n - 1) 0) := by
  sorry

theorem getDur_spec (b : Stts) (h : b.OK) (n : Nat) (h1 : 1 ≤ n) (hn : n ≤ b.durations.length) :
    b.getDur n = some (b.durations.getD (n - 1) 0) := by
  sorry

/-- start time of sample k (1-based); sample N+1 is the virtual sample starting at the end of the track -/
def startTime (durs : List Nat) (k : Nat) : Nat := (durs.take (k - 1)).sum

/-- sample at a time (all durations positive): the least k in 1..N+1 whose start time is ≥ t, for every t
    before the end of the track; from the end on, an error -/
theorem getSampleNrAtTime_spec (b : Stts) (h : b.OK) (hpos : ∀ d ∈ b.delta, 0 < d) (hc : ∀ c ∈ b.count, 0 < c)
    (hN : b.durations.length + 1 < U32) (t : Nat) :
    (t < b.durations.sum →
      ∃ k, b.getSampleNrAtTime t = some k ∧ 1 ≤ k ∧ k ≤ b.durations.length + 1 ∧
        t ≤ startTime b.durations k ∧ ∀ j, 1 ≤ j → j < k → startTime b.durations j < t) ∧
    (b.durations.sum ≤ t → b.getSampleNrAtTime t = none) := by
  sorry

/-! ### ctts -/
/-- composition offset of every sample (zero-count entries allowed) -/
theorem getCto_spec (counts : List Nat) (offs : List Int) (hl : counts.length = offs.length)
    (hs : counts.sum < U32) (n : Nat) (h1 : 1 ≤ n) (hn : n ≤ counts.sum) :
    (Ctts.ofCounts counts offs).getCto n = (expandRuns counts offs)[n - 1]? := by
  sorry

/-! ### stss -/
theorem isSyncSample_spec (nums : List Nat) (hs : nums.Pairwise (· < ·)) (n : Nat) :
    isSyncSample nums n = decide (n ∈ nums) := by
  sorry

/-! ### stsz -/
def Stsz.OK (b : Stsz) : Prop :=
  (b.uniform = 0 → b.sizes.length = b.sampleNumber) ∧ (b.uniform ≠ 0 → b.sizes = []) ∧
  b.sampleNumber * (if b.uniform ≠ 0 then b.uniform else (b.sizes.foldl max 0)) < U64

def Stsz.sizeOf (b : Stsz) (n : Nat) : Nat := if b.uniform ≠ 0 then b.uniform else b.sizes.getD (n - 1) 0

theorem getSampleSize_spec (b : Stsz) (h : b.OK) (n : Nat) (h1 : 1 ≤ n) (hn : n ≤ b.sampleNumber) :
    b.getSampleSize n = some (b.sizeOf n) := by
  sorry

theorem getTotalSampleSize_spec (b : Stsz) (h : b.OK) (a c : Nat) (h1 : 1 ≤ a) (hac : a ≤ c + 1) (hn : c ≤ b.sampleNumber) :
    b.getTotalSampleSize a c = some (((List.range' a (c + 1 - a)).map b.sizeOf).sum) := by
  sorry

/-! ### stco / co64 -/
theorem getOffset_spec (offs : List Nat) (c : Nat) :
    getOffset offs c = if 1 ≤ c ∧ c ≤ offs.length then offs[c - 1]? else none := by
  sorry

end Mp4ff.Stbl
