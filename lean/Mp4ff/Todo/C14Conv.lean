import Mp4ff.Model.Nalu
/-!
TODO statements for C14 (conversions and walkers).  Goal: replace every `sorry` by a complete proof.
`units : List (Nat × Bytes)` = (start-code length ∈ {3,4}, NAL unit).
-/
namespace Mp4ff.Nalu

def UnitsOK (units : List (Nat × Bytes)) : Prop := ∀ u ∈ units, (u.1 = 3 ∨ u.1 = 4) ∧ WFNalu u.2

/-- expected start-code list of `annexB units` laid out from offset `off` -/
def expectedSCs : Nat → List (Nat × Bytes) → List SC
  | _, [] => []
  | off, (k, n) :: rest => ⟨k, off + k⟩ :: expectedSCs (off + k + n.length) rest

/-- (C1) the byte scanner finds exactly the start codes that were laid down -/
theorem scanByte_annexB (units : List (Nat × Bytes)) (h : UnitsOK units) :
    scanByte (annexB units) = expectedSCs 0 units := by
  sorry

/-- (C2) extraction returns exactly the NAL units between the start codes -/
theorem extractNalus_annexB (units : List (Nat × Bytes)) (h : UnitsOK units) :
    extractNalus (annexB units) = units.map (·.2) := by
  sorry

def NalusOK (ns : List Bytes) : Prop := (∀ n ∈ ns, n ≠ [] ∧ IsBytes n) ∧ (lenPrefixed ns).length < U32

/-- (D1) -/
theorem nalusFromSample_lenPrefixed (ns : List Bytes) (h : NalusOK ns) (hne : ns ≠ []) :
    nalusFromSample (lenPrefixed ns) = some ns := by
  sorry

/-- (D2) all types -/
theorem naluTypes_lenPrefixed (c : Codec) (ns : List Bytes) (h : NalusOK ns) :
    naluTypes c false (lenPrefixed ns) = ns.map (fun n => c.typeOf (n.headD 0)) := by
  sorry

/-- types up to and including the first video unit -/
def typesUpTo (c : Codec) : List Bytes → List Nat
  | [] => []
  | n :: rest => let t := c.typeOf (n.headD 0); if c.isVideo t then [t] else t :: typesUpTo c rest

/-- (D3) -/
theorem naluTypesUpTo_lenPrefixed (c : Codec) (ns : List Bytes) (h : NalusOK ns) :
    naluTypes c true (lenPrefixed ns) = typesUpTo c ns := by
  sorry

/-- (D4) -/
theorem containsType_lenPrefixed (c : Codec) (ns : List Bytes) (h : NalusOK ns) (t : Nat) :
    containsType c (lenPrefixed ns) t = (ns.map (fun n => c.typeOf (n.headD 0))).contains t := by
  sorry

/-- parameter sets before the first video unit -/
def psSpec (c : Codec) (isPS : Nat → Bool) : List Bytes → List (Nat × Bytes)
  | [] => []
  | n :: rest =>
    let t := c.typeOf (n.headD 0)
    if isPS t then (t, n) :: psSpec c isPS rest
    else if c.isVideo t then [] else psSpec c isPS rest

/-- (D5) -/
theorem paramSets_lenPrefixed (c : Codec) (isPS : Nat → Bool) (ns : List Bytes) (h : NalusOK ns) :
    paramSets c isPS (lenPrefixed ns) = psSpec c isPS ns := by
  sorry

/-- (D6) length prefixes become 4-byte start codes, units unchanged -/
theorem toByteStream_lenPrefixed (ns : List Bytes) (h : NalusOK ns) :
    toByteStream ((lenPrefixed ns).length + 1) (lenPrefixed ns) 0 = annexB (ns.map fun n => (4, n)) := by
  sorry

end Mp4ff.Nalu
