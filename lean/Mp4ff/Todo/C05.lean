import Mp4ff.Model.Frag
/-!
TODO statements for C05 (samples written into fragments are read back exactly).
Replace every `sorry` by a complete proof.  If a statement is false as written, find the counterexample with
`#eval`, report it, and prove the closest true `_partial` variant.
-/
namespace Mp4ff.Frag

/-- a run as the fragment builder creates it (`CreateTrun`: every per-sample field present, no first-sample-flags) -/
def Trun.Fresh (t : Trun) : Prop :=
  t.hasDur = true ∧ t.hasSize = true ∧ t.hasFlags = true ∧ t.hasCto = true ∧ t.firstFlags = none

/-- **without optimisation** a fresh run is read back exactly, whatever the tfhd and trex defaults are -/
theorem readBack_fresh (tfhd : Tfhd) (trex : Trex) (t : Trun) (h : t.Fresh) :
    readBack tfhd trex t = t.samples := by
  sorry

/-- **trun optimisation preserves what is read back**: after `OptimizeTfhdTrun` moved common values to tfhd (duration,
    size, flags with a first-sample exception, all-zero composition offsets) the run still resolves to exactly the
    samples that were added — for every sample list, every tfhd it started from, every trex -/
theorem optimize_preserves (tfhd : Tfhd) (trex : Trex) (t : Trun) (h : t.Fresh) (tfhd' : Tfhd) (t' : Trun)
    (ho : optimize tfhd t = some (tfhd', t')) :
    readBack tfhd' trex t' = t.samples := by
  sorry

/-- optimising never changes the stored samples, and fails only for an empty run -/
theorem optimize_samples (tfhd : Tfhd) (t : Trun) :
    (t.samples = [] → optimize tfhd t = none) ∧
    (t.samples ≠ [] → ∃ tfhd' t', optimize tfhd t = some (tfhd', t') ∧ t'.samples = t.samples) := by
  sorry

/-- decode times read back are base + accumulated durations: the k-th is the base plus the durations before it -/
theorem decodeTimes_spec (base : Nat) (ss : List Sample) (k : Nat) (hk : k < ss.length) :
    (decodeTimes base ss)[k]? = some (base + ((ss.take k).map (·.dur)).sum) := by
  sorry

/-- a run with its sample payloads (ghost data): sizes agree with payload lengths -/
def RunOK (r : List (Sample × Bytes)) : Prop := ∀ p ∈ r, p.1.size = p.2.length

def runData (r : List (Sample × Bytes)) : Bytes := r.flatMap (·.2)

/-- **data offsets**: if the mdat payload is the concatenation of the runs' data in write order and the offsets are
    those computed by `SetTrunDataOffsets`, then reading run k's samples at its offset (made relative to the mdat
    payload start, which lies `moofSize + mdatHdr` after the moof start) returns exactly that run's sample bytes -/
theorem dataOffsets_spec (moofSize mdatHdr : Nat) (runs : List (List (Sample × Bytes))) (hr : ∀ r ∈ runs, RunOK r)
    (k : Nat) (hk : k < runs.length) :
    let mdat := runs.flatMap runData
    let offs := dataOffsets moofSize mdatHdr (runs.map fun r => (runData r).length)
    sampleBytes mdat (offs.getD k 0 - (moofSize + mdatHdr)) ((runs.getD k []).map (·.1)) = (runs.getD k []).map (·.2) := by
  sorry

end Mp4ff.Frag
