import Mp4ff.Model.Nalu
/-!
TODO statements for C14 (scanner part).  Goal: replace every `sorry` by a complete proof.
-/
namespace Mp4ff.Nalu

/-- (A) the word trick never misses a zero byte: if one of the 8 bytes at `i..i+7` is zero the gate fires.
    (Only this direction is needed: a false positive merely makes the scanner probe bytes that are not zero.) -/
theorem hasZeroByte_complete (s : Bytes) (hs : IsBytes s) (i k : Nat) (hk : k < 8) (hi : i + 8 ≤ s.length)
    (hz : byteAt s (i + k) = 0) : hasZeroByte (word s i) = true := by
  sorry

/-- (B) the word-at-a-time start-code scanner finds exactly the start codes of the byte-by-byte scan,
    for EVERY byte string (all lengths, hence all alignments of start codes relative to machine words). -/
theorem scanWord_eq_scanByte (s : Bytes) (hs : IsBytes s) : scanWord s = scanByte s := by
  sorry

end Mp4ff.Nalu
