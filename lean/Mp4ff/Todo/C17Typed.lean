import Mp4ff.Model.Sei
import Mp4ff.Lemmas.C13Seq
/-!
TODO statements for C17 (typed SEI messages).  Replace every `sorry` by a complete proof.
Available lemmas: Mp4ff/Lemmas/BitsWriter.lean (`BW.write_spec`, `BW.writeAll_spec`, `BW.flush_spec`),
BitsReader.lean (`BR.read_spec`), C13Seq.lean (`BR.readAll_spec`), BitsBasic.lean (`eq_of_lowBits_eq`, …).
-/
namespace Mp4ff.Sei
open Mp4ff.Bits

/-- canonical clock values: exactly the values `DecodeClockTS` can produce (unused fields are zero) -/
def ClockTS.Canon (c : ClockTS) : Prop :=
  if c.clockTimeStampFlag then
    c.countingType < 32 ∧ c.nFrames < 512 ∧ c.timeOffsetLength < 32 ∧
    c.timeOffsetValue < 2 ^ c.timeOffsetLength ∧
    (if c.fullTimeStampFlag then
       c.seconds < 64 ∧ c.minutes < 64 ∧ c.hours < 32 ∧
       c.secondsFlag = false ∧ c.minutesFlag = false ∧ c.hoursFlag = false
     else
       c.seconds < 64 ∧ c.minutes < 64 ∧ c.hours < 32 ∧
       (c.secondsFlag = false → c.seconds = 0 ∧ c.minutesFlag = false) ∧
       (c.minutesFlag = false → c.minutes = 0 ∧ c.hoursFlag = false) ∧
       (c.hoursFlag = false → c.hours = 0))
  else c = {}

/-- SEI 136 time code: serialise → decode is the identity and `Size()` is the serialised length,
    for 0..3 clocks with any flag combination and time-offset lengths 0..31 -/
theorem timeCode_roundtrip (clocks : List ClockTS) (hn : clocks.length ≤ 3) (hc : ∀ c ∈ clocks, c.Canon) :
    decodeTimeCode (timeCodePayload clocks) = (clocks, false) ∧
    (timeCodePayload clocks).length = timeCodeSize clocks := by
  sorry

def MDCV.OK (m : MDCV) : Prop :=
  m.px.length = 3 ∧ m.py.length = 3 ∧ (∀ x ∈ m.px, x < 65536) ∧ (∀ y ∈ m.py, y < 65536) ∧
  m.wx < 65536 ∧ m.wy < 65536 ∧ m.maxLum < 2 ^ 32 ∧ m.minLum < 2 ^ 32

/-- SEI 137 -/
theorem mdcv_roundtrip (m : MDCV) (h : m.OK) :
    decodeMDCV (mdcvPayload m) = some m ∧ (mdcvPayload m).length = 24 := by
  sorry

/-- SEI 144 -/
theorem cll_roundtrip (a b : Nat) (ha : a < 65536) (hb : b < 65536) :
    decodeCLL (cllPayload a b) = some (a, b) ∧ (cllPayload a b).length = 4 := by
  sorry

/-- canonical AVC clock for a given externally signalled time offset length `tol` -/
def ClockAvc.Canon (tol : Nat) (c : ClockAvc) : Prop :=
  c.timeOffsetLength = tol ∧
  if c.clockTimeStampFlag then
    c.ctType < 4 ∧ c.countingType < 32 ∧ c.nFrames < 256 ∧
    (if tol = 0 then c.timeOffsetValue = 0
     else -(2 ^ (tol - 1) : Int) ≤ c.timeOffsetValue ∧ c.timeOffsetValue < 2 ^ (tol - 1)) ∧
    (if c.fullTimeStampFlag then
       c.seconds < 64 ∧ c.minutes < 64 ∧ c.hours < 32 ∧
       c.secondsFlag = false ∧ c.minutesFlag = false ∧ c.hoursFlag = false
     else
       c.seconds < 64 ∧ c.minutes < 64 ∧ c.hours < 32 ∧
       (c.secondsFlag = false → c.seconds = 0 ∧ c.minutesFlag = false) ∧
       (c.minutesFlag = false → c.minutes = 0 ∧ c.hoursFlag = false) ∧
       (c.hoursFlag = false → c.hours = 0))
  else c = { timeOffsetLength := tol }

def PicTimingAvc.OK (tol : Nat) (p : PicTimingAvc) : Prop :=
  tol < 32 ∧ p.pictStruct ≤ 8 ∧
  p.clocks.length = (if p.pictStruct ≤ 2 then 1 else if p.pictStruct ≤ 4 then 2 else 3) ∧
  (∀ c ∈ p.clocks, c.Canon tol) ∧
  (match p.hrd with
   | some (cpb, dpb, a, b) => a < 32 ∧ b < 32 ∧ cpb < 2 ^ (a + 1) ∧ dpb < 2 ^ (b + 1)
   | none => True)

/-- SEI 1 (AVC picture timing): serialise → decode (with the same HRD lengths and time offset length, which
    are signalled in the SPS) is the identity, and `Size()` is the serialised length -/
theorem picTiming_roundtrip (tol : Nat) (p : PicTimingAvc) (h : p.OK tol) :
    decodePicTimingAvc (picTimingPayload p) (p.hrd.map fun x => (x.2.2.1, x.2.2.2)) tol = some (p, false) ∧
    (picTimingPayload p).length = picTimingSize p := by
  sorry

end Mp4ff.Sei
