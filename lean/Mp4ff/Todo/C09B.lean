import Mp4ff.Model.SampleTables
/-!
TODO statements for C09, batch B (stsc: sample → chunk, chunk contents, containing chunks, byte ranges).
Replace every `sorry` by a complete proof.  If a statement needs an extra side condition to be true,
find the counterexample with `#eval`, report it, and prove the `_partial` variant.
-/
namespace Mp4ff.Stbl

/-- raw stsc entries (first_chunk, samples_per_chunk, description id): first_chunk strictly increasing from 1,
    samples_per_chunk positive -/
def RawOK (raw : List (Nat × Nat × Nat)) : Prop :=
  raw ≠ [] ∧ (raw.headD (0, 0, 0)).1 = 1 ∧ raw.Pairwise (fun a b => a.1 < b.1) ∧ ∀ e ∈ raw, 0 < e.2.1

/-- samples-per-chunk of chunk `c` (1-based): the last entry whose first_chunk ≤ c -/
def spcOf (raw : List (Nat × Nat × Nat)) (c : Nat) : Nat :=
  ((raw.filter fun e => e.1 ≤ c).getLast?.map (·.2.1)).getD 0

/-- first sample (1-based) of chunk `c` -/
def firstSampleOf (raw : List (Nat × Nat × Nat)) (c : Nat) : Nat :=
  1 + ((List.range (c - 1)).map fun i => spcOf raw (i + 1)).sum

/-- everything the uint32 arithmetic touches stays below 2^32 for chunks up to `cmax` -/
def NoWrap (raw : List (Nat × Nat × Nat)) (cmax : Nat) : Prop :=
  cmax + 1 < U32 ∧ firstSampleOf raw (cmax + 1) < U32 ∧ ∀ e ∈ raw, e.1 ≤ cmax

/-- `GetChunk`: first sample and size of every chunk -/
theorem getChunk_spec (raw : List (Nat × Nat × Nat)) (h : RawOK raw) (cmax c : Nat) (hw : NoWrap raw cmax)
    (h1 : 1 ≤ c) (hc : c ≤ cmax) :
    (Stsc.ofRaw raw).getChunk c = some ⟨c, firstSampleOf raw c, spcOf raw c⟩ := by
  sorry

/-- `ChunkNrFromSampleNr`: the chunk that contains sample `n`, and that chunk's first sample -/
theorem chunkNrFromSampleNr_spec (raw : List (Nat × Nat × Nat)) (h : RawOK raw) (cmax c n : Nat) (hw : NoWrap raw cmax)
    (h1 : 1 ≤ c) (hc : c ≤ cmax) (hlo : firstSampleOf raw c ≤ n) (hhi : n < firstSampleOf raw (c + 1)) :
    (Stsc.ofRaw raw).chunkNrFromSampleNr n = some (c, firstSampleOf raw c) := by
  sorry

/-- `GetContainingChunks a b`: exactly the chunks from the one containing `a` to the one containing `b` -/
theorem getContainingChunks_spec (raw : List (Nat × Nat × Nat)) (h : RawOK raw) (cmax ca cb a b : Nat)
    (hw : NoWrap raw cmax) (h1 : 1 ≤ ca) (hab : a ≤ b) (hcab : ca ≤ cb) (hc : cb ≤ cmax)
    (ha1 : firstSampleOf raw ca ≤ a) (ha2 : a < firstSampleOf raw (ca + 1))
    (hb1 : firstSampleOf raw cb ≤ b) (hb2 : b < firstSampleOf raw (cb + 1)) :
    (Stsc.ofRaw raw).getContainingChunks a b =
      some ((List.range' ca (cb + 1 - ca)).map fun c => ⟨c, firstSampleOf raw c, spcOf raw c⟩) := by
  sorry

/-! ### byte ranges of a sample interval -/

/-- byte positions of a range -/
def positions (r : Nat × Nat) : List Nat := List.range' r.1 r.2

/-- naive: offset of sample `n` = offset of its chunk + sizes of the earlier samples of that chunk -/
def sampleOffset (raw : List (Nat × Nat × Nat)) (offs : List Nat) (sz : Stsz) (c n : Nat) : Nat :=
  offs.getD (c - 1) 0 + ((List.range' (firstSampleOf raw c) (n - firstSampleOf raw c)).map fun k =>
    if sz.uniform ≠ 0 then sz.uniform else sz.sizes.getD (k - 1) 0).sum

/-- the chunk (1-based) containing sample `n`, by naive walk over chunks 1..cmax -/
def chunkOfSample (raw : List (Nat × Nat × Nat)) (cmax n : Nat) : Nat :=
  ((List.range' 1 cmax).find? fun c => decide (n < firstSampleOf raw (c + 1))).getD 0

/-- `GetRangesForSampleInterval a b`: the concatenated ranges are exactly the bytes of samples a..b, in order
    (for a track whose samples number `sz.sampleNumber`, chunks `offs.length`) -/
theorem getRanges_spec (t : Tables) (raw : List (Nat × Nat × Nat)) (hraw : t.stsc = Stsc.ofRaw raw) (h : RawOK raw)
    (hw : NoWrap raw t.offsets.length)
    (hsz : (t.stsz.uniform = 0 → t.stsz.sizes.length = t.stsz.sampleNumber) ∧ (t.stsz.uniform ≠ 0 → t.stsz.sizes = []))
    (hN : firstSampleOf raw (t.offsets.length + 1) = t.stsz.sampleNumber + 1)
    (hbytes : ∀ c, 1 ≤ c → c ≤ t.offsets.length →
       t.offsets.getD (c - 1) 0 + t.stsz.sampleNumber * (if t.stsz.uniform ≠ 0 then t.stsz.uniform else t.stsz.sizes.foldl max 0) < U64)
    (a b : Nat) (h1 : 1 ≤ a) (hab : a ≤ b) (hb : b ≤ t.stsz.sampleNumber) :
    ∃ rs, t.getRanges a b = some rs ∧
      rs.flatMap positions =
        (List.range' a (b + 1 - a)).flatMap fun n =>
          positions (sampleOffset raw t.offsets t.stsz (chunkOfSample raw t.offsets.length n) n,
                     if t.stsz.uniform ≠ 0 then t.stsz.uniform else t.stsz.sizes.getD (n - 1) 0) := by
  sorry

end Mp4ff.Stbl
