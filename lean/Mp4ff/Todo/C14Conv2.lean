import Mp4ff.Lemmas.ScanEq
import Mp4ff.Lemmas.C14Conv
/-!
TODO statements for C14, second batch.  Replace every `sorry` by a complete proof.
Available: `scanWord_eq` (Lemmas/ScanEq.lean: scanWord s = scanByte s for IsBytes s),
`scanByte_annexB`, `extractNalus_annexB` and the helper lemmas of Lemmas/NaluAnnexB.lean, Lemmas/C14Conv.lean.
-/
namespace Mp4ff.Nalu

def UnitsBytes (units : List (Nat × Bytes)) : Prop := ∀ u ∈ units, IsBytes u.2

/-- (C3) `ConvertByteStreamToNaluSample`: any mix of 3/4-byte start codes (both the in-place branch,
    taken when every start code is 4 bytes, and the copying branch) yields the 4-byte length-prefixed units -/
theorem toSample_annexB (units : List (Nat × Bytes)) (h : UnitsOK units) (hb : UnitsBytes units)
    (hlen : (annexB units).length < U32) :
    toSample (annexB units) = lenPrefixed (units.map (·.2)) := by
  sorry

/-- parameter sets before the first video unit, as (type, unit), stream order -/
def psSpecU (c : Codec) (isPS : Nat → Bool) (units : List (Nat × Bytes)) : List (Nat × Bytes) :=
  psSpec c isPS (units.map (·.2))

/-- (C4) `GetParameterSetsFromByteStream` (as repaired: flushes the last unit when no video unit follows) -/
theorem paramSetsFromByteStream_annexB (c : Codec) (isPS : Nat → Bool) (units : List (Nat × Bytes))
    (h : UnitsOK units) :
    paramSetsFromByteStream c isPS (annexB units) = psSpecU c isPS units := by
  sorry

/-- units of type `t`; with `stop`, only those before the first video unit -/
def ofTypeSpec (c : Codec) (t : Nat) (stop : Bool) : List Bytes → List Bytes
  | [] => []
  | n :: rest =>
    let ty := c.typeOf (n.headD 0)
    if stop ∧ c.isVideo ty then []
    else if ty = t then n :: ofTypeSpec c t stop rest else ofTypeSpec c t stop rest

/-- (C5) `ExtractNalusOfTypeFromByteStream` -/
theorem extractOfType_annexB (c : Codec) (t : Nat) (stop : Bool) (units : List (Nat × Bytes))
    (h : UnitsOK units) :
    extractOfType c (annexB units) t stop = ofTypeSpec c t stop (units.map (·.2)) := by
  sorry

/-- (C6) `GetFirstAVCVideoNALUFromByteStream` -/
theorem firstVideoNalu_annexB (c : Codec) (units : List (Nat × Bytes)) (h : UnitsOK units) :
    firstVideoNalu c (annexB units) = (units.map (·.2)).find? (fun n => c.isVideo (c.typeOf (n.headD 0))) := by
  sorry

end Mp4ff.Nalu
