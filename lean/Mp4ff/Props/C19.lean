import Mp4ff.Model.Init
import Mp4ff.Lemmas.C19
import Mp4ff.Expect.Transcribed
/-!
# C19 — init segments built through the API are consistent and self-describing
Property theorems about `Model/Init.lean` (CreateEmptyInit / AddEmptyTrack / MoovBox.AddChild / SetLanguage /
CreateHdlr / the encoded byte image); proofs in `Mp4ff/Lemmas/C19.lean`.  The model is tied to the Go code by the
whole-encoding correspondence (every byte of `InitSegment.Encode` for every generated history).
-/
namespace Mp4ff.Init.C19
open Mp4ff.Init Mp4ff.BoxTree

/-- ISO/IEC 14496-12 pairing of handler type and media header box -/
def pairs (h mh : String) : Bool :=
  (h == "vide" && mh == "vmhd") || (h == "soun" && mh == "smhd") || (h == "subt" && mh == "sthd") ||
  (h == "text" && mh == "nmhd") || (h == "meta" && mh == "nmhd")

/-- **handler and media header match the media type** for every media type of the quantifier -/
theorem handler_matches_media_header :
    ∀ m ∈ ["video", "audio", "subtitle", "text", "wvtt", "meta"], pairs (hdlrOf m).1 (mediaHeaderOf m) = true := by
  decide

/-- **ids 1..n, one trex per track with the same id, next id = n + 1 above all of them, ids unique, each trak keeps
    the parameters supplied**, for every history of AddEmptyTrack calls -/
theorem build_ids (specs : List TrackSpec) :
    (build specs).traks.map (·.id) = List.range' 1 specs.length ∧
    (build specs).trexs = List.range' 1 specs.length ∧
    (build specs).traks.map (·.spec) = specs ∧
    (build specs).next = (if specs = [] then 2 else specs.length + 1) ∧
    (∀ t ∈ (build specs).traks, 1 ≤ t.id ∧ t.id < (build specs).next) ∧
    ((build specs).traks.map (·.id)).Nodup := Init.build_ids specs

/-- **moov children: mvhd, mvex, then the traks in id order** (adjacent), for every history -/
theorem build_children (specs : List TrackSpec) :
    (build specs).children = [Child.mvhd, Child.mvex] ++ (build specs).traks.map Child.trak :=
  Init.build_children specs

/-- **`MoovBox.AddChild` keeps the traks adjacent and in insertion order** for every child list whose first child is
    not a trak, and every sequence of added children (traks or other boxes, in any order) -/
theorem moovAddChildren_adjacent (cs : List Child) (add : List Child) (h : Adjacent cs) :
    Adjacent (add.foldl moovAddChild cs) ∧
    childTraks (add.foldl moovAddChild cs) = childTraks cs ++ childTraks add :=
  Init.moovAddChildren_adjacent cs add h

/-- the precondition "the first child is not a trak" is needed: the index-0 test in `MoovBox.AddChild` treats a trak
    at index 0 as "no trak yet" (not reachable through CreateEmptyInit, which puts mvhd first) -/
example : moovAddChild [.trak ⟨1, ⟨1, "video", "und", 0, 0, []⟩⟩, .other "udta"] (.trak ⟨2, ⟨1, "video", "und", 0, 0, []⟩⟩) =
    [.trak ⟨1, ⟨1, "video", "und", 0, 0, []⟩⟩, .other "udta", .trak ⟨2, ⟨1, "video", "und", 0, 0, []⟩⟩] := by decide

/-- **three-letter codes survive the 15-bit mdhd packing** -/
theorem lang_roundtrip (a b c : Nat) (ha : 97 ≤ a ∧ a ≤ 122) (hb : 97 ≤ b ∧ b ≤ 122) (hc : 97 ≤ c ∧ c ≤ 122) :
    unpackLang (packLang [a, b, c]) = [a, b, c] ∧ packLang [a, b, c] < 2 ^ 15 := Init.lang_roundtrip a b c ha hb hc

/-- every box of the encoded init is well-formed, so the C02 size theorems (`Size() = bytes written = header field`
    at every level) apply to the whole init segment -/
theorem init_tree_wf (st : St) (h : ∀ c ∈ st.children, ∀ ty, c = Child.other ty → (str ty).length = 4) :
    ftyp.WF ∧ (node "moov" (st.children.map (childTree st))).WF := Init.init_tree_wf st h

/-- non-vacuity: a three-track history -/
example : (build [⟨90000, "video", "und", 0, 0, []⟩, ⟨48000, "audio", "en-US", 0, 0, []⟩, ⟨1000, "wvtt", "swe", 0, 0, []⟩]).next = 4 := by
  decide

/-- the Go functions the models of this property transcribe (committed table `spec/transcribed.json`, checked against
    the current source by the extractor on every run) all still exist -/
theorem model_sources_exist :
    (["BoxTree.lean", "Boxes.lean", "Init.lean"] : List String).all Mp4ff.Expect.presentFor = true := by decide +kernel

end Mp4ff.Init.C19
