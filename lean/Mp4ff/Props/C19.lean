import Mp4ff.Model.Init
/-!
# C19 — init segments built through the API are consistent and self-describing
(Further property theorems are added from `Mp4ff/Lemmas/C19.lean` when completed.)
-/
namespace Mp4ff.Init.C19
open Mp4ff.Init

/-- ISO/IEC 14496-12 pairing of handler type and media header box -/
def pairs (h mh : String) : Bool :=
  (h == "vide" && mh == "vmhd") || (h == "soun" && mh == "smhd") || (h == "subt" && mh == "sthd") ||
  (h == "text" && mh == "nmhd") || (h == "meta" && mh == "nmhd")

/-- **handler and media header match the media type** for every media type of the quantifier -/
theorem handler_matches_media_header :
    ∀ m ∈ ["video", "audio", "subtitle", "text", "wvtt", "meta"], pairs (hdlrOf m).1 (mediaHeaderOf m) = true := by
  decide

end Mp4ff.Init.C19
