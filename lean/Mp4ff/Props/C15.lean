import Mp4ff.Model.AvcSps
import Mp4ff.Lemmas.C15
import Mp4ff.Props.C15b
import Mp4ff.Expect.Transcribed
/-!
# C15 — parameter sets and slice headers parse to the values that were coded
Property theorems about the bitstream-syntax DSL (`Model/BitSyn.lean`) and the AVC sequence parameter set written in
it (`Model/AvcSps.lean`, the transcription of avc/sps.go with full VUI/HRD, scaling lists and the parser's count limits); proofs in
`Mp4ff/Lemmas/C15*.lean` on top of the C13 writer/reader refinement.  The SPS model is tied to `avc.ParseSPSNALUnit`
by the `avcsps` correspondence op on NAL units produced by the harness's independent serialiser.  AVC PPS and slice header, HEVC SPS, PPS and slice header are modelled in the same DSL
(`Model/AvcPps.lean`, `AvcSlice.lean`, `HevcSps.lean`, `HevcPps.lean`, `HevcSlice.lean`); their theorems are in `Props/C15b.lean`.
-/
namespace Mp4ff.AvcSps.C15
open Mp4ff.BitSyn Mp4ff.AvcSps Mp4ff.Bits

/-- **generic NAL unit round trip** — for *every* syntax expressible in the DSL (any nesting of conditions and
    repetitions over earlier values) and every valid value assignment: the NAL unit an independent serialiser writes
    (emulation prevention, rbsp trailing bits) parses back to exactly those values, with no error, every byte of the
    unit accounted for -/
theorem serialize_parse (f : Nat) (L : List Syn) (tr : Trace) (h : TraceOK f L tr) :
    ∃ nalu e, serialize f L tr = some nalu ∧ parseNalu f L nalu = some (tr, e) ∧ e.err = false ∧
      e.nread + e.rest.length = nalu.length := BitSyn.serialize_parse f L tr h

/-- more fuel never changes a parse result (the driver's fuel is never the reason for an answer) -/
theorem parse_fuel_mono (f g : Nat) (hfg : f ≤ g) (L : List Syn) (acc : Trace) (e : ER) (r : Trace × ER)
    (h : parse f L acc e = some r) : parse g L acc e = some r := BitSyn.parse_fuel_mono f g hfg L acc e r h

/-- **AVC SPS**: every field of every valid SPS (all profiles with/without the high-profile fields, scaling lists,
    poc types 0-2, frame/field, cropping, VUI with HRD) is parsed to the value that was coded -/
theorem sps_roundtrip (signedOffsets : Bool) (f : Nat) (tr : Trace) (h : TraceOK f (sps signedOffsets) tr) :
    ∃ nalu e, serialize f (sps signedOffsets) tr = some nalu ∧
      parseNalu f (sps signedOffsets) nalu = some (tr, e) ∧ e.err = false :=
  AvcSps.sps_roundtrip signedOffsets f tr h

/-- **picture size, for every valid SPS**: the parser's width/height (Go `uint` arithmetic, wrapping) is the standard's
    derivation (SubWidthC / SubHeightC, ChromaArrayType, CropUnitX/Y, FrameHeightInMbs) whenever the cropping rectangle
    lies inside the coded picture, as the standard requires -/
theorem dims_eq_std_sps (signedOffsets : Bool) (f : Nat) (tr : Trace) (h : TraceOK f (sps signedOffsets) tr)
    (hfit : CropFits tr) : dims tr = stdDims tr := AvcSps.dims_eq_std_sps signedOffsets f tr h hfit

/-- for arbitrary value assignments (not necessarily produced by the syntax) the two derivations agree unless
    separate_colour_plane_flag = 1 is combined with chroma format 1 or 2 — which the syntax excludes -/
theorem dims_eq_std_partial (t : Trace) (hf : t.nat "frame_mbs_only_flag" ≤ 1)
    (hsep : t.get "separate_colour_plane_flag" = 1 → chromaFormat t ≠ 1 ∧ chromaFormat t ≠ 2)
    (hfit : CropFits t) : dims t = stdDims t := AvcSps.dims_eq_std_partial t hf hsep hfit

/-- … and the unrestricted statement is false: the witness (separate_colour_plane_flag = 1 with an inferred chroma
    format 1 — a value assignment the syntax cannot produce) -/
def dimsCounterexample : Trace :=
  [("profile_idc", 66), ("separate_colour_plane_flag", 1), ("frame_mbs_only_flag", 1), ("frame_cropping_flag", 1),
   ("pic_width_in_mbs_minus1", 9), ("pic_height_in_map_units_minus1", 9), ("frame_crop_right_offset", 1),
   ("frame_crop_bottom_offset", 1)]

theorem dims_counterexample :
    dimsCounterexample.nat "frame_mbs_only_flag" ≤ 1 ∧ dims dimsCounterexample = some (158, 158) ∧
      stdDims dimsCounterexample = some (159, 159) := by decide

/-- the Go functions the models of this property transcribe (committed table `spec/transcribed.json`, checked against
    the current source by the extractor on every run) all still exist -/
theorem model_sources_exist :
    (["AvcPps.lean", "AvcSlice.lean", "AvcSps.lean", "Bits.lean", "HevcPps.lean", "HevcSlice.lean", "HevcSps.lean", "Sei.lean"] : List String).all Mp4ff.Expect.presentFor = true := by decide +kernel

end Mp4ff.AvcSps.C15
