import Mp4ff.Lemmas.C15b
import Mp4ff.Lemmas.C15bHevcPps
import Mp4ff.Lemmas.C15bAvcSlice
import Mp4ff.Lemmas.C15bHevcSlice
/-!
# C15 / C16, second part — AVC PPS and HEVC SPS
Property theorems about the AVC picture parameter set (`Model/AvcPps.lean`, the transcription of avc/pps.go
`ParsePPSNALUnit`: a prefix syntax in the bitstream DSL, the `more_rbsp_data()` look-ahead, a tail syntax sized by the
chroma format of the SPS the PPS refers to, the trailing-bits check) and the HEVC sequence parameter set
(`Model/HevcSps.lean`, the transcription of hevc/sps.go `ParseSPSNALUnit` with profile_tier_level and sub-layers,
scaling list data, short-term RPS incl. inter-RPS prediction, long-term pictures, VUI/HRD, range / multilayer / 3D / SCC
extensions, the extension-data look-ahead loop and `ImageSize`).  Proofs in `Lemmas/C15b.lean`, `Lemmas/C15bPps.lean`.
The models are tied to the Go code by the `avcppsm` / `hevcspsm` correspondence ops (valid NAL units of the harness's
independent serialisers, truncations and hostile variants).
-/
namespace Mp4ff.C15b
open Mp4ff.BitSyn Mp4ff.Bits

/-! ## decidable form of `TraceOK` for the examples -/

instance (op : Op) : Decidable op.OK := by cases op <;> unfold Op.OK <;> infer_instance

/-- executable check of `TraceOK` -/
def traceOKb (f : Nat) (L : List Syn) (acc tr : Trace) : Bool :=
  match ops f L acc tr with
  | some (os, _, []) => os.all (fun op => decide op.OK) && !stopped (acc ++ tr)
  | _ => false

theorem traceOK_of_check {f : Nat} {L : List Syn} {tr : Trace} (h : traceOKb f L [] tr = true) : TraceOK f L tr := by
  unfold traceOKb at h
  split at h
  · rename_i os a heq
    simp only [Bool.and_eq_true, List.all_eq_true, decide_eq_true_eq, Bool.not_eq_true', List.nil_append] at h
    exact ⟨⟨os, a, heq, h.1⟩, h.2⟩
  · cases h

theorem tailOK_of_check {f : Nat} {chroma : Option Nat} {tr1 tr2 : Trace}
    (h : traceOKb f (AvcPps.tail chroma) tr1 tr2 = true) : AvcPps.TailOK f chroma tr1 tr2 := by
  unfold traceOKb at h
  split at h
  · rename_i os a heq
    simp only [Bool.and_eq_true, List.all_eq_true, decide_eq_true_eq, Bool.not_eq_true'] at h
    exact ⟨⟨os, a, heq, h.1⟩, h.2⟩
  · cases h

/-! ## AVC PPS -/
section AvcPps
open Mp4ff.AvcPps

/-- **AVC PPS round trip** (C15): take any valid value assignment `tr1` of the PPS syntax up to
    redundant_pic_cnt_present_flag (all slice-group map types) and optionally one, `tr2`, of the part behind
    `more_rbsp_data()` (transform_8x8_mode_flag, picture scaling lists — 6, 8 or 12 of them depending on the chroma
    format of the SPS found under the PPS's sps id —, second_chroma_qp_index_offset).  The NAL unit an independent
    serialiser writes for them (emulation prevention, rbsp trailing bits) is parsed by the `ParsePPSNALUnit` model back
    to exactly those values, and the look-ahead reports "more data" exactly when the tail was coded. -/
theorem pps_roundtrip (f : Nat) (spsMap : List (Nat × Nat)) (tr1 : Trace) (tr2 : Option Trace) (nalu : Bytes)
    (h1 : TraceOK f (pre (capOf nalu)) tr1)
    (h2 : ∀ t2, tr2 = some t2 → TailOK f (lookupChroma spsMap tr1) tr1 t2)
    (hs : serializePps f (capOf nalu) (lookupChroma spsMap tr1) tr1 tr2 = some nalu) :
    parsePps f spsMap nalu = .ok (tr1 ++ tr2.getD []) tr2.isSome :=
  AvcPps.pps_roundtrip f spsMap tr1 tr2 nalu h1 h2 hs

/-- **`more_rbsp_data()` on the bit level**: with the unread bits `b :: L` the look-ahead answers "more" unless the
    next bit is the last 1 bit of the unit, and leaves the reader where it was -/
theorem moreRbspData_spec (r : ER) (P : Bytes) (b : Bool) (L : List Bool) (h : r.Inv P) (habs : r.abs P = b :: L) :
    Sei.moreRbspData r = (r, if b then L.any id else true) := Sei.moreRbspData_spec r P b L h habs

/-- **`rbsp_trailing_bits()` on the bit level**: a stop bit followed by zero bits is accepted without error -/
theorem readTrailing_spec (r : ER) (P : Bytes) (m : Nat) (h : r.Inv P)
    (habs : r.abs P = true :: List.replicate m false) :
    (Sei.readTrailing r).2 = .none ∧ (Sei.readTrailing r).1.err = false := Sei.readTrailing_spec r P m h habs

/-- **the AVC PPS parser terminates on every byte string** (C16) — whatever the bytes and whatever the SPS map: with
    fuel (= nesting depth of the reader's recursion) of 8·|nalu| + 95 the model never runs out of fuel; the
    slice_group_id loop, the only one without a constant bound, ends with the input -/
theorem pps_total (spsMap : List (Nat × Nat)) (nalu : Bytes) (f : Nat) (hf : capOf nalu + 87 ≤ f) :
    parsePps f spsMap nalu ≠ .fuel := AvcPps.pps_total_sharp spsMap nalu f hf

/-- … and the answer holds at most 3·(8·|nalu| + 8) + 828 values: memory linear in the input -/
theorem pps_total_length (spsMap : List (Nat × Nat)) (nalu : Bytes) (f : Nat) (hf : capOf nalu + 87 ≤ f) :
    ∀ t more, parsePps f spsMap nalu = .ok t more → t.length ≤ 3 * capOf nalu + 828 :=
  AvcPps.pps_total_length spsMap nalu f hf

/-- the fuel the driver uses is always enough (no `fuel` answer can hide a disagreement) -/
theorem pps_total_driver (spsMap : List (Nat × Nat)) (nalu : Bytes) : parsePps (fuel nalu) spsMap nalu ≠ .fuel :=
  AvcPps.pps_total_driver spsMap nalu

/-- **generic totality with the depth bound**: every parser written in the DSL returns on every reader state once the
    fuel covers the nesting depth `depthL L` (repetition caps + longest chain), and yields at most `maxEntriesL L` values -/
theorem parse_total_depth (f : Nat) (L : List Syn) (acc : Trace) (e : ER) (hf : depthL L ≤ f) :
    ∃ acc' e', parse f L acc e = some (acc', e') ∧ acc'.length ≤ acc.length + maxEntriesL L :=
  BitSyn.parse_total_depth f L acc e hf

/-! non-vacuity: a PPS with 4 slice groups of map type 0 and a tail with one coded 4x4 scaling list; SPS 0 has
    chroma_format_idc 1 (so 6 lists) -/
def exPps1 : Trace := [("nal_header", 72), ("pic_parameter_set_id", 1), ("seq_parameter_set_id", 0),
  ("entropy_coding_mode_flag", 0), ("bottom_field_pic_order_in_frame_present_flag", 1), ("num_slice_groups_minus1", 3),
  ("slice_group_map_type", 0), ("run_length_minus1", 16), ("run_length_minus1", 71), ("run_length_minus1", 110),
  ("run_length_minus1", 3), ("num_ref_idx_l0_default_active_minus1", 13), ("num_ref_idx_l1_default_active_minus1", 8),
  ("weighted_pred_flag", 0), ("weighted_bipred_idc", 1), ("pic_init_qp_minus26", -1), ("pic_init_qs_minus26", 2),
  ("chroma_qp_index_offset", 0), ("deblocking_filter_control_present_flag", 0), ("constrained_intra_pred_flag", 0),
  ("redundant_pic_cnt_present_flag", 0)]
def exPps2 : Trace := [("transform_8x8_mode_flag", 0), ("pic_scaling_matrix_present_flag", 1),
  ("scaling_list_present", 1), ("delta_scale", 0), ("delta_scale", -3), ("delta_scale", -38), ("delta_scale", 3),
  ("delta_scale", -3), ("delta_scale", -5), ("delta_scale", -3), ("delta_scale", -107), ("delta_scale", -64),
  ("delta_scale", -3), ("delta_scale", -41), ("scaling_list_present", 0), ("scaling_list_present", 0),
  ("scaling_list_present", 0), ("scaling_list_present", 0), ("scaling_list_present", 0),
  ("second_chroma_qp_index_offset", -3)]
def exPpsNalu : Bytes := [0x48, 0x54, 0x90, 0x88, 0x12, 0x00, 0xde, 0x41, 0xc2, 0x4b, 0x24, 0x39, 0xc0, 0x9a, 0x63,
  0x8b, 0x38, 0x0d, 0x70, 0x10, 0x27, 0x02, 0x98, 0x0f]
def exSpsMap : List (Nat × Nat) := [(0, 1), (1, 0), (30, 1)]

example : TraceOK 300 (pre (capOf exPpsNalu)) exPps1 := traceOK_of_check (by decide +kernel)
example : TailOK 300 (lookupChroma exSpsMap exPps1) exPps1 exPps2 := tailOK_of_check (by decide +kernel)
example : serializePps 300 (capOf exPpsNalu) (lookupChroma exSpsMap exPps1) exPps1 (some exPps2) = some exPpsNalu := by
  decide +kernel
/-- … hence the conclusion of `pps_roundtrip` for it -/
example : parsePps 300 exSpsMap exPpsNalu = .ok (exPps1 ++ exPps2) true :=
  pps_roundtrip 300 exSpsMap exPps1 (some exPps2) exPpsNalu (traceOK_of_check (by decide +kernel))
    (fun t2 h => by cases h; exact tailOK_of_check (by decide +kernel)) (by decide +kernel)
/-- hostile input for the totality statement: slice group map type 6 announcing 2^32-1 map units in 11 bytes; the
    loop ends with the input and the parser reports the error -/
def exPpsHostile : Bytes := [0x68, 0xc4, 0x70, 0x00, 0x00, 0x00, 0x1f, 0xff, 0xff, 0xff, 0xe0]
example : parsePps (capOf exPpsHostile + 87) [] exPpsHostile = .err ∧
    ((parse 200 (pre (capOf exPpsHostile)) [] { rest := exPpsHostile }).map
      fun r => (r.1.nat "pic_size_in_map_units_minus1", (r.1.all "slice_group_id").length)) = some (4294967294, 96) := by
  decide +kernel

end AvcPps

/-! ## HEVC SPS -/
section HevcSps
open Mp4ff.HevcSps

/-- **HEVC SPS round trip** (C15): for every valid value assignment of the SPS syntax as hevc/sps.go reads it
    (profile_tier_level with up to 7 sub-layers, conformance window, sub-layer ordering info, scaling list data,
    up to 255 short-term reference picture sets with inter-RPS prediction whose flag counts depend on the set derived
    before, long-term pictures with a computed field width, VUI with HRD and sub-picture parameters, range /
    multilayer / 3D / SCC extensions) the NAL unit an independent serialiser writes is parsed by the complete
    `ParseSPSNALUnit` model — syntax, extension-data look-ahead, trailing-bits check — back to exactly those values -/
theorem sps_roundtrip (f : Nat) (tr : Trace) (nalu : Bytes) (h : TraceOK f (sps (capOf nalu)) tr)
    (hs : serialize f (sps (capOf nalu)) tr = some nalu) : parseSps f nalu = .ok tr [] :=
  HevcSps.sps_roundtrip f tr nalu h hs

/-- **the HEVC SPS parser terminates on every byte string** (C16): fuel (nesting depth) 3·(8·|nalu| + 8) + 870 is
    always enough — 255 short-term sets of ≤ 17 + 32 entries, 255 long-term pictures, 8 sub-layers × 2 × 32 CPB
    entries are constant bounds of the parser; the three palette-initialiser loops end with the input -/
theorem sps_total (nalu : Bytes) (f : Nat) (hf : 3 * capOf nalu + 870 ≤ f) : parseSps f nalu ≠ .fuel :=
  HevcSps.sps_total nalu f hf

/-- … and the answer holds at most 51·(8·|nalu| + 8) + 96194 values: memory linear in the input -/
theorem sps_total_length (nalu : Bytes) (f : Nat) (hf : 3 * capOf nalu + 870 ≤ f) :
    ∀ t ext, parseSps f nalu = .ok t ext → t.length ≤ 51 * capOf nalu + 96194 :=
  HevcSps.sps_total_length nalu f hf

/-- the fuel the driver uses is always enough -/
theorem sps_total_driver (nalu : Bytes) : parseSps (fuel nalu) nalu ≠ .fuel := HevcSps.sps_total_driver nalu

/-- **picture size** (C15): `SPS.ImageSize()` (Go uint32 arithmetic, SubWidthC/SubHeightC chosen by the low 8 bits of
    chroma_format_idc) equals the standard's derivation (7.4.3.2.1 with Table 6-1) whenever chroma_format_idc is one of
    the four defined values and the conformance window lies inside the picture -/
theorem dims_eq_std (t : Trace) (hc : t.nat "chroma_format_idc" ≤ 3) (hfit : WindowFits t) :
    stdDims t = some (dims t) := HevcSps.dims_eq_std t hc hfit

/-- **`Read(48)` = `Read(16)` then `Read(32)`** — the one place where the SPS term deviates from the letter of the
    code (the generic round trip is stated for fields of up to 32 bits): with at least 48 unread bits both read the
    same value (high 16 bits · 2^32 + low 32 bits) and leave the same unread bits -/
theorem read48_split (e : ER) (P : Bytes) (he : e.Inv P) (h : 48 ≤ (e.abs P).length) :
    (e.read 48).2 = (e.read 16).2 * 2 ^ 32 + ((e.read 16).1.read 32).2 ∧
    ∃ P1 P2, (e.read 48).1.Inv P1 ∧ ((e.read 16).1.read 32).1.Inv P2 ∧
      (e.read 48).1.abs P1 = ((e.read 16).1.read 32).1.abs P2 := HevcSps.read48_split e P he h

/-- non-vacuity of `read48_split`'s hypotheses and its conclusion on concrete bytes -/
example : (({ rest := [0x12, 0x34, 0x56, 0x78, 0x9a, 0xbc, 0xde] } : ER).read 48).2 = 0x123456789abc ∧
    (({ rest := [0x12, 0x34, 0x56, 0x78, 0x9a, 0xbc, 0xde] } : ER).read 16).2 * 2 ^ 32 +
      ((({ rest := [0x12, 0x34, 0x56, 0x78, 0x9a, 0xbc, 0xde] } : ER).read 16).1.read 32).2 = 0x123456789abc := by
  decide +kernel

/-! non-vacuity: an SPS with 4 temporal sub-layers (one with its own profile and level), 4:4:4 with separate colour
    planes, a conformance window, PCM, two short-term reference picture sets the second of which is inter-predicted,
    VUI with timing and HRD information for every sub-layer, bitstream restrictions -/
def exSps : Trace :=
  [("nal_header", 16897), ("sps_video_parameter_set_id", 2), ("sps_max_sub_layers_minus1", 3),
  ("sps_temporal_id_nesting_flag", 1), ("general_profile_space", 0), ("general_tier_flag", 0),
  ("general_profile_idc", 1), ("general_profile_compatibility_flags", 54984551), ("general_constraint_flags_hi16",
  45056), ("general_constraint_flags_lo32", 0), ("general_level_idc", 30), ("sub_layer_profile_present_flag", 0),
  ("sub_layer_level_present_flag", 0), ("sub_layer_profile_present_flag", 0), ("sub_layer_level_present_flag", 0),
  ("sub_layer_profile_present_flag", 1), ("sub_layer_level_present_flag", 1), ("reserved_zero_2bits", 0),
  ("sub_layer_profile_space", 0), ("sub_layer_tier_flag", 0), ("sub_layer_profile_idc", 7),
  ("sub_layer_profile_compatibility_flags", 16777216), ("sub_layer_constraint_flags_hi16", 58382),
  ("sub_layer_constraint_flags_lo32", 0), ("sub_layer_level_idc", 203), ("sps_seq_parameter_set_id", 2),
  ("chroma_format_idc", 3), ("separate_colour_plane_flag", 1), ("pic_width_in_luma_samples", 96),
  ("pic_height_in_luma_samples", 6896), ("conformance_window_flag", 1), ("conf_win_left_offset", 1),
  ("conf_win_right_offset", 2), ("conf_win_top_offset", 1), ("conf_win_bottom_offset", 0), ("bit_depth_luma_minus8",
  0), ("bit_depth_chroma_minus8", 1), ("log2_max_pic_order_cnt_lsb_minus4", 0),
  ("sps_sub_layer_ordering_info_present_flag", 1), ("sps_max_dec_pic_buffering_minus1", 2),
  ("sps_max_num_reorder_pics", 1), ("sps_max_latency_increase_plus1", 3), ("sps_max_dec_pic_buffering_minus1", 0),
  ("sps_max_num_reorder_pics", 0), ("sps_max_latency_increase_plus1", 1), ("sps_max_dec_pic_buffering_minus1", 0),
  ("sps_max_num_reorder_pics", 0), ("sps_max_latency_increase_plus1", 3), ("sps_max_dec_pic_buffering_minus1", 2),
  ("sps_max_num_reorder_pics", 2), ("sps_max_latency_increase_plus1", 1), ("log2_min_luma_coding_block_size_minus3",
  0), ("log2_diff_max_min_luma_coding_block_size", 0), ("log2_min_luma_transform_block_size_minus2", 0),
  ("log2_diff_max_min_luma_transform_block_size", 0), ("max_transform_hierarchy_depth_inter", 1),
  ("max_transform_hierarchy_depth_intra", 1), ("scaling_list_enabled_flag", 0), ("amp_enabled_flag", 0),
  ("sample_adaptive_offset_enabled_flag", 0), ("pcm_enabled_flag", 1), ("pcm_sample_bit_depth_luma_minus1", 1),
  ("pcm_sample_bit_depth_chroma_minus1", 3), ("log2_min_pcm_luma_coding_block_size_minus3", 0),
  ("log2_diff_max_min_pcm_luma_coding_block_size", 0), ("pcm_loop_filter_disabled_flag", 0),
  ("num_short_term_ref_pic_sets", 2), ("num_negative_pics", 0), ("num_positive_pics", 0),
  ("inter_ref_pic_set_prediction_flag", 1), ("delta_rps_sign", 0), ("abs_delta_rps_minus1", 2),
  ("used_by_curr_pic_flag", 0), ("use_delta_flag", 1), ("long_term_ref_pics_present_flag", 0),
  ("sps_temporal_mvp_enabled_flag", 1), ("strong_intra_smoothing_enabled_flag", 0), ("vui_parameters_present_flag",
  1), ("aspect_ratio_info_present_flag", 1), ("aspect_ratio_idc", 9), ("overscan_info_present_flag", 1),
  ("overscan_appropriate_flag", 0), ("video_signal_type_present_flag", 0), ("chroma_loc_info_present_flag", 0),
  ("neutral_chroma_indication_flag", 0), ("field_seq_flag", 1), ("frame_field_info_present_flag", 1),
  ("default_display_window_flag", 0), ("vui_timing_info_present_flag", 1), ("vui_num_units_in_tick", 4294967294),
  ("vui_time_scale", 4), ("vui_poc_proportional_to_timing_flag", 0), ("vui_hrd_parameters_present_flag", 1),
  ("nal_hrd_parameters_present_flag", 0), ("vcl_hrd_parameters_present_flag", 0), ("fixed_pic_rate_general_flag",
  1), ("elemental_duration_in_tc_minus1", 0), ("cpb_cnt_minus1", 17), ("fixed_pic_rate_general_flag", 0),
  ("fixed_pic_rate_within_cvs_flag", 0), ("low_delay_hrd_flag", 0), ("cpb_cnt_minus1", 0),
  ("fixed_pic_rate_general_flag", 0), ("fixed_pic_rate_within_cvs_flag", 0), ("low_delay_hrd_flag", 0),
  ("cpb_cnt_minus1", 6), ("fixed_pic_rate_general_flag", 0), ("fixed_pic_rate_within_cvs_flag", 1),
  ("elemental_duration_in_tc_minus1", 37), ("cpb_cnt_minus1", 0), ("bitstream_restriction_flag", 1),
  ("tiles_fixed_structure_flag", 1), ("motion_vectors_over_pic_boundaries_flag", 1),
  ("restricted_ref_pic_lists_flag", 1), ("min_spatial_segmentation_idc", 4095), ("max_bytes_per_pic_denom", 12),
  ("max_bits_per_min_cu_denom", 11), ("log2_max_mv_length_horizontal", 7), ("log2_max_mv_length_vertical", 3),
  ("sps_extension_present_flag", 0)]
def exSpsNalu : Bytes :=
  [66, 1, 39, 1, 3, 70, 255, 103, 176, 0, 0, 3, 0, 0, 3, 0, 30, 12, 0, 7, 1, 0, 0, 3, 0, 228, 14, 0, 0, 3, 0, 0,
  203, 100, 129, 132, 0, 53, 227, 77, 107, 104, 154, 200, 218, 244, 132, 79, 62, 106, 194, 97, 191, 255, 255, 255,
  192, 0, 0, 3, 0, 137, 132, 132, 29, 4, 223, 0, 8, 0, 13, 24, 32, 136]

example : TraceOK 3000 (sps (capOf exSpsNalu)) exSps := traceOK_of_check (by decide +kernel)
example : serialize 3000 (sps (capOf exSpsNalu)) exSps = some exSpsNalu := by decide +kernel
/-- … hence the conclusion of `sps_roundtrip`; the derived sets: set 1 is predicted from the empty set 0 with
    deltaRps = +3 → one positive picture at distance 3, not used by the current picture -/
example : parseSps 3000 exSpsNalu = .ok exSps [] ∧
    rpsSets exSps = [{}, { s0 := [], s1 := [(3, false)], numDelta := 1 }] :=
  ⟨sps_roundtrip 3000 exSps exSpsNalu (traceOK_of_check (by decide +kernel)) (by decide +kernel), by decide +kernel⟩
example : exSps.nat "chroma_format_idc" ≤ 3 ∧ WindowFits exSps ∧ dims exSps = (93, 6895) := by
  refine ⟨by decide +kernel, ?_, by decide +kernel⟩
  unfold WindowFits; decide +kernel
/-- hostile input for the totality statements: a truncated SPS is an error, not a hang -/
example : parseSps (3 * capOf (exSpsNalu.take 40) + 870) (exSpsNalu.take 40) = .err := by decide +kernel

end HevcSps

/-! ## HEVC PPS -/
section HevcPps
open Mp4ff.HevcPps

/-- **HEVC PPS round trip** (C15): for every valid value assignment of the PPS syntax as hevc/pps.go reads it (tiles with
    explicit column/row sizes, deblocking control, scaling list data, range extension with chroma QP offset lists,
    multilayer extension with reference location offsets and the colour mapping table whose octants split recursively,
    3D extension with depth look-up tables in both codings, SCC extension with palette initialisers) the NAL unit an
    independent serialiser writes is parsed by the complete `ParsePPSNALUnit` model — syntax, extension-data
    look-ahead, trailing-bits check — back to exactly those values -/
theorem hevc_pps_roundtrip (f : Nat) (spsIds : List Nat) (tr : Trace) (nalu : Bytes)
    (h : TraceOK f (pps spsIds (capOf nalu)) tr)
    (hs : serialize f (pps spsIds (capOf nalu)) tr = some nalu) : parsePps f spsIds nalu = .ok tr [] :=
  HevcPps.pps_roundtrip f spsIds tr nalu h hs

/-- **the HEVC PPS parser terminates on every byte string** (C16), whatever the SPS map: fuel (nesting depth)
    5·(8·|nalu| + 8) + 800 is always enough; the loops without a constant bound (tile sizes, depth look-up table
    entries, palette initialisers) end with the input, the octant recursion is at most 3 deep -/
theorem hevc_pps_total (spsIds : List Nat) (nalu : Bytes) (f : Nat) (hf : 5 * capOf nalu + 800 ≤ f) :
    parsePps f spsIds nalu ≠ .fuel := HevcPps.pps_total spsIds nalu f hf

/-- the fuel the driver uses is always enough -/
theorem hevc_pps_total_driver (spsIds : List Nat) (nalu : Bytes) : parsePps (fuel nalu) spsIds nalu ≠ .fuel :=
  HevcPps.pps_total_driver spsIds nalu

/-! non-vacuity 1: a PPS with the multilayer extension: one reference location offset and a colour mapping table with
    two luma partitions (8 corner records, coefficients with a computed residual width) -/
def exHPps1 : Trace :=
  [("nal_header", 17409), ("pps_pic_parameter_set_id", 4), ("pps_seq_parameter_set_id", 9),
  ("dependent_slice_segments_enabled_flag", 0), ("output_flag_present_flag", 0), ("num_extra_slice_header_bits", 2),
  ("sign_data_hiding_enabled_flag", 0), ("cabac_init_present_flag", 1), ("num_ref_idx_l0_default_active_minus1", 1),
  ("num_ref_idx_l1_default_active_minus1", 13), ("init_qp_minus26", -3), ("constrained_intra_pred_flag", 0),
  ("transform_skip_enabled_flag", 1), ("cu_qp_delta_enabled_flag", 0), ("pps_cb_qp_offset", 12),
  ("pps_cr_qp_offset", -8), ("pps_slice_chroma_qp_offsets_present_flag", 0), ("weighted_pred_flag", 0),
  ("weighted_bipred_flag", 1), ("transquant_bypass_enabled_flag", 0), ("tiles_enabled_flag", 0),
  ("entropy_coding_sync_enabled_flag", 0), ("pps_loop_filter_across_slices_enabled_flag", 1),
  ("deblocking_filter_control_present_flag", 1), ("deblocking_filter_override_enabled_flag", 1),
  ("pps_deblocking_filter_disabled_flag", 0), ("pps_beta_offset_div2", -6), ("pps_tc_offset_div2", 0),
  ("pps_scaling_list_data_present_flag", 0), ("lists_modification_present_flag", 1),
  ("log2_parallel_merge_level_minus2", 3), ("slice_segment_header_extension_present_flag", 0),
  ("pps_extension_present_flag", 1), ("pps_range_extension_flag", 1), ("pps_multilayer_extension_flag", 1),
  ("pps_3d_extension_flag", 0), ("pps_scc_extension_flag", 0), ("pps_extension_4bits", 0),
  ("log2_max_transform_skip_block_size_minus2", 1), ("cross_component_prediction_enabled_flag", 0),
  ("chroma_qp_offset_list_enabled_flag", 0), ("log2_sao_offset_scale_luma", 0), ("log2_sao_offset_scale_chroma", 0),
  ("poc_reset_info_present_flag", 0), ("pps_infer_scaling_list_flag", 1), ("pps_scaling_list_ref_layer_id", 63),
  ("num_ref_loc_offsets", 1), ("ref_loc_offset_layer_id", 5), ("scaled_ref_layer_offset_present_flag", 0),
  ("ref_region_offset_present_flag", 0), ("resample_phase_set_present_flag", 0), ("colour_mapping_enabled_flag", 1),
  ("num_cm_ref_layers_minus1", 3), ("cm_ref_layer_id", 20), ("cm_ref_layer_id", 31), ("cm_ref_layer_id", 14),
  ("cm_ref_layer_id", 35), ("cm_octant_depth", 0), ("cm_y_part_num_log2", 1), ("luma_bit_depth_cm_input_minus8", 1),
  ("chroma_bit_depth_cm_input_minus8", 2), ("luma_bit_depth_cm_output_minus8", 2),
  ("chroma_bit_depth_cm_output_minus8", 3), ("cm_res_quant_bits", 1), ("cm_delta_flc_bits_minus1", 1),
  ("coded_res_flag", 0), ("coded_res_flag", 1), ("res_coeff_q", 0), ("res_coeff_r", 37), ("res_coeff_s", 1),
  ("res_coeff_q", 12), ("res_coeff_r", 16), ("res_coeff_s", 0), ("res_coeff_q", 0), ("res_coeff_r", 63),
  ("res_coeff_s", 0), ("coded_res_flag", 0), ("coded_res_flag", 1), ("res_coeff_q", 2), ("res_coeff_r", 52),
  ("res_coeff_s", 0), ("res_coeff_q", 1), ("res_coeff_r", 4), ("res_coeff_s", 1), ("res_coeff_q", 3),
  ("res_coeff_r", 45), ("res_coeff_s", 1), ("coded_res_flag", 1), ("res_coeff_q", 3), ("res_coeff_r", 21),
  ("res_coeff_s", 0), ("res_coeff_q", 0), ("res_coeff_r", 10), ("res_coeff_s", 0), ("res_coeff_q", 3),
  ("res_coeff_r", 48), ("res_coeff_s", 0), ("coded_res_flag", 0), ("coded_res_flag", 0), ("coded_res_flag", 1),
  ("res_coeff_q", 11), ("res_coeff_r", 35), ("res_coeff_s", 1), ("res_coeff_q", 0), ("res_coeff_r", 35),
  ("res_coeff_s", 0), ("res_coeff_q", 1), ("res_coeff_r", 59), ("res_coeff_s", 1)]
def exHPpsNalu1 : Bytes :=
  [68, 1, 40, 161, 40, 113, 208, 96, 34, 71, 13, 164, 112, 17, 191, 161, 68, 138, 62, 116, 98, 155, 34, 185, 99, 80,
  127, 47, 66, 18, 75, 114, 42, 148, 38, 2, 50, 62, 50, 239]
/-! non-vacuity 2: a PPS with tiles of explicit sizes and the 3D extension (delta-coded depth look-up table) -/
def exHPps2 : Trace :=
  [("nal_header", 17409), ("pps_pic_parameter_set_id", 55), ("pps_seq_parameter_set_id", 3),
  ("dependent_slice_segments_enabled_flag", 1), ("output_flag_present_flag", 0), ("num_extra_slice_header_bits", 0),
  ("sign_data_hiding_enabled_flag", 0), ("cabac_init_present_flag", 0), ("num_ref_idx_l0_default_active_minus1", 2),
  ("num_ref_idx_l1_default_active_minus1", 10), ("init_qp_minus26", 2), ("constrained_intra_pred_flag", 1),
  ("transform_skip_enabled_flag", 0), ("cu_qp_delta_enabled_flag", 0), ("pps_cb_qp_offset", 11),
  ("pps_cr_qp_offset", 3), ("pps_slice_chroma_qp_offsets_present_flag", 1), ("weighted_pred_flag", 0),
  ("weighted_bipred_flag", 0), ("transquant_bypass_enabled_flag", 1), ("tiles_enabled_flag", 1),
  ("entropy_coding_sync_enabled_flag", 0), ("num_tile_columns_minus1", 1), ("num_tile_rows_minus1", 2),
  ("uniform_spacing_flag", 0), ("column_width_minus1", 2), ("row_height_minus1", 2), ("row_height_minus1", 30),
  ("loop_filter_across_tiles_enabled_flag", 1), ("pps_loop_filter_across_slices_enabled_flag", 1),
  ("deblocking_filter_control_present_flag", 0), ("pps_scaling_list_data_present_flag", 0),
  ("lists_modification_present_flag", 1), ("log2_parallel_merge_level_minus2", 2),
  ("slice_segment_header_extension_present_flag", 0), ("pps_extension_present_flag", 1),
  ("pps_range_extension_flag", 0), ("pps_multilayer_extension_flag", 0), ("pps_3d_extension_flag", 1),
  ("pps_scc_extension_flag", 0), ("pps_extension_4bits", 0), ("dlts_present_flag", 1), ("pps_depth_layers_minus1",
  2), ("pps_bit_depth_for_depth_layers_minus8", 0), ("dlt_flag", 1), ("dlt_pred_flag", 0),
  ("dlt_val_flags_present_flag", 0), ("num_val_delta_dlt", 0), ("dlt_flag", 1), ("dlt_pred_flag", 0),
  ("dlt_val_flags_present_flag", 0), ("num_val_delta_dlt", 4), ("max_diff", 2), ("min_diff_minus1", 0),
  ("delta_dlt_val0", 45), ("delta_val_diff_minus_min", 1), ("delta_val_diff_minus_min", 1),
  ("delta_val_diff_minus_min", 0), ("dlt_flag", 0)]
def exHPpsNalu2 : Bytes :=
  [68, 1, 7, 4, 128, 197, 146, 5, 141, 50, 102, 195, 249, 105, 4, 32, 128, 16, 16, 8, 45, 200]

example : TraceOK 3000 (pps [9] (capOf exHPpsNalu1)) exHPps1 := traceOK_of_check (by decide +kernel)
example : parsePps 3000 [9] exHPpsNalu1 = .ok exHPps1 [] :=
  hevc_pps_roundtrip 3000 [9] exHPps1 exHPpsNalu1 (traceOK_of_check (by decide +kernel)) (by decide +kernel)
example : parsePps 3000 [1, 3] exHPpsNalu2 = .ok exHPps2 [] :=
  hevc_pps_roundtrip 3000 [1, 3] exHPps2 exHPpsNalu2 (traceOK_of_check (by decide +kernel)) (by decide +kernel)
/-- hostile inputs for the totality statement: the SPS id is not in the map; the unit is cut -/
example : parsePps (5 * capOf exHPpsNalu1 + 800) [1] exHPpsNalu1 = .err ∧
    parsePps (5 * capOf (exHPpsNalu1.take 20) + 800) [9] (exHPpsNalu1.take 20) = .err := by decide +kernel

end HevcPps

/-! ## AVC slice header -/
section AvcSlice
open Mp4ff.AvcSlice

/-- **AVC slice header round trip, bit level** (C15): whatever bits follow the header (`tail`: the slice data), reading
    the bits an independent serialiser wrote for a valid value assignment of the slice header syntax — with the PPS
    resolved through the slice's pic_parameter_set_id and the SPS through *that PPS's* seq_parameter_set_id, all slice
    types, ref_pic_list_modification, pred_weight_table, dec_ref_pic_marking — gives back exactly those values without
    error and leaves the reader exactly at the first bit behind the header, which is what the reported size is read from -/
theorem slice_roundtrip_bits (f : Nat) (sm : List SpsInfo) (pm : List PpsInfo) (cap : Nat) (tr : Trace)
    (os : List Op) (e : ER) (P : Bytes) (tail : List Bool)
    (hops : ops f (slice sm pm cap) [] tr = some (os, tr, [])) (hst : stopped tr = false) (hok : ∀ op ∈ os, op.OK)
    (he : e.Inv P) (habs : e.abs P = opsBits os ++ tail) :
    ∃ e' P', parse f (slice sm pm cap) [] e = some (tr, e') ∧ e'.Inv P' ∧ e'.abs P' = tail ∧ e'.err = false ∧
      e'.nread + e'.rest.length = e.nread + e.rest.length :=
  AvcSlice.slice_roundtrip_bits f sm pm cap tr os e P tail hops hst hok he habs

/-- **AVC slice header round trip, NAL unit level**: a slice NAL unit made of the header and the trailing bits parses
    to the coded values; the reported header size counts bytes of the unit -/
theorem slice_roundtrip (f : Nat) (sm : List SpsInfo) (pm : List PpsInfo) (tr : Trace) (nalu : Bytes)
    (h : TraceOK f (slice sm pm (capOf nalu)) tr)
    (hs : serialize f (slice sm pm (capOf nalu)) tr = some nalu) :
    ∃ size, parseSlice f sm pm nalu = .ok tr size ∧ size ≤ nalu.length :=
  AvcSlice.slice_roundtrip f sm pm tr nalu h hs

/-- **the AVC slice header parser terminates on every byte string** (C16), whatever the parameter-set maps: fuel
    3·(8·|nalu| + 8) + 200; the three `for { … }` loops end with their end code or with the input -/
theorem slice_total (sm : List SpsInfo) (pm : List PpsInfo) (nalu : Bytes) (f : Nat)
    (hf : 3 * capOf nalu + 200 ≤ f) : parseSlice f sm pm nalu ≠ .fuel := AvcSlice.slice_total sm pm nalu f hf

/-- the fuel the driver uses is always enough -/
theorem slice_total_driver (sm : List SpsInfo) (pm : List PpsInfo) (nalu : Bytes) :
    parseSlice (fuel nalu) sm pm nalu ≠ .fuel := AvcSlice.slice_total_driver sm pm nalu

/-! non-vacuity: an SP slice referring to PPS 5, which refers to SPS 1 (pps id ≠ sps id): list modification, explicit
    weights for 4 reference pictures, adaptive marking, deblocking parameters -/
def exSm : List SpsInfo := [⟨1, 0, 0, false, true, 1, true, 1, 768, 1008, 0, 0, 0, 0⟩]
def exPm : List PpsInfo := [⟨1, 1, false, true, 0, 31, true, 0, true, false, 0, 0, 0⟩,
  ⟨5, 1, true, false, 3, 1, true, 1, false, true, 0, 0, 0⟩]
def exSlice : Trace :=
  [("nal_header", 65), ("first_mb_in_slice", 1), ("slice_type", 3), ("pic_parameter_set_id", 5), ("frame_num", 0),
  ("num_ref_idx_active_override_flag", 0), ("ref_pic_list_modification_flag_l0", 1),
  ("modification_of_pic_nums_idc", 0), ("abs_diff_pic_num_minus1", 9), ("modification_of_pic_nums_idc", 3),
  ("luma_log2_weight_denom", 1), ("chroma_log2_weight_denom", 1), ("luma_weight_flag_l0", 0),
  ("chroma_weight_flag_l0", 0), ("luma_weight_flag_l0", 0), ("chroma_weight_flag_l0", 1), ("chroma_weight_l0", 1),
  ("chroma_offset_l0", 66), ("chroma_weight_l0", 17), ("chroma_offset_l0", 1), ("luma_weight_flag_l0", 0),
  ("chroma_weight_flag_l0", 1), ("chroma_weight_l0", 44), ("chroma_offset_l0", 6), ("chroma_weight_l0", 0),
  ("chroma_offset_l0", 0), ("luma_weight_flag_l0", 1), ("luma_weight_l0", 18), ("luma_offset_l0", 0),
  ("chroma_weight_flag_l0", 1), ("chroma_weight_l0", 4), ("chroma_offset_l0", 0), ("chroma_weight_l0", 0),
  ("chroma_offset_l0", 2), ("adaptive_ref_pic_marking_mode_flag", 1), ("memory_management_control_operation", 0),
  ("slice_qp_delta", 0), ("sp_for_switch_flag", 1), ("slice_qs_delta", 0), ("disable_deblocking_filter_idc", 2),
  ("slice_alpha_c0_offset_div2", 0), ("slice_beta_offset_div2", 1)]
def exSliceNalu : Bytes := [65, 68, 48, 49, 68, 72, 80, 16, 194, 73, 5, 167, 225, 60, 187, 251, 168]

example : TraceOK 1000 (slice exSm exPm (capOf exSliceNalu)) exSlice := traceOK_of_check (by decide +kernel)
example : serialize 1000 (slice exSm exPm (capOf exSliceNalu)) exSlice = some exSliceNalu := by decide +kernel
example : parseSlice 1000 exSm exPm exSliceNalu = .ok exSlice 17 := by decide +kernel
/-- hostile inputs: unknown PPS; a unit that ends inside the header -/
example : parseSlice (3 * capOf exSliceNalu + 200) exSm [] exSliceNalu = .err ∧
    parseSlice (3 * capOf (exSliceNalu.take 9) + 200) exSm exPm (exSliceNalu.take 9) = .trunc := by decide +kernel

end AvcSlice

/-! ## HEVC slice segment header -/
section HevcSlice
open Mp4ff.HevcSlice

/-- **HEVC slice header round trip, bit level** (C15): whatever bits follow (`tail`: alignment bits, slice data), reading
    the bits an independent serialiser wrote for a valid value assignment of the slice segment header syntax — PPS
    resolved through the slice's pps id, SPS through that PPS's sps id, the header's reference picture set predicted
    from the SPS's sets, list-entry widths from the pictures in use — gives back exactly those values without error and
    leaves the reader exactly behind the header -/
theorem hevc_slice_roundtrip_bits (f : Nat) (sm pm : PsMap) (cap : Nat) (tr : Trace)
    (os : List Op) (e : ER) (P : Bytes) (tail : List Bool)
    (hops : ops f (HevcSlice.slice sm pm cap) [] tr = some (os, tr, [])) (hst : stopped tr = false)
    (hok : ∀ op ∈ os, op.OK) (he : e.Inv P) (habs : e.abs P = opsBits os ++ tail) :
    ∃ e' P', parse f (HevcSlice.slice sm pm cap) [] e = some (tr, e') ∧ e'.Inv P' ∧ e'.abs P' = tail ∧ e'.err = false ∧
      e'.nread + e'.rest.length = e.nread + e.rest.length :=
  HevcSlice.slice_roundtrip_bits f sm pm cap tr os e P tail hops hst hok he habs

/-- **the HEVC slice header parser terminates on every byte string** (C16), whatever the parameter sets: fuel = the
    nesting depth of the syntax term (`depthL`, a number linear in the NAL unit length: three loops end with the input,
    the others have constant bounds) -/
theorem hevc_slice_total (sm pm : PsMap) (nalu : Bytes) (f : Nat)
    (hf : depthL (HevcSlice.slice sm pm (HevcSlice.capOf nalu)) ≤ f) : HevcSlice.parseSlice f sm pm nalu ≠ .fuel :=
  HevcSlice.slice_total sm pm nalu f hf

/-! non-vacuity: a P slice (IDR NAL type is 19 here only to keep the parameter sets small) with pps id 7 → sps id 3,
    SAO, overridden reference count, explicit weights for two reference pictures -/
def exHSm : PsMap := [(3, [("chroma_format_idc", 1), ("sample_adaptive_offset_enabled_flag", 1)])]
def exHPm : PsMap := [(7, [("pps_seq_parameter_set_id", 3), ("cabac_init_present_flag", 1), ("weighted_pred_flag", 1)])]
def exHSlice : Trace := [("nal_header", 9729), ("first_slice_segment_in_pic_flag", 1), ("no_output_of_prior_pics_flag", 0),
  ("slice_pic_parameter_set_id", 7), ("slice_type", 1), ("slice_sao_luma_flag", 1), ("slice_sao_chroma_flag", 0),
  ("num_ref_idx_active_override_flag", 1), ("num_ref_idx_l0_active_minus1", 1), ("cabac_init_flag", 1),
  ("luma_log2_weight_denom", 2), ("delta_chroma_log2_weight_denom", -1), ("luma_weight_l0_flag", 1),
  ("luma_weight_l0_flag", 0), ("chroma_weight_l0_flag", 0), ("chroma_weight_l0_flag", 1), ("delta_luma_weight_l0", 5),
  ("luma_offset_l0", -7), ("delta_chroma_weight_l0", 1), ("delta_chroma_offset_l0", 2), ("delta_chroma_weight_l0", -3),
  ("delta_chroma_offset_l0", 4), ("five_minus_max_num_merge_cand", 2), ("slice_qp_delta", -3),
  ("alignment_bit_equal_to_one", 1)]
def exHSliceNalu : Bytes := [38, 1, 132, 42, 173, 200, 161, 232, 135, 16, 207, 128]

example : TraceOK 300 (HevcSlice.slice exHSm exHPm (HevcSlice.capOf exHSliceNalu)) exHSlice :=
  traceOK_of_check (by decide +kernel)
example : serialize 300 (HevcSlice.slice exHSm exHPm (HevcSlice.capOf exHSliceNalu)) exHSlice = some exHSliceNalu ∧
    HevcSlice.parseSlice 300 exHSm exHPm exHSliceNalu = .ok exHSlice 11 := by decide +kernel
/-- hostile: unknown PPS; cut inside the header -/
example : HevcSlice.parseSlice 70000 exHSm [] exHSliceNalu = .err ∧
    HevcSlice.parseSlice 70000 exHSm exHPm (exHSliceNalu.take 6) = .err := by decide +kernel

end HevcSlice

end Mp4ff.C15b
