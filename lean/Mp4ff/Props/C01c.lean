import Mp4ff.Model.Esds
import Mp4ff.Lemmas.Esds
/-!
# C01c — decode then encode is lossless for the `esds` box and its MPEG-4 descriptors

The `esds` box is not a layout-DSL box (its payload is a tree of descriptors with variable-length size fields), so
the generic layout theorems of `Props/C01.lean` do not speak about it.  Its own model is `Mp4ff/Model/Esds.lean`
(transcription of mp4/esds.go + mp4/descriptors.go), proofs in `Mp4ff/Lemmas/Esds.lean` (restated for C18 in
`Props/C18b.lean`).  Here the C01 clauses:

* `esds_reencode_exact`: every payload the decoder accepts is reproduced bit for bit up to the end of the ES
  descriptor — the order of the descriptors at every level (an optional descriptor between the DecoderConfig and the
  SLConfig descriptor stays there: the SLConfig slot is only taken by the descriptor that directly follows the
  DecoderConfig descriptor), the number of bytes of every size field (padded 0x80 forms), unknown tags, unknown
  trailing data inside a descriptor; the only normalisation is the committed one ("trailing-dropped": bytes of the box
  after the ES descriptor).
* `esds_decode_encode`: decode ∘ encode = id on well-formed trees.

Tie to the Go code: ops `esds.dec` / `esds.rt` under C01 (and C02, C03) on descriptor trees with optional / unknown
descriptors at every position and every size-field form (harness/c010203.go: genEsdsBoxes), next to the direct
oracle on the four Go code paths.
-/
namespace Mp4ff.C01c
open Mp4ff Mp4ff.Esds

/-- **encode ∘ decode**: an accepted payload is `encodeEsds (decoded) ++ t`; `t` = the dropped bytes after the ES
    descriptor (committed normalisation "trailing-dropped") -/
theorem esds_reencode_exact (bs : Bytes) (hb : IsBytes bs) (hl : bs.length < 2 ^ 63) (e : Esds)
    (h : decodeEsds bs = .ok e) : ∃ t, bs = encodeEsds e ++ t :=
  encodeEsds_decodeEsds bs hb hl e h

/-- the re-encoded box is never longer than the input box, and is the input when nothing follows the ES descriptor -/
theorem esds_reencode_length (bs : Bytes) (hb : IsBytes bs) (hl : bs.length < 2 ^ 63) (e : Esds)
    (h : decodeEsds bs = .ok e) : (encodeEsds e).length ≤ bs.length := by
  obtain ⟨t, ht⟩ := encodeEsds_decodeEsds bs hb hl e h
  have := congrArg List.length ht
  simp at this
  omega

/-- **decode ∘ encode = id** on well-formed descriptor trees (`Esds.WF`, see `Props/C18b.lean`) -/
theorem esds_decode_encode (e : Esds) (h : e.WF) : decodeEsds (encodeEsds e) = .ok e :=
  decodeEsds_encodeEsds e h

/-- … also with bytes after the ES descriptor -/
theorem esds_decode_encode_tail (e : Esds) (h : e.WF) (t : Bytes) (ht : 8 + (encodeEsds e ++ t).length < 2 ^ 32) :
    decodeEsds (encodeEsds e ++ t) = .ok e :=
  decodeEsds_encodeEsds_tail e h t ht

/-! ## non-vacuity: descriptors at every position -/

/-- `CreateEsdsBox([0x11, 0x90])`'s DecoderConfig descriptor -/
def dcHdr : DcHdr := ⟨0, 0x40, 0x15, 0, 0, 0, some (0, [0x11, 0x90]), []⟩

/-- DecoderConfig, language descriptor (tag 0x43), SLConfig: the SLConfig descriptor is NOT in the typed slot, it
    stays behind the language descriptor in `others` -/
def between : Esds :=
  ⟨0, 0, { sfs := 0, esId := 1, flags := 0, dependsOn := 0, url := [], ocr := 0, dc := dcHdr, dcOthers := [],
           sl := none, others := [.raw 0x43 0 [0x73, 0x77, 0x65], .sl 0 2 []], unk := [] }⟩

/-- DecoderConfig, SLConfig (4-byte padded size field), language descriptor, a second SLConfig, an unknown tag -/
def after : Esds :=
  ⟨0, 0, { sfs := 0, esId := 1, flags := 0, dependsOn := 0, url := [], ocr := 0, dc := dcHdr, dcOthers := [],
           sl := some (3, 2, []), others := [.raw 0x43 0 [0x73, 0x77, 0x65], .sl 0 2 [], .raw 0xfe 0 [9, 9]], unk := [] }⟩

theorem between_wf : between.WF := by
  refine ⟨by decide, by decide, ⟨?_, by decide, by decide, by decide, by decide, by decide, ?_, ?_, ?_, ?_, ?_⟩, by decide⟩
  · simp [between, dcHdr, SzOK, ES.size, flagDep, flagUrl, flagOcr, Desc.sizeSize, Desc.sfsOf, Desc.size, dsiSizeSize,
      slSizeSize, sizeSizes]
  · simp [between, dcHdr, Desc.WF, SzOK, Desc.size, dsiSizeSize, sizeSizes, DsiWF, WFs, UnkOK]
  · simp [between, SlWF]
  · simp [between, WFs, Desc.WF, SzOK]
  · simp [between, headNot, Desc.isSl]
  · simp [between, UnkOK]

theorem after_wf : after.WF := by
  refine ⟨by decide, by decide, ⟨?_, by decide, by decide, by decide, by decide, by decide, ?_, ?_, ?_, ?_, ?_⟩, by decide⟩
  · simp [after, dcHdr, SzOK, ES.size, flagDep, flagUrl, flagOcr, Desc.sizeSize, Desc.sfsOf, Desc.size, dsiSizeSize,
      slSizeSize, sizeSizes]
  · simp [after, dcHdr, Desc.WF, SzOK, Desc.size, dsiSizeSize, sizeSizes, DsiWF, WFs, UnkOK]
  · simp [after, SlWF, SzOK]
  · simp [after, WFs, Desc.WF, SzOK]
  · simp [after]
  · simp [after, UnkOK]

example : encodeEsds between
    = [0, 0, 0, 0, 3, 30, 0, 1, 0, 4, 17, 0x40, 0x15, 0, 0, 0, 0, 0, 0, 0, 0, 0, 0, 0, 5, 2, 0x11, 0x90,
       0x43, 3, 0x73, 0x77, 0x65, 6, 1, 2] := by decide
/-- these bytes decode to `between` (the SLConfig slot stays empty) and are therefore re-encoded unchanged -/
example : decodeEsds (encodeEsds between) = .ok between := esds_decode_encode between between_wf

example : encodeEsds after
    = [0, 0, 0, 0, 3, 40, 0, 1, 0, 4, 17, 0x40, 0x15, 0, 0, 0, 0, 0, 0, 0, 0, 0, 0, 0, 5, 2, 0x11, 0x90,
       6, 0x80, 0x80, 0x80, 1, 2, 0x43, 3, 0x73, 0x77, 0x65, 6, 1, 2, 0xfe, 2, 9, 9] := by decide
example : decodeEsds (encodeEsds after) = .ok after := esds_decode_encode after after_wf

/-- a descriptor before the DecoderConfig descriptor is refused -/
example : decodeEsds [0, 0, 0, 0, 3, 8, 0, 1, 0, 0x43, 3, 0x73, 0x77, 0x65] = .error .expectedDC := by rfl

end Mp4ff.C01c
