import Mp4ff.Model.Mdat
import Mp4ff.Lemmas.C08
import Mp4ff.Expect.Transcribed
/-!
# C08 — lazy-mdat mode is observationally equal to in-memory mode
Property theorems (layout definitions and proofs in `Mp4ff/Lemmas/C08.lean`).  A file is laid out as
`pre ++ header ++ P ++ post` with the mdat box at `pre.length`, 8- or 16-byte header.
-/
namespace Mp4ff.Mdat.C08

/-- both decoders record the same start position, header kind and payload position -/
theorem decode_positions (F : Bytes) (startPos hdrLen size : Nat) :
    (decodeLazy startPos hdrLen size).startPos = (decodeEager F startPos hdrLen size).startPos ∧
    (decodeLazy startPos hdrLen size).largeSize = (decodeEager F startPos hdrLen size).largeSize ∧
    (decodeLazy startPos hdrLen size).payloadStart = (decodeEager F startPos hdrLen size).payloadStart := by
  simp [decodeLazy, decodeEager, MdatBox.payloadStart, MdatBox.headerSize]

/-- the in-memory decoder holds exactly the payload -/
theorem eager_data (l : Layout) : l.eager.data = l.P := Mdat.eager_data l

/-- **byte ranges**: every range inside the payload — ranges ending at the last payload byte and empty ranges
    included — reads the same bytes in both modes, namely the file's bytes -/
theorem readData_lazy_eq_eager (l : Layout) (h : l.OK) (start size : Nat)
    (h1 : l.ms + l.hl ≤ start) (h2 : start + size ≤ l.ms + l.sz) :
    l.lazy.readData l.F start size = some (readAt l.F start size) ∧
    l.eager.readData l.F start size = some (readAt l.F start size) :=
  Mdat.readData_lazy_eq_eager l h start size h1 h2

/-- **a lazily decoded mdat encodes to exactly its header**: header ++ payload = the in-memory encoding; sizes
    and payload positions agree -/
theorem lazy_encode (l : Layout) (h : l.OK) :
    l.lazy.encode ++ l.P = l.eager.encode ∧ l.lazy.size = l.eager.size ∧
    l.lazy.size = (if l.hl = 16 ∨ l.P.length > 2 ^ 32 - 1 - 8 then 16 else 8) + l.P.length ∧
    l.lazy.payloadStart = l.eager.payloadStart := Mdat.lazy_encode l h

/-- **chunk copies, every work-buffer length** (0 = unbuffered, 1, …): the lazy refill loop writes exactly the
    concatenation of the ranges, as the in-memory path does -/
theorem copyRanges_lazy_eq_eager (l : Layout) (h : l.OK) (rs : List (Nat × Nat)) (hr : RangesIn l rs) (workLen : Nat) :
    copyRanges l.lazy l.F workLen rs = some (rs.flatMap fun r => readAt l.F r.1 r.2) ∧
    copyRanges l.eager l.F workLen rs = some (rs.flatMap fun r => readAt l.F r.1 r.2) :=
  Mdat.copyRanges_lazy_eq_eager l h rs hr workLen

/-- **sample-interval copies** (ranges spanning chunk boundaries come from the sample tables, C09) -/
theorem copySampleData_lazy_eq_eager (l : Layout) (h : l.OK) (t : Stbl.Tables) (a b : Nat) (rs : List (Nat × Nat))
    (hrs : t.getRanges a b = some rs) (hr : RangesIn l rs) (workLen : Nat) :
    copySampleData t l.lazy l.F workLen a b = copySampleData t l.eager l.F 0 a b ∧
    copySampleData t l.lazy l.F workLen a b = some (rs.flatMap fun r => readAt l.F r.1 r.2) :=
  Mdat.copySampleData_lazy_eq_eager l h t a b rs hrs hr workLen

example : (⟨[1, 2, 3], [0, 0, 0, 11, 0x6d, 0x64, 0x61, 0x74], [7, 8, 9], [4]⟩ : Layout).OK := by
  simp [Layout.OK, Layout.hl]

/-- the Go functions the models of this property transcribe (committed table `spec/transcribed.json`, checked against
    the current source by the extractor on every run) all still exist -/
theorem model_sources_exist :
    (["Mdat.lean", "SampleTables.lean"] : List String).all Mp4ff.Expect.presentFor = true := by decide +kernel

end Mp4ff.Mdat.C08
