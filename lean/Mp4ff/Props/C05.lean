import Mp4ff.Model.Frag
import Mp4ff.Lemmas.C05
import Mp4ff.Expect.Transcribed
/-!
# C05 — samples written into fragments are read back exactly
Property theorems (proofs in `Mp4ff/Lemmas/C05.lean`) about the core every history goes through: what a sample run
and its tfhd carry through optimise → encode → decode → default resolution, the decode times and byte slices
`GetFullSamples` produces, and the data offsets `SetTrunDataOffsets` assigns.  The composition with the moof/mdat
box encoding (C01 layouts) and the container plumbing is tied by the history correspondence of `bin/check C05`.
-/
namespace Mp4ff.Frag.C05

/-- **without optimisation** a run created by the fragment builder is read back exactly, whatever tfhd/trex defaults are -/
theorem readBack_fresh (tfhd : Tfhd) (trex : Trex) (t : Trun) (h : t.Fresh) : readBack tfhd trex t = t.samples :=
  Frag.readBack_fresh tfhd trex t h

/-- **with trun optimisation** (common duration / size / flags with first-sample exception moved to tfhd, all-zero
    composition offsets dropped) the run still resolves to exactly the samples added: every sample list, every
    starting tfhd, every trex -/
theorem optimize_preserves (tfhd : Tfhd) (trex : Trex) (t : Trun) (h : t.Fresh) (tfhd' : Tfhd) (t' : Trun)
    (ho : optimize tfhd t = some (tfhd', t')) : readBack tfhd' trex t' = t.samples :=
  Frag.optimize_preserves tfhd trex t h tfhd' t' ho

/-- **optimisation is idempotent**: running `OptimizeTfhdTrun` again over an already optimised run and tfhd (the same
    fragment encoded a second time, by either encoder, or optimised by the caller before encoding) changes nothing —
    in particular `first_sample_flags` survives; holds for every run, fresh or not -/
theorem optimize_idem (tfhd : Tfhd) (t : Trun) (tfhd' : Tfhd) (t' : Trun)
    (ho : optimize tfhd t = some (tfhd', t')) : optimize tfhd' t' = some (tfhd', t') :=
  Frag.optimize_idem tfhd t tfhd' t' ho

/-- **optimised any number of times** a run created by the fragment builder still resolves to exactly the samples
    added: every output of a fragment that is encoded repeatedly reads back the same -/
theorem optimizeN_preserves (n : Nat) (tfhd : Tfhd) (trex : Trex) (t : Trun) (h : t.Fresh) (tfhd' : Tfhd) (t' : Trun)
    (ho : optimizeN n tfhd t = some (tfhd', t')) : readBack tfhd' trex t' = t.samples :=
  Frag.optimizeN_preserves n tfhd trex t h tfhd' t' ho

/-- optimisation never touches the stored samples and fails only on an empty run -/
theorem optimize_samples (tfhd : Tfhd) (t : Trun) :
    (t.samples = [] → optimize tfhd t = none) ∧
    (t.samples ≠ [] → ∃ tfhd' t', optimize tfhd t = some (tfhd', t') ∧ t'.samples = t.samples) :=
  Frag.optimize_samples tfhd t

/-- **decode times**: the k-th sample read back has the base decode time plus the durations before it -/
theorem decodeTimes_spec (base : Nat) (ss : List Sample) (k : Nat) (hk : k < ss.length) :
    (decodeTimes base ss)[k]? = some (base + ((ss.take k).map (·.dur)).sum) := Frag.decodeTimes_spec base ss k hk

/-- **bytes**: with the mdat payload being the runs' data in write order and the offsets of `SetTrunDataOffsets`,
    every run's samples are read back with exactly their own bytes (any number of runs, any interleaving order) -/
theorem dataOffsets_spec (moofSize mdatHdr : Nat) (runs : List (List (Sample × Bytes))) (hr : ∀ r ∈ runs, RunOK r)
    (k : Nat) (hk : k < runs.length) :
    let mdat := runs.flatMap runData
    let offs := dataOffsets moofSize mdatHdr (runs.map fun r => (runData r).length)
    sampleBytes mdat (offs.getD k 0 - (moofSize + mdatHdr)) ((runs.getD k []).map (·.1)) = (runs.getD k []).map (·.2) :=
  Frag.dataOffsets_spec moofSize mdatHdr runs hr k hk

example : ({ samples := [⟨0x2000000, 3000, 20, 0⟩, ⟨0x1010000, 3000, 20, 0⟩] } : Trun).Fresh := by simp [Trun.Fresh]

/-- the Go functions the models of this property transcribe (committed table `spec/transcribed.json`, checked against
    the current source by the extractor on every run) all still exist -/
theorem model_sources_exist :
    (["Frag.lean"] : List String).all Mp4ff.Expect.presentFor = true := by decide +kernel

end Mp4ff.Frag.C05
