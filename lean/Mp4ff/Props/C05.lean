import Mp4ff.Model.Frag
/-!
# C05 — samples written into fragments are read back exactly
(Property theorems are added from `Mp4ff/Lemmas/C05.lean` when completed.)
-/
namespace Mp4ff.Frag.C05

/-- first data offset = moof size + mdat header: the first run written starts right after the mdat header -/
theorem first_offset (moofSize mdatHdr sz : Nat) (rest : List Nat) :
    (dataOffsets moofSize mdatHdr (sz :: rest)).head? = some (moofSize + mdatHdr) := by
  simp [dataOffsets]

end Mp4ff.Frag.C05
