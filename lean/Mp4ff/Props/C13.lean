import Mp4ff.Lemmas.C13Seq
import Mp4ff.Expect.Transcribed
/-!
# C13 — bit, Exp-Golomb and emulation-prevention coding are exact inverses

Property theorems only (helper lemmas live in `Mp4ff/Lemmas`).  The model (`Mp4ff/Model/Bits.lean`)
is the statement-by-statement transcription of `bits/writer.go`, `bits/reader.go`,
`bits/ebspwriter.go`, `bits/ebspreader.go` and `FixedSliceWriter.WriteBits/FlushBits`; it is tied to
the code by the correspondence run (`bin/check C13`).
-/
namespace Mp4ff.Bits.C13

/-- **plain round trip**: any sequence of fields (width 1..56 — the property asks for 1..32 — values
that fit) written with `bits.Writer`/`FixedSliceWriter.WriteBits` and flushed is read back
identically by `bits.Reader`, and the reader's byte counter plus what is left equals the bytes written. -/
theorem plain_roundtrip (ops : List (Nat × Nat)) (h : FieldsOK ops) :
    let bytes := BW.writeFields ops
    let res := ({ rest := bytes } : BR).readAll (ops.map (·.1))
    res.2 = ops.map (·.2) ∧ res.1.err = false ∧ res.1.nread + res.1.rest.length = bytes.length := by
  intro bytes res
  have hw := BW.writeAll_spec ops {} BW.init_inv (fun kv hkv => (h kv hkv).2.1)
  have hf := BW.flush_spec _ hw.1
  have habs : ({ rest := bytes } : BR).abs = fieldBits ops ++ List.replicate ((8 - (({} : BW).writeAll ops).n) % 8) false := by
    show lowBits 0 0 ++ bitsOfBytes bytes = _
    simp only [lowBits, List.nil_append]
    show bitsOfBytes (({} : BW).writeAll ops).flush = _
    rw [hf.1, hw.2]
    simp [BW.abs, lowBits, bitsOfBytes]
  have hinv : ({ rest := bytes } : BR).Inv := ⟨by simp, by simp, hf.2, rfl⟩
  obtain ⟨a1, a2, _, a4⟩ := BR.readAll_spec ops _ _ h hinv habs
  exact ⟨a1, a2.2.2.2, by simpa using a4⟩

/-- **the escaping writer is the plain writer followed by byte-level escaping**: escape decisions
do not depend on where `Write` calls begin or end. -/
theorem ebsp_out_is_escaped_plain (ops : List (Nat × Nat)) :
    ((({} : EW).writeAll ops).out = esc 0 ((({} : BW).writeAll ops).out)) ∧
    ((({} : EW).writeAll ops).n = (({} : BW).writeAll ops).n) := by
  have := EW.writeAll_refines ops {} {} EWRel.init
  exact ⟨this.2.2.1, this.1⟩

/-- **never 00 00 00 / 00 00 01 / 00 00 02**, for every payload and every start state -/
theorem no_forbidden_triple (p : Bytes) (i : Nat) (hi : i + 2 < (esc 0 p).length) :
    ¬ ((esc 0 p)[i]! = 0 ∧ (esc 0 p)[i+1]! = 0 ∧ (esc 0 p)[i+2]! ≤ 2) :=
  noForbidden_window _ 0 (esc_noForbidden p 0 (by decide)) i hi

/-- the same for what the EBSP writer actually emitted after any field sequence -/
theorem writer_no_forbidden_triple (ops : List (Nat × Nat)) (i : Nat)
    (hi : i + 2 < (({} : EW).writeAll ops).out.length) :
    let out := (({} : EW).writeAll ops).out
    ¬ (out[i]! = 0 ∧ out[i+1]! = 0 ∧ out[i+2]! ≤ 2) := by
  intro out
  have h := (ebsp_out_is_escaped_plain ops).1
  show ¬ ((({} : EW).writeAll ops).out[i]! = 0 ∧ (({} : EW).writeAll ops).out[i+1]! = 0 ∧ (({} : EW).writeAll ops).out[i+2]! ≤ 2)
  rw [h] at hi ⊢
  exact no_forbidden_triple _ i hi

/-- **every 00 00 03 is an escape / the reader returns exactly the bytes written** -/
theorem unescape_escape (p : Bytes) : unesc 0 (esc 0 p) = p := unesc_esc p 0 (by decide)

/-- **escape bytes only where required**: a payload in which no two zero bytes are followed by a byte
≤ 3 is emitted unchanged, and in general exactly one byte is inserted per such position. -/
theorem escapes_only_where_required (p : Bytes) :
    (Clean 0 p → esc 0 p = p) ∧ (esc 0 p).length = p.length + escCount 0 p :=
  ⟨esc_clean p 0, esc_length p 0⟩

/-- **EBSP round trip**: any sequence of fixed-width fields, flags, ue(v) and se(v) values written
with the emulation-preventing writer and closed with rbsp trailing bits is read back identically by
the emulation-removing reader; no error; and the reader's byte counter counts bytes of the *escaped*
stream (bytes counted + bytes left = bytes emitted). -/
theorem ebsp_roundtrip (ops : List Op) (hok : ∀ op ∈ ops, op.OK) :
    let w := (ops.foldl EW.writeOp {}).writeRbspTrailingBits
    let res := ({ rest := w.out } : ER).readOps ops
    w.n = 0 ∧ res.2 = ops.map Op.value ∧ res.1.err = false ∧
      res.1.nread + res.1.rest.length = w.out.length := by
  intro w res
  have hfold := EW.foldl_writeOp ops hok {}
  have hrel0 := EW.writeAll_refines (allFields ops) {} {} EWRel.init
  have hrel := EW.trailing_refines _ _ hrel0
  have hbw := BW.writeAll_spec (allFields ops) {} BW.init_inv (allFields_ok ops hok)
  obtain ⟨t1, t2, m, t3⟩ := BW.trailing_spec _ hbw.1
  have hw : w = (({} : EW).writeAll (allFields ops)).writeRbspTrailingBits := by
    show (ops.foldl EW.writeOp {}).writeRbspTrailingBits = _
    rw [hfold]
  have hn : w.n = 0 := by rw [hw, hrel.1, t2]
  have hout : w.out = esc 0 ((({} : BW).writeAll (allFields ops)).trailing.out) := by rw [hw, hrel.2.2.1]
  let P := ((({} : BW).writeAll (allFields ops)).trailing.out)
  have hinv : ({ rest := w.out } : ER).Inv P := ⟨by simp, by simp, t1.2.2, rfl, by simp, hout⟩
  have habs : ({ rest := w.out } : ER).abs P = opsBits ops ++ (true :: List.replicate m false) := by
    show lowBits 0 0 ++ bitsOfBytes P = _
    have : (({} : BW).writeAll (allFields ops)).trailing.abs = bitsOfBytes P := by
      simp [BW.abs, t2, lowBits, P]
    simp only [lowBits, List.nil_append]
    rw [← this, t3, hbw.2, fieldBits_allFields]
    simp [BW.abs, lowBits, bitsOfBytes]
  obtain ⟨P', a1, a2, _, a4⟩ := ER.readOps_spec ops _ P _ hok hinv habs
  exact ⟨hn, a1, a2.2.2.2.1, by simpa using a4⟩

/-- **Exp-Golomb is exact**: ue(v) for every 32-bit `v`, se(v) for every 32-bit signed `x`
(single-value instances of the round trip, stated separately because the property names them). -/
theorem expGolomb_roundtrip (nr : Nat) (h : nr < 2 ^ 32) :
    let w := (({} : EW).writeExpGolomb nr).writeRbspTrailingBits
    (({ rest := w.out } : ER).readExpGolomb).2 = nr := by
  have := ebsp_roundtrip [Op.ue nr] (by intro op hop; simp at hop; subst hop; exact h)
  simp only [List.foldl_cons, List.foldl_nil, EW.writeOp, ER.readOps, ER.readOp, List.map_cons,
    List.map_nil, Op.value] at this
  have h2 := this.2.1
  simp only [List.cons.injEq, and_true] at h2
  exact_mod_cast h2

theorem signedGolomb_roundtrip (x : Int) (h : -(2 ^ 31 : Int) < x ∧ x < 2 ^ 31) :
    let w := (({} : EW).writeExpGolomb (seToUe x)).writeRbspTrailingBits
    (({ rest := w.out } : ER).readSignedGolomb).2 = x := by
  have := ebsp_roundtrip [Op.se x] (by intro op hop; simp at hop; subst hop; exact h)
  simp only [List.foldl_cons, List.foldl_nil, EW.writeOp, ER.readOps, ER.readOp, List.map_cons,
    List.map_nil, Op.value] at this
  have h2 := this.2.1
  simp only [List.cons.injEq, and_true] at h2
  exact h2

/-! non-vacuity: concrete non-trivial instances of the hypotheses and of the conclusions -/

example : FieldsOK [(3, 5), (32, 4294967295), (1, 0), (13, 0)] := by
  intro kv h; simp at h; rcases h with h | h | h | h <;> subst h <;> decide

example : ∀ op ∈ [Op.fld 8 0, Op.fld 8 0, Op.fld 8 1, Op.ue 70000, Op.se (-3), Op.flag true], op.OK := by
  simp [Op.OK]

example : esc 0 [0, 0, 0, 0, 1, 0, 0, 3] = [0, 0, 3, 0, 0, 3, 1, 0, 0, 3, 3] := by decide

/-- the Go functions the models of this property transcribe (committed table `spec/transcribed.json`, checked against
    the current source by the extractor on every run) all still exist -/
theorem model_sources_exist :
    (["Bits.lean"] : List String).all Mp4ff.Expect.presentFor = true := by decide +kernel

end Mp4ff.Bits.C13
