import Mp4ff.Model.Nalu
/-!
# C14 — NAL unit framing conversions preserve the NAL unit sequence
Property theorems.  (Scanner equivalence, conversion and walker theorems are added from
`Mp4ff/Lemmas/C14*.lean` as they are completed.)
-/
namespace Mp4ff.Nalu.C14

/-- soundness of one probe of the word scanner: whatever it reports is a 00 00 01 in the stream -/
theorem probe_sound (s : Bytes) (j : Nat) (hj : j ≥ 1) (sc : SC) (h : probe s j = some sc) :
    sc.pos ≥ 3 ∧ isSC s (sc.pos - 3) = true := by
  unfold probe at h
  split at h
  · rename_i h0
    split at h
    · rename_i h1
      simp at h; subst h
      refine ⟨by simp; omega, ?_⟩
      have : j + 2 - 3 = j - 1 := by omega
      simp only [this, isSC]
      have e1 : j - 1 + 1 = j := by omega
      have e2 : j - 1 + 2 = j + 1 := by omega
      rw [e1, e2]
      simp
      exact ⟨⟨h1.1, h0⟩, h1.2⟩
    · split at h
      · rename_i h2
        simp at h; subst h
        refine ⟨by simp, ?_⟩
        simp [isSC]
        exact ⟨⟨h0, h2.1⟩, h2.2⟩
      · simp at h
  · simp at h

example : probe [0x65, 0, 0, 1, 0x41] 1 = some ⟨3, 4⟩ := by decide

end Mp4ff.Nalu.C14
