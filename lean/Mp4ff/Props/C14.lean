import Mp4ff.Model.Nalu
import Mp4ff.Lemmas.ScanEq
import Mp4ff.Lemmas.C14Conv
import Mp4ff.Lemmas.C14Conv2
import Mp4ff.Expect.Transcribed
/-!
# C14 — NAL unit framing conversions preserve the NAL unit sequence
Property theorems.  (Scanner equivalence, conversion and walker theorems are added from
`Mp4ff/Lemmas/C14*.lean` as they are completed.)
-/
namespace Mp4ff.Nalu.C14

/-- soundness of one probe of the word scanner: whatever it reports is a 00 00 01 in the stream -/
theorem probe_sound (s : Bytes) (j : Nat) (hj : j ≥ 1) (sc : SC) (h : probe s j = some sc) :
    sc.pos ≥ 3 ∧ isSC s (sc.pos - 3) = true := by
  unfold probe at h
  split at h
  · rename_i h0
    split at h
    · rename_i h1
      simp at h; subst h
      refine ⟨by simp; omega, ?_⟩
      have : j + 2 - 3 = j - 1 := by omega
      simp only [this, isSC]
      have e1 : j - 1 + 1 = j := by omega
      have e2 : j - 1 + 2 = j + 1 := by omega
      rw [e1, e2]
      simp
      exact ⟨⟨h1.1, h0⟩, h1.2⟩
    · split at h
      · rename_i h2
        simp at h; subst h
        refine ⟨by simp, ?_⟩
        simp [isSC]
        exact ⟨⟨h0, h2.1⟩, h2.2⟩
      · simp at h
  · simp at h

/-- **the word trick never misses a zero byte** (the only direction the scanner relies on) -/
theorem hasZeroByte_complete (s : Bytes) (hs : IsBytes s) (i k : Nat) (hk : k < 8)
    (hz : byteAt s (i + k) = 0) : hasZeroByte (word s i) = true :=
  hasZeroByte_word s hs i k hk hz

/-- **the word-at-a-time start-code scanner finds the same start codes as a byte-by-byte scan**,
    for every byte string: all lengths, hence every alignment of a start code relative to the machine
    words, the word/tail boundary included. -/
theorem scanWord_eq_scanByte (s : Bytes) (hs : IsBytes s) : scanWord s = scanByte s :=
  scanWord_eq s hs

/-- **Annex B → NAL units**: for every well-formed stream (3- and 4-byte start codes in any mix, units
    emulation-free and not ending in 00) the byte scanner finds exactly the start codes laid down … -/
theorem scanByte_annexB (units : List (Nat × Bytes)) (h : UnitsOK units) :
    scanByte (annexB units) = expectedSCs 0 units := Nalu.scanByte_annexB units h

/-- … hence so does the word-at-a-time scanner used by the conversion -/
theorem scanWord_annexB (units : List (Nat × Bytes)) (h : UnitsOK units) (hb : IsBytes (annexB units)) :
    scanWord (annexB units) = expectedSCs 0 units := by
  rw [scanWord_eq_scanByte _ hb]; exact Nalu.scanByte_annexB units h

/-- … and `ExtractNalusFromByteStream` yields exactly the NAL units between the start codes -/
theorem extractNalus_annexB (units : List (Nat × Bytes)) (h : UnitsOK units) :
    extractNalus (annexB units) = units.map (·.2) := Nalu.extractNalus_annexB units h

/-- **length-prefixed → units** (`GetNalusFromSample`) -/
theorem nalusFromSample_lenPrefixed (ns : List Bytes) (h : NalusOK ns) (hne : ns ≠ []) :
    nalusFromSample (lenPrefixed ns) = some ns := Nalu.nalusFromSample_lenPrefixed ns h hne

/-- **length-prefixed → Annex B** (`ConvertSampleToByteStream`): same units behind 4-byte start codes -/
theorem toByteStream_lenPrefixed (ns : List Bytes) (h : NalusOK ns) :
    toByteStream ((lenPrefixed ns).length + 1) (lenPrefixed ns) 0 = annexB (ns.map fun n => (4, n)) :=
  Nalu.toByteStream_lenPrefixed ns h

/-- **walkers agree with the unit sequence**, for AVC and HEVC (`c` = codec): list types … -/
theorem naluTypes_lenPrefixed (c : Codec) (ns : List Bytes) (h : NalusOK ns) :
    naluTypes c false (lenPrefixed ns) = ns.map (fun n => c.typeOf (n.headD 0)) :=
  Nalu.naluTypes_lenPrefixed c ns h

/-- … list types up to the first video unit … -/
theorem naluTypesUpTo_lenPrefixed (c : Codec) (ns : List Bytes) (h : NalusOK ns) :
    naluTypes c true (lenPrefixed ns) = typesUpTo c ns := Nalu.naluTypesUpTo_lenPrefixed c ns h

/-- … contains type (hence avc `IsIDRSample`) … -/
theorem containsType_lenPrefixed (c : Codec) (ns : List Bytes) (h : NalusOK ns) (t : Nat) :
    containsType c (lenPrefixed ns) t = (ns.map (fun n => c.typeOf (n.headD 0))).contains t :=
  Nalu.containsType_lenPrefixed c ns h t

/-- … parameter sets before the first video unit … -/
theorem paramSets_lenPrefixed (c : Codec) (isPS : Nat → Bool) (ns : List Bytes) (h : NalusOK ns) :
    paramSets c isPS (lenPrefixed ns) = psSpec c isPS ns := Nalu.paramSets_lenPrefixed c isPS ns h

/-- … `HasParameterSets`, hevc `IsRAPSample`/`IsIDRSample` are functions of those type lists -/
theorem hasParamSets_lenPrefixed (c : Codec) (need : List Nat) (ns : List Bytes) (h : NalusOK ns) :
    hasParamSets c need (lenPrefixed ns) = need.all fun t => (typesUpTo c ns).contains t := by
  unfold hasParamSets; rw [Nalu.naluTypesUpTo_lenPrefixed c ns h]

theorem anyTypeIn_lenPrefixed (c : Codec) (lo hi : Nat) (ns : List Bytes) (h : NalusOK ns) :
    anyTypeIn c lo hi (lenPrefixed ns) =
      (ns.map (fun n => c.typeOf (n.headD 0))).any fun t => lo ≤ t ∧ t ≤ hi := by
  unfold anyTypeIn; rw [Nalu.naluTypes_lenPrefixed c ns h]

/-- **Annex B → length-prefixed** (`ConvertByteStreamToNaluSample`), any mix of 3/4-byte start codes: both
    the in-place branch (all start codes 4 bytes) and the copying branch give the 4-byte length-prefixed units -/
theorem toSample_annexB (units : List (Nat × Bytes)) (h : UnitsOK units) (hb : UnitsBytes units)
    (hlen : (annexB units).length < U32) :
    toSample (annexB units) = lenPrefixed (units.map (·.2)) := Nalu.toSample_annexB units h hb hlen

/-- `GetParameterSetsFromByteStream` (AVC): the SPS/PPS units before the first video unit -/
theorem paramSetsFromByteStream_avc (units : List (Nat × Bytes)) (h : UnitsOK units) :
    paramSetsFromByteStream avc avcIsPS (annexB units) = psSpecU avc avcIsPS units :=
  Nalu.paramSetsFromByteStream_annexB_avc units h

/-- `GetParameterSetsFromByteStream` (HEVC): the VPS/SPS/PPS units before the first video unit -/
theorem paramSetsFromByteStream_hevc (units : List (Nat × Bytes)) (h : UnitsOK units) :
    paramSetsFromByteStream hevc hevcIsPS (annexB units) = psSpecU hevc hevcIsPS units :=
  Nalu.paramSetsFromByteStream_annexB_hevc units h

/-- `ExtractNalusOfTypeFromByteStream` (both codecs): the units of the wanted type, before the first video unit if asked -/
theorem extractOfType_annexB (c : Codec) (t : Nat) (stop : Bool) (units : List (Nat × Bytes)) (h : UnitsOK units) :
    extractOfType c (annexB units) t stop = ofTypeSpec c t stop (units.map (·.2)) :=
  Nalu.extractOfType_annexB c t stop units h

/-- `GetFirstAVCVideoNALUFromByteStream`: the first video unit -/
theorem firstVideoNalu_annexB (c : Codec) (units : List (Nat × Bytes)) (h : UnitsOK units) :
    firstVideoNalu c (annexB units) = (units.map (·.2)).find? (fun n => c.isVideo (c.typeOf (n.headD 0))) :=
  Nalu.firstVideoNalu_annexB c units h

/-! non-vacuity -/
example : UnitsOK [(4, [0x67, 1, 2]), (3, [0x68, 0, 0x80]), (4, [0x65])] := by
  intro u hu; simp at hu
  rcases hu with h | h | h <;> subst h <;>
    simp [WFNalu, IsBytes, EmulationFree]

example : probe [0x65, 0, 0, 1, 0x41] 1 = some ⟨3, 4⟩ := by decide

/-- the Go functions the models of this property transcribe (committed table `spec/transcribed.json`, checked against
    the current source by the extractor on every run) all still exist -/
theorem model_sources_exist :
    (["Nalu.lean"] : List String).all Mp4ff.Expect.presentFor = true := by decide +kernel

end Mp4ff.Nalu.C14
