import Mp4ff.Model.Segmenter
import Mp4ff.Lemmas.C11
import Mp4ff.Model.Combine
import Mp4ff.Lemmas.C05
import Mp4ff.Expect.Transcribed
/-!
# C11 — segmenting, resegmenting and multiplexing conserve every sample
Property theorems about `Model/Segmenter.lean`: the three grouping algorithms (segmenter intervals, resegmenter loop,
`MediaSegment.Fragmentify`) split the sample sequence into consecutive groups whose concatenation is the input, with
nothing dropped at the end, and start their groups at sync samples.  Proofs in `Mp4ff/Lemmas/C11.lean`.
The model is tied to the code by the `seg.*` correspondence ops and by the direct oracle that expands every output of
the built tools back into per-track sample lists.
-/
namespace Mp4ff.Segmenter.C11
open Mp4ff.Segmenter Mp4ff.Stbl

/-- **resegmenting conserves the sample sequence** for every input, every chunk duration, every start time -/
theorem resegment_conserves (chunkDur t0 : Nat) (samples : List Sample) :
    (resegment chunkDur t0 samples).flatten = samples := Segmenter.resegment_conserves chunkDur t0 samples

/-- **every segment after the first starts with a sync sample** (the first one starts where the input starts) -/
theorem resegment_starts_sync (chunkDur t0 : Nat) (samples : List Sample) :
    ∀ g ∈ (resegment chunkDur t0 samples).tail, ∃ s rest, g = s :: rest ∧ s.sync = true :=
  Segmenter.resegment_starts_sync chunkDur t0 samples

/-- **no empty segment is written** when there is at least one sample (the first segment starts with the first
    sample, whatever its presentation time) -/
theorem resegment_nonempty (chunkDur t0 : Nat) (samples : List Sample) (h : samples ≠ []) :
    ∀ g ∈ resegment chunkDur t0 samples, g ≠ [] := Segmenter.resegment_nonempty chunkDur t0 samples h

/-- **Fragmentify conserves the sample sequence** and produces no empty fragment -/
theorem fragmentify_conserves (duration : Nat) (frags : List (List Sample)) :
    (fragmentify duration frags).flatten = frags.flatten ∧ ∀ g ∈ fragmentify duration frags, g ≠ [] :=
  Segmenter.fragmentify_conserves duration frags

/-- every fragment but the last reaches the requested duration with its last sample — or is a lone zero-duration
    sample (the `cumDur == 0` test cannot tell "nothing accumulated" from "zero accumulated"; the full statement
    without that alternative is false, counterexample below) -/
theorem fragmentify_durations_partial (duration : Nat) (hd : 0 < duration) (frags : List (List Sample))
    (hs : ((frags.flatten).map (·.dur)).sum < U32) :
    ∀ g ∈ (fragmentify duration frags).dropLast,
      (duration ≤ (g.map (·.dur)).sum ∧ ((g.dropLast).map (·.dur)).sum < duration) ∨
      ∃ s, g = [s] ∧ s.dur = 0 := Segmenter.fragmentify_durations_partial duration hd frags hs

/-- with positive sample durations every fragment but the last is exactly complete -/
theorem fragmentify_durations_pos (duration : Nat) (hd : 0 < duration) (frags : List (List Sample))
    (hs : ((frags.flatten).map (·.dur)).sum < U32) (hp : ∀ s ∈ frags.flatten, 0 < s.dur) :
    ∀ g ∈ (fragmentify duration frags).dropLast,
      duration ≤ (g.map (·.dur)).sum ∧ ((g.dropLast).map (·.dur)).sum < duration :=
  Segmenter.fragmentify_durations_pos duration hd frags hs hp

example : ∃ g ∈ (fragmentify 10 [[⟨0,0,true,1⟩, ⟨5,0,true,2⟩, ⟨5,0,true,3⟩]]).dropLast,
    ¬ (10 ≤ (g.map (·.dur)).sum) := by decide

/-- **the segmenter's intervals partition 1..total in order — nothing dropped at the end** — whenever the cut
    points are ascending sample numbers in 1..total+1 (which `nrAt_mono` / `nrAt_of_start` provide for real tables) -/
theorem intervals_partition (total : Nat) (nrAt : Nat → Option Nat) (conv : Nat → Nat) (pts : List SyncPoint)
    (hne : pts ≠ []) (cuts : List Nat) (hc : cutPoints nrAt conv pts = cuts.map some)
    (hsorted : cuts.Pairwise (· ≤ ·)) (hrange : ∀ n ∈ cuts, 1 ≤ n ∧ n ≤ total + 1) (htot : total + 1 < U32) :
    ∃ ivs, intervals total nrAt conv pts = some ivs ∧ ivs.length = pts.length ∧
      ivs.flatMap span = List.range' 1 total ∧
      ivs.map (·.1) = 1 :: cuts :=
  Segmenter.intervals_partition total nrAt conv pts hne cuts hc hsorted hrange htot

/-- `GetSampleNrAtTime` is monotone in the time: the cut points of any track are ascending -/
theorem nrAt_mono (b : Stts) (h : b.OK) (hpos : ∀ d ∈ b.delta, 0 < d) (hc : ∀ c ∈ b.count, 0 < c)
    (hN : b.durations.length + 1 < U32) (t1 t2 : Nat) (h12 : t1 ≤ t2) (ht : t2 < b.durations.sum) :
    ∃ k1 k2, b.getSampleNrAtTime t1 = some k1 ∧ b.getSampleNrAtTime t2 = some k2 ∧ k1 ≤ k2 ∧ 1 ≤ k1 ∧
      k2 ≤ b.durations.length + 1 := Segmenter.nrAt_mono b h hpos hc hN t1 t2 h12 ht

/-- **every segment of the reference track starts at its sync point**: asking for the sample at the decode time of
    sample `n` gives `n` -/
theorem nrAt_of_start (b : Stts) (h : b.OK) (hpos : ∀ d ∈ b.delta, 0 < d) (hc : ∀ c ∈ b.count, 0 < c)
    (hN : b.durations.length + 1 < U32) (n : Nat) (h1 : 1 ≤ n) (hn : n ≤ b.durations.length) :
    b.getSampleNrAtTime (startTime b.durations n) = some n := Segmenter.nrAt_of_start b h hpos hc hN n h1 hn

/-- non-vacuity: three sync points over 10 samples -/
example : intervals 10 (fun t => some (t / 10 + 1)) id [⟨1, 0, 0⟩, ⟨4, 30, 30⟩, ⟨8, 70, 70⟩] = some [(1, 3), (4, 7), (8, 10)] := by
  decide

/-- **combining single-track segments conserves every track's samples**: per output track a reader gets exactly the
    samples the input fragment expands to with the trex of its own init segment — for any number of inputs, any input
    run (optimised or not, values in the run, in tfhd or in trex) and whatever defaults the combined init carries -/
theorem combine_conserves (inputs : List Frag.CombineInput) (outTfhd : Frag.Tfhd) (outTrex : Frag.Trex) :
    Frag.combine inputs outTfhd outTrex = inputs.map fun i => Frag.readBack i.tfhd i.trex i.run := by
  unfold Frag.combine
  apply List.map_congr_left
  intro i _
  exact Frag.readBack_fresh outTfhd outTrex _ ⟨rfl, rfl, rfl, rfl, rfl⟩

/-- … which is false for the tool as it was (inputs expanded without their trex): a run whose durations come from the
    trex default comes out with duration 0 (repaired in /repo, known finding C11-combine-trex-defaults) -/
theorem combineNoTrex_loses :
    Frag.combineNoTrex [⟨{}, { defDur := 20 }, { hasDur := false, samples := [⟨0, 20, 5, 0⟩] }⟩] {} {} = [[⟨0, 0, 5, 0⟩]] ∧
    Frag.combine [⟨{}, { defDur := 20 }, { hasDur := false, samples := [⟨0, 20, 5, 0⟩] }⟩] {} {} = [[⟨0, 20, 5, 0⟩]] := by
  decide

/-! ### where the samples of an input fragment are (the sample source of Fragmentify / resegmenter / combine-segs) -/

/-- **an explicit base_data_offset takes precedence** over default-base-is-moof and over the position of the traf
    (ISO/IEC 14496-12 8.8.7.1) -/
theorem base_explicit_wins (b : Nat) (dbm : Bool) (moofStart prevTrafEnd : Nat) (firstTraf : Bool) :
    (Frag.TfhdBase.mk (some b) dbm).base moofStart prevTrafEnd firstTraf = b := rfl

/-- without base_data_offset: the moof start for default-base-is-moof and for the first traf of a moof -/
theorem base_default (dbm firstTraf : Bool) (moofStart prevTrafEnd : Nat) (h : dbm = true ∨ firstTraf = true) :
    (Frag.TfhdBase.mk none dbm).base moofStart prevTrafEnd firstTraf = moofStart := by
  rcases h with h | h <;> simp [Frag.TfhdBase.base, h]

/-- the same from any previous-run end (induction form of `positions_written_are_read`) -/
theorem runStarts_describe (base : Int) (prevEnd : Int) (l : List (Int × Bool × List Nat)) :
    ((Frag.runStarts base prevEnd (Frag.describeRuns base prevEnd l)).zip (Frag.describeRuns base prevEnd l)).flatMap
        (fun pr => Frag.offsetsFrom pr.1 pr.2.sizes) =
      l.flatMap fun x => Frag.offsetsFrom x.1 x.2.2 := by
  induction l generalizing prevEnd with
  | nil => simp [Frag.describeRuns, Frag.runStarts]
  | cons x rest ih =>
    obtain ⟨p, om, sizes⟩ := x
    simp only [Frag.describeRuns, Frag.runStarts]
    by_cases hc : om = true ∧ p = prevEnd
    · simp only [hc, and_self, if_true, List.zip_cons_cons, List.flatMap_cons]
      rw [← hc.2, ih]
    · simp only [hc, if_false, List.zip_cons_cons, List.flatMap_cons]
      have : base + (p - base) = p := by omega
      rw [this, ih]

/-- **the reader's rule finds every sample where the writer put it**: whatever base the tfhd designates (explicit
    base_data_offset — before, inside or behind the data, so that run offsets may be negative —, moof start), however
    the runs' data blocks are ordered and spaced in the mdat, and whichever runs that directly follow their predecessor
    (the first run: that start at the base) are written without data_offset, the positions resolved by 8.8.7.1 / 8.8.8.1
    are those of the sample data -/
theorem positions_written_are_read (h : Frag.TfhdBase) (moofStart : Nat) (l : List (Int × Bool × List Nat)) :
    let base : Int := (h.base moofStart moofStart true : Nat)
    Frag.samplePositions h moofStart (Frag.describeRuns base base l) = l.flatMap fun x => Frag.offsetsFrom x.1 x.2.2 := by
  intro base
  exact runStarts_describe base base l

/-- non-vacuity: both flags set, base 100 ≠ moof start 40; runs at 130 (offset 30), 136 (following, no offset), 120 -/
example : Frag.samplePositions ⟨some 100, true⟩ 40 [⟨some 30, [2, 4]⟩, ⟨none, [3]⟩, ⟨some 20, [5, 5]⟩] =
    [130, 132, 136, 120, 125] := by decide
/-- the Go functions the models of this property transcribe (committed table `spec/transcribed.json`, checked against
    the current source by the extractor on every run) all still exist -/
theorem model_sources_exist :
    (["Combine.lean", "Frag.lean", "SampleTables.lean", "Segmenter.lean"] : List String).all Mp4ff.Expect.presentFor = true := by decide +kernel

end Mp4ff.Segmenter.C11
