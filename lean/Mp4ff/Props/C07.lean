import Mp4ff.Model.Cenc
import Mp4ff.Expect.Facts
/-!
# C07 — encrypted output is well-formed Common Encryption and matches a reference cipher
(Property theorems are added from `Mp4ff/Lemmas/Cenc*.lean` when completed.)
-/
namespace Mp4ff.Cenc.C07

/-- the two constants the range computation depends on are the ones in mp4/crypto.go today -/
theorem source_constants : Generated.const_minClearSize = minClearSize ∧ Generated.const_naluHdrLen = naluHdrLen := by
  exact ⟨Expect.consts.1, Expect.consts.2.1⟩

end Mp4ff.Cenc.C07
