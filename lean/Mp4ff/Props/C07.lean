import Mp4ff.Model.Cenc
import Mp4ff.Expect.Facts
import Mp4ff.Lemmas.C07
import Mp4ff.Lemmas.CencCbcs
import Mp4ff.Props.C06b
import Mp4ff.Expect.Transcribed
/-!
# C07 — encrypted output is well-formed Common Encryption and matches a reference cipher
Property theorems (proofs in `Mp4ff/Lemmas/C07.lean`, `CencRanges.lean`, `CencCipher.lean`).
saiz / saio / senc consistency of `EncryptFragment`'s output (`encrypted_wellformed`, `aux_boxes`, `senc_size_loop`) is in `Props/C06b.lean`.
-/
namespace Mp4ff.Cenc.C07
open Mp4ff.Nalu

/-- the two constants the range computation depends on are the ones in mp4/crypto.go today -/
theorem source_constants : Generated.const_minClearSize = minClearSize ∧ Generated.const_naluHdrLen = naluHdrLen :=
  ⟨Expect.consts.1, Expect.consts.2.1⟩

/-- **sub-sample entries partition the sample and protect exactly what the standard asks**, for every well-formed
    AVC or HEVC sample: NAL length fields, NAL headers, non-video units and the head of each long video unit clear;
    the tail of every video unit of ≥ 108 bytes protected to its end in whole 16-byte blocks; no clear count > 65535 -/
theorem protectRanges_cenc (c : Codec) (ns : List Bytes) (h : NalusOK ns) (hne : ns ≠ []) :
    ∃ rs, protectRanges c none (lenPrefixed ns) = some rs ∧ maskOf rs = cencMask c ns ∧
      (∀ r ∈ rs, r.clear ≤ 65535 ∧ r.prot % 16 = 0) := Cenc.protectRanges_cenc c ns h hne

/-- per unit: protected bytes are a multiple of 16 and end at the unit's end; a video unit longer than 127 bytes is
    protected starting at most 127 bytes in; non-video units are never protected -/
theorem cencProt_shape (c : Codec) (n : Bytes) :
    cencProt c n % 16 = 0 ∧ cencProt c n ≤ n.length ∧
    (c.isVideo (c.typeOf (n.headD 0)) = true → n.length > 127 → n.length - cencProt c n ≤ 127 ∧ 0 < cencProt c n) ∧
    (c.isVideo (c.typeOf (n.headD 0)) = false → cencProt c n = 0) := Cenc.cencProt_shape c n

/-- **cbcs: slice headers stay clear, every video NAL unit is protected from the end of its slice header to its end**,
    for every well-formed AVC or HEVC sample and every slice header size function `hdr` (bytes of the unit occupied by
    NAL header and slice header: the slice header parser's answer, Model/AvcSlice.lean / C15) that answers inside the
    unit: the sub-sample entries partition the sample with exactly the standard's mask — length field and `hdr n` bytes
    of a video unit clear, the rest of the unit protected, every other unit clear — and no clear count > 65535 -/
theorem protectRanges_cbcs (c : Codec) (hdr : Bytes → Option Nat) (ns : List Bytes) (h : NalusOK ns) (hne : ns ≠ [])
    (hh : ∀ n ∈ ns, c.isVideo (c.typeOf (n.headD 0)) = true → ∃ k, hdr n = some k ∧ k ≤ n.length) :
    ∃ rs, protectRanges c (some hdr) (lenPrefixed ns) = some rs ∧ maskOf rs = cbcsMask c hdr ns ∧
      (∀ r ∈ rs, r.clear ≤ 65535) := Cenc.protectRanges_cbcs' c hdr ns h hne hh

/-- an IDR slice whose header occupies 3 bytes, after an access unit delimiter: 4 + 2 + 4 + 3 bytes clear, 4 protected -/
example : cbcsMask avc (fun _ => some 3) [[0x09, 0x10], [0x65, 1, 2, 3, 4, 5, 6]]
    = List.replicate 13 false ++ List.replicate 4 true := by decide
#guard protectRanges avc (some fun _ => some 3) (lenPrefixed [[0x09, 0x10], [0x65, 1, 2, 3, 4, 5, 6]]) == some [⟨13, 4⟩]

/-- `AppendProtectRange` splits clear runs above 65535 bytes without changing what is protected -/
theorem appendProtectRange_spec (l : List SubSample) (c p : Nat) :
    ∃ ext, appendProtectRange l c p = l ++ ext ∧ (ext.map (·.clear)).sum = c ∧ (ext.map (·.prot)).sum = p ∧
      (∀ r ∈ ext, r.clear ≤ 65535) ∧ maskOf ext = List.replicate c false ++ List.replicate p true :=
  Cenc.appendProtectRange_spec l c p

/-- **per-sample IVs advance by the number of cipher blocks used** (big-endian addition modulo 2^(8·len)), so the
    counter intervals of consecutive samples are adjacent and never overlap inside a fragment -/
theorem incrementIV_spec (iv : Bytes) (hiv : IsBytes iv) (ranges : List SubSample) (len : Nat) :
    (incrementIV iv ranges len).length = iv.length ∧
    beVal (incrementIV iv ranges len) = (beVal iv + nrEncBlocks ranges len) % 256 ^ iv.length :=
  Cenc.incrementIV_spec iv hiv ranges len

/-- **everything outside the protected ranges is byte-identical to the clear input**, and the length is unchanged -/
theorem cryptCenc_clear_unchanged (E : Block → Block) (hE : ∀ b, (E b).length = 16)
    (sample iv : Bytes) (ranges : List SubSample) (hne : ranges ≠ []) (hf : RangesFit ranges sample.length)
    (i : Nat) (hi : i < sample.length) (hm : (maskOf ranges).getD i false = false) :
    (cryptCenc E sample iv ranges)[i]? = sample[i]? ∧ (cryptCenc E sample iv ranges).length = sample.length :=
  Cenc.cryptCenc_clear_unchanged E hE sample iv ranges hne hf i hi hm

example : NalusOK [[0x65, 1, 2, 3], [0x06, 9]] := by
  refine ⟨?_, by decide⟩
  intro n hn; simp at hn; rcases hn with h | h <;> subst h <;> simp [IsBytes]

/-- the Go functions the models of this property transcribe (committed table `spec/transcribed.json`, checked against
    the current source by the extractor on every run) all still exist -/
theorem model_sources_exist :
    (["Aac.lean", "Bits.lean", "Boxes.lean", "Cenc.lean", "Nalu.lean", "Protect.lean"] : List String).all Mp4ff.Expect.presentFor = true := by decide +kernel

end Mp4ff.Cenc.C07
