import Mp4ff.Model.Aac
/-!
# C18 — audio configuration codecs are exact over their whole domain
-/
namespace Mp4ff.Aac.C18

/-- the 13 table frequencies are pairwise distinct and have distinct indices (so the two Go maps
    `FrequencyTable` / `ReverseFrequencies` can be mutually inverse at all) -/
theorem freqTable_nodup : (freqTable.map (·.1)).Nodup ∧ (freqTable.map (·.2)).Nodup := by decide

end Mp4ff.Aac.C18
