import Mp4ff.Model.Aac
import Mp4ff.Lemmas.C18Proofs
import Mp4ff.Props.C18b
import Mp4ff.Expect.Transcribed
/-!
# C18 — audio configuration codecs are exact over their whole domain
Property theorems (proofs in `Mp4ff/Lemmas/C18Proofs.lean`).  The esds / MPEG-4 descriptor framing and the
clause "an AAC sample entry built from a configuration decodes back to that configuration" are in `Props/C18b.lean`.
-/
namespace Mp4ff.Aac.C18

/-- the 13 table frequencies are pairwise distinct and have distinct indices -/
theorem freqTable_nodup : (freqTable.map (·.1)).Nodup ∧ (freqTable.map (·.2)).Nodup := by decide

/-- `FrequencyTable` and `ReverseFrequencies` are mutually inverse -/
theorem freq_tables_inverse : ∀ p ∈ freqTable, indexOfFreq p.2 = some p.1 ∧ freqOfIndex p.1 = some p.2 :=
  Aac.freq_tables_inverse

/-- **AudioSpecificConfig**: every configuration the library supports — object types 2/5/29, all 16 channel
    configurations, every sampling/extension frequency below 2^24 whether in the table or explicit — survives
    encode → decode (a theorem over the whole domain, not an enumeration) -/
theorem asc_roundtrip (a : ASC) (h : AscDom a) : ∃ bs, encodeASC a = some bs ∧ decodeASC bs = .ok a :=
  Aac.asc_roundtrip a h

/-- **ADTS**: every header (object types 1..4, all 16 frequency indices, channel configs 0..7, payload lengths
    0..8184, any buffer fullness) survives encode → decode, with up to 187 junk bytes in front (free of false
    sync patterns) and anything behind, and the decoder reports the offset of the sync word -/
theorem adts_roundtrip (a : ADTS) (h : AdtsDom a) (junk tail : Bytes) (hj : IsBytes junk) (ht : IsBytes tail)
    (hl : junk.length ≤ 187) (hns : NoFalseSync junk) :
    decodeADTS (junk ++ encodeADTS a ++ tail) = .ok (a, (junk.length : Int)) :=
  Aac.adts_roundtrip a h junk tail hj ht hl hns

/-- **the search window is the first 188 bytes**: behind 188 junk bytes that contain no 0xff the decoder reports that
    there is no sync word, whatever follows (also a well-formed header): the bound 187 of `adts_roundtrip` is tight -/
theorem adts_window_tight (junk rest : Bytes) (hl : junk.length = 188) (hb : ∀ b ∈ junk, b < 255) :
    decodeADTS (junk ++ rest) = .error .noSync :=
  Aac.adts_beyond_window junk rest hl hb

/-! non-vacuity -/
example : AscDom ⟨29, 1, 22050, 44100, true, true⟩ := by simp [AscDom]
example : AscDom ⟨2, 15, 12345, 0, false, false⟩ := by simp [AscDom]
example : AdtsDom ⟨0, 2, 3, 2, 7, 8184, 0x7ff⟩ := by simp [AdtsDom]
example : NoFalseSync [0x47, 0xff, 0xff, 0xfe, 0x00, 0xff] := by simp [NoFalseSync]

/-- the Go functions the models of this property transcribe (committed table `spec/transcribed.json`, checked against
    the current source by the extractor on every run) all still exist -/
theorem model_sources_exist :
    (["Aac.lean", "Bits.lean", "Boxes.lean", "Esds.lean"] : List String).all Mp4ff.Expect.presentFor = true := by decide +kernel

end Mp4ff.Aac.C18
