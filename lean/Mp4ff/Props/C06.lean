import Mp4ff.Model.Cenc
import Mp4ff.Lemmas.C07
import Mp4ff.Props.C06b
import Mp4ff.Expect.Transcribed
/-!
# C06 — decrypting what was encrypted restores the content
Property theorems (proofs in `Mp4ff/Lemmas/C07.lean`, `CencCipher.lean`), over an abstract block cipher.
The box bookkeeping of encryption and decryption (structure, sizes, data offsets, sample entry) is in `Props/C06b.lean`.
-/
namespace Mp4ff.Cenc.C06

/-- **cenc**: AES-CTR over the same sub-sample map and IV is its own inverse, for every sample, every map that fits,
    every IV, every block function -/
theorem cryptCenc_involutive (E : Block → Block) (hE : ∀ b, (E b).length = 16 ∧ IsBytes (E b))
    (sample iv : Bytes) (hs : IsBytes sample) (ranges : List SubSample) (hf : RangesFit ranges sample.length) :
    cryptCenc E (cryptCenc E sample iv ranges) iv ranges = sample :=
  Cenc.cryptCenc_involutive E hE sample iv hs ranges hf

/-- CBC decryption inverts CBC encryption when `D` inverts `E` -/
theorem cbcDec_cbcEnc (E D : Block → Block) (hED : ∀ b, b.length = 16 → IsBytes b → D (E b) = b)
    (hE : ∀ b, (E b).length = 16 ∧ IsBytes (E b))
    (chain data : Bytes) (hc : chain.length = 16) (hcb : IsBytes chain) (hd : IsBytes data) (hl : data.length % 16 = 0) :
    (cbcDec D chain (cbcEnc E chain data).1).1 = data := Cenc.cbcDec_cbcEnc E D hED hE chain data hc hcb hd hl

/-- **cbcs**: the pattern cipher's decrypt ∘ encrypt is the identity for every crypt/skip pattern in whole blocks
    (1:9 video pattern, unpatterned audio, …), any data length (the partial last block stays clear) -/
theorem cbcsCrypt_roundtrip (E D : Block → Block) (hED : ∀ b, b.length = 16 → IsBytes b → D (E b) = b)
    (hE : ∀ b, (E b).length = 16 ∧ IsBytes (E b))
    (data iv : Bytes) (hiv : iv.length = 16) (hivb : IsBytes iv) (hd : IsBytes data) (crypt skip : Nat)
    (hc : crypt % 16 = 0) (hs : skip % 16 = 0) :
    cbcsCrypt (cbcDec D) (cbcsCrypt (cbcEnc E) data iv crypt skip) iv crypt skip = data :=
  Cenc.cbcsCrypt_roundtrip E D hED hE data iv hiv hivb hd crypt skip hc hs

/-- the Go functions the models of this property transcribe (committed table `spec/transcribed.json`, checked against
    the current source by the extractor on every run) all still exist -/
theorem model_sources_exist :
    (["Cenc.lean", "Nalu.lean", "Protect.lean"] : List String).all Mp4ff.Expect.presentFor = true := by decide +kernel

end Mp4ff.Cenc.C06
