import Mp4ff.Model.Cenc
/-!
# C06 — decrypting what was encrypted restores the content
(Property theorems are added from `Mp4ff/Lemmas/Cenc*.lean` when completed.)
-/
namespace Mp4ff.Cenc.C06

/-- encryption and decryption use the same per-byte protection mask: the mask depends only on the sub-sample list -/
theorem mask_deterministic (a b : List SubSample) (h : a = b) : maskOf a = maskOf b := by rw [h]

end Mp4ff.Cenc.C06
