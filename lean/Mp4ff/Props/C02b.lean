import Mp4ff.Model.Esds
import Mp4ff.Lemmas.Esds
/-!
# C02b — Size() = bytes written = header size field for the `esds` box and its MPEG-4 descriptors

The `esds` box is not a layout-DSL box: its payload is a tree of descriptors, each with a variable-length size field
whose number of bytes (`sizeFieldSizeMinus1 + 1`) is part of the structure (kept from the input by the decoder, 1 for
everything the public constructors build) and NOT a function of the value it carries.  `Size()`/`SizeSize()` count
exactly `sizeFieldSizeMinus1 + 1` bytes for it, so C02 holds iff the encoder writes exactly that many — whatever the
value, including values that do not fit (the high bits are dropped, nothing is added).

Model: `Mp4ff/Model/Esds.lean` (transcription of mp4/esds.go + mp4/descriptors.go), proofs `Mp4ff/Lemmas/Esds.lean`.
All statements hold for EVERY descriptor tree, well-formed or not, in particular for `CreateEsdsBox(decConfig)` with a
decoder configuration of any length (the one-byte size fields wrap above 104 bytes; the sizes still agree).
Tie to the Go code: ops `esds.create` (decoder configurations of length 0..131, around 2^14 and larger), `esds.rt`
(descriptor trees in every size-field form) run under C02.
-/
namespace Mp4ff.C02b
open Mp4ff Mp4ff.Esds

/-- `writeDescriptorSize` writes exactly `sizeFieldSizeMinus1 + 1` bytes, whatever the value -/
theorem size_field_length (value sfs : Nat) : (writeSize value sfs).length = sfs + 1 := writeSize_length value sfs

/-- a descriptor's `EncodeSW` writes exactly `SizeSize()` bytes (any tree) -/
theorem descriptor_size (d : Desc) : (encodeDesc d).length = d.sizeSize := encodeDesc_length d

/-- the ES descriptor's `EncodeSW` writes exactly `SizeSize()` bytes (any tree) -/
theorem es_descriptor_size (e : ES) : (encodeES e).length = e.sizeSize := encodeES_length e

/-- **`EsdsBox.Encode` writes exactly `Size()` bytes** (any tree) -/
theorem esds_size (e : Esds) : (encodeEsdsBox e).length = sizeEsds e := encodeEsdsBox_length e

/-- **the written header size field is the length of the box** (first four bytes, big endian; boxes below 4 GiB) -/
theorem esds_header_field (e : Esds) (h : sizeEsds e < 2 ^ 32) :
    beVal ((encodeEsdsBox e).take 4) = (encodeEsdsBox e).length := by
  have h4 : (beBytes 4 (sizeEsds e)).length = 4 := beBytes_length 4 _
  have ht : (encodeEsdsBox e).take 4 = beBytes 4 (sizeEsds e) := by
    unfold encodeEsdsBox
    rw [List.append_assoc, List.take_left' h4]
  rw [ht, encodeEsdsBox_length, beVal_beBytes 4 _ (by simpa using h)]

/-- `CreateEsdsBox(decConfig).Size()` = 37 + len(decConfig), for a configuration of ANY length -/
theorem created_size (x : Bytes) : sizeEsds (createEsds x) = 37 + x.length := by
  simp [createEsds, createES, sizeEsds, ES.sizeSize, ES.size, flagDep, flagUrl, flagOcr, Desc.sizeSize, Desc.sfsOf,
    Desc.size, dsiSizeSize, slSizeSize, sizeSizes]
  omega

/-- **`CreateEsdsBox(decConfig).Encode` writes 37 + len(decConfig) = Size() bytes and that number is the header size
    field**, for a configuration of any length below 4 GiB — also above 104 bytes, where the one-byte descriptor size
    fields cannot carry their values any more -/
theorem created_written (x : Bytes) (h : 37 + x.length < 2 ^ 32) :
    (encodeEsdsBox (createEsds x)).length = 37 + x.length
      ∧ beVal ((encodeEsdsBox (createEsds x)).take 4) = 37 + x.length := by
  have hs := created_size x
  refine ⟨by rw [encodeEsdsBox_length, hs], ?_⟩
  rw [esds_header_field _ (by rw [hs]; exact h), encodeEsdsBox_length, hs]

/-! ## non-vacuity -/

/-- a 130-byte configuration: sizes agree although the ES / DecoderConfig / DecSpecificInfo size bytes have wrapped -/
example : (encodeEsdsBox (createEsds (List.replicate 130 7))).length = 167 := by
  rw [(created_written _ (by rw [List.length_replicate]; decide)).1, List.length_replicate]
example : sizeEsds (createEsds (List.replicate 130 7)) = 167 := by rw [created_size, List.length_replicate]
/-- the one-byte ES size field of that box holds (23 + 130) mod 128 = 25, the DecoderConfig's (15 + 130) mod 128 = 17 -/
example : (encodeEsdsBox (createEsds (List.replicate 130 7))).take 19
    = [0, 0, 0, 167, 0x65, 0x73, 0x64, 0x73, 0, 0, 0, 0, 3, 25, 0, 1, 0, 4, 17] := by
  set_option maxRecDepth 8000 in decide

end Mp4ff.C02b
