import Mp4ff.Model.Conc
import Mp4ff.Expect.Facts
import Mp4ff.Expect.Transcribed
/-!
# C20 — independent objects can be used from concurrent goroutines
Two halves.  (1) Facts regenerated from the Go sources on every run: the only package-level variables that any
function writes are the three decoder registries, written only by `init`, `SetBoxDecoder`, `RemoveBoxDecoder`; every
other package-level variable is a read-only table or a sentinel error.  (2) In the abstract machine of
`Model/Conc.lean`, where a step touches only its goroutine's private state, every interleaving gives every goroutine
exactly the result it gets when run alone.  The race-detector harness ties the machine's assumption (steps touch
only private state and read the shared input) to the real code, including slices that alias the input buffer.
-/
namespace Mp4ff.Conc.C20
open Mp4ff.Conc

variable {I R L : Type}

/-- steps of other goroutines do not change goroutine `g`'s state -/
theorem run_other (sys : System I R L) (inp : I) (reg : R) (sched : List Nat) (ls : Nat → L) (g : Nat)
    (h : g ∉ sched) : run sys inp reg sched ls g = ls g := by
  induction sched generalizing ls with
  | nil => rfl
  | cons a rest ih =>
    simp only [List.mem_cons, not_or] at h
    simp only [run, List.foldl_cons]
    have := ih (fun k => if k = a then sys.step inp reg a (ls a) else ls k) h.2
    simp only [run] at this
    rw [this]; simp [h.1]

/-- **every interleaving gives each goroutine the result it gets when run alone**: the final private state of `g`
    after any schedule is `g` stepping alone as many times as it occurs in the schedule -/
theorem interleaving_independent (sys : System I R L) (inp : I) (reg : R) (sched : List Nat) (ls : Nat → L) (g : Nat) :
    run sys inp reg sched ls g = alone sys inp reg g (sched.count g) (ls g) := by
  induction sched generalizing ls with
  | nil => rfl
  | cons a rest ih =>
    simp only [run, List.foldl_cons]
    have := ih (fun k => if k = a then sys.step inp reg a (ls a) else ls k)
    simp only [run] at this
    rw [this]
    by_cases hag : a = g
    · subst hag; simp [alone]
    · have hga : ¬ g = a := fun h => hag h.symm
      simp [hga, hag]

/-- two schedules with the same number of steps per goroutine are indistinguishable to every goroutine -/
theorem schedules_equivalent (sys : System I R L) (inp : I) (reg : R) (s1 s2 : List Nat) (ls : Nat → L)
    (h : ∀ g, s1.count g = s2.count g) : run sys inp reg s1 ls = run sys inp reg s2 ls := by
  funext g
  rw [interleaving_independent, interleaving_independent, h g]

/-- **hidden shared state breaks the property**: a one-entry package-level cache (the kind of change C20 guards
    against) makes a goroutine's result depend on the schedule -/
def cacheSys : LeakySystem Unit Nat Nat := ⟨fun _ h g _ => (g, h)⟩   -- result := last writer of the cache

theorem hidden_state_is_observable :
    (runLeaky cacheSys () [1, 2] 0 (fun _ => 0)).2 2 ≠ (runLeaky cacheSys () [2] 0 (fun _ => 0)).2 2 := by decide

/-- **the library has no hidden mutable state**: source facts (regenerated from /repo on every run) -/
theorem no_hidden_state :
    Generated.globals.all (fun g => g.2.2.2 = [] ||
      (Expect.registryVars.contains g.2.1 && g.2.2.2.all (Expect.allowedWriters.contains ·))) = true :=
  Expect.globals_written_only_by_registry_functions

/-- every package-level variable is a sentinel error, a table (map, slice, array), a registry or a scalar of a basic
    type; in particular none is a pointer to / a value of a struct type, an interface, a func, a value of another
    package's type or the result of a call the extractor cannot type (kinds as classified by `extract/main.go`
    `globalKind`, named types followed to their definition): no package-level object with mutable fields -/
theorem globals_are_tables_or_errors :
    Generated.globals.all (fun g => g.2.2.1 == "error" || g.2.2.1 == "map" || g.2.2.1 == "slice" ||
      g.2.2.1 == "array" || g.2.2.1 == "scalar") = true := Expect.globals_kinds

/-- non-vacuity: a three-goroutine system under two different interleavings -/
example : run (⟨fun (inp : Nat) _ g l => l + inp + g⟩ : System Nat Unit Nat) 10 () [1, 2, 1, 3] (fun _ => 0) 1 =
          run (⟨fun (inp : Nat) _ g l => l + inp + g⟩ : System Nat Unit Nat) 10 () [3, 1, 1, 2] (fun _ => 0) 1 := by decide

/-- the Go functions the models of this property transcribe (committed table `spec/transcribed.json`, checked against
    the current source by the extractor on every run) all still exist -/
theorem model_sources_exist :
    (["Aac.lean", "Bits.lean", "Boxes.lean"] : List String).all Mp4ff.Expect.presentFor = true := by decide +kernel

end Mp4ff.Conc.C20
