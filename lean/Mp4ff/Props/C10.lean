import Mp4ff.Model.Crop
import Mp4ff.Lemmas.C10
import Mp4ff.Lemmas.C10D
import Mp4ff.Lemmas.C10H
import Mp4ff.Expect.Transcribed
/-!
# C10 — cropping a progressive file yields exactly a prefix of every track
Property theorems about `Model/Crop.lean` (the transcription of cmd/mp4ff-crop/main.go): the cut point, every
table-cropping routine against the naive per-sample expansion of the table, and the layout of the kept chunks in the
new mdat.  Proofs in `Mp4ff/Lemmas/C10*.lean`.  The model is tied to the tool by the `crop` correspondence op: the
tables of every generated input file go through `cropAll`, and the result is compared with the tables and chunk
offsets of the file the built binary writes; the `cropmdat` op compares `copied file (mergeRanges pieces)` (the bytes
`place_spec` speaks about) with the payload of the mdat the binary wrote, on files whose chunks are stored in any order.
-/
namespace Mp4ff.Crop.C10
open Mp4ff.Crop Mp4ff.Stbl

/-- **the cut point of a track**: `k` = the number of samples that start before the end time -/
theorem trackEnd_spec (b : Stts) (h : b.OK) (hpos : ∀ d ∈ b.delta, 0 < d) (hc : ∀ c ∈ b.count, 0 < c)
    (hN : b.durations.length + 1 < U32) (ts te : Nat) (hts : 0 < ts) (hts32 : ts < U32) (hte : te < b.durations.sum) :
    ∃ k, trackEnd b ts te ts = some k ∧ k ≤ b.durations.length ∧
      (∀ j, 1 ≤ j → j ≤ k → startTime b.durations j < te) ∧ te ≤ startTime b.durations (k + 1) :=
  Crop.trackEnd_spec b h hpos hc hN ts te hts hts32 hte

/-- **stts**: the cropped table expands to exactly the first `last` durations (cut inside a run, at a run
    boundary, in the last entry: every case) -/
theorem cropStts_spec (b : Stts) (hl : b.count.length = b.delta.length) (hs : b.count.sum < U32)
    (last : Nat) (hlast : last ≤ b.count.sum) :
    ∃ b', cropStts b last = some b' ∧ b'.durations = b.durations.take last ∧ b'.count.length = b'.delta.length :=
  Crop.cropStts_spec b hl hs last hlast

/-- **stss**: exactly the sync samples among the first `last` samples remain, in order -/
theorem cropStss_spec (nums : List Nat) (h : nums.Pairwise (· < ·)) (last : Nat) :
    cropStss nums last = nums.filter (· ≤ last) ∧
    (cropStss nums last).Pairwise (· < ·) ∧ ∀ n, n ∈ cropStss nums last ↔ (n ∈ nums ∧ n ≤ last) :=
  Crop.cropStss_spec nums h last

/-- **ctts**: the cropped table expands to exactly the first `last` composition offsets -/
theorem cropCtts_spec (counts : List Nat) (offs : List Int) (hl : counts.length = offs.length)
    (hs : counts.sum < U32) (last : Nat) (hlast : last ≤ counts.sum) :
    ∃ c', cropCtts (Ctts.ofCounts counts offs) last = some c' ∧
      Ctts.expand c' = (expandRuns counts offs).take last := Crop.cropCtts_spec counts offs hl hs last hlast

/-- sanity of the expansion used above: the uncropped table expands to all composition offsets -/
theorem ctts_expand_ofCounts (counts : List Nat) (offs : List Int) (hl : counts.length = offs.length)
    (hs : counts.sum < U32) : Ctts.expand (Ctts.ofCounts counts offs) = expandRuns counts offs :=
  Crop.ctts_expand_ofCounts counts offs hl hs

/-- **stsc**: every chunk before the one holding sample `last` keeps its size; that chunk is cut right after `last`;
    the cropped table is again a well-formed stsc table (first_chunk strictly increasing from 1, positive
    samples_per_chunk) -/
theorem cropStsc_spec (raw : List (Nat × Nat × Nat)) (h : RawOK raw) (cmax c last : Nat) (hw : NoWrap raw cmax)
    (h1 : 1 ≤ c) (hc : c ≤ cmax) (hlo : firstSampleOf raw c ≤ last) (hhi : last < firstSampleOf raw (c + 1)) :
    ∃ raw', cropStsc raw last = some raw' ∧
      (∀ j, 1 ≤ j → j < c → spcOf raw' j = spcOf raw j) ∧
      spcOf raw' c = last + 1 - firstSampleOf raw c ∧
      firstSampleOf raw' (c + 1) = last + 1 ∧
      RawOK raw' := Crop.cropStsc_spec raw h cmax c last hw h1 hc hlo hhi

/-- **stsz**: sizes of the first `last` samples are unchanged, the count is `last` -/
theorem cropStsz_spec (b : Stsz) (h : b.OK) (last : Nat) (hlast : last ≤ b.sampleNumber) :
    ∃ b', cropStsz b last = some b' ∧ b'.sampleNumber = last ∧ ∀ n, 1 ≤ n → n ≤ last → b'.sizeOf n = b.sizeOf n :=
  Crop.cropStsz_spec b h last hlast

/-- **the new mdat holds exactly the kept chunks, and every new chunk offset points at its chunk's bytes inside it**
    for every number of tracks, every interleaving of their chunks in the input -/
theorem place_spec (file : Bytes) (p : Pending) (h : InFile file p) (start : Nat) :
    let r := place p start
    (copied file r.2).length = ((p.flatten).map (·.size)).sum ∧
    r.1.length = p.length ∧
    ∀ i, i < p.length → (r.1.getD i []).length = (p.getD i []).length ∧
      ∀ j, j < (p.getD i []).length →
        let c := (p.getD i []).getD j ⟨0, 0⟩
        start ≤ (r.1.getD i []).getD j 0 ∧
        ((copied file r.2).drop ((r.1.getD i []).getD j 0 - start)).take c.size = (file.drop c.off).take c.size :=
  Crop.place_spec file p h start

/-- merging adjacent byte ranges (`byteRanges.addRange`) does not change what is copied -/
theorem mergeRanges_copied (file : Bytes) (pieces : List KChunk) (h : ∀ c ∈ pieces, c.off + c.size ≤ file.length) :
    copied file (mergeRanges pieces) = copied file pieces := Crop.mergeRanges_copied file pieces h

/-- the layout assumes no order of the chunk offsets: track 1 stores its second chunk before its first one and both
    around the chunk of track 2; chunks are written in processing order (per track in chunk order, across tracks by the
    lowest next offset), not in input order -/
example : place [[⟨50, 2⟩, ⟨10, 3⟩], [⟨30, 4⟩]] 100 = ([[104, 106], [100]], [⟨30, 4⟩, ⟨50, 2⟩, ⟨10, 3⟩]) := by decide

/-- non-vacuity: a two-run stts cut inside the second run -/
example : (cropStts ⟨[3, 4], [10, 20]⟩ 5).map (·.durations) = some [10, 10, 10, 20, 20] := by decide

/-- **header durations do not exceed the originals** (`writeUptoMdat`): whenever the tool succeeds, every track header
    carries the new duration, which is at most the track's previous one; every edit list keeps its entries, none of
    which grows and none of which is shortened to zero -/
theorem crop_header_durations (h h' : MovieHdr) (e ts : Nat) (hc : cropHeaders h e ts = some h') :
    h'.timescale = h.timescale ∧ h'.mvhdDur = min (newDuration h.timescale e ts) h.mvhdDur ∧
    h'.tracks.length = h.tracks.length ∧
    ∀ i (hi : i < h.tracks.length) (hi' : i < h'.tracks.length),
      h'.tracks[i].tkhdDur = newDuration h.timescale e ts ∧ h'.tracks[i].tkhdDur ≤ h.tracks[i].tkhdDur ∧
      h'.tracks[i].elst.length = h.tracks[i].elst.length ∧
      ∀ j (hj : j < h.tracks[i].elst.length) (hj' : j < h'.tracks[i].elst.length),
        h'.tracks[i].elst[j] ≤ h.tracks[i].elst[j] ∧ (0 < h.tracks[i].elst[j] → 0 < h'.tracks[i].elst[j]) :=
  Crop.cropHeaders_tracks h h' e ts hc

/-- … and the movie header duration does not grow — for every input, also one whose movie header under-reports the
    duration (0 = unknown), which the tool used to overwrite with the new, larger value (fixed; see known findings) -/
theorem crop_movie_duration (h h' : MovieHdr) (e ts : Nat) (hc : cropHeaders h e ts = some h') :
    h'.mvhdDur ≤ h.mvhdDur := Crop.cropHeaders_mvhd h h' e ts hc

/-- in a consistent file (movie duration at least the duration of one track) it is exactly the new duration -/
theorem crop_movie_duration_eq (h h' : MovieHdr) (e ts : Nat) (hc : cropHeaders h e ts = some h')
    (hcons : ∃ t ∈ h.tracks, t.tkhdDur ≤ h.mvhdDur) : h'.mvhdDur = newDuration h.timescale e ts :=
  Crop.cropHeaders_mvhd_eq h h' e ts hc hcons

/-- the under-reporting movie header stays as it is -/
example : cropHeaders ⟨1000, 0, [⟨5000, [5000]⟩]⟩ 2000 1000 = some ⟨1000, 0, [⟨2000, [2000]⟩]⟩ := by decide

/-! non-vacuity: a two-track movie cut from 9 s / 10 s to 4 s -/
example : cropHeaders ⟨1000, 10000, [⟨10000, [10000]⟩, ⟨9000, [500, 8500]⟩]⟩ 360000 90000 =
    some ⟨1000, 4000, [⟨4000, [4000]⟩, ⟨4000, [500, 3500]⟩]⟩ := by decide

/-- the Go functions the models of this property transcribe (committed table `spec/transcribed.json`, checked against
    the current source by the extractor on every run) all still exist -/
theorem model_sources_exist :
    (["Crop.lean", "CropHdr.lean", "SampleTables.lean"] : List String).all Mp4ff.Expect.presentFor = true := by decide +kernel

end Mp4ff.Crop.C10
