import Mp4ff.Model.Crop
import Mp4ff.Lemmas.C10
import Mp4ff.Lemmas.C10D
/-!
# C10 — cropping a progressive file yields exactly a prefix of every track
Property theorems about `Model/Crop.lean` (the transcription of cmd/mp4ff-crop/main.go): the cut point, every
table-cropping routine against the naive per-sample expansion of the table, and the layout of the kept chunks in the
new mdat.  Proofs in `Mp4ff/Lemmas/C10*.lean`.  The model is tied to the tool by the `crop` correspondence op: the
tables of every generated input file go through `cropAll`, and the result is compared with the tables and chunk
offsets of the file the built binary writes.
-/
namespace Mp4ff.Crop.C10
open Mp4ff.Crop Mp4ff.Stbl

/-- **the cut point of a track**: `k` = the number of samples that start before the end time -/
theorem trackEnd_spec (b : Stts) (h : b.OK) (hpos : ∀ d ∈ b.delta, 0 < d) (hc : ∀ c ∈ b.count, 0 < c)
    (hN : b.durations.length + 1 < U32) (ts te : Nat) (hts : 0 < ts) (hts32 : ts < U32) (hte : te < b.durations.sum) :
    ∃ k, trackEnd b ts te ts = some k ∧ k ≤ b.durations.length ∧
      (∀ j, 1 ≤ j → j ≤ k → startTime b.durations j < te) ∧ te ≤ startTime b.durations (k + 1) :=
  Crop.trackEnd_spec b h hpos hc hN ts te hts hts32 hte

/-- **stts**: the cropped table expands to exactly the first `last` durations (cut inside a run, at a run
    boundary, in the last entry: every case) -/
theorem cropStts_spec (b : Stts) (hl : b.count.length = b.delta.length) (hs : b.count.sum < U32)
    (last : Nat) (hlast : last ≤ b.count.sum) :
    ∃ b', cropStts b last = some b' ∧ b'.durations = b.durations.take last ∧ b'.count.length = b'.delta.length :=
  Crop.cropStts_spec b hl hs last hlast

/-- **stss**: exactly the sync samples among the first `last` samples remain, in order -/
theorem cropStss_spec (nums : List Nat) (h : nums.Pairwise (· < ·)) (last : Nat) :
    cropStss nums last = nums.filter (· ≤ last) ∧
    (cropStss nums last).Pairwise (· < ·) ∧ ∀ n, n ∈ cropStss nums last ↔ (n ∈ nums ∧ n ≤ last) :=
  Crop.cropStss_spec nums h last

/-- **ctts**: the cropped table expands to exactly the first `last` composition offsets -/
theorem cropCtts_spec (counts : List Nat) (offs : List Int) (hl : counts.length = offs.length)
    (hs : counts.sum < U32) (last : Nat) (hlast : last ≤ counts.sum) :
    ∃ c', cropCtts (Ctts.ofCounts counts offs) last = some c' ∧
      Ctts.expand c' = (expandRuns counts offs).take last := Crop.cropCtts_spec counts offs hl hs last hlast

/-- sanity of the expansion used above: the uncropped table expands to all composition offsets -/
theorem ctts_expand_ofCounts (counts : List Nat) (offs : List Int) (hl : counts.length = offs.length)
    (hs : counts.sum < U32) : Ctts.expand (Ctts.ofCounts counts offs) = expandRuns counts offs :=
  Crop.ctts_expand_ofCounts counts offs hl hs

/-- **stsc**: every chunk before the one holding sample `last` keeps its size; that chunk is cut right after `last`;
    the cropped table is again a well-formed stsc table (first_chunk strictly increasing from 1, positive
    samples_per_chunk) -/
theorem cropStsc_spec (raw : List (Nat × Nat × Nat)) (h : RawOK raw) (cmax c last : Nat) (hw : NoWrap raw cmax)
    (h1 : 1 ≤ c) (hc : c ≤ cmax) (hlo : firstSampleOf raw c ≤ last) (hhi : last < firstSampleOf raw (c + 1)) :
    ∃ raw', cropStsc raw last = some raw' ∧
      (∀ j, 1 ≤ j → j < c → spcOf raw' j = spcOf raw j) ∧
      spcOf raw' c = last + 1 - firstSampleOf raw c ∧
      firstSampleOf raw' (c + 1) = last + 1 ∧
      RawOK raw' := Crop.cropStsc_spec raw h cmax c last hw h1 hc hlo hhi

/-- **stsz**: sizes of the first `last` samples are unchanged, the count is `last` -/
theorem cropStsz_spec (b : Stsz) (h : b.OK) (last : Nat) (hlast : last ≤ b.sampleNumber) :
    ∃ b', cropStsz b last = some b' ∧ b'.sampleNumber = last ∧ ∀ n, 1 ≤ n → n ≤ last → b'.sizeOf n = b.sizeOf n :=
  Crop.cropStsz_spec b h last hlast

/-- **the new mdat holds exactly the kept chunks, and every new chunk offset points at its chunk's bytes inside it**
    for every number of tracks, every interleaving of their chunks in the input -/
theorem place_spec (file : Bytes) (p : Pending) (h : InFile file p) (start : Nat) :
    let r := place p start
    (copied file r.2).length = ((p.flatten).map (·.size)).sum ∧
    r.1.length = p.length ∧
    ∀ i, i < p.length → (r.1.getD i []).length = (p.getD i []).length ∧
      ∀ j, j < (p.getD i []).length →
        let c := (p.getD i []).getD j ⟨0, 0⟩
        start ≤ (r.1.getD i []).getD j 0 ∧
        ((copied file r.2).drop ((r.1.getD i []).getD j 0 - start)).take c.size = (file.drop c.off).take c.size :=
  Crop.place_spec file p h start

/-- merging adjacent byte ranges (`byteRanges.addRange`) does not change what is copied -/
theorem mergeRanges_copied (file : Bytes) (pieces : List KChunk) (h : ∀ c ∈ pieces, c.off + c.size ≤ file.length) :
    copied file (mergeRanges pieces) = copied file pieces := Crop.mergeRanges_copied file pieces h

/-- non-vacuity: a two-run stts cut inside the second run -/
example : (cropStts ⟨[3, 4], [10, 20]⟩ 5).map (·.durations) = some [10, 10, 10, 20, 20] := by decide

end Mp4ff.Crop.C10
