import Mp4ff.Model.Sei
import Mp4ff.Lemmas.C17Framing
/-!
# C17 — SEI messages survive write/parse round trips
(Property theorems are added from `Mp4ff/Lemmas/C17*.lean` as they are completed.)
-/
namespace Mp4ff.Sei.C17
open Mp4ff.Bits

/-- the fields `TimeCodeSEI.Payload` writes for a clock occupy exactly the bits `Size()` counts -/
theorem clock_fields_bits (c : ClockTS) : ((c.fields.map (·.1)).sum) = c.nrBits := by
  unfold ClockTS.fields ClockTS.nrBits
  cases c.clockTimeStampFlag <;> cases c.fullTimeStampFlag <;> cases c.secondsFlag <;>
    cases c.minutesFlag <;> cases c.hoursFlag <;> by_cases h : c.timeOffsetLength > 0 <;>
    simp [h] <;> omega

/-- **SEI framing round trip**: writing any non-empty list of SEI messages — any payload types incl. ≥ 255,
    any sizes incl. 0 and ≥ 255, any payload bytes incl. ones that need emulation prevention and payloads
    ending in 00 — and extracting from the result returns the same (type, payload) list, with no error and no
    missing-trailing-bits condition -/
theorem sei_framing (msgs : List Msg) (hne : msgs ≠ []) (hok : ∀ m ∈ msgs, MsgOK m) :
    extractSEI (writeSEI msgs) = (msgs, none) := Sei.sei_framing msgs hne hok

/-- what is written is the escaped form of type/size/payload bytes followed by the 0x80 trailing byte -/
theorem writeSEI_shape (msgs : List Msg) (hok : ∀ m ∈ msgs, MsgOK m) :
    writeSEI msgs = esc 0 (msgsBytes msgs ++ [0x80]) := Sei.writeSEI_eq msgs (fun m hm => (hok m hm).2.2)

example : MsgOK ⟨70000, [0, 0, 1, 0, 0]⟩ := by simp [MsgOK, IsBytes]

end Mp4ff.Sei.C17
