import Mp4ff.Model.Sei
import Mp4ff.Lemmas.C17Framing
import Mp4ff.Lemmas.C17Typed
import Mp4ff.Expect.Transcribed
/-!
# C17 — SEI messages survive write/parse round trips
(Property theorems are added from `Mp4ff/Lemmas/C17*.lean` as they are completed.)
-/
namespace Mp4ff.Sei.C17
open Mp4ff.Bits

/-- the fields `TimeCodeSEI.Payload` writes for a clock occupy exactly the bits `Size()` counts -/
theorem clock_fields_bits (c : ClockTS) : ((c.fields.map (·.1)).sum) = c.nrBits := by
  unfold ClockTS.fields ClockTS.nrBits
  cases c.clockTimeStampFlag <;> cases c.fullTimeStampFlag <;> cases c.secondsFlag <;>
    cases c.minutesFlag <;> cases c.hoursFlag <;> by_cases h : c.timeOffsetLength > 0 <;>
    simp [h] <;> omega

/-- **SEI framing round trip**: writing any non-empty list of SEI messages — any payload types incl. ≥ 255,
    any sizes incl. 0 and ≥ 255, any payload bytes incl. ones that need emulation prevention and payloads
    ending in 00 — and extracting from the result returns the same (type, payload) list, with no error and no
    missing-trailing-bits condition -/
theorem sei_framing (msgs : List Msg) (hne : msgs ≠ []) (hok : ∀ m ∈ msgs, MsgOK m) :
    extractSEI (writeSEI msgs) = (msgs, none) := Sei.sei_framing msgs hne hok

/-- **SEI NAL unit round trip** (`avc.ParseSEINalu`, `hevc.ParseSEINalu`): a NAL unit made of an SEI NAL header
    (AVC: one byte of type 6; HEVC: two bytes, type 39 or 40) and the written message list parses back to that list:
    every message once, in order, with its own type and payload -/
theorem sei_nalu_roundtrip (c : Codec) (hdr : Bytes) (msgs : List Msg) (hne : msgs ≠ []) (hok : ∀ m ∈ msgs, MsgOK m)
    (hl : hdr.length = c.hdrLen) (hsei : isSEINalu c hdr = true) :
    parseSEINalu c (hdr ++ writeSEI msgs) = some (msgs, none) := by
  have hfr := Sei.sei_framing msgs hne hok
  cases c with
  | avc =>
    match hdr, hl, hsei with
    | [h0], _, hsei =>
      have h : isSEINalu .avc (h0 :: writeSEI msgs) = true := by simpa [isSEINalu] using hsei
      simp [parseSEINalu, h, Codec.hdrLen, hfr]
  | hevc =>
    match hdr, hl, hsei with
    | [h0, h1], _, hsei =>
      have h : isSEINalu .hevc (h0 :: h1 :: writeSEI msgs) = true := by simpa [isSEINalu] using hsei
      simp [parseSEINalu, h, Codec.hdrLen, hfr]

/-- what is written is the escaped form of type/size/payload bytes followed by the 0x80 trailing byte -/
theorem writeSEI_shape (msgs : List Msg) (hok : ∀ m ∈ msgs, MsgOK m) :
    writeSEI msgs = esc 0 (msgsBytes msgs ++ [0x80]) := Sei.writeSEI_eq msgs (fun m hm => (hok m hm).2.2)

/-- **time code (SEI 136)**: serialise → decode is the identity and `Size()` equals the serialised length, for
    0..3 clocks with every flag combination and time-offset lengths 0..31 (when the bit count is a multiple of
    8 the final marker bit does not fit the `Size()`-sized writer and is dropped: shown harmless here) -/
theorem timeCode_roundtrip (clocks : List ClockTS) (hn : clocks.length ≤ 3) (hc : ∀ c ∈ clocks, c.Canon) :
    decodeTimeCode (timeCodePayload clocks) = (clocks, false) ∧
    (timeCodePayload clocks).length = timeCodeSize clocks := Sei.timeCode_roundtrip clocks hn hc

/-- **mastering display colour volume (SEI 137)** -/
theorem mdcv_roundtrip (m : MDCV) (h : m.OK) :
    decodeMDCV (mdcvPayload m) = some m ∧ (mdcvPayload m).length = 24 := Sei.mdcv_roundtrip m h

/-- **content light level (SEI 144)** -/
theorem cll_roundtrip (a b : Nat) (ha : a < 65536) (hb : b < 65536) :
    decodeCLL (cllPayload a b) = some (a, b) ∧ (cllPayload a b).length = 4 := Sei.cll_roundtrip a b ha hb

/-- **AVC picture timing (SEI 1)**: serialise → decode (with the HRD lengths and time offset length signalled in
    the SPS) is the identity, signed time offsets included, and `Size()` equals the serialised length -/
theorem picTiming_roundtrip (tol : Nat) (p : PicTimingAvc) (h : p.OK tol) :
    decodePicTimingAvc (picTimingPayload p) (p.hrd.map fun x => (x.2.2.1, x.2.2.2)) tol = some (p, false) ∧
    (picTimingPayload p).length = picTimingSize p := Sei.picTiming_roundtrip tol p h

example : (⟨17, 300, 0, 0, 59, true, false, false, true, false, false, true, false, 4, 5⟩ : ClockTS).Canon := by
  simp [ClockTS.Canon]

example : MsgOK ⟨70000, [0, 0, 1, 0, 0]⟩ := by simp [MsgOK, IsBytes]
example : isSEINalu .avc [0x66] = true := by decide
example : isSEINalu .hevc [0x50, 0x01] = true := by decide

/-- the Go functions the models of this property transcribe (committed table `spec/transcribed.json`, checked against
    the current source by the extractor on every run) all still exist -/
theorem model_sources_exist :
    (["Bits.lean", "Sei.lean"] : List String).all Mp4ff.Expect.presentFor = true := by decide +kernel

end Mp4ff.Sei.C17
