import Mp4ff.Model.Walk
import Mp4ff.Lemmas.C04
import Mp4ff.Lemmas.C04Leaf
import Mp4ff.Expect.Transcribed
import Mp4ff.Lemmas.C04Senc
/-!
# C04 — untrusted container input never crashes, hangs or balloons memory
What a theorem can carry of this property: the *structural* part of container decoding (`Model/Walk.lean`, the
transcription of DecodeHeaderSR / DecodeBoxSR / DecodeContainerChildrenSR / the DecodeFileSR loop) is a total
function on **every** byte string, needs a number of steps linear in the input, and can never produce more than
|input| / 8 boxes.  Panics, wall time and allocation of the real leaf decoders are runtime behaviour the model cannot
exhibit: they are decided by the isolated-worker harness (see DESIGN.md), and the walk model is tied to the real
decoder by the `walk` correspondence op on the same hostile inputs.
-/
namespace Mp4ff.Walk.C04
open Mp4ff.Walk

/-- **every decoded box costs at least 8 input bytes and the reader never leaves the input** -/
theorem decodeBox_bound (f : Nat) (bs : Bytes) (pos : Nat) (n : Node) (p : Nat)
    (h : decodeBox f bs pos = some (n, p)) : pos + 8 ≤ p ∧ p ≤ bs.length ∧ n.count * 8 ≤ p - pos :=
  Walk.decodeBox_bound f bs pos n p h

theorem decodeChildren_bound (f : Nat) (bs : Bytes) (rpos left : Nat) (ns : List Node) (p : Nat)
    (hr : rpos ≤ bs.length) (h : decodeChildren f bs rpos left = some (ns, p)) :
    rpos ≤ p ∧ p ≤ bs.length ∧ countAll ns * 8 ≤ p - rpos := Walk.decodeChildren_bound f bs rpos left ns p hr h

/-- **the whole decoded tree has at most |input| / 8 boxes**, for every byte string (so per-box allocation bounded
    by a constant plus its own payload gives memory linear in the input) -/
theorem walk_count_bound (bs : Bytes) (ns : List Node) (h : walk bs = some ns) : countAll ns * 8 ≤ bs.length :=
  Walk.walk_count_bound bs ns h

/-- more fuel never changes a result … -/
theorem decodeBox_fuel_mono (f g : Nat) (hfg : f ≤ g) (bs : Bytes) (pos : Nat) (r : Node × Nat)
    (h : decodeBox f bs pos = some r) : decodeBox g bs pos = some r := Walk.decodeBox_fuel_mono f g hfg bs pos r h

/-- … and **the walk terminates within |input| + 2 nested steps**: whatever a larger fuel can decode, this fuel
    already decodes (no input can make the recursion deeper or longer than its own length) -/
theorem decodeBox_fuel_sufficient (g : Nat) (bs : Bytes) (pos : Nat) (r : Node × Nat)
    (h : decodeBox g bs pos = some r) : decodeBox (bs.length + 2) bs pos = some r :=
  Walk.decodeBox_fuel_sufficient g bs pos r h

/-- **every modelled leaf-box decoder returns at most |payload| + 40 values**, whatever count fields and lengths
    the payload announces (64 box types of `Boxes.specs`; every field inside a repeated group consumes at least one
    byte, so an inflated count cannot inflate the result): allocation linear in the input -/
theorem modelled_decoders_linear (ty : String) (sp : Boxes.Spec) (hsp : (ty, sp) ∈ Boxes.specs) (f : Nat)
    (payload : Bytes) (tr : Layout.Trace) (rest : Bytes)
    (h : Layout.decode f sp.layout [] payload = some (tr, rest)) : tr.length ≤ payload.length + 40 :=
  Boxes.modelled_decoders_linear ty sp hsp f payload tr rest h

/-- the generic statement behind it: decoded values ≤ consumed bytes + the number of fields outside repeated groups -/
theorem decode_alloc_bound (f : Nat) (L : List Layout.Syn) (hL : Layout.listRepOK false L = true) (acc : Layout.Trace)
    (bs : Bytes) (tr : Layout.Trace) (rest : Bytes) (h : Layout.decode f L acc bs = some (tr, rest)) :
    rest.length ≤ bs.length ∧ tr.length ≤ acc.length + (bs.length - rest.length) + Layout.listTopFlds L :=
  Layout.decode_alloc_bound f L hL acc bs tr rest h

/-- **the second-stage senc parser (no sub-sample entries) never allocates more IV slots than the box has per-sample
    bytes**, whatever sample count the box announces and whatever IV size the context (tenc / seig) hands in; the check
    is the Go code's 64-bit product, modelled on natural numbers (`Model/SencSize.lean`, tied by the `sencsize` op) -/
theorem senc_slots_le (iv count left : Nat) : SencSize.slots iv count left ≤ left := SencSize.slots_le iv count left

/-- … and a senc it accepts holds every IV it announces: `IVs read * IV size ≤ bytes in the box`, IV size 0, 8 or 16 -/
theorem senc_parse_fits (iv count left v n : Nat) (h : SencSize.parse iv count left = some (v, n)) :
    n * v ≤ left ∧ (n = 0 ∨ n = count) ∧ (v = 0 ∨ v = 8 ∨ v = 16) := SencSize.parse_fits iv count left v n h

/-- non-vacuity of the senc model: 2^28+1 sixteen-byte IVs announced in 16 bytes are rejected, three IVs in 48 bytes read -/
example : SencSize.parse 16 (2^28+1) 16 = none ∧ SencSize.parse 16 3 48 = some (16, 3) ∧ SencSize.parse 0 3 24 = some (8, 3) := by decide

/-- non-vacuity: a moov holding an mvhd-sized leaf and an empty trak -/
example : (walk ([0,0,0,24] ++ [0x6d,0x6f,0x6f,0x76] ++ [0,0,0,8,0x66,0x72,0x65,0x65] ++ [0,0,0,8,0x74,0x72,0x61,0x6b])).map countAll
    = some 3 := by decide

/-- the Go functions the models of this property transcribe (committed table `spec/transcribed.json`, checked against
    the current source by the extractor on every run) all still exist -/
theorem model_sources_exist :
    (["Boxes.lean", "Walk.lean"] : List String).all Mp4ff.Expect.presentFor = true := by decide +kernel

end Mp4ff.Walk.C04
