import Mp4ff.Model.Segments
/-!
# C12 — fragments are grouped into segments faithfully and indexes tile the media
(Property theorems are added from `Mp4ff/Lemmas/C12.lean` when completed.)
-/
namespace Mp4ff.Segments.C12

/-- the first reference starts at the anchor point -/
theorem refStart_zero (sizes : List Nat) : refStart sizes 0 = 0 := by simp [refStart]

end Mp4ff.Segments.C12
