import Mp4ff.Model.Segments
import Mp4ff.Lemmas.C12
import Mp4ff.Expect.Transcribed
/-!
# C12 — fragments are grouped into segments faithfully and indexes tile the media
Property theorems about `Model/Segments.lean` (`File.AddChild`'s grouping of top-level boxes and the sidx reference
arithmetic); proofs in `Mp4ff/Lemmas/C12.lean`.  The model is tied to mp4/file.go by the `group` correspondence op
(every generated fragmented file is grouped by both and the segment/fragment structure compared).
-/
namespace Mp4ff.Segments.C12
open Mp4ff.Segments

/-- the first reference starts at the anchor point -/
theorem refStart_zero (sizes : List Nat) : refStart sizes 0 = 0 := by simp [refStart]

/-- **every moof ends up in exactly one fragment of exactly one segment, in file order** — for every stream of
    top-level boxes, every delimiter configuration (sidx list, tfra offsets, start-on-moof flag), every start state -/
theorem group_preserves_moofs (sidxOf : Item → Option Sidx) (items : List Item) (st st' : St)
    (h : groupItems st sidxOf items = some st') :
    moofsOf st' = moofsOf st ++ (items.filter (·.kind == .moof)).map (·.pos) :=
  Segments.group_preserves_moofs sidxOf items st st' h

/-- media boxes never change the delimiter configuration; segments are only ever appended -/
theorem group_segments_grow (sidxOf : Item → Option Sidx) (items : List Item) (st st' : St)
    (h : groupItems st sidxOf items = some st') :
    st.segs.length ≤ st'.segs.length ∧ st'.tfra = st.tfra ∧ st'.startOnMoof = st.startOnMoof :=
  Segments.group_segments_grow sidxOf items st st' h

/-- **styp delimits**: every styp box opens a new segment that starts at the styp's position -/
theorem styp_opens_segment (st : St) (it : Item) (sidxOf : Item → Option Sidx) (hk : it.kind = .styp) :
    ∃ st', addChild st it sidxOf = some st' ∧ st'.segs = st.segs ++ [{ startPos := it.pos, hasStyp := true, stypSize := it.size }] :=
  Segments.styp_opens_segment st it sidxOf hk

/-- **default mode** (no sidx, no tfra, flag off): a moof opens a segment only when none exists yet -/
theorem default_mode_single_segment (st : St) (it : Item) (sidxOf : Item → Option Sidx) (hk : it.kind = .moof)
    (hs : st.sidxs = []) (ht : st.tfra = none) (hf : st.startOnMoof = false) (hne : st.segs ≠ []) (st' : St)
    (h : addChild st it sidxOf = some st') : st'.segs.length = st.segs.length :=
  Segments.default_mode_single_segment st it sidxOf hk hs ht hf hne st' h

/-- **start-on-moof** (no sidx, no tfra): a moof that does not complete a fragment opened by an emsg opens a segment -/
theorem startOnMoof_opens (st : St) (it : Item) (sidxOf : Item → Option Sidx) (hk : it.kind = .moof)
    (hs : st.sidxs = []) (ht : st.tfra = none) (hf : st.startOnMoof = true)
    (hopen : ∀ s ∈ st.segs.getLast?, ∀ f ∈ s.frags.getLast?, f.moof.isSome) (st' : St)
    (h : addChild st it sidxOf = some st') : st'.segs.length = st.segs.length + 1 :=
  Segments.startOnMoof_opens st it sidxOf hk hs ht hf hopen st' h

/-- **several top-level sidx boxes delimit together**: segment number `k` of the file starts at `pos` exactly when
    `pos` is the `k`-th of the reference starts listed by all top-level sidx boxes in order (each box's references
    running from its own anchor point, a box counted up to its first reference_type 1 entry) — the reference counter
    of `startSegmentIfNeeded` runs on from one box to the next -/
theorem multi_sidx_delimits (sidxs : List Sidx) (pos k : Nat) :
    sidxStart sidxs pos k = true ↔ (allStarts sidxs)[k]? = some pos :=
  Segments.sidxStart_spec sidxs pos k

/-- … so in a sidx-delimited file a moof (not completing an emsg-opened fragment) opens a new segment iff it sits at
    the next listed reference start, whichever box lists it -/
theorem sidx_moof_step (st : St) (it : Item) (sidxOf : Item → Option Sidx) (hk : it.kind = .moof)
    (hs : st.sidxs ≠ []) (hne : st.segs ≠ []) (hop : isOpen st = false) (st' : St)
    (h : addChild st it sidxOf = some st') :
    st'.segs.length =
      st.segs.length + (if (allStarts st.sidxs)[st.segs.length]? = some it.pos then 1 else 0) :=
  Segments.sidx_moof_step st it sidxOf hk hs hne hop st' h

/-- non-vacuity: two boxes (anchors 100 and 130, the second one behind 30 bytes of media), 2 + 2 references; the
    third segment is the first reference of the second box -/
example : allStarts [⟨100, [(0, 10), (0, 20)]⟩, ⟨130, [(0, 5), (0, 7)]⟩] = [100, 110, 130, 135] := by decide
example : sidxStart [⟨100, [(0, 10), (0, 20)]⟩, ⟨130, [(0, 5), (0, 7)]⟩] 130 2 = true := by decide
/-- a parent box of reference_type 1 entries contributes no segment starts -/
example : allStarts [⟨60, [(1, 20), (1, 20)]⟩, ⟨100, [(0, 10)]⟩, ⟨110, [(0, 5)]⟩] = [100, 110] := by decide

/-- **the index tiles the media**: when the segments are contiguous, reference `i` (offset = sum of the earlier
    referenced sizes from the anchor) starts at the first byte of segment `i`, and the references end where the last
    segment ends -/
theorem sidx_tiles (starts sizes : List Nat) (hl : starts.length = sizes.length)
    (hc : ∀ i, i + 1 < starts.length → starts.getD (i + 1) 0 = starts.getD i 0 + sizes.getD i 0) :
    (∀ i, i < starts.length → starts.getD 0 0 + refStart sizes i = starts.getD i 0) ∧
    (starts ≠ [] → starts.getD 0 0 + sizes.sum = starts.getD (starts.length - 1) 0 + sizes.getD (sizes.length - 1) 0) :=
  Segments.sidx_tiles starts sizes hl hc

/-- non-vacuity: three contiguous segments of sizes 10, 20, 30 starting at byte 100 -/
example : ([100, 110, 130] : List Nat).getD 0 0 + refStart [10, 20, 30] 2 = 130 := by decide

/-- **the sizes UpdateSidx uses are the sizes that are written, and a new index sits at the first byte of the media**:
    a gap-free run of segment boxes (styp / emsg / moof / mdat) starting at byte `p`, grouped by `File.AddChild` under
    any delimiter configuration, no index yet. Then `UpdateSidx(addIfNotExists)` (1) places the new sidx directly in
    front of a box of the file that sits at byte `p` — whatever kind of box opens the first segment —, with
    first_offset 0, and (2) fills it with `MediaSegment.Size()` of every segment, and those references tile the run:
    reference `i` starts at the first byte of segment `i`, all of them end at the last byte of the run. -/
theorem updateSidx_new_index_tiles (sidxOf : Item → Option Sidx) (all items : List Item) (st0 st : St) (p : Nat)
    (others : List Nat) (o : IndexOut)
    (h0 : st0.segs = []) (hc : Contig items p) (hm : ∀ it ∈ items, segmentBox it.kind = true)
    (h : groupItems st0 sidxOf items = some st) (hs : st.sidxs = [])
    (hu : updateSidx all st true others = .index o) :
    o.firstOffset = 0 ∧
    (∃ j x, o.insertAt = some j ∧ all[j]? = some x ∧ x.pos = p) ∧
    o.sizes = st.segs.map Seg.size ∧
    (∀ i (hi : i < st.segs.length), p + refStart o.sizes i = (st.segs[i]).startPos) ∧
    p + o.sizes.sum = p + (items.map (·.size)).sum := by
  have hinv : Inv st p (p + (items.map (·.size)).sum) :=
    group_inv sidxOf items st0 st p p hc hm ⟨by simp [h0, Tiles], by simp [h0]⟩ h
  obtain ⟨r1, r2⟩ := tiles_refs st.segs p _ hinv.1
  unfold updateSidx at hu
  split at hu
  · cases hu
  · simp only [hs, ne_eq, not_true_eq_false, if_false, Bool.not_true, Bool.false_eq_true] at hu
    split at hu
    · cases hu
    · rename_i j hj
      simp only [UpdOut.index.injEq] at hu
      subst hu
      obtain ⟨x, hx, hp⟩ := insertIdx_at_start all st p _ j hinv hj
      exact ⟨rfl, ⟨j, x, rfl, hx, hp⟩, rfl, r1, r2⟩

/-- **an existing index is refilled with the written sizes**: same run of segment boxes; the references (from the
    first byte of the run) tile it -/
theorem updateSidx_sizes_tile (sidxOf : Item → Option Sidx) (all items : List Item) (st0 st : St) (p : Nat)
    (add : Bool) (others : List Nat) (o : IndexOut)
    (h0 : st0.segs = []) (hc : Contig items p) (hm : ∀ it ∈ items, segmentBox it.kind = true)
    (h : groupItems st0 sidxOf items = some st) (hu : updateSidx all st add others = .index o) :
    (∀ i (hi : i < st.segs.length), p + refStart o.sizes i = (st.segs[i]).startPos) ∧
    p + o.sizes.sum = p + (items.map (·.size)).sum := by
  have hinv : Inv st p (p + (items.map (·.size)).sum) :=
    group_inv sidxOf items st0 st p p hc hm ⟨by simp [h0, Tiles], by simp [h0]⟩ h
  have hsz : o.sizes = st.segs.map Seg.size := by
    unfold updateSidx at hu
    split at hu
    · cases hu
    · split at hu
      · simp only [UpdOut.index.injEq] at hu; subst hu; rfl
      · split at hu
        · cases hu
        · split at hu
          · cases hu
          · simp only [UpdOut.index.injEq] at hu; subst hu; rfl
  rw [hsz]
  exact tiles_refs st.segs p _ hinv.1

/-- non-vacuity: `emsg moof mdat | moof mdat` from byte 100 with the start-on-moof flag (two segments, the first one
    opened by the emsg), behind two init boxes: the new index goes in front of the emsg (top-level box number 2) -/
example :
    let media : List Item := [⟨.emsg, 100, 10⟩, ⟨.moof, 110, 20⟩, ⟨.mdat, 130, 5⟩, ⟨.moof, 135, 20⟩, ⟨.mdat, 155, 7⟩]
    let all : List Item := [⟨.ftyp, 0, 24⟩, ⟨.moov, 24, 76⟩] ++ media
    (groupItems { startOnMoof := true } (fun _ => none) media).map (fun st => updateSidx all st true []) =
      some (.index ⟨[35, 27], 0, some 2⟩) := by decide
/-- … and with an emsg of 40 bytes inserted into the second segment's fragment through `Fragment.AddEmsg` the second
    reference grows by 40 bytes; inserted into the first fragment of the first segment of a file without emsg it becomes
    the segment's first box, which `insertSidx` does not find among the boxes of the file (error return) -/
example :
    let media : List Item := [⟨.emsg, 100, 10⟩, ⟨.moof, 110, 20⟩, ⟨.mdat, 130, 5⟩, ⟨.moof, 135, 20⟩, ⟨.mdat, 155, 7⟩]
    let all : List Item := [⟨.ftyp, 0, 24⟩, ⟨.moov, 24, 76⟩] ++ media
    (groupItems { startOnMoof := true } (fun _ => none) media).map
      (fun st => updateSidx all (applyOps 162 st [.addEmsg 1 0 [40]]) true []) =
      some (.index ⟨[35, 67], 0, some 2⟩) := by decide
example :
    let media : List Item := [⟨.moof, 100, 20⟩, ⟨.mdat, 120, 5⟩]
    let all : List Item := [⟨.ftyp, 0, 24⟩, ⟨.moov, 24, 76⟩] ++ media
    (groupItems {} (fun _ => none) media).map
      (fun st => updateSidx all (applyOps 125 st [.addEmsg 0 0 [40]]) true []) = some .error := by decide
/-- the Go functions the models of this property transcribe (committed table `spec/transcribed.json`, checked against
    the current source by the extractor on every run) all still exist -/
theorem model_sources_exist :
    (["Boxes.lean", "Segments.lean"] : List String).all Mp4ff.Expect.presentFor = true := by decide +kernel

end Mp4ff.Segments.C12
