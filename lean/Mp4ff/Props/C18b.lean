import Mp4ff.Model.Esds
import Mp4ff.Model.Aac
import Mp4ff.Lemmas.Esds
/-!
# C18b — the `esds` box / MPEG-4 descriptor framing (last clause of C18; C01/C02/C04 clauses for this box)

Model: `Mp4ff/Model/Esds.lean` (transcription of mp4/esds.go + mp4/descriptors.go, reader = bits.FixedSliceReader).
Proofs: `Mp4ff/Lemmas/Esds.lean`.  All statements are for values of ANY length (no bound other than the ones
written in the hypotheses: sizes must fit their size field, the box must fit a 32-bit size, input < 2^63 bytes).
-/
namespace Mp4ff.C18b
open Mp4ff Mp4ff.Esds Mp4ff.Aac

/-! ## C02 clause: Size() = bytes written -/

/-- a descriptor's `EncodeSW` writes exactly `SizeSize()` bytes (any tree, well-formed or not) -/
theorem descriptor_size (d : Desc) : (encodeDesc d).length = d.sizeSize := encodeDesc_length d

/-- the ES descriptor's `EncodeSW` writes exactly `SizeSize()` bytes -/
theorem es_descriptor_size (e : ES) : (encodeES e).length = e.sizeSize := encodeES_length e

/-- `EsdsBox.Encode` writes exactly `Size()` bytes (header 8 + version/flags 4 + ES descriptor) -/
theorem esds_size (e : Esds) : (encodeEsdsBox e).length = sizeEsds e := encodeEsdsBox_length e

/-! ## C01 clause, direction 1: decode ∘ encode -/

/-- **decode ∘ encode = id** for every descriptor tree the encoder can emit and the decoder maps back to the same
    tree (`Esds.WF`: every size fits its size field of `sfs+1 ≤ 256` bytes — which includes the 4-byte padded
    0x80 0x80 0x80 nn form and any longer padding —, scalar fields fit their width, optional fields are absent
    when their flag is, a first optional descriptor is not of the kind that would be taken for the
    DecSpecificInfo / SLConfig slot, raw tags are not 3..6, UnknownData is empty, one byte, or starts with tag 3,
    and the box fits a 32-bit size) -/
theorem esds_decode_encode (e : Esds) (h : e.WF) : decodeEsds (encodeEsds e) = .ok e :=
  decodeEsds_encodeEsds e h

/-- … and bytes after the ES descriptor (inside the box payload, the box still fitting a 32-bit size) do not
    change the result -/
theorem esds_decode_encode_tail (e : Esds) (h : e.WF) (t : Bytes) (ht : 8 + (encodeEsds e ++ t).length < 2 ^ 32) :
    decodeEsds (encodeEsds e ++ t) = .ok e :=
  decodeEsds_encodeEsds_tail e h t ht

/-- the same one level down: `DecodeDescriptor` on the encoding of a well-formed descriptor followed by anything,
    with any fuel ≥ its size and any byte budget ≥ its size, returns the descriptor and stops right after it -/
theorem descriptor_decode_encode (n : Nat) (d : Desc) (t : Bytes) (p : Nat) (mx : Int) (hw : d.WF)
    (hn : d.sizeSize ≤ n) (h1 : (d.sizeSize : Int) ≤ mx) (h2 : mx < 2 ^ 62) :
    decodeDescriptor n ⟨encodeDesc d ++ t, p, none⟩ mx = (.ok d, ⟨t, p + d.sizeSize, none⟩) :=
  decodeDescriptor_enc n d t p mx hw hn h1 h2

/-- what `CreateEsdsBox(decConfig)` builds is well-formed for `decConfig` of up to 104 bytes (beyond that its
    one-byte size fields cannot carry the sizes and the Go encoder silently writes them modulo 128) -/
theorem createEsds_wf (x : Bytes) (h : x.length ≤ 104) : (createEsds x).WF := createEsds_WF x h

/-! ## C18, last clause -/

/-- **An AAC sample entry built from a configuration decodes back to that configuration**: for every configuration
    of the domain (object types 2/5/29, 16 channel configurations, any frequencies < 2^24), the esds box
    `CreateEsdsBox` builds from the encoded AudioSpecificConfig, written and decoded again, carries exactly those
    bytes as DecSpecificInfo, and they decode to the configuration (composition with `C18.asc_roundtrip`) -/
theorem aac_sample_entry_roundtrip (a : ASC) (h : AscDom a) :
    ∃ asc e, encodeASC a = some asc ∧ decodeEsds (encodeEsds (createEsds asc)) = .ok e
      ∧ e.es.dc.dsi = some (0, asc) ∧ decodeASC asc = .ok a :=
  esds_asc_roundtrip a h

/-- an encoded AudioSpecificConfig is at most 10 bytes long (so `CreateEsdsBox` is within its 104-byte domain) -/
theorem asc_length (a : ASC) (bs : Bytes) (h : encodeASC a = some bs) : bs.length ≤ 10 := encodeASC_length a bs h

/-! ## C01 clause, direction 2: encode ∘ decode -/

/-- **encode ∘ decode**: every payload the decoder accepts is `encodeEsds (decoded) ++ t`: the encoder reproduces the
    accepted bytes exactly — size-field lengths included, the padded forms are kept — up to the end of the ES
    descriptor; the only normalisation is that the bytes `t` after the ES descriptor are dropped (the committed
    C01 don't-care "payload bytes after the last field").  Holds for the worktree with fixes 4df1f4a, 24eac13 and
    0fa6982; the pinned tree additionally (a) read probes beyond the enclosing descriptor, (b) lost size-field bits
    beyond 64 and (c) wrapped the size-field length counter at 256 — see REPORT. -/
theorem esds_encode_decode (bs : Bytes) (hb : IsBytes bs) (hl : bs.length < 2 ^ 63) (e : Esds)
    (h : decodeEsds bs = .ok e) : ∃ t, bs = encodeEsds e ++ t :=
  encodeEsds_decodeEsds bs hb hl e h

/-! ## C04 clause: totality and linear size -/

/-- **totality**: `decodeEsds` is a total function (structural recursion on fuel) and the fuel it supplies,
    `input length + 1`, is never exhausted: on every byte string the result is a tree or one of the Go errors.
    (Each `DecodeDescriptor` call and each loop iteration that continues consumes at least 2 bytes — tag and one
    size byte — while the fuel drops by 1.) -/
theorem esds_decoder_total (bs : Bytes) : decodeEsds bs ≠ .error .fuel := decodeEsds_total bs

/-- any larger fuel does not run out either -/
theorem esds_decoder_total_fuel (n : Nat) (bs : Bytes) (h : bs.length < n) : decodeEsdsFuel n bs ≠ .error .fuel :=
  decodeEsdsFuel_total n bs h

/-- **linear size**: 2 × (number of descriptors in the decoded tree) + all variable-length content it holds
    (DecSpecificInfo, SLConfig extra data, raw payloads, UnknownData at both levels, URL string) ≤ input length -/
theorem esds_decoded_size_linear (bs : Bytes) (e : Esds) (h : decodeEsds bs = .ok e) : e.es.weight ≤ bs.length :=
  decodeEsds_weight bs e h

/-! ## non-vacuity -/

/-- `CreateEsdsBox([0x11, 0x90])` (AAC-LC 48 kHz stereo) -/
example : (createEsds [0x11, 0x90]).WF := createEsds_WF _ (by decide)
example : encodeEsdsBox (createEsds [0x11, 0x90])
    = [0, 0, 0, 0x27, 0x65, 0x73, 0x64, 0x73, 0, 0, 0, 0, 3, 0x19, 0, 1, 0, 4, 0x11, 0x40, 0x15, 0, 0, 0, 0, 0, 0, 0,
       0, 0, 0, 0, 5, 2, 0x11, 0x90, 6, 1, 2] := by decide
example : sizeEsds (createEsds [0x11, 0x90]) = 39 := by decide

/-- a tree using the 4-byte padded size form (as ffmpeg writes), a URL, an OCR id, an extra raw descriptor in the
    DecoderConfig, an SLConfig with extra data, a nested DecoderConfig among the ES-level optional descriptors and
    UnknownData at both levels -/
def sample : Esds :=
  { version := 0, flags := 0,
    es := { sfs := 3, esId := 2, flags := 0x60, dependsOn := 0, url := [0x61, 0x62], ocr := 7,
            dc := ⟨3, 0x40, 0x15, 0x001800, 128000, 96000, some (3, [0x12, 0x10]), [3]⟩,
            dcOthers := [.raw 0x7f 0 [1, 2, 3]],
            sl := some (3, 2, [9]),
            others := [.dc ⟨0, 0x6b, 0x15, 0, 0, 0, none, []⟩ [], .dsi 1 [0xaa]],
            unk := [0xfe] } }

theorem sample_wf : sample.WF := by
  refine ⟨by decide, by decide, ⟨?_, by decide, by decide, by decide, by decide, by decide, ?_, ?_, ?_, ?_, ?_⟩, by decide⟩
  · simp [sample, SzOK, ES.size, flagDep, flagUrl, flagOcr, Desc.sizeSize, Desc.sfsOf, Desc.size, dsiSizeSize,
      slSizeSize, sizeSizes]
  · simp [sample, Desc.WF, SzOK, Desc.size, dsiSizeSize, sizeSizes, DsiWF, WFs, UnkOK, headNot, Desc.sfsOf]
  · simp [sample, SlWF, SzOK]
  · simp [sample, WFs, Desc.WF, SzOK, Desc.size, dsiSizeSize, sizeSizes, DsiWF, UnkOK, headNot]
  · simp [sample]
  · simp [sample, UnkOK]

example : decodeEsds (encodeEsds sample) = .ok sample := esds_decode_encode sample sample_wf
example : (encodeEsds sample).length = 75 := by decide
example : sample.es.weight ≤ (encodeEsds sample).length := esds_decoded_size_linear _ _ (esds_decode_encode sample sample_wf)

/-- the hypotheses of `esds_encode_decode` are satisfiable, with a non-empty dropped tail -/
example : ∃ bs e t, IsBytes bs ∧ bs.length < 2 ^ 63 ∧ decodeEsds bs = .ok e ∧ bs = encodeEsds e ++ t ∧ t ≠ [] := by
  refine ⟨encodeEsds (createEsds [0x11, 0x90]) ++ [0xde, 0xad], createEsds [0x11, 0x90], [0xde, 0xad],
    by unfold IsBytes; decide, by decide, esds_decode_encode_tail _ (createEsds_WF _ (by decide)) _ (by decide), rfl, by decide⟩

example : AscDom ⟨29, 1, 22050, 44100, true, true⟩ := by simp [AscDom]
example : decodeEsds [] = .error .tagES := by rfl
example : decodeEsds [0, 0, 0, 0, 3, 0x80] = .error (.acc .eof) := by rfl
example : decodeEsds [0, 0, 0, 0, 3, 0x19, 0, 1, 0] = .error (.exceeds 3) := by rfl

end Mp4ff.C18b
