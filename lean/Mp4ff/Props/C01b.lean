import Mp4ff.Lemmas.Tree
/-!
C01 / C02 at every level of nesting: property theorems about `Model/Tree.lean` (`DecodeBox` + `Encode` on one box
that may be a plain container: moov, trak, mdia, minf, stbl, dinf, edts, mvex, moof, traf, mfra, udta, sinf, schi, ludt).
Proofs in `Mp4ff/Lemmas/Tree.lean`.
-/
namespace Mp4ff.TreeRT.C01b
open Mp4ff Mp4ff.Boxes Mp4ff.TreeRT

/-- **nothing is dropped inside a container**: whenever a container is accepted and re-encoded, the output has
    exactly the input's length (every child re-encodes to the bytes it occupied, `MoovBox.AddChild` only permutes) -/
theorem container_length (f : Nat) (bs : Bytes) (enc : Bytes) (dc : List Nat) (ty : String) (hl size : Nat)
    (hh : parseHeader bs = some (ty, hl, size)) (hc : containers.contains ty = true)
    (h : rtBox f bs = .ok enc dc) : enc.length = bs.length :=
  TreeRT.container_length f bs enc dc ty hl size hh hc h

/-- **C02 at this level and below**: the size field written in the header equals the number of bytes written, the
    type is unchanged, and nothing grows -/
theorem header_field (f : Nat) (bs : Bytes) (hb : IsBytes bs) (enc : Bytes) (dc : List Nat)
    (hsz : bs.length < 2 ^ 32) (h : rtBox f bs = .ok enc dc) :
    beVal (enc.take 4) = enc.length ∧ (enc.drop 4).take 4 = (bs.drop 4).take 4 ∧ enc.length ≤ bs.length :=
  TreeRT.header_field f bs hb enc dc hsz h

/-- **C01 through nesting**: with no `moov` reordering on the way, the re-encoded tree equals the input at every
    position outside the don't-care positions collected from the leaves (shifted to their place in the tree) -/
theorem lossless (f : Nat) (bs : Bytes) (hb : IsBytes bs) (enc : Bytes) (dc : List Nat)
    (hsz : bs.length < 2 ^ 32) (h8 : beVal (bs.take 4) ≠ 1) (hm : moovFree f bs = true)
    (h : rtBox f bs = .ok enc dc) :
    ∀ i, 8 ≤ i → i < enc.length → i ∉ dc → enc[i]? = bs[i]? :=
  TreeRT.lossless f bs hb enc dc hsz h8 hm h

/-- more fuel never changes an answer other than "out of fuel" (`rejected` at fuel 0) -/
theorem fuel_mono (f g : Nat) (hfg : f ≤ g) (bs : Bytes) (enc : Bytes) (dc : List Nat)
    (h : rtBox f bs = .ok enc dc) : rtBox g bs = .ok enc dc :=
  TreeRT.fuel_mono f g hfg bs enc dc h

/-- the fuel `roundTripTree` uses suffices: a larger fuel gives the same accepted result, so `roundTripTree` is the
    unbounded recursion wherever it accepts -/
theorem roundTripTree_stable (bs : Bytes) (enc : Bytes) (dc : List Nat) (g : Nat) (hg : bs.length + 2 ≤ g)
    (h : roundTripTree bs = .ok enc dc) : rtBox g bs = .ok enc dc :=
  TreeRT.roundTripTree_stable bs enc dc g hg h

/-- **fixed point through nesting** (C01's second sentence): when nothing was dropped at the top (the output has the
    input's length) and no `moov` reordering happens on the way, decoding the re-encoded tree again succeeds and
    re-encoding it gives exactly the same bytes -/
theorem fixed_point (f : Nat) (bs : Bytes) (hb : IsBytes bs) (enc : Bytes) (dc : List Nat)
    (hsz : bs.length < 2 ^ 32) (h8 : beVal (bs.take 4) ≠ 1) (hm : moovFree f bs = true)
    (h : rtBox f bs = .ok enc dc) (hlen : enc.length = bs.length) :
    ∃ dc', rtBox f enc = .ok enc dc' :=
  TreeRT.fixed_point f bs hb enc dc hsz h8 hm h hlen

/-- **what `MoovBox.AddChild` may do to the order** (the committed trak-adjacent normalisation): whatever the children of
    a moov box are, after all `AddChild` calls the trak boxes are in their original relative order and so are all the
    other children — nothing is lost, duplicated or altered, only traks move next to each other -/
theorem moov_order (kids : List Kid) :
    (arrange "moov" kids).filter (fun k => k.ty == "trak") = kids.filter (fun k => k.ty == "trak") ∧
    (arrange "moov" kids).filter (fun k => !(k.ty == "trak")) = kids.filter (fun k => !(k.ty == "trak")) :=
  TreeRT.moov_order kids

/-- non-vacuity: a concrete nested tree (traf [tfhd, tfdt]) is accepted and reproduced -/
example : (match roundTripTree ([0,0,0,0x2c] ++ [0x74,0x72,0x61,0x66] ++
      ([0,0,0,0x10] ++ [0x74,0x66,0x68,0x64] ++ [0,0,0,0, 0,0,0,1]) ++
      ([0,0,0,0x14] ++ [0x74,0x66,0x64,0x74] ++ [1,0,0,0, 0,0,0,0,0,0,0,9])) with
    | .ok enc _ => enc.length | _ => 0) = 44 := by decide

end Mp4ff.TreeRT.C01b
