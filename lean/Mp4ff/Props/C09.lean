import Mp4ff.Model.SampleTables
import Mp4ff.Lemmas.C09A
import Mp4ff.Lemmas.C09B
import Mp4ff.Expect.Transcribed
/-!
# C09 — sample-table queries agree with the ISO 14496-12 table semantics
Property theorems (specification definitions and proofs in `Mp4ff/Lemmas/C09A.lean`, `C09B.lean`): every query
of the transcribed Go code equals the naive per-sample expansion of the tables, for every sample number, every
interval, every chunk and every time.
-/
namespace Mp4ff.Stbl.C09

/-- the naive expansion of a run-length table has one value per sample -/
theorem expandRuns_length {α} (counts : List Nat) (vals : List α) (h : counts.length = vals.length) :
    (expandRuns counts vals).length = counts.sum := by
  induction counts generalizing vals with
  | nil => simp [expandRuns]
  | cons c cs ih =>
    cases vals with
    | nil => simp at h
    | cons v vs =>
      simp only [List.length_cons, Nat.add_right_cancel_iff] at h
      have := ih vs h
      simp only [expandRuns] at this ⊢
      simp [List.zip_cons_cons, List.flatMap_cons, this]

/-- **decode time and duration** of every sample 1..N = sum of the earlier durations / own duration -/
theorem getDecodeTime_spec (b : Stts) (h : b.OK) (n : Nat) (h1 : 1 ≤ n) (hn : n ≤ b.durations.length) :
    b.getDecodeTime n = some (naiveDecodeTime b.durations n, b.durations.getD (n - 1) 0) :=
  Stbl.getDecodeTime_spec b h n h1 hn

theorem getDur_spec (b : Stts) (h : b.OK) (n : Nat) (h1 : 1 ≤ n) (hn : n ≤ b.durations.length) :
    b.getDur n = some (b.durations.getD (n - 1) 0) := Stbl.getDur_spec b h n h1 hn

/-- **sample at a time**: the least k in 1..N+1 whose start time is ≥ t (N+1 = the virtual sample at the end of
    the track, as documented and unit-tested upstream), for every t before the end; from the end on, an error -/
theorem getSampleNrAtTime_spec (b : Stts) (h : b.OK) (hpos : ∀ d ∈ b.delta, 0 < d) (hc : ∀ c ∈ b.count, 0 < c)
    (hN : b.durations.length + 1 < U32) (t : Nat) :
    (t < b.durations.sum →
      ∃ k, b.getSampleNrAtTime t = some k ∧ 1 ≤ k ∧ k ≤ b.durations.length + 1 ∧
        t ≤ startTime b.durations k ∧ ∀ j, 1 ≤ j → j < k → startTime b.durations j < t) ∧
    (b.durations.sum ≤ t → b.getSampleNrAtTime t = none) :=
  Stbl.getSampleNrAtTime_spec b h hpos hc hN t

/-- **composition offset** (ctts v0/v1, zero-count entries allowed; binary search over cumulative ends) -/
theorem getCto_spec (counts : List Nat) (offs : List Int) (hl : counts.length = offs.length)
    (hs : counts.sum < U32) (n : Nat) (h1 : 1 ≤ n) (hn : n ≤ counts.sum) :
    (Ctts.ofCounts counts offs).getCto n = (expandRuns counts offs)[n - 1]? :=
  Stbl.getCto_spec counts offs hl hs n h1 hn

/-- **sync status** -/
theorem isSyncSample_spec (nums : List Nat) (hs : nums.Pairwise (· < ·)) (n : Nat) :
    isSyncSample nums n = decide (n ∈ nums) := Stbl.isSyncSample_spec nums hs n

/-- **size and total size** (uniform or explicit stsz) -/
theorem getSampleSize_spec (b : Stsz) (h : b.OK) (n : Nat) (h1 : 1 ≤ n) (hn : n ≤ b.sampleNumber) :
    b.getSampleSize n = some (b.sizeOf n) := Stbl.getSampleSize_spec b h n h1 hn

theorem getTotalSampleSize_spec (b : Stsz) (h : b.OK) (a c : Nat) (h1 : 1 ≤ a) (hac : a ≤ c + 1) (hn : c ≤ b.sampleNumber) :
    b.getTotalSampleSize a c = some (((List.range' a (c + 1 - a)).map b.sizeOf).sum) :=
  Stbl.getTotalSampleSize_spec b h a c h1 hac hn

/-- **chunk offset** (stco / co64) -/
theorem getOffset_spec (offs : List Nat) (c : Nat) :
    getOffset offs c = if 1 ≤ c ∧ c ≤ offs.length then offs[c - 1]? else none := Stbl.getOffset_spec offs c

/-- **chunk contents** -/
theorem getChunk_spec (raw : List (Nat × Nat × Nat)) (h : RawOK raw) (cmax c : Nat) (hw : NoWrap raw cmax)
    (h1 : 1 ≤ c) (hc : c ≤ cmax) :
    (Stsc.ofRaw raw).getChunk c = some ⟨c, firstSampleOf raw c, spcOf raw c⟩ :=
  Stbl.getChunk_spec raw h cmax c hw h1 hc

/-- **sample description id of a chunk** (= of every sample of the chunk): the id of the last stsc entry whose
    first_chunk is not above the chunk number -/
theorem getSampleDescriptionID_spec (raw : List (Nat × Nat × Nat)) (h : RawOK raw) (cmax c : Nat) (hw : NoWrap raw cmax)
    (h1 : 1 ≤ c) (hc : c ≤ cmax) :
    (Stsc.ofRaw raw).getSampleDescriptionID c = some (sdiOf raw c) :=
  Stbl.getSampleDescriptionID_spec raw h cmax c hw h1 hc

/-- **chunk of a sample** -/
theorem chunkNrFromSampleNr_spec (raw : List (Nat × Nat × Nat)) (h : RawOK raw) (cmax c n : Nat) (hw : NoWrap raw cmax)
    (h1 : 1 ≤ c) (hc : c ≤ cmax) (hlo : firstSampleOf raw c ≤ n) (hhi : n < firstSampleOf raw (c + 1)) :
    (Stsc.ofRaw raw).chunkNrFromSampleNr n = some (c, firstSampleOf raw c) :=
  Stbl.chunkNrFromSampleNr_spec raw h cmax c n hw h1 hc hlo hhi

/-- **containing chunks of a sample interval** -/
theorem getContainingChunks_spec (raw : List (Nat × Nat × Nat)) (h : RawOK raw) (cmax ca cb a b : Nat)
    (hw : NoWrap raw cmax) (h1 : 1 ≤ ca) (hab : a ≤ b) (hcab : ca ≤ cb) (hc : cb ≤ cmax)
    (ha1 : firstSampleOf raw ca ≤ a) (ha2 : a < firstSampleOf raw (ca + 1))
    (hb1 : firstSampleOf raw cb ≤ b) (hb2 : b < firstSampleOf raw (cb + 1)) :
    (Stsc.ofRaw raw).getContainingChunks a b =
      some ((List.range' ca (cb + 1 - ca)).map fun c => ⟨c, firstSampleOf raw c, spcOf raw c⟩) :=
  Stbl.getContainingChunks_spec raw h cmax ca cb a b hw h1 hab hcab hc ha1 ha2 hb1 hb2

/-- **byte ranges of a sample interval**: concatenated, they are exactly the bytes of samples a..b in order -/
theorem getRanges_spec (t : Tables) (raw : List (Nat × Nat × Nat)) (hraw : t.stsc = Stsc.ofRaw raw) (h : RawOK raw)
    (hw : NoWrap raw t.offsets.length)
    (hsz : (t.stsz.uniform = 0 → t.stsz.sizes.length = t.stsz.sampleNumber) ∧ (t.stsz.uniform ≠ 0 → t.stsz.sizes = []))
    (hN : firstSampleOf raw (t.offsets.length + 1) = t.stsz.sampleNumber + 1)
    (hbytes : ∀ c, 1 ≤ c → c ≤ t.offsets.length →
       t.offsets.getD (c - 1) 0 + t.stsz.sampleNumber * (if t.stsz.uniform ≠ 0 then t.stsz.uniform else t.stsz.sizes.foldl max 0) < U64)
    (a b : Nat) (h1 : 1 ≤ a) (hab : a ≤ b) (hb : b ≤ t.stsz.sampleNumber) :
    ∃ rs, t.getRanges a b = some rs ∧
      rs.flatMap positions =
        (List.range' a (b + 1 - a)).flatMap fun n =>
          positions (sampleOffset raw t.offsets t.stsz (chunkOfSample raw t.offsets.length n) n,
                     if t.stsz.uniform ≠ 0 then t.stsz.uniform else t.stsz.sizes.getD (n - 1) 0) :=
  Stbl.getRanges_spec t raw hraw h hw hsz hN hbytes a b h1 hab hb

/-! non-vacuity -/
example : RawOK [(1, 3, 1), (3, 2, 1), (4, 5, 2), (6, 1, 1)] := by
  refine ⟨by simp, by simp, by simp, ?_⟩
  intro e he; simp at he; rcases he with h | h | h | h <;> subst h <;> simp
example : (⟨[3, 2, 1], [10, 14, 5]⟩ : Stts).OK := by
  refine ⟨rfl, ?_⟩
  decide

/-- the Go functions the models of this property transcribe (committed table `spec/transcribed.json`, checked against
    the current source by the extractor on every run) all still exist -/
theorem model_sources_exist :
    (["SampleTables.lean"] : List String).all Mp4ff.Expect.presentFor = true := by decide +kernel

end Mp4ff.Stbl.C09
